
(** val negb : bool -> bool **)

let negb = function
| true -> false
| false -> true

type nat =
| O
| S of nat

(** val fst : ('a1 * 'a2) -> 'a1 **)

let fst = function
| (x, _) -> x

(** val snd : ('a1 * 'a2) -> 'a2 **)

let snd = function
| (_, y) -> y

(** val app : 'a1 list -> 'a1 list -> 'a1 list **)

let rec app l m =
  match l with
  | [] -> m
  | a :: l1 -> a :: (app l1 m)

type comparison =
| Eq
| Lt
| Gt

(** val compOpp : comparison -> comparison **)

let compOpp = function
| Eq -> Eq
| Lt -> Gt
| Gt -> Lt

module Coq__1 = struct
 (** val add : nat -> nat -> nat **)
 let rec add n0 m =
   match n0 with
   | O -> m
   | S p -> S (add p m)
end
include Coq__1

type positive =
| XI of positive
| XO of positive
| XH

type n =
| N0
| Npos of positive

type z =
| Z0
| Zpos of positive
| Zneg of positive

module Pos =
 struct
  type mask =
  | IsNul
  | IsPos of positive
  | IsNeg
 end

module Coq_Pos =
 struct
  (** val succ : positive -> positive **)

  let rec succ = function
  | XI p -> XO (succ p)
  | XO p -> XI p
  | XH -> XO XH

  (** val add : positive -> positive -> positive **)

  let rec add x y =
    match x with
    | XI p ->
      (match y with
       | XI q -> XO (add_carry p q)
       | XO q -> XI (add p q)
       | XH -> XO (succ p))
    | XO p ->
      (match y with
       | XI q -> XI (add p q)
       | XO q -> XO (add p q)
       | XH -> XI p)
    | XH -> (match y with
             | XI q -> XO (succ q)
             | XO q -> XI q
             | XH -> XO XH)

  (** val add_carry : positive -> positive -> positive **)

  and add_carry x y =
    match x with
    | XI p ->
      (match y with
       | XI q -> XI (add_carry p q)
       | XO q -> XO (add_carry p q)
       | XH -> XI (succ p))
    | XO p ->
      (match y with
       | XI q -> XO (add_carry p q)
       | XO q -> XI (add p q)
       | XH -> XO (succ p))
    | XH ->
      (match y with
       | XI q -> XI (succ q)
       | XO q -> XO (succ q)
       | XH -> XI XH)

  (** val pred_double : positive -> positive **)

  let rec pred_double = function
  | XI p -> XI (XO p)
  | XO p -> XI (pred_double p)
  | XH -> XH

  (** val pred_N : positive -> n **)

  let pred_N = function
  | XI p -> Npos (XO p)
  | XO p -> Npos (pred_double p)
  | XH -> N0

  type mask = Pos.mask =
  | IsNul
  | IsPos of positive
  | IsNeg

  (** val succ_double_mask : mask -> mask **)

  let succ_double_mask = function
  | IsNul -> IsPos XH
  | IsPos p -> IsPos (XI p)
  | IsNeg -> IsNeg

  (** val double_mask : mask -> mask **)

  let double_mask = function
  | IsPos p -> IsPos (XO p)
  | x0 -> x0

  (** val double_pred_mask : positive -> mask **)

  let double_pred_mask = function
  | XI p -> IsPos (XO (XO p))
  | XO p -> IsPos (XO (pred_double p))
  | XH -> IsNul

  (** val sub_mask : positive -> positive -> mask **)

  let rec sub_mask x y =
    match x with
    | XI p ->
      (match y with
       | XI q -> double_mask (sub_mask p q)
       | XO q -> succ_double_mask (sub_mask p q)
       | XH -> IsPos (XO p))
    | XO p ->
      (match y with
       | XI q -> succ_double_mask (sub_mask_carry p q)
       | XO q -> double_mask (sub_mask p q)
       | XH -> IsPos (pred_double p))
    | XH -> (match y with
             | XH -> IsNul
             | _ -> IsNeg)

  (** val sub_mask_carry : positive -> positive -> mask **)

  and sub_mask_carry x y =
    match x with
    | XI p ->
      (match y with
       | XI q -> succ_double_mask (sub_mask_carry p q)
       | XO q -> double_mask (sub_mask p q)
       | XH -> IsPos (pred_double p))
    | XO p ->
      (match y with
       | XI q -> double_mask (sub_mask_carry p q)
       | XO q -> succ_double_mask (sub_mask_carry p q)
       | XH -> double_pred_mask p)
    | XH -> IsNeg

  (** val mul : positive -> positive -> positive **)

  let rec mul x y =
    match x with
    | XI p -> add y (XO (mul p y))
    | XO p -> XO (mul p y)
    | XH -> y

  (** val iter : ('a1 -> 'a1) -> 'a1 -> positive -> 'a1 **)

  let rec iter f x = function
  | XI n' -> f (iter f (iter f x n') n')
  | XO n' -> iter f (iter f x n') n'
  | XH -> f x

  (** val compare_cont : comparison -> positive -> positive -> comparison **)

  let rec compare_cont r x y =
    match x with
    | XI p ->
      (match y with
       | XI q -> compare_cont r p q
       | XO q -> compare_cont Gt p q
       | XH -> Gt)
    | XO p ->
      (match y with
       | XI q -> compare_cont Lt p q
       | XO q -> compare_cont r p q
       | XH -> Gt)
    | XH -> (match y with
             | XH -> r
             | _ -> Lt)

  (** val compare : positive -> positive -> comparison **)

  let compare =
    compare_cont Eq

  (** val eqb : positive -> positive -> bool **)

  let rec eqb p q =
    match p with
    | XI p0 -> (match q with
                | XI q0 -> eqb p0 q0
                | _ -> false)
    | XO p0 -> (match q with
                | XO q0 -> eqb p0 q0
                | _ -> false)
    | XH -> (match q with
             | XH -> true
             | _ -> false)

  (** val coq_Nsucc_double : n -> n **)

  let coq_Nsucc_double = function
  | N0 -> Npos XH
  | Npos p -> Npos (XI p)

  (** val coq_Ndouble : n -> n **)

  let coq_Ndouble = function
  | N0 -> N0
  | Npos p -> Npos (XO p)

  (** val coq_lor : positive -> positive -> positive **)

  let rec coq_lor p q =
    match p with
    | XI p0 ->
      (match q with
       | XI q0 -> XI (coq_lor p0 q0)
       | XO q0 -> XI (coq_lor p0 q0)
       | XH -> p)
    | XO p0 ->
      (match q with
       | XI q0 -> XI (coq_lor p0 q0)
       | XO q0 -> XO (coq_lor p0 q0)
       | XH -> XI p0)
    | XH -> (match q with
             | XO q0 -> XI q0
             | _ -> q)

  (** val coq_land : positive -> positive -> n **)

  let rec coq_land p q =
    match p with
    | XI p0 ->
      (match q with
       | XI q0 -> coq_Nsucc_double (coq_land p0 q0)
       | XO q0 -> coq_Ndouble (coq_land p0 q0)
       | XH -> Npos XH)
    | XO p0 ->
      (match q with
       | XI q0 -> coq_Ndouble (coq_land p0 q0)
       | XO q0 -> coq_Ndouble (coq_land p0 q0)
       | XH -> N0)
    | XH -> (match q with
             | XO _ -> N0
             | _ -> Npos XH)

  (** val ldiff : positive -> positive -> n **)

  let rec ldiff p q =
    match p with
    | XI p0 ->
      (match q with
       | XI q0 -> coq_Ndouble (ldiff p0 q0)
       | XO q0 -> coq_Nsucc_double (ldiff p0 q0)
       | XH -> Npos (XO p0))
    | XO p0 ->
      (match q with
       | XI q0 -> coq_Ndouble (ldiff p0 q0)
       | XO q0 -> coq_Ndouble (ldiff p0 q0)
       | XH -> Npos p)
    | XH -> (match q with
             | XO _ -> Npos XH
             | _ -> N0)

  (** val coq_lxor : positive -> positive -> n **)

  let rec coq_lxor p q =
    match p with
    | XI p0 ->
      (match q with
       | XI q0 -> coq_Ndouble (coq_lxor p0 q0)
       | XO q0 -> coq_Nsucc_double (coq_lxor p0 q0)
       | XH -> Npos (XO p0))
    | XO p0 ->
      (match q with
       | XI q0 -> coq_Nsucc_double (coq_lxor p0 q0)
       | XO q0 -> coq_Ndouble (coq_lxor p0 q0)
       | XH -> Npos (XI p0))
    | XH ->
      (match q with
       | XI q0 -> Npos (XO q0)
       | XO q0 -> Npos (XI q0)
       | XH -> N0)

  (** val shiftl : positive -> n -> positive **)

  let shiftl p = function
  | N0 -> p
  | Npos n1 -> iter (fun x -> XO x) p n1

  (** val testbit : positive -> n -> bool **)

  let rec testbit p n0 =
    match p with
    | XI p0 -> (match n0 with
                | N0 -> true
                | Npos n1 -> testbit p0 (pred_N n1))
    | XO p0 -> (match n0 with
                | N0 -> false
                | Npos n1 -> testbit p0 (pred_N n1))
    | XH -> (match n0 with
             | N0 -> true
             | Npos _ -> false)

  (** val iter_op : ('a1 -> 'a1 -> 'a1) -> positive -> 'a1 -> 'a1 **)

  let rec iter_op op0 p a =
    match p with
    | XI p0 -> op0 a (iter_op op0 p0 (op0 a a))
    | XO p0 -> iter_op op0 p0 (op0 a a)
    | XH -> a

  (** val to_nat : positive -> nat **)

  let to_nat x =
    iter_op Coq__1.add x (S O)
 end

module N =
 struct
  (** val succ_double : n -> n **)

  let succ_double = function
  | N0 -> Npos XH
  | Npos p -> Npos (XI p)

  (** val double : n -> n **)

  let double = function
  | N0 -> N0
  | Npos p -> Npos (XO p)

  (** val succ : n -> n **)

  let succ = function
  | N0 -> Npos XH
  | Npos p -> Npos (Coq_Pos.succ p)

  (** val pred : n -> n **)

  let pred = function
  | N0 -> N0
  | Npos p -> Coq_Pos.pred_N p

  (** val add : n -> n -> n **)

  let add n0 m =
    match n0 with
    | N0 -> m
    | Npos p -> (match m with
                 | N0 -> n0
                 | Npos q -> Npos (Coq_Pos.add p q))

  (** val sub : n -> n -> n **)

  let sub n0 m =
    match n0 with
    | N0 -> N0
    | Npos n' ->
      (match m with
       | N0 -> n0
       | Npos m' ->
         (match Coq_Pos.sub_mask n' m' with
          | Coq_Pos.IsPos p -> Npos p
          | _ -> N0))

  (** val mul : n -> n -> n **)

  let mul n0 m =
    match n0 with
    | N0 -> N0
    | Npos p -> (match m with
                 | N0 -> N0
                 | Npos q -> Npos (Coq_Pos.mul p q))

  (** val compare : n -> n -> comparison **)

  let compare n0 m =
    match n0 with
    | N0 -> (match m with
             | N0 -> Eq
             | Npos _ -> Lt)
    | Npos n' -> (match m with
                  | N0 -> Gt
                  | Npos m' -> Coq_Pos.compare n' m')

  (** val eqb : n -> n -> bool **)

  let eqb n0 m =
    match n0 with
    | N0 -> (match m with
             | N0 -> true
             | Npos _ -> false)
    | Npos p -> (match m with
                 | N0 -> false
                 | Npos q -> Coq_Pos.eqb p q)

  (** val leb : n -> n -> bool **)

  let leb x y =
    match compare x y with
    | Gt -> false
    | _ -> true

  (** val ltb : n -> n -> bool **)

  let ltb x y =
    match compare x y with
    | Lt -> true
    | _ -> false

  (** val max : n -> n -> n **)

  let max n0 n' =
    match compare n0 n' with
    | Gt -> n0
    | _ -> n'

  (** val div2 : n -> n **)

  let div2 = function
  | N0 -> N0
  | Npos p0 -> (match p0 with
                | XI p -> Npos p
                | XO p -> Npos p
                | XH -> N0)

  (** val pos_div_eucl : positive -> n -> n * n **)

  let rec pos_div_eucl a b =
    match a with
    | XI a' ->
      let (q, r) = pos_div_eucl a' b in
      let r' = succ_double r in
      if leb b r' then ((succ_double q), (sub r' b)) else ((double q), r')
    | XO a' ->
      let (q, r) = pos_div_eucl a' b in
      let r' = double r in
      if leb b r' then ((succ_double q), (sub r' b)) else ((double q), r')
    | XH ->
      (match b with
       | N0 -> (N0, (Npos XH))
       | Npos p -> (match p with
                    | XH -> ((Npos XH), N0)
                    | _ -> (N0, (Npos XH))))

  (** val div_eucl : n -> n -> n * n **)

  let div_eucl a b =
    match a with
    | N0 -> (N0, N0)
    | Npos na -> (match b with
                  | N0 -> (N0, a)
                  | Npos _ -> pos_div_eucl na b)

  (** val div : n -> n -> n **)

  let div a b =
    fst (div_eucl a b)

  (** val modulo : n -> n -> n **)

  let modulo a b =
    snd (div_eucl a b)

  (** val coq_lor : n -> n -> n **)

  let coq_lor n0 m =
    match n0 with
    | N0 -> m
    | Npos p -> (match m with
                 | N0 -> n0
                 | Npos q -> Npos (Coq_Pos.coq_lor p q))

  (** val coq_land : n -> n -> n **)

  let coq_land n0 m =
    match n0 with
    | N0 -> N0
    | Npos p -> (match m with
                 | N0 -> N0
                 | Npos q -> Coq_Pos.coq_land p q)

  (** val ldiff : n -> n -> n **)

  let ldiff n0 m =
    match n0 with
    | N0 -> N0
    | Npos p -> (match m with
                 | N0 -> n0
                 | Npos q -> Coq_Pos.ldiff p q)

  (** val coq_lxor : n -> n -> n **)

  let coq_lxor n0 m =
    match n0 with
    | N0 -> m
    | Npos p -> (match m with
                 | N0 -> n0
                 | Npos q -> Coq_Pos.coq_lxor p q)

  (** val shiftl : n -> n -> n **)

  let shiftl a n0 =
    match a with
    | N0 -> N0
    | Npos a0 -> Npos (Coq_Pos.shiftl a0 n0)

  (** val shiftr : n -> n -> n **)

  let shiftr a = function
  | N0 -> a
  | Npos p -> Coq_Pos.iter div2 a p

  (** val testbit : n -> n -> bool **)

  let testbit a n0 =
    match a with
    | N0 -> false
    | Npos p -> Coq_Pos.testbit p n0

  (** val to_nat : n -> nat **)

  let to_nat = function
  | N0 -> O
  | Npos p -> Coq_Pos.to_nat p

  (** val ones : n -> n **)

  let ones n0 =
    pred (shiftl (Npos XH) n0)
 end

(** val nth : nat -> 'a1 list -> 'a1 -> 'a1 **)

let rec nth n0 l default =
  match n0 with
  | O -> (match l with
          | [] -> default
          | x :: _ -> x)
  | S m -> (match l with
            | [] -> default
            | _ :: t -> nth m t default)

(** val nth_error : 'a1 list -> nat -> 'a1 option **)

let rec nth_error l = function
| O -> (match l with
        | [] -> None
        | x :: _ -> Some x)
| S n1 -> (match l with
           | [] -> None
           | _ :: l0 -> nth_error l0 n1)

(** val map : ('a1 -> 'a2) -> 'a1 list -> 'a2 list **)

let rec map f = function
| [] -> []
| a :: t -> (f a) :: (map f t)

(** val flat_map : ('a1 -> 'a2 list) -> 'a1 list -> 'a2 list **)

let rec flat_map f = function
| [] -> []
| x :: t -> app (f x) (flat_map f t)

(** val fold_left : ('a1 -> 'a2 -> 'a1) -> 'a2 list -> 'a1 -> 'a1 **)

let rec fold_left f l a0 =
  match l with
  | [] -> a0
  | b :: t -> fold_left f t (f a0 b)

(** val existsb : ('a1 -> bool) -> 'a1 list -> bool **)

let rec existsb f = function
| [] -> false
| a :: l0 -> (||) (f a) (existsb f l0)

(** val filter : ('a1 -> bool) -> 'a1 list -> 'a1 list **)

let rec filter f = function
| [] -> []
| x :: l0 -> if f x then x :: (filter f l0) else filter f l0

(** val skipn : nat -> 'a1 list -> 'a1 list **)

let rec skipn n0 l =
  match n0 with
  | O -> l
  | S n1 -> (match l with
             | [] -> []
             | _ :: l0 -> skipn n1 l0)

module Z =
 struct
  (** val double : z -> z **)

  let double = function
  | Z0 -> Z0
  | Zpos p -> Zpos (XO p)
  | Zneg p -> Zneg (XO p)

  (** val succ_double : z -> z **)

  let succ_double = function
  | Z0 -> Zpos XH
  | Zpos p -> Zpos (XI p)
  | Zneg p -> Zneg (Coq_Pos.pred_double p)

  (** val pred_double : z -> z **)

  let pred_double = function
  | Z0 -> Zneg XH
  | Zpos p -> Zpos (Coq_Pos.pred_double p)
  | Zneg p -> Zneg (XI p)

  (** val pos_sub : positive -> positive -> z **)

  let rec pos_sub x y =
    match x with
    | XI p ->
      (match y with
       | XI q -> double (pos_sub p q)
       | XO q -> succ_double (pos_sub p q)
       | XH -> Zpos (XO p))
    | XO p ->
      (match y with
       | XI q -> pred_double (pos_sub p q)
       | XO q -> double (pos_sub p q)
       | XH -> Zpos (Coq_Pos.pred_double p))
    | XH ->
      (match y with
       | XI q -> Zneg (XO q)
       | XO q -> Zneg (Coq_Pos.pred_double q)
       | XH -> Z0)

  (** val add : z -> z -> z **)

  let add x y =
    match x with
    | Z0 -> y
    | Zpos x' ->
      (match y with
       | Z0 -> x
       | Zpos y' -> Zpos (Coq_Pos.add x' y')
       | Zneg y' -> pos_sub x' y')
    | Zneg x' ->
      (match y with
       | Z0 -> x
       | Zpos y' -> pos_sub y' x'
       | Zneg y' -> Zneg (Coq_Pos.add x' y'))

  (** val opp : z -> z **)

  let opp = function
  | Z0 -> Z0
  | Zpos x0 -> Zneg x0
  | Zneg x0 -> Zpos x0

  (** val mul : z -> z -> z **)

  let mul x y =
    match x with
    | Z0 -> Z0
    | Zpos x' ->
      (match y with
       | Z0 -> Z0
       | Zpos y' -> Zpos (Coq_Pos.mul x' y')
       | Zneg y' -> Zneg (Coq_Pos.mul x' y'))
    | Zneg x' ->
      (match y with
       | Z0 -> Z0
       | Zpos y' -> Zneg (Coq_Pos.mul x' y')
       | Zneg y' -> Zpos (Coq_Pos.mul x' y'))

  (** val compare : z -> z -> comparison **)

  let compare x y =
    match x with
    | Z0 -> (match y with
             | Z0 -> Eq
             | Zpos _ -> Lt
             | Zneg _ -> Gt)
    | Zpos x' -> (match y with
                  | Zpos y' -> Coq_Pos.compare x' y'
                  | _ -> Gt)
    | Zneg x' ->
      (match y with
       | Zneg y' -> compOpp (Coq_Pos.compare x' y')
       | _ -> Lt)

  (** val leb : z -> z -> bool **)

  let leb x y =
    match compare x y with
    | Gt -> false
    | _ -> true

  (** val ltb : z -> z -> bool **)

  let ltb x y =
    match compare x y with
    | Lt -> true
    | _ -> false

  (** val eqb : z -> z -> bool **)

  let eqb x y =
    match x with
    | Z0 -> (match y with
             | Z0 -> true
             | _ -> false)
    | Zpos p -> (match y with
                 | Zpos q -> Coq_Pos.eqb p q
                 | _ -> false)
    | Zneg p -> (match y with
                 | Zneg q -> Coq_Pos.eqb p q
                 | _ -> false)

  (** val to_N : z -> n **)

  let to_N = function
  | Zpos p -> Npos p
  | _ -> N0

  (** val of_N : n -> z **)

  let of_N = function
  | N0 -> Z0
  | Npos p -> Zpos p
 end

(** val piece_zobrist_tbl : n list **)

let piece_zobrist_tbl =
  (Npos (XO (XI (XO (XI (XI (XO (XI (XI (XI (XO (XI (XO (XI (XO (XI (XI (XO
    (XO (XI (XI (XI (XI (XO (XO (XO (XO (XO (XI (XO (XO (XO (XI (XO (XO (XI
    (XO (XI (XI (XO (XI (XI (XO (XI (XO (XI (XO (XI (XO (XI (XO (XI (XI (XO
    (XO (XI (XO (XI (XO (XI (XO (XO (XI (XO
    XH)))))))))))))))))))))))))))))))))))))))))))))))))))))))))))))))) :: ((Npos
    (XI (XO (XI (XO (XI (XI (XO (XO (XI (XO (XI (XO (XO (XO (XI (XO (XO (XO
    (XO (XI (XO (XO (XO (XI (XO (XI (XO (XI (XI (XI (XO (XI (XO (XO (XO (XI
    (XI (XO (XO (XI (XI (XO (XI (XI (XO (XI (XO (XI (XI (XO (XI (XI (XI (XO
    (XI (XO (XO (XO (XO (XI (XI (XI
    XH))))))))))))))))))))))))))))))))))))))))))))))))))))))))))))))) :: ((Npos
    (XO (XO (XO (XI (XO (XI (XO (XI (XO (XO (XI (XO (XI (XI (XI (XI (XI (XI
    (XI (XO (XO (XO (XO (XI (XI (XI (XI (XI (XO (XI (XI (XI (XI (XI (XO (XI
    (XI (XI (XO (XI (XI (XI (XI (XO (XI (XO (XI (XI (XI (XI (XO (XO (XI (XO
    (XO (XI (XI (XO (XO (XO (XI (XI (XO
    XH)))))))))))))))))))))))))))))))))))))))))))))))))))))))))))))))) :: ((Npos
    (XI (XI (XI (XI (XO (XI (XI (XI (XO (XI (XO (XO (XI (XO (XO (XO (XO (XO
    (XI (XI (XO (XI (XI (XI (XI (XI (XI (XO (XO (XI (XI (XI (XI (XO (XI (XI
    (XO (XO (XO (XO (XO (XI (XO (XO (XO (XO (XI (XI (XI (XI (XO (XO (XO (XO
    (XI (XO (XO (XI (XI (XI (XO (XI (XO
    XH)))))))))))))))))))))))))))))))))))))))))))))))))))))))))))))))) :: ((Npos
    (XO (XO (XI (XO (XI (XO (XI (XI (XO (XO (XI (XO (XI (XI (XO (XO (XO (XO
    (XO (XO (XO (XI (XI (XO (XO (XO (XO (XI (XI (XI (XO (XI (XO (XO (XO (XI
    (XO (XO (XO (XO (XI (XI (XO (XI (XO (XI (XO (XI (XO (XO (XO (XO (XI (XI
    (XI (XO (XO (XO (XI (XI (XI (XI (XO
    XH)))))))))))))))))))))))))))))))))))))))))))))))))))))))))))))))) :: ((Npos
    (XI (XO (XO (XI (XI (XI (XI (XI (XI (XI (XO (XI (XO (XO (XO (XO (XI (XO
    (XO (XO (XO (XO (XI (XO (XI (XI (XI (XI (XI (XO (XI (XI (XO (XI (XO (XI
    (XO (XI (XO (XO (XI (XO (XO (XI (XI (XO (XI (XI (XI (XO (XI (XO (XI (XO
    (XI (XI (XI (XI (XI (XI (XI
    XH)))))))))))))))))))))))))))))))))))))))))))))))))))))))))))))) :: ((Npos
    (XO (XI (XO (XI (XO (XI (XI (XI (XI (XI (XI (XO (XO (XI (XI (XO (XI (XO
    (XI (XI (XI (XO (XO (XI (XI (XI (XI (XO (XI (XI (XI (XO (XO (XI (XI (XO
    (XO (XO (XO (XI (XI (XI (XO (XO (XO (XO (XO (XI (XO (XI (XI (XO (XO (XI
    (XO (XO (XI (XO (XO (XI (XI (XO
    XH))))))))))))))))))))))))))))))))))))))))))))))))))))))))))))))) :: ((Npos
    (XI (XI (XI (XI (XO (XO (XO (XI (XO (XI (XO (XO (XO (XI (XO (XI (XI (XO
    (XI (XO (XO (XO (XO (XO (XI (XO (XI (XO (XO (XO (XI (XO (XO (XI (XI (XI
    (XO (XI (XO (XO (XO (XO (XI (XO (XI (XI (XO (XO (XI (XO (XO (XI (XO (XI
    (XI (XI (XO (XI (XI (XO (XI (XO (XO
    XH)))))))))))))))))))))))))))))))))))))))))))))))))))))))))))))))) :: ((Npos
    (XI (XI (XO (XO (XI (XO (XI (XO (XI (XO (XO (XI (XI (XO (XI (XI (XI (XI
    (XI (XO (XI (XI (XI (XI (XI (XO (XO (XO (XO (XI (XO (XI (XI (XO (XO (XO
    (XI (XI (XI (XO (XO (XO (XI (XO (XO (XI (XI (XO (XO (XI (XO (XO (XI (XO
    (XO (XI (XI (XO (XO (XO (XO (XO
    XH))))))))))))))))))))))))))))))))))))))))))))))))))))))))))))))) :: ((Npos
    (XO (XO (XO (XI (XO (XI (XI (XI (XO (XI (XO (XO (XO (XO (XI (XO (XI (XI
    (XI (XO (XI (XO (XI (XI (XI (XI (XI (XI (XI (XO (XI (XO (XI (XO (XO (XI
    (XO (XO (XO (XI (XI (XO (XI (XO (XO (XI (XO (XO (XI (XI (XI (XI (XO (XO
    (XO (XO (XI (XI (XI (XI (XO (XI (XO
    XH)))))))))))))))))))))))))))))))))))))))))))))))))))))))))))))))) :: ((Npos
    (XO (XI (XI (XI (XO (XO (XO (XO (XO (XO (XO (XI (XO (XO (XO (XO (XO (XO
    (XI (XO (XI (XO (XO (XO (XI (XO (XO (XO (XI (XO (XI (XO (XO (XI (XI (XI
    (XI (XI (XO (XO (XO (XI (XO (XO (XI (XO (XI (XO (XO (XO (XO (XO (XO (XO
    (XI (XO (XI (XO (XO (XO (XI (XO (XO
    XH)))))))))))))))))))))))))))))))))))))))))))))))))))))))))))))))) :: ((Npos
    (XO (XO (XO (XO (XO (XI (XI (XI (XI (XO (XI (XI (XI (XO (XO (XO (XO (XO
    (XI (XI (XI (XI (XI (XI (XI (XI (XO (XI (XI (XI (XO (XI (XI (XI (XI (XI
    (XO (XI (XO (XO (XO (XI (XI (XI (XO (XO (XI (XO (XI (XO (XO (XI (XO (XI
    (XI (XI (XI (XO (XI (XO (XO (XO
    XH))))))))))))))))))))))))))))))))))))))))))))))))))))))))))))))) :: ((Npos
    (XI (XI (XI (XO (XI (XI (XO (XO (XI (XI (XO (XI (XO (XO (XO (XI (XO (XI
    (XO (XI (XI (XI (XI (XI (XI (XI (XO (XI (XO (XI (XI (XI (XI (XI (XO (XI
    (XI (XI (XI (XI (XI (XO (XI (XO (XI (XI (XI (XO (XI (XI (XI (XO (XI (XI
    (XI (XO (XO (XO (XI (XO (XO (XO
    XH))))))))))))))))))))))))))))))))))))))))))))))))))))))))))))))) :: ((Npos
    (XO (XI (XO (XO (XI (XO (XO (XI (XI (XO (XO (XI (XO (XI (XO (XI (XO (XO
    (XI (XI (XI (XO (XO (XO (XI (XO (XO (XI (XO (XO (XO (XO (XO (XO (XO (XO
    (XO (XO (XI (XI (XI (XO (XI (XO (XI (XO (XO (XO (XI (XI (XO (XO (XI (XO
    (XI (XO (XI (XO (XO (XI (XO (XO (XI
    XH)))))))))))))))))))))))))))))))))))))))))))))))))))))))))))))))) :: ((Npos
    (XI (XI (XO (XO (XI (XI (XI (XI (XI (XI (XO (XI (XI (XO (XI (XI (XO (XO
    (XO (XI (XO (XI (XO (XO (XI (XO (XO (XO (XI (XO (XI (XO (XO (XO (XI (XO
    (XO (XO (XO (XI (XO (XO (XI (XI (XI (XI (XI (XI (XO (XO (XO (XO (XO (XO
    (XI (XO (XO (XO (XI (XO (XO (XI
    XH))))))))))))))))))))))))))))))))))))))))))))))))))))))))))))))) :: ((Npos
    (XO (XI (XO (XI (XI (XI (XI (XI (XI (XO (XI (XI (XO (XO (XI (XI (XI (XO
    (XO (XI (XO (XO (XO (XI (XO (XO (XO (XI (XI (XI (XO (XI (XI (XI (XO (XO
    (XI (XI (XO (XI (XO (XI (XI (XI (XI (XI (XI (XI (XO (XI (XI (XO (XI (XI
    (XO (XI (XO (XO (XO (XI (XI (XI (XI
    XH)))))))))))))))))))))))))))))))))))))))))))))))))))))))))))))))) :: ((Npos
    (XO (XO (XO (XI (XO (XO (XO (XO (XO (XI (XO (XO (XI (XO (XO (XI (XI (XO
    (XI (XI (XO (XO (XI (XO (XO (XI (XI (XO (XI (XI (XO (XI (XO (XO (XO (XI
    (XO (XO (XI (XI (XO (XI (XO (XI (XO (XI (XI (XO (XO (XI (XI (XO (XI (XI
    (XI (XO (XI (XO (XO (XI (XO (XI (XI
    XH)))))))))))))))))))))))))))))))))))))))))))))))))))))))))))))))) :: ((Npos
    (XO (XI (XO (XO (XI (XO (XO (XI (XI (XO (XO (XO (XO (XO (XO (XO (XO (XI
    (XI (XI (XI (XO (XI (XO (XI (XI (XO (XO (XI (XI (XO (XI (XO (XO (XI (XO
    (XO (XO (XI (XO (XI (XO (XI (XI (XO (XI (XI (XO (XI (XO (XI (XO (XO (XO
    (XO (XO (XO (XO (XO (XO (XO (XO (XO
    XH)))))))))))))))))))))))))))))))))))))))))))))))))))))))))))))))) :: ((Npos
    (XO (XO (XI (XO (XI (XI (XO (XI (XI (XI (XI (XO (XO (XI (XI (XO (XO (XI
    (XI (XI (XI (XO (XO (XI (XI (XI (XI (XO (XI (XI (XO (XI (XI (XO (XI (XI
    (XI (XO (XO (XO (XI (XI (XO (XI (XI (XI (XO (XO (XO (XO (XO (XI (XI (XI
    (XI (XO (XI (XO (XO (XO (XI (XO (XO
    XH)))))))))))))))))))))))))))))))))))))))))))))))))))))))))))))))) :: ((Npos
    (XO (XI (XO (XO (XO (XI (XI (XI (XI (XO (XI (XO (XO (XI (XO (XO (XI (XO
    (XO (XO (XO (XO (XI (XO (XO (XI (XI (XO (XO (XI (XI (XO (XI (XO (XI (XO
    (XO (XO (XO (XO (XO (XI (XI (XI (XO (XI (XI (XI (XO (XO (XI (XO (XO (XO
    (XI (XI (XO (XI (XO (XI (XI (XI (XO
    XH)))))))))))))))))))))))))))))))))))))))))))))))))))))))))))))))) :: ((Npos
    (XO (XO (XO (XO (XO (XO (XI (XO (XI (XO (XI (XI (XO (XO (XI (XI (XI (XI
    (XO (XI (XO (XI (XI (XO (XO (XI (XO (XO (XO (XO (XO (XO (XI (XI (XI (XO
    (XO (XI (XI (XI (XI (XO (XI (XI (XI (XI (XO (XI (XI (XO (XO (XO (XI (XO
    (XO (XO (XI (XO (XI (XI (XI (XO (XO
    XH)))))))))))))))))))))))))))))))))))))))))))))))))))))))))))))))) :: ((Npos
    (XO (XI (XI (XO (XI (XI (XI (XI (XO (XO (XO (XO (XO (XO (XO (XO (XO (XI
    (XO (XO (XI (XO (XO (XI (XO (XI (XO (XO (XO (XI (XI (XI (XI (XI (XI (XI
    (XI (XO (XO (XI (XI (XI (XI (XO (XI (XO (XI (XI (XO (XO (XO (XO (XO (XO
    (XI (XO (XI
    XH)))))))))))))))))))))))))))))))))))))))))))))))))))))))))) :: ((Npos
    (XI (XI (XO (XO (XI (XO (XI (XI (XO (XO (XO (XO (XO (XI (XI (XO (XO (XI
    (XO (XI (XI (XO (XI (XO (XI (XO (XO (XO (XO (XO (XI (XO (XI (XI (XO (XO
    (XI (XO (XI (XI (XO (XO (XI (XO (XO (XO (XI (XO (XI (XI (XI (XO (XI (XI
    (XO (XI (XO (XI (XI (XO (XO (XO
    XH))))))))))))))))))))))))))))))))))))))))))))))))))))))))))))))) :: ((Npos
    (XI (XO (XI (XO (XO (XO (XO (XO (XI (XI (XO (XO (XI (XI (XO (XI (XO (XI
    (XO (XO (XI (XO (XI (XO (XO (XO (XI (XI (XI (XI (XI (XO (XO (XI (XO (XI
    (XO (XI (XI (XI (XO (XI (XI (XO (XO (XI (XI (XI (XI (XI (XI (XO (XI (XI
    (XO (XO (XI (XO (XO
    XH)))))))))))))))))))))))))))))))))))))))))))))))))))))))))))) :: ((Npos
    (XO (XI (XO (XI (XI (XO (XI (XI (XI (XO (XO (XO (XO (XO (XI (XO (XO (XI
    (XO (XI (XO (XO (XI (XI (XO (XI (XI (XI (XI (XO (XI (XI (XO (XO (XO (XI
    (XO (XO (XO (XO (XO (XI (XO (XO (XI (XI (XI (XI (XI (XO (XI (XO (XI (XI
    (XI (XI (XI (XI (XO (XI (XO (XO (XO
    XH)))))))))))))))))))))))))))))))))))))))))))))))))))))))))))))))) :: ((Npos
    (XI (XO (XO (XI (XI (XO (XI (XI (XI (XO (XI (XI (XO (XI (XI (XO (XO (XI
    (XI (XI (XO (XI (XO (XO (XO (XO (XI (XI (XO (XO (XI (XO (XI (XO (XO (XI
    (XI (XO (XI (XO (XO (XI (XO (XO (XI (XI (XI (XO (XO (XI (XI (XI (XI (XI
    (XI (XO (XO (XO
    XH))))))))))))))))))))))))))))))))))))))))))))))))))))))))))) :: ((Npos
    (XI (XO (XO (XI (XO (XI (XI (XO (XI (XI (XI (XO (XO (XI (XO (XO (XO (XO
    (XO (XO (XO (XI (XI (XO (XO (XI (XO (XI (XO (XI (XI (XO (XO (XI (XO (XO
    (XO (XI (XI (XI (XI (XO (XO (XI (XO (XO (XO (XI (XO (XI (XI (XO (XO (XO
    (XO (XI (XO (XI (XI (XO (XO (XO (XI
    XH)))))))))))))))))))))))))))))))))))))))))))))))))))))))))))))))) :: ((Npos
    (XI (XO (XI (XO (XI (XI (XO (XI (XI (XI (XI (XI (XO (XO (XI (XO (XO (XI
    (XO (XO (XI (XO (XI (XO (XO (XO (XO (XI (XI (XI (XO (XI (XI (XI (XI (XO
    (XO (XI (XO (XO (XO (XO (XI (XI (XO (XO (XO (XO (XI (XI (XI (XI (XO (XO
    (XI (XI (XI (XO (XO (XO (XI (XI
    XH))))))))))))))))))))))))))))))))))))))))))))))))))))))))))))))) :: ((Npos
    (XO (XI (XI (XI (XO (XI (XO (XO (XO (XO (XO (XO (XI (XI (XO (XO (XO (XI
    (XO (XI (XO (XI (XO (XI (XI (XO (XI (XI (XI (XI (XI (XI (XO (XI (XO (XO
    (XO (XO (XI (XO (XI (XI (XI (XI (XO (XI (XO (XO (XI (XO (XI (XO (XO (XI
    (XO (XO (XO (XI (XI (XI (XI (XI
    XH))))))))))))))))))))))))))))))))))))))))))))))))))))))))))))))) :: ((Npos
    (XO (XI (XI (XO (XO (XI (XO (XI (XI (XO (XO (XO (XO (XI (XI (XI (XO (XO
    (XI (XI (XO (XO (XO (XO (XI (XO (XO (XO (XI (XO (XO (XI (XI (XO (XO (XO
    (XO (XO (XO (XO (XI (XI (XO (XO (XO (XO (XO (XO (XI (XO (XO (XO (XI (XO
    (XO (XO (XI (XO (XI (XO (XI (XI (XI
    XH)))))))))))))))))))))))))))))))))))))))))))))))))))))))))))))))) :: ((Npos
    (XO (XO (XO (XO (XI (XI (XO (XO (XO (XO (XI (XO (XI (XO (XO (XI (XI (XI
    (XO (XO (XI (XO (XO (XO (XO (XO (XO (XO (XI (XI (XO (XI (XO (XO (XI (XI
    (XI (XI (XO (XI (XO (XI (XI (XO (XO (XI (XI (XO (XO (XI (XI (XI (XO (XI
    (XI (XI (XI (XI (XO (XO (XO (XO (XI
    XH)))))))))))))))))))))))))))))))))))))))))))))))))))))))))))))))) :: ((Npos
    (XO (XI (XI (XO (XO (XI (XO (XO (XI (XI (XO (XO (XO (XO (XI (XO (XO (XO
    (XO (XI (XO (XO (XO (XO (XO (XO (XO (XO (XO (XI (XO (XI (XO (XI (XO (XI
    (XO (XI (XI (XO (XI (XO (XO (XO (XI (XO (XI (XO (XO (XI (XI (XO (XO (XI
    (XI (XI (XO (XI (XI (XI (XI (XO
    XH))))))))))))))))))))))))))))))))))))))))))))))))))))))))))))))) :: ((Npos
    (XO (XO (XI (XI (XI (XI (XI (XI (XI (XO (XI (XI (XO (XI (XO (XI (XI (XI
    (XO (XO (XO (XO (XO (XO (XI (XO (XI (XI (XI (XO (XO (XI (XI (XO (XI (XO
    (XO (XI (XO (XI (XI (XI (XO (XI (XI (XI (XO (XO (XO (XO (XI (XI (XI (XO
    (XI (XO (XI (XO (XO (XO (XI (XO (XO
    XH)))))))))))))))))))))))))))))))))))))))))))))))))))))))))))))))) :: ((Npos
    (XO (XI (XI (XO (XI (XO (XI (XI (XI (XO (XI (XI (XO (XI (XO (XI (XI (XI
    (XO (XO (XI (XI (XI (XO (XO (XI (XO (XI (XI (XI (XI (XO (XI (XO (XI (XO
    (XI (XI (XO (XI (XO (XI (XO (XI (XO (XI (XO (XO (XO (XO (XO (XI (XO (XO
    (XI (XI (XI (XO (XO (XO (XI (XI (XI
    XH)))))))))))))))))))))))))))))))))))))))))))))))))))))))))))))))) :: ((Npos
    (XI (XI (XI (XO (XI (XO (XO (XO (XI (XO (XO (XO (XI (XI (XI (XI (XO (XO
    (XO (XI (XO (XI (XO (XI (XI (XI (XI (XI (XO (XI (XI (XO (XI (XI (XI (XO
    (XO (XI (XI (XI (XO (XO (XI (XI (XO (XO (XO (XI (XO (XI (XI (XI (XO (XO
    (XO (XO (XI (XI (XI (XI (XI (XO (XI
    XH)))))))))))))))))))))))))))))))))))))))))))))))))))))))))))))))) :: ((Npos
    (XO (XI (XO (XI (XO (XI (XI (XI (XO (XI (XO (XI (XO (XO (XI (XO (XO (XI
    (XI (XI (XI (XO (XI (XO (XI (XO (XO (XI (XO (XI (XO (XI (XI (XO (XO (XI
    (XI (XI (XI (XO (XI (XI (XO (XO (XI (XO (XO (XI (XI (XI (XI (XO (XO (XO
    (XO (XI (XO (XO (XO (XO (XI (XO (XI
    XH)))))))))))))))))))))))))))))))))))))))))))))))))))))))))))))))) :: ((Npos
    (XO (XO (XO (XO (XI (XI (XI (XO (XO (XO (XI (XO (XI (XO (XO (XI (XO (XI
    (XI (XI (XO (XO (XI (XI (XO (XI (XI (XI (XO (XI (XO (XO (XO (XI (XI (XO
    (XO (XI (XO (XO (XO (XO (XI (XO (XI (XI (XO (XO (XO (XO (XO (XI (XO (XI
    (XI (XI (XI (XO (XO (XI (XO (XI (XI
    XH)))))))))))))))))))))))))))))))))))))))))))))))))))))))))))))))) :: ((Npos
    (XI (XI (XI (XO (XI (XI (XI (XI (XI (XI (XO (XO (XI (XO (XO (XO (XO (XI
    (XO (XO (XO (XO (XI (XI (XO (XI (XI (XO (XI (XI (XI (XO (XI (XO (XO (XO
    (XI (XI (XI (XI (XI (XO (XI (XO (XO (XI (XI (XO (XI (XI (XI (XO (XI (XI
    (XO (XO (XO (XO (XI (XI (XI
    XH)))))))))))))))))))))))))))))))))))))))))))))))))))))))))))))) :: ((Npos
    (XO (XO (XI (XO (XO (XO (XI (XO (XI (XO (XO (XO (XO (XO (XO (XI (XI (XI
    (XO (XI (XI (XO (XI (XO (XI (XI (XI (XO (XO (XI (XO (XO (XI (XO (XI (XO
    (XO (XO (XI (XI (XO (XO (XO (XI (XO (XO (XI (XI (XO (XO (XI (XO (XO (XO
    (XI (XO (XO (XI (XI (XI (XO (XI
    XH))))))))))))))))))))))))))))))))))))))))))))))))))))))))))))))) :: ((Npos
    (XI (XO (XI (XO (XO (XI (XO (XI (XO (XI (XO (XO (XO (XO (XI (XO (XO (XI
    (XI (XO (XI (XO (XO (XI (XI (XO (XI (XI (XI (XO (XI (XI (XI (XI (XI (XO
    (XI (XI (XI (XI (XI (XI (XI (XO (XI (XI (XI (XO (XO (XO (XO (XO (XI (XO
    (XO (XO (XI (XO (XI (XO (XI
    XH)))))))))))))))))))))))))))))))))))))))))))))))))))))))))))))) :: ((Npos
    (XO (XI (XI (XO (XI (XO (XO (XO (XI (XO (XO (XI (XI (XO (XO (XI (XO (XO
    (XI (XI (XI (XO (XI (XO (XO (XO (XO (XI (XI (XI (XI (XI (XI (XO (XO (XI
    (XO (XO (XO (XI (XI (XO (XO (XI (XO (XO (XI (XO (XI (XI (XO (XI (XO (XO
    (XO (XO (XI (XI (XI (XO (XO (XI (XO
    XH)))))))))))))))))))))))))))))))))))))))))))))))))))))))))))))))) :: ((Npos
    (XO (XO (XI (XO (XI (XO (XI (XO (XO (XO (XI (XI (XI (XO (XI (XO (XI (XO
    (XO (XO (XO (XI (XO (XI (XO (XI (XI (XI (XI (XI (XO (XI (XO (XO (XO (XI
    (XI (XI (XO (XI (XI (XO (XO (XO (XI (XI (XI (XO (XI (XI (XO (XI (XO (XO
    (XO (XI (XI (XO (XO (XI (XI
    XH)))))))))))))))))))))))))))))))))))))))))))))))))))))))))))))) :: ((Npos
    (XO (XO (XO (XO (XI (XO (XI (XO (XI (XO (XO (XI (XO (XI (XI (XO (XI (XO
    (XI (XO (XI (XI (XI (XO (XO (XI (XI (XI (XI (XO (XI (XO (XO (XO (XI (XI
    (XO (XO (XO (XI (XI (XO (XI (XO (XI (XO (XO (XO (XO (XO (XO (XO (XO (XI
    (XO (XI (XI (XO (XO (XI (XO (XI (XO
    XH)))))))))))))))))))))))))))))))))))))))))))))))))))))))))))))))) :: ((Npos
    (XO (XI (XI (XO (XO (XI (XI (XI (XI (XI (XO (XO (XO (XI (XO (XO (XO (XO
    (XI (XI (XO (XI (XO (XI (XO (XO (XI (XI (XI (XO (XO (XI (XI (XI (XI (XO
    (XI (XO (XI (XO (XO (XO (XO (XI (XO (XO (XI (XO (XI (XO (XI (XI (XO (XI
    (XO (XO (XO (XI (XI (XI
    XH))))))))))))))))))))))))))))))))))))))))))))))))))))))))))))) :: ((Npos
    (XO (XI (XI (XI (XO (XI (XO (XI (XI (XO (XI (XI (XI (XI (XO (XI (XI (XO
    (XI (XO (XI (XO (XO (XI (XO (XI (XI (XI (XO (XO (XO (XO (XI (XI (XO (XO
    (XO (XI (XI (XI (XO (XI (XI (XO (XI (XI (XO (XO (XO (XO (XI (XO (XI (XO
    (XO (XI (XI (XI (XI (XO (XI (XO
    XH))))))))))))))))))))))))))))))))))))))))))))))))))))))))))))))) :: ((Npos
    (XI (XO (XI (XI (XI (XI (XO (XO (XO (XI (XO (XI (XO (XI (XI (XO (XO (XI
    (XO (XI (XO (XI (XI (XI (XO (XO (XO (XO (XO (XO (XO (XI (XO (XO (XO (XI
    (XO (XO (XO (XO (XI (XI (XI (XO (XI (XO (XO (XI (XO (XI (XO (XI (XO (XI
    (XI (XI (XI (XO (XI (XI
    XH))))))))))))))))))))))))))))))))))))))))))))))))))))))))))))) :: ((Npos
    (XO (XO (XO (XI (XO (XO (XI (XO (XI (XI (XO (XO (XI (XI (XO (XI (XO (XO
    (XI (XI (XO (XO (XI (XO (XO (XO (XO (XO (XO (XI (XI (XI (XI (XI (XO (XO
    (XI (XI (XI (XO (XO (XI (XO (XO (XO (XO (XI (XO (XO (XI (XO (XO (XO (XI
    (XO (XI (XI (XI (XI (XI (XI (XI
    XH))))))))))))))))))))))))))))))))))))))))))))))))))))))))))))))) :: ((Npos
    (XI (XI (XI (XO (XI (XI (XI (XO (XI (XO (XO (XI (XO (XI (XO (XO (XI (XI
    (XI (XI (XO (XO (XO (XI (XO (XO (XO (XI (XO (XI (XO (XI (XO (XO (XI (XO
    (XO (XI (XO (XO (XI (XI (XI (XI (XO (XI (XO (XI (XO (XI (XO (XI (XO (XI
    (XI (XO (XO (XO
    XH))))))))))))))))))))))))))))))))))))))))))))))))))))))))))) :: ((Npos
    (XI (XO (XI (XO (XO (XI (XI (XI (XI (XO (XO (XI (XO (XO (XI (XI (XO (XI
    (XO (XO (XI (XO (XI (XI (XI (XI (XO (XO (XO (XI (XI (XO (XO (XO (XI (XO
    (XI (XO (XI (XI (XI (XI (XI (XO (XO (XI (XI (XI (XI (XO (XO (XI (XO (XI
    (XO (XI (XO (XO (XO (XI (XO (XI (XO
    XH)))))))))))))))))))))))))))))))))))))))))))))))))))))))))))))))) :: ((Npos
    (XI (XO (XO (XI (XI (XI (XO (XI (XO (XO (XI (XO (XI (XO (XI (XO (XI (XO
    (XO (XI (XO (XO (XI (XI (XI (XO (XO (XI (XI (XI (XI (XI (XO (XO (XI (XO
    (XO (XI (XI (XO (XO (XO (XI (XO (XO (XO (XO (XI (XO (XO (XI (XI (XI (XI
    (XI (XO (XO (XI (XI (XO (XO (XI (XO
    XH)))))))))))))))))))))))))))))))))))))))))))))))))))))))))))))))) :: ((Npos
    (XI (XI (XI (XI (XO (XO (XO (XI (XI (XI (XO (XI (XI (XI (XO (XI (XO (XI
    (XI (XI (XI (XI (XI (XI (XI (XI (XO (XO (XO (XO (XO (XO (XI (XI (XO (XO
    (XI (XO (XI (XI (XO (XO (XI (XI (XI (XO (XO (XI (XO (XO (XO (XO (XO (XO
    (XO (XO (XO (XI (XO (XO (XI (XO
    XH))))))))))))))))))))))))))))))))))))))))))))))))))))))))))))))) :: ((Npos
    (XI (XO (XO (XI (XI (XO (XO (XO (XO (XO (XO (XO (XI (XI (XI (XI (XO (XO
    (XO (XI (XO (XO (XO (XO (XI (XO (XI (XI (XO (XI (XI (XO (XI (XO (XO (XI
    (XO (XI (XO (XO (XI (XO (XO (XI (XO (XI (XI (XO (XO (XO (XO (XO (XI (XO
    (XO (XO (XO (XO (XI (XO (XI (XO
    XH))))))))))))))))))))))))))))))))))))))))))))))))))))))))))))))) :: ((Npos
    (XO (XI (XO (XO (XO (XO (XI (XI (XO (XO (XI (XO (XO (XI (XO (XI (XO (XI
    (XI (XI (XI (XI (XO (XO (XO (XO (XO (XI (XO (XI (XI (XO (XO (XI (XI (XI
    (XO (XO (XO (XI (XI (XI (XO (XI (XO (XI (XI (XI (XO (XO (XI (XO (XO (XO
    (XO (XO (XO (XO (XI (XI (XO (XO (XO
    XH)))))))))))))))))))))))))))))))))))))))))))))))))))))))))))))))) :: ((Npos
    (XO (XO (XO (XI (XO (XI (XI (XO (XO (XI (XO (XI (XI (XO (XO (XI (XO (XI
    (XO (XI (XO (XO (XO (XO (XO (XO (XO (XI (XI (XO (XI (XO (XI (XO (XO (XI
    (XO (XO (XI (XI (XO (XO (XO (XO (XI (XO (XO (XO (XI (XI (XO (XO (XO (XI
    (XI (XI (XO (XI (XI (XI (XO (XO
    XH))))))))))))))))))))))))))))))))))))))))))))))))))))))))))))))) :: ((Npos
    (XO (XO (XO (XI (XO (XI (XO (XO (XI (XO (XO (XI (XI (XO (XI (XI (XO (XO
    (XO (XO (XI (XI (XO (XI (XI (XI (XO (XO (XI (XO (XO (XO (XO (XI (XI (XI
    (XI (XO (XO (XO (XO (XI (XI (XI (XO (XI (XI (XO (XO (XI (XI (XI (XI (XI
    (XO (XO (XI (XI (XI (XO
    XH))))))))))))))))))))))))))))))))))))))))))))))))))))))))))))) :: ((Npos
    (XO (XI (XI (XI (XI (XI (XI (XI (XI (XI (XI (XO (XO (XI (XI (XO (XO (XI
    (XO (XO (XO (XO (XO (XO (XO (XO (XI (XI (XI (XO (XO (XO (XI (XO (XI (XO
    (XI (XO (XI (XI (XO (XO (XI (XI (XO (XO (XO (XI (XO (XO (XO (XI (XI (XI
    (XO (XI (XI (XI (XI (XO (XO (XO (XO
    XH)))))))))))))))))))))))))))))))))))))))))))))))))))))))))))))))) :: ((Npos
    (XI (XO (XI (XI (XI (XO (XI (XO (XI (XI (XO (XI (XO (XI (XO (XO (XO (XI
    (XI (XI (XO (XI (XO (XO (XI (XI (XI (XI (XO (XI (XO (XI (XO (XO (XI (XI
    (XO (XI (XO (XO (XO (XI (XI (XI (XI (XI (XI (XI (XI (XO (XO (XO (XO (XI
    (XO (XI (XI (XI (XO (XI (XO (XO
    XH))))))))))))))))))))))))))))))))))))))))))))))))))))))))))))))) :: ((Npos
    (XO (XO (XI (XI (XO (XI (XO (XI (XO (XO (XI (XI (XI (XI (XO (XI (XI (XI
    (XO (XO (XI (XO (XO (XI (XO (XI (XO (XI (XO (XI (XI (XO (XI (XI (XO (XO
    (XI (XO (XI (XI (XO (XO (XI (XI (XO (XI (XO (XO (XO (XI (XI (XI (XO (XO
    (XI (XI (XI (XO (XI (XI (XI (XO
    XH))))))))))))))))))))))))))))))))))))))))))))))))))))))))))))))) :: ((Npos
    (XI (XI (XO (XI (XI (XI (XO (XO (XO (XI (XO (XO (XO (XI (XI (XI (XO (XI
    (XI (XI (XO (XO (XO (XO (XI (XO (XI (XO (XO (XI (XI (XO (XI (XI (XI (XI
    (XI (XO (XO (XO (XO (XO (XO (XI (XO (XO (XO (XI (XO (XO (XI (XI (XI (XI
    (XI (XO (XI (XI (XO (XI (XO (XO
    XH))))))))))))))))))))))))))))))))))))))))))))))))))))))))))))))) :: ((Npos
    (XO (XO (XO (XI (XI (XO (XO (XI (XO (XO (XI (XI (XO (XO (XI (XI (XO (XI
    (XO (XI (XO (XI (XI (XI (XO (XI (XI (XI (XO (XI (XI (XI (XI (XO (XI (XI
    (XI (XI (XO (XO (XO (XO (XI (XO (XI (XO (XI (XO (XI (XI (XO (XI (XI (XI
    (XO (XI (XI (XI (XI (XO (XO (XO (XI
    XH)))))))))))))))))))))))))))))))))))))))))))))))))))))))))))))))) :: ((Npos
    (XI (XO (XO (XO (XO (XO (XI (XI (XO (XI (XI (XI (XI (XI (XI (XI (XO (XO
    (XI (XI (XI (XO (XO (XI (XI (XI (XO (XI (XI (XI (XO (XO (XO (XO (XO (XO
    (XI (XI (XO (XO (XI (XO (XI (XO (XI (XO (XI (XO (XO (XI (XO (XI (XO (XI
    (XO (XO (XO (XO (XI (XO (XO (XO (XO
    XH)))))))))))))))))))))))))))))))))))))))))))))))))))))))))))))))) :: ((Npos
    (XO (XO (XI (XO (XI (XO (XO (XO (XI (XO (XI (XI (XI (XO (XO (XO (XO (XI
    (XI (XO (XO (XO (XO (XI (XI (XI (XI (XO (XI (XO (XO (XI (XO (XO (XI (XO
    (XO (XO (XO (XO (XI (XO (XO (XO (XI (XI (XI (XO (XO (XI (XI (XO (XO (XI
    (XO (XI (XO (XO
    XH))))))))))))))))))))))))))))))))))))))))))))))))))))))))))) :: ((Npos
    (XI (XI (XI (XO (XI (XO (XO (XI (XI (XO (XO (XO (XI (XO (XI (XI (XI (XI
    (XI (XO (XI (XO (XI (XO (XI (XI (XO (XI (XI (XI (XI (XI (XI (XO (XI (XO
    (XI (XO (XO (XI (XO (XI (XI (XO (XO (XI (XI (XI (XI (XO (XI (XO (XI (XI
    (XI (XI (XO (XI (XI (XO (XI (XI (XO
    XH)))))))))))))))))))))))))))))))))))))))))))))))))))))))))))))))) :: ((Npos
    (XO (XO (XI (XI (XO (XO (XO (XI (XO (XO (XI (XI (XI (XO (XI (XO (XI (XO
    (XO (XI (XO (XO (XI (XI (XI (XO (XI (XI (XI (XO (XI (XO (XI (XI (XO (XO
    (XO (XI (XI (XO (XO (XO (XI (XI (XI (XI (XO (XI (XI (XI (XO (XO (XI (XO
    (XO (XO (XO (XO (XO (XI (XI (XI
    XH))))))))))))))))))))))))))))))))))))))))))))))))))))))))))))))) :: ((Npos
    (XO (XI (XO (XO (XO (XO (XO (XO (XO (XI (XO (XI (XO (XI (XO (XO (XO (XI
    (XO (XO (XO (XO (XI (XO (XI (XI (XO (XI (XO (XO (XO (XI (XI (XO (XI (XO
    (XI (XO (XO (XO (XI (XI (XO (XI (XI (XO (XO (XI (XO (XO (XO (XI (XO (XI
    (XO (XI (XO (XI (XI (XO (XI (XO (XI
    XH)))))))))))))))))))))))))))))))))))))))))))))))))))))))))))))))) :: ((Npos
    (XO (XI (XI (XO (XO (XO (XI (XI (XO (XI (XO (XO (XO (XI (XI (XI (XI (XI
    (XO (XI (XO (XO (XI (XI (XO (XI (XI (XO (XO (XI (XO (XI (XO (XI (XO (XI
    (XI (XO (XO (XO (XI (XI (XI (XI (XO (XO (XO (XI (XO (XI (XI (XI (XO (XI
    (XI (XO (XI (XO (XI (XI (XI (XI (XI
    XH)))))))))))))))))))))))))))))))))))))))))))))))))))))))))))))))) :: ((Npos
    (XI (XO (XI (XO (XO (XO (XO (XO (XI (XI (XI (XI (XO (XO (XI (XI (XI (XO
    (XO (XO (XO (XI (XI (XO (XI (XO (XI (XO (XO (XO (XI (XO (XI (XI (XI (XO
    (XI (XI (XO (XO (XI (XO (XI (XI (XO (XO (XO (XO (XI (XI (XO (XI (XI (XI
    (XI (XI (XI (XI (XI (XO (XI (XO (XI
    XH)))))))))))))))))))))))))))))))))))))))))))))))))))))))))))))))) :: ((Npos
    (XO (XO (XO (XI (XI (XI (XI (XO (XO (XI (XO (XO (XO (XO (XO (XO (XI (XO
    (XO (XI (XO (XO (XI (XI (XI (XO (XI (XO (XI (XI (XI (XO (XO (XI (XO (XI
    (XI (XI (XI (XO (XI (XO (XI (XO (XI (XO (XO (XO (XI (XI (XI (XO (XO (XI
    (XI (XO (XI (XI (XO (XI (XI
    XH)))))))))))))))))))))))))))))))))))))))))))))))))))))))))))))) :: ((Npos
    (XO (XI (XO (XI (XI (XO (XO (XO (XI (XO (XO (XO (XO (XI (XI (XO (XO (XI
    (XI (XI (XI (XO (XO (XO (XI (XO (XI (XI (XI (XO (XI (XI (XI (XI (XI (XI
    (XO (XO (XI (XO (XI (XI (XI (XO (XI (XI (XI (XI (XI (XO (XO (XO (XO (XO
    (XI (XO (XO (XO (XI (XO (XI (XI (XI
    XH)))))))))))))))))))))))))))))))))))))))))))))))))))))))))))))))) :: ((Npos
    (XI (XO (XO (XI (XO (XI (XI (XI (XI (XO (XI (XO (XO (XI (XO (XO (XI (XI
    (XO (XI (XO (XO (XO (XO (XI (XO (XI (XI (XO (XI (XI (XI (XO (XO (XI (XO
    (XI (XI (XI (XO (XO (XO (XO (XI (XO (XO (XO (XO (XI (XO (XI (XO (XI (XI
    (XI (XI (XO (XO (XI (XI (XI (XO
    XH))))))))))))))))))))))))))))))))))))))))))))))))))))))))))))))) :: ((Npos
    (XO (XO (XO (XO (XO (XI (XO (XO (XO (XO (XO (XI (XI (XO (XO (XI (XI (XI
    (XO (XO (XO (XO (XO (XI (XO (XO (XO (XO (XO (XI (XI (XI (XO (XO (XO (XI
    (XI (XI (XO (XO (XO (XI (XI (XO (XI (XO (XO (XI (XI (XI (XI (XI (XI (XO
    (XO (XI (XI (XO (XO (XO
    XH))))))))))))))))))))))))))))))))))))))))))))))))))))))))))))) :: ((Npos
    (XO (XO (XI (XI (XO (XI (XO (XO (XO (XI (XI (XI (XI (XO (XO (XI (XO (XI
    (XI (XI (XI (XI (XO (XI (XO (XO (XO (XO (XI (XO (XO (XO (XO (XO (XO (XI
    (XO (XI (XO (XO (XI (XI (XI (XI (XO (XI (XI (XI (XI (XI (XO (XI (XO (XI
    (XI (XO (XO (XO (XI (XI (XI (XI (XO
    XH)))))))))))))))))))))))))))))))))))))))))))))))))))))))))))))))) :: ((Npos
    (XO (XO (XO (XO (XI (XI (XI (XO (XO (XO (XI (XO (XI (XI (XO (XO (XI (XI
    (XI (XO (XI (XI (XO (XO (XI (XO (XI (XO (XO (XI (XI (XI (XO (XI (XI (XI
    (XI (XI (XI (XI (XI (XO (XI (XO (XI (XI (XO (XI (XI (XO (XO (XO (XI (XO
    (XO (XI (XO (XI (XI (XI (XO (XI (XI
    XH)))))))))))))))))))))))))))))))))))))))))))))))))))))))))))))))) :: ((Npos
    (XO (XI (XI (XI (XO (XI (XO (XO (XO (XO (XO (XO (XO (XO (XI (XI (XO (XI
    (XO (XI (XI (XI (XO (XI (XI (XI (XI (XI (XO (XO (XI (XI (XI (XI (XI (XI
    (XI (XO (XO (XI (XI (XI (XO (XO (XI (XI (XI (XO (XI (XO (XI (XO (XI (XO
    (XI (XO (XI (XO (XI
    XH)))))))))))))))))))))))))))))))))))))))))))))))))))))))))))) :: ((Npos
    (XO (XO (XO (XI (XO (XI (XI (XI (XO (XI (XO (XI (XO (XI (XO (XI (XI (XI
    (XO (XI (XO (XI (XI (XI (XO (XI (XI (XI (XO (XI (XI (XI (XI (XI (XO (XO
    (XO (XO (XO (XI (XO (XO (XO (XI (XO (XO (XO (XO (XI (XO (XI (XO (XI (XO
    (XO (XO (XO (XI (XI (XO (XI (XI
    XH))))))))))))))))))))))))))))))))))))))))))))))))))))))))))))))) :: ((Npos
    (XO (XO (XO (XO (XO (XI (XO (XI (XO (XI (XI (XI (XI (XI (XO (XI (XI (XO
    (XO (XI (XI (XI (XI (XO (XI (XI (XO (XI (XI (XO (XI (XI (XI (XI (XO (XO
    (XO (XO (XO (XI (XO (XO (XI (XI (XI (XI (XI (XI (XO (XO (XO (XO (XI (XO
    (XI (XO (XO (XI (XO (XI (XO (XI
    XH))))))))))))))))))))))))))))))))))))))))))))))))))))))))))))))) :: ((Npos
    (XI (XO (XO (XI (XO (XI (XO (XO (XO (XI (XO (XO (XI (XI (XI (XO (XO (XO
    (XO (XI (XI (XO (XO (XO (XI (XI (XI (XI (XO (XI (XO (XO (XI (XI (XI (XI
    (XI (XO (XI (XI (XI (XI (XI (XI (XI (XI (XI (XO (XI (XI (XO (XO (XI (XI
    (XI (XI (XI (XO (XO (XI (XI (XO (XI
    XH)))))))))))))))))))))))))))))))))))))))))))))))))))))))))))))))) :: ((Npos
    (XI (XI (XI (XI (XO (XO (XI (XI (XO (XO (XI (XI (XI (XI (XO (XO (XO (XO
    (XO (XI (XI (XO (XO (XO (XI (XI (XO (XO (XI (XO (XI (XI (XO (XI (XO (XO
    (XI (XO (XI (XO (XI (XI (XI (XO (XI (XO (XO (XI (XO (XO (XO (XI (XO (XI
    (XI (XI (XI (XI (XO (XO (XO (XI
    XH))))))))))))))))))))))))))))))))))))))))))))))))))))))))))))))) :: ((Npos
    (XI (XO (XI (XO (XO (XO (XI (XI (XI (XI (XI (XI (XO (XO (XO (XO (XI (XI
    (XI (XI (XI (XI (XI (XI (XO (XI (XI (XO (XI (XO (XO (XO (XO (XO (XI (XO
    (XO (XI (XO (XI (XI (XO (XO (XO (XO (XO (XI (XI (XO (XO (XO (XO (XI (XI
    (XI (XO (XI (XI (XO (XO (XI (XO
    XH))))))))))))))))))))))))))))))))))))))))))))))))))))))))))))))) :: ((Npos
    (XO (XO (XO (XI (XO (XI (XI (XI (XI (XI (XI (XO (XI (XO (XO (XO (XI (XO
    (XO (XI (XI (XI (XI (XI (XO (XO (XO (XI (XI (XI (XO (XO (XO (XO (XO (XI
    (XI (XI (XI (XO (XO (XI (XI (XI (XI (XO (XI (XO (XO (XO (XO (XO (XI (XO
    (XI (XO (XI (XI (XO (XO (XO (XI (XI
    XH)))))))))))))))))))))))))))))))))))))))))))))))))))))))))))))))) :: ((Npos
    (XI (XO (XO (XI (XO (XO (XI (XO (XI (XO (XI (XI (XO (XI (XI (XI (XO (XI
    (XI (XI (XI (XI (XO (XI (XO (XI (XI (XO (XI (XO (XI (XO (XI (XO (XI (XO
    (XO (XI (XO (XI (XO (XO (XI (XI (XI (XO (XO (XI (XI (XO (XO (XO (XI (XI
    (XI (XO (XO (XO (XI (XO (XO (XI (XI
    XH)))))))))))))))))))))))))))))))))))))))))))))))))))))))))))))))) :: ((Npos
    (XI (XO (XO (XO (XI (XO (XO (XO (XO (XI (XO (XI (XI (XI (XI (XI (XI (XO
    (XI (XO (XI (XI (XO (XO (XO (XI (XI (XI (XI (XI (XI (XO (XO (XI (XO (XO
    (XI (XO (XO (XO (XI (XI (XI (XO (XI (XI (XO (XI (XI (XO (XO (XO (XO (XI
    (XI (XI (XI (XO (XI (XO (XO (XI (XO
    XH)))))))))))))))))))))))))))))))))))))))))))))))))))))))))))))))) :: ((Npos
    (XO (XO (XI (XI (XO (XI (XI (XO (XI (XO (XI (XO (XO (XI (XI (XI (XI (XI
    (XI (XO (XI (XO (XO (XI (XO (XO (XI (XI (XI (XO (XI (XI (XO (XI (XO (XI
    (XI (XO (XI (XI (XI (XI (XI (XO (XO (XO (XO (XI (XO (XI (XO (XI (XI (XI
    (XO (XO (XI (XI (XO (XO (XI (XO (XO
    XH)))))))))))))))))))))))))))))))))))))))))))))))))))))))))))))))) :: ((Npos
    (XI (XI (XO (XO (XO (XO (XI (XO (XI (XO (XI (XO (XO (XI (XI (XI (XI (XO
    (XI (XI (XI (XO (XO (XO (XO (XI (XI (XI (XI (XO (XO (XO (XO (XO (XI (XI
    (XI (XO (XI (XI (XO (XO (XO (XO (XI (XO (XI (XI (XI (XI (XI (XO (XI (XO
    (XO (XO (XI (XI (XI (XI (XO (XI
    XH))))))))))))))))))))))))))))))))))))))))))))))))))))))))))))))) :: ((Npos
    (XI (XO (XO (XO (XO (XO (XO (XI (XI (XI (XI (XI (XO (XI (XI (XI (XO (XI
    (XO (XI (XI (XO (XI (XI (XI (XI (XI (XI (XI (XI (XO (XI (XI (XO (XO (XI
    (XO (XI (XI (XO (XI (XO (XI (XO (XO (XO (XO (XI (XI (XI (XO (XO (XO (XO
    (XO (XO (XI (XI (XO (XO
    XH))))))))))))))))))))))))))))))))))))))))))))))))))))))))))))) :: ((Npos
    (XO (XO (XO (XI (XI (XO (XI (XO (XI (XI (XI (XI (XI (XO (XO (XI (XI (XO
    (XI (XO (XO (XO (XI (XO (XO (XO (XI (XO (XO (XI (XO (XO (XI (XI (XI (XO
    (XI (XO (XO (XO (XO (XO (XI (XI (XO (XI (XO (XI (XO (XO (XI (XO (XO (XI
    (XO (XI (XO (XI (XI (XI (XI
    XH)))))))))))))))))))))))))))))))))))))))))))))))))))))))))))))) :: ((Npos
    (XI (XO (XI (XI (XO (XI (XO (XO (XI (XO (XI (XI (XO (XO (XO (XI (XI (XI
    (XI (XI (XO (XI (XI (XI (XI (XI (XO (XI (XO (XO (XI (XI (XI (XO (XO (XI
    (XO (XI (XO (XI (XO (XO (XO (XI (XI (XO (XO (XO (XO (XO (XI (XI (XI (XI
    (XO (XO (XO (XO (XI (XO (XO (XO (XO
    XH)))))))))))))))))))))))))))))))))))))))))))))))))))))))))))))))) :: ((Npos
    (XO (XO (XI (XI (XO (XO (XO (XI (XO (XO (XO (XO (XI (XI (XI (XI (XO (XI
    (XO (XO (XI (XO (XI (XO (XI (XI (XI (XI (XI (XI (XO (XI (XI (XO (XI (XO
    (XO (XI (XI (XO (XI (XI (XO (XI (XI (XO (XO (XI (XI (XI (XO (XI (XI (XO
    (XI (XI (XI (XO (XO (XO (XI (XO (XI
    XH)))))))))))))))))))))))))))))))))))))))))))))))))))))))))))))))) :: ((Npos
    (XO (XO (XO (XI (XO (XO (XO (XI (XI (XO (XO (XI (XI (XO (XI (XO (XO (XI
    (XO (XI (XO (XO (XI (XO (XO (XO (XI (XI (XO (XI (XI (XI (XO (XO (XO (XO
    (XO (XO (XI (XI (XO (XO (XI (XI (XO (XI (XO (XI (XO (XO (XO (XO (XO (XO
    (XI (XO (XO (XO (XO (XI (XI (XI (XI
    XH)))))))))))))))))))))))))))))))))))))))))))))))))))))))))))))))) :: ((Npos
    (XO (XO (XI (XI (XI (XI (XI (XI (XI (XI (XI (XO (XI (XI (XO (XI (XO (XO
    (XI (XI (XO (XO (XI (XO (XO (XI (XI (XI (XO (XO (XO (XO (XI (XI (XI (XO
    (XI (XO (XO (XI (XI (XI (XO (XO (XI (XI (XO (XO (XO (XI (XI (XO (XI (XI
    (XI (XI (XO (XI (XO (XI (XI (XI (XI
    XH)))))))))))))))))))))))))))))))))))))))))))))))))))))))))))))))) :: ((Npos
    (XO (XI (XI (XI (XO (XO (XO (XI (XI (XI (XI (XO (XO (XI (XI (XI (XI (XO
    (XO (XO (XO (XO (XO (XI (XI (XO (XI (XI (XO (XO (XO (XI (XO (XI (XO (XO
    (XO (XO (XI (XI (XI (XI (XO (XI (XI (XO (XI (XI (XI (XO (XI (XI (XO (XO
    (XI (XI (XI (XI (XO (XI (XO
    XH)))))))))))))))))))))))))))))))))))))))))))))))))))))))))))))) :: ((Npos
    (XO (XI (XI (XO (XO (XO (XO (XI (XI (XI (XI (XO (XI (XO (XO (XO (XI (XI
    (XO (XO (XO (XI (XI (XI (XO (XO (XO (XO (XO (XI (XO (XO (XO (XI (XI (XO
    (XI (XO (XI (XO (XI (XI (XO (XI (XO (XO (XO (XI (XI (XO (XO (XO (XO (XI
    (XO (XO (XI (XO (XI (XO (XO
    XH)))))))))))))))))))))))))))))))))))))))))))))))))))))))))))))) :: ((Npos
    (XI (XI (XO (XO (XI (XO (XO (XO (XO (XI (XO (XI (XI (XI (XI (XI (XI (XI
    (XI (XI (XI (XO (XO (XI (XI (XO (XO (XI (XO (XI (XO (XI (XI (XO (XO (XO
    (XI (XO (XI (XO (XI (XO (XO (XO (XO (XO (XO (XO (XO (XO (XO (XO (XI (XI
    (XO (XI (XO (XO (XI (XI (XO (XI
    XH))))))))))))))))))))))))))))))))))))))))))))))))))))))))))))))) :: ((Npos
    (XI (XO (XI (XO (XI (XI (XO (XO (XI (XI (XO (XO (XI (XO (XO (XO (XO (XO
    (XI (XI (XO (XI (XO (XO (XI (XO (XO (XI (XI (XO (XI (XI (XO (XI (XO (XO
    (XO (XI (XI (XI (XO (XI (XI (XI (XI (XI (XO (XI (XO (XO (XO (XO (XO (XI
    (XO (XO (XI (XO (XO (XI (XO (XI (XO
    XH)))))))))))))))))))))))))))))))))))))))))))))))))))))))))))))))) :: ((Npos
    (XI (XO (XI (XI (XO (XO (XI (XI (XO (XI (XI (XO (XO (XI (XO (XI (XO (XO
    (XO (XO (XO (XI (XI (XI (XO (XI (XO (XI (XO (XO (XO (XO (XI (XO (XO (XO
    (XO (XI (XO (XO (XI (XI (XO (XO (XO (XI (XO (XI (XO (XO (XI (XO (XO (XI
    (XO (XI (XO (XI (XO (XI (XO
    XH)))))))))))))))))))))))))))))))))))))))))))))))))))))))))))))) :: ((Npos
    (XI (XI (XO (XI (XI (XO (XI (XI (XI (XO (XO (XO (XI (XI (XI (XI (XO (XI
    (XO (XI (XO (XO (XI (XI (XI (XI (XI (XI (XO (XO (XI (XI (XI (XI (XO (XO
    (XI (XI (XO (XI (XI (XI (XI (XO (XO (XO (XO (XI (XI (XI (XO (XI (XI (XI
    (XO (XO (XI (XO (XO (XO (XO (XI
    XH))))))))))))))))))))))))))))))))))))))))))))))))))))))))))))))) :: ((Npos
    (XO (XO (XI (XO (XI (XI (XI (XO (XO (XO (XI (XI (XI (XO (XO (XI (XO (XO
    (XO (XI (XO (XI (XI (XO (XI (XO (XO (XI (XI (XO (XO (XI (XI (XI (XI (XO
    (XO (XO (XI (XI (XO (XI (XI (XI (XO (XI (XI (XI (XO (XO (XO (XO (XI (XO
    (XO (XO (XI (XO
    XH))))))))))))))))))))))))))))))))))))))))))))))))))))))))))) :: ((Npos
    (XO (XI (XO (XO (XI (XI (XO (XI (XO (XO (XI (XI (XO (XO (XI (XI (XI (XO
    (XI (XO (XI (XO (XO (XO (XI (XO (XI (XO (XI (XI (XO (XI (XO (XI (XI (XI
    (XO (XO (XO (XI (XO (XO (XO (XO (XO (XO (XI (XO (XO (XI (XI (XI (XI (XI
    (XI (XI (XO (XO (XO (XI (XO (XO (XI
    XH)))))))))))))))))))))))))))))))))))))))))))))))))))))))))))))))) :: ((Npos
    (XI (XI (XO (XI (XO (XI (XI (XO (XI (XI (XI (XO (XI (XI (XO (XO (XI (XI
    (XI (XI (XO (XI (XO (XO (XI (XO (XI (XO (XI (XO (XO (XO (XO (XO (XO (XO
    (XI (XO (XO (XO (XO (XO (XI (XO (XI (XO (XO (XO (XI (XO (XO (XO (XI (XI
    (XI (XO (XI (XI (XI (XO (XO (XO (XI
    XH)))))))))))))))))))))))))))))))))))))))))))))))))))))))))))))))) :: ((Npos
    (XI (XO (XO (XO (XO (XI (XO (XI (XI (XO (XO (XO (XI (XO (XO (XI (XI (XO
    (XI (XO (XI (XI (XI (XI (XI (XI (XO (XO (XO (XO (XO (XO (XO (XO (XO (XI
    (XO (XI (XO (XI (XI (XI (XI (XO (XI (XI (XO (XI (XO (XI (XI (XO (XO (XO
    (XO (XI (XO (XO (XO (XI (XO (XO (XO
    XH)))))))))))))))))))))))))))))))))))))))))))))))))))))))))))))))) :: ((Npos
    (XO (XI (XO (XI (XO (XO (XO (XO (XO (XO (XI (XI (XI (XO (XO (XI (XO (XO
    (XI (XI (XO (XI (XI (XI (XI (XO (XO (XO (XO (XI (XO (XO (XI (XI (XI (XI
    (XO (XO (XI (XO (XO (XI (XO (XO (XI (XO (XI (XO (XI (XO (XI (XI (XI (XI
    (XI (XI (XO (XO (XI (XO (XI (XI
    XH))))))))))))))))))))))))))))))))))))))))))))))))))))))))))))))) :: ((Npos
    (XO (XO (XI (XI (XI (XO (XO (XO (XO (XI (XO (XO (XO (XO (XI (XO (XI (XO
    (XO (XI (XO (XO (XI (XI (XO (XO (XO (XO (XI (XO (XO (XO (XO (XI (XI (XI
    (XI (XI (XO (XO (XI (XI (XI (XO (XO (XI (XO (XO (XO (XO (XI (XO (XO (XI
    (XI (XI (XO (XI (XO (XI (XO (XI
    XH))))))))))))))))))))))))))))))))))))))))))))))))))))))))))))))) :: ((Npos
    (XI (XI (XI (XI (XO (XO (XO (XI (XI (XO (XO (XI (XI (XI (XI (XI (XO (XI
    (XI (XO (XO (XI (XI (XI (XO (XI (XI (XI (XI (XI (XO (XI (XO (XO (XI (XI
    (XO (XI (XI (XI (XI (XO (XI (XI (XI (XO (XO (XO (XO (XI (XO (XI (XI (XI
    (XO (XI (XO (XO (XI (XI (XO (XO (XO
    XH)))))))))))))))))))))))))))))))))))))))))))))))))))))))))))))))) :: ((Npos
    (XI (XI (XI (XI (XI (XI (XI (XO (XI (XO (XO (XO (XI (XO (XO (XI (XI (XO
    (XO (XI (XI (XI (XO (XO (XI (XI (XO (XO (XI (XO (XO (XI (XO (XO (XO (XO
    (XI (XO (XO (XI (XO (XI (XI (XO (XI (XO (XI (XI (XO (XO (XO (XI (XO (XO
    (XO (XO (XI (XI (XO (XI (XI (XI (XI
    XH)))))))))))))))))))))))))))))))))))))))))))))))))))))))))))))))) :: ((Npos
    (XO (XO (XO (XI (XI (XI (XO (XO (XI (XI (XI (XO (XO (XI (XO (XI (XO (XO
    (XI (XO (XI (XO (XO (XO (XI (XO (XO (XI (XO (XO (XO (XI (XI (XO (XI (XO
    (XO (XI (XI (XI (XO (XO (XO (XO (XI (XO (XI (XI (XI (XO (XO (XI (XO (XI
    (XI (XO (XI (XO (XI (XO (XO (XO (XO
    XH)))))))))))))))))))))))))))))))))))))))))))))))))))))))))))))))) :: ((Npos
    (XO (XI (XO (XO (XO (XO (XO (XI (XI (XO (XO (XO (XI (XO (XI (XI (XO (XI
    (XO (XI (XI (XI (XI (XO (XI (XI (XI (XI (XO (XO (XO (XO (XO (XI (XI (XI
    (XO (XO (XI (XO (XI (XI (XO (XO (XO (XO (XI (XO (XI (XO (XO (XI (XO (XI
    (XO (XI (XO (XO (XI (XO (XI (XO
    XH))))))))))))))))))))))))))))))))))))))))))))))))))))))))))))))) :: ((Npos
    (XO (XI (XO (XO (XI (XO (XO (XO (XI (XO (XI (XI (XI (XI (XI (XI (XI (XO
    (XO (XI (XI (XO (XO (XO (XI (XO (XI (XI (XI (XI (XI (XO (XI (XI (XO (XO
    (XI (XO (XI (XO (XI (XO (XI (XI (XO (XO (XI (XO (XI (XO (XI (XI (XO (XO
    (XI (XI (XO (XO (XI (XO (XI (XO (XI
    XH)))))))))))))))))))))))))))))))))))))))))))))))))))))))))))))))) :: ((Npos
    (XO (XO (XI (XI (XO (XI (XO (XI (XI (XI (XO (XO (XI (XI (XI (XI (XO (XO
    (XO (XO (XI (XO (XO (XO (XI (XO (XO (XI (XI (XI (XI (XO (XI (XI (XO (XI
    (XI (XO (XO (XI (XO (XO (XI (XO (XO (XI (XO (XO (XI (XO (XI (XI (XO (XI
    (XI (XO (XO (XO (XO (XO
    XH))))))))))))))))))))))))))))))))))))))))))))))))))))))))))))) :: ((Npos
    (XO (XO (XO (XO (XO (XI (XO (XO (XI (XI (XI (XO (XO (XI (XO (XO (XI (XI
    (XI (XO (XO (XI (XI (XI (XI (XO (XI (XO (XI (XO (XO (XO (XI (XO (XI (XO
    (XI (XI (XO (XO (XO (XI (XI (XO (XO (XI (XO (XO (XO (XO (XI (XI (XI (XO
    (XI (XO (XO (XI (XI (XI
    XH))))))))))))))))))))))))))))))))))))))))))))))))))))))))))))) :: ((Npos
    (XI (XI (XO (XI (XI (XO (XO (XO (XI (XI (XI (XI (XO (XO (XO (XI (XI (XI
    (XI (XI (XI (XI (XI (XO (XO (XI (XI (XI (XO (XO (XO (XI (XI (XO (XO (XI
    (XO (XO (XI (XI (XO (XI (XI (XI (XI (XI (XO (XO (XI (XO (XO (XI (XO (XO
    (XI (XI (XO (XO (XI (XI (XO (XI (XI
    XH)))))))))))))))))))))))))))))))))))))))))))))))))))))))))))))))) :: ((Npos
    (XI (XI (XI (XO (XO (XO (XO (XO (XI (XO (XO (XI (XO (XO (XO (XI (XO (XI
    (XI (XI (XI (XI (XO (XO (XI (XO (XI (XI (XI (XO (XI (XO (XI (XI (XI (XO
    (XI (XI (XO (XO (XO (XI (XO (XI (XO (XO (XI (XO (XI (XO (XO (XI (XO (XO
    (XO (XI (XI (XI (XO (XI (XO (XI (XI
    XH)))))))))))))))))))))))))))))))))))))))))))))))))))))))))))))))) :: ((Npos
    (XI (XI (XI (XO (XI (XI (XI (XI (XO (XI (XI (XI (XO (XO (XO (XO (XI (XI
    (XI (XO (XO (XO (XI (XO (XO (XO (XI (XO (XO (XO (XO (XI (XO (XI (XI (XO
    (XO (XI (XO (XO (XO (XO (XO (XO (XO (XO (XO (XI (XO (XI (XI (XI (XI (XI
    (XI (XO (XO (XI (XI (XI (XO (XI
    XH))))))))))))))))))))))))))))))))))))))))))))))))))))))))))))))) :: ((Npos
    (XI (XI (XO (XI (XI (XI (XI (XI (XO (XI (XO (XO (XO (XI (XI (XI (XI (XI
    (XI (XO (XO (XO (XI (XO (XO (XO (XO (XO (XI (XO (XI (XO (XO (XI (XI (XO
    (XO (XO (XO (XO (XI (XI (XI (XO (XO (XO (XI (XO (XO (XI (XI (XO (XO (XO
    (XI (XI (XI (XI (XO
    XH)))))))))))))))))))))))))))))))))))))))))))))))))))))))))))) :: ((Npos
    (XI (XI (XI (XO (XI (XI (XI (XO (XI (XI (XI (XI (XO (XI (XO (XO (XO (XI
    (XI (XI (XI (XI (XO (XI (XI (XI (XO (XI (XO (XI (XO (XO (XI (XO (XI (XO
    (XO (XI (XI (XI (XI (XI (XO (XO (XI (XO (XI (XI (XI (XO (XI (XO (XI (XO
    (XO (XO (XO (XI (XO (XI (XO (XO (XI
    XH)))))))))))))))))))))))))))))))))))))))))))))))))))))))))))))))) :: ((Npos
    (XI (XI (XO (XO (XO (XO (XO (XI (XI (XO (XI (XO (XI (XI (XO (XI (XI (XO
    (XO (XO (XO (XO (XI (XO (XO (XI (XI (XO (XI (XI (XI (XI (XI (XI (XO (XO
    (XI (XO (XI (XO (XI (XO (XI (XI (XI (XO (XO (XI (XO (XI (XO (XO (XO (XO
    (XO (XO
    XH))))))))))))))))))))))))))))))))))))))))))))))))))))))))) :: ((Npos (XI
    (XI (XO (XO (XO (XO (XO (XO (XO (XI (XI (XO (XI (XI (XO (XO (XO (XO (XO
    (XO (XO (XO (XI (XI (XO (XI (XO (XI (XO (XI (XO (XI (XO (XI (XI (XI (XO
    (XO (XI (XI (XO (XI (XI (XI (XI (XI (XO (XI (XI (XO (XI (XI (XO (XO (XO
    (XO (XI (XI (XO (XO (XO (XI (XI
    XH)))))))))))))))))))))))))))))))))))))))))))))))))))))))))))))))) :: ((Npos
    (XO (XI (XO (XO (XO (XO (XI (XI (XO (XI (XI (XI (XI (XO (XI (XI (XO (XI
    (XI (XI (XO (XI (XI (XI (XO (XI (XO (XO (XO (XO (XI (XI (XI (XI (XI (XI
    (XI (XO (XO (XO (XI (XO (XI (XO (XI (XO (XO (XI (XI (XO (XO (XI (XO (XO
    (XO (XI (XO (XI (XI (XO (XI
    XH)))))))))))))))))))))))))))))))))))))))))))))))))))))))))))))) :: ((Npos
    (XO (XO (XI (XO (XI (XO (XI (XI (XI (XI (XI (XO (XI (XI (XI (XI (XO (XI
    (XI (XO (XI (XI (XI (XI (XO (XO (XI (XI (XO (XO (XO (XI (XI (XI (XI (XO
    (XI (XI (XI (XI (XO (XI (XO (XO (XI (XI (XO (XO (XI (XO (XI (XI (XO (XI
    (XI (XO (XI (XI (XI (XO (XI
    XH)))))))))))))))))))))))))))))))))))))))))))))))))))))))))))))) :: ((Npos
    (XI (XI (XI (XO (XI (XI (XI (XI (XI (XI (XI (XO (XO (XO (XO (XI (XI (XI
    (XI (XO (XI (XI (XI (XO (XO (XI (XO (XO (XO (XI (XO (XO (XO (XI (XI (XI
    (XO (XO (XI (XI (XO (XO (XI (XO (XO (XI (XO (XI (XO (XI (XI (XO (XO (XI
    (XI (XI (XI (XO (XI (XO (XI (XO (XO
    XH)))))))))))))))))))))))))))))))))))))))))))))))))))))))))))))))) :: ((Npos
    (XI (XI (XO (XI (XI (XI (XI (XO (XO (XO (XI (XO (XI (XO (XO (XO (XI (XO
    (XO (XI (XI (XO (XI (XO (XI (XI (XO (XO (XI (XI (XI (XO (XI (XI (XO (XO
    (XI (XO (XO (XI (XO (XI (XO (XI (XO (XI (XO (XI (XI (XO (XO (XO (XO (XO
    (XO (XO (XO (XO (XO (XI (XI (XI (XO
    XH)))))))))))))))))))))))))))))))))))))))))))))))))))))))))))))))) :: ((Npos
    (XO (XO (XO (XO (XO (XI (XO (XO (XI (XO (XO (XI (XI (XO (XO (XO (XO (XI
    (XI (XI (XI (XO (XO (XO (XI (XI (XO (XI (XO (XO (XO (XO (XI (XI (XO (XO
    (XO (XI (XI (XO (XO (XI (XI (XI (XO (XO (XO (XO (XI (XO (XO (XI (XI (XO
    (XI (XI (XI (XO (XI (XI (XI (XO (XI
    XH)))))))))))))))))))))))))))))))))))))))))))))))))))))))))))))))) :: ((Npos
    (XO (XO (XI (XO (XI (XI (XI (XO (XO (XO (XO (XO (XO (XO (XI (XO (XI (XO
    (XO (XO (XO (XI (XO (XO (XO (XO (XO (XI (XI (XO (XI (XI (XI (XO (XI (XI
    (XI (XI (XO (XI (XO (XO (XI (XO (XI (XO (XO (XI (XI (XI (XI (XO (XO (XI
    (XO (XI (XO (XO (XI (XI (XI (XO (XI
    XH)))))))))))))))))))))))))))))))))))))))))))))))))))))))))))))))) :: ((Npos
    (XI (XI (XO (XO (XI (XI (XI (XO (XI (XI (XI (XI (XO (XO (XO (XO (XI (XO
    (XO (XI (XO (XI (XI (XI (XI (XO (XO (XO (XI (XI (XI (XI (XI (XI (XI (XI
    (XI (XO (XO (XI (XO (XI (XO (XI (XI (XI (XO (XI (XI (XO (XO (XO (XI (XI
    (XI (XO (XO (XO (XI (XO (XI (XI
    XH))))))))))))))))))))))))))))))))))))))))))))))))))))))))))))))) :: ((Npos
    (XI (XI (XO (XI (XO (XI (XO (XO (XO (XI (XI (XI (XO (XO (XI (XO (XI (XO
    (XO (XI (XI (XO (XI (XO (XI (XO (XI (XI (XO (XI (XO (XO (XI (XI (XI (XI
    (XO (XI (XI (XI (XO (XI (XO (XO (XI (XI (XO (XI (XO (XO (XI (XO (XI (XI
    (XO (XI (XO (XO (XI (XI (XI (XO (XI
    XH)))))))))))))))))))))))))))))))))))))))))))))))))))))))))))))))) :: ((Npos
    (XI (XO (XO (XO (XO (XI (XI (XO (XI (XO (XO (XO (XO (XI (XI (XO (XO (XO
    (XO (XI (XO (XO (XO (XO (XO (XO (XO (XI (XI (XO (XO (XO (XO (XI (XO (XO
    (XI (XO (XI (XO (XO (XI (XI (XI (XO (XI (XI (XI (XI (XI (XO (XO (XI (XO
    (XI (XI (XI (XI (XI (XO (XI (XO (XI
    XH)))))))))))))))))))))))))))))))))))))))))))))))))))))))))))))))) :: ((Npos
    (XO (XI (XO (XI (XI (XI (XO (XO (XI (XO (XO (XI (XI (XO (XI (XI (XO (XI
    (XO (XO (XI (XI (XO (XO (XI (XI (XI (XO (XI (XO (XI (XO (XI (XO (XI (XO
    (XO (XO (XO (XO (XI (XI (XO (XI (XO (XI (XI (XO (XO (XI (XI (XO (XI (XI
    (XO (XI (XI (XO (XO (XO (XI (XI (XI
    XH)))))))))))))))))))))))))))))))))))))))))))))))))))))))))))))))) :: ((Npos
    (XO (XI (XI (XO (XO (XI (XO (XI (XO (XO (XO (XI (XO (XO (XI (XO (XI (XO
    (XI (XI (XO (XI (XO (XO (XO (XI (XI (XO (XO (XI (XO (XO (XO (XI (XI (XI
    (XI (XI (XI (XI (XI (XO (XI (XO (XO (XO (XO (XI (XO (XI (XO (XI (XI (XI
    (XO (XI (XI (XO (XO (XO
    XH))))))))))))))))))))))))))))))))))))))))))))))))))))))))))))) :: ((Npos
    (XI (XI (XO (XI (XO (XO (XO (XI (XI (XO (XO (XO (XO (XI (XO (XO (XI (XI
    (XO (XO (XO (XI (XI (XI (XO (XI (XO (XO (XO (XO (XI (XO (XO (XO (XI (XO
    (XO (XO (XO (XO (XO (XO (XO (XO (XO (XO (XO (XO (XI (XO (XI (XO (XI (XI
    (XI (XI (XI (XO (XI (XO (XO (XO (XI
    XH)))))))))))))))))))))))))))))))))))))))))))))))))))))))))))))))) :: ((Npos
    (XI (XO (XI (XI (XI (XO (XI (XI (XO (XI (XI (XO (XO (XO (XI (XO (XO (XI
    (XO (XO (XI (XO (XO (XI (XO (XI (XO (XI (XI (XI (XI (XO (XO (XO (XI (XI
    (XI (XI (XO (XO (XI (XI (XO (XI (XO (XI (XO (XO (XO (XO (XO (XO (XO (XO
    (XI (XO (XI (XI (XI (XO (XI
    XH)))))))))))))))))))))))))))))))))))))))))))))))))))))))))))))) :: ((Npos
    (XO (XO (XI (XO (XO (XI (XO (XO (XI (XO (XI (XO (XO (XO (XI (XO (XI (XI
    (XO (XI (XO (XI (XO (XO (XI (XO (XO (XI (XI (XO (XI (XI (XI (XO (XI (XO
    (XO (XO (XI (XI (XO (XO (XO (XO (XI (XO (XI (XO (XI (XO (XO (XO (XO (XO
    (XO (XI (XI (XI (XO (XI (XI (XO (XI
    XH)))))))))))))))))))))))))))))))))))))))))))))))))))))))))))))))) :: ((Npos
    (XI (XI (XO (XO (XI (XO (XO (XO (XO (XO (XO (XI (XO (XI (XI (XO (XO (XO
    (XO (XO (XI (XI (XO (XI (XO (XI (XI (XI (XI (XO (XI (XI (XI (XI (XI (XO
    (XO (XO (XI (XI (XI (XO (XO (XO (XO (XI (XI (XO (XI (XO (XI (XI (XI (XI
    (XO (XI (XI (XO (XO (XI (XI (XO
    XH))))))))))))))))))))))))))))))))))))))))))))))))))))))))))))))) :: ((Npos
    (XO (XO (XI (XI (XO (XO (XO (XO (XI (XI (XI (XI (XO (XO (XI (XI (XO (XI
    (XO (XO (XO (XO (XI (XI (XO (XI (XO (XO (XO (XO (XI (XO (XO (XI (XI (XO
    (XO (XI (XI (XI (XO (XO (XO (XI (XI (XI (XI (XI (XO (XO (XO (XO (XI (XI
    (XO (XI (XO (XO (XO (XI (XO (XO
    XH))))))))))))))))))))))))))))))))))))))))))))))))))))))))))))))) :: ((Npos
    (XO (XI (XI (XO (XO (XO (XI (XI (XO (XO (XI (XI (XO (XO (XO (XO (XI (XO
    (XO (XO (XO (XI (XO (XO (XO (XO (XO (XO (XO (XO (XO (XO (XI (XO (XI (XI
    (XO (XI (XI (XI (XI (XO (XI (XI (XI (XO (XI (XO (XO (XO (XO (XI (XO (XI
    (XI (XO (XI (XI (XI (XO (XO (XO (XI
    XH)))))))))))))))))))))))))))))))))))))))))))))))))))))))))))))))) :: ((Npos
    (XI (XI (XO (XO (XO (XO (XI (XO (XO (XI (XI (XI (XI (XO (XI (XO (XI (XO
    (XO (XO (XI (XI (XO (XI (XO (XI (XI (XI (XO (XO (XO (XO (XO (XO (XO (XO
    (XO (XO (XO (XI (XI (XI (XI (XI (XO (XI (XO (XI (XI (XI (XI (XI (XI (XO
    (XI (XO (XI (XO (XI (XI (XI (XI
    XH))))))))))))))))))))))))))))))))))))))))))))))))))))))))))))))) :: ((Npos
    (XO (XO (XI (XI (XI (XI (XI (XO (XO (XO (XI (XO (XI (XI (XI (XI (XI (XO
    (XI (XO (XO (XO (XO (XI (XO (XI (XI (XO (XI (XI (XI (XO (XI (XI (XI (XI
    (XI (XI (XI (XI (XO (XI (XO (XI (XO (XO (XO (XI (XO (XI (XO (XI (XO (XI
    (XI (XO (XO (XI (XO (XO (XI (XI
    XH))))))))))))))))))))))))))))))))))))))))))))))))))))))))))))))) :: ((Npos
    (XI (XI (XO (XI (XI (XI (XO (XI (XO (XO (XO (XI (XI (XI (XI (XO (XO (XI
    (XI (XO (XI (XO (XO (XI (XO (XO (XI (XO (XI (XI (XO (XI (XI (XO (XO (XI
    (XI (XO (XO (XI (XO (XI (XI (XI (XI (XO (XI (XI (XO (XO (XI (XI (XO (XI
    (XI (XI (XI (XI (XI (XO (XI (XI
    XH))))))))))))))))))))))))))))))))))))))))))))))))))))))))))))))) :: ((Npos
    (XI (XO (XO (XI (XI (XO (XO (XI (XI (XI (XO (XI (XI (XI (XO (XI (XI (XI
    (XO (XI (XO (XO (XO (XI (XO (XO (XO (XO (XO (XI (XO (XI (XO (XI (XI (XI
    (XO (XI (XO (XO (XI (XI (XI (XO (XO (XO (XO (XI (XO (XI (XO (XI (XO (XI
    (XI (XO (XO (XI (XO (XI
    XH))))))))))))))))))))))))))))))))))))))))))))))))))))))))))))) :: ((Npos
    (XI (XO (XI (XO (XI (XO (XO (XO (XO (XI (XO (XO (XO (XI (XO (XO (XI (XO
    (XO (XI (XO (XI (XI (XO (XO (XI (XI (XI (XO (XO (XO (XI (XI (XO (XI (XI
    (XI (XO (XO (XO (XO (XO (XO (XI (XO (XO (XO (XI (XO (XO (XI (XI (XO (XI
    (XI (XI (XO (XO (XI (XI (XI (XO (XI
    XH)))))))))))))))))))))))))))))))))))))))))))))))))))))))))))))))) :: ((Npos
    (XI (XO (XO (XI (XO (XO (XO (XI (XI (XI (XO (XI (XO (XI (XO (XI (XI (XI
    (XO (XI (XI (XI (XO (XI (XO (XO (XI (XO (XI (XI (XI (XI (XI (XO (XO (XO
    (XO (XO (XO (XI (XI (XI (XI (XI (XO (XI (XO (XO (XO (XO (XO (XO (XO (XO
    (XO (XI (XI (XO (XI (XI
    XH))))))))))))))))))))))))))))))))))))))))))))))))))))))))))))) :: ((Npos
    (XI (XI (XI (XO (XI (XI (XO (XI (XI (XI (XI (XI (XI (XO (XI (XI (XI (XO
    (XI (XI (XO (XI (XI (XO (XO (XO (XI (XI (XO (XI (XO (XO (XI (XI (XO (XO
    (XI (XI (XO (XO (XO (XI (XI (XI (XO (XO (XO (XI (XI (XO (XO (XO (XI (XO
    (XO (XO (XO (XO (XO (XO (XO (XI
    XH))))))))))))))))))))))))))))))))))))))))))))))))))))))))))))))) :: ((Npos
    (XI (XI (XI (XO (XO (XI (XI (XO (XI (XO (XI (XI (XI (XI (XO (XO (XI (XI
    (XI (XI (XO (XI (XO (XI (XI (XO (XO (XO (XO (XO (XO (XI (XO (XO (XO (XO
    (XI (XO (XO (XI (XO (XO (XI (XO (XI (XO (XI (XI (XO (XI (XO (XI (XI (XO
    (XI (XO (XI (XI (XI (XI (XI (XO
    XH))))))))))))))))))))))))))))))))))))))))))))))))))))))))))))))) :: ((Npos
    (XO (XO (XI (XO (XO (XO (XO (XO (XO (XO (XO (XO (XI (XI (XI (XI (XI (XI
    (XO (XI (XI (XI (XO (XI (XI (XI (XO (XO (XI (XI (XI (XO (XI (XO (XO (XI
    (XI (XI (XI (XO (XI (XO (XO (XO (XI (XI (XO (XI (XO (XI (XI (XO (XI (XI
    (XI (XO (XO (XI (XO (XO (XO (XI (XO
    XH)))))))))))))))))))))))))))))))))))))))))))))))))))))))))))))))) :: ((Npos
    (XO (XI (XO (XI (XO (XI (XO (XI (XI (XI (XI (XO (XO (XO (XI (XI (XI (XI
    (XI (XO (XO (XI (XO (XO (XO (XI (XI (XI (XI (XO (XO (XO (XI (XO (XI (XI
    (XO (XO (XI (XO (XI (XI (XI (XI (XI (XO (XI (XI (XI (XO (XI (XI (XI (XO
    (XO (XO (XO (XI (XI (XI (XI (XI (XI
    XH)))))))))))))))))))))))))))))))))))))))))))))))))))))))))))))))) :: ((Npos
    (XO (XO (XI (XO (XI (XO (XO (XI (XO (XO (XI (XI (XI (XO (XO (XO (XI (XI
    (XO (XO (XO (XO (XO (XI (XI (XO (XO (XI (XI (XI (XI (XI (XI (XO (XO (XI
    (XI (XI (XI (XO (XO (XO (XI (XO (XI (XI (XI (XI (XO (XO (XO (XI (XI (XI
    (XO (XO (XI (XI (XO (XO (XO (XO (XO
    XH)))))))))))))))))))))))))))))))))))))))))))))))))))))))))))))))) :: ((Npos
    (XI (XI (XI (XO (XI (XI (XI (XO (XI (XI (XO (XO (XI (XO (XI (XO (XI (XI
    (XO (XI (XI (XI (XI (XO (XI (XI (XO (XO (XI (XO (XO (XO (XI (XI (XO (XI
    (XI (XO (XO (XO (XI (XI (XO (XO (XO (XI (XI (XI (XO (XI (XO (XI (XI (XO
    (XO (XO (XO (XI (XO (XI (XO (XO
    XH))))))))))))))))))))))))))))))))))))))))))))))))))))))))))))))) :: ((Npos
    (XO (XI (XI (XO (XI (XO (XI (XI (XO (XO (XI (XO (XO (XO (XI (XO (XO (XI
    (XI (XO (XO (XO (XO (XI (XO (XI (XO (XI (XI (XO (XO (XO (XI (XO (XI (XI
    (XI (XI (XO (XI (XO (XO (XO (XI (XI (XO (XO (XO (XO (XO (XO (XI (XO (XO
    (XI (XI (XI (XO (XO (XI (XI (XO (XO
    XH)))))))))))))))))))))))))))))))))))))))))))))))))))))))))))))))) :: ((Npos
    (XI (XI (XI (XO (XI (XO (XO (XI (XI (XI (XI (XI (XI (XI (XO (XI (XI (XI
    (XO (XI (XO (XO (XO (XO (XO (XI (XI (XI (XI (XI (XI (XI (XO (XI (XI (XI
    (XI (XO (XI (XI (XI (XO (XO (XO (XO (XI (XO (XO (XO (XO (XI (XO (XO (XO
    (XO (XO (XO (XO (XI (XI (XI (XI (XO
    XH)))))))))))))))))))))))))))))))))))))))))))))))))))))))))))))))) :: ((Npos
    (XI (XI (XI (XO (XI (XO (XO (XI (XI (XO (XI (XI (XI (XO (XO (XO (XI (XO
    (XI (XO (XO (XO (XO (XO (XO (XI (XI (XO (XO (XI (XI (XI (XI (XO (XI (XO
    (XI (XI (XI (XI (XI (XI (XI (XO (XO (XI (XO (XO (XI (XO (XO (XO (XO (XI
    (XO (XO (XO (XO (XO (XO (XO (XO (XI
    XH)))))))))))))))))))))))))))))))))))))))))))))))))))))))))))))))) :: ((Npos
    (XI (XI (XI (XO (XI (XO (XO (XI (XO (XI (XI (XO (XI (XI (XI (XI (XO (XO
    (XI (XI (XO (XI (XI (XI (XO (XI (XO (XI (XI (XO (XI (XI (XI (XO (XO (XO
    (XO (XI (XO (XI (XO (XO (XI (XO (XI (XI (XI (XO (XO (XI (XI (XI (XI (XI
    (XO (XI (XI (XO (XI (XO (XO (XI (XO
    XH)))))))))))))))))))))))))))))))))))))))))))))))))))))))))))))))) :: ((Npos
    (XO (XO (XI (XO (XI (XO (XI (XO (XI (XO (XI (XO (XI (XI (XI (XI (XI (XO
    (XO (XO (XO (XI (XI (XO (XO (XI (XO (XO (XI (XI (XI (XO (XI (XI (XI (XO
    (XI (XO (XI (XO (XO (XI (XO (XI (XI (XI (XO (XO (XO (XO (XO (XO (XI (XI
    (XO (XI (XO (XI (XI (XI (XI (XI
    XH))))))))))))))))))))))))))))))))))))))))))))))))))))))))))))))) :: ((Npos
    (XI (XO (XO (XI (XO (XO (XI (XO (XO (XI (XO (XI (XO (XO (XI (XI (XO (XO
    (XI (XI (XO (XI (XO (XO (XO (XI (XI (XO (XI (XI (XI (XI (XI (XI (XI (XO
    (XO (XO (XI (XO (XO (XO (XO (XI (XI (XO (XO (XO (XI (XO (XO (XO (XO (XO
    (XO (XO (XO (XO (XO (XI (XI
    XH)))))))))))))))))))))))))))))))))))))))))))))))))))))))))))))) :: ((Npos
    (XO (XO (XO (XI (XI (XO (XI (XO (XI (XO (XO (XO (XI (XI (XI (XI (XI (XO
    (XO (XI (XI (XO (XO (XI (XI (XO (XO (XI (XI (XO (XI (XO (XI (XI (XO (XO
    (XI (XO (XI (XI (XO (XI (XO (XI (XO (XO (XI (XI (XI (XO (XO (XO (XI (XO
    (XO (XO (XI (XI (XI (XO (XI (XO
    XH))))))))))))))))))))))))))))))))))))))))))))))))))))))))))))))) :: ((Npos
    (XO (XI (XO (XI (XO (XO (XO (XI (XI (XI (XI (XO (XI (XI (XO (XI (XO (XI
    (XI (XO (XI (XO (XI (XO (XI (XO (XI (XI (XI (XI (XO (XI (XO (XI (XI (XI
    (XO (XI (XO (XI (XO (XI (XO (XO (XI (XI (XI (XO (XI (XI (XI (XI (XI (XI
    (XI (XO (XO (XO (XO (XO (XI (XI (XI
    XH)))))))))))))))))))))))))))))))))))))))))))))))))))))))))))))))) :: ((Npos
    (XI (XI (XI (XI (XI (XI (XI (XO (XI (XI (XI (XO (XI (XO (XO (XO (XI (XO
    (XO (XO (XI (XO (XO (XO (XI (XO (XO (XO (XO (XI (XI (XO (XO (XO (XO (XO
    (XI (XO (XO (XO (XI (XI (XO (XO (XO (XI (XO (XI (XO (XI (XO (XO (XO (XO
    (XI (XO (XI (XI (XO (XI (XO
    XH)))))))))))))))))))))))))))))))))))))))))))))))))))))))))))))) :: ((Npos
    (XO (XI (XO (XI (XI (XO (XO (XO (XO (XI (XO (XI (XI (XI (XO (XO (XO (XO
    (XI (XI (XO (XI (XO (XI (XI (XO (XI (XO (XO (XI (XO (XO (XI (XI (XO (XI
    (XO (XO (XI (XO (XO (XI (XO (XI (XI (XO (XI (XO (XI (XI (XO (XO (XI (XO
    (XO (XO (XI (XI (XO (XO
    XH))))))))))))))))))))))))))))))))))))))))))))))))))))))))))))) :: ((Npos
    (XO (XI (XI (XI (XI (XI (XO (XO (XI (XO (XO (XO (XO (XI (XO (XO (XO (XO
    (XO (XO (XO (XI (XO (XI (XI (XO (XO (XO (XO (XO (XO (XO (XO (XO (XO (XO
    (XI (XI (XO (XO (XI (XO (XO (XI (XI (XO (XI (XO (XO (XI (XI (XI (XI (XI
    (XI (XO (XI (XO (XO (XO (XO
    XH)))))))))))))))))))))))))))))))))))))))))))))))))))))))))))))) :: ((Npos
    (XI (XO (XO (XO (XO (XO (XI (XO (XO (XI (XI (XI (XI (XI (XI (XO (XO (XI
    (XI (XO (XO (XI (XO (XI (XO (XO (XO (XO (XO (XI (XI (XI (XO (XI (XI (XI
    (XI (XO (XO (XI (XI (XO (XI (XO (XI (XO (XO (XI (XI (XO (XO (XO (XI (XI
    (XI (XO (XI (XO (XI (XI (XI (XI
    XH))))))))))))))))))))))))))))))))))))))))))))))))))))))))))))))) :: ((Npos
    (XO (XI (XI (XO (XO (XI (XO (XO (XO (XO (XI (XO (XI (XI (XI (XO (XI (XI
    (XO (XO (XO (XI (XO (XO (XO (XO (XI (XO (XI (XO (XI (XO (XO (XI (XO (XO
    (XO (XI (XO (XO (XO (XI (XI (XI (XO (XO (XO (XO (XO (XO (XO (XI (XI (XO
    (XI (XI (XO (XO (XO (XO
    XH))))))))))))))))))))))))))))))))))))))))))))))))))))))))))))) :: ((Npos
    (XO (XO (XI (XI (XI (XI (XO (XI (XI (XI (XO (XI (XO (XI (XO (XO (XO (XO
    (XO (XO (XO (XO (XI (XO (XI (XI (XI (XI (XO (XO (XI (XI (XO (XO (XI (XO
    (XO (XO (XI (XI (XI (XI (XI (XO (XO (XI (XO (XI (XO (XO (XO (XO (XI (XI
    (XI (XO (XI (XO (XO (XI (XO (XO
    XH))))))))))))))))))))))))))))))))))))))))))))))))))))))))))))))) :: ((Npos
    (XI (XI (XO (XO (XI (XO (XI (XO (XI (XO (XI (XO (XO (XI (XI (XO (XI (XI
    (XO (XI (XI (XO (XI (XI (XI (XI (XO (XO (XO (XI (XO (XO (XO (XO (XO (XI
    (XO (XI (XI (XI (XO (XO (XO (XI (XI (XI (XI (XI (XO (XI (XO (XI (XI (XI
    (XI (XO (XO (XI (XI (XI (XO
    XH)))))))))))))))))))))))))))))))))))))))))))))))))))))))))))))) :: ((Npos
    (XI (XO (XO (XO (XO (XI (XO (XI (XI (XI (XO (XO (XI (XO (XI (XO (XO (XI
    (XO (XI (XO (XI (XI (XO (XI (XO (XI (XI (XO (XI (XI (XO (XI (XO (XI (XO
    (XO (XI (XO (XO (XO (XO (XO (XO (XI (XO (XO (XI (XO (XO (XO (XI (XI (XI
    (XI (XI (XI (XI (XO (XI (XO (XO (XO
    XH)))))))))))))))))))))))))))))))))))))))))))))))))))))))))))))))) :: ((Npos
    (XI (XI (XI (XO (XI (XI (XO (XO (XI (XO (XI (XO (XI (XO (XO (XI (XI (XI
    (XO (XO (XI (XO (XO (XO (XI (XO (XI (XO (XI (XO (XI (XO (XI (XO (XO (XO
    (XO (XO (XO (XO (XI (XO (XO (XO (XO (XO (XO (XI (XO (XO (XO (XI (XI (XI
    (XO (XI (XI (XO (XI (XO (XO (XI
    XH))))))))))))))))))))))))))))))))))))))))))))))))))))))))))))))) :: ((Npos
    (XI (XO (XO (XI (XI (XI (XO (XI (XO (XO (XO (XO (XI (XI (XO (XO (XI (XI
    (XI (XI (XI (XO (XO (XI (XI (XI (XO (XI (XO (XI (XO (XO (XI (XI (XI (XO
    (XO (XI (XI (XO (XI (XO (XO (XI (XO (XO (XI (XO (XI (XI (XI (XI (XO (XI
    (XI (XI (XO (XI (XO (XI (XO (XO (XO
    XH)))))))))))))))))))))))))))))))))))))))))))))))))))))))))))))))) :: ((Npos
    (XO (XO (XI (XI (XI (XI (XO (XO (XO (XI (XI (XI (XI (XI (XO (XO (XO (XO
    (XO (XI (XO (XI (XO (XO (XO (XI (XO (XI (XO (XO (XI (XI (XI (XI (XI (XI
    (XO (XO (XO (XO (XI (XI (XO (XI (XI (XI (XO (XO (XI (XO (XI (XI (XO (XI
    (XO (XO (XI (XI (XO (XO (XO (XI (XI
    XH)))))))))))))))))))))))))))))))))))))))))))))))))))))))))))))))) :: ((Npos
    (XO (XI (XO (XI (XO (XI (XI (XI (XO (XI (XO (XI (XI (XI (XI (XI (XI (XO
    (XO (XI (XO (XO (XO (XI (XO (XI (XI (XO (XO (XO (XI (XI (XO (XO (XO (XI
    (XO (XO (XI (XO (XI (XO (XI (XO (XI (XI (XO (XO (XI (XI (XI (XO (XI (XO
    (XI (XI (XI (XO (XO (XO (XI
    XH)))))))))))))))))))))))))))))))))))))))))))))))))))))))))))))) :: ((Npos
    (XO (XI (XO (XI (XI (XI (XI (XI (XI (XI (XO (XO (XO (XO (XI (XI (XO (XO
    (XI (XI (XO (XO (XO (XI (XO (XO (XO (XI (XO (XO (XO (XI (XI (XI (XI (XO
    (XI (XI (XI (XO (XI (XO (XO (XI (XO (XI (XO (XO (XI (XO (XI (XI (XO (XO
    (XI (XI (XO (XO (XO (XI (XO (XO (XI
    XH)))))))))))))))))))))))))))))))))))))))))))))))))))))))))))))))) :: ((Npos
    (XO (XI (XO (XO (XI (XO (XO (XO (XO (XI (XO (XO (XO (XI (XO (XO (XO (XO
    (XO (XO (XI (XO (XO (XO (XI (XO (XO (XO (XI (XI (XO (XO (XO (XI (XI (XI
    (XI (XO (XO (XO (XI (XI (XI (XI (XO (XO (XO (XI (XO (XO (XI (XI (XI (XI
    (XI (XO (XO (XO (XO (XO (XI (XI (XO
    XH)))))))))))))))))))))))))))))))))))))))))))))))))))))))))))))))) :: ((Npos
    (XI (XO (XI (XO (XI (XO (XI (XI (XI (XI (XI (XO (XO (XI (XI (XO (XO (XI
    (XO (XI (XI (XI (XI (XO (XO (XI (XI (XO (XI (XO (XI (XO (XI (XO (XO (XO
    (XO (XI (XO (XI (XO (XI (XO (XI (XO (XO (XO (XI (XI (XO (XI (XI (XI (XO
    (XO (XI (XO (XI (XI (XO (XO (XI (XO
    XH)))))))))))))))))))))))))))))))))))))))))))))))))))))))))))))))) :: ((Npos
    (XO (XO (XI (XO (XO (XO (XI (XO (XO (XO (XI (XI (XO (XO (XO (XO (XI (XI
    (XO (XI (XI (XO (XI (XO (XI (XI (XI (XI (XO (XI (XO (XO (XI (XO (XI (XO
    (XI (XO (XO (XI (XI (XO (XI (XO (XO (XI (XO (XI (XI (XI (XO (XI (XO (XI
    (XO (XI (XI (XI (XI (XI (XI (XI
    XH))))))))))))))))))))))))))))))))))))))))))))))))))))))))))))))) :: ((Npos
    (XO (XO (XI (XI (XO (XO (XI (XI (XI (XO (XI (XI (XO (XI (XO (XO (XI (XI
    (XI (XI (XO (XO (XI (XO (XO (XI (XI (XO (XI (XI (XO (XI (XI (XI (XI (XI
    (XI (XI (XI (XO (XI (XI (XO (XI (XO (XO (XI (XO (XO (XO (XI (XI (XO (XO
    (XI (XO (XI (XI (XI (XI (XO (XO (XO
    XH)))))))))))))))))))))))))))))))))))))))))))))))))))))))))))))))) :: ((Npos
    (XO (XI (XI (XI (XO (XI (XI (XI (XO (XO (XI (XO (XI (XI (XO (XO (XI (XO
    (XO (XO (XO (XO (XO (XI (XI (XI (XO (XI (XO (XI (XO (XI (XO (XI (XI (XO
    (XO (XI (XO (XI (XI (XI (XO (XI (XI (XO (XI (XO (XO (XI (XI (XI (XO (XO
    (XI (XI (XO (XO (XO (XO (XO (XO (XI
    XH)))))))))))))))))))))))))))))))))))))))))))))))))))))))))))))))) :: ((Npos
    (XO (XO (XI (XI (XI (XO (XI (XI (XI (XO (XO (XI (XO (XO (XO (XO (XO (XI
    (XI (XO (XI (XI (XO (XI (XO (XO (XO (XO (XO (XO (XI (XO (XI (XO (XO (XI
    (XI (XO (XI (XO (XO (XO (XI (XO (XO (XO (XI (XI (XO (XI (XI (XI (XO (XI
    (XI (XI (XO (XO (XI (XI (XI (XO (XO
    XH)))))))))))))))))))))))))))))))))))))))))))))))))))))))))))))))) :: ((Npos
    (XO (XO (XO (XO (XO (XO (XO (XO (XO (XI (XI (XO (XO (XO (XO (XI (XO (XI
    (XI (XO (XI (XO (XO (XO (XO (XI (XI (XI (XO (XO (XI (XO (XO (XO (XI (XI
    (XO (XO (XO (XI (XO (XI (XO (XO (XI (XI (XO (XO (XI (XO (XI (XO (XI (XI
    (XO (XO (XO (XO (XO (XI (XI (XO (XI
    XH)))))))))))))))))))))))))))))))))))))))))))))))))))))))))))))))) :: ((Npos
    (XI (XI (XI (XO (XO (XO (XO (XO (XI (XO (XO (XO (XI (XO (XO (XO (XI (XO
    (XI (XI (XO (XO (XI (XI (XI (XO (XO (XO (XI (XI (XO (XO (XO (XI (XI (XI
    (XO (XO (XO (XO (XO (XI (XO (XI (XO (XO (XO (XO (XO (XI (XI (XO (XO (XO
    (XO (XO (XO (XO (XO (XI (XI (XO
    XH))))))))))))))))))))))))))))))))))))))))))))))))))))))))))))))) :: ((Npos
    (XI (XI (XI (XO (XO (XI (XI (XO (XO (XI (XI (XI (XI (XO (XI (XO (XI (XI
    (XI (XO (XI (XO (XO (XO (XI (XO (XO (XO (XI (XO (XO (XI (XO (XO (XO (XO
    (XI (XI (XI (XO (XO (XO (XO (XI (XI (XO (XI (XI (XO (XO (XI (XI (XO (XI
    (XO (XI (XI (XI (XI (XO (XI (XI
    XH))))))))))))))))))))))))))))))))))))))))))))))))))))))))))))))) :: ((Npos
    (XI (XI (XO (XO (XI (XI (XO (XO (XO (XI (XI (XO (XI (XO (XI (XI (XO (XO
    (XO (XI (XI (XI (XI (XO (XI (XO (XI (XI (XI (XI (XI (XI (XO (XI (XO (XO
    (XI (XO (XO (XI (XI (XO (XO (XI (XO (XO (XI (XO (XI (XI (XO (XO (XO (XO
    (XO (XI (XI (XI (XI (XO (XI
    XH)))))))))))))))))))))))))))))))))))))))))))))))))))))))))))))) :: ((Npos
    (XI (XI (XO (XI (XO (XO (XO (XI (XO (XI (XO (XI (XI (XI (XI (XO (XO (XI
    (XI (XI (XO (XO (XO (XI (XO (XO (XO (XI (XI (XO (XO (XI (XI (XI (XO (XO
    (XO (XI (XI (XO (XO (XI (XO (XO (XO (XO (XI (XI (XO (XI (XO (XI (XI (XO
    (XI (XI (XO (XI (XO (XO (XO (XI
    XH))))))))))))))))))))))))))))))))))))))))))))))))))))))))))))))) :: ((Npos
    (XI (XO (XI (XI (XI (XO (XI (XO (XI (XI (XI (XO (XO (XI (XO (XO (XI (XO
    (XI (XO (XI (XO (XI (XO (XI (XO (XI (XO (XI (XO (XO (XO (XO (XI (XO (XO
    (XO (XI (XO (XO (XI (XI (XI (XO (XI (XI (XI (XO (XI (XI (XO (XI (XO (XO
    (XI (XI (XO (XO (XI (XI (XO
    XH)))))))))))))))))))))))))))))))))))))))))))))))))))))))))))))) :: ((Npos
    (XO (XO (XO (XO (XI (XO (XI (XI (XO (XI (XI (XI (XI (XO (XI (XI (XO (XO
    (XI (XO (XO (XI (XI (XI (XO (XO (XI (XO (XI (XO (XI (XI (XI (XO (XO (XI
    (XO (XO (XI (XI (XO (XO (XO (XO (XO (XO (XI (XI (XO (XO (XI (XO (XI (XI
    (XO (XI (XI (XO (XO (XI (XO (XO (XO
    XH)))))))))))))))))))))))))))))))))))))))))))))))))))))))))))))))) :: ((Npos
    (XO (XI (XO (XI (XI (XO (XO (XO (XO (XI (XO (XI (XO (XI (XI (XO (XO (XO
    (XO (XO (XO (XI (XO (XI (XO (XO (XI (XI (XI (XI (XO (XO (XO (XI (XI (XI
    (XO (XO (XO (XO (XI (XI (XI (XI (XI (XO (XI (XO (XO (XO (XI (XO (XI (XO
    (XO (XO (XI (XO (XI (XI (XI (XI (XO
    XH)))))))))))))))))))))))))))))))))))))))))))))))))))))))))))))))) :: ((Npos
    (XO (XO (XO (XO (XI (XI (XO (XO (XI (XI (XI (XI (XO (XI (XO (XO (XO (XI
    (XI (XO (XO (XO (XO (XO (XO (XI (XO (XO (XO (XI (XI (XI (XO (XO (XI (XO
    (XO (XO (XI (XI (XI (XO (XI (XO (XI (XI (XI (XI (XI (XO (XO (XI (XI (XI
    (XO (XO (XI (XO (XI (XI (XO (XO
    XH))))))))))))))))))))))))))))))))))))))))))))))))))))))))))))))) :: ((Npos
    (XI (XO (XI (XI (XO (XI (XI (XI (XI (XI (XO (XO (XO (XO (XO (XO (XI (XO
    (XO (XO (XO (XO (XO (XO (XI (XO (XO (XI (XI (XI (XO (XO (XO (XI (XI (XO
    (XI (XO (XO (XO (XO (XO (XO (XO (XI (XI (XO (XI (XI (XO (XI (XO (XO (XO
    (XI (XI (XO (XI (XO (XI (XO (XI (XO
    XH)))))))))))))))))))))))))))))))))))))))))))))))))))))))))))))))) :: ((Npos
    (XI (XO (XO (XO (XO (XI (XO (XI (XO (XI (XI (XO (XI (XI (XO (XO (XO (XI
    (XO (XO (XO (XO (XI (XI (XO (XI (XO (XI (XI (XO (XO (XO (XO (XI (XO (XO
    (XI (XO (XI (XI (XO (XO (XI (XO (XO (XI (XO (XI (XI (XO (XO (XI (XI (XI
    (XI (XI (XO (XI (XO (XI (XI (XO (XO
    XH)))))))))))))))))))))))))))))))))))))))))))))))))))))))))))))))) :: ((Npos
    (XI (XO (XO (XI (XO (XO (XO (XI (XO (XO (XI (XI (XO (XI (XO (XI (XO (XI
    (XI (XO (XO (XI (XO (XO (XO (XI (XI (XI (XO (XI (XI (XI (XI (XI (XO (XI
    (XI (XI (XI (XI (XI (XO (XI (XO (XO (XO (XO (XO (XI (XO (XI (XI (XI (XO
    (XO (XO (XI (XO (XI (XI (XO (XO (XI
    XH)))))))))))))))))))))))))))))))))))))))))))))))))))))))))))))))) :: ((Npos
    (XI (XO (XO (XO (XO (XO (XI (XI (XI (XO (XO (XI (XO (XO (XI (XI (XO (XI
    (XI (XI (XI (XO (XO (XO (XI (XI (XI (XI (XO (XI (XI (XO (XI (XI (XO (XI
    (XO (XO (XO (XI (XI (XO (XO (XI (XI (XI (XO (XO (XO (XO (XI (XO (XO (XO
    (XI (XO (XO (XO (XO (XI (XO (XI (XO
    XH)))))))))))))))))))))))))))))))))))))))))))))))))))))))))))))))) :: ((Npos
    (XI (XI (XO (XO (XO (XO (XI (XO (XI (XO (XI (XI (XO (XI (XO (XO (XO (XO
    (XI (XO (XO (XO (XO (XI (XI (XO (XO (XI (XO (XI (XI (XI (XI (XI (XO (XI
    (XI (XO (XO (XO (XI (XI (XI (XI (XI (XI (XI (XO (XO (XO (XI (XI (XI (XO
    (XI (XI (XO (XI (XO (XO (XI (XO (XI
    XH)))))))))))))))))))))))))))))))))))))))))))))))))))))))))))))))) :: ((Npos
    (XO (XI (XO (XI (XO (XI (XI (XO (XO (XI (XO (XO (XI (XO (XO (XO (XO (XI
    (XI (XO (XO (XI (XO (XO (XO (XO (XO (XO (XO (XO (XO (XO (XI (XI (XO (XI
    (XO (XO (XO (XO (XI (XO (XI (XO (XO (XO (XO (XO (XO (XO (XO (XO (XI (XO
    (XO (XO (XI (XI (XO (XO (XO (XO (XO
    XH)))))))))))))))))))))))))))))))))))))))))))))))))))))))))))))))) :: ((Npos
    (XO (XO (XO (XO (XI (XI (XO (XO (XO (XO (XO (XO (XI (XO (XO (XI (XO (XI
    (XO (XO (XO (XI (XO (XO (XO (XI (XI (XI (XI (XI (XI (XI (XO (XO (XI (XO
    (XI (XI (XO (XI (XO (XI (XI (XO (XI (XO (XO (XO (XI (XI (XO (XO (XO (XI
    (XI (XI (XI (XI (XI (XO (XI (XI (XO
    XH)))))))))))))))))))))))))))))))))))))))))))))))))))))))))))))))) :: ((Npos
    (XI (XO (XO (XO (XI (XI (XO (XO (XI (XI (XI (XI (XO (XI (XO (XO (XO (XI
    (XI (XO (XO (XI (XI (XO (XI (XI (XI (XO (XI (XI (XO (XO (XI (XO (XO (XO
    (XI (XI (XI (XI (XI (XO (XO (XI (XO (XI (XO (XI (XI (XO (XO (XO (XO (XO
    (XI (XO (XI (XI (XI (XO (XO (XI (XI
    XH)))))))))))))))))))))))))))))))))))))))))))))))))))))))))))))))) :: ((Npos
    (XI (XO (XI (XO (XI (XI (XO (XO (XO (XO (XI (XI (XO (XI (XO (XI (XO (XO
    (XI (XO (XO (XO (XO (XO (XI (XO (XO (XO (XI (XI (XI (XO (XI (XI (XI (XI
    (XO (XO (XI (XI (XI (XO (XO (XO (XI (XI (XO (XI (XI (XO (XI (XO (XO (XO
    (XO (XI (XI (XI (XI (XO (XI
    XH)))))))))))))))))))))))))))))))))))))))))))))))))))))))))))))) :: ((Npos
    (XI (XI (XO (XO (XI (XO (XI (XI (XO (XO (XO (XI (XI (XO (XO (XI (XO (XO
    (XI (XO (XI (XO (XI (XO (XI (XI (XO (XI (XO (XI (XI (XI (XO (XI (XI (XO
    (XO (XO (XI (XO (XI (XO (XO (XI (XO (XI (XI (XO (XI (XI (XO (XI (XO (XO
    (XI (XO (XI (XO (XO (XI (XO (XI
    XH))))))))))))))))))))))))))))))))))))))))))))))))))))))))))))))) :: ((Npos
    (XI (XO (XO (XI (XO (XI (XI (XO (XO (XO (XI (XO (XO (XI (XO (XI (XO (XO
    (XI (XO (XO (XO (XI (XO (XI (XO (XI (XI (XI (XO (XO (XO (XI (XO (XO (XI
    (XI (XI (XO (XI (XO (XO (XO (XI (XI (XI (XO (XI (XI (XO (XI (XI (XO (XI
    (XO (XI (XO (XI (XO (XO (XO (XO (XO
    XH)))))))))))))))))))))))))))))))))))))))))))))))))))))))))))))))) :: ((Npos
    (XO (XO (XO (XO (XI (XI (XI (XO (XI (XI (XI (XO (XI (XO (XI (XO (XI (XI
    (XO (XI (XI (XO (XI (XI (XI (XI (XO (XO (XI (XI (XO (XI (XI (XO (XI (XI
    (XI (XO (XI (XI (XI (XI (XI (XI (XI (XI (XO (XI (XI (XI (XO (XI (XI (XI
    (XO (XI (XI (XI (XO (XI (XO (XO
    XH))))))))))))))))))))))))))))))))))))))))))))))))))))))))))))))) :: ((Npos
    (XO (XI (XI (XI (XO (XI (XO (XO (XO (XO (XO (XI (XI (XO (XO (XO (XO (XI
    (XI (XO (XO (XI (XI (XI (XO (XO (XO (XI (XO (XI (XI (XO (XO (XI (XO (XI
    (XI (XI (XI (XI (XI (XO (XI (XO (XI (XO (XO (XI (XO (XO (XI (XO (XI (XO
    (XI (XI (XI (XI (XO (XO (XO (XI
    XH))))))))))))))))))))))))))))))))))))))))))))))))))))))))))))))) :: ((Npos
    (XO (XI (XO (XI (XI (XO (XO (XO (XO (XO (XO (XO (XI (XO (XI (XO (XO (XI
    (XO (XO (XI (XI (XI (XI (XI (XO (XI (XO (XO (XI (XO (XI (XO (XO (XO (XI
    (XI (XI (XO (XI (XI (XO (XI (XO (XO (XI (XO (XO (XI (XI (XO (XI (XI (XO
    (XO (XI (XI (XI (XI (XI (XO (XI (XI
    XH)))))))))))))))))))))))))))))))))))))))))))))))))))))))))))))))) :: ((Npos
    (XO (XO (XO (XO (XI (XO (XI (XI (XI (XO (XO (XI (XO (XI (XO (XI (XI (XI
    (XO (XI (XI (XO (XI (XO (XO (XO (XI (XI (XO (XI (XI (XO (XI (XO (XI (XI
    (XO (XO (XO (XI (XO (XO (XO (XO (XO (XI (XI (XO (XI (XO (XO (XI (XO (XI
    (XO (XI (XI (XO (XI (XO (XI (XI (XI
    XH)))))))))))))))))))))))))))))))))))))))))))))))))))))))))))))))) :: ((Npos
    (XI (XI (XO (XI (XO (XO (XO (XI (XI (XO (XI (XI (XO (XI (XO (XO (XI (XI
    (XI (XO (XI (XI (XO (XO (XI (XI (XI (XI (XI (XI (XO (XI (XO (XO (XO (XI
    (XO (XI (XI (XI (XI (XI (XO (XI (XO (XI (XO (XI (XO (XI (XI (XO (XI (XO
    (XO (XI (XI (XI (XO (XO (XI (XO
    XH))))))))))))))))))))))))))))))))))))))))))))))))))))))))))))))) :: ((Npos
    (XI (XI (XO (XI (XO (XO (XO (XI (XO (XO (XI (XO (XO (XO (XI (XI (XO (XI
    (XI (XI (XO (XI (XO (XO (XI (XI (XO (XI (XI (XI (XO (XO (XO (XO (XO (XI
    (XO (XO (XO (XO (XI (XO (XO (XI (XI (XO (XI (XO (XI (XO (XO (XO (XO (XI
    (XO (XO (XI (XI (XO (XI (XI (XO (XO
    XH)))))))))))))))))))))))))))))))))))))))))))))))))))))))))))))))) :: ((Npos
    (XO (XI (XO (XI (XO (XI (XO (XI (XO (XI (XO (XO (XI (XO (XO (XO (XI (XI
    (XO (XI (XI (XO (XO (XI (XI (XO (XO (XO (XO (XO (XO (XO (XO (XO (XO (XI
    (XI (XI (XI (XI (XI (XO (XO (XI (XO (XO (XI (XI (XO (XI (XO (XO (XI (XI
    (XO (XO (XI (XI (XI (XI (XI
    XH)))))))))))))))))))))))))))))))))))))))))))))))))))))))))))))) :: ((Npos
    (XO (XO (XO (XO (XO (XO (XO (XI (XO (XI (XO (XO (XI (XI (XI (XO (XO (XI
    (XO (XI (XI (XO (XI (XI (XO (XI (XI (XO (XI (XI (XI (XI (XO (XO (XI (XO
    (XI (XI (XI (XO (XO (XI (XI (XO (XI (XO (XI (XO (XO (XI (XO (XO (XO (XI
    (XI (XO (XI (XO (XI (XI (XO (XO (XO
    XH)))))))))))))))))))))))))))))))))))))))))))))))))))))))))))))))) :: ((Npos
    (XO (XI (XI (XI (XO (XI (XI (XO (XO (XI (XO (XI (XO (XO (XO (XO (XO (XI
    (XI (XI (XI (XO (XO (XO (XO (XO (XI (XI (XI (XO (XO (XO (XO (XO (XO (XI
    (XO (XO (XI (XI (XI (XO (XO (XO (XI (XI (XI (XO (XO (XI (XI (XO (XO (XI
    (XI (XO (XI (XO (XO (XO (XI (XI (XI
    XH)))))))))))))))))))))))))))))))))))))))))))))))))))))))))))))))) :: ((Npos
    (XI (XI (XI (XO (XI (XO (XO (XI (XO (XO (XI (XI (XI (XO (XO (XO (XI (XO
    (XI (XI (XI (XO (XI (XI (XO (XI (XI (XO (XI (XO (XO (XO (XI (XI (XI (XO
    (XI (XI (XO (XO (XO (XO (XO (XO (XO (XI (XO (XI (XI (XI (XI (XO (XO (XO
    (XI (XI (XI (XI (XI (XO (XO (XO (XI
    XH)))))))))))))))))))))))))))))))))))))))))))))))))))))))))))))))) :: ((Npos
    (XI (XO (XO (XI (XO (XI (XO (XO (XO (XI (XI (XI (XI (XO (XO (XO (XI (XI
    (XO (XI (XI (XI (XO (XI (XI (XO (XI (XO (XI (XI (XO (XO (XI (XO (XI (XO
    (XI (XI (XO (XO (XO (XI (XI (XI (XO (XI (XI (XO (XI (XO (XO (XO (XO (XI
    (XI (XI (XO (XO (XI (XI (XI (XI
    XH))))))))))))))))))))))))))))))))))))))))))))))))))))))))))))))) :: ((Npos
    (XI (XI (XI (XO (XO (XI (XO (XO (XO (XI (XO (XO (XO (XO (XO (XI (XI (XI
    (XO (XI (XO (XI (XI (XI (XO (XO (XO (XO (XI (XO (XO (XI (XI (XO (XO (XO
    (XO (XO (XO (XI (XI (XI (XO (XI (XI (XI (XI (XI (XO (XO (XI (XO (XO (XO
    (XI (XI (XI (XO (XI (XO
    XH))))))))))))))))))))))))))))))))))))))))))))))))))))))))))))) :: ((Npos
    (XO (XO (XI (XI (XI (XI (XO (XO (XI (XO (XO (XI (XO (XI (XI (XI (XI (XI
    (XI (XI (XI (XO (XI (XI (XI (XO (XO (XI (XI (XO (XO (XO (XI (XO (XO (XO
    (XI (XI (XI (XO (XI (XO (XI (XO (XI (XI (XO (XO (XI (XO (XI (XO (XI (XO
    (XO (XO (XO (XO (XO (XO (XI (XI
    XH))))))))))))))))))))))))))))))))))))))))))))))))))))))))))))))) :: ((Npos
    (XO (XI (XI (XI (XI (XI (XI (XI (XI (XO (XO (XO (XI (XI (XO (XO (XI (XO
    (XO (XO (XO (XO (XO (XI (XI (XI (XI (XI (XI (XO (XO (XO (XO (XO (XO (XI
    (XI (XI (XO (XI (XO (XO (XI (XO (XO (XI (XI (XI (XO (XI (XO (XI (XO (XO
    (XO (XO (XI (XO (XO (XI (XI (XO
    XH))))))))))))))))))))))))))))))))))))))))))))))))))))))))))))))) :: ((Npos
    (XI (XO (XI (XO (XI (XO (XO (XO (XO (XO (XO (XI (XO (XO (XI (XO (XO (XI
    (XO (XI (XI (XI (XO (XI (XI (XI (XO (XO (XO (XO (XO (XI (XO (XI (XO (XO
    (XI (XI (XO (XO (XI (XO (XO (XO (XO (XI (XO (XO (XO (XO (XO (XI (XI (XO
    (XI (XO (XI (XI (XI (XO (XI
    XH)))))))))))))))))))))))))))))))))))))))))))))))))))))))))))))) :: ((Npos
    (XO (XI (XI (XO (XO (XO (XO (XO (XI (XO (XI (XO (XI (XI (XO (XI (XO (XO
    (XI (XI (XO (XO (XO (XO (XO (XO (XI (XO (XO (XI (XI (XO (XO (XO (XI (XO
    (XO (XO (XO (XI (XO (XO (XO (XO (XI (XI (XI (XO (XO (XO (XO (XI (XI (XI
    (XI (XO (XI (XO (XO (XI (XO
    XH)))))))))))))))))))))))))))))))))))))))))))))))))))))))))))))) :: ((Npos
    (XO (XI (XI (XI (XO (XI (XO (XO (XI (XO (XO (XI (XI (XI (XI (XI (XO (XI
    (XO (XO (XO (XI (XO (XO (XI (XO (XO (XO (XO (XI (XI (XI (XI (XI (XO (XI
    (XO (XI (XI (XI (XO (XI (XI (XO (XI (XI (XO (XO (XO (XO (XI (XO (XI (XO
    (XO (XO (XO (XI (XO (XO (XI (XI (XI
    XH)))))))))))))))))))))))))))))))))))))))))))))))))))))))))))))))) :: ((Npos
    (XI (XO (XI (XI (XO (XI (XO (XI (XO (XI (XI (XO (XO (XI (XI (XI (XO (XO
    (XI (XI (XO (XI (XO (XO (XO (XO (XI (XI (XI (XI (XO (XI (XO (XI (XO (XO
    (XO (XO (XI (XO (XO (XI (XO (XO (XO (XI (XO (XI (XO (XO (XO (XO (XO (XO
    (XO (XO (XO (XO (XI (XI (XI
    XH)))))))))))))))))))))))))))))))))))))))))))))))))))))))))))))) :: ((Npos
    (XI (XI (XO (XI (XI (XI (XO (XI (XI (XI (XO (XO (XO (XO (XI (XI (XO (XI
    (XI (XI (XO (XO (XI (XI (XI (XO (XO (XI (XI (XO (XI (XI (XO (XI (XO (XO
    (XO (XO (XI (XI (XO (XO (XO (XO (XI (XI (XO (XO (XO (XO (XI (XO (XI (XO
    (XO (XO (XI (XO (XO (XO (XO
    XH)))))))))))))))))))))))))))))))))))))))))))))))))))))))))))))) :: ((Npos
    (XI (XI (XO (XO (XO (XO (XO (XO (XI (XI (XI (XO (XO (XO (XO (XI (XI (XI
    (XO (XO (XI (XI (XI (XI (XI (XO (XO (XI (XO (XI (XI (XO (XI (XI (XO (XO
    (XO (XI (XI (XO (XO (XI (XI (XI (XO (XI (XO (XO (XO (XO (XI (XI (XO (XI
    (XI (XO (XO (XO (XO
    XH)))))))))))))))))))))))))))))))))))))))))))))))))))))))))))) :: ((Npos
    (XO (XO (XI (XI (XI (XI (XI (XI (XI (XI (XI (XO (XO (XO (XI (XO (XO (XI
    (XI (XI (XI (XI (XI (XO (XO (XI (XI (XI (XI (XI (XO (XO (XO (XO (XO (XO
    (XI (XI (XO (XO (XO (XI (XO (XI (XI (XI (XI (XO (XI (XO (XO (XI (XI (XI
    (XO (XI (XO (XI (XO (XO (XI (XO (XO
    XH)))))))))))))))))))))))))))))))))))))))))))))))))))))))))))))))) :: ((Npos
    (XO (XO (XO (XO (XO (XI (XI (XI (XI (XI (XI (XO (XO (XO (XI (XI (XI (XO
    (XI (XO (XO (XO (XO (XI (XO (XI (XO (XI (XI (XI (XO (XO (XO (XI (XI (XO
    (XI (XO (XO (XI (XO (XI (XO (XO (XI (XI (XI (XO (XI (XO (XO (XI (XI (XI
    (XI (XO (XI (XO (XO (XI (XO
    XH)))))))))))))))))))))))))))))))))))))))))))))))))))))))))))))) :: ((Npos
    (XO (XI (XO (XO (XO (XO (XI (XO (XO (XI (XI (XO (XO (XI (XI (XI (XO (XO
    (XI (XI (XO (XI (XI (XO (XI (XI (XI (XI (XO (XO (XI (XI (XI (XI (XO (XI
    (XI (XI (XI (XO (XO (XI (XI (XO (XI (XI (XO (XI (XI (XI (XI (XI (XO (XO
    (XO (XI (XI (XI (XO (XI (XO (XO
    XH))))))))))))))))))))))))))))))))))))))))))))))))))))))))))))))) :: ((Npos
    (XO (XI (XO (XI (XO (XI (XI (XI (XI (XO (XO (XO (XO (XO (XO (XO (XO (XO
    (XI (XI (XO (XO (XI (XO (XO (XI (XI (XI (XI (XI (XI (XO (XI (XO (XO (XO
    (XI (XI (XI (XI (XO (XO (XI (XO (XO (XO (XO (XI (XI (XI (XI (XO (XO (XI
    (XO (XO (XO (XI (XO (XO (XO (XO
    XH))))))))))))))))))))))))))))))))))))))))))))))))))))))))))))))) :: ((Npos
    (XO (XI (XI (XO (XI (XO (XO (XO (XI (XO (XI (XO (XO (XI (XO (XI (XO (XI
    (XI (XO (XO (XO (XI (XI (XI (XO (XI (XI (XI (XI (XI (XO (XO (XO (XI (XI
    (XI (XO (XI (XO (XO (XO (XI (XO (XO (XO (XO (XO (XI (XI (XI (XI (XO (XO
    (XI (XI (XO (XO (XI (XI (XO (XI (XI
    XH)))))))))))))))))))))))))))))))))))))))))))))))))))))))))))))))) :: ((Npos
    (XO (XO (XI (XO (XI (XI (XO (XO (XI (XI (XI (XI (XO (XI (XO (XO (XO (XI
    (XI (XI (XO (XI (XO (XI (XI (XO (XO (XO (XO (XO (XO (XO (XO (XO (XI (XI
    (XO (XI (XO (XO (XI (XO (XI (XO (XI (XO (XI (XO (XI (XO (XI (XI (XO (XO
    (XI (XI (XI (XI (XO (XI (XO (XI (XI
    XH)))))))))))))))))))))))))))))))))))))))))))))))))))))))))))))))) :: ((Npos
    (XI (XO (XI (XO (XI (XO (XO (XO (XI (XI (XO (XO (XO (XO (XI (XI (XI (XO
    (XI (XI (XO (XI (XO (XO (XI (XO (XI (XI (XI (XI (XI (XO (XI (XI (XO (XO
    (XI (XO (XO (XO (XI (XI (XI (XO (XO (XI (XI (XO (XO (XO (XO (XO (XO (XO
    (XO (XI (XI (XI (XO (XI (XO (XI (XO
    XH)))))))))))))))))))))))))))))))))))))))))))))))))))))))))))))))) :: ((Npos
    (XI (XI (XI (XO (XI (XO (XO (XI (XI (XO (XI (XI (XO (XI (XI (XO (XO (XI
    (XI (XO (XO (XI (XI (XI (XO (XI (XI (XO (XO (XO (XI (XI (XO (XO (XO (XO
    (XO (XI (XI (XI (XO (XO (XI (XO (XI (XO (XI (XO (XI (XI (XI (XI (XI (XI
    (XO (XI (XI (XI (XI (XO (XI (XI
    XH))))))))))))))))))))))))))))))))))))))))))))))))))))))))))))))) :: ((Npos
    (XI (XI (XO (XI (XO (XI (XO (XO (XI (XO (XI (XI (XO (XI (XO (XO (XI (XI
    (XI (XO (XI (XO (XO (XI (XO (XI (XO (XO (XI (XO (XI (XO (XI (XO (XO (XI
    (XI (XO (XO (XI (XO (XI (XI (XI (XI (XI (XO (XI (XO (XO (XI (XO (XI (XI
    (XI (XO (XO (XO (XO (XO (XO (XO (XO
    XH)))))))))))))))))))))))))))))))))))))))))))))))))))))))))))))))) :: ((Npos
    (XO (XO (XI (XI (XI (XI (XO (XO (XI (XO (XI (XO (XI (XO (XI (XO (XO (XO
    (XI (XO (XO (XI (XO (XI (XO (XI (XO (XO (XO (XO (XO (XI (XI (XI (XI (XI
    (XI (XO (XI (XI (XI (XO (XI (XI (XO (XI (XO (XO (XI (XO (XI (XO (XO (XO
    (XO (XO (XI (XI (XO (XI (XI (XO (XI
    XH)))))))))))))))))))))))))))))))))))))))))))))))))))))))))))))))) :: ((Npos
    (XI (XO (XO (XO (XI (XI (XO (XI (XO (XI (XI (XI (XI (XO (XO (XI (XI (XI
    (XO (XI (XI (XI (XI (XO (XI (XO (XI (XO (XO (XI (XO (XO (XO (XO (XO (XI
    (XO (XO (XI (XO (XO (XI (XO (XO (XO (XI (XI (XI (XO (XI (XO (XI (XI (XO
    (XO (XO (XO (XO (XI (XO (XO (XO
    XH))))))))))))))))))))))))))))))))))))))))))))))))))))))))))))))) :: ((Npos
    (XI (XI (XI (XI (XO (XO (XO (XI (XO (XI (XI (XI (XI (XO (XI (XO (XO (XI
    (XI (XI (XO (XO (XI (XI (XI (XI (XO (XO (XO (XO (XI (XI (XO (XO (XO (XO
    (XI (XO (XO (XI (XO (XO (XO (XO (XO (XI (XI (XO (XI (XO (XO (XO (XO (XO
    (XO (XO (XO (XO (XI (XO (XI (XI (XI
    XH)))))))))))))))))))))))))))))))))))))))))))))))))))))))))))))))) :: ((Npos
    (XI (XI (XO (XO (XI (XO (XO (XI (XO (XO (XI (XI (XI (XO (XO (XO (XI (XO
    (XI (XO (XI (XO (XI (XI (XI (XO (XO (XI (XO (XO (XI (XO (XI (XO (XI (XO
    (XO (XI (XO (XO (XI (XI (XO (XI (XO (XI (XO (XO (XO (XO (XO (XO (XI (XI
    (XO (XO (XO (XI (XO (XO
    XH))))))))))))))))))))))))))))))))))))))))))))))))))))))))))))) :: ((Npos
    (XO (XO (XO (XI (XI (XO (XO (XO (XO (XO (XO (XI (XO (XI (XO (XO (XO (XO
    (XO (XO (XO (XO (XI (XI (XI (XO (XI (XO (XI (XO (XI (XI (XO (XI (XI (XI
    (XO (XO (XO (XO (XO (XI (XO (XO (XO (XI (XI (XI (XO (XO (XI (XI (XO (XI
    (XI (XI (XI (XI (XI (XI (XO (XI (XO
    XH)))))))))))))))))))))))))))))))))))))))))))))))))))))))))))))))) :: ((Npos
    (XI (XI (XI (XO (XO (XO (XO (XI (XI (XO (XO (XI (XI (XO (XI (XI (XI (XI
    (XI (XI (XI (XI (XO (XO (XO (XI (XO (XI (XI (XI (XI (XO (XI (XI (XO (XI
    (XI (XI (XO (XI (XI (XO (XI (XI (XO (XI (XI (XI (XI (XO (XI (XO (XO (XO
    (XI (XO (XO (XI
    XH))))))))))))))))))))))))))))))))))))))))))))))))))))))))))) :: ((Npos
    (XO (XI (XO (XO (XI (XO (XI (XO (XO (XO (XO (XI (XO (XI (XI (XO (XI (XI
    (XI (XI (XO (XO (XI (XO (XI (XI (XI (XO (XI (XO (XI (XO (XI (XO (XI (XI
    (XO (XI (XO (XI (XI (XI (XI (XO (XI (XI (XI (XI (XO (XI (XO (XI (XI (XI
    (XI (XI (XI (XI (XI (XO (XI (XO
    XH))))))))))))))))))))))))))))))))))))))))))))))))))))))))))))))) :: ((Npos
    (XO (XO (XO (XI (XI (XO (XO (XO (XI (XO (XO (XI (XI (XO (XO (XO (XO (XI
    (XI (XO (XO (XO (XI (XO (XO (XO (XO (XI (XO (XI (XO (XI (XO (XO (XO (XI
    (XO (XI (XI (XI (XO (XO (XO (XI (XI (XI (XO (XI (XI (XO (XI (XO (XO (XO
    (XO (XO (XI (XO
    XH))))))))))))))))))))))))))))))))))))))))))))))))))))))))))) :: ((Npos
    (XI (XO (XI (XO (XI (XO (XO (XI (XI (XI (XI (XO (XO (XI (XI (XO (XI (XI
    (XI (XI (XI (XO (XO (XO (XO (XO (XI (XI (XO (XO (XO (XO (XO (XO (XO (XO
    (XI (XI (XI (XO (XI (XI (XI (XI (XO (XO (XO (XI (XI (XO (XO (XI (XO (XO
    (XO (XO (XI
    XH)))))))))))))))))))))))))))))))))))))))))))))))))))))))))) :: ((Npos
    (XI (XO (XO (XO (XI (XI (XO (XI (XO (XI (XI (XO (XI (XO (XI (XI (XO (XI
    (XI (XO (XO (XI (XI (XO (XI (XI (XI (XI (XO (XO (XI (XI (XI (XO (XI (XO
    (XI (XI (XO (XI (XI (XO (XI (XI (XO (XO (XI (XO (XI (XI (XO (XI (XO (XO
    (XI (XO (XO (XO (XO (XO (XI (XO (XO
    XH)))))))))))))))))))))))))))))))))))))))))))))))))))))))))))))))) :: ((Npos
    (XI (XO (XI (XI (XI (XO (XI (XI (XI (XI (XI (XI (XO (XO (XO (XI (XI (XO
    (XO (XO (XO (XO (XI (XO (XO (XI (XO (XI (XO (XO (XO (XO (XO (XI (XI (XI
    (XI (XO (XI (XI (XI (XI (XO (XI (XI (XI (XO (XI (XI (XI (XO (XO (XO (XI
    (XO (XO (XO (XO (XO (XI (XO (XI
    XH))))))))))))))))))))))))))))))))))))))))))))))))))))))))))))))) :: ((Npos
    (XI (XI (XI (XO (XO (XO (XI (XO (XO (XI (XI (XI (XO (XI (XO (XO (XI (XI
    (XI (XO (XI (XO (XI (XO (XI (XI (XI (XI (XI (XI (XO (XO (XO (XO (XO (XI
    (XI (XI (XO (XO (XI (XO (XO (XO (XI (XI (XI (XO (XO (XO (XO (XO (XO (XO
    (XI (XI (XO (XO (XO (XI (XO (XO (XI
    XH)))))))))))))))))))))))))))))))))))))))))))))))))))))))))))))))) :: ((Npos
    (XI (XO (XI (XI (XO (XO (XI (XO (XO (XI (XO (XO (XI (XO (XO (XI (XI (XI
    (XI (XI (XO (XI (XI (XI (XI (XO (XO (XI (XI (XO (XI (XI (XI (XI (XI (XO
    (XO (XI (XO (XI (XI (XO (XI (XO (XI (XI (XI (XI (XI (XO (XI (XO (XO (XO
    (XI (XO (XO (XI (XO (XI (XI
    XH)))))))))))))))))))))))))))))))))))))))))))))))))))))))))))))) :: ((Npos
    (XO (XI (XI (XI (XI (XI (XI (XI (XO (XI (XI (XO (XO (XI (XO (XO (XO (XO
    (XO (XO (XI (XO (XI (XI (XO (XO (XO (XI (XI (XI (XO (XI (XO (XI (XI (XO
    (XO (XO (XI (XI (XI (XI (XO (XI (XI (XO (XI (XI (XO (XO (XO (XO (XO (XO
    (XI (XI (XI (XO (XO (XI (XO (XO (XO
    XH)))))))))))))))))))))))))))))))))))))))))))))))))))))))))))))))) :: ((Npos
    (XO (XI (XI (XI (XI (XI (XO (XO (XI (XI (XO (XI (XI (XI (XI (XI (XO (XO
    (XO (XO (XI (XI (XO (XI (XI (XO (XI (XO (XO (XO (XI (XO (XO (XI (XO (XI
    (XI (XO (XI (XI (XI (XO (XI (XI (XI (XO (XO (XI (XI (XO (XO (XI (XI (XO
    (XO (XO (XI (XI (XI (XO (XI (XO (XO
    XH)))))))))))))))))))))))))))))))))))))))))))))))))))))))))))))))) :: ((Npos
    (XI (XI (XI (XO (XI (XI (XO (XO (XI (XI (XI (XI (XO (XO (XI (XO (XO (XI
    (XI (XI (XO (XO (XI (XO (XI (XO (XI (XI (XI (XI (XI (XO (XI (XI (XO (XO
    (XO (XI (XI (XO (XO (XI (XO (XO (XO (XO (XI (XO (XO (XO (XI (XO (XI (XI
    (XI (XI (XI (XI (XO (XO (XO (XO
    XH))))))))))))))))))))))))))))))))))))))))))))))))))))))))))))))) :: ((Npos
    (XO (XO (XO (XI (XI (XO (XI (XI (XO (XI (XO (XI (XO (XO (XO (XO (XO (XI
    (XI (XI (XI (XI (XI (XI (XI (XI (XI (XI (XO (XI (XO (XO (XO (XI (XO (XO
    (XO (XI (XI (XO (XO (XI (XO (XO (XI (XO (XI (XI (XO (XO (XO (XI (XO (XO
    (XI (XI (XO
    XH)))))))))))))))))))))))))))))))))))))))))))))))))))))))))) :: ((Npos
    (XI (XO (XI (XI (XI (XO (XI (XO (XI (XI (XI (XI (XI (XO (XI (XI (XI (XO
    (XI (XO (XO (XO (XI (XI (XI (XI (XI (XO (XO (XO (XI (XO (XI (XO (XO (XI
    (XO (XI (XO (XI (XO (XI (XI (XI (XO (XI (XI (XI (XO (XI (XI (XI (XO (XO
    (XI (XI (XO (XI (XO (XO (XI (XI (XO
    XH)))))))))))))))))))))))))))))))))))))))))))))))))))))))))))))))) :: ((Npos
    (XI (XI (XO (XO (XO (XO (XI (XI (XO (XI (XI (XI (XO (XO (XO (XI (XO (XI
    (XO (XO (XI (XO (XI (XO (XI (XI (XO (XO (XI (XO (XI (XO (XO (XI (XI (XI
    (XO (XI (XI (XO (XI (XI (XO (XI (XI (XI (XO (XO (XO (XI (XO (XI (XO (XI
    (XI (XO (XI (XI
    XH))))))))))))))))))))))))))))))))))))))))))))))))))))))))))) :: ((Npos
    (XI (XO (XI (XI (XO (XI (XI (XI (XO (XI (XO (XI (XI (XI (XO (XO (XI (XI
    (XO (XO (XI (XI (XO (XI (XO (XI (XO (XI (XO (XI (XO (XO (XI (XI (XO (XI
    (XO (XI (XI (XI (XI (XO (XO (XI (XO (XO (XO (XO (XO (XO (XI (XO (XO (XO
    (XO (XI (XO (XO (XO (XI (XI (XI (XI
    XH)))))))))))))))))))))))))))))))))))))))))))))))))))))))))))))))) :: ((Npos
    (XI (XO (XO (XI (XO (XO (XI (XO (XI (XI (XO (XO (XI (XI (XI (XO (XI (XO
    (XI (XI (XO (XO (XO (XO (XI (XI (XI (XO (XO (XI (XO (XI (XO (XO (XO (XI
    (XI (XI (XO (XO (XI (XO (XO (XO (XO (XO (XO (XO (XO (XI (XO (XO (XI (XO
    (XI (XO (XI (XO (XO (XI (XI (XO (XI
    XH)))))))))))))))))))))))))))))))))))))))))))))))))))))))))))))))) :: ((Npos
    (XO (XI (XO (XO (XO (XO (XI (XO (XI (XO (XO (XO (XI (XO (XI (XI (XI (XO
    (XO (XI (XI (XI (XO (XI (XI (XI (XI (XI (XO (XO (XO (XI (XO (XO (XO (XI
    (XI (XI (XI (XO (XI (XI (XI (XO (XO (XO (XO (XI (XI (XO (XO (XO (XI (XO
    (XI (XO (XI (XI (XI (XO (XI (XO
    XH))))))))))))))))))))))))))))))))))))))))))))))))))))))))))))))) :: ((Npos
    (XI (XO (XO (XI (XI (XO (XI (XO (XO (XO (XO (XO (XO (XI (XI (XI (XI (XI
    (XI (XI (XI (XO (XO (XI (XI (XO (XO (XI (XO (XI (XO (XO (XO (XO (XI (XI
    (XO (XO (XI (XI (XI (XI (XI (XO (XO (XI (XI (XI (XO (XO (XO (XI (XO (XO
    (XO (XO (XO (XO (XO (XO (XI (XI
    XH))))))))))))))))))))))))))))))))))))))))))))))))))))))))))))))) :: ((Npos
    (XI (XI (XO (XI (XO (XI (XO (XI (XI (XI (XI (XI (XO (XO (XO (XO (XO (XO
    (XO (XI (XI (XO (XI (XI (XO (XO (XO (XI (XO (XI (XO (XI (XI (XO (XO (XI
    (XI (XI (XO (XI (XI (XO (XI (XO (XI (XI (XO (XO (XI (XI (XI (XO (XI (XI
    (XO (XI (XO (XO (XI (XI (XI (XO (XO
    XH)))))))))))))))))))))))))))))))))))))))))))))))))))))))))))))))) :: ((Npos
    (XO (XO (XI (XI (XO (XI (XI (XI (XI (XO (XO (XO (XI (XO (XI (XI (XI (XI
    (XO (XO (XO (XI (XO (XO (XO (XO (XO (XO (XI (XI (XI (XI (XO (XI (XI (XO
    (XO (XI (XO (XI (XI (XO (XI (XI (XO (XO (XI (XO (XO (XO (XI (XI (XI (XI
    (XO (XO (XI (XO (XI (XI (XI (XO
    XH))))))))))))))))))))))))))))))))))))))))))))))))))))))))))))))) :: ((Npos
    (XO (XI (XO (XO (XI (XO (XI (XI (XO (XO (XI (XI (XO (XO (XI (XO (XO (XI
    (XO (XO (XO (XI (XO (XI (XO (XO (XI (XI (XO (XO (XO (XI (XO (XO (XO (XO
    (XI (XI (XI (XI (XI (XO (XO (XI (XI (XO (XO (XI (XO (XI (XO (XO (XO (XO
    (XI (XO (XO (XO (XI (XO (XO (XI (XO
    XH)))))))))))))))))))))))))))))))))))))))))))))))))))))))))))))))) :: ((Npos
    (XO (XO (XI (XO (XO (XI (XO (XI (XO (XI (XO (XO (XO (XO (XI (XO (XI (XO
    (XI (XO (XI (XO (XI (XI (XO (XI (XI (XI (XI (XI (XO (XI (XI (XO (XO (XI
    (XI (XI (XO (XI (XO (XO (XO (XI (XO (XI (XO (XI (XI (XI (XI (XI (XO (XI
    (XO (XI (XI (XO (XI (XO (XI (XI (XO
    XH)))))))))))))))))))))))))))))))))))))))))))))))))))))))))))))))) :: ((Npos
    (XO (XO (XO (XI (XO (XO (XO (XO (XI (XO (XI (XO (XO (XI (XI (XI (XI (XI
    (XI (XO (XO (XO (XO (XO (XI (XO (XI (XO (XI (XI (XO (XI (XI (XI (XO (XI
    (XI (XO (XI (XO (XI (XO (XO (XO (XI (XO (XI (XO (XO (XI (XI (XI (XI (XI
    (XI (XO (XO (XI (XO (XI (XO (XO (XI
    XH)))))))))))))))))))))))))))))))))))))))))))))))))))))))))))))))) :: ((Npos
    (XI (XI (XI (XI (XO (XO (XO (XI (XI (XI (XO (XO (XI (XI (XI (XO (XI (XO
    (XO (XO (XI (XI (XO (XO (XI (XI (XO (XO (XO (XI (XO (XI (XI (XI (XI (XO
    (XO (XI (XI (XI (XO (XI (XO (XO (XI (XI (XI (XO (XO (XO (XO (XI (XI (XI
    (XO (XO (XI (XI (XO (XO (XO (XO (XO
    XH)))))))))))))))))))))))))))))))))))))))))))))))))))))))))))))))) :: ((Npos
    (XO (XO (XO (XI (XO (XO (XO (XO (XO (XI (XI (XO (XI (XI (XI (XO (XO (XI
    (XO (XI (XO (XO (XI (XI (XO (XO (XO (XO (XO (XI (XO (XI (XO (XI (XI (XO
    (XO (XI (XO (XI (XI (XI (XI (XI (XO (XO (XO (XI (XI (XO (XO (XO (XO (XO
    (XO (XI (XI (XO (XI (XO (XO (XI (XI
    XH)))))))))))))))))))))))))))))))))))))))))))))))))))))))))))))))) :: ((Npos
    (XI (XI (XO (XI (XO (XI (XO (XI (XO (XO (XO (XI (XO (XO (XO (XI (XI (XO
    (XO (XO (XI (XI (XI (XI (XI (XO (XI (XO (XI (XI (XI (XI (XO (XI (XI (XO
    (XI (XO (XI (XO (XI (XO (XO (XI (XI (XI (XO (XO (XO (XI (XI (XI (XI (XO
    (XI (XO (XI (XI (XO (XI (XO
    XH)))))))))))))))))))))))))))))))))))))))))))))))))))))))))))))) :: ((Npos
    (XI (XI (XO (XI (XI (XO (XI (XI (XI (XI (XI (XO (XI (XI (XI (XO (XO (XO
    (XO (XO (XI (XI (XI (XI (XI (XI (XO (XO (XI (XI (XO (XI (XO (XI (XO (XI
    (XI (XI (XI (XO (XI (XI (XI (XO (XI (XO (XI (XI (XI (XO (XI (XI (XO (XO
    (XO (XI (XO (XO (XI (XI (XI (XI (XI
    XH)))))))))))))))))))))))))))))))))))))))))))))))))))))))))))))))) :: ((Npos
    (XO (XO (XI (XI (XO (XI (XI (XO (XO (XI (XI (XI (XI (XO (XO (XO (XO (XO
    (XI (XI (XI (XO (XO (XI (XI (XI (XI (XI (XI (XO (XO (XO (XO (XO (XO (XO
    (XI (XO (XO (XO (XI (XI (XO (XO (XI (XO (XO (XO (XO (XI (XI (XO (XO (XI
    (XI (XO (XO (XO (XO (XO (XO (XI (XO
    XH)))))))))))))))))))))))))))))))))))))))))))))))))))))))))))))))) :: ((Npos
    (XO (XO (XO (XI (XI (XO (XO (XO (XO (XI (XI (XO (XO (XO (XI (XO (XI (XI
    (XO (XI (XO (XI (XO (XI (XI (XO (XO (XI (XO (XI (XO (XO (XI (XO (XI (XI
    (XO (XO (XO (XI (XI (XI (XO (XI (XI (XO (XI (XO (XI (XO (XI (XO (XI (XI
    (XO (XI (XO (XI (XO (XI (XI (XO (XO
    XH)))))))))))))))))))))))))))))))))))))))))))))))))))))))))))))))) :: ((Npos
    (XO (XO (XO (XI (XO (XI (XI (XI (XI (XO (XO (XI (XO (XI (XO (XO (XO (XI
    (XI (XI (XO (XI (XI (XO (XO (XI (XI (XI (XI (XO (XO (XO (XO (XI (XO (XO
    (XI (XI (XI (XI (XI (XI (XI (XI (XO (XO (XO (XO (XI (XO (XI (XO (XO (XI
    (XI (XO (XI (XO (XO (XI (XO
    XH)))))))))))))))))))))))))))))))))))))))))))))))))))))))))))))) :: ((Npos
    (XO (XI (XI (XO (XO (XI (XO (XI (XI (XO (XI (XI (XO (XI (XO (XO (XO (XI
    (XI (XI (XI (XI (XO (XO (XI (XI (XI (XI (XI (XO (XI (XI (XI (XI (XO (XO
    (XI (XI (XO (XO (XI (XO (XO (XI (XI (XI (XI (XO (XO (XO (XO (XO (XI (XI
    (XI (XO (XI (XI (XO (XO (XO (XO
    XH))))))))))))))))))))))))))))))))))))))))))))))))))))))))))))))) :: ((Npos
    (XI (XI (XO (XO (XI (XO (XO (XI (XI (XO (XO (XI (XI (XI (XO (XO (XI (XI
    (XI (XO (XI (XO (XI (XO (XI (XI (XO (XO (XO (XI (XO (XI (XI (XI (XI (XO
    (XI (XI (XO (XO (XO (XI (XI (XI (XI (XI (XO (XI (XO (XO (XI (XI (XO (XO
    (XO (XI (XI (XO (XI (XO (XI (XO (XO
    XH)))))))))))))))))))))))))))))))))))))))))))))))))))))))))))))))) :: ((Npos
    (XO (XO (XI (XO (XO (XI (XI (XI (XO (XI (XI (XO (XO (XO (XI (XO (XI (XO
    (XI (XI (XO (XO (XO (XO (XO (XI (XI (XI (XI (XI (XI (XI (XO (XO (XO (XI
    (XI (XI (XI (XI (XI (XI (XO (XI (XO (XI (XI (XO (XO (XO (XI (XI (XI (XO
    (XO (XI (XO (XI (XO (XO (XO
    XH)))))))))))))))))))))))))))))))))))))))))))))))))))))))))))))) :: ((Npos
    (XI (XI (XI (XI (XI (XI (XO (XI (XI (XI (XI (XI (XI (XI (XO (XO (XO (XO
    (XI (XO (XI (XI (XI (XI (XO (XI (XI (XO (XI (XI (XO (XI (XO (XI (XO (XO
    (XO (XI (XI (XO (XI (XO (XO (XO (XO (XO (XO (XI (XO (XO (XO (XI (XI (XI
    (XO (XI (XI (XI (XI (XI
    XH))))))))))))))))))))))))))))))))))))))))))))))))))))))))))))) :: ((Npos
    (XI (XO (XI (XO (XO (XI (XO (XI (XI (XO (XO (XO (XI (XO (XO (XO (XI (XI
    (XO (XO (XO (XI (XO (XI (XO (XI (XI (XI (XI (XI (XO (XI (XI (XO (XI (XO
    (XO (XI (XO (XO (XI (XO (XO (XO (XI (XO (XI (XI (XO (XI (XI (XI (XI (XO
    (XO (XO (XO (XI (XI (XO (XI (XO
    XH))))))))))))))))))))))))))))))))))))))))))))))))))))))))))))))) :: ((Npos
    (XO (XI (XI (XO (XI (XO (XO (XO (XO (XO (XO (XI (XI (XI (XI (XI (XO (XI
    (XI (XI (XO (XO (XI (XO (XO (XI (XI (XI (XO (XO (XO (XO (XI (XO (XI (XI
    (XI (XO (XO (XO (XO (XO (XO (XI (XO (XO (XO (XO (XO (XO (XO (XO (XO (XI
    (XO (XO (XO (XI (XO (XI (XO (XI
    XH))))))))))))))))))))))))))))))))))))))))))))))))))))))))))))))) :: ((Npos
    (XI (XI (XI (XO (XO (XI (XI (XO (XO (XO (XO (XO (XO (XI (XO (XI (XI (XO
    (XI (XO (XO (XO (XI (XO (XI (XI (XO (XI (XO (XO (XO (XI (XI (XI (XO (XO
    (XI (XI (XO (XI (XI (XI (XI (XO (XI (XO (XO (XI (XI (XO (XI (XO (XO (XO
    (XO (XI (XI (XO (XI (XO
    XH))))))))))))))))))))))))))))))))))))))))))))))))))))))))))))) :: ((Npos
    (XI (XO (XO (XO (XO (XO (XO (XO (XI (XO (XI (XO (XO (XI (XI (XO (XI (XI
    (XI (XO (XI (XO (XI (XI (XO (XI (XI (XO (XI (XI (XI (XO (XI (XI (XI (XO
    (XI (XO (XO (XO (XO (XO (XI (XO (XO (XO (XO (XO (XO (XI (XI (XO (XI (XI
    (XO (XI (XI (XO (XO (XI (XO (XI (XI
    XH)))))))))))))))))))))))))))))))))))))))))))))))))))))))))))))))) :: ((Npos
    (XO (XI (XO (XO (XO (XI (XO (XI (XO (XO (XI (XO (XI (XO (XO (XI (XO (XO
    (XI (XO (XI (XO (XO (XO (XI (XI (XI (XO (XO (XI (XI (XO (XI (XO (XO (XI
    (XO (XO (XI (XO (XO (XI (XO (XO (XO (XO (XO (XO (XO (XO (XO (XI (XO (XO
    (XI (XO (XI (XO (XI (XO (XO (XI (XO
    XH)))))))))))))))))))))))))))))))))))))))))))))))))))))))))))))))) :: ((Npos
    (XI (XI (XO (XO (XO (XO (XO (XI (XO (XO (XO (XI (XI (XI (XI (XI (XO (XI
    (XI (XI (XO (XI (XI (XO (XO (XI (XI (XI (XO (XO (XO (XO (XO (XO (XO (XO
    (XO (XO (XO (XI (XI (XI (XO (XO (XI (XI (XO (XO (XI (XO (XO (XO (XO (XI
    (XI (XO (XO (XO (XO (XI (XO (XI
    XH))))))))))))))))))))))))))))))))))))))))))))))))))))))))))))))) :: ((Npos
    (XI (XI (XO (XO (XO (XI (XI (XI (XO (XO (XI (XO (XO (XO (XO (XI (XI (XI
    (XI (XI (XI (XO (XI (XO (XO (XO (XI (XI (XO (XI (XO (XI (XI (XO (XI (XI
    (XI (XI (XO (XI (XI (XI (XO (XO (XI (XO (XO (XO (XI (XI (XO (XO (XO (XI
    (XO (XI (XI (XO (XI (XI (XI
    XH)))))))))))))))))))))))))))))))))))))))))))))))))))))))))))))) :: ((Npos
    (XI (XI (XI (XO (XO (XO (XO (XO (XO (XI (XI (XI (XI (XI (XI (XO (XI (XI
    (XI (XO (XO (XO (XO (XO (XI (XI (XI (XI (XO (XI (XO (XO (XI (XO (XO (XO
    (XI (XI (XO (XO (XO (XO (XI (XO (XI (XI (XI (XO (XO (XO (XI (XO (XI (XI
    (XI (XO (XI (XO (XO (XI (XI (XO (XO
    XH)))))))))))))))))))))))))))))))))))))))))))))))))))))))))))))))) :: ((Npos
    (XO (XO (XI (XI (XI (XO (XI (XO (XO (XO (XI (XO (XO (XI (XO (XO (XI (XI
    (XO (XI (XO (XO (XO (XI (XO (XO (XO (XO (XO (XO (XO (XO (XO (XI (XO (XO
    (XI (XO (XO (XO (XO (XI (XI (XO (XO (XI (XI (XI (XO (XI (XI (XI (XO (XO
    (XO (XI (XO (XO (XI (XO (XI
    XH)))))))))))))))))))))))))))))))))))))))))))))))))))))))))))))) :: ((Npos
    (XI (XI (XO (XI (XO (XI (XI (XO (XO (XI (XI (XI (XO (XI (XO (XI (XO (XO
    (XI (XI (XI (XI (XO (XI (XI (XI (XO (XO (XI (XI (XI (XO (XI (XO (XO (XO
    (XO (XO (XI (XO (XO (XO (XI (XI (XO (XI (XI (XI (XO (XI (XI (XI (XI (XI
    (XI (XI (XI (XO (XI (XO (XI (XI
    XH))))))))))))))))))))))))))))))))))))))))))))))))))))))))))))))) :: ((Npos
    (XI (XO (XO (XO (XI (XO (XO (XI (XI (XI (XI (XO (XI (XI (XI (XI (XI (XO
    (XO (XI (XO (XI (XI (XI (XO (XO (XO (XI (XI (XI (XI (XI (XI (XI (XI (XI
    (XO (XI (XO (XI (XI (XI (XO (XO (XI (XO (XI (XO (XO (XI (XO (XO (XO (XI
    (XO (XI (XO (XI (XI (XI (XO (XI (XO
    XH)))))))))))))))))))))))))))))))))))))))))))))))))))))))))))))))) :: ((Npos
    (XI (XI (XO (XO (XO (XI (XI (XO (XI (XI (XO (XO (XO (XI (XI (XO (XO (XI
    (XO (XO (XO (XI (XO (XI (XO (XI (XI (XI (XO (XO (XO (XI (XI (XO (XI (XI
    (XO (XI (XI (XO (XI (XI (XI (XO (XI (XI (XO (XI (XI (XO (XO (XO (XO (XO
    (XO (XI (XO (XO (XO (XI (XI
    XH)))))))))))))))))))))))))))))))))))))))))))))))))))))))))))))) :: ((Npos
    (XO (XI (XI (XI (XO (XI (XI (XI (XO (XI (XO (XI (XI (XO (XO (XI (XO (XI
    (XI (XO (XI (XI (XI (XI (XO (XI (XI (XI (XO (XI (XI (XO (XO (XI (XO (XI
    (XO (XO (XO (XO (XI (XO (XI (XO (XI (XI (XI (XO (XI (XI (XO (XI (XO (XI
    (XI (XI (XI (XO (XO (XI (XI (XI (XI
    XH)))))))))))))))))))))))))))))))))))))))))))))))))))))))))))))))) :: ((Npos
    (XI (XI (XI (XI (XO (XI (XO (XO (XO (XI (XO (XI (XO (XI (XO (XI (XO (XI
    (XO (XO (XO (XI (XI (XI (XO (XI (XO (XI (XO (XI (XO (XO (XI (XO (XI (XO
    (XI (XI (XI (XI (XO (XO (XO (XI (XO (XI (XO (XO (XO (XO (XO (XO (XI (XI
    (XO (XO (XI (XO (XO (XO (XO (XO (XO
    XH)))))))))))))))))))))))))))))))))))))))))))))))))))))))))))))))) :: ((Npos
    (XO (XI (XO (XI (XO (XO (XO (XO (XI (XI (XI (XO (XO (XO (XO (XO (XO (XO
    (XO (XI (XI (XI (XO (XO (XO (XI (XO (XO (XI (XI (XI (XI (XO (XO (XI (XO
    (XI (XO (XI (XO (XI (XO (XI (XI (XO (XI (XI (XI (XI (XI (XO (XO (XI (XI
    (XO (XO (XO (XI (XO (XI (XI (XI (XO
    XH)))))))))))))))))))))))))))))))))))))))))))))))))))))))))))))))) :: ((Npos
    (XI (XO (XI (XI (XO (XO (XI (XI (XO (XI (XO (XI (XI (XI (XI (XI (XO (XI
    (XO (XO (XO (XI (XI (XI (XO (XO (XI (XO (XO (XO (XI (XO (XI (XO (XI (XO
    (XO (XI (XO (XI (XI (XI (XI (XI (XI (XI (XI (XO (XI (XI (XO (XI (XI (XO
    (XI (XO (XO (XI (XI (XI (XO (XI
    XH))))))))))))))))))))))))))))))))))))))))))))))))))))))))))))))) :: ((Npos
    (XO (XI (XO (XO (XO (XI (XO (XO (XI (XI (XO (XI (XI (XI (XO (XI (XO (XO
    (XI (XO (XO (XO (XI (XI (XI (XI (XO (XI (XO (XI (XO (XO (XO (XI (XI (XI
    (XI (XI (XO (XI (XO (XI (XO (XO (XI (XI (XO (XI (XI (XI (XO (XI (XI (XI
    (XO (XI (XO (XI (XI (XI (XI (XO (XI
    XH)))))))))))))))))))))))))))))))))))))))))))))))))))))))))))))))) :: ((Npos
    (XO (XO (XI (XI (XO (XI (XO (XI (XO (XO (XO (XI (XO (XI (XO (XI (XO (XI
    (XI (XO (XO (XO (XO (XO (XI (XI (XO (XO (XO (XI (XI (XO (XO (XO (XO (XI
    (XO (XI (XO (XI (XI (XI (XI (XI (XI (XI (XO (XI (XO (XI (XI (XO (XI (XO
    (XO (XO (XO (XO (XI (XO (XI (XI (XI
    XH)))))))))))))))))))))))))))))))))))))))))))))))))))))))))))))))) :: ((Npos
    (XO (XO (XI (XI (XI (XI (XI (XI (XI (XI (XI (XI (XO (XO (XI (XO (XI (XO
    (XO (XO (XI (XI (XO (XO (XO (XI (XI (XI (XI (XI (XI (XO (XO (XO (XI (XI
    (XI (XI (XI (XO (XI (XI (XI (XI (XI (XO (XI (XI (XO (XO (XO (XI (XI (XI
    (XI (XO (XO (XI (XI (XO (XI (XI
    XH))))))))))))))))))))))))))))))))))))))))))))))))))))))))))))))) :: ((Npos
    (XI (XO (XO (XI (XO (XI (XO (XO (XO (XO (XO (XI (XI (XI (XO (XO (XI (XI
    (XI (XO (XO (XO (XI (XO (XI (XI (XI (XO (XI (XO (XO (XO (XI (XO (XI (XI
    (XI (XO (XI (XO (XI (XI (XO (XI (XI (XI (XO (XI (XO (XI (XI (XI (XO (XO
    (XI (XO (XO (XO (XO (XO (XI (XI
    XH))))))))))))))))))))))))))))))))))))))))))))))))))))))))))))))) :: ((Npos
    (XI (XO (XI (XI (XI (XI (XI (XI (XO (XO (XO (XI (XI (XI (XI (XO (XO (XI
    (XO (XI (XI (XO (XO (XI (XO (XI (XI (XO (XO (XO (XO (XO (XI (XI (XI (XI
    (XO (XI (XO (XI (XO (XI (XI (XO (XI (XO (XO (XI (XI (XO (XI (XI (XI (XO
    (XI (XI (XI (XI (XI (XO (XO (XO (XO
    XH)))))))))))))))))))))))))))))))))))))))))))))))))))))))))))))))) :: ((Npos
    (XI (XI (XI (XI (XI (XO (XO (XI (XO (XI (XI (XO (XI (XI (XO (XO (XI (XO
    (XO (XO (XI (XO (XI (XO (XO (XI (XI (XI (XO (XI (XI (XO (XI (XO (XI (XO
    (XI (XI (XI (XO (XI (XO (XI (XI (XI (XI (XI (XI (XO (XO (XI (XO (XI (XO
    (XO (XO (XI (XI (XI (XI (XO (XO
    XH))))))))))))))))))))))))))))))))))))))))))))))))))))))))))))))) :: ((Npos
    (XO (XO (XO (XO (XI (XI (XI (XO (XO (XI (XI (XI (XI (XI (XO (XO (XI (XI
    (XO (XO (XI (XI (XO (XI (XO (XO (XO (XI (XI (XO (XI (XI (XI (XO (XO (XO
    (XI (XI (XO (XO (XI (XI (XI (XO (XO (XO (XI (XO (XO (XO (XI (XI (XO (XO
    (XI (XI (XO (XI (XI (XI (XO (XO (XI
    XH)))))))))))))))))))))))))))))))))))))))))))))))))))))))))))))))) :: ((Npos
    (XI (XO (XO (XI (XI (XI (XO (XO (XO (XI (XO (XI (XI (XO (XO (XO (XO (XO
    (XO (XO (XO (XO (XO (XI (XI (XI (XI (XO (XI (XO (XO (XO (XI (XO (XI (XI
    (XO (XO (XO (XI (XI (XO (XI (XI (XO (XO (XO (XI (XI (XO (XO (XO (XO (XO
    (XI (XI (XI (XI (XI (XO (XI
    XH)))))))))))))))))))))))))))))))))))))))))))))))))))))))))))))) :: ((Npos
    (XI (XO (XO (XI (XO (XI (XO (XO (XO (XO (XO (XO (XO (XI (XI (XO (XO (XO
    (XI (XI (XI (XO (XO (XI (XI (XO (XI (XO (XO (XI (XO (XI (XI (XI (XO (XI
    (XI (XO (XI (XI (XO (XO (XI (XI (XO (XO (XO (XO (XO (XO (XO (XO (XI (XI
    (XO (XO (XO (XO (XO (XI (XO (XI (XI
    XH)))))))))))))))))))))))))))))))))))))))))))))))))))))))))))))))) :: ((Npos
    (XO (XO (XI (XI (XO (XO (XO (XI (XI (XI (XO (XO (XI (XI (XI (XO (XO (XI
    (XO (XI (XO (XO (XO (XI (XI (XO (XO (XO (XI (XO (XI (XI (XO (XO (XI (XO
    (XO (XO (XO (XO (XO (XO (XI (XI (XI (XI (XI (XI (XO (XO (XO (XI (XO (XI
    (XO (XI (XO (XI (XO (XI (XO (XO (XI
    XH)))))))))))))))))))))))))))))))))))))))))))))))))))))))))))))))) :: ((Npos
    (XO (XO (XO (XI (XO (XO (XI (XI (XI (XI (XI (XI (XI (XI (XI (XO (XI (XI
    (XO (XI (XI (XO (XO (XO (XI (XI (XO (XO (XI (XI (XO (XO (XO (XI (XI (XO
    (XO (XI (XI (XO (XI (XO (XI (XI (XI (XO (XO (XI (XI (XI (XI (XO (XI (XI
    (XO (XO (XI (XI (XI (XO (XI (XO
    XH))))))))))))))))))))))))))))))))))))))))))))))))))))))))))))))) :: ((Npos
    (XI (XI (XI (XI (XI (XO (XI (XO (XO (XI (XI (XO (XO (XO (XI (XI (XI (XI
    (XO (XI (XO (XO (XO (XI (XI (XO (XO (XO (XI (XO (XI (XO (XI (XO (XI (XO
    (XO (XO (XI (XO (XO (XO (XO (XI (XI (XI (XI (XO (XI (XI (XI (XO (XI (XI
    (XO (XI (XO (XO (XI (XI (XI (XI (XO
    XH)))))))))))))))))))))))))))))))))))))))))))))))))))))))))))))))) :: ((Npos
    (XI (XI (XO (XO (XO (XI (XO (XI (XI (XI (XO (XI (XO (XO (XI (XO (XO (XO
    (XO (XO (XI (XO (XI (XI (XI (XO (XI (XI (XO (XO (XI (XO (XI (XI (XI (XI
    (XO (XO (XI (XO (XI (XO (XO (XI (XI (XO (XI (XI (XO (XI (XO (XO (XO (XI
    (XO (XO (XO (XO (XO (XO (XI (XO
    XH))))))))))))))))))))))))))))))))))))))))))))))))))))))))))))))) :: ((Npos
    (XO (XO (XO (XI (XI (XI (XO (XI (XO (XO (XO (XO (XI (XO (XO (XI (XI (XI
    (XI (XI (XO (XO (XI (XI (XO (XI (XI (XI (XO (XI (XO (XO (XI (XI (XI (XO
    (XO (XO (XI (XO (XO (XI (XO (XI (XO (XI (XO (XI (XI (XO (XO (XO (XO (XO
    (XI (XO (XO (XI (XO (XI (XO (XI
    XH))))))))))))))))))))))))))))))))))))))))))))))))))))))))))))))) :: ((Npos
    (XI (XI (XI (XO (XO (XO (XO (XI (XI (XO (XI (XO (XO (XI (XO (XI (XI (XO
    (XI (XO (XO (XI (XI (XO (XO (XO (XI (XO (XO (XO (XO (XO (XI (XO (XI (XI
    (XO (XI (XO (XI (XI (XO (XI (XO (XI (XO (XI (XI (XO (XO (XI (XO (XO (XI
    (XO (XI (XI (XI (XI (XO (XI (XO (XO
    XH)))))))))))))))))))))))))))))))))))))))))))))))))))))))))))))))) :: ((Npos
    (XI (XO (XI (XI (XI (XO (XI (XO (XI (XO (XO (XO (XI (XI (XI (XO (XI (XO
    (XI (XO (XO (XO (XO (XI (XO (XI (XO (XI (XO (XO (XI (XO (XI (XO (XO (XI
    (XI (XO (XI (XO (XI (XO (XO (XO (XI (XO (XI (XO (XI (XI (XO (XO (XI (XI
    (XI (XI (XO (XO (XI (XI (XO (XI (XO
    XH)))))))))))))))))))))))))))))))))))))))))))))))))))))))))))))))) :: ((Npos
    (XO (XO (XO (XO (XI (XO (XO (XI (XO (XO (XO (XI (XI (XI (XI (XI (XO (XI
    (XO (XI (XO (XI (XI (XI (XO (XO (XI (XI (XI (XI (XI (XI (XI (XI (XO (XO
    (XO (XI (XI (XO (XI (XI (XI (XI (XO (XI (XI (XO (XI (XO (XI (XO (XI (XI
    (XI (XO (XI (XI (XO (XI (XO (XI (XI
    XH)))))))))))))))))))))))))))))))))))))))))))))))))))))))))))))))) :: ((Npos
    (XI (XO (XO (XI (XI (XI (XI (XO (XO (XI (XO (XO (XI (XO (XO (XO (XI (XO
    (XO (XO (XI (XI (XI (XO (XO (XO (XI (XO (XI (XO (XO (XI (XO (XI (XI (XI
    (XI (XI (XI (XO (XI (XI (XO (XO (XO (XO (XI (XO (XO (XI (XI (XO (XO (XO
    (XO (XI (XO (XO (XI (XO (XO (XI
    XH))))))))))))))))))))))))))))))))))))))))))))))))))))))))))))))) :: ((Npos
    (XI (XO (XO (XO (XI (XO (XI (XO (XI (XO (XO (XO (XI (XO (XO (XI (XI (XI
    (XO (XO (XO (XO (XO (XO (XI (XI (XO (XO (XO (XO (XO (XI (XO (XO (XI (XI
    (XI (XO (XI (XO (XO (XI (XI (XO (XI (XO (XO (XO (XO (XO (XO (XO (XO (XI
    (XI (XI (XI (XO (XI (XI (XI (XI
    XH))))))))))))))))))))))))))))))))))))))))))))))))))))))))))))))) :: ((Npos
    (XI (XI (XI (XI (XO (XO (XI (XO (XO (XO (XI (XI (XI (XO (XI (XO (XI (XO
    (XO (XI (XI (XI (XO (XI (XI (XO (XI (XO (XO (XO (XO (XO (XO (XI (XO (XI
    (XO (XO (XO (XI (XO (XO (XO (XO (XI (XO (XO (XI (XO (XI (XO (XO (XO (XI
    (XI (XO (XO (XI (XO (XI (XI
    XH)))))))))))))))))))))))))))))))))))))))))))))))))))))))))))))) :: ((Npos
    (XI (XI (XO (XO (XI (XI (XO (XI (XI (XO (XO (XO (XO (XI (XI (XI (XO (XI
    (XO (XO (XI (XO (XO (XI (XO (XI (XI (XO (XO (XI (XO (XO (XI (XO (XO (XI
    (XI (XO (XO (XO (XO (XO (XO (XI (XO (XO (XI (XI (XO (XO (XI (XI (XO (XO
    (XO (XI (XO (XI (XI (XI
    XH))))))))))))))))))))))))))))))))))))))))))))))))))))))))))))) :: ((Npos
    (XI (XI (XO (XI (XO (XO (XI (XO (XO (XO (XI (XO (XI (XI (XO (XO (XO (XI
    (XI (XO (XI (XO (XI (XO (XO (XO (XI (XO (XO (XI (XI (XO (XO (XI (XI (XO
    (XI (XO (XO (XI (XO (XI (XO (XO (XI (XI (XO (XO (XO (XO (XI (XO (XO (XI
    (XI (XO (XI (XI (XO (XI (XO (XI (XO
    XH)))))))))))))))))))))))))))))))))))))))))))))))))))))))))))))))) :: ((Npos
    (XO (XO (XI (XO (XO (XO (XI (XI (XI (XI (XI (XI (XI (XI (XO (XI (XI (XI
    (XI (XI (XO (XO (XI (XI (XI (XO (XO (XI (XI (XI (XO (XI (XI (XO (XO (XI
    (XI (XO (XO (XI (XO (XO (XO (XI (XI (XO (XI (XO (XI (XO (XI (XO (XI (XI
    (XI (XI (XI (XI (XO (XO (XI
    XH)))))))))))))))))))))))))))))))))))))))))))))))))))))))))))))) :: ((Npos
    (XO (XO (XO (XI (XO (XO (XI (XO (XO (XO (XO (XI (XI (XI (XO (XO (XI (XI
    (XO (XO (XI (XI (XI (XO (XO (XO (XO (XI (XO (XI (XI (XI (XO (XI (XI (XO
    (XO (XI (XO (XO (XI (XO (XI (XO (XO (XI (XO (XO (XO (XO (XI (XI (XO (XI
    (XO (XI (XO (XI (XO (XO (XO (XO
    XH))))))))))))))))))))))))))))))))))))))))))))))))))))))))))))))) :: ((Npos
    (XO (XO (XI (XO (XI (XI (XI (XI (XI (XO (XI (XO (XO (XO (XO (XO (XO (XI
    (XI (XO (XI (XI (XI (XO (XO (XO (XI (XO (XO (XO (XO (XO (XO (XI (XI (XO
    (XI (XI (XI (XO (XI (XI (XI (XO (XI (XO (XI (XO (XI (XI (XO (XO (XI (XI
    (XI (XI (XI (XI (XO (XI (XO (XO (XO
    XH)))))))))))))))))))))))))))))))))))))))))))))))))))))))))))))))) :: ((Npos
    (XI (XI (XO (XO (XI (XI (XI (XI (XI (XI (XO (XI (XO (XO (XO (XI (XI (XI
    (XO (XI (XO (XI (XO (XI (XI (XI (XI (XO (XI (XI (XO (XO (XI (XI (XI (XO
    (XO (XO (XO (XI (XO (XO (XI (XO (XI (XO (XO (XO (XI (XO (XI (XI (XO (XI
    (XI (XO (XI (XI (XO (XI (XO (XO
    XH))))))))))))))))))))))))))))))))))))))))))))))))))))))))))))))) :: ((Npos
    (XO (XI (XO (XO (XO (XI (XO (XO (XI (XO (XI (XO (XI (XI (XO (XI (XI (XO
    (XI (XO (XO (XO (XO (XI (XI (XI (XO (XI (XO (XO (XO (XO (XI (XI (XO (XI
    (XO (XI (XO (XO (XI (XO (XI (XI (XO (XO (XO (XO (XI (XI (XO (XO (XI (XO
    (XI (XI (XI (XO (XI (XO (XO
    XH)))))))))))))))))))))))))))))))))))))))))))))))))))))))))))))) :: ((Npos
    (XI (XO (XO (XO (XO (XI (XO (XO (XO (XO (XO (XO (XI (XI (XI (XO (XI (XI
    (XO (XI (XI (XI (XI (XI (XO (XI (XI (XO (XO (XI (XI (XO (XI (XI (XI (XI
    (XO (XI (XI (XI (XO (XI (XI (XO (XO (XO (XI (XI (XO (XI (XI (XI (XI (XI
    (XI (XI (XO (XI
    XH))))))))))))))))))))))))))))))))))))))))))))))))))))))))))) :: ((Npos
    (XO (XI (XO (XO (XI (XI (XI (XO (XI (XO (XI (XO (XI (XO (XO (XO (XO (XO
    (XI (XO (XO (XI (XI (XO (XI (XI (XO (XO (XO (XI (XO (XI (XO (XO (XI (XO
    (XO (XI (XI (XI (XI (XO (XO (XO (XI (XI (XI (XO (XO (XI (XO (XO (XO (XI
    (XI (XO (XI (XI (XI (XI (XI (XO (XO
    XH)))))))))))))))))))))))))))))))))))))))))))))))))))))))))))))))) :: ((Npos
    (XI (XI (XI (XI (XO (XI (XO (XO (XO (XO (XI (XI (XI (XI (XI (XI (XO (XO
    (XO (XI (XO (XI (XI (XO (XO (XO (XO (XI (XO (XI (XO (XO (XI (XI (XI (XI
    (XI (XI (XO (XO (XO (XI (XI (XO (XO (XI (XO (XI (XO (XO (XO (XO (XO (XO
    (XI (XO (XI (XI (XI (XI (XO (XO
    XH))))))))))))))))))))))))))))))))))))))))))))))))))))))))))))))) :: ((Npos
    (XI (XI (XO (XO (XO (XO (XO (XI (XO (XI (XI (XO (XI (XO (XO (XI (XI (XI
    (XO (XO (XI (XI (XO (XI (XI (XI (XO (XO (XO (XI (XI (XO (XO (XO (XI (XO
    (XI (XO (XI (XI (XO (XI (XO (XI (XI (XO (XI (XI (XI (XO (XI (XO (XI (XI
    (XI (XI (XO (XI (XI (XI (XI
    XH)))))))))))))))))))))))))))))))))))))))))))))))))))))))))))))) :: ((Npos
    (XI (XO (XI (XO (XO (XI (XI (XI (XI (XI (XO (XI (XO (XI (XI (XO (XO (XO
    (XO (XO (XI (XO (XI (XO (XI (XI (XO (XO (XO (XI (XO (XI (XI (XI (XI (XO
    (XI (XO (XI (XI (XI (XI (XO (XO (XI (XI (XI (XO (XI (XO (XI (XO (XO (XO
    (XI (XI (XO (XI (XI (XI
    XH))))))))))))))))))))))))))))))))))))))))))))))))))))))))))))) :: ((Npos
    (XO (XO (XO (XI (XI (XI (XO (XO (XI (XI (XO (XO (XI (XI (XI (XO (XI (XO
    (XO (XI (XI (XO (XO (XI (XO (XI (XI (XI (XO (XO (XI (XI (XO (XO (XI (XI
    (XI (XO (XO (XI (XO (XO (XO (XI (XO (XO (XI (XI (XO (XI (XO (XO (XI (XO
    (XI (XI (XI (XO (XO
    XH)))))))))))))))))))))))))))))))))))))))))))))))))))))))))))) :: ((Npos
    (XI (XO (XI (XO (XO (XI (XO (XO (XI (XI (XO (XO (XO (XO (XO (XO (XI (XI
    (XI (XO (XO (XI (XO (XO (XI (XO (XO (XI (XO (XI (XI (XI (XO (XI (XO (XO
    (XO (XI (XI (XI (XO (XI (XI (XO (XO (XI (XO (XI (XI (XO (XI (XI (XI (XI
    (XO (XI (XI (XI (XI (XO (XO (XO (XI
    XH)))))))))))))))))))))))))))))))))))))))))))))))))))))))))))))))) :: ((Npos
    (XO (XO (XO (XI (XI (XO (XI (XI (XI (XI (XI (XO (XI (XO (XI (XI (XI (XO
    (XI (XI (XO (XI (XI (XI (XO (XO (XO (XO (XO (XI (XI (XI (XO (XI (XO (XO
    (XI (XI (XO (XI (XI (XI (XO (XI (XO (XO (XI (XI (XI (XI (XO (XO (XI (XO
    (XI (XI (XO (XI (XI (XI (XI (XI
    XH))))))))))))))))))))))))))))))))))))))))))))))))))))))))))))))) :: ((Npos
    (XO (XI (XI (XI (XO (XO (XO (XI (XO (XI (XI (XI (XO (XI (XI (XO (XI (XO
    (XO (XO (XO (XO (XO (XI (XO (XI (XI (XO (XI (XI (XO (XI (XI (XO (XI (XO
    (XI (XI (XO (XO (XO (XO (XO (XO (XI (XI (XO (XI (XO (XI (XO (XI (XI (XI
    (XO (XO (XI (XO (XI (XO (XI (XO
    XH))))))))))))))))))))))))))))))))))))))))))))))))))))))))))))))) :: ((Npos
    (XI (XO (XI (XI (XO (XO (XI (XO (XO (XI (XI (XO (XO (XI (XI (XO (XO (XI
    (XO (XI (XI (XO (XI (XI (XO (XI (XI (XI (XI (XO (XI (XO (XI (XI (XO (XO
    (XO (XO (XO (XO (XI (XO (XI (XI (XO (XI (XI (XI (XI (XI (XO (XI (XI (XI
    (XI (XI (XO (XO (XO (XI (XI (XI
    XH))))))))))))))))))))))))))))))))))))))))))))))))))))))))))))))) :: ((Npos
    (XI (XI (XO (XI (XO (XO (XO (XO (XO (XO (XI (XI (XO (XO (XO (XI (XI (XO
    (XI (XO (XO (XI (XI (XI (XI (XO (XO (XI (XO (XO (XI (XI (XI (XI (XO (XI
    (XO (XO (XO (XO (XO (XO (XI (XO (XI (XI (XI (XO (XI (XI (XI (XI (XI (XI
    (XO (XO (XO (XO (XO (XO (XI
    XH)))))))))))))))))))))))))))))))))))))))))))))))))))))))))))))) :: ((Npos
    (XO (XI (XI (XI (XI (XI (XI (XI (XO (XI (XO (XI (XO (XO (XI (XI (XI (XI
    (XI (XI (XO (XI (XI (XI (XO (XO (XI (XI (XI (XO (XO (XI (XI (XO (XO (XO
    (XO (XO (XO (XI (XO (XI (XI (XI (XI (XO (XO (XO (XI (XI (XI (XI (XO (XO
    (XI (XI (XI (XI (XI (XI (XO (XI (XO
    XH)))))))))))))))))))))))))))))))))))))))))))))))))))))))))))))))) :: ((Npos
    (XO (XO (XI (XI (XI (XO (XO (XO (XO (XO (XI (XI (XI (XI (XO (XI (XO (XI
    (XO (XI (XO (XO (XI (XI (XI (XI (XI (XO (XO (XI (XI (XO (XO (XI (XO (XO
    (XI (XI (XO (XO (XO (XO (XO (XI (XI (XO (XI (XO (XO (XI (XI (XO (XI (XI
    (XI (XI (XI (XO (XO (XO (XI (XI (XI
    XH)))))))))))))))))))))))))))))))))))))))))))))))))))))))))))))))) :: ((Npos
    (XO (XO (XO (XO (XO (XI (XI (XI (XO (XI (XO (XI (XO (XO (XO (XI (XO (XO
    (XO (XI (XO (XO (XI (XI (XO (XO (XO (XO (XO (XI (XI (XO (XI (XI (XO (XI
    (XI (XO (XO (XO (XO (XO (XI (XO (XI (XI (XI (XO (XI (XO (XI (XO (XO (XI
    (XI (XO (XI (XI (XO (XO (XO
    XH)))))))))))))))))))))))))))))))))))))))))))))))))))))))))))))) :: ((Npos
    (XO (XO (XI (XO (XO (XI (XI (XO (XI (XO (XI (XI (XI (XO (XI (XI (XI (XO
    (XI (XI (XI (XI (XO (XO (XO (XI (XO (XO (XO (XI (XO (XO (XI (XI (XI (XI
    (XO (XO (XO (XO (XI (XI (XO (XO (XO (XI (XO (XI (XI (XI (XO (XI (XI (XI
    (XO (XI (XO (XI (XI (XI (XO (XO (XO
    XH)))))))))))))))))))))))))))))))))))))))))))))))))))))))))))))))) :: ((Npos
    (XO (XI (XO (XI (XI (XI (XI (XI (XO (XI (XI (XI (XO (XO (XI (XI (XO (XI
    (XI (XI (XO (XO (XI (XI (XI (XO (XO (XI (XO (XO (XO (XI (XI (XO (XI (XI
    (XO (XO (XO (XI (XO (XI (XI (XI (XO (XI (XO (XO (XO (XO (XO (XO (XO (XI
    (XI (XO (XO (XI (XI (XI (XI (XI (XI
    XH)))))))))))))))))))))))))))))))))))))))))))))))))))))))))))))))) :: ((Npos
    (XO (XI (XO (XI (XO (XO (XI (XO (XI (XO (XI (XO (XO (XI (XO (XI (XI (XI
    (XI (XO (XO (XI (XI (XO (XI (XI (XI (XO (XI (XO (XI (XI (XI (XO (XI (XI
    (XI (XI (XI (XO (XO (XO (XO (XI (XI (XO (XO (XI (XI (XI (XI (XO (XO (XI
    (XI (XO (XI (XO (XI (XI (XO (XI (XO
    XH)))))))))))))))))))))))))))))))))))))))))))))))))))))))))))))))) :: ((Npos
    (XO (XI (XI (XO (XO (XI (XI (XI (XO (XI (XO (XO (XI (XO (XI (XI (XO (XO
    (XO (XI (XI (XI (XO (XI (XO (XI (XO (XI (XO (XI (XI (XI (XO (XI (XI (XI
    (XO (XO (XO (XO (XI (XO (XI (XO (XO (XO (XO (XI (XI (XO (XI (XI (XI (XO
    (XO (XI (XO (XI (XO (XO (XI (XO
    XH))))))))))))))))))))))))))))))))))))))))))))))))))))))))))))))) :: ((Npos
    (XI (XI (XI (XO (XO (XI (XO (XI (XI (XI (XO (XI (XI (XO (XI (XI (XO (XI
    (XO (XI (XO (XI (XO (XI (XO (XO (XO (XI (XI (XI (XO (XI (XI (XO (XO (XI
    (XI (XI (XO (XI (XI (XI (XI (XI (XI (XI (XI (XO (XI (XO (XI (XI (XI (XI
    (XO (XO (XO (XI (XI (XO (XI (XO
    XH))))))))))))))))))))))))))))))))))))))))))))))))))))))))))))))) :: ((Npos
    (XI (XO (XI (XI (XO (XI (XI (XO (XO (XO (XO (XO (XI (XI (XI (XO (XI (XO
    (XI (XO (XI (XO (XO (XO (XO (XO (XI (XO (XO (XO (XO (XI (XO (XI (XO (XO
    (XO (XO (XO (XO (XO (XO (XO (XO (XI (XO (XI (XI (XI (XI (XI (XI (XO (XO
    (XI (XI (XI (XI (XO (XI (XI (XI
    XH))))))))))))))))))))))))))))))))))))))))))))))))))))))))))))))) :: ((Npos
    (XO (XO (XI (XI (XO (XI (XI (XI (XO (XO (XO (XI (XO (XI (XO (XO (XI (XI
    (XO (XO (XO (XO (XO (XO (XI (XO (XO (XI (XI (XO (XO (XI (XO (XI (XI (XO
    (XO (XI (XO (XI (XI (XI (XO (XO (XI (XI (XO (XO (XO (XI (XI (XI (XO (XI
    (XI (XI (XI (XI (XO (XI (XO (XO
    XH))))))))))))))))))))))))))))))))))))))))))))))))))))))))))))))) :: ((Npos
    (XO (XO (XO (XI (XO (XO (XI (XO (XO (XI (XI (XO (XO (XI (XO (XO (XO (XO
    (XO (XI (XO (XO (XO (XO (XI (XO (XO (XI (XI (XO (XO (XI (XI (XI (XI (XI
    (XI (XI (XO (XI (XO (XI (XI (XO (XO (XI (XI (XO (XO (XO (XI (XO (XI (XO
    (XO (XO (XO (XI (XO (XO (XI (XO (XI
    XH)))))))))))))))))))))))))))))))))))))))))))))))))))))))))))))))) :: ((Npos
    (XI (XI (XI (XO (XI (XI (XI (XI (XI (XI (XI (XI (XO (XI (XO (XO (XO (XO
    (XO (XO (XI (XI (XI (XO (XO (XI (XO (XI (XI (XI (XI (XI (XI (XO (XI (XO
    (XI (XO (XO (XI (XI (XO (XI (XO (XO (XI (XO (XI (XI (XI (XI (XO (XI (XI
    (XI (XO (XI (XO (XO (XI (XO (XI (XO
    XH)))))))))))))))))))))))))))))))))))))))))))))))))))))))))))))))) :: ((Npos
    (XI (XI (XO (XI (XI (XI (XO (XO (XI (XI (XI (XI (XI (XO (XI (XI (XO (XO
    (XO (XI (XO (XO (XO (XI (XI (XI (XI (XO (XO (XI (XO (XO (XO (XO (XO (XI
    (XO (XI (XI (XO (XI (XI (XI (XO (XO (XI (XO (XI (XO (XO (XI (XI (XO (XI
    (XI (XI (XO (XO (XO (XO (XI (XI
    XH))))))))))))))))))))))))))))))))))))))))))))))))))))))))))))))) :: ((Npos
    (XO (XI (XO (XO (XI (XI (XI (XO (XO (XO (XI (XI (XO (XO (XI (XO (XO (XO
    (XO (XI (XO (XI (XO (XO (XI (XO (XO (XO (XI (XI (XI (XI (XI (XI (XO (XO
    (XI (XI (XI (XI (XI (XI (XI (XI (XO (XO (XO (XO (XO (XI (XO (XI (XI (XO
    (XO (XI (XI (XO (XO (XI (XO (XO (XI
    XH)))))))))))))))))))))))))))))))))))))))))))))))))))))))))))))))) :: ((Npos
    (XI (XI (XI (XI (XI (XI (XO (XI (XI (XO (XI (XO (XO (XO (XI (XI (XI (XO
    (XI (XO (XI (XI (XO (XI (XO (XI (XO (XI (XI (XO (XO (XI (XO (XO (XO (XI
    (XI (XI (XO (XO (XO (XI (XI (XI (XI (XI (XO (XO (XO (XI (XO (XI (XI (XI
    (XO (XI (XI (XO (XI (XO (XI
    XH)))))))))))))))))))))))))))))))))))))))))))))))))))))))))))))) :: ((Npos
    (XO (XO (XO (XO (XO (XO (XO (XO (XI (XI (XO (XO (XI (XO (XO (XI (XI (XI
    (XO (XO (XO (XI (XI (XO (XI (XI (XI (XI (XO (XI (XO (XI (XO (XI (XI (XO
    (XO (XI (XO (XI (XI (XI (XI (XO (XO (XI (XO (XI (XO (XI (XI (XO (XI (XI
    (XI (XI (XO (XI (XI (XI (XI (XI (XO
    XH)))))))))))))))))))))))))))))))))))))))))))))))))))))))))))))))) :: ((Npos
    (XO (XI (XI (XI (XI (XO (XO (XI (XI (XI (XI (XO (XI (XI (XI (XO (XO (XI
    (XI (XO (XO (XO (XI (XO (XI (XI (XO (XI (XI (XI (XO (XO (XO (XO (XO (XI
    (XO (XI (XO (XO (XO (XO (XO (XO (XO (XO (XI (XO (XO (XI (XI (XI (XI (XO
    (XO (XI (XI (XO (XO (XO
    XH))))))))))))))))))))))))))))))))))))))))))))))))))))))))))))) :: ((Npos
    (XI (XO (XI (XO (XO (XI (XI (XI (XO (XI (XI (XI (XI (XI (XO (XI (XI (XI
    (XO (XO (XO (XO (XO (XO (XO (XI (XI (XO (XI (XO (XI (XO (XO (XI (XI (XO
    (XO (XI (XO (XO (XI (XO (XI (XI (XO (XI (XO (XI (XO (XI (XI (XI (XI (XI
    (XO (XO (XO
    XH)))))))))))))))))))))))))))))))))))))))))))))))))))))))))) :: ((Npos
    (XI (XO (XI (XI (XO (XI (XO (XI (XI (XI (XO (XI (XO (XO (XO (XO (XO (XI
    (XO (XO (XI (XI (XI (XO (XO (XO (XO (XO (XO (XI (XO (XI (XI (XI (XO (XI
    (XI (XI (XI (XO (XO (XO (XO (XI (XO (XO (XO (XO (XO (XO (XO (XI (XO (XI
    (XO (XO (XI (XO (XI (XI
    XH))))))))))))))))))))))))))))))))))))))))))))))))))))))))))))) :: ((Npos
    (XI (XO (XO (XI (XI (XI (XO (XI (XO (XI (XI (XO (XO (XI (XO (XO (XO (XI
    (XI (XO (XI (XI (XI (XI (XO (XO (XO (XO (XO (XI (XO (XI (XO (XI (XI (XO
    (XO (XO (XO (XO (XO (XO (XO (XO (XO (XI (XI (XI (XO (XI (XO (XI (XO (XO
    (XI (XO (XI (XO (XI (XI
    XH))))))))))))))))))))))))))))))))))))))))))))))))))))))))))))) :: ((Npos
    (XI (XI (XI (XI (XI (XO (XI (XO (XI (XO (XO (XI (XI (XI (XI (XI (XO (XO
    (XI (XO (XO (XO (XI (XI (XO (XI (XI (XI (XI (XO (XI (XO (XI (XO (XI (XI
    (XO (XO (XI (XO (XO (XI (XO (XI (XI (XO (XI (XO (XI (XO (XI (XI (XI (XO
    (XO (XI (XO (XI (XI (XI (XO (XO (XO
    XH)))))))))))))))))))))))))))))))))))))))))))))))))))))))))))))))) :: ((Npos
    (XO (XI (XO (XI (XO (XI (XI (XO (XO (XI (XO (XO (XI (XI (XI (XO (XO (XI
    (XI (XO (XO (XO (XI (XI (XO (XO (XI (XI (XO (XO (XO (XI (XO (XI (XI (XO
    (XI (XI (XO (XO (XI (XO (XO (XI (XI (XI (XO (XO (XO (XO (XI (XO (XI (XO
    (XI (XI (XO (XO (XI (XI (XO (XO (XI
    XH)))))))))))))))))))))))))))))))))))))))))))))))))))))))))))))))) :: ((Npos
    (XI (XO (XO (XO (XO (XO (XI (XO (XO (XI (XI (XO (XO (XO (XI (XI (XI (XO
    (XO (XO (XI (XO (XO (XI (XI (XO (XI (XO (XI (XI (XO (XO (XO (XO (XO (XO
    (XI (XI (XI (XO (XI (XO (XI (XI (XI (XI (XI (XI (XI (XO (XI (XO (XO (XI
    (XI (XO (XO (XO (XI (XO (XI (XO (XI
    XH)))))))))))))))))))))))))))))))))))))))))))))))))))))))))))))))) :: ((Npos
    (XO (XO (XI (XO (XI (XI (XO (XO (XI (XO (XI (XI (XI (XI (XO (XO (XI (XO
    (XO (XO (XO (XI (XO (XO (XO (XI (XI (XI (XI (XI (XO (XI (XO (XI (XO (XO
    (XI (XO (XI (XO (XI (XO (XO (XO (XI (XI (XI (XI (XO (XO (XO (XO (XO (XI
    (XI (XO (XI (XO (XI (XO (XO (XI (XI
    XH)))))))))))))))))))))))))))))))))))))))))))))))))))))))))))))))) :: ((Npos
    (XO (XI (XI (XO (XI (XI (XI (XO (XO (XI (XO (XI (XO (XI (XO (XO (XI (XO
    (XI (XO (XO (XO (XO (XO (XO (XI (XI (XI (XO (XI (XI (XI (XO (XI (XO (XO
    (XI (XI (XI (XO (XO (XI (XO (XI (XO (XI (XI (XI (XO (XO (XO (XO (XO (XO
    (XI (XI (XI (XO (XO (XI (XI (XI (XI
    XH)))))))))))))))))))))))))))))))))))))))))))))))))))))))))))))))) :: ((Npos
    (XO (XO (XO (XI (XO (XO (XI (XI (XO (XI (XO (XO (XI (XO (XO (XI (XI (XI
    (XO (XI (XI (XO (XO (XO (XO (XI (XI (XI (XI (XI (XO (XI (XO (XI (XO (XO
    (XO (XO (XI (XO (XO (XI (XO (XI (XO (XI (XI (XI (XO (XI (XO (XO (XI (XO
    (XI (XI (XO (XI (XO (XO (XO (XO
    XH))))))))))))))))))))))))))))))))))))))))))))))))))))))))))))))) :: ((Npos
    (XI (XO (XI (XO (XO (XI (XO (XI (XO (XI (XI (XI (XO (XO (XO (XI (XI (XI
    (XO (XO (XI (XI (XI (XO (XI (XI (XI (XO (XI (XO (XO (XI (XO (XI (XI (XI
    (XI (XI (XI (XO (XI (XI (XO (XO (XO (XO (XO (XI (XO (XI (XO (XI (XI (XO
    (XI (XI (XI (XI (XO (XI (XO (XO
    XH))))))))))))))))))))))))))))))))))))))))))))))))))))))))))))))) :: ((Npos
    (XO (XO (XI (XI (XI (XO (XO (XO (XI (XO (XO (XI (XO (XI (XI (XI (XO (XI
    (XO (XI (XI (XI (XO (XI (XI (XO (XO (XO (XI (XI (XI (XO (XO (XO (XO (XI
    (XO (XO (XI (XI (XO (XO (XO (XI (XO (XI (XO (XI (XO (XI (XO (XI (XO (XO
    (XI (XI (XO (XI (XI (XI (XO (XI
    XH))))))))))))))))))))))))))))))))))))))))))))))))))))))))))))))) :: ((Npos
    (XO (XO (XI (XI (XI (XO (XO (XO (XO (XO (XO (XI (XO (XO (XO (XO (XI (XI
    (XI (XO (XO (XI (XI (XI (XO (XO (XO (XO (XO (XO (XI (XO (XO (XI (XO (XO
    (XI (XO (XO (XI (XI (XI (XO (XI (XI (XO (XO (XO (XO (XO (XI (XO (XI (XO
    (XI (XO (XI (XO (XO (XO (XO (XO (XI
    XH)))))))))))))))))))))))))))))))))))))))))))))))))))))))))))))))) :: ((Npos
    (XO (XI (XI (XO (XI (XI (XO (XI (XO (XI (XI (XI (XI (XO (XO (XI (XO (XI
    (XO (XI (XO (XI (XI (XI (XI (XI (XI (XI (XO (XO (XI (XO (XI (XI (XI (XI
    (XO (XO (XO (XI (XI (XI (XO (XO (XI (XO (XI (XO (XO (XI (XI (XO (XI (XI
    (XI (XI (XO (XO (XI (XO
    XH))))))))))))))))))))))))))))))))))))))))))))))))))))))))))))) :: ((Npos
    (XO (XI (XI (XI (XI (XI (XI (XO (XI (XO (XI (XO (XI (XI (XO (XO (XI (XI
    (XO (XI (XI (XI (XO (XO (XI (XO (XO (XO (XI (XO (XO (XI (XI (XI (XI (XO
    (XI (XO (XO (XO (XO (XO (XI (XI (XO (XO (XO (XI (XO (XI (XI (XO (XI (XI
    (XO (XO (XO (XI (XI (XO
    XH))))))))))))))))))))))))))))))))))))))))))))))))))))))))))))) :: ((Npos
    (XO (XO (XI (XO (XI (XI (XI (XO (XI (XO (XI (XI (XI (XI (XI (XI (XO (XO
    (XO (XI (XO (XI (XO (XO (XO (XI (XO (XI (XI (XI (XO (XO (XO (XO (XI (XO
    (XO (XI (XO (XI (XI (XI (XO (XO (XI (XO (XO (XI (XO (XI (XO (XI (XO (XI
    (XI (XO (XO (XO (XI (XO (XO (XI (XI
    XH)))))))))))))))))))))))))))))))))))))))))))))))))))))))))))))))) :: ((Npos
    (XO (XO (XO (XO (XI (XO (XO (XO (XO (XI (XO (XI (XI (XI (XO (XO (XO (XI
    (XI (XI (XO (XI (XO (XO (XO (XI (XO (XO (XI (XI (XI (XO (XI (XO (XI (XO
    (XO (XI (XI (XI (XO (XO (XI (XI (XO (XO (XI (XI (XI (XO (XI (XI (XO (XI
    (XO (XO (XO (XI (XI (XI (XI (XO (XO
    XH)))))))))))))))))))))))))))))))))))))))))))))))))))))))))))))))) :: ((Npos
    (XI (XI (XI (XO (XO (XO (XO (XO (XI (XI (XO (XI (XI (XO (XO (XO (XO (XI
    (XI (XI (XO (XO (XO (XO (XO (XO (XO (XI (XI (XI (XO (XO (XI (XO (XI (XI
    (XO (XO (XI (XO (XI (XI (XO (XO (XO (XO (XI (XI (XI (XI (XI (XO (XI (XI
    (XO (XI (XI (XI (XO (XI (XO (XI
    XH))))))))))))))))))))))))))))))))))))))))))))))))))))))))))))))) :: ((Npos
    (XI (XO (XO (XI (XO (XO (XO (XO (XI (XO (XI (XO (XI (XO (XI (XO (XO (XO
    (XO (XO (XI (XI (XI (XI (XO (XO (XI (XI (XI (XI (XI (XO (XI (XI (XI (XO
    (XO (XI (XI (XO (XI (XI (XI (XO (XO (XO (XI (XO (XI (XO (XI (XO (XO (XO
    (XI (XO (XI (XI (XO (XI (XO (XO (XO
    XH)))))))))))))))))))))))))))))))))))))))))))))))))))))))))))))))) :: ((Npos
    (XO (XO (XO (XO (XI (XI (XI (XO (XO (XO (XO (XI (XO (XO (XO (XI (XO (XO
    (XI (XO (XO (XO (XI (XO (XO (XI (XI (XO (XI (XI (XO (XI (XI (XI (XI (XI
    (XI (XO (XI (XO (XO (XO (XI (XI (XI (XO (XO (XO (XO (XI (XI (XI (XO (XI
    (XO (XI (XO (XI (XO (XI (XO (XO (XO
    XH)))))))))))))))))))))))))))))))))))))))))))))))))))))))))))))))) :: ((Npos
    (XI (XI (XI (XI (XO (XO (XO (XI (XO (XO (XO (XO (XI (XO (XI (XO (XO (XI
    (XO (XI (XO (XI (XI (XI (XO (XO (XI (XI (XO (XO (XI (XO (XI (XO (XI (XO
    (XI (XI (XO (XO (XO (XO (XI (XI (XO (XO (XI (XI (XI (XI (XI (XI (XI (XI
    (XI (XI (XI (XO (XO (XI (XI (XI
    XH))))))))))))))))))))))))))))))))))))))))))))))))))))))))))))))) :: ((Npos
    (XO (XI (XO (XO (XI (XO (XI (XO (XI (XO (XO (XO (XI (XO (XO (XI (XI (XI
    (XO (XO (XO (XO (XO (XI (XI (XI (XO (XO (XO (XO (XO (XI (XO (XO (XO (XO
    (XI (XI (XO (XI (XO (XO (XO (XI (XI (XO (XO (XI (XO (XO (XI (XO (XO (XI
    (XI (XI (XI (XI (XO (XI (XO
    XH)))))))))))))))))))))))))))))))))))))))))))))))))))))))))))))) :: ((Npos
    (XI (XI (XI (XI (XO (XO (XO (XO (XI (XO (XO (XO (XO (XO (XI (XO (XO (XI
    (XI (XO (XI (XI (XO (XI (XO (XI (XO (XI (XI (XO (XO (XI (XO (XO (XO (XO
    (XO (XO (XO (XI (XO (XI (XI (XO (XO (XO (XI (XO (XI (XO (XO (XI (XO (XO
    (XI (XO (XI (XO (XO (XI
    XH))))))))))))))))))))))))))))))))))))))))))))))))))))))))))))) :: ((Npos
    (XI (XO (XO (XI (XO (XI (XO (XI (XI (XI (XO (XO (XI (XI (XO (XO (XI (XO
    (XI (XI (XO (XO (XI (XO (XI (XO (XO (XI (XI (XI (XI (XI (XO (XI (XO (XI
    (XI (XI (XO (XI (XO (XI (XO (XO (XI (XO (XI (XI (XI (XI (XO (XO (XO (XO
    (XO (XI (XO (XO (XI (XO
    XH))))))))))))))))))))))))))))))))))))))))))))))))))))))))))))) :: ((Npos
    (XI (XI (XI (XI (XI (XO (XI (XI (XI (XI (XO (XI (XI (XI (XO (XO (XI (XI
    (XI (XO (XO (XO (XO (XI (XO (XI (XI (XI (XI (XO (XI (XO (XO (XI (XO (XI
    (XO (XI (XI (XO (XO (XI (XI (XO (XI (XO (XO (XI (XI (XI (XI (XI (XI (XI
    (XO (XO (XI (XO (XO (XO (XO (XI (XO
    XH)))))))))))))))))))))))))))))))))))))))))))))))))))))))))))))))) :: ((Npos
    (XO (XO (XO (XI (XI (XI (XO (XO (XO (XO (XO (XI (XO (XI (XI (XI (XO (XI
    (XO (XI (XO (XI (XO (XO (XI (XO (XO (XI (XI (XO (XO (XI (XI (XI (XO (XO
    (XI (XI (XO (XO (XO (XO (XO (XI (XO (XO (XO (XI (XI (XO (XI (XO (XO (XO
    (XO (XI (XI (XO (XI (XO (XO (XI (XI
    XH)))))))))))))))))))))))))))))))))))))))))))))))))))))))))))))))) :: ((Npos
    (XI (XI (XO (XI (XI (XO (XO (XO (XO (XI (XI (XO (XI (XO (XI (XO (XO (XI
    (XI (XO (XI (XI (XO (XO (XO (XO (XO (XI (XO (XI (XO (XO (XI (XI (XI (XO
    (XI (XI (XO (XO (XO (XO (XO (XO (XO (XI (XO (XO (XO (XI (XI (XO (XO (XO
    (XO (XI (XI (XI (XO (XO (XO (XO
    XH))))))))))))))))))))))))))))))))))))))))))))))))))))))))))))))) :: ((Npos
    (XO (XO (XI (XI (XI (XO (XI (XI (XO (XO (XI (XO (XI (XO (XO (XO (XI (XO
    (XO (XO (XI (XO (XI (XI (XO (XI (XO (XO (XO (XO (XO (XO (XO (XO (XI (XI
    (XO (XI (XI (XI (XO (XO (XO (XI (XO (XO (XI (XO (XI (XI (XO (XI (XI (XO
    (XI (XO (XI (XI (XI (XO
    XH))))))))))))))))))))))))))))))))))))))))))))))))))))))))))))) :: ((Npos
    (XO (XO (XO (XO (XO (XI (XO (XI (XI (XI (XO (XI (XI (XI (XO (XI (XO (XI
    (XO (XO (XI (XI (XO (XI (XO (XI (XO (XO (XI (XI (XI (XI (XO (XO (XO (XO
    (XO (XI (XI (XO (XO (XO (XI (XO (XI (XI (XO (XO (XO (XI (XO (XI (XI (XO
    (XI (XI (XI (XO (XI (XI (XO
    XH)))))))))))))))))))))))))))))))))))))))))))))))))))))))))))))) :: ((Npos
    (XO (XI (XI (XO (XI (XO (XI (XO (XO (XO (XO (XI (XO (XO (XO (XO (XO (XI
    (XI (XI (XO (XI (XI (XO (XI (XO (XI (XI (XO (XO (XO (XO (XO (XO (XI (XO
    (XO (XI (XO (XI (XO (XI (XO (XO (XI (XI (XO (XO (XO (XO (XI (XO (XO (XO
    (XO (XO (XO (XO (XI (XO (XI
    XH)))))))))))))))))))))))))))))))))))))))))))))))))))))))))))))) :: ((Npos
    (XI (XO (XI (XI (XO (XO (XO (XO (XI (XI (XI (XI (XI (XI (XI (XI (XO (XI
    (XI (XI (XO (XO (XO (XO (XI (XI (XI (XO (XO (XO (XI (XI (XO (XO (XI (XO
    (XI (XI (XO (XO (XI (XO (XO (XI (XI (XO (XI (XI (XO (XO (XI (XI (XI (XO
    (XI (XI (XO (XI (XI (XI (XI (XO
    XH))))))))))))))))))))))))))))))))))))))))))))))))))))))))))))))) :: ((Npos
    (XI (XI (XO (XO (XO (XI (XO (XO (XO (XI (XO (XO (XO (XO (XO (XO (XO (XI
    (XI (XO (XO (XI (XI (XO (XI (XO (XI (XI (XI (XO (XO (XI (XI (XO (XO (XO
    (XI (XI (XO (XI (XI (XI (XI (XO (XI (XO (XO (XO (XI (XO (XO (XO (XO (XO
    (XO (XI (XO (XO (XO (XI (XI (XO
    XH))))))))))))))))))))))))))))))))))))))))))))))))))))))))))))))) :: ((Npos
    (XI (XO (XI (XO (XI (XO (XO (XO (XO (XI (XO (XO (XO (XI (XI (XO (XO (XO
    (XO (XO (XI (XI (XO (XO (XO (XO (XO (XO (XI (XO (XI (XO (XI (XI (XO (XO
    (XI (XO (XI (XO (XI (XO (XI (XO (XI (XO (XO (XI (XI (XO (XI (XO (XI (XO
    (XO (XO (XO (XO (XO (XO
    XH))))))))))))))))))))))))))))))))))))))))))))))))))))))))))))) :: ((Npos
    (XO (XI (XI (XO (XO (XO (XI (XO (XO (XO (XO (XO (XO (XI (XO (XI (XO (XI
    (XO (XI (XO (XI (XO (XI (XI (XI (XO (XO (XI (XO (XI (XO (XI (XO (XO (XO
    (XI (XI (XO (XO (XO (XI (XO (XI (XO (XO (XI (XO (XI (XI (XI (XI (XO (XI
    (XI (XI (XO (XO (XI (XI (XO (XI (XO
    XH)))))))))))))))))))))))))))))))))))))))))))))))))))))))))))))))) :: ((Npos
    (XO (XI (XI (XI (XO (XI (XO (XI (XO (XI (XI (XI (XO (XO (XO (XI (XI (XO
    (XO (XO (XI (XO (XI (XI (XO (XO (XI (XI (XI (XI (XO (XO (XO (XO (XI (XO
    (XI (XI (XI (XO (XI (XI (XI (XO (XI (XI (XO (XI (XI (XI (XI (XO (XO (XI
    (XI (XI (XO (XO (XO
    XH)))))))))))))))))))))))))))))))))))))))))))))))))))))))))))) :: ((Npos
    (XI (XO (XO (XO (XI (XI (XO (XO (XO (XO (XO (XO (XO (XI (XO (XI (XO (XI
    (XO (XI (XI (XI (XI (XI (XO (XO (XI (XO (XO (XO (XO (XI (XO (XO (XO (XO
    (XI (XO (XO (XO (XI (XI (XI (XO (XO (XO (XI (XO (XI (XO (XI (XO (XO (XI
    (XI (XO (XO (XI (XI (XO (XI (XO (XI
    XH)))))))))))))))))))))))))))))))))))))))))))))))))))))))))))))))) :: ((Npos
    (XI (XO (XI (XI (XI (XI (XI (XO (XO (XI (XO (XI (XO (XI (XI (XO (XI (XI
    (XI (XO (XO (XO (XO (XI (XI (XI (XO (XO (XO (XI (XI (XI (XO (XI (XO (XI
    (XI (XI (XO (XI (XO (XO (XO (XI (XI (XI (XI (XO (XI (XO (XO (XI (XI (XI
    (XO (XI (XI (XI (XO (XO (XO (XO (XI
    XH)))))))))))))))))))))))))))))))))))))))))))))))))))))))))))))))) :: ((Npos
    (XO (XI (XO (XO (XI (XO (XI (XI (XI (XI (XI (XI (XO (XO (XO (XO (XO (XI
    (XI (XO (XO (XO (XI (XI (XI (XI (XO (XI (XI (XI (XI (XI (XO (XO (XO (XI
    (XO (XI (XI (XI (XI (XI (XI (XI (XI (XI (XI (XO (XI (XI (XO (XI (XO (XO
    (XI (XO (XI (XI (XO (XO (XO
    XH)))))))))))))))))))))))))))))))))))))))))))))))))))))))))))))) :: ((Npos
    (XI (XI (XI (XI (XI (XO (XI (XI (XO (XI (XO (XI (XI (XI (XI (XO (XO (XO
    (XI (XI (XI (XO (XO (XI (XI (XO (XI (XI (XI (XI (XO (XO (XI (XI (XI (XO
    (XO (XO (XI (XO (XI (XI (XO (XI (XI (XI (XO (XO (XO (XO (XI (XO (XI (XI
    (XO (XO (XO (XO (XI (XO (XI (XO (XI
    XH)))))))))))))))))))))))))))))))))))))))))))))))))))))))))))))))) :: ((Npos
    (XO (XO (XO (XO (XO (XI (XO (XO (XO (XI (XO (XI (XI (XI (XI (XO (XO (XI
    (XO (XI (XI (XO (XO (XI (XI (XI (XI (XO (XO (XI (XI (XO (XI (XO (XI (XI
    (XO (XO (XI (XI (XI (XO (XO (XO (XI (XO (XI (XI (XI (XI (XO (XI (XI (XO
    (XI (XI (XO (XI (XI (XO (XI (XI (XO
    XH)))))))))))))))))))))))))))))))))))))))))))))))))))))))))))))))) :: ((Npos
    (XI (XI (XI (XO (XO (XI (XO (XI (XO (XI (XI (XO (XI (XO (XI (XI (XO (XI
    (XI (XI (XI (XI (XI (XI (XO (XI (XI (XI (XO (XI (XO (XI (XI (XI (XI (XO
    (XI (XI (XO (XI (XI (XO (XO (XI (XI (XO (XO (XO (XO (XI (XO (XI (XI (XI
    (XO (XO (XI (XO
    XH))))))))))))))))))))))))))))))))))))))))))))))))))))))))))) :: ((Npos
    (XO (XI (XO (XI (XO (XO (XI (XI (XI (XO (XO (XI (XI (XO (XO (XO (XI (XI
    (XO (XI (XI (XI (XO (XO (XO (XO (XO (XI (XO (XO (XO (XO (XI (XO (XI (XI
    (XO (XO (XI (XO (XI (XI (XI (XO (XI (XO (XO (XO (XI (XO (XO (XO (XO (XI
    (XO (XI (XO (XI (XO (XI (XI (XO (XO
    XH)))))))))))))))))))))))))))))))))))))))))))))))))))))))))))))))) :: ((Npos
    (XO (XI (XI (XO (XO (XI (XI (XI (XI (XO (XO (XI (XI (XI (XO (XI (XO (XI
    (XO (XO (XI (XO (XI (XO (XI (XI (XI (XO (XO (XI (XO (XI (XO (XO (XI (XI
    (XO (XO (XI (XI (XI (XI (XO (XO (XO (XO (XO (XI (XI (XI (XO (XI (XI (XO
    (XI (XI (XO (XO (XO (XO (XI (XO
    XH))))))))))))))))))))))))))))))))))))))))))))))))))))))))))))))) :: ((Npos
    (XO (XI (XO (XO (XI (XO (XO (XO (XI (XI (XI (XO (XO (XI (XO (XO (XO (XI
    (XO (XI (XI (XI (XI (XI (XI (XI (XO (XO (XI (XO (XO (XI (XI (XO (XO (XI
    (XI (XI (XI (XO (XI (XO (XI (XO (XO (XI (XO (XI (XO (XI (XI (XO (XO (XI
    (XO (XO (XI (XO (XI (XI (XI (XI (XO
    XH)))))))))))))))))))))))))))))))))))))))))))))))))))))))))))))))) :: ((Npos
    (XI (XO (XO (XI (XI (XO (XO (XO (XI (XI (XI (XI (XI (XI (XI (XO (XO (XO
    (XI (XO (XO (XO (XI (XI (XI (XO (XO (XI (XI (XO (XI (XI (XI (XO (XO (XO
    (XO (XO (XI (XI (XI (XO (XI (XI (XO (XI (XI (XO (XO (XO (XO (XI (XO (XO
    (XO (XO (XO (XI (XI (XO (XO (XI (XI
    XH)))))))))))))))))))))))))))))))))))))))))))))))))))))))))))))))) :: ((Npos
    (XO (XI (XO (XI (XO (XI (XI (XO (XI (XI (XI (XO (XI (XI (XI (XI (XO (XI
    (XI (XI (XI (XI (XO (XO (XO (XI (XI (XI (XI (XO (XO (XI (XI (XI (XO (XO
    (XO (XI (XI (XO (XO (XI (XO (XO (XI (XO (XO (XO (XO (XI (XI (XI (XI (XI
    (XI (XI (XO (XO (XO (XI (XO (XO (XI
    XH)))))))))))))))))))))))))))))))))))))))))))))))))))))))))))))))) :: ((Npos
    (XO (XI (XO (XI (XI (XO (XI (XI (XI (XI (XO (XO (XI (XO (XO (XO (XO (XO
    (XI (XI (XO (XO (XI (XI (XO (XO (XO (XI (XI (XI (XO (XO (XI (XO (XI (XI
    (XO (XO (XI (XO (XO (XI (XO (XO (XO (XO (XI (XO (XI (XI (XO (XO (XI (XO
    (XI (XI (XI (XO (XO (XI (XI (XO
    XH))))))))))))))))))))))))))))))))))))))))))))))))))))))))))))))) :: ((Npos
    (XO (XI (XI (XI (XI (XI (XI (XO (XO (XO (XI (XI (XI (XO (XI (XI (XI (XO
    (XO (XI (XI (XO (XI (XO (XO (XO (XO (XI (XI (XI (XO (XI (XO (XI (XI (XO
    (XI (XO (XI (XI (XI (XI (XO (XI (XI (XO (XO (XO (XO (XI (XO (XO (XO (XI
    (XO (XO (XO (XI (XO (XO (XO (XI (XO
    XH)))))))))))))))))))))))))))))))))))))))))))))))))))))))))))))))) :: ((Npos
    (XI (XO (XO (XO (XO (XO (XO (XI (XO (XI (XI (XO (XI (XI (XO (XI (XI (XO
    (XO (XO (XO (XO (XO (XI (XO (XO (XO (XO (XO (XI (XO (XI (XO (XO (XI (XO
    (XO (XO (XO (XI (XI (XI (XO (XO (XO (XI (XO (XO (XI (XO (XI (XO (XI (XO
    (XO (XI (XO (XO (XI (XO (XO (XO (XI
    XH)))))))))))))))))))))))))))))))))))))))))))))))))))))))))))))))) :: ((Npos
    (XI (XI (XO (XI (XO (XI (XO (XO (XI (XO (XI (XO (XO (XO (XO (XI (XO (XO
    (XO (XI (XO (XI (XO (XI (XI (XI (XI (XO (XO (XI (XI (XI (XI (XO (XO (XI
    (XO (XO (XI (XO (XI (XO (XI (XI (XI (XI (XI (XI (XI (XI (XO (XI (XI (XI
    (XI (XO (XI (XI (XO (XO (XO
    XH)))))))))))))))))))))))))))))))))))))))))))))))))))))))))))))) :: ((Npos
    (XI (XI (XI (XO (XO (XO (XI (XI (XO (XO (XO (XI (XO (XO (XI (XI (XI (XI
    (XO (XO (XI (XO (XO (XO (XO (XO (XI (XI (XI (XI (XO (XI (XO (XI (XO (XI
    (XO (XO (XO (XO (XO (XO (XI (XI (XO (XI (XI (XO (XO (XI (XI (XI (XO (XO
    (XI (XO (XO (XO (XI (XI (XO (XO
    XH))))))))))))))))))))))))))))))))))))))))))))))))))))))))))))))) :: ((Npos
    (XO (XI (XI (XO (XI (XO (XI (XO (XI (XO (XO (XO (XI (XO (XO (XO (XO (XI
    (XO (XI (XO (XI (XO (XO (XO (XI (XI (XO (XO (XO (XO (XI (XO (XI (XO (XI
    (XI (XI (XO (XO (XO (XO (XO (XI (XO (XI (XO (XI (XO (XI (XO (XO (XO (XO
    (XO (XO (XO (XI (XI (XI (XI (XI (XI
    XH)))))))))))))))))))))))))))))))))))))))))))))))))))))))))))))))) :: ((Npos
    (XI (XI (XI (XO (XI (XO (XI (XI (XI (XI (XO (XI (XO (XO (XI (XO (XI (XI
    (XO (XI (XO (XI (XI (XO (XI (XI (XO (XI (XO (XO (XI (XI (XO (XI (XO (XO
    (XO (XO (XI (XI (XI (XI (XO (XI (XI (XI (XI (XI (XO (XI (XI (XO (XI (XI
    (XO (XI (XO (XI (XI (XO
    XH))))))))))))))))))))))))))))))))))))))))))))))))))))))))))))) :: ((Npos
    (XI (XO (XO (XO (XI (XO (XI (XI (XI (XO (XO (XI (XO (XO (XI (XO (XO (XO
    (XI (XI (XO (XI (XI (XO (XI (XO (XO (XI (XI (XI (XO (XO (XO (XI (XI (XO
    (XI (XI (XO (XO (XO (XI (XI (XI (XO (XI (XI (XI (XO (XI (XO (XO (XI (XI
    (XO (XI (XO (XO (XI (XO (XO
    XH)))))))))))))))))))))))))))))))))))))))))))))))))))))))))))))) :: ((Npos
    (XO (XO (XI (XO (XI (XO (XO (XO (XO (XI (XO (XI (XO (XI (XI (XO (XO (XI
    (XO (XO (XO (XI (XO (XI (XI (XI (XI (XO (XO (XO (XI (XO (XI (XO (XI (XI
    (XO (XI (XI (XO (XI (XO (XO (XO (XO (XI (XI (XO (XI (XI (XO (XO (XO (XI
    (XO (XI (XI (XI (XI (XO (XI (XO
    XH))))))))))))))))))))))))))))))))))))))))))))))))))))))))))))))) :: ((Npos
    (XI (XI (XO (XO (XI (XO (XO (XO (XO (XI (XI (XO (XO (XO (XI (XI (XO (XI
    (XO (XO (XO (XI (XO (XI (XI (XI (XO (XI (XI (XI (XI (XI (XO (XI (XI (XI
    (XI (XI (XO (XI (XI (XI (XO (XO (XO (XI (XI (XI (XI (XO (XO (XO (XO (XI
    (XO (XI (XI (XO (XI (XO (XI (XO (XI
    XH)))))))))))))))))))))))))))))))))))))))))))))))))))))))))))))))) :: ((Npos
    (XI (XO (XO (XI (XI (XI (XO (XI (XO (XO (XI (XO (XO (XI (XI (XI (XO (XI
    (XO (XO (XO (XI (XI (XO (XO (XI (XO (XI (XI (XO (XO (XO (XI (XO (XO (XO
    (XO (XI (XO (XI (XI (XI (XO (XI (XO (XO (XI (XO (XI (XO (XO (XO (XO (XO
    (XI (XO (XI (XI (XI (XI (XO (XI
    XH))))))))))))))))))))))))))))))))))))))))))))))))))))))))))))))) :: ((Npos
    (XI (XI (XO (XO (XO (XO (XO (XI (XO (XI (XI (XI (XO (XO (XO (XO (XI (XO
    (XI (XI (XO (XO (XI (XO (XO (XI (XO (XO (XI (XI (XI (XO (XI (XO (XO (XI
    (XI (XI (XO (XI (XI (XO (XI (XI (XO (XI (XO (XI (XO (XI (XO (XO (XI (XO
    (XO (XI (XO (XO (XI (XI (XO (XO (XI
    XH)))))))))))))))))))))))))))))))))))))))))))))))))))))))))))))))) :: ((Npos
    (XO (XO (XO (XI (XO (XI (XI (XO (XI (XO (XO (XO (XO (XO (XI (XO (XI (XI
    (XO (XI (XI (XI (XI (XI (XI (XO (XO (XO (XO (XI (XO (XO (XO (XI (XI (XI
    (XI (XI (XO (XO (XI (XI (XI (XO (XI (XI (XO (XI (XI (XI (XO (XI (XI (XI
    (XI (XI (XI (XI (XO (XI
    XH))))))))))))))))))))))))))))))))))))))))))))))))))))))))))))) :: ((Npos
    (XO (XI (XO (XI (XI (XO (XO (XO (XO (XI (XO (XI (XI (XO (XI (XO (XO (XO
    (XI (XI (XO (XI (XI (XO (XI (XI (XO (XO (XI (XO (XO (XI (XO (XO (XO (XI
    (XI (XO (XO (XI (XI (XO (XO (XO (XI (XO (XO (XI (XI (XI (XI (XO (XO (XI
    (XO (XI (XO (XO (XO (XI (XO (XI (XO
    XH)))))))))))))))))))))))))))))))))))))))))))))))))))))))))))))))) :: ((Npos
    (XI (XI (XI (XI (XI (XO (XO (XO (XI (XI (XI (XI (XO (XO (XI (XI (XO (XI
    (XI (XO (XO (XO (XI (XI (XI (XI (XI (XI (XI (XO (XI (XI (XO (XI (XI (XI
    (XI (XI (XI (XI (XO (XO (XI (XI (XI (XO (XI (XI (XI (XO (XI (XO (XI (XI
    (XI (XO (XO (XI (XI (XI (XO (XI (XO
    XH)))))))))))))))))))))))))))))))))))))))))))))))))))))))))))))))) :: ((Npos
    (XI (XO (XO (XI (XO (XI (XO (XO (XI (XI (XI (XO (XI (XI (XO (XI (XI (XO
    (XI (XO (XO (XI (XI (XO (XI (XI (XI (XO (XO (XO (XO (XO (XI (XI (XI (XO
    (XO (XI (XO (XI (XO (XI (XO (XO (XI (XO (XO (XI (XO (XI (XO (XI (XI (XO
    (XO (XO (XI (XI (XO (XO (XO (XI
    XH))))))))))))))))))))))))))))))))))))))))))))))))))))))))))))))) :: ((Npos
    (XI (XO (XO (XO (XO (XI (XI (XO (XO (XO (XO (XO (XO (XO (XO (XI (XI (XI
    (XO (XO (XI (XI (XI (XO (XO (XI (XI (XI (XI (XI (XI (XI (XI (XI (XI (XI
    (XO (XO (XO (XI (XO (XO (XO (XI (XO (XI (XI (XO (XO (XI (XO (XI (XI (XI
    (XO (XI (XI (XO (XI (XO (XI (XO
    XH))))))))))))))))))))))))))))))))))))))))))))))))))))))))))))))) :: ((Npos
    (XO (XO (XO (XI (XI (XO (XO (XI (XO (XI (XO (XO (XO (XO (XI (XI (XO (XI
    (XO (XO (XO (XO (XI (XI (XI (XI (XO (XI (XI (XI (XO (XI (XI (XI (XO (XO
    (XI (XI (XO (XO (XO (XI (XO (XO (XI (XO (XI (XI (XO (XO (XI (XO (XO (XO
    (XI (XO (XI (XI (XO (XO (XO (XI (XO
    XH)))))))))))))))))))))))))))))))))))))))))))))))))))))))))))))))) :: ((Npos
    (XO (XO (XO (XI (XO (XI (XI (XI (XI (XO (XI (XI (XI (XI (XI (XO (XO (XI
    (XO (XO (XI (XI (XO (XI (XI (XI (XO (XO (XO (XI (XI (XI (XI (XO (XO (XI
    (XO (XO (XI (XO (XI (XI (XI (XO (XI (XO (XO (XI (XI (XI (XO (XO (XO (XI
    (XI (XI (XO (XO (XI (XO (XO (XO (XO
    XH)))))))))))))))))))))))))))))))))))))))))))))))))))))))))))))))) :: ((Npos
    (XO (XO (XI (XI (XI (XO (XI (XO (XO (XI (XI (XO (XO (XI (XI (XI (XI (XO
    (XI (XI (XI (XI (XO (XO (XO (XI (XI (XO (XI (XI (XI (XI (XO (XI (XO (XO
    (XO (XO (XO (XI (XO (XI (XO (XI (XO (XI (XO (XI (XI (XI (XI (XO (XO (XO
    (XO (XO (XI (XO (XI (XI (XO (XO (XO
    XH)))))))))))))))))))))))))))))))))))))))))))))))))))))))))))))))) :: ((Npos
    (XO (XI (XI (XI (XO (XO (XO (XO (XO (XO (XO (XI (XO (XI (XI (XI (XI (XO
    (XO (XI (XO (XO (XI (XI (XO (XO (XI (XO (XI (XO (XO (XI (XI (XI (XO (XI
    (XI (XI (XO (XI (XI (XI (XO (XI (XI (XI (XO (XO (XO (XI (XO (XI (XO (XI
    (XO (XO (XI (XO (XI (XI (XO (XO (XI
    XH)))))))))))))))))))))))))))))))))))))))))))))))))))))))))))))))) :: ((Npos
    (XO (XI (XI (XI (XO (XO (XO (XI (XO (XO (XO (XI (XI (XO (XI (XI (XI (XO
    (XO (XI (XO (XI (XO (XI (XO (XO (XO (XI (XI (XO (XO (XI (XO (XI (XO (XI
    (XO (XO (XI (XI (XO (XI (XI (XI (XO (XO (XO (XO (XI (XO (XI (XI (XI (XI
    (XI (XO (XO (XO (XI (XI (XO (XO (XI
    XH)))))))))))))))))))))))))))))))))))))))))))))))))))))))))))))))) :: ((Npos
    (XI (XI (XO (XO (XI (XO (XI (XI (XO (XO (XI (XI (XO (XI (XI (XO (XO (XI
    (XO (XO (XI (XI (XO (XO (XI (XI (XO (XO (XO (XO (XI (XI (XI (XO (XO (XO
    (XI (XO (XI (XI (XO (XI (XI (XO (XI (XO (XO (XI (XI (XI (XI (XI (XO (XO
    (XI (XO (XO (XI (XI (XO (XI
    XH)))))))))))))))))))))))))))))))))))))))))))))))))))))))))))))) :: ((Npos
    (XI (XO (XI (XI (XI (XI (XI (XI (XO (XI (XI (XI (XO (XI (XO (XO (XO (XO
    (XO (XI (XO (XI (XI (XO (XI (XI (XI (XI (XO (XO (XI (XI (XO (XI (XI (XI
    (XO (XO (XO (XO (XI (XO (XO (XO (XI (XI (XO (XI (XO (XO (XO (XI (XI (XI
    (XO (XI (XI (XI (XO (XI (XO
    XH)))))))))))))))))))))))))))))))))))))))))))))))))))))))))))))) :: ((Npos
    (XO (XI (XI (XO (XI (XO (XI (XI (XI (XI (XI (XI (XO (XI (XI (XO (XI (XI
    (XO (XO (XO (XI (XI (XI (XI (XI (XO (XI (XI (XI (XI (XO (XI (XI (XO (XO
    (XO (XI (XI (XI (XO (XI (XI (XO (XO (XI (XO (XI (XO (XI (XI (XO (XO (XI
    (XO (XO (XO (XO (XO (XI (XO (XI
    XH))))))))))))))))))))))))))))))))))))))))))))))))))))))))))))))) :: ((Npos
    (XI (XI (XO (XI (XO (XO (XI (XI (XI (XI (XI (XO (XI (XO (XO (XI (XI (XI
    (XO (XO (XO (XO (XI (XI (XI (XI (XI (XI (XI (XI (XI (XI (XI (XI (XO (XI
    (XO (XO (XI (XO (XO (XI (XO (XI (XI (XO (XI (XI (XI (XO (XI (XO (XO (XO
    (XO (XI (XI (XI (XI (XI (XO (XO (XO
    XH)))))))))))))))))))))))))))))))))))))))))))))))))))))))))))))))) :: ((Npos
    (XI (XO (XI (XI (XI (XO (XO (XO (XI (XI (XI (XO (XO (XI (XO (XO (XO (XO
    (XI (XI (XO (XI (XI (XI (XO (XO (XO (XI (XO (XO (XI (XI (XI (XI (XI (XI
    (XI (XI (XO (XI (XI (XI (XO (XO (XI (XO (XO (XO (XI (XO (XO (XI (XI (XI
    (XI (XO (XO (XO (XO (XI (XO
    XH)))))))))))))))))))))))))))))))))))))))))))))))))))))))))))))) :: ((Npos
    (XI (XI (XO (XI (XO (XI (XO (XI (XI (XI (XO (XO (XI (XO (XI (XO (XO (XO
    (XI (XI (XI (XI (XI (XO (XO (XI (XI (XO (XI (XO (XI (XO (XI (XO (XI (XI
    (XI (XO (XO (XO (XO (XI (XO (XO (XI (XI (XI (XO (XO (XO (XO (XO (XI (XI
    (XO (XO (XI (XI (XI (XI (XI
    XH)))))))))))))))))))))))))))))))))))))))))))))))))))))))))))))) :: ((Npos
    (XO (XO (XI (XI (XO (XO (XO (XO (XO (XI (XO (XO (XO (XI (XI (XI (XO (XI
    (XI (XI (XO (XI (XI (XO (XO (XI (XO (XO (XI (XO (XI (XO (XI (XO (XO (XO
    (XO (XO (XI (XI (XI (XI (XO (XI (XO (XO (XO (XO (XO (XO (XI (XO (XO (XI
    (XO (XI (XI (XI (XI (XO (XO (XI
    XH))))))))))))))))))))))))))))))))))))))))))))))))))))))))))))))) :: ((Npos
    (XI (XO (XI (XI (XI (XO (XI (XI (XI (XO (XI (XI (XI (XI (XO (XI (XI (XI
    (XI (XI (XO (XI (XI (XI (XO (XI (XI (XI (XI (XI (XO (XO (XI (XO (XO (XO
    (XI (XI (XI (XI (XO (XO (XO (XI (XO (XO (XI (XO (XI (XO (XO (XO (XO (XI
    (XO (XO (XI (XO (XO (XI (XI (XO
    XH))))))))))))))))))))))))))))))))))))))))))))))))))))))))))))))) :: ((Npos
    (XI (XI (XI (XI (XI (XO (XO (XI (XI (XO (XI (XI (XI (XO (XI (XO (XO (XI
    (XI (XO (XO (XI (XI (XO (XI (XI (XO (XO (XI (XO (XO (XO (XO (XI (XI (XO
    (XI (XI (XO (XI (XO (XI (XO (XI (XI (XI (XI (XO (XO (XO (XI (XO (XI (XO
    (XI (XO (XI (XI (XO (XI (XI (XO
    XH))))))))))))))))))))))))))))))))))))))))))))))))))))))))))))))) :: ((Npos
    (XI (XO (XO (XO (XO (XI (XO (XO (XO (XI (XO (XO (XI (XI (XO (XO (XO (XO
    (XO (XI (XI (XO (XO (XO (XO (XO (XI (XI (XI (XI (XO (XO (XO (XO (XO (XI
    (XI (XI (XO (XO (XI (XO (XO (XI (XO (XO (XO (XO (XO (XI (XO (XO (XO (XO
    (XI (XO (XO (XO (XI (XI
    XH))))))))))))))))))))))))))))))))))))))))))))))))))))))))))))) :: ((Npos
    (XO (XO (XO (XO (XI (XI (XO (XO (XO (XO (XO (XO (XO (XO (XO (XI (XI (XO
    (XO (XO (XO (XO (XI (XI (XI (XI (XO (XI (XI (XI (XO (XO (XI (XO (XO (XI
    (XI (XI (XI (XI (XI (XO (XO (XO (XO (XO (XI (XO (XI (XI (XO (XO (XI (XO
    (XI (XO (XI (XI (XI (XO (XO (XI (XI
    XH)))))))))))))))))))))))))))))))))))))))))))))))))))))))))))))))) :: ((Npos
    (XI (XI (XO (XI (XI (XO (XI (XI (XI (XO (XO (XO (XI (XO (XO (XI (XO (XI
    (XO (XO (XI (XI (XI (XI (XI (XI (XO (XI (XO (XO (XO (XI (XI (XI (XO (XI
    (XI (XO (XO (XI (XO (XO (XO (XO (XI (XI (XO (XI (XO (XI (XI (XO (XO (XO
    (XI (XO (XO (XI (XO (XO (XI (XI
    XH))))))))))))))))))))))))))))))))))))))))))))))))))))))))))))))) :: ((Npos
    (XI (XO (XI (XO (XI (XI (XO (XI (XO (XI (XI (XI (XI (XO (XI (XO (XO (XO
    (XO (XI (XI (XI (XO (XO (XI (XO (XO (XI (XO (XO (XI (XI (XO (XI (XO (XO
    (XO (XO (XI (XI (XI (XI (XO (XI (XO (XI (XO (XO (XI (XI (XO (XI (XO (XO
    (XI (XO (XI (XO (XO (XO (XO (XO (XO
    XH)))))))))))))))))))))))))))))))))))))))))))))))))))))))))))))))) :: ((Npos
    (XO (XI (XO (XO (XO (XI (XO (XI (XO (XO (XI (XI (XO (XI (XO (XO (XI (XO
    (XI (XI (XO (XO (XO (XO (XI (XO (XI (XO (XI (XI (XO (XI (XI (XO (XI (XO
    (XO (XI (XI (XI (XI (XI (XO (XI (XO (XI (XI (XI (XO (XI (XO (XI (XO (XO
    (XO (XO (XI (XI (XO (XI (XO (XO (XI
    XH)))))))))))))))))))))))))))))))))))))))))))))))))))))))))))))))) :: ((Npos
    (XO (XO (XI (XI (XI (XO (XO (XI (XO (XI (XI (XO (XO (XO (XO (XO (XI (XI
    (XI (XO (XI (XI (XO (XO (XI (XI (XI (XI (XO (XI (XO (XO (XO (XI (XI (XI
    (XO (XO (XO (XO (XI (XI (XO (XO (XO (XO (XI (XI (XI (XI (XO (XI (XI (XI
    (XO (XO (XO (XO (XO (XI (XI
    XH)))))))))))))))))))))))))))))))))))))))))))))))))))))))))))))) :: ((Npos
    (XI (XI (XO (XO (XO (XO (XI (XO (XO (XI (XO (XI (XO (XO (XI (XI (XO (XI
    (XO (XI (XO (XO (XI (XO (XO (XO (XO (XO (XO (XI (XO (XO (XI (XO (XO (XO
    (XO (XO (XO (XI (XO (XI (XO (XI (XI (XI (XO (XO (XO (XI (XO (XO (XI (XI
    (XO (XI (XI (XI (XO (XI
    XH))))))))))))))))))))))))))))))))))))))))))))))))))))))))))))) :: ((Npos
    (XI (XO (XO (XI (XI (XO (XO (XO (XI (XO (XO (XO (XO (XO (XI (XO (XI (XI
    (XO (XO (XO (XO (XI (XI (XI (XO (XO (XI (XI (XO (XO (XO (XO (XO (XI (XO
    (XO (XO (XI (XI (XI (XI (XI (XI (XO (XI (XI (XO (XO (XO (XO (XO (XO (XI
    (XO (XO (XO (XO (XO (XI (XI
    XH)))))))))))))))))))))))))))))))))))))))))))))))))))))))))))))) :: ((Npos
    (XO (XO (XO (XO (XI (XO (XI (XI (XO (XO (XI (XO (XO (XI (XO (XI (XI (XI
    (XO (XO (XI (XI (XO (XO (XI (XO (XI (XI (XO (XO (XO (XI (XO (XI (XO (XI
    (XO (XI (XI (XO (XI (XI (XI (XI (XO (XI (XO (XI (XO (XI (XO (XI (XI (XO
    (XI (XO (XI (XI (XO (XO (XO (XO (XO
    XH)))))))))))))))))))))))))))))))))))))))))))))))))))))))))))))))) :: ((Npos
    (XO (XO (XO (XI (XI (XO (XI (XI (XO (XO (XI (XO (XO (XO (XO (XO (XO (XO
    (XO (XO (XO (XO (XO (XO (XO (XO (XO (XO (XO (XI (XI (XO (XI (XI (XI (XO
    (XI (XO (XI (XI (XO (XI (XI (XI (XO (XO (XO (XO (XO (XI (XO (XI (XO (XO
    (XO (XI (XI (XI (XI (XI (XI (XI (XI
    XH)))))))))))))))))))))))))))))))))))))))))))))))))))))))))))))))) :: ((Npos
    (XI (XI (XI (XI (XI (XO (XI (XI (XO (XI (XI (XO (XO (XO (XI (XI (XI (XI
    (XI (XO (XI (XO (XI (XI (XI (XI (XI (XO (XO (XI (XI (XI (XO (XO (XO (XO
    (XI (XI (XO (XI (XI (XO (XI (XO (XO (XO (XO (XO (XO (XI (XO (XI (XO (XO
    (XI (XO (XI (XO (XI (XO (XO (XO (XI
    XH)))))))))))))))))))))))))))))))))))))))))))))))))))))))))))))))) :: ((Npos
    (XO (XO (XI (XO (XO (XI (XI (XO (XI (XI (XO (XO (XO (XI (XO (XI (XO (XI
    (XI (XI (XO (XI (XO (XO (XO (XO (XO (XI (XO (XO (XI (XI (XI (XO (XI (XI
    (XI (XI (XI (XI (XI (XO (XI (XI (XI (XI (XO (XO (XO (XO (XI (XI (XO (XI
    (XI (XO (XI
    XH)))))))))))))))))))))))))))))))))))))))))))))))))))))))))) :: ((Npos
    (XO (XO (XO (XO (XI (XI (XO (XO (XI (XO (XO (XI (XO (XO (XO (XI (XO (XI
    (XI (XI (XO (XO (XI (XO (XI (XI (XI (XI (XI (XI (XO (XO (XO (XO (XI (XI
    (XO (XO (XI (XO (XO (XO (XI (XO (XO (XI (XO (XI (XI (XI (XI (XO (XO (XI
    (XI (XO (XI (XO (XO (XI (XO (XO
    XH))))))))))))))))))))))))))))))))))))))))))))))))))))))))))))))) :: ((Npos
    (XI (XO (XI (XO (XI (XI (XO (XO (XI (XI (XI (XI (XO (XI (XO (XI (XO (XI
    (XI (XO (XO (XO (XO (XO (XO (XO (XO (XI (XO (XI (XO (XI (XO (XI (XI (XI
    (XI (XO (XO (XI (XI (XI (XI (XI (XI (XI (XI (XO (XI (XI (XO (XI (XO (XO
    (XO (XO (XO (XI (XO (XO (XI (XI (XO
    XH)))))))))))))))))))))))))))))))))))))))))))))))))))))))))))))))) :: ((Npos
    (XI (XI (XO (XO (XO (XO (XO (XO (XI (XO (XO (XO (XI (XO (XI (XI (XO (XO
    (XO (XO (XI (XI (XI (XI (XI (XO (XI (XI (XI (XI (XI (XO (XI (XI (XO (XI
    (XI (XI (XI (XO (XO (XO (XO (XI (XI (XI (XI (XO (XI (XO (XO (XO (XO (XO
    (XO (XO (XI (XO (XI (XI (XO (XI (XI
    XH)))))))))))))))))))))))))))))))))))))))))))))))))))))))))))))))) :: ((Npos
    (XO (XO (XI (XI (XO (XI (XO (XO (XO (XI (XI (XI (XI (XI (XI (XO (XO (XO
    (XO (XO (XI (XI (XI (XO (XI (XO (XO (XI (XI (XI (XO (XO (XI (XO (XI (XI
    (XO (XI (XO (XI (XO (XO (XI (XO (XI (XO (XO (XI (XO (XO (XI (XI (XI (XO
    (XO (XI (XI (XO (XI (XO (XI (XI (XI
    XH)))))))))))))))))))))))))))))))))))))))))))))))))))))))))))))))) :: ((Npos
    (XI (XO (XI (XO (XO (XO (XO (XI (XI (XO (XI (XI (XI (XI (XI (XO (XO (XO
    (XO (XI (XO (XO (XO (XO (XI (XO (XO (XI (XI (XI (XO (XO (XO (XO (XI (XO
    (XO (XI (XO (XO (XI (XI (XI (XI (XI (XO (XO (XI (XO (XO (XI (XI (XO (XO
    (XI (XO (XI (XI (XO (XI (XO (XI (XO
    XH)))))))))))))))))))))))))))))))))))))))))))))))))))))))))))))))) :: ((Npos
    (XO (XO (XI (XO (XO (XO (XI (XO (XI (XO (XI (XO (XO (XI (XO (XO (XI (XI
    (XO (XO (XI (XO (XI (XI (XI (XI (XI (XO (XI (XO (XI (XI (XI (XO (XI (XI
    (XI (XO (XI (XI (XI (XI (XO (XO (XO (XI (XO (XO (XO (XO (XO (XO (XI (XI
    (XO (XI (XI (XI (XI (XO (XI (XO (XO
    XH)))))))))))))))))))))))))))))))))))))))))))))))))))))))))))))))) :: ((Npos
    (XO (XO (XO (XI (XI (XI (XO (XI (XO (XI (XI (XO (XO (XI (XO (XI (XO (XO
    (XI (XO (XI (XO (XO (XO (XO (XI (XI (XI (XI (XO (XI (XI (XO (XI (XI (XI
    (XI (XI (XI (XI (XO (XO (XI (XI (XI (XO (XI (XI (XI (XO (XI (XI (XI (XO
    (XO (XI (XO (XI (XO (XI (XO (XI (XI
    XH)))))))))))))))))))))))))))))))))))))))))))))))))))))))))))))))) :: ((Npos
    (XI (XI (XI (XO (XI (XI (XI (XI (XI (XI (XO (XO (XO (XI (XI (XI (XI (XI
    (XI (XO (XI (XI (XI (XO (XI (XI (XO (XO (XI (XI (XI (XO (XO (XO (XO (XO
    (XI (XO (XO (XI (XI (XO (XI (XI (XI (XO (XI (XO (XO (XI (XI (XO (XO (XO
    (XI (XI (XI (XI (XO (XI (XO (XI
    XH))))))))))))))))))))))))))))))))))))))))))))))))))))))))))))))) :: ((Npos
    (XI (XO (XO (XO (XO (XO (XO (XI (XI (XI (XI (XI (XO (XO (XO (XI (XI (XO
    (XO (XO (XO (XO (XO (XI (XI (XI (XI (XO (XI (XI (XI (XI (XO (XO (XI (XI
    (XI (XI (XO (XI (XO (XI (XO (XO (XI (XO (XO (XO (XI (XO (XO (XI (XI (XI
    (XO (XI (XI (XI (XO (XI (XI
    XH)))))))))))))))))))))))))))))))))))))))))))))))))))))))))))))) :: ((Npos
    (XI (XO (XO (XO (XO (XO (XO (XO (XO (XI (XO (XO (XI (XI (XI (XO (XI (XO
    (XI (XI (XI (XO (XI (XO (XI (XO (XO (XO (XO (XO (XI (XI (XI (XO (XO (XI
    (XI (XO (XO (XI (XO (XI (XI (XI (XI (XO (XI (XO (XI (XO (XI (XI (XO (XI
    (XO (XO (XI (XO (XI (XO (XO (XI (XI
    XH)))))))))))))))))))))))))))))))))))))))))))))))))))))))))))))))) :: ((Npos
    (XI (XO (XO (XO (XI (XI (XO (XI (XI (XO (XI (XO (XO (XI (XI (XI (XI (XO
    (XI (XO (XI (XI (XO (XI (XI (XO (XI (XO (XO (XO (XO (XI (XI (XI (XO (XI
    (XO (XO (XI (XO (XO (XO (XO (XO (XI (XO (XO (XI (XI (XI (XO (XO (XO (XI
    (XI (XI (XO (XO (XO (XO (XI (XO (XI
    XH)))))))))))))))))))))))))))))))))))))))))))))))))))))))))))))))) :: ((Npos
    (XI (XI (XI (XO (XO (XI (XO (XO (XI (XO (XI (XI (XI (XO (XI (XO (XI (XI
    (XI (XI (XO (XI (XO (XI (XI (XI (XO (XO (XO (XI (XI (XI (XO (XI (XO (XI
    (XI (XO (XI (XI (XO (XO (XI (XI (XO (XO (XI (XI (XO (XI (XI (XO (XI (XO
    (XO (XI (XO (XO (XO (XI (XO (XI (XI
    XH)))))))))))))))))))))))))))))))))))))))))))))))))))))))))))))))) :: ((Npos
    (XO (XI (XI (XO (XI (XO (XO (XO (XI (XI (XI (XO (XO (XI (XO (XI (XO (XO
    (XI (XO (XI (XI (XI (XI (XI (XI (XO (XI (XI (XO (XO (XI (XO (XI (XO (XO
    (XO (XO (XI (XI (XO (XO (XI (XI (XO (XI (XI (XI (XO (XI (XO (XO (XI (XO
    (XI (XO (XI (XO (XI (XO
    XH))))))))))))))))))))))))))))))))))))))))))))))))))))))))))))) :: ((Npos
    (XI (XI (XO (XO (XO (XO (XO (XI (XO (XI (XO (XO (XI (XI (XO (XI (XI (XO
    (XI (XI (XO (XI (XI (XI (XI (XO (XO (XO (XI (XO (XI (XI (XI (XI (XO (XI
    (XI (XO (XO (XO (XI (XO (XI (XO (XI (XI (XO (XO (XO (XI (XI (XO (XO (XO
    (XI (XI (XI (XI (XI (XI (XI (XI (XO
    XH)))))))))))))))))))))))))))))))))))))))))))))))))))))))))))))))) :: ((Npos
    (XI (XO (XO (XI (XI (XI (XO (XO (XO (XO (XO (XI (XO (XI (XO (XI (XI (XI
    (XO (XO (XI (XO (XI (XI (XO (XO (XI (XO (XO (XI (XI (XI (XI (XO (XI (XO
    (XI (XI (XO (XO (XO (XO (XO (XI (XI (XI (XO (XI (XO (XI (XI (XI (XI (XO
    (XO (XI (XI (XI (XI (XO (XI (XO (XI
    XH)))))))))))))))))))))))))))))))))))))))))))))))))))))))))))))))) :: ((Npos
    (XI (XI (XO (XO (XI (XI (XI (XI (XO (XI (XO (XO (XO (XO (XO (XI (XO (XI
    (XI (XO (XI (XI (XO (XO (XI (XO (XI (XI (XO (XI (XI (XI (XI (XO (XI (XO
    (XI (XI (XO (XI (XI (XI (XI (XO (XI (XI (XI (XO (XI (XI (XI (XO (XO (XI
    (XI (XO (XI (XI (XO (XI (XO (XI
    XH))))))))))))))))))))))))))))))))))))))))))))))))))))))))))))))) :: ((Npos
    (XO (XO (XO (XO (XI (XO (XI (XI (XO (XO (XO (XI (XO (XI (XO (XI (XO (XO
    (XI (XI (XI (XI (XI (XO (XI (XO (XI (XO (XO (XI (XO (XI (XO (XO (XI (XO
    (XI (XO (XI (XI (XI (XO (XI (XO (XO (XO (XO (XO (XO (XI (XI (XI (XO (XO
    (XO (XI (XI (XO (XI (XI (XO (XI (XO
    XH)))))))))))))))))))))))))))))))))))))))))))))))))))))))))))))))) :: ((Npos
    (XI (XI (XI (XO (XO (XI (XI (XI (XO (XI (XI (XI (XO (XO (XI (XO (XO (XO
    (XO (XO (XI (XO (XO (XO (XI (XO (XI (XI (XO (XO (XI (XI (XI (XO (XI (XI
    (XO (XO (XI (XO (XI (XI (XI (XI (XO (XI (XI (XI (XO (XO (XO (XO (XO (XI
    (XI (XO (XO (XO (XO (XI (XI (XO (XI
    XH)))))))))))))))))))))))))))))))))))))))))))))))))))))))))))))))) :: ((Npos
    (XI (XI (XI (XO (XI (XO (XI (XO (XO (XO (XI (XI (XO (XI (XO (XO (XO (XO
    (XO (XI (XI (XO (XI (XI (XO (XI (XI (XO (XI (XO (XI (XI (XO (XI (XI (XO
    (XI (XI (XO (XO (XO (XO (XI (XO (XO (XO (XO (XI (XO (XO (XI (XO (XO (XO
    (XI (XI (XI (XO (XO (XO (XO (XO (XI
    XH)))))))))))))))))))))))))))))))))))))))))))))))))))))))))))))))) :: ((Npos
    (XO (XI (XO (XI (XI (XI (XO (XI (XI (XI (XI (XO (XI (XI (XO (XO (XO (XI
    (XI (XO (XI (XO (XI (XI (XO (XO (XO (XO (XO (XI (XI (XO (XI (XO (XO (XO
    (XO (XO (XO (XO (XI (XI (XI (XO (XO (XI (XO (XI (XI (XO (XI (XO (XI (XI
    (XI (XO (XI (XO (XI
    XH)))))))))))))))))))))))))))))))))))))))))))))))))))))))))))) :: ((Npos
    (XO (XO (XI (XI (XI (XO (XO (XO (XO (XO (XI (XI (XI (XI (XI (XO (XO (XI
    (XI (XI (XO (XO (XI (XO (XO (XI (XI (XO (XI (XO (XO (XI (XO (XO (XO (XI
    (XO (XO (XO (XO (XI (XI (XO (XO (XI (XO (XI (XO (XO (XO (XO (XO (XI (XO
    (XI (XO (XI (XI (XO (XO (XO (XI (XO
    XH)))))))))))))))))))))))))))))))))))))))))))))))))))))))))))))))) :: ((Npos
    (XI (XO (XO (XI (XI (XO (XI (XI (XI (XI (XO (XI (XO (XI (XO (XO (XI (XO
    (XO (XO (XO (XO (XO (XO (XO (XI (XI (XI (XI (XO (XO (XO (XO (XO (XI (XI
    (XI (XO (XI (XI (XI (XO (XI (XI (XI (XI (XI (XO (XI (XI (XO (XO (XI (XI
    (XO (XI (XI (XO (XI (XI (XI (XI (XI
    XH)))))))))))))))))))))))))))))))))))))))))))))))))))))))))))))))) :: ((Npos
    (XO (XO (XI (XI (XO (XI (XI (XI (XI (XI (XO (XO (XO (XO (XO (XI (XO (XI
    (XI (XI (XO (XI (XI (XI (XI (XO (XI (XO (XO (XO (XO (XI (XO (XI (XI (XO
    (XO (XI (XO (XI (XI (XI (XI (XO (XO (XI (XI (XO (XI (XI (XI (XI (XI (XI
    (XI (XO (XI (XI (XO (XI (XI (XO (XO
    XH)))))))))))))))))))))))))))))))))))))))))))))))))))))))))))))))) :: ((Npos
    (XO (XI (XO (XI (XO (XO (XI (XO (XI (XI (XO (XO (XO (XO (XO (XI (XI (XO
    (XO (XO (XI (XI (XO (XO (XO (XI (XI (XI (XO (XO (XO (XI (XI (XI (XI (XI
    (XO (XI (XI (XO (XI (XO (XO (XI (XI (XI (XI (XI (XI (XO (XI (XO (XI (XO
    (XI (XO (XO (XI (XO (XI (XO (XI (XI
    XH)))))))))))))))))))))))))))))))))))))))))))))))))))))))))))))))) :: ((Npos
    (XI (XO (XI (XI (XO (XI (XO (XO (XO (XI (XI (XO (XO (XI (XI (XI (XI (XI
    (XI (XO (XI (XI (XO (XO (XI (XO (XO (XI (XI (XO (XO (XO (XO (XI (XI (XO
    (XO (XI (XO (XO (XI (XI (XO (XO (XI (XO (XO (XO (XI (XO (XO (XI (XO (XO
    (XI (XO (XI (XO (XI (XI (XI (XI
    XH))))))))))))))))))))))))))))))))))))))))))))))))))))))))))))))) :: ((Npos
    (XO (XO (XO (XI (XO (XO (XO (XO (XO (XO (XO (XO (XI (XO (XI (XI (XO (XO
    (XO (XO (XI (XO (XO (XI (XI (XO (XI (XI (XO (XI (XO (XO (XO (XO (XI (XO
    (XO (XI (XI (XO (XI (XI (XO (XO (XI (XO (XI (XI (XI (XI (XO (XO (XO (XI
    (XI (XI (XO (XO (XI (XO (XO (XI (XO
    XH)))))))))))))))))))))))))))))))))))))))))))))))))))))))))))))))) :: ((Npos
    (XO (XI (XO (XI (XO (XO (XI (XO (XO (XI (XO (XI (XI (XI (XI (XI (XO (XI
    (XO (XO (XI (XO (XI (XI (XI (XI (XO (XI (XI (XO (XI (XO (XO (XI (XI (XI
    (XI (XO (XI (XI (XO (XI (XI (XO (XI (XO (XO (XI (XI (XI (XI (XI (XI (XO
    (XO (XI (XO (XI (XO (XO (XI
    XH)))))))))))))))))))))))))))))))))))))))))))))))))))))))))))))) :: ((Npos
    (XI (XI (XO (XI (XI (XO (XI (XO (XI (XO (XO (XI (XI (XO (XO (XO (XO (XI
    (XO (XI (XI (XO (XO (XO (XI (XI (XO (XI (XI (XO (XI (XO (XI (XO (XI (XI
    (XI (XI (XI (XI (XI (XO (XO (XI (XO (XO (XI (XO (XO (XO (XO (XI (XO (XO
    (XI (XI (XI (XI (XO (XI (XO (XI
    XH))))))))))))))))))))))))))))))))))))))))))))))))))))))))))))))) :: ((Npos
    (XI (XI (XI (XI (XI (XO (XI (XO (XI (XO (XI (XO (XO (XO (XI (XI (XO (XO
    (XO (XI (XI (XI (XI (XI (XO (XI (XI (XI (XO (XI (XO (XI (XO (XI (XI (XI
    (XI (XI (XO (XI (XI (XI (XO (XI (XO (XI (XI (XO (XO (XO (XI (XO (XO (XI
    (XI (XO (XO (XI (XO (XI (XO (XO (XO
    XH)))))))))))))))))))))))))))))))))))))))))))))))))))))))))))))))) :: ((Npos
    (XI (XO (XI (XI (XO (XI (XI (XO (XI (XO (XO (XI (XI (XI (XI (XO (XO (XO
    (XI (XI (XI (XO (XO (XO (XO (XI (XO (XO (XO (XO (XO (XO (XO (XI (XO (XI
    (XO (XO (XO (XO (XO (XI (XI (XO (XI (XO (XO (XI (XI (XO (XO (XI (XI (XI
    (XI (XO (XI (XI (XI (XI (XO (XI
    XH))))))))))))))))))))))))))))))))))))))))))))))))))))))))))))))) :: ((Npos
    (XI (XI (XO (XO (XI (XO (XO (XO (XO (XI (XO (XO (XO (XO (XO (XI (XO (XO
    (XI (XI (XI (XO (XI (XI (XI (XO (XO (XO (XI (XI (XI (XI (XO (XI (XI (XI
    (XI (XI (XI (XO (XI (XO (XI (XO (XI (XO (XO (XI (XO (XO (XI (XO (XO (XI
    (XI (XO (XO (XO (XI (XO (XO
    XH)))))))))))))))))))))))))))))))))))))))))))))))))))))))))))))) :: ((Npos
    (XO (XI (XI (XI (XO (XO (XI (XO (XO (XI (XI (XI (XI (XI (XI (XO (XO (XO
    (XO (XO (XO (XI (XO (XO (XI (XO (XI (XI (XO (XO (XO (XI (XO (XO (XI (XI
    (XI (XO (XI (XI (XO (XO (XO (XI (XO (XO (XO (XO (XO (XO (XI (XO (XI (XI
    (XI (XO (XI (XI (XI (XO (XI (XI (XI
    XH)))))))))))))))))))))))))))))))))))))))))))))))))))))))))))))))) :: ((Npos
    (XI (XO (XI (XI (XI (XO (XO (XO (XI (XI (XI (XI (XO (XI (XO (XI (XI (XO
    (XO (XI (XO (XO (XI (XO (XO (XI (XO (XO (XI (XI (XI (XO (XO (XI (XO (XI
    (XI (XO (XO (XI (XI (XO (XO (XO (XI (XO (XI (XI (XO (XI (XI (XI (XI (XO
    (XO (XO (XO (XO (XO (XO (XI (XI (XI
    XH)))))))))))))))))))))))))))))))))))))))))))))))))))))))))))))))) :: ((Npos
    (XI (XI (XI (XI (XO (XO (XO (XI (XI (XO (XI (XO (XO (XI (XI (XI (XI (XI
    (XI (XO (XI (XO (XI (XI (XO (XI (XO (XI (XO (XO (XO (XO (XI (XO (XI (XO
    (XO (XI (XI (XI (XI (XI (XI (XI (XO (XO (XI (XO (XI (XI (XO (XI (XI (XO
    (XI (XI (XI (XI (XI (XO (XO (XI
    XH))))))))))))))))))))))))))))))))))))))))))))))))))))))))))))))) :: ((Npos
    (XI (XO (XO (XI (XO (XO (XI (XO (XO (XO (XI (XI (XI (XI (XO (XI (XI (XI
    (XO (XI (XO (XO (XO (XO (XI (XO (XI (XO (XO (XI (XI (XO (XI (XO (XI (XO
    (XI (XI (XO (XI (XI (XI (XI (XO (XI (XI (XI (XO (XO (XI (XO (XI (XO (XI
    (XI (XI (XI (XO (XO (XI
    XH))))))))))))))))))))))))))))))))))))))))))))))))))))))))))))) :: ((Npos
    (XO (XO (XO (XO (XI (XI (XI (XO (XI (XI (XI (XO (XO (XO (XO (XI (XI (XO
    (XO (XO (XI (XI (XI (XI (XI (XI (XI (XI (XO (XO (XO (XO (XI (XO (XI (XO
    (XO (XI (XI (XI (XO (XI (XO (XO (XO (XI (XI (XO (XI (XO (XO (XI (XI (XO
    (XO (XI (XI (XI (XI (XI (XO
    XH)))))))))))))))))))))))))))))))))))))))))))))))))))))))))))))) :: ((Npos
    (XO (XO (XI (XO (XO (XO (XO (XI (XO (XI (XO (XO (XI (XI (XO (XI (XO (XO
    (XO (XO (XO (XI (XI (XO (XI (XO (XI (XI (XI (XO (XI (XO (XI (XO (XO (XI
    (XO (XO (XO (XI (XI (XO (XI (XI (XO (XO (XO (XO (XI (XO (XO (XI (XI (XI
    (XO (XI (XO (XI (XO (XO (XI (XI (XO
    XH)))))))))))))))))))))))))))))))))))))))))))))))))))))))))))))))) :: ((Npos
    (XI (XI (XO (XI (XI (XI (XI (XI (XI (XI (XO (XI (XO (XO (XO (XI (XO (XI
    (XI (XO (XI (XI (XI (XO (XO (XO (XO (XI (XI (XI (XO (XO (XO (XO (XO (XO
    (XI (XI (XO (XI (XO (XI (XI (XO (XI (XO (XI (XI (XI (XI (XO (XI (XO (XI
    (XO (XI (XI (XI (XO (XI (XI
    XH)))))))))))))))))))))))))))))))))))))))))))))))))))))))))))))) :: ((Npos
    (XO (XI (XO (XI (XO (XI (XI (XO (XI (XI (XO (XI (XO (XI (XI (XO (XO (XO
    (XO (XI (XO (XO (XO (XI (XI (XI (XO (XO (XI (XI (XI (XI (XI (XO (XI (XO
    (XI (XO (XI (XI (XI (XI (XO (XO (XO (XI (XI (XI (XO (XI (XI (XO (XO (XI
    (XI (XO (XO (XO (XO (XO (XO (XO
    XH))))))))))))))))))))))))))))))))))))))))))))))))))))))))))))))) :: ((Npos
    (XO (XO (XO (XI (XO (XO (XO (XI (XI (XI (XO (XO (XI (XO (XI (XO (XO (XI
    (XO (XO (XI (XI (XI (XO (XO (XO (XI (XI (XO (XO (XI (XO (XI (XO (XI (XI
    (XO (XI (XO (XI (XO (XI (XO (XI (XI (XI (XI (XI (XO (XI (XO (XI (XI (XI
    (XO (XO (XO (XO (XI (XI (XO (XI (XO
    XH)))))))))))))))))))))))))))))))))))))))))))))))))))))))))))))))) :: ((Npos
    (XI (XI (XI (XI (XI (XO (XO (XO (XO (XI (XI (XI (XI (XO (XI (XI (XI (XO
    (XI (XI (XO (XO (XO (XI (XI (XO (XO (XO (XI (XO (XI (XI (XI (XO (XI (XO
    (XO (XO (XI (XI (XO (XI (XO (XI (XI (XO (XI (XO (XO (XO (XI (XI (XI (XI
    (XI (XI (XI (XO (XI (XI (XI (XI
    XH))))))))))))))))))))))))))))))))))))))))))))))))))))))))))))))) :: ((Npos
    (XI (XI (XI (XO (XI (XI (XO (XI (XI (XI (XI (XO (XO (XI (XO (XO (XI (XO
    (XI (XI (XI (XI (XI (XI (XI (XO (XI (XI (XO (XO (XO (XI (XI (XI (XO (XI
    (XI (XI (XI (XO (XI (XI (XI (XI (XI (XO (XI (XO (XO (XI (XI (XO (XI (XO
    (XO (XI (XO (XO (XO (XO (XI (XI
    XH))))))))))))))))))))))))))))))))))))))))))))))))))))))))))))))) :: ((Npos
    (XI (XO (XI (XO (XO (XI (XO (XI (XI (XI (XO (XI (XI (XI (XO (XI (XI (XI
    (XI (XO (XO (XI (XI (XI (XO (XO (XI (XO (XI (XI (XO (XI (XI (XI (XI (XI
    (XO (XO (XO (XO (XO (XI (XO (XO (XI (XI (XO (XI (XI (XI (XI (XI (XO (XI
    (XI (XO (XI
    XH)))))))))))))))))))))))))))))))))))))))))))))))))))))))))) :: ((Npos
    (XI (XI (XO (XI (XO (XI (XI (XI (XI (XI (XI (XI (XI (XI (XO (XO (XO (XI
    (XO (XO (XI (XO (XO (XO (XO (XI (XI (XO (XO (XI (XI (XO (XI (XI (XI (XI
    (XI (XO (XI (XO (XI (XO (XI (XO (XI (XI (XI (XI (XO (XI (XI (XO (XO (XI
    (XO (XI (XO (XO (XO (XI (XO (XO (XO
    XH)))))))))))))))))))))))))))))))))))))))))))))))))))))))))))))))) :: ((Npos
    (XI (XO (XI (XO (XI (XO (XO (XI (XI (XO (XO (XI (XO (XI (XI (XO (XO (XO
    (XI (XO (XO (XI (XO (XO (XI (XI (XI (XI (XO (XO (XI (XO (XO (XO (XO (XO
    (XO (XI (XO (XI (XI (XI (XI (XO (XO (XI (XI (XI (XI (XO (XO (XI (XI (XI
    (XO (XI (XO (XI (XO (XI (XO (XI (XO
    XH)))))))))))))))))))))))))))))))))))))))))))))))))))))))))))))))) :: ((Npos
    (XO (XI (XI (XI (XI (XO (XO (XI (XO (XI (XO (XI (XI (XI (XI (XO (XO (XI
    (XO (XO (XI (XI (XI (XO (XO (XI (XI (XI (XI (XI (XO (XO (XO (XO (XI (XO
    (XI (XO (XI (XI (XI (XO (XI (XO (XI (XO (XI (XI (XI (XO (XO (XI (XO (XO
    (XO (XO (XO (XO (XI (XO (XI (XI (XI
    XH)))))))))))))))))))))))))))))))))))))))))))))))))))))))))))))))) :: ((Npos
    (XO (XI (XO (XI (XI (XO (XI (XO (XO (XO (XI (XO (XI (XO (XI (XO (XI (XI
    (XO (XO (XO (XO (XI (XI (XI (XO (XI (XI (XI (XO (XI (XO (XI (XI (XO (XI
    (XI (XI (XI (XO (XO (XO (XI (XO (XO (XO (XO (XI (XO (XO (XI (XO (XI (XO
    (XO (XO (XO (XI (XI (XI (XO
    XH)))))))))))))))))))))))))))))))))))))))))))))))))))))))))))))) :: ((Npos
    (XI (XO (XO (XI (XO (XO (XO (XI (XO (XO (XO (XI (XI (XI (XO (XO (XO (XI
    (XI (XI (XI (XO (XO (XI (XI (XO (XI (XO (XO (XO (XO (XO (XO (XO (XI (XO
    (XI (XI (XI (XO (XO (XI (XO (XI (XO (XI (XI (XI (XO (XO (XO (XI (XI (XO
    (XI (XI (XO (XI (XI (XI
    XH))))))))))))))))))))))))))))))))))))))))))))))))))))))))))))) :: ((Npos
    (XO (XO (XI (XO (XI (XI (XI (XI (XI (XI (XO (XI (XO (XO (XO (XO (XI (XI
    (XI (XI (XO (XI (XO (XI (XO (XO (XI (XO (XI (XO (XI (XO (XO (XI (XO (XI
    (XO (XO (XI (XI (XI (XO (XI (XO (XO (XO (XO (XI (XO (XO (XO (XO (XO (XO
    (XO (XO (XI (XO (XI (XI (XO (XI (XI
    XH)))))))))))))))))))))))))))))))))))))))))))))))))))))))))))))))) :: ((Npos
    (XI (XO (XO (XI (XI (XI (XO (XI (XO (XO (XO (XO (XI (XI (XO (XI (XI (XO
    (XI (XO (XI (XI (XI (XO (XI (XI (XO (XI (XO (XO (XO (XI (XO (XI (XO (XI
    (XO (XO (XO (XI (XO (XO (XO (XI (XO (XO (XI (XO (XO (XI (XO (XO (XO (XO
    (XI (XO (XI (XI (XI (XO (XI (XI (XO
    XH)))))))))))))))))))))))))))))))))))))))))))))))))))))))))))))))) :: ((Npos
    (XI (XI (XO (XO (XI (XI (XI (XI (XI (XO (XI (XI (XO (XO (XO (XI (XO (XO
    (XI (XI (XI (XO (XI (XO (XO (XI (XO (XI (XI (XI (XO (XO (XI (XO (XO (XI
    (XO (XI (XI (XO (XI (XI (XO (XO (XI (XI (XI (XI (XI (XI (XO (XO (XI (XO
    (XI (XO (XI (XO (XO (XO (XI (XI
    XH))))))))))))))))))))))))))))))))))))))))))))))))))))))))))))))) :: ((Npos
    (XI (XO (XO (XI (XI (XI (XO (XI (XO (XI (XI (XO (XO (XI (XO (XI (XO (XI
    (XO (XO (XI (XI (XI (XO (XO (XO (XO (XI (XO (XO (XI (XI (XI (XI (XI (XO
    (XI (XI (XI (XO (XO (XO (XI (XI (XO (XI (XI (XO (XO (XO (XO (XO (XI (XI
    (XI (XO (XI (XI (XO (XO (XI (XO (XO
    XH)))))))))))))))))))))))))))))))))))))))))))))))))))))))))))))))) :: ((Npos
    (XI (XI (XO (XO (XO (XI (XI (XI (XI (XI (XO (XI (XI (XO (XO (XO (XI (XI
    (XI (XI (XI (XO (XO (XI (XI (XO (XI (XI (XI (XO (XO (XI (XI (XI (XI (XO
    (XO (XO (XI (XI (XO (XI (XI (XO (XO (XI (XI (XI (XI (XI (XI (XI (XO (XI
    (XO (XI (XI (XI (XO (XI (XO (XI
    XH))))))))))))))))))))))))))))))))))))))))))))))))))))))))))))))) :: ((Npos
    (XI (XO (XO (XO (XI (XI (XI (XO (XI (XI (XO (XO (XI (XI (XO (XO (XO (XI
    (XI (XI (XI (XO (XI (XI (XO (XO (XO (XO (XO (XO (XO (XO (XO (XI (XI (XI
    (XO (XI (XO (XO (XO (XO (XO (XO (XI (XO (XO (XI (XI (XO (XI (XI (XI (XI
    (XI (XI (XO (XO (XO (XI (XI (XO
    XH))))))))))))))))))))))))))))))))))))))))))))))))))))))))))))))) :: ((Npos
    (XO (XO (XO (XI (XO (XO (XI (XI (XO (XI (XO (XO (XI (XI (XO (XO (XI (XI
    (XI (XI (XI (XO (XO (XI (XO (XI (XO (XO (XO (XI (XO (XI (XO (XI (XO (XI
    (XO (XI (XI (XO (XI (XO (XI (XO (XO (XO (XI (XO (XO (XI (XO (XI (XI (XI
    (XO (XI (XI (XO (XO (XI (XO (XO (XI
    XH)))))))))))))))))))))))))))))))))))))))))))))))))))))))))))))))) :: ((Npos
    (XI (XO (XI (XO (XI (XI (XO (XI (XO (XO (XO (XI (XI (XI (XO (XI (XI (XO
    (XO (XI (XI (XO (XO (XI (XO (XI (XI (XI (XO (XO (XO (XO (XO (XI (XI (XI
    (XI (XO (XI (XO (XO (XO (XO (XO (XO (XI (XI (XO (XI (XO (XI (XI (XO (XO
    (XI (XI (XO (XO (XI (XI
    XH))))))))))))))))))))))))))))))))))))))))))))))))))))))))))))) :: ((Npos
    (XO (XO (XI (XO (XI (XO (XO (XI (XI (XI (XO (XO (XI (XI (XO (XO (XI (XI
    (XI (XO (XI (XO (XI (XI (XI (XI (XO (XO (XO (XO (XI (XI (XI (XO (XI (XI
    (XI (XO (XO (XI (XO (XO (XI (XO (XI (XO (XO (XI (XO (XO (XI (XI (XO (XO
    (XI (XI (XO (XI (XO (XO (XI (XI
    XH))))))))))))))))))))))))))))))))))))))))))))))))))))))))))))))) :: ((Npos
    (XI (XI (XI (XO (XI (XI (XO (XI (XI (XI (XO (XI (XO (XO (XO (XO (XI (XI
    (XO (XI (XO (XO (XO (XI (XO (XI (XI (XO (XI (XO (XO (XO (XI (XI (XO (XI
    (XO (XO (XO (XI (XO (XI (XO (XO (XI (XI (XO (XI (XI (XI (XO (XI (XI (XI
    (XI (XO (XO (XO (XO (XI (XO (XI (XI
    XH)))))))))))))))))))))))))))))))))))))))))))))))))))))))))))))))) :: ((Npos
    (XI (XI (XO (XI (XI (XI (XO (XI (XO (XI (XO (XI (XI (XO (XI (XO (XO (XO
    (XO (XI (XI (XI (XI (XI (XI (XO (XI (XO (XI (XO (XI (XO (XI (XO (XO (XI
    (XI (XI (XI (XI (XI (XO (XI (XO (XI (XI (XO (XO (XO (XO (XI (XI (XO (XI
    (XI (XI (XO (XO (XI (XI (XI (XO (XI
    XH)))))))))))))))))))))))))))))))))))))))))))))))))))))))))))))))) :: ((Npos
    (XO (XO (XO (XI (XO (XO (XI (XI (XI (XI (XI (XI (XI (XO (XO (XO (XO (XO
    (XI (XO (XI (XI (XI (XO (XI (XO (XI (XO (XO (XI (XI (XO (XI (XI (XO (XO
    (XI (XO (XO (XI (XO (XO (XO (XO (XI (XI (XO (XO (XO (XO (XO (XO (XI (XI
    (XI (XI (XI (XO (XO (XO (XO
    XH)))))))))))))))))))))))))))))))))))))))))))))))))))))))))))))) :: ((Npos
    (XI (XO (XI (XO (XI (XI (XI (XI (XI (XO (XO (XI (XI (XI (XO (XO (XI (XI
    (XO (XO (XI (XO (XI (XI (XO (XI (XO (XI (XI (XO (XI (XO (XI (XO (XO (XI
    (XO (XI (XI (XO (XO (XO (XO (XI (XI (XO (XO (XO (XI (XO (XI (XI (XO (XI
    (XI (XO (XO (XI (XI (XI (XO
    XH)))))))))))))))))))))))))))))))))))))))))))))))))))))))))))))) :: ((Npos
    (XO (XI (XI (XO (XI (XO (XO (XI (XO (XO (XI (XO (XO (XI (XO (XI (XI (XI
    (XO (XO (XO (XO (XI (XO (XO (XI (XO (XI (XI (XI (XO (XO (XI (XO (XO (XI
    (XI (XI (XI (XO (XO (XI (XI (XI (XI (XO (XI (XI (XI (XI (XO (XO (XI (XO
    (XO (XO (XO (XO (XI (XI (XI (XO (XO
    XH)))))))))))))))))))))))))))))))))))))))))))))))))))))))))))))))) :: ((Npos
    (XI (XO (XI (XI (XI (XI (XO (XI (XO (XI (XI (XO (XO (XO (XO (XO (XO (XO
    (XI (XO (XI (XO (XO (XO (XO (XI (XI (XI (XI (XO (XO (XO (XI (XO (XI (XI
    (XO (XO (XI (XO (XI (XI (XO (XO (XO (XI (XI (XI (XI (XO (XO (XI (XO (XO
    (XI (XI (XO (XO (XO (XI (XI (XO (XI
    XH)))))))))))))))))))))))))))))))))))))))))))))))))))))))))))))))) :: ((Npos
    (XI (XO (XI (XO (XI (XI (XO (XI (XO (XO (XO (XI (XO (XI (XO (XO (XO (XO
    (XO (XI (XO (XI (XO (XI (XO (XI (XO (XO (XI (XO (XO (XO (XI (XO (XO (XO
    (XI (XO (XI (XI (XI (XO (XI (XI (XI (XI (XO (XO (XI (XI (XO (XI (XO (XO
    (XI (XO (XO (XO (XO (XO (XI (XO (XI
    XH)))))))))))))))))))))))))))))))))))))))))))))))))))))))))))))))) :: ((Npos
    (XO (XO (XI (XO (XI (XI (XI (XI (XO (XO (XO (XI (XO (XO (XO (XI (XI (XO
    (XI (XO (XI (XO (XO (XI (XO (XO (XO (XI (XI (XO (XI (XO (XI (XO (XI (XO
    (XO (XI (XI (XO (XI (XI (XO (XO (XI (XO (XO (XI (XI (XI (XI (XI (XI (XI
    (XO (XO (XO (XO (XI (XI (XO (XI
    XH))))))))))))))))))))))))))))))))))))))))))))))))))))))))))))))) :: ((Npos
    (XI (XO (XI (XO (XI (XI (XO (XI (XO (XO (XI (XO (XI (XI (XO (XI (XO (XI
    (XO (XI (XO (XO (XI (XO (XI (XI (XI (XO (XI (XI (XI (XI (XI (XO (XI (XI
    (XO (XI (XO (XI (XI (XI (XI (XI (XO (XO (XO (XI (XO (XI (XO (XI (XI (XO
    (XO (XI (XO (XO (XI (XO (XO (XO (XI
    XH)))))))))))))))))))))))))))))))))))))))))))))))))))))))))))))))) :: ((Npos
    (XI (XI (XO (XI (XI (XI (XI (XO (XO (XO (XO (XI (XO (XO (XO (XO (XI (XI
    (XI (XO (XI (XI (XI (XO (XO (XI (XI (XI (XI (XO (XI (XI (XO (XI (XI (XI
    (XO (XI (XI (XI (XO (XO (XO (XI (XI (XO (XO (XI (XI (XI (XO (XI (XO (XI
    (XO (XO (XO (XO (XI (XO (XI (XI (XI
    XH)))))))))))))))))))))))))))))))))))))))))))))))))))))))))))))))) :: ((Npos
    (XO (XO (XO (XI (XI (XI (XI (XI (XI (XI (XI (XO (XO (XI (XI (XO (XO (XI
    (XI (XI (XI (XO (XI (XO (XO (XO (XO (XI (XI (XI (XI (XI (XO (XO (XI (XI
    (XI (XO (XO (XI (XO (XI (XO (XO (XI (XO (XI (XI (XI (XO (XO (XI (XO (XO
    (XI (XI (XI (XI (XO (XI (XI
    XH)))))))))))))))))))))))))))))))))))))))))))))))))))))))))))))) :: ((Npos
    (XI (XI (XI (XO (XO (XO (XI (XI (XO (XO (XO (XI (XO (XO (XO (XO (XO (XO
    (XI (XI (XI (XO (XI (XI (XO (XO (XO (XI (XO (XO (XO (XI (XI (XI (XO (XO
    (XI (XO (XO (XI (XI (XI (XI (XO (XI (XO (XI (XO (XI (XO (XO (XI (XO (XO
    (XO (XO (XI (XI (XO (XO (XO (XI
    XH))))))))))))))))))))))))))))))))))))))))))))))))))))))))))))))) :: ((Npos
    (XI (XO (XI (XI (XO (XI (XI (XO (XI (XI (XI (XI (XO (XO (XO (XO (XI (XI
    (XI (XO (XI (XO (XO (XO (XO (XO (XI (XI (XI (XO (XO (XI (XO (XO (XI (XO
    (XI (XO (XO (XI (XO (XI (XO (XI (XO (XO (XO (XO (XO (XI (XO (XI (XI (XO
    (XI (XI (XI (XO (XO (XO (XO (XI (XI
    XH)))))))))))))))))))))))))))))))))))))))))))))))))))))))))))))))) :: ((Npos
    (XO (XI (XI (XO (XI (XO (XI (XO (XO (XI (XO (XI (XI (XI (XI (XO (XO (XI
    (XI (XO (XI (XI (XI (XO (XI (XI (XI (XO (XI (XI (XO (XO (XO (XI (XO (XO
    (XO (XI (XO (XI (XI (XI (XI (XO (XI (XI (XO (XO (XI (XI (XO (XI (XO (XI
    (XO (XI (XI (XO (XI (XO (XO (XO
    XH))))))))))))))))))))))))))))))))))))))))))))))))))))))))))))))) :: ((Npos
    (XI (XO (XI (XO (XI (XI (XO (XI (XO (XO (XO (XI (XO (XI (XI (XO (XI (XO
    (XI (XO (XO (XO (XO (XI (XO (XO (XO (XO (XI (XO (XI (XI (XO (XI (XI (XI
    (XI (XI (XI (XI (XI (XI (XO (XO (XO (XI (XO (XI (XO (XI (XO (XI (XO (XI
    (XI (XO (XO (XO (XI (XI (XI (XO (XO
    XH)))))))))))))))))))))))))))))))))))))))))))))))))))))))))))))))) :: ((Npos
    (XO (XI (XI (XO (XI (XO (XO (XO (XO (XO (XO (XI (XI (XI (XI (XI (XI (XI
    (XI (XO (XI (XI (XO (XI (XO (XO (XI (XO (XO (XO (XO (XO (XI (XO (XI (XI
    (XI (XI (XI (XI (XO (XI (XI (XI (XO (XI (XI (XO (XI (XO (XI (XO (XI (XI
    (XO (XO (XI (XI (XI (XI (XI (XO (XI
    XH)))))))))))))))))))))))))))))))))))))))))))))))))))))))))))))))) :: ((Npos
    (XI (XI (XI (XO (XO (XI (XI (XO (XI (XI (XI (XI (XI (XI (XI (XO (XI (XO
    (XI (XO (XO (XO (XI (XO (XO (XO (XO (XO (XI (XO (XO (XO (XO (XI (XO (XO
    (XO (XO (XO (XO (XO (XI (XI (XI (XO (XO (XO (XI (XO (XO (XI (XI (XO (XI
    (XI (XO (XO (XO (XI
    XH)))))))))))))))))))))))))))))))))))))))))))))))))))))))))))) :: ((Npos
    (XI (XI (XO (XI (XO (XO (XI (XI (XO (XO (XI (XI (XI (XO (XI (XI (XO (XI
    (XO (XO (XI (XI (XI (XI (XI (XI (XO (XI (XO (XO (XO (XI (XI (XI (XO (XO
    (XO (XO (XO (XI (XO (XO (XO (XI (XO (XO (XI (XO (XO (XO (XO (XI (XO (XI
    (XO (XI (XI (XO (XO (XI (XO (XO (XO
    XH)))))))))))))))))))))))))))))))))))))))))))))))))))))))))))))))) :: ((Npos
    (XO (XO (XO (XO (XO (XO (XI (XO (XI (XO (XO (XO (XO (XI (XI (XO (XO (XI
    (XI (XI (XI (XI (XO (XO (XI (XI (XI (XI (XO (XI (XO (XO (XO (XI (XO (XO
    (XI (XO (XI (XO (XI (XO (XI (XO (XI (XI (XO (XO (XI (XI (XI (XI (XI (XO
    (XI (XO (XO (XO (XI (XO (XI (XO (XO
    XH)))))))))))))))))))))))))))))))))))))))))))))))))))))))))))))))) :: ((Npos
    (XI (XO (XI (XO (XI (XI (XI (XI (XI (XI (XI (XI (XI (XI (XI (XI (XI (XO
    (XO (XO (XI (XI (XO (XO (XI (XI (XO (XO (XO (XI (XO (XI (XO (XO (XI (XO
    (XO (XO (XO (XI (XI (XO (XI (XI (XO (XI (XI (XI (XO (XO (XI (XO (XI (XI
    (XO (XO (XO (XI (XO (XO
    XH))))))))))))))))))))))))))))))))))))))))))))))))))))))))))))) :: ((Npos
    (XI (XO (XI (XO (XI (XI (XO (XI (XO (XI (XO (XO (XI (XO (XO (XO (XO (XI
    (XO (XO (XO (XO (XO (XI (XO (XI (XO (XO (XI (XO (XI (XO (XO (XO (XI (XO
    (XO (XO (XI (XI (XI (XO (XI (XI (XI (XO (XO (XI (XO (XO (XI (XO (XI (XO
    (XI (XI (XI (XI (XO (XI (XO (XI (XO
    XH)))))))))))))))))))))))))))))))))))))))))))))))))))))))))))))))) :: ((Npos
    (XO (XI (XO (XI (XI (XI (XO (XO (XO (XI (XI (XO (XO (XI (XI (XI (XO (XO
    (XI (XI (XO (XI (XI (XO (XI (XI (XI (XI (XO (XI (XO (XI (XI (XO (XI (XI
    (XO (XI (XI (XO (XI (XI (XI (XI (XI (XO (XO (XO (XI (XO (XO (XI (XI (XO
    (XI (XI (XI (XO (XO (XO (XI (XI (XO
    XH)))))))))))))))))))))))))))))))))))))))))))))))))))))))))))))))) :: ((Npos
    (XO (XO (XO (XI (XO (XO (XI (XI (XO (XI (XI (XI (XI (XO (XO (XO (XI (XI
    (XI (XI (XO (XI (XI (XI (XI (XO (XI (XO (XO (XI (XO (XO (XI (XO (XI (XI
    (XO (XI (XO (XO (XI (XI (XI (XO (XO (XI (XO (XI (XI (XO (XO (XO (XI (XO
    (XI (XI (XO (XI (XI (XO (XI (XO (XO
    XH)))))))))))))))))))))))))))))))))))))))))))))))))))))))))))))))) :: ((Npos
    (XI (XI (XI (XO (XI (XO (XO (XO (XI (XI (XO (XO (XO (XI (XI (XO (XO (XO
    (XI (XO (XO (XO (XO (XO (XO (XI (XI (XO (XI (XI (XI (XI (XO (XI (XO (XI
    (XI (XI (XI (XI (XO (XI (XO (XI (XI (XI (XO (XO (XI (XO (XI (XI (XI (XO
    (XO (XI (XO (XO (XO (XI (XO (XO (XI
    XH)))))))))))))))))))))))))))))))))))))))))))))))))))))))))))))))) :: ((Npos
    (XO (XI (XO (XI (XO (XO (XO (XO (XO (XI (XO (XI (XI (XO (XO (XI (XO (XO
    (XI (XI (XO (XI (XO (XI (XO (XI (XI (XO (XO (XO (XI (XO (XO (XI (XI (XO
    (XO (XO (XO (XO (XI (XI (XO (XO (XI (XO (XI (XO (XI (XI (XO (XO (XI (XO
    (XO (XO (XI (XO (XI (XI
    XH))))))))))))))))))))))))))))))))))))))))))))))))))))))))))))) :: ((Npos
    (XO (XI (XI (XO (XO (XI (XI (XI (XO (XO (XI (XI (XI (XO (XO (XI (XO (XI
    (XI (XI (XO (XO (XO (XI (XI (XI (XI (XI (XI (XO (XI (XO (XO (XI (XO (XI
    (XI (XI (XO (XI (XI (XO (XO (XO (XI (XO (XO (XO (XO (XI (XI (XO (XO (XI
    (XO (XO (XI (XI (XI (XO (XO (XO
    XH))))))))))))))))))))))))))))))))))))))))))))))))))))))))))))))) :: ((Npos
    (XI (XO (XO (XO (XO (XO (XI (XO (XI (XI (XI (XI (XO (XI (XO (XO (XI (XI
    (XO (XI (XI (XO (XI (XO (XI (XI (XI (XO (XI (XI (XI (XI (XI (XO (XI (XO
    (XO (XI (XO (XO (XO (XO (XO (XO (XI (XI (XI (XI (XI (XO (XO (XI (XI (XO
    (XO (XI (XI (XO (XO (XO (XI (XO (XO
    XH)))))))))))))))))))))))))))))))))))))))))))))))))))))))))))))))) :: ((Npos
    (XI (XO (XO (XI (XO (XI (XI (XO (XI (XI (XI (XI (XI (XO (XO (XI (XO (XI
    (XI (XO (XO (XO (XI (XO (XI (XO (XI (XI (XI (XO (XO (XO (XI (XO (XO (XO
    (XI (XO (XI (XO (XI (XO (XO (XO (XO (XI (XI (XO (XO (XO (XI (XI (XI (XI
    (XO (XI (XO (XI (XO (XO (XI (XO (XI
    XH)))))))))))))))))))))))))))))))))))))))))))))))))))))))))))))))) :: ((Npos
    (XO (XI (XO (XO (XI (XO (XI (XI (XO (XI (XI (XI (XI (XI (XI (XO (XO (XI
    (XI (XO (XI (XI (XO (XI (XI (XI (XO (XO (XO (XO (XO (XO (XI (XO (XI (XO
    (XI (XI (XI (XI (XO (XI (XI (XO (XI (XO (XI (XI (XI (XO (XI (XO (XI (XI
    (XO (XI (XO (XO (XO (XI (XI (XI (XO
    XH)))))))))))))))))))))))))))))))))))))))))))))))))))))))))))))))) :: ((Npos
    (XO (XO (XO (XO (XI (XI (XI (XO (XI (XO (XO (XI (XI (XI (XI (XI (XO (XO
    (XI (XO (XO (XO (XI (XO (XO (XI (XO (XI (XO (XO (XO (XI (XI (XI (XI (XO
    (XO (XI (XI (XO (XO (XO (XO (XI (XO (XO (XO (XO (XO (XI (XI (XI (XI (XO
    (XI (XO (XI (XO (XO (XO (XI (XI
    XH))))))))))))))))))))))))))))))))))))))))))))))))))))))))))))))) :: ((Npos
    (XI (XO (XO (XO (XO (XI (XI (XI (XI (XO (XO (XI (XO (XO (XO (XO (XO (XO
    (XI (XI (XO (XO (XI (XI (XO (XI (XI (XI (XI (XI (XI (XI (XO (XO (XO (XO
    (XI (XI (XI (XO (XO (XO (XO (XI (XO (XI (XI (XO (XI (XO (XI (XI (XI (XO
    (XI (XO (XI (XO (XO (XI (XO (XO
    XH))))))))))))))))))))))))))))))))))))))))))))))))))))))))))))))) :: ((Npos
    (XI (XO (XI (XO (XO (XO (XI (XO (XI (XI (XI (XO (XI (XO (XO (XI (XI (XI
    (XO (XO (XI (XI (XI (XO (XI (XI (XI (XO (XI (XO (XO (XO (XO (XI (XI (XI
    (XO (XI (XI (XI (XO (XI (XO (XI (XO (XI (XI (XO (XI (XI (XO (XO (XI (XO
    (XI (XI (XO (XO (XI (XI
    XH))))))))))))))))))))))))))))))))))))))))))))))))))))))))))))) :: ((Npos
    (XI (XI (XO (XO (XO (XI (XO (XO (XO (XI (XO (XO (XO (XO (XO (XO (XI (XO
    (XO (XI (XO (XO (XO (XO (XI (XI (XO (XI (XO (XO (XO (XI (XO (XI (XI (XO
    (XI (XO (XI (XO (XI (XO (XI (XI (XO (XO (XI (XO (XI (XO (XI (XO (XO (XI
    (XI (XI (XO (XI (XO (XI (XO (XO (XI
    XH)))))))))))))))))))))))))))))))))))))))))))))))))))))))))))))))) :: ((Npos
    (XI (XI (XI (XO (XO (XI (XO (XI (XO (XI (XI (XO (XO (XO (XI (XO (XI (XO
    (XI (XI (XO (XO (XO (XI (XO (XO (XI (XO (XO (XO (XO (XO (XO (XO (XI (XI
    (XO (XI (XI (XO (XO (XO (XO (XO (XI (XO (XI (XO (XI (XI (XI (XI (XO (XO
    (XI (XI (XI (XO (XI (XO (XO
    XH)))))))))))))))))))))))))))))))))))))))))))))))))))))))))))))) :: ((Npos
    (XI (XO (XO (XO (XO (XI (XI (XI (XO (XI (XI (XI (XI (XO (XO (XO (XO (XO
    (XO (XI (XO (XI (XI (XI (XO (XO (XO (XI (XO (XO (XO (XI (XO (XO (XO (XI
    (XO (XO (XO (XO (XO (XI (XI (XO (XO (XO (XI (XO (XO (XI (XO (XI (XI (XO
    (XI (XO (XO (XO (XI (XO (XO
    XH)))))))))))))))))))))))))))))))))))))))))))))))))))))))))))))) :: ((Npos
    (XI (XI (XI (XI (XI (XO (XO (XI (XO (XI (XI (XI (XO (XI (XI (XO (XO (XI
    (XO (XI (XI (XO (XI (XI (XI (XO (XI (XO (XO (XO (XO (XO (XO (XI (XO (XI
    (XO (XI (XI (XO (XO (XO (XI (XI (XO (XI (XI (XO (XO (XI (XO (XI (XO (XO
    (XO (XI (XO (XI (XI (XI (XO (XO (XO
    XH)))))))))))))))))))))))))))))))))))))))))))))))))))))))))))))))) :: ((Npos
    (XI (XI (XI (XI (XI (XO (XO (XO (XO (XI (XI (XI (XO (XI (XI (XI (XI (XI
    (XI (XO (XI (XO (XO (XI (XI (XI (XI (XI (XO (XI (XI (XI (XI (XO (XO (XO
    (XO (XI (XO (XO (XI (XI (XO (XI (XO (XI (XO (XO (XI (XO (XO (XO (XO (XO
    (XO (XO (XO
    XH)))))))))))))))))))))))))))))))))))))))))))))))))))))))))) :: ((Npos
    (XI (XI (XI (XI (XO (XO (XO (XO (XO (XI (XI (XI (XI (XI (XO (XI (XO (XI
    (XI (XO (XI (XO (XO (XO (XI (XO (XI (XI (XI (XO (XO (XI (XO (XI (XI (XO
    (XO (XO (XO (XI (XO (XO (XI (XO (XI (XO (XO (XO (XI (XO (XO (XO (XO (XO
    (XO (XI (XI (XO (XI (XO (XO (XI
    XH))))))))))))))))))))))))))))))))))))))))))))))))))))))))))))))) :: ((Npos
    (XO (XO (XI (XO (XI (XO (XO (XO (XO (XI (XI (XO (XO (XO (XI (XO (XI (XO
    (XO (XO (XI (XO (XI (XO (XI (XI (XI (XI (XO (XI (XO (XO (XO (XI (XI (XO
    (XI (XO (XI (XI (XI (XO (XI (XO (XO (XI (XI (XO (XI (XO (XI (XO (XO (XI
    (XO (XO (XO (XI (XO (XI (XI (XI (XI
    XH)))))))))))))))))))))))))))))))))))))))))))))))))))))))))))))))) :: ((Npos
    (XO (XO (XI (XI (XO (XI (XO (XI (XO (XO (XI (XI (XO (XO (XI (XO (XO (XO
    (XI (XI (XI (XO (XO (XO (XO (XI (XI (XI (XI (XI (XO (XI (XI (XI (XO (XI
    (XI (XO (XI (XI (XO (XI (XI (XO (XI (XI (XI (XO (XI (XO (XO (XI (XO (XO
    (XO (XO (XO (XI (XO (XI (XI (XO (XO
    XH)))))))))))))))))))))))))))))))))))))))))))))))))))))))))))))))) :: ((Npos
    (XO (XI (XI (XO (XI (XO (XI (XI (XI (XI (XO (XI (XI (XI (XI (XO (XO (XO
    (XI (XI (XO (XI (XI (XO (XO (XO (XO (XO (XO (XI (XO (XO (XO (XI (XI (XI
    (XI (XI (XO (XO (XI (XO (XI (XI (XI (XO (XO (XO (XO (XI (XO (XI (XO (XO
    (XI (XI (XI (XI (XO (XO (XO (XO (XO
    XH)))))))))))))))))))))))))))))))))))))))))))))))))))))))))))))))) :: ((Npos
    (XO (XI (XI (XI (XO (XO (XO (XO (XI (XI (XO (XI (XO (XO (XI (XI (XO (XI
    (XO (XO (XO (XI (XI (XO (XI (XO (XI (XO (XO (XO (XI (XI (XO (XO (XO (XO
    (XI (XI (XO (XO (XI (XO (XI (XO (XI (XO (XI (XO (XI (XO (XO (XI (XO (XI
    (XI (XO (XI
    XH)))))))))))))))))))))))))))))))))))))))))))))))))))))))))) :: ((Npos
    (XO (XI (XI (XI (XO (XI (XO (XI (XI (XO (XI (XO (XI (XO (XI (XI (XI (XI
    (XI (XI (XO (XO (XI (XI (XO (XO (XI (XI (XI (XI (XO (XO (XO (XI (XI (XI
    (XI (XO (XO (XI (XO (XI (XO (XI (XI (XO (XO (XI (XO (XI (XI (XO (XI (XI
    (XO (XI (XO (XI (XO (XI (XO (XO
    XH))))))))))))))))))))))))))))))))))))))))))))))))))))))))))))))) :: ((Npos
    (XO (XO (XI (XO (XI (XO (XI (XO (XO (XI (XI (XI (XO (XI (XI (XI (XO (XI
    (XI (XI (XO (XO (XO (XI (XI (XI (XO (XI (XI (XO (XI (XO (XO (XI (XI (XI
    (XO (XO (XO (XI (XI (XO (XO (XI (XO (XO (XO (XI (XO (XO (XO (XO (XI (XO
    (XO (XI (XI (XO (XI (XO (XI (XO (XO
    XH)))))))))))))))))))))))))))))))))))))))))))))))))))))))))))))))) :: ((Npos
    (XI (XO (XO (XI (XI (XO (XI (XI (XI (XO (XI (XI (XI (XI (XO (XO (XO (XI
    (XI (XO (XI (XI (XI (XI (XI (XO (XI (XI (XI (XO (XI (XI (XO (XI (XO (XI
    (XO (XI (XI (XI (XO (XI (XO (XI (XO (XO (XO (XO (XI (XI (XI (XO (XI (XO
    (XO (XI (XO (XI (XI (XI (XI
    XH)))))))))))))))))))))))))))))))))))))))))))))))))))))))))))))) :: ((Npos
    (XI (XO (XI (XO (XO (XI (XI (XO (XI (XO (XI (XI (XI (XI (XI (XO (XO (XI
    (XI (XO (XI (XO (XI (XO (XO (XO (XI (XO (XO (XI (XO (XO (XO (XI (XI (XI
    (XO (XI (XO (XI (XI (XI (XO (XI (XI (XO (XI (XO (XI (XI (XO (XO (XI (XO
    (XI (XO (XI (XI (XO (XO (XI (XI
    XH))))))))))))))))))))))))))))))))))))))))))))))))))))))))))))))) :: ((Npos
    (XO (XO (XO (XI (XO (XI (XI (XO (XI (XI (XI (XO (XI (XO (XO (XO (XO (XI
    (XI (XO (XI (XI (XI (XI (XI (XO (XI (XI (XO (XI (XO (XI (XI (XI (XO (XI
    (XI (XO (XI (XI (XI (XO (XI (XO (XI (XI (XI (XO (XI (XO (XI (XO (XI (XI
    (XO (XO (XO (XO (XI (XI (XI (XO
    XH))))))))))))))))))))))))))))))))))))))))))))))))))))))))))))))) :: ((Npos
    (XI (XO (XI (XO (XI (XI (XI (XO (XI (XO (XI (XO (XI (XI (XO (XI (XO (XI
    (XO (XO (XI (XI (XI (XI (XO (XI (XO (XI (XI (XO (XI (XI (XO (XO (XI (XO
    (XO (XI (XO (XO (XI (XO (XO (XI (XI (XO (XI (XI (XI (XO (XI (XO (XI (XI
    (XO (XI (XI (XO (XO (XO (XO (XO (XI
    XH)))))))))))))))))))))))))))))))))))))))))))))))))))))))))))))))) :: ((Npos
    (XO (XI (XO (XO (XI (XI (XI (XO (XO (XO (XO (XO (XO (XO (XI (XI (XI (XO
    (XI (XI (XO (XI (XI (XO (XI (XO (XO (XI (XO (XI (XI (XO (XI (XO (XI (XO
    (XI (XO (XO (XI (XO (XI (XI (XO (XI (XI (XO (XO (XI (XO (XI (XI (XO (XI
    (XO (XO (XI (XI (XI (XO (XI (XO
    XH))))))))))))))))))))))))))))))))))))))))))))))))))))))))))))))) :: ((Npos
    (XI (XO (XI (XO (XO (XO (XO (XI (XO (XI (XI (XO (XO (XI (XO (XO (XO (XI
    (XO (XO (XO (XI (XO (XI (XO (XO (XO (XO (XI (XO (XI (XI (XO (XI (XI (XI
    (XI (XI (XI (XO (XI (XO (XO (XI (XO (XI (XO (XI (XI (XO (XO (XI (XI (XO
    (XO (XO (XO (XI (XI (XO (XI (XI
    XH))))))))))))))))))))))))))))))))))))))))))))))))))))))))))))))) :: ((Npos
    (XI (XI (XI (XO (XI (XI (XI (XO (XO (XI (XI (XO (XI (XI (XO (XI (XI (XO
    (XI (XO (XI (XO (XI (XO (XO (XO (XI (XO (XO (XI (XO (XO (XI (XO (XO (XI
    (XI (XO (XO (XI (XO (XO (XI (XO (XI (XI (XI (XO (XI (XI (XI (XO (XO (XO
    (XO (XO (XO (XI (XI (XI (XI (XI (XI
    XH)))))))))))))))))))))))))))))))))))))))))))))))))))))))))))))))) :: ((Npos
    (XO (XO (XO (XI (XO (XO (XO (XI (XO (XI (XO (XI (XI (XO (XI (XO (XI (XI
    (XI (XO (XI (XO (XO (XI (XO (XO (XO (XI (XO (XI (XI (XO (XO (XO (XI (XI
    (XO (XI (XO (XI (XI (XO (XI (XO (XI (XI (XO (XI (XI (XO (XO (XI (XI (XO
    (XO (XI (XO (XI (XI (XO (XI (XO
    XH))))))))))))))))))))))))))))))))))))))))))))))))))))))))))))))) :: ((Npos
    (XI (XO (XI (XI (XO (XI (XI (XI (XO (XO (XI (XI (XI (XO (XO (XO (XI (XI
    (XO (XO (XI (XI (XI (XI (XI (XO (XO (XI (XO (XI (XI (XO (XI (XI (XO (XI
    (XO (XO (XO (XI (XI (XO (XI (XO (XO (XI (XO (XI (XO (XI (XO (XI (XO (XO
    (XO (XI (XO (XI (XO (XO (XO (XI
    XH))))))))))))))))))))))))))))))))))))))))))))))))))))))))))))))) :: ((Npos
    (XI (XO (XO (XI (XI (XO (XO (XI (XI (XI (XO (XO (XO (XI (XI (XI (XI (XI
    (XO (XO (XI (XO (XO (XO (XO (XI (XO (XI (XI (XO (XI (XI (XO (XI (XI (XO
    (XI (XI (XO (XI (XI (XO (XI (XI (XI (XO (XO (XI (XI (XO (XO (XI (XO (XI
    (XI (XO (XO (XI (XI (XO (XO (XO (XI
    XH)))))))))))))))))))))))))))))))))))))))))))))))))))))))))))))))) :: ((Npos
    (XO (XI (XI (XI (XI (XI (XO (XI (XO (XI (XI (XI (XI (XO (XI (XI (XO (XO
    (XI (XI (XO (XO (XI (XO (XI (XI (XO (XO (XO (XI (XO (XI (XI (XI (XI (XI
    (XO (XO (XO (XO (XI (XO (XO (XO (XI (XI (XO (XI (XO (XI (XO (XI (XO (XI
    (XI (XO (XO (XO (XO (XO (XI (XI
    XH))))))))))))))))))))))))))))))))))))))))))))))))))))))))))))))) :: ((Npos
    (XI (XO (XI (XO (XI (XO (XO (XI (XI (XO (XO (XI (XI (XI (XI (XO (XI (XO
    (XI (XO (XO (XI (XI (XO (XO (XI (XI (XI (XI (XO (XI (XI (XO (XO (XI (XO
    (XI (XO (XO (XI (XI (XO (XO (XI (XO (XI (XI (XO (XO (XO (XI (XO (XI (XI
    (XI (XI (XO (XO (XO (XI (XO (XO (XI
    XH)))))))))))))))))))))))))))))))))))))))))))))))))))))))))))))))) :: ((Npos
    (XO (XI (XI (XI (XO (XI (XI (XI (XI (XI (XI (XI (XO (XI (XO (XI (XO (XI
    (XO (XO (XI (XO (XO (XO (XO (XI (XO (XI (XO (XI (XO (XO (XO (XI (XI (XI
    (XI (XO (XO (XO (XO (XO (XI (XI (XO (XI (XI (XO (XI (XI (XI (XI (XO (XI
    (XO (XO (XO (XI (XI (XI
    XH))))))))))))))))))))))))))))))))))))))))))))))))))))))))))))) :: ((Npos
    (XI (XO (XO (XI (XI (XO (XI (XI (XO (XI (XO (XO (XI (XI (XO (XI (XO (XO
    (XO (XO (XI (XO (XO (XI (XO (XI (XI (XI (XO (XI (XO (XO (XI (XI (XO (XI
    (XO (XO (XI (XO (XI (XI (XI (XO (XI (XI (XI (XI (XI (XI (XO (XO (XO (XI
    (XO (XI (XO (XI (XI (XI (XI
    XH)))))))))))))))))))))))))))))))))))))))))))))))))))))))))))))) :: ((Npos
    (XI (XO (XI (XO (XI (XI (XI (XO (XI (XI (XO (XI (XO (XI (XI (XO (XO (XI
    (XO (XI (XO (XO (XO (XI (XI (XO (XO (XO (XO (XO (XI (XI (XI (XO (XO (XI
    (XI (XI (XI (XO (XI (XO (XI (XI (XO (XO (XI (XO (XI (XI (XI (XI (XO (XI
    (XI (XO (XI (XI (XO (XI (XI (XO
    XH))))))))))))))))))))))))))))))))))))))))))))))))))))))))))))))) :: ((Npos
    (XO (XI (XI (XO (XO (XI (XO (XI (XO (XO (XO (XI (XO (XO (XI (XI (XI (XO
    (XO (XI (XO (XO (XI (XI (XO (XO (XI (XI (XO (XI (XI (XI (XI (XI (XI (XI
    (XI (XI (XO (XI (XO (XI (XO (XI (XO (XO (XO (XI (XI (XO (XO (XO (XO (XO
    (XI (XO (XO (XO (XO (XO
    XH))))))))))))))))))))))))))))))))))))))))))))))))))))))))))))) :: ((Npos
    (XI (XO (XI (XI (XI (XO (XI (XI (XO (XI (XI (XO (XI (XO (XO (XI (XI (XI
    (XI (XI (XO (XI (XI (XO (XO (XI (XO (XO (XI (XI (XI (XI (XI (XO (XI (XI
    (XI (XO (XI (XI (XO (XI (XI (XO (XI (XO (XI (XO (XO (XI (XI (XI (XO (XI
    (XI (XO (XI (XI (XO (XI (XO (XI (XO
    XH)))))))))))))))))))))))))))))))))))))))))))))))))))))))))))))))) :: ((Npos
    (XO (XO (XI (XI (XI (XI (XI (XI (XI (XI (XI (XI (XO (XO (XO (XI (XO (XI
    (XI (XI (XI (XO (XI (XO (XI (XI (XI (XI (XO (XO (XI (XI (XO (XI (XO (XO
    (XI (XO (XO (XO (XO (XO (XO (XO (XI (XI (XI (XO (XI (XI (XO (XO (XO (XO
    (XO (XO (XO (XI (XI (XI (XO (XI (XI
    XH)))))))))))))))))))))))))))))))))))))))))))))))))))))))))))))))) :: ((Npos
    (XI (XI (XI (XO (XO (XO (XO (XO (XI (XI (XI (XI (XO (XO (XO (XI (XI (XO
    (XO (XO (XI (XO (XI (XI (XI (XO (XO (XO (XI (XI (XI (XO (XO (XI (XI (XI
    (XO (XO (XO (XI (XI (XO (XO (XO (XO (XO (XI (XO (XO (XO (XI (XI (XI (XO
    (XI (XO (XO (XI (XO (XO (XO (XO (XO
    XH)))))))))))))))))))))))))))))))))))))))))))))))))))))))))))))))) :: ((Npos
    (XI (XO (XO (XO (XI (XO (XI (XI (XI (XO (XO (XI (XO (XO (XO (XI (XO (XI
    (XO (XO (XI (XI (XO (XI (XO (XO (XO (XI (XI (XI (XO (XO (XO (XO (XO (XO
    (XO (XI (XI (XI (XI (XI (XO (XI (XO (XI (XI (XI (XO (XO (XO (XO (XO (XI
    (XO (XI (XO (XO (XO (XO
    XH))))))))))))))))))))))))))))))))))))))))))))))))))))))))))))) :: ((Npos
    (XO (XO (XI (XO (XO (XI (XO (XO (XO (XO (XO (XO (XI (XO (XO (XO (XI (XO
    (XI (XO (XO (XI (XO (XO (XI (XO (XO (XI (XO (XI (XI (XO (XO (XI (XI (XO
    (XI (XO (XI (XO (XO (XI (XO (XO (XI (XI (XI (XO (XO (XI (XI (XO (XO (XO
    (XI (XO (XO (XI (XI (XI (XI (XI (XO
    XH)))))))))))))))))))))))))))))))))))))))))))))))))))))))))))))))) :: ((Npos
    (XI (XO (XO (XO (XO (XO (XO (XI (XO (XO (XI (XI (XO (XI (XO (XO (XO (XO
    (XO (XO (XO (XO (XO (XO (XO (XI (XI (XI (XO (XO (XO (XO (XO (XO (XO (XO
    (XI (XI (XI (XO (XI (XI (XO (XO (XI (XO (XO (XO (XI (XI (XO (XI (XO (XO
    (XO (XI (XI (XI (XI (XO (XO (XI (XI
    XH)))))))))))))))))))))))))))))))))))))))))))))))))))))))))))))))) :: ((Npos
    (XI (XI (XO (XO (XO (XO (XO (XI (XO (XO (XO (XI (XO (XO (XO (XO (XI (XO
    (XO (XI (XO (XI (XO (XO (XI (XO (XO (XO (XO (XO (XI (XI (XO (XO (XI (XI
    (XI (XO (XI (XI (XO (XI (XO (XI (XO (XO (XI (XO (XI (XO (XO (XI (XO (XI
    (XO (XI (XO (XI (XI (XI (XO (XO (XI
    XH)))))))))))))))))))))))))))))))))))))))))))))))))))))))))))))))) :: ((Npos
    (XO (XO (XO (XO (XI (XO (XO (XI (XI (XI (XI (XO (XI (XI (XI (XO (XI (XO
    (XO (XO (XI (XI (XO (XO (XO (XI (XI (XO (XO (XI (XI (XI (XO (XI (XO (XI
    (XO (XI (XI (XO (XO (XO (XI (XO (XI (XO (XI (XI (XO (XI (XO (XI (XI (XO
    (XO (XI (XO (XO (XO (XI (XO (XO (XO
    XH)))))))))))))))))))))))))))))))))))))))))))))))))))))))))))))))) :: ((Npos
    (XI (XI (XI (XI (XI (XO (XI (XO (XO (XO (XO (XI (XO (XI (XO (XO (XI (XO
    (XO (XO (XI (XI (XI (XI (XO (XI (XI (XI (XO (XO (XI (XO (XO (XI (XO (XI
    (XO (XO (XI (XO (XO (XO (XI (XI (XI (XO (XI (XO (XI (XI (XO (XI (XI (XI
    (XI (XI (XO (XO (XI (XI (XI (XO (XO
    XH)))))))))))))))))))))))))))))))))))))))))))))))))))))))))))))))) :: ((Npos
    (XI (XI (XI (XO (XO (XO (XI (XO (XO (XI (XI (XI (XO (XO (XO (XI (XO (XO
    (XI (XO (XI (XO (XI (XO (XI (XI (XO (XI (XI (XI (XO (XO (XI (XI (XI (XO
    (XO (XO (XO (XO (XO (XO (XO (XI (XO (XO (XO (XI (XI (XI (XI (XO (XI (XO
    (XI (XO (XI (XI (XO (XO (XI (XO
    XH))))))))))))))))))))))))))))))))))))))))))))))))))))))))))))))) :: ((Npos
    (XO (XO (XI (XI (XI (XI (XO (XO (XI (XO (XI (XO (XO (XO (XO (XI (XI (XO
    (XI (XO (XI (XI (XO (XI (XO (XI (XI (XO (XI (XI (XO (XI (XI (XI (XI (XO
    (XO (XI (XI (XI (XI (XO (XO (XI (XI (XO (XO (XO (XO (XI (XO (XI (XO (XO
    (XI (XI (XI (XO (XI (XI (XI (XO (XO
    XH)))))))))))))))))))))))))))))))))))))))))))))))))))))))))))))))) :: ((Npos
    (XI (XI (XI (XI (XI (XI (XO (XO (XO (XO (XO (XO (XI (XO (XO (XI (XI (XO
    (XO (XI (XI (XO (XI (XI (XO (XI (XI (XO (XO (XO (XO (XI (XI (XI (XI (XO
    (XI (XI (XO (XI (XO (XO (XI (XI (XI (XO (XO (XO (XO (XI (XO (XI (XI (XO
    (XO (XI (XO (XO (XI (XI (XO (XO (XI
    XH)))))))))))))))))))))))))))))))))))))))))))))))))))))))))))))))) :: ((Npos
    (XI (XI (XI (XO (XO (XI (XO (XO (XO (XO (XI (XI (XO (XO (XI (XI (XO (XO
    (XO (XI (XO (XO (XI (XO (XI (XI (XI (XI (XI (XI (XI (XI (XO (XO (XI (XO
    (XI (XI (XI (XI (XI (XI (XI (XI (XO (XI (XI (XO (XO (XI (XI (XO (XI (XO
    (XO (XO (XI (XO (XI (XO
    XH))))))))))))))))))))))))))))))))))))))))))))))))))))))))))))) :: ((Npos
    (XO (XI (XO (XI (XO (XI (XO (XI (XO (XI (XO (XO (XI (XI (XI (XI (XI (XI
    (XO (XI (XO (XO (XI (XI (XO (XO (XI (XI (XI (XI (XI (XO (XI (XI (XO (XI
    (XO (XI (XO (XI (XI (XI (XI (XI (XI (XI (XO (XO (XO (XO (XI (XI (XO (XO
    (XO (XI (XO (XO (XO (XI (XI (XI
    XH))))))))))))))))))))))))))))))))))))))))))))))))))))))))))))))) :: ((Npos
    (XO (XI (XO (XO (XO (XI (XO (XO (XI (XO (XI (XI (XI (XO (XI (XI (XI (XO
    (XO (XI (XI (XO (XI (XI (XI (XI (XI (XI (XO (XI (XI (XI (XO (XI (XI (XO
    (XO (XI (XO (XO (XI (XI (XI (XI (XI (XI (XI (XI (XO (XI (XI (XI (XI (XI
    (XI (XO (XO (XI (XI (XO (XI
    XH)))))))))))))))))))))))))))))))))))))))))))))))))))))))))))))) :: ((Npos
    (XO (XO (XO (XI (XO (XI (XO (XI (XI (XO (XI (XI (XI (XO (XI (XO (XO (XI
    (XO (XO (XI (XI (XI (XI (XI (XI (XI (XI (XO (XO (XI (XO (XO (XO (XO (XI
    (XO (XI (XO (XO (XO (XI (XI (XI (XO (XI (XO (XI (XI (XI (XO (XO (XI (XO
    (XI (XI (XO
    XH)))))))))))))))))))))))))))))))))))))))))))))))))))))))))) :: ((Npos
    (XI (XI (XO (XI (XI (XO (XO (XI (XO (XO (XI (XI (XO (XO (XI (XI (XI (XO
    (XI (XO (XO (XO (XI (XI (XI (XO (XI (XO (XI (XI (XI (XI (XI (XO (XI (XI
    (XI (XI (XI (XI (XO (XI (XO (XO (XO (XO (XO (XI (XO (XI (XI (XO (XI (XI
    (XI (XI (XI (XI (XI (XI (XI (XI
    XH))))))))))))))))))))))))))))))))))))))))))))))))))))))))))))))) :: ((Npos
    (XI (XI (XO (XO (XI (XI (XO (XO (XO (XI (XI (XO (XO (XI (XO (XO (XI (XI
    (XO (XO (XI (XI (XI (XI (XI (XO (XO (XO (XO (XI (XI (XI (XI (XI (XO (XO
    (XI (XO (XO (XO (XO (XI (XO (XI (XI (XO (XI (XO (XO (XO (XO (XO (XO (XO
    (XI (XI (XO (XI (XO (XO (XI (XO (XO
    XH)))))))))))))))))))))))))))))))))))))))))))))))))))))))))))))))) :: ((Npos
    (XI (XO (XO (XI (XO (XI (XO (XI (XO (XO (XO (XO (XO (XO (XO (XI (XO (XI
    (XO (XI (XI (XO (XO (XI (XO (XI (XI (XO (XI (XO (XO (XI (XO (XI (XI (XO
    (XO (XI (XO (XI (XO (XI (XO (XO (XI (XO (XI (XO (XI (XI (XO (XO (XI (XI
    (XO (XO (XI (XI (XO (XI (XI (XO (XI
    XH)))))))))))))))))))))))))))))))))))))))))))))))))))))))))))))))) :: ((Npos
    (XI (XI (XI (XI (XO (XO (XI (XO (XI (XI (XO (XO (XO (XI (XO (XO (XI (XO
    (XO (XO (XO (XI (XO (XI (XI (XI (XI (XI (XO (XI (XO (XO (XO (XI (XI (XO
    (XI (XI (XI (XI (XI (XO (XO (XO (XO (XI (XI (XO (XI (XI (XI (XI (XO (XO
    (XO (XI (XO (XO (XO (XO (XI (XI (XI
    XH)))))))))))))))))))))))))))))))))))))))))))))))))))))))))))))))) :: ((Npos
    (XO (XI (XO (XO (XI (XO (XI (XO (XO (XI (XO (XI (XI (XO (XO (XO (XI (XI
    (XI (XO (XO (XI (XO (XO (XI (XO (XI (XO (XO (XO (XI (XI (XI (XI (XI (XI
    (XI (XI (XO (XI (XO (XO (XI (XO (XI (XI (XO (XI (XI (XO (XI (XO (XO (XO
    (XI (XI (XO (XI (XI (XO (XI
    XH)))))))))))))))))))))))))))))))))))))))))))))))))))))))))))))) :: ((Npos
    (XI (XI (XI (XI (XI (XO (XI (XO (XI (XO (XO (XO (XO (XI (XI (XI (XO (XO
    (XI (XO (XO (XI (XI (XI (XO (XI (XI (XI (XO (XO (XI (XI (XO (XI (XO (XI
    (XO (XO (XI (XO (XO (XI (XO (XO (XO (XI (XI (XO (XI (XO (XO (XO (XI (XI
    (XO (XI (XI (XO (XI (XI (XO (XO (XO
    XH)))))))))))))))))))))))))))))))))))))))))))))))))))))))))))))))) :: ((Npos
    (XO (XO (XO (XI (XI (XO (XI (XO (XO (XO (XI (XI (XO (XO (XI (XO (XI (XI
    (XO (XI (XO (XO (XO (XI (XO (XO (XI (XO (XI (XI (XI (XO (XI (XI (XO (XI
    (XI (XO (XO (XI (XI (XI (XO (XI (XO (XI (XI (XO (XO (XI (XI (XO (XO (XI
    (XO (XI (XI (XI (XO (XI (XI (XI
    XH))))))))))))))))))))))))))))))))))))))))))))))))))))))))))))))) :: ((Npos
    (XI (XI (XI (XI (XI (XI (XI (XI (XO (XI (XI (XI (XO (XO (XO (XO (XI (XO
    (XI (XO (XI (XO (XI (XO (XO (XI (XI (XI (XI (XO (XO (XI (XI (XO (XI (XI
    (XI (XI (XI (XO (XO (XI (XI (XI (XI (XI (XI (XI (XO (XI (XO (XI (XO (XO
    (XO (XI (XI (XI (XI (XO
    XH))))))))))))))))))))))))))))))))))))))))))))))))))))))))))))) :: ((Npos
    (XO (XI (XO (XO (XI (XI (XI (XO (XI (XI (XO (XO (XI (XI (XO (XO (XO (XO
    (XI (XI (XI (XO (XI (XO (XI (XI (XO (XO (XI (XO (XO (XI (XO (XI (XO (XI
    (XI (XO (XI (XO (XI (XO (XO (XO (XO (XO (XO (XI (XO (XO (XI (XO (XO (XO
    (XI (XO (XI (XI (XO (XO (XI (XO
    XH))))))))))))))))))))))))))))))))))))))))))))))))))))))))))))))) :: ((Npos
    (XO (XO (XO (XI (XO (XO (XI (XI (XO (XO (XO (XO (XI (XI (XI (XI (XI (XI
    (XO (XI (XI (XI (XI (XI (XO (XO (XI (XO (XI (XI (XI (XO (XO (XI (XI (XI
    (XI (XO (XI (XI (XI (XI (XO (XO (XO (XI (XO (XO (XO (XI (XI (XO (XI (XI
    (XI (XI (XI (XO
    XH))))))))))))))))))))))))))))))))))))))))))))))))))))))))))) :: ((Npos
    (XI (XO (XO (XI (XI (XI (XI (XI (XI (XI (XI (XI (XO (XO (XO (XO (XO (XI
    (XI (XI (XI (XO (XI (XO (XO (XI (XO (XI (XO (XO (XO (XI (XO (XO (XI (XI
    (XO (XO (XI (XI (XI (XI (XI (XI (XO (XI (XI (XI (XO (XO (XO (XO (XO (XO
    (XI (XI
    XH))))))))))))))))))))))))))))))))))))))))))))))))))))))))) :: ((Npos (XI
    (XO (XO (XO (XI (XI (XO (XI (XO (XI (XI (XI (XI (XO (XI (XO (XI (XO (XO
    (XI (XI (XO (XI (XO (XO (XO (XO (XO (XO (XI (XI (XI (XI (XI (XI (XO (XI
    (XO (XO (XI (XO (XI (XI (XO (XI (XI (XO (XO (XO (XI (XO (XO (XO (XI (XO
    (XO (XO (XO (XO (XI (XI (XI (XI
    XH)))))))))))))))))))))))))))))))))))))))))))))))))))))))))))))))) :: ((Npos
    (XO (XO (XI (XI (XO (XO (XO (XI (XO (XO (XO (XO (XI (XO (XI (XI (XO (XI
    (XI (XI (XO (XO (XO (XO (XI (XI (XO (XO (XI (XI (XO (XI (XO (XO (XO (XI
    (XO (XI (XO (XO (XI (XO (XO (XI (XI (XI (XI (XI (XI (XI (XI (XO (XO (XO
    (XO (XI (XO (XO (XO (XI (XO (XO
    XH))))))))))))))))))))))))))))))))))))))))))))))))))))))))))))))) :: ((Npos
    (XI (XI (XO (XI (XI (XO (XO (XO (XO (XI (XI (XI (XO (XI (XO (XO (XI (XI
    (XO (XO (XO (XI (XO (XO (XI (XI (XI (XO (XI (XO (XI (XI (XI (XO (XI (XI
    (XI (XI (XI (XI (XO (XI (XO (XI (XI (XO (XI (XO (XI (XI (XI (XO (XI (XI
    (XI (XO (XI (XI (XI (XO (XI (XO
    XH))))))))))))))))))))))))))))))))))))))))))))))))))))))))))))))) :: ((Npos
    (XI (XO (XO (XI (XO (XO (XO (XO (XO (XO (XO (XO (XI (XI (XO (XO (XI (XI
    (XI (XI (XI (XO (XI (XO (XO (XO (XI (XI (XO (XI (XO (XI (XO (XO (XO (XI
    (XI (XO (XI (XO (XO (XI (XO (XO (XO (XO (XO (XI (XO (XI (XO (XI (XO (XO
    (XI (XI (XI (XI (XI (XI (XI (XO
    XH))))))))))))))))))))))))))))))))))))))))))))))))))))))))))))))) :: ((Npos
    (XI (XI (XI (XO (XO (XI (XI (XO (XO (XO (XO (XI (XI (XI (XO (XO (XO (XO
    (XO (XI (XO (XI (XO (XO (XO (XO (XO (XI (XO (XO (XI (XO (XI (XO (XO (XI
    (XO (XO (XO (XO (XO (XO (XO (XO (XO (XI (XO (XI (XI (XO (XO (XO (XI (XO
    (XO (XO (XO (XI (XO (XO (XO (XI (XI
    XH)))))))))))))))))))))))))))))))))))))))))))))))))))))))))))))))) :: ((Npos
    (XI (XI (XO (XO (XO (XO (XI (XO (XI (XO (XO (XO (XO (XI (XO (XI (XI (XI
    (XO (XO (XO (XO (XI (XI (XI (XI (XI (XI (XO (XO (XO (XI (XO (XI (XO (XI
    (XO (XI (XO (XO (XO (XO (XO (XI (XO (XI (XO (XO (XO (XI (XI (XO (XI (XI
    (XO (XI (XI (XI (XO (XO (XO (XO (XI
    XH)))))))))))))))))))))))))))))))))))))))))))))))))))))))))))))))) :: ((Npos
    (XO (XI (XO (XO (XO (XO (XO (XO (XI (XI (XI (XI (XO (XI (XI (XI (XO (XO
    (XI (XI (XI (XI (XI (XI (XO (XO (XO (XO (XO (XO (XO (XO (XI (XO (XI (XI
    (XI (XO (XI (XI (XO (XI (XO (XI (XO (XI (XI (XI (XI (XO (XO (XO (XO (XO
    (XI (XO (XI (XI (XO (XI (XI (XO (XO
    XH)))))))))))))))))))))))))))))))))))))))))))))))))))))))))))))))) :: ((Npos
    (XO (XI (XI (XI (XI (XI (XO (XI (XI (XO (XO (XI (XI (XI (XO (XO (XO (XI
    (XO (XI (XI (XI (XI (XI (XI (XI (XO (XO (XI (XO (XO (XO (XI (XI (XO (XO
    (XO (XO (XO (XO (XI (XI (XI (XI (XI (XO (XI (XI (XO (XO (XO (XO (XI (XO
    (XI (XO (XO (XI (XI (XI (XI (XI (XO
    XH)))))))))))))))))))))))))))))))))))))))))))))))))))))))))))))))) :: ((Npos
    (XI (XO (XO (XO (XI (XO (XI (XO (XI (XO (XO (XI (XI (XI (XI (XO (XO (XI
    (XO (XI (XO (XI (XI (XI (XI (XO (XI (XI (XI (XO (XO (XO (XO (XO (XI (XI
    (XO (XI (XI (XO (XI (XI (XI (XI (XO (XI (XI (XO (XO (XO (XO (XO (XO (XI
    (XO (XI (XI (XO (XO (XI (XO (XI
    XH))))))))))))))))))))))))))))))))))))))))))))))))))))))))))))))) :: ((Npos
    (XO (XI (XO (XO (XO (XO (XI (XO (XO (XI (XI (XO (XO (XO (XO (XO (XO (XI
    (XO (XI (XO (XI (XI (XO (XO (XI (XI (XO (XO (XI (XO (XO (XI (XI (XO (XO
    (XI (XI (XI (XO (XO (XO (XO (XI (XO (XI (XI (XO (XO (XI (XI (XI (XO (XO
    (XO (XO (XO (XI (XI (XI (XI (XO (XO
    XH)))))))))))))))))))))))))))))))))))))))))))))))))))))))))))))))) :: ((Npos
    (XI (XO (XI (XO (XI (XI (XO (XO (XO (XI (XO (XO (XO (XO (XI (XI (XI (XO
    (XO (XI (XI (XO (XI (XO (XI (XI (XO (XI (XO (XO (XO (XI (XI (XI (XO (XO
    (XI (XI (XO (XO (XI (XI (XI (XI (XI (XI (XO (XI (XO (XO (XI (XI (XO (XO
    (XI (XO (XI (XO (XO (XO (XO (XO
    XH))))))))))))))))))))))))))))))))))))))))))))))))))))))))))))))) :: ((Npos
    (XI (XO (XO (XI (XI (XI (XO (XO (XO (XO (XO (XI (XO (XO (XO (XO (XO (XO
    (XI (XI (XI (XO (XI (XO (XI (XO (XO (XO (XO (XO (XI (XO (XO (XO (XO (XO
    (XO (XI (XI (XO (XI (XI (XO (XO (XI (XO (XI (XO (XO (XI (XI (XI (XI (XI
    (XO (XO (XO (XI (XI (XI (XO (XO (XO
    XH)))))))))))))))))))))))))))))))))))))))))))))))))))))))))))))))) :: ((Npos
    (XI (XI (XI (XO (XO (XO (XO (XI (XI (XI (XI (XO (XI (XO (XO (XI (XO (XO
    (XI (XO (XO (XO (XI (XI (XI (XO (XO (XO (XO (XI (XO (XO (XO (XI (XI (XO
    (XO (XO (XI (XI (XI (XI (XI (XO (XI (XO (XO (XI (XI (XI (XI (XI (XO (XI
    (XI (XO (XI (XI (XI (XI (XO (XI
    XH))))))))))))))))))))))))))))))))))))))))))))))))))))))))))))))) :: ((Npos
    (XI (XO (XO (XO (XI (XI (XO (XO (XO (XO (XI (XI (XO (XO (XI (XO (XO (XI
    (XI (XI (XI (XI (XO (XI (XO (XI (XI (XO (XO (XO (XI (XI (XI (XI (XO (XO
    (XI (XO (XO (XO (XO (XI (XO (XI (XO (XO (XI (XI (XO (XO (XO (XI (XI (XI
    (XI (XO (XO (XO (XO (XI
    XH))))))))))))))))))))))))))))))))))))))))))))))))))))))))))))) :: ((Npos
    (XI (XO (XI (XI (XI (XI (XI (XI (XI (XI (XO (XI (XI (XI (XI (XO (XO (XI
    (XI (XI (XI (XI (XO (XO (XI (XO (XI (XO (XO (XI (XO (XO (XO (XO (XO (XI
    (XI (XO (XO (XO (XO (XI (XO (XO (XO (XI (XI (XI (XI (XI (XO (XO (XO (XO
    (XI (XO (XI (XO (XO (XO (XI (XO (XI
    XH)))))))))))))))))))))))))))))))))))))))))))))))))))))))))))))))) :: ((Npos
    (XI (XI (XI (XO (XO (XI (XI (XI (XO (XO (XO (XO (XI (XO (XO (XO (XI (XI
    (XO (XI (XI (XO (XO (XI (XO (XO (XI (XO (XI (XO (XI (XO (XO (XI (XI (XI
    (XI (XO (XO (XO (XO (XO (XO (XI (XI (XI (XO (XI (XO (XI (XI (XO (XI (XI
    (XO (XI (XI (XI (XI (XI
    XH))))))))))))))))))))))))))))))))))))))))))))))))))))))))))))) :: ((Npos
    (XI (XO (XO (XI (XO (XO (XO (XI (XO (XI (XI (XI (XO (XI (XO (XI (XI (XI
    (XO (XI (XO (XI (XO (XI (XO (XO (XI (XO (XI (XO (XO (XO (XI (XI (XO (XI
    (XO (XI (XO (XO (XI (XI (XI (XI (XI (XO (XI (XI (XO (XO (XI (XI (XI (XO
    (XO (XO (XO (XO (XO (XI (XO (XO (XO
    XH)))))))))))))))))))))))))))))))))))))))))))))))))))))))))))))))) :: ((Npos
    (XO (XO (XO (XI (XI (XO (XI (XI (XO (XI (XI (XO (XO (XO (XO (XI (XI (XI
    (XO (XI (XI (XI (XI (XO (XI (XO (XO (XO (XI (XI (XI (XI (XI (XI (XI (XO
    (XI (XI (XO (XI (XI (XI (XI (XO (XO (XI (XI (XI (XI (XI (XI (XO (XO (XI
    (XO (XI (XI (XO (XI (XI (XO (XO (XO
    XH)))))))))))))))))))))))))))))))))))))))))))))))))))))))))))))))) :: ((Npos
    (XI (XI (XO (XI (XI (XI (XO (XI (XO (XO (XO (XI (XO (XO (XO (XI (XO (XO
    (XO (XO (XO (XO (XO (XI (XO (XO (XI (XI (XO (XI (XI (XO (XI (XI (XI (XO
    (XO (XO (XI (XO (XI (XI (XI (XO (XI (XO (XI (XO (XI (XO (XI (XO (XI (XI
    (XI (XO (XO (XI (XI
    XH)))))))))))))))))))))))))))))))))))))))))))))))))))))))))))) :: ((Npos
    (XO (XI (XI (XO (XO (XO (XO (XO (XO (XI (XI (XI (XI (XI (XO (XI (XI (XI
    (XI (XI (XO (XO (XO (XI (XO (XO (XO (XO (XI (XI (XO (XO (XI (XO (XO (XO
    (XI (XO (XO (XI (XI (XO (XO (XI (XO (XO (XI (XI (XO (XI (XO (XO (XI (XO
    (XO (XI (XO (XI (XO (XI (XI (XI (XI
    XH)))))))))))))))))))))))))))))))))))))))))))))))))))))))))))))))) :: ((Npos
    (XO (XO (XO (XI (XO (XI (XI (XI (XI (XO (XI (XO (XO (XI (XI (XO (XI (XI
    (XI (XI (XO (XO (XI (XO (XO (XO (XO (XI (XI (XO (XO (XI (XI (XO (XI (XO
    (XO (XI (XI (XI (XI (XI (XO (XO (XI (XO (XO (XI (XI (XO (XO (XI (XI (XO
    (XO (XI (XO (XI (XO (XI (XI (XI (XI
    XH)))))))))))))))))))))))))))))))))))))))))))))))))))))))))))))))) :: ((Npos
    (XI (XO (XO (XO (XI (XO (XO (XI (XI (XI (XI (XO (XO (XO (XO (XO (XI (XO
    (XI (XO (XI (XO (XO (XI (XO (XO (XO (XI (XO (XO (XO (XI (XI (XI (XI (XO
    (XI (XI (XO (XI (XO (XO (XI (XO (XO (XO (XO (XO (XI (XO (XI (XI (XI (XI
    (XO (XO (XO (XI (XO (XO (XI (XI (XI
    XH)))))))))))))))))))))))))))))))))))))))))))))))))))))))))))))))) :: ((Npos
    (XO (XI (XO (XI (XI (XO (XO (XO (XO (XI (XO (XI (XI (XI (XI (XI (XO (XO
    (XI (XO (XO (XI (XO (XI (XI (XI (XO (XI (XI (XI (XO (XI (XI (XI (XO (XI
    (XO (XO (XO (XO (XI (XI (XI (XI (XO (XI (XI (XI (XO (XO (XO (XI (XI (XO
    (XO (XO (XI (XO (XI (XO (XO (XO (XO
    XH)))))))))))))))))))))))))))))))))))))))))))))))))))))))))))))))) :: ((Npos
    (XI (XI (XO (XI (XI (XO (XO (XO (XI (XO (XO (XI (XO (XO (XI (XI (XO (XI
    (XO (XO (XO (XI (XI (XO (XI (XO (XO (XO (XO (XO (XI (XI (XI (XO (XO (XO
    (XI (XO (XO (XI (XO (XI (XI (XO (XO (XO (XI (XI (XI (XO (XO (XI (XI (XI
    (XI (XO (XI (XO (XO (XO (XI (XI (XO
    XH)))))))))))))))))))))))))))))))))))))))))))))))))))))))))))))))) :: ((Npos
    (XI (XI (XI (XO (XI (XO (XI (XO (XO (XO (XI (XI (XO (XO (XI (XI (XI (XO
    (XO (XO (XI (XO (XO (XI (XO (XI (XI (XO (XO (XO (XO (XI (XO (XI (XO (XO
    (XO (XI (XI (XI (XI (XO (XO (XI (XI (XO (XO (XI (XI (XI (XO (XO (XI (XI
    (XO (XI (XO (XO (XO (XI (XI (XI (XI
    XH)))))))))))))))))))))))))))))))))))))))))))))))))))))))))))))))) :: ((Npos
    (XO (XO (XI (XI (XI (XO (XI (XI (XI (XO (XI (XI (XI (XI (XO (XO (XO (XO
    (XI (XI (XI (XI (XI (XO (XI (XI (XI (XO (XI (XO (XO (XI (XI (XI (XI (XO
    (XI (XI (XO (XO (XI (XI (XI (XI (XO (XI (XO (XI (XI (XI (XI (XO (XO (XI
    (XI (XO (XO (XO (XI (XI (XI (XO
    XH))))))))))))))))))))))))))))))))))))))))))))))))))))))))))))))) :: ((Npos
    (XI (XI (XI (XO (XI (XO (XI (XI (XO (XO (XO (XO (XO (XO (XO (XI (XI (XO
    (XI (XO (XI (XI (XI (XO (XO (XI (XI (XI (XO (XI (XO (XI (XO (XO (XO (XO
    (XI (XI (XO (XO (XO (XO (XO (XO (XI (XI (XO (XO (XO (XO (XI (XO (XO (XI
    (XI (XI (XO (XO (XO
    XH)))))))))))))))))))))))))))))))))))))))))))))))))))))))))))) :: ((Npos
    (XI (XO (XO (XI (XI (XI (XI (XO (XI (XI (XI (XO (XI (XI (XI (XI (XI (XO
    (XO (XO (XO (XO (XI (XI (XI (XI (XO (XO (XI (XI (XO (XI (XI (XI (XI (XI
    (XO (XI (XO (XI (XO (XI (XO (XO (XI (XI (XO (XI (XO (XI (XI (XI (XO (XO
    (XI (XO (XI (XI
    XH))))))))))))))))))))))))))))))))))))))))))))))))))))))))))) :: ((Npos
    (XI (XO (XI (XI (XO (XO (XI (XI (XO (XI (XI (XI (XO (XI (XO (XI (XO (XO
    (XI (XO (XO (XO (XI (XI (XI (XI (XI (XI (XI (XO (XI (XO (XO (XI (XO (XO
    (XO (XO (XO (XO (XO (XI (XI (XO (XO (XO (XO (XO (XI (XI (XI (XO (XI (XO
    (XI (XO (XO (XO (XO (XO (XO (XI (XO
    XH)))))))))))))))))))))))))))))))))))))))))))))))))))))))))))))))) :: ((Npos
    (XO (XI (XI (XO (XI (XI (XO (XI (XI (XO (XO (XO (XO (XI (XI (XI (XO (XO
    (XO (XO (XO (XO (XI (XO (XI (XO (XI (XI (XI (XO (XO (XI (XO (XO (XI (XO
    (XI (XO (XO (XI (XO (XO (XI (XO (XO (XO (XO (XO (XO (XO (XO (XI (XO (XO
    (XO (XI (XO (XI (XI (XO (XI (XI (XI
    XH)))))))))))))))))))))))))))))))))))))))))))))))))))))))))))))))) :: ((Npos
    (XO (XO (XI (XO (XO (XI (XI (XI (XO (XO (XO (XI (XI (XO (XO (XO (XO (XO
    (XO (XI (XO (XO (XO (XI (XI (XO (XI (XO (XI (XO (XO (XO (XO (XI (XI (XO
    (XI (XI (XI (XO (XI (XI (XI (XO (XI (XI (XI (XI (XO (XO (XI (XO (XI (XO
    (XO (XI (XO (XO (XO (XI (XO (XI
    XH))))))))))))))))))))))))))))))))))))))))))))))))))))))))))))))) :: ((Npos
    (XO (XI (XO (XI (XO (XI (XO (XI (XI (XO (XI (XI (XI (XO (XI (XI (XI (XO
    (XI (XI (XO (XO (XI (XO (XO (XO (XO (XI (XI (XI (XO (XO (XI (XO (XI (XI
    (XI (XI (XO (XO (XI (XO (XI (XI (XO (XO (XO (XI (XO (XO (XI (XO (XI (XO
    (XO (XO (XI (XI (XI
    XH)))))))))))))))))))))))))))))))))))))))))))))))))))))))))))) :: ((Npos
    (XI (XI (XI (XO (XI (XI (XI (XO (XO (XO (XI (XO (XI (XO (XO (XO (XI (XI
    (XI (XI (XO (XI (XO (XO (XO (XI (XO (XO (XI (XI (XO (XI (XI (XO (XI (XO
    (XO (XO (XO (XI (XI (XI (XO (XO (XI (XI (XI (XO (XO (XI (XI (XI (XI (XI
    (XO (XI (XI (XO (XO (XI
    XH))))))))))))))))))))))))))))))))))))))))))))))))))))))))))))) :: ((Npos
    (XI (XO (XO (XI (XO (XI (XI (XI (XO (XO (XO (XO (XI (XI (XO (XI (XI (XI
    (XI (XI (XO (XI (XO (XI (XI (XI (XI (XI (XO (XI (XO (XI (XI (XO (XO (XI
    (XI (XO (XI (XI (XI (XI (XO (XO (XI (XI (XO (XO (XO (XO (XO (XI (XI (XI
    (XO (XI (XI (XI (XI (XI (XO (XO
    XH))))))))))))))))))))))))))))))))))))))))))))))))))))))))))))))) :: ((Npos
    (XO (XI (XO (XI (XO (XI (XO (XO (XI (XI (XO (XI (XO (XO (XI (XO (XO (XI
    (XO (XO (XO (XI (XI (XI (XO (XO (XI (XO (XO (XI (XI (XO (XO (XI (XO (XI
    (XI (XO (XI (XI (XI (XI (XO (XO (XO (XO (XI (XO (XO (XI (XO (XO (XO (XO
    (XO (XO (XO (XO (XO
    XH)))))))))))))))))))))))))))))))))))))))))))))))))))))))))))) :: ((Npos
    (XI (XO (XO (XO (XI (XO (XO (XO (XI (XI (XI (XI (XI (XO (XO (XO (XI (XO
    (XO (XI (XO (XI (XI (XI (XI (XI (XO (XI (XI (XO (XO (XI (XO (XO (XO (XI
    (XI (XI (XO (XO (XI (XO (XI (XI (XI (XI (XI (XO (XI (XO (XI (XO (XO (XO
    (XI (XI (XO (XO (XI (XI (XI (XO (XI
    XH)))))))))))))))))))))))))))))))))))))))))))))))))))))))))))))))) :: ((Npos
    (XI (XI (XI (XI (XI (XO (XI (XO (XO (XO (XO (XO (XI (XI (XO (XI (XO (XI
    (XO (XI (XO (XO (XI (XO (XI (XI (XI (XO (XO (XO (XI (XI (XI (XI (XI (XI
    (XO (XI (XO (XI (XO (XO (XI (XI (XO (XO (XI (XI (XI (XO (XI (XO (XO (XO
    (XO (XO (XI (XI (XO (XI (XO (XO (XO
    XH)))))))))))))))))))))))))))))))))))))))))))))))))))))))))))))))) :: ((Npos
    (XI (XI (XO (XO (XI (XI (XO (XO (XO (XI (XO (XO (XO (XO (XI (XI (XI (XO
    (XO (XI (XI (XO (XO (XO (XI (XO (XO (XI (XO (XI (XO (XI (XI (XI (XO (XI
    (XO (XO (XO (XO (XO (XI (XO (XI (XO (XI (XO (XI (XI (XI (XI (XI (XO (XO
    (XI (XI (XI (XI (XI (XI (XO
    XH)))))))))))))))))))))))))))))))))))))))))))))))))))))))))))))) :: ((Npos
    (XI (XI (XO (XI (XO (XI (XI (XI (XI (XI (XI (XO (XO (XO (XO (XI (XO (XI
    (XO (XO (XI (XI (XI (XI (XO (XI (XO (XI (XI (XO (XO (XO (XO (XO (XO (XO
    (XI (XO (XO (XO (XO (XO (XI (XI (XO (XI (XI (XI (XO (XI (XI (XO (XO (XO
    (XI (XO (XI (XO (XI (XO
    XH))))))))))))))))))))))))))))))))))))))))))))))))))))))))))))) :: ((Npos
    (XI (XI (XI (XO (XO (XO (XI (XI (XI (XI (XO (XI (XO (XO (XI (XO (XO (XI
    (XO (XO (XO (XI (XO (XO (XO (XO (XO (XO (XI (XO (XI (XI (XO (XO (XO (XI
    (XI (XO (XI (XO (XI (XO (XI (XO (XI (XO (XO (XO (XI (XO (XI (XI (XO (XI
    (XO (XO (XI (XO (XO (XI (XI (XI (XO
    XH)))))))))))))))))))))))))))))))))))))))))))))))))))))))))))))))) :: ((Npos
    (XO (XI (XO (XI (XI (XO (XO (XI (XO (XI (XO (XI (XO (XI (XI (XI (XO (XO
    (XI (XO (XO (XO (XO (XO (XO (XI (XI (XO (XO (XI (XI (XI (XI (XO (XO (XI
    (XI (XI (XO (XI (XI (XO (XO (XI (XO (XI (XI (XI (XI (XO (XI (XO (XI (XO
    (XI (XO (XO (XO (XO (XO
    XH))))))))))))))))))))))))))))))))))))))))))))))))))))))))))))) :: ((Npos
    (XO (XO (XO (XO (XI (XO (XO (XO (XI (XO (XO (XI (XO (XO (XI (XI (XO (XO
    (XI (XO (XI (XI (XO (XI (XO (XO (XI (XI (XO (XO (XI (XO (XI (XI (XO (XI
    (XO (XI (XO (XI (XI (XO (XI (XI (XO (XI (XI (XO (XO (XO (XI (XI (XI (XI
    (XO (XO (XO (XI (XI (XI (XO (XO (XO
    XH)))))))))))))))))))))))))))))))))))))))))))))))))))))))))))))))) :: ((Npos
    (XO (XI (XI (XI (XO (XI (XO (XI (XI (XO (XO (XI (XO (XI (XI (XO (XI (XO
    (XI (XO (XO (XO (XI (XI (XO (XO (XO (XI (XI (XI (XO (XI (XO (XI (XO (XI
    (XI (XI (XI (XO (XI (XO (XI (XO (XI (XO (XO (XI (XO (XO (XO (XO (XO (XI
    (XO (XI (XI (XO (XO (XO (XI (XO
    XH))))))))))))))))))))))))))))))))))))))))))))))))))))))))))))))) :: ((Npos
    (XO (XI (XO (XO (XI (XI (XO (XO (XO (XO (XI (XI (XI (XI (XI (XO (XO (XI
    (XO (XO (XO (XI (XI (XI (XO (XI (XI (XI (XI (XI (XO (XI (XO (XI (XI (XO
    (XI (XI (XO (XO (XI (XI (XI (XO (XO (XO (XI (XO (XO (XO (XI (XI (XO (XI
    (XI (XI (XI (XI (XI (XI (XI (XO (XI
    XH)))))))))))))))))))))))))))))))))))))))))))))))))))))))))))))))) :: ((Npos
    (XI (XO (XO (XO (XO (XO (XI (XO (XI (XO (XI (XO (XI (XO (XI (XI (XI (XO
    (XI (XI (XO (XI (XO (XI (XO (XI (XI (XI (XO (XI (XI (XI (XI (XO (XO (XO
    (XO (XO (XI (XO (XO (XI (XO (XI (XO (XI (XI (XI (XO (XI (XI (XI (XI (XI
    (XI (XI (XO (XI (XO (XO
    XH))))))))))))))))))))))))))))))))))))))))))))))))))))))))))))) :: ((Npos
    (XO (XI (XO (XO (XI (XO (XI (XO (XO (XO (XI (XO (XI (XO (XO (XO (XO (XO
    (XI (XI (XO (XO (XO (XI (XO (XO (XI (XI (XI (XI (XI (XI (XO (XO (XI (XI
    (XI (XI (XO (XO (XO (XO (XI (XI (XI (XO (XO (XI (XI (XO (XI (XO (XI (XI
    (XI (XI (XO (XI (XI (XO (XO (XI (XO
    XH)))))))))))))))))))))))))))))))))))))))))))))))))))))))))))))))) :: ((Npos
    (XI (XO (XI (XO (XO (XO (XI (XO (XO (XI (XI (XO (XI (XI (XI (XI (XO (XO
    (XO (XI (XI (XO (XI (XO (XI (XO (XO (XI (XI (XI (XO (XI (XO (XI (XI (XO
    (XO (XO (XO (XI (XI (XO (XO (XI (XO (XI (XI (XI (XI (XI (XI (XO (XI (XI
    (XO (XI (XO (XI (XO (XO (XI (XI
    XH))))))))))))))))))))))))))))))))))))))))))))))))))))))))))))))) :: ((Npos
    (XO (XI (XI (XI (XO (XO (XI (XO (XI (XO (XO (XO (XI (XO (XO (XI (XO (XI
    (XI (XO (XI (XO (XI (XI (XI (XO (XI (XI (XI (XO (XO (XI (XI (XO (XO (XI
    (XI (XI (XO (XO (XO (XO (XI (XI (XI (XI (XI (XI (XI (XI (XO (XO (XI (XO
    (XO (XI (XO (XI (XO (XO (XO (XO (XO
    XH)))))))))))))))))))))))))))))))))))))))))))))))))))))))))))))))) :: ((Npos
    (XO (XO (XI (XI (XI (XO (XO (XI (XO (XO (XI (XO (XI (XI (XO (XO (XO (XI
    (XO (XI (XO (XI (XO (XO (XO (XO (XO (XO (XO (XO (XI (XI (XI (XI (XI (XO
    (XO (XO (XI (XI (XI (XI (XI (XI (XO (XO (XI (XI (XI (XO (XI (XI (XO (XI
    (XI (XO (XO (XO (XO (XI (XO (XI
    XH))))))))))))))))))))))))))))))))))))))))))))))))))))))))))))))) :: ((Npos
    (XO (XI (XO (XI (XO (XI (XI (XO (XI (XO (XI (XO (XI (XO (XO (XI (XO (XO
    (XI (XO (XO (XI (XI (XI (XI (XO (XO (XI (XO (XI (XI (XO (XI (XO (XO (XO
    (XI (XI (XI (XO (XI (XI (XO (XO (XO (XI (XI (XO (XO (XI (XO (XO (XI (XO
    (XO (XI (XI (XI (XO (XO (XI (XO (XO
    XH)))))))))))))))))))))))))))))))))))))))))))))))))))))))))))))))) :: ((Npos
    (XO (XO (XO (XO (XI (XO (XI (XO (XO (XI (XI (XO (XI (XO (XO (XO (XI (XO
    (XO (XO (XO (XI (XI (XO (XO (XI (XI (XI (XI (XO (XI (XO (XI (XO (XO (XI
    (XO (XI (XI (XO (XI (XI (XI (XI (XI (XI (XI (XO (XO (XI (XI (XO (XI (XI
    (XI (XO (XI (XO (XI (XO (XO (XO (XI
    XH)))))))))))))))))))))))))))))))))))))))))))))))))))))))))))))))) :: ((Npos
    (XO (XO (XO (XO (XI (XI (XO (XI (XO (XO (XO (XO (XO (XO (XO (XO (XI (XO
    (XO (XI (XI (XI (XI (XI (XI (XO (XO (XO (XI (XI (XO (XI (XO (XI (XI (XO
    (XI (XO (XO (XI (XO (XO (XO (XO (XO (XO (XI (XI (XI (XO (XO (XI (XO (XI
    (XI (XI (XO (XI (XI
    XH)))))))))))))))))))))))))))))))))))))))))))))))))))))))))))) :: ((Npos
    (XI (XI (XI (XO (XO (XI (XO (XI (XO (XI (XI (XI (XI (XI (XI (XI (XI (XI
    (XI (XO (XI (XO (XI (XI (XI (XO (XI (XI (XI (XO (XO (XI (XO (XI (XO (XI
    (XI (XO (XI (XI (XO (XO (XO (XO (XI (XI (XO (XI (XI (XO (XO (XO (XO (XI
    (XI (XO (XI (XO (XI (XI (XI (XI (XO
    XH)))))))))))))))))))))))))))))))))))))))))))))))))))))))))))))))) :: ((Npos
    (XI (XO (XO (XO (XI (XI (XO (XI (XO (XO (XI (XI (XO (XI (XO (XI (XO (XO
    (XO (XI (XI (XI (XI (XO (XI (XI (XO (XI (XO (XO (XO (XO (XI (XI (XO (XO
    (XO (XO (XO (XO (XO (XI (XO (XO (XI (XI (XI (XO (XO (XI (XI (XO (XO (XO
    (XO (XO (XO (XO (XO (XI (XO (XO (XO
    XH)))))))))))))))))))))))))))))))))))))))))))))))))))))))))))))))) :: ((Npos
    (XO (XI (XI (XO (XO (XI (XO (XO (XI (XO (XI (XO (XO (XI (XO (XO (XI (XO
    (XO (XI (XI (XI (XI (XI (XI (XI (XI (XO (XI (XO (XI (XI (XO (XI (XO (XI
    (XO (XO (XI (XO (XO (XO (XI (XO (XI (XO (XI (XI (XI (XO (XI (XO (XI (XI
    (XI (XO (XI (XI (XI (XI
    XH))))))))))))))))))))))))))))))))))))))))))))))))))))))))))))) :: ((Npos
    (XI (XI (XO (XI (XI (XI (XI (XI (XI (XO (XI (XI (XI (XO (XI (XI (XI (XO
    (XI (XO (XO (XI (XI (XO (XI (XI (XI (XI (XO (XI (XI (XI (XI (XI (XI (XI
    (XO (XI (XI (XI (XO (XI (XI (XI (XI (XO (XO (XO (XO (XI (XO (XI (XO (XI
    (XI (XO (XO (XO (XI (XO (XO (XO (XI
    XH)))))))))))))))))))))))))))))))))))))))))))))))))))))))))))))))) :: ((Npos
    (XO (XO (XO (XI (XI (XI (XO (XI (XO (XI (XO (XO (XO (XO (XI (XI (XO (XO
    (XI (XI (XO (XI (XI (XI (XO (XO (XI (XO (XO (XI (XI (XO (XO (XI (XO (XI
    (XO (XO (XO (XI (XI (XO (XI (XI (XI (XI (XO (XO (XO (XI (XO (XI (XO (XI
    (XI (XI (XI (XI (XI (XO (XI (XO
    XH))))))))))))))))))))))))))))))))))))))))))))))))))))))))))))))) :: ((Npos
    (XI (XI (XI (XI (XI (XI (XO (XO (XO (XO (XO (XI (XO (XO (XI (XI (XI (XI
    (XI (XI (XI (XO (XI (XO (XO (XI (XO (XO (XI (XI (XI (XI (XO (XI (XI (XI
    (XO (XI (XI (XO (XI (XO (XO (XI (XO (XO (XI (XO (XI (XO (XO (XI (XI (XI
    (XI (XI (XO (XO (XO (XO (XO (XO (XI
    XH)))))))))))))))))))))))))))))))))))))))))))))))))))))))))))))))) :: ((Npos
    (XO (XO (XO (XI (XI (XO (XO (XI (XI (XO (XI (XI (XO (XI (XO (XI (XI (XO
    (XO (XO (XI (XI (XO (XI (XO (XI (XI (XO (XI (XO (XO (XO (XO (XI (XI (XO
    (XI (XI (XI (XI (XI (XI (XO (XO (XO (XO (XO (XO (XO (XO (XO (XO (XO (XO
    (XO (XO (XO (XI (XI (XO (XO (XI (XO
    XH)))))))))))))))))))))))))))))))))))))))))))))))))))))))))))))))) :: ((Npos
    (XI (XO (XO (XO (XI (XO (XI (XO (XO (XI (XI (XI (XO (XO (XO (XI (XI (XO
    (XO (XO (XI (XI (XO (XI (XI (XO (XI (XI (XO (XI (XO (XO (XI (XI (XO (XO
    (XI (XO (XO (XI (XI (XO (XI (XI (XI (XO (XO (XI (XI (XO (XO (XO (XO (XO
    (XI (XO (XO (XO (XI (XI (XI (XI (XI
    XH)))))))))))))))))))))))))))))))))))))))))))))))))))))))))))))))) :: ((Npos
    (XO (XO (XO (XO (XI (XI (XO (XO (XI (XI (XI (XO (XO (XI (XO (XI (XO (XO
    (XO (XO (XO (XI (XI (XI (XO (XO (XO (XO (XO (XO (XI (XO (XI (XO (XI (XI
    (XI (XO (XO (XO (XO (XO (XI (XO (XI (XO (XO (XO (XO (XO (XI (XO (XI (XO
    (XO (XI (XI (XO (XO (XO (XO (XO (XO
    XH)))))))))))))))))))))))))))))))))))))))))))))))))))))))))))))))) :: ((Npos
    (XI (XO (XI (XO (XI (XI (XO (XI (XI (XI (XI (XO (XO (XI (XI (XO (XI (XI
    (XO (XI (XO (XO (XI (XO (XO (XI (XO (XO (XI (XO (XO (XI (XI (XO (XI (XI
    (XO (XO (XO (XI (XO (XI (XO (XI (XO (XI (XO (XI (XO (XO (XI (XO (XI (XO
    (XI (XO (XI (XI (XO (XI (XI (XI (XO
    XH)))))))))))))))))))))))))))))))))))))))))))))))))))))))))))))))) :: ((Npos
    (XO (XO (XO (XO (XO (XO (XI (XO (XO (XI (XO (XO (XI (XO (XO (XO (XI (XI
    (XI (XO (XO (XI (XO (XI (XI (XO (XI (XI (XO (XI (XI (XI (XO (XI (XO (XO
    (XO (XI (XI (XI (XI (XO (XI (XO (XI (XI (XI (XO (XO (XI (XI (XI (XO (XO
    (XO (XO (XO (XO (XI (XO (XI
    XH)))))))))))))))))))))))))))))))))))))))))))))))))))))))))))))) :: ((Npos
    (XO (XO (XI (XI (XI (XI (XO (XO (XI (XI (XI (XI (XI (XO (XO (XI (XO (XI
    (XI (XO (XO (XI (XO (XO (XI (XO (XI (XO (XI (XO (XO (XO (XO (XI (XO (XI
    (XO (XI (XI (XO (XI (XO (XO (XO (XO (XI (XI (XI (XO (XO (XI (XI (XO (XO
    (XI (XI (XI (XI (XI (XI (XI
    XH)))))))))))))))))))))))))))))))))))))))))))))))))))))))))))))) :: ((Npos
    (XI (XO (XI (XI (XI (XI (XO (XO (XI (XO (XO (XI (XI (XO (XI (XO (XI (XI
    (XI (XO (XI (XO (XI (XO (XI (XI (XO (XO (XI (XI (XO (XO (XI (XI (XO (XI
    (XI (XI (XI (XO (XO (XI (XI (XO (XO (XI (XI (XO (XI (XI (XI (XI (XO (XO
    (XI (XO (XI (XO (XO (XO
    XH))))))))))))))))))))))))))))))))))))))))))))))))))))))))))))) :: ((Npos
    (XO (XI (XO (XO (XI (XI (XO (XI (XI (XI (XI (XI (XO (XO (XO (XI (XO (XI
    (XI (XO (XI (XO (XO (XO (XO (XI (XO (XI (XI (XI (XO (XO (XO (XO (XO (XI
    (XO (XO (XO (XO (XI (XO (XI (XO (XI (XI (XI (XO (XI (XI (XI (XI (XO (XI
    (XO (XO (XO (XO (XO (XI (XI
    XH)))))))))))))))))))))))))))))))))))))))))))))))))))))))))))))) :: ((Npos
    (XO (XI (XI (XI (XO (XI (XO (XI (XO (XO (XO (XI (XI (XI (XI (XI (XI (XI
    (XO (XI (XO (XI (XO (XI (XI (XI (XI (XI (XI (XO (XI (XI (XO (XI (XO (XO
    (XO (XO (XI (XO (XO (XI (XI (XO (XO (XI (XO (XI (XI (XO (XI (XI (XO (XI
    (XO (XI (XO (XO (XI (XO (XI (XO (XO
    XH)))))))))))))))))))))))))))))))))))))))))))))))))))))))))))))))) :: ((Npos
    (XI (XO (XI (XO (XO (XI (XO (XO (XI (XI (XI (XI (XI (XO (XO (XI (XO (XI
    (XO (XO (XO (XO (XO (XI (XO (XI (XO (XO (XI (XI (XO (XO (XI (XI (XI (XI
    (XO (XO (XI (XO (XO (XO (XO (XI (XO (XI (XO (XO (XI (XI (XI (XI (XO (XI
    (XI (XO (XO (XI (XI (XI (XI (XO (XI
    XH)))))))))))))))))))))))))))))))))))))))))))))))))))))))))))))))) :: ((Npos
    (XO (XO (XI (XO (XO (XI (XO (XO (XI (XI (XO (XI (XI (XO (XI (XO (XO (XO
    (XO (XO (XO (XI (XI (XI (XO (XO (XI (XO (XO (XO (XO (XI (XI (XI (XI (XO
    (XO (XI (XO (XO (XO (XI (XO (XI (XO (XI (XI (XI (XO (XI (XO (XO (XI (XO
    (XO (XI (XO (XO (XO (XO (XO (XO
    XH))))))))))))))))))))))))))))))))))))))))))))))))))))))))))))))) :: ((Npos
    (XI (XO (XO (XI (XO (XI (XO (XI (XO (XI (XO (XI (XI (XO (XO (XI (XO (XI
    (XI (XO (XI (XI (XO (XI (XI (XO (XI (XI (XI (XO (XI (XO (XI (XI (XI (XO
    (XI (XI (XI (XI (XO (XO (XO (XI (XO (XI (XI (XO (XI (XO (XO (XI (XI (XI
    (XO (XO (XI (XI (XI (XI (XI (XI (XI
    XH)))))))))))))))))))))))))))))))))))))))))))))))))))))))))))))))) :: ((Npos
    (XI (XO (XO (XI (XI (XO (XI (XI (XI (XI (XO (XI (XI (XO (XI (XI (XO (XO
    (XI (XI (XO (XI (XO (XI (XO (XO (XO (XI (XO (XI (XI (XI (XI (XO (XI (XO
    (XI (XO (XI (XO (XO (XO (XO (XI (XO (XI (XO (XO (XI (XO (XI (XI (XO (XO
    (XI (XO (XO (XO (XO (XO (XO (XI
    XH))))))))))))))))))))))))))))))))))))))))))))))))))))))))))))))) :: ((Npos
    (XO (XO (XI (XO (XI (XO (XI (XI (XO (XI (XI (XI (XI (XO (XO (XO (XO (XO
    (XO (XO (XO (XI (XO (XO (XO (XI (XI (XO (XO (XI (XI (XO (XO (XO (XI (XO
    (XO (XO (XO (XI (XO (XO (XO (XO (XI (XI (XO (XO (XI (XI (XO (XI (XO (XO
    (XI (XO (XI (XO (XO (XI (XO (XO
    XH))))))))))))))))))))))))))))))))))))))))))))))))))))))))))))))) :: ((Npos
    (XI (XI (XI (XO (XI (XI (XI (XI (XO (XI (XI (XO (XI (XO (XO (XI (XO (XO
    (XO (XI (XO (XI (XO (XO (XO (XO (XO (XO (XO (XI (XI (XO (XO (XI (XI (XO
    (XI (XO (XI (XI (XO (XI (XO (XI (XI (XI (XO (XO (XI (XI (XO (XO (XO (XO
    (XI (XI (XO (XI (XO (XO (XO (XO (XO
    XH)))))))))))))))))))))))))))))))))))))))))))))))))))))))))))))))) :: ((Npos
    (XO (XO (XI (XO (XO (XI (XI (XO (XI (XO (XO (XO (XO (XI (XI (XI (XI (XI
    (XO (XI (XO (XO (XO (XI (XO (XO (XO (XI (XI (XI (XO (XO (XI (XO (XO (XO
    (XO (XO (XI (XO (XI (XI (XI (XI (XI (XI (XI (XO (XO (XI (XI (XO (XO (XI
    (XO (XI (XI (XI (XI (XO (XO (XI (XO
    XH)))))))))))))))))))))))))))))))))))))))))))))))))))))))))))))))) :: ((Npos
    (XO (XO (XO (XI (XO (XI (XI (XO (XI (XO (XO (XO (XO (XO (XO (XO (XI (XO
    (XI (XO (XO (XO (XI (XO (XI (XI (XI (XI (XO (XO (XO (XO (XI (XI (XI (XI
    (XI (XO (XI (XO (XO (XI (XI (XI (XO (XI (XO (XO (XI (XI (XO (XO (XO (XI
    (XI (XI (XI (XI (XO (XI (XI (XO (XI
    XH)))))))))))))))))))))))))))))))))))))))))))))))))))))))))))))))) :: ((Npos
    (XI (XI (XI (XO (XO (XO (XI (XO (XI (XI (XO (XI (XO (XO (XI (XO (XO (XO
    (XI (XO (XI (XO (XO (XI (XI (XI (XO (XI (XO (XI (XO (XI (XI (XI (XO (XI
    (XO (XO (XO (XO (XO (XI (XO (XI (XI (XO (XO (XO (XI (XO (XI (XO (XO (XO
    (XI (XO (XO (XI (XO (XO (XO (XI (XI
    XH)))))))))))))))))))))))))))))))))))))))))))))))))))))))))))))))) :: ((Npos
    (XI (XI (XI (XO (XO (XO (XO (XI (XI (XO (XO (XI (XO (XI (XO (XO (XI (XO
    (XI (XO (XI (XO (XO (XO (XO (XI (XI (XO (XO (XO (XI (XI (XI (XO (XO (XO
    (XI (XO (XI (XO (XO (XO (XO (XI (XO (XI (XO (XO (XI (XO (XO (XO (XO (XO
    (XO (XI (XI (XO (XI (XO (XO
    XH)))))))))))))))))))))))))))))))))))))))))))))))))))))))))))))) :: ((Npos
    (XO (XI (XI (XI (XO (XI (XO (XI (XO (XO (XO (XI (XO (XI (XI (XI (XO (XO
    (XI (XI (XI (XI (XO (XI (XI (XI (XO (XI (XI (XO (XO (XI (XO (XO (XO (XI
    (XI (XI (XI (XI (XI (XI (XO (XI (XO (XO (XI (XO (XI (XI (XO (XI (XI (XO
    (XO (XO (XO (XI (XI (XO (XI (XI (XI
    XH)))))))))))))))))))))))))))))))))))))))))))))))))))))))))))))))) :: ((Npos
    (XI (XO (XI (XI (XI (XI (XI (XI (XO (XO (XO (XI (XO (XI (XO (XO (XI (XO
    (XO (XO (XI (XI (XO (XI (XO (XO (XO (XI (XO (XI (XO (XO (XO (XI (XI (XI
    (XO (XO (XI (XI (XO (XI (XI (XO (XI (XI (XI (XO (XO (XO (XI (XO (XO (XO
    (XI (XI (XI (XI (XO (XI (XO (XO (XO
    XH)))))))))))))))))))))))))))))))))))))))))))))))))))))))))))))))) :: ((Npos
    (XO (XI (XO (XO (XI (XI (XI (XI (XO (XI (XO (XO (XI (XI (XI (XI (XO (XO
    (XO (XI (XO (XO (XI (XI (XO (XI (XO (XO (XI (XI (XI (XO (XO (XI (XI (XI
    (XO (XI (XI (XI (XI (XI (XO (XO (XI (XI (XI (XO (XI (XO (XI (XO (XI (XO
    (XO (XO (XI (XO (XI (XI (XO (XI (XI
    XH)))))))))))))))))))))))))))))))))))))))))))))))))))))))))))))))) :: ((Npos
    (XI (XI (XO (XO (XI (XO (XI (XI (XI (XO (XI (XI (XI (XI (XI (XI (XI (XO
    (XO (XO (XI (XI (XI (XI (XI (XO (XI (XO (XO (XI (XI (XI (XO (XO (XI (XO
    (XO (XI (XO (XO (XI (XO (XI (XO (XO (XI (XO (XI (XI (XO (XI (XO (XO (XO
    (XI (XI
    XH))))))))))))))))))))))))))))))))))))))))))))))))))))))))) :: ((Npos (XO
    (XO (XO (XI (XI (XO (XO (XO (XI (XO (XO (XI (XO (XO (XO (XI (XO (XO (XO
    (XO (XI (XI (XO (XI (XO (XI (XO (XO (XO (XI (XI (XO (XI (XO (XO (XI (XI
    (XI (XO (XO (XI (XO (XI (XI (XO (XO (XO (XO (XO (XI (XO (XI (XO (XI (XI
    (XO (XO (XI (XO (XO (XO
    XH)))))))))))))))))))))))))))))))))))))))))))))))))))))))))))))) :: ((Npos
    (XO (XO (XI (XO (XO (XI (XI (XO (XI (XI (XI (XO (XO (XI (XI (XO (XI (XI
    (XI (XO (XO (XO (XO (XI (XO (XO (XI (XI (XO (XI (XI (XI (XI (XO (XO (XO
    (XO (XO (XI (XI (XI (XO (XI (XI (XI (XI (XO (XI (XO (XO (XI (XI (XO (XO
    (XI (XO (XI (XI (XI (XI (XO (XI (XO
    XH)))))))))))))))))))))))))))))))))))))))))))))))))))))))))))))))) :: ((Npos
    (XI (XO (XO (XO (XI (XI (XO (XO (XI (XO (XI (XO (XO (XO (XI (XI (XI (XI
    (XI (XI (XO (XO (XO (XI (XO (XO (XI (XO (XO (XI (XO (XI (XO (XI (XO (XI
    (XI (XO (XI (XO (XI (XI (XI (XI (XI (XI (XI (XI (XI (XI (XO (XI (XO (XO
    (XO (XO (XI (XI (XI (XI (XI (XO (XO
    XH)))))))))))))))))))))))))))))))))))))))))))))))))))))))))))))))) :: ((Npos
    (XO (XO (XO (XI (XO (XO (XO (XO (XI (XO (XO (XI (XI (XI (XO (XI (XO (XI
    (XI (XI (XO (XI (XO (XO (XI (XI (XO (XO (XO (XI (XO (XO (XO (XO (XI (XI
    (XO (XI (XO (XI (XI (XO (XO (XI (XO (XI (XO (XI (XI (XI (XI (XI (XI (XO
    (XO (XI (XI (XO (XO (XO
    XH))))))))))))))))))))))))))))))))))))))))))))))))))))))))))))) :: ((Npos
    (XI (XI (XI (XO (XI (XO (XO (XI (XO (XO (XO (XO (XI (XI (XO (XI (XO (XO
    (XO (XI (XO (XI (XO (XO (XI (XI (XI (XI (XI (XO (XO (XI (XI (XO (XO (XI
    (XI (XI (XI (XI (XI (XI (XI (XO (XI (XO (XI (XI (XI (XO (XO (XO (XI (XO
    (XI (XO (XO (XO (XO (XO (XO (XO (XO
    XH)))))))))))))))))))))))))))))))))))))))))))))))))))))))))))))))) :: ((Npos
    (XI (XI (XO (XO (XI (XI (XO (XO (XI (XI (XO (XI (XI (XI (XI (XO (XI (XI
    (XO (XO (XO (XI (XO (XI (XI (XO (XI (XI (XI (XI (XI (XI (XI (XO (XO (XI
    (XI (XO (XI (XO (XO (XI (XI (XO (XO (XO (XO (XO (XI (XO (XO (XI (XI (XI
    (XO (XI (XI (XI (XO (XO (XI (XI
    XH))))))))))))))))))))))))))))))))))))))))))))))))))))))))))))))) :: ((Npos
    (XO (XO (XI (XO (XO (XO (XI (XI (XI (XO (XI (XI (XI (XO (XI (XO (XI (XO
    (XI (XI (XI (XI (XI (XI (XI (XO (XO (XO (XI (XI (XO (XO (XO (XO (XO (XO
    (XI (XO (XI (XI (XI (XI (XO (XI (XO (XO (XO (XI (XI (XI (XO (XI (XI (XI
    (XI (XI (XO (XI (XO (XI (XI
    XH)))))))))))))))))))))))))))))))))))))))))))))))))))))))))))))) :: ((Npos
    (XO (XO (XO (XO (XI (XI (XO (XI (XI (XI (XO (XO (XO (XI (XO (XO (XI (XI
    (XO (XO (XO (XO (XI (XO (XI (XI (XO (XO (XO (XI (XI (XI (XO (XO (XI (XI
    (XO (XI (XI (XO (XO (XO (XO (XO (XO (XO (XI (XO (XO (XI (XO (XO (XI (XI
    (XO (XO (XI (XI (XO (XI (XI
    XH)))))))))))))))))))))))))))))))))))))))))))))))))))))))))))))) :: ((Npos
    (XO (XO (XO (XO (XI (XO (XO (XI (XI (XI (XO (XO (XO (XI (XI (XI (XI (XO
    (XO (XO (XI (XI (XO (XO (XI (XO (XI (XI (XO (XO (XO (XI (XO (XO (XI (XI
    (XI (XI (XO (XI (XO (XO (XO (XI (XO (XO (XO (XI (XO (XO (XO (XI (XI (XO
    (XO (XI (XO (XI (XO (XI (XI (XO
    XH))))))))))))))))))))))))))))))))))))))))))))))))))))))))))))))) :: ((Npos
    (XI (XI (XO (XI (XI (XI (XO (XO (XO (XO (XI (XO (XI (XI (XI (XO (XI (XI
    (XI (XO (XI (XI (XO (XO (XI (XI (XI (XO (XO (XI (XO (XO (XI (XI (XO (XO
    (XI (XI (XI (XI (XO (XO (XO (XO (XO (XO (XO (XO (XO (XO (XI (XO (XI (XO
    (XO (XO (XI (XO (XO (XO (XI (XI (XO
    XH)))))))))))))))))))))))))))))))))))))))))))))))))))))))))))))))) :: ((Npos
    (XO (XO (XI (XO (XI (XO (XO (XI (XO (XO (XO (XO (XI (XO (XO (XI (XO (XI
    (XO (XO (XI (XI (XO (XI (XI (XO (XO (XO (XO (XI (XI (XI (XI (XO (XO (XO
    (XI (XI (XI (XO (XI (XO (XO (XI (XO (XI (XI (XO (XO (XI (XO (XI (XI (XI
    (XI (XI (XI (XO (XO (XI (XI (XI (XO
    XH)))))))))))))))))))))))))))))))))))))))))))))))))))))))))))))))) :: ((Npos
    (XI (XO (XO (XO (XI (XO (XO (XO (XO (XO (XO (XO (XO (XO (XI (XO (XO (XO
    (XO (XO (XI (XO (XO (XI (XO (XI (XI (XO (XO (XI (XI (XO (XO (XO (XO (XO
    (XO (XO (XO (XI (XO (XO (XI (XI (XI (XO (XO (XI (XO (XI (XI (XO (XI (XO
    (XI (XO (XI (XO (XO (XI (XI (XI
    XH))))))))))))))))))))))))))))))))))))))))))))))))))))))))))))))) :: ((Npos
    (XI (XI (XI (XO (XI (XI (XO (XI (XO (XO (XI (XO (XI (XI (XO (XI (XO (XO
    (XO (XI (XI (XI (XO (XI (XO (XO (XI (XO (XI (XO (XI (XO (XI (XO (XO (XO
    (XI (XI (XO (XO (XI (XO (XO (XI (XO (XI (XI (XO (XO (XI (XI (XI (XI (XO
    (XI (XI (XO (XI (XI (XI (XO (XO (XI
    XH)))))))))))))))))))))))))))))))))))))))))))))))))))))))))))))))) :: ((Npos
    (XO (XO (XI (XI (XI (XO (XO (XI (XI (XO (XO (XI (XO (XO (XI (XO (XI (XO
    (XO (XI (XI (XI (XO (XI (XI (XI (XI (XI (XO (XI (XO (XI (XO (XI (XO (XO
    (XO (XO (XO (XO (XO (XO (XI (XO (XI (XI (XO (XI (XO (XI (XO (XI (XI (XO
    (XO (XI (XO (XO (XI (XI (XI (XI (XO
    XH)))))))))))))))))))))))))))))))))))))))))))))))))))))))))))))))) :: ((Npos
    (XI (XO (XI (XO (XI (XO (XI (XO (XI (XO (XI (XI (XI (XO (XO (XO (XO (XO
    (XI (XI (XO (XO (XI (XI (XI (XI (XO (XO (XO (XO (XI (XI (XI (XO (XO (XO
    (XO (XO (XO (XI (XI (XI (XI (XO (XI (XI (XO (XO (XO (XO (XI (XO (XI (XO
    (XI (XO (XO (XI (XO (XI (XO (XI
    XH))))))))))))))))))))))))))))))))))))))))))))))))))))))))))))))) :: ((Npos
    (XI (XO (XO (XI (XO (XO (XI (XO (XI (XO (XI (XI (XI (XI (XI (XI (XI (XO
    (XI (XO (XI (XO (XO (XI (XI (XI (XI (XI (XO (XI (XI (XO (XI (XI (XI (XO
    (XI (XO (XO (XI (XI (XO (XI (XI (XI (XI (XO (XI (XO (XI (XO (XI (XO (XI
    (XO (XI (XO (XO (XO (XO (XI (XO
    XH))))))))))))))))))))))))))))))))))))))))))))))))))))))))))))))) :: ((Npos
    (XO (XO (XI (XI (XI (XI (XI (XI (XI (XI (XI (XO (XO (XI (XO (XI (XO (XO
    (XO (XI (XO (XO (XI (XO (XO (XI (XI (XO (XI (XI (XO (XI (XO (XI (XI (XO
    (XI (XI (XO (XI (XO (XI (XI (XO (XO (XI (XO (XI (XI (XO (XO (XO (XO (XI
    (XO (XI (XI (XO (XI (XO (XI (XO
    XH))))))))))))))))))))))))))))))))))))))))))))))))))))))))))))))) :: ((Npos
    (XI (XO (XI (XI (XO (XI (XI (XI (XO (XI (XO (XI (XI (XI (XI (XI (XO (XI
    (XO (XO (XO (XI (XO (XI (XO (XO (XI (XO (XO (XO (XI (XO (XO (XI (XO (XO
    (XI (XI (XO (XO (XO (XO (XI (XI (XO (XI (XO (XO (XI (XO (XI (XI (XI (XI
    (XO (XI (XO (XI (XI (XI (XI (XO (XO
    XH)))))))))))))))))))))))))))))))))))))))))))))))))))))))))))))))) :: ((Npos
    (XO (XO (XO (XI (XO (XI (XI (XI (XI (XI (XO (XO (XO (XI (XO (XO (XI (XI
    (XO (XO (XI (XO (XO (XO (XI (XO (XO (XO (XI (XO (XI (XO (XO (XO (XI (XI
    (XI (XI (XI (XO (XO (XO (XO (XI (XO (XI (XI (XO (XO (XI (XI (XI (XO (XO
    (XI (XO (XO (XI (XI (XO (XO (XO (XO
    XH)))))))))))))))))))))))))))))))))))))))))))))))))))))))))))))))) :: ((Npos
    (XO (XO (XO (XI (XI (XI (XI (XO (XI (XI (XO (XI (XO (XO (XI (XO (XI (XI
    (XI (XO (XI (XO (XO (XO (XO (XI (XO (XO (XO (XO (XO (XO (XI (XO (XO (XO
    (XO (XO (XI (XI (XO (XI (XO (XI (XO (XI (XO (XO (XI (XI (XI (XI (XO (XO
    (XI (XI (XO (XO (XO (XI (XO (XI (XO
    XH)))))))))))))))))))))))))))))))))))))))))))))))))))))))))))))))) :: ((Npos
    (XO (XO (XO (XO (XO (XO (XO (XO (XO (XI (XI (XI (XO (XI (XO (XO (XO (XI
    (XO (XO (XO (XI (XO (XI (XO (XI (XI (XO (XO (XI (XO (XO (XO (XO (XO (XO
    (XO (XO (XO (XI (XO (XI (XO (XI (XO (XI (XI (XI (XI (XO (XI (XO (XO (XI
    (XI (XO (XO (XI (XI (XO (XI
    XH)))))))))))))))))))))))))))))))))))))))))))))))))))))))))))))) :: ((Npos
    (XO (XO (XO (XO (XO (XO (XI (XI (XO (XO (XO (XO (XI (XO (XI (XO (XI (XI
    (XI (XO (XO (XO (XO (XO (XI (XI (XO (XI (XI (XO (XI (XO (XI (XO (XO (XI
    (XO (XO (XI (XI (XI (XO (XI (XO (XI (XO (XI (XI (XO (XO (XI (XO (XI (XI
    (XO (XO (XO (XO (XI (XO (XO (XO (XO
    XH)))))))))))))))))))))))))))))))))))))))))))))))))))))))))))))))) :: ((Npos
    (XI (XI (XO (XI (XO (XI (XO (XO (XI (XI (XI (XI (XO (XI (XO (XI (XI (XI
    (XO (XO (XO (XI (XO (XO (XO (XI (XI (XO (XI (XO (XO (XI (XI (XI (XO (XO
    (XO (XI (XI (XI (XI (XI (XI (XI (XO (XO (XI (XI (XI (XI (XO (XI (XI (XI
    (XI (XI (XI (XO (XO (XO (XI (XI (XI
    XH)))))))))))))))))))))))))))))))))))))))))))))))))))))))))))))))) :: ((Npos
    (XO (XI (XI (XI (XI (XO (XI (XO (XI (XI (XI (XI (XO (XO (XO (XO (XO (XO
    (XO (XI (XI (XO (XO (XI (XO (XO (XO (XO (XI (XI (XO (XI (XO (XI (XI (XI
    (XO (XO (XO (XO (XI (XI (XO (XO (XO (XO (XI (XO (XI (XO (XO (XO (XI (XI
    (XI (XI (XI (XO (XI (XO (XO
    XH)))))))))))))))))))))))))))))))))))))))))))))))))))))))))))))) :: ((Npos
    (XO (XI (XO (XO (XI (XI (XO (XI (XO (XO (XO (XI (XO (XO (XO (XO (XO (XO
    (XO (XI (XO (XO (XO (XO (XO (XI (XI (XI (XI (XO (XO (XI (XO (XO (XO (XI
    (XI (XI (XI (XO (XI (XO (XO (XO (XI (XO (XO (XO (XO (XI (XO (XI (XO (XO
    (XO (XO (XI (XO (XI (XO (XI (XO (XI
    XH)))))))))))))))))))))))))))))))))))))))))))))))))))))))))))))))) :: ((Npos
    (XO (XO (XO (XO (XI (XI (XO (XI (XO (XI (XO (XI (XO (XI (XO (XO (XI (XO
    (XI (XI (XI (XI (XO (XI (XO (XI (XO (XO (XO (XI (XO (XO (XI (XI (XI (XO
    (XO (XO (XI (XO (XI (XO (XO (XI (XI (XO (XI (XO (XI (XI (XO (XO (XO (XI
    (XI (XI (XI (XI (XI (XO (XI (XO
    XH))))))))))))))))))))))))))))))))))))))))))))))))))))))))))))))) :: ((Npos
    (XO (XO (XO (XI (XO (XI (XO (XI (XO (XO (XO (XO (XI (XO (XO (XO (XI (XO
    (XI (XI (XI (XO (XO (XI (XO (XI (XO (XI (XI (XI (XI (XI (XI (XI (XI (XI
    (XI (XO (XI (XO (XI (XI (XO (XI (XO (XI (XI (XI (XO (XI (XI (XI (XO (XI
    (XI (XI (XO (XI (XI (XI (XO (XI (XI
    XH)))))))))))))))))))))))))))))))))))))))))))))))))))))))))))))))) :: ((Npos
    (XO (XI (XI (XO (XO (XO (XI (XO (XI (XI (XI (XI (XO (XO (XI (XO (XO (XI
    (XI (XI (XO (XO (XI (XO (XI (XI (XI (XO (XO (XO (XI (XI (XO (XO (XI (XO
    (XI (XI (XO (XI (XO (XI (XO (XI (XO (XO (XO (XI (XI (XI (XI (XO (XO (XI
    (XI (XO (XI (XI (XO (XO (XO (XI
    XH))))))))))))))))))))))))))))))))))))))))))))))))))))))))))))))) :: ((Npos
    (XI (XO (XO (XI (XO (XI (XO (XI (XO (XI (XO (XI (XO (XI (XO (XI (XO (XI
    (XI (XO (XI (XO (XO (XO (XO (XI (XO (XO (XO (XO (XO (XO (XO (XI (XO (XI
    (XI (XO (XO (XI (XO (XI (XO (XI (XO (XO (XO (XO (XO (XO (XO (XO (XI (XO
    (XI (XO (XO (XI (XI (XI (XI (XO
    XH))))))))))))))))))))))))))))))))))))))))))))))))))))))))))))))) :: ((Npos
    (XI (XO (XO (XI (XO (XO (XI (XI (XO (XI (XO (XO (XI (XO (XI (XO (XI (XO
    (XO (XO (XI (XO (XI (XI (XO (XO (XO (XI (XI (XO (XI (XO (XO (XI (XI (XI
    (XO (XI (XI (XI (XI (XO (XI (XO (XI (XI (XI (XI (XI (XI (XO (XI (XO (XI
    (XI (XO
    XH))))))))))))))))))))))))))))))))))))))))))))))))))))))))) :: ((Npos (XI
    (XO (XO (XO (XI (XI (XI (XO (XI (XI (XI (XO (XO (XO (XO (XI (XO (XI (XO
    (XI (XO (XI (XO (XO (XO (XO (XO (XI (XI (XO (XO (XI (XO (XI (XI (XI (XI
    (XI (XI (XO (XI (XO (XO (XI (XI (XI (XI (XO (XI (XI (XO (XO (XO (XO (XI
    (XO (XO (XI (XO (XO (XO (XI (XO
    XH)))))))))))))))))))))))))))))))))))))))))))))))))))))))))))))))) :: ((Npos
    (XO (XO (XO (XI (XI (XO (XI (XI (XO (XI (XI (XO (XO (XO (XI (XI (XO (XO
    (XI (XI (XO (XO (XO (XO (XO (XO (XO (XO (XI (XI (XO (XI (XO (XO (XO (XI
    (XI (XO (XI (XI (XO (XI (XO (XI (XO (XO (XI (XO (XO (XO (XI (XI (XO (XO
    (XI (XO (XO (XO (XI (XI (XI
    XH)))))))))))))))))))))))))))))))))))))))))))))))))))))))))))))) :: ((Npos
    (XI (XI (XI (XI (XI (XO (XO (XI (XO (XI (XI (XO (XO (XI (XO (XO (XO (XI
    (XI (XI (XI (XI (XO (XO (XI (XI (XI (XI (XO (XI (XI (XI (XI (XI (XI (XO
    (XO (XI (XI (XO (XO (XO (XI (XO (XI (XO (XI (XO (XO (XI (XO (XO (XI (XO
    (XI (XO (XI (XO (XO (XI (XO (XI
    XH))))))))))))))))))))))))))))))))))))))))))))))))))))))))))))))) :: ((Npos
    (XI (XO (XI (XO (XO (XO (XI (XO (XI (XO (XI (XO (XI (XO (XO (XO (XO (XO
    (XI (XI (XI (XI (XI (XO (XO (XO (XI (XO (XO (XO (XO (XI (XI (XI (XI (XO
    (XI (XO (XO (XI (XO (XI (XI (XI (XO (XI (XO (XI (XI (XO (XO (XO (XI (XO
    (XI (XO (XI (XO (XO (XO (XI
    XH)))))))))))))))))))))))))))))))))))))))))))))))))))))))))))))) :: ((Npos
    (XI (XO (XO (XI (XI (XO (XI (XI (XO (XI (XI (XO (XO (XI (XO (XI (XI (XO
    (XO (XO (XO (XI (XO (XO (XI (XI (XO (XO (XO (XI (XO (XO (XO (XI (XI (XI
    (XO (XO (XI (XI (XO (XI (XI (XO (XO (XI (XO (XO (XI (XO (XI (XO (XI (XI
    (XI (XO (XI (XO (XI (XO (XI (XI
    XH))))))))))))))))))))))))))))))))))))))))))))))))))))))))))))))) :: ((Npos
    (XO (XI (XI (XO (XO (XI (XI (XI (XI (XO (XO (XI (XI (XO (XI (XI (XI (XI
    (XO (XO (XI (XO (XI (XI (XI (XO (XI (XO (XI (XI (XO (XO (XO (XI (XO (XO
    (XI (XI (XI (XO (XO (XO (XO (XO (XO (XO (XI (XI (XO (XI (XI (XO (XI (XI
    (XO (XI (XO (XO (XO (XI (XI (XI (XO
    XH)))))))))))))))))))))))))))))))))))))))))))))))))))))))))))))))) :: ((Npos
    (XI (XO (XO (XO (XI (XO (XO (XO (XO (XO (XO (XO (XO (XI (XO (XO (XO (XO
    (XI (XI (XI (XI (XI (XO (XI (XI (XI (XO (XI (XO (XO (XO (XO (XO (XO (XI
    (XI (XI (XI (XO (XI (XO (XO (XI (XO (XI (XI (XI (XO (XO (XI (XI (XI (XI
    (XI (XO (XO (XI (XI (XI (XI (XO (XI
    XH)))))))))))))))))))))))))))))))))))))))))))))))))))))))))))))))) :: ((Npos
    (XI (XI (XI (XI (XI (XO (XO (XO (XO (XI (XO (XI (XI (XO (XI (XO (XI (XI
    (XO (XO (XI (XI (XO (XI (XO (XO (XO (XI (XI (XI (XO (XO (XO (XI (XI (XI
    (XI (XI (XO (XI (XO (XO (XI (XI (XI (XO (XI (XI (XI (XO (XI (XO (XI (XI
    (XI (XI (XI (XO (XO (XI (XI (XI (XO
    XH)))))))))))))))))))))))))))))))))))))))))))))))))))))))))))))))) :: ((Npos
    (XO (XI (XI (XI (XI (XI (XI (XI (XO (XO (XI (XO (XO (XI (XO (XI (XI (XO
    (XI (XI (XI (XO (XO (XO (XI (XI (XO (XI (XO (XI (XI (XI (XO (XI (XO (XO
    (XI (XI (XI (XO (XO (XO (XO (XO (XO (XI (XO (XO (XI (XO (XI (XI (XO (XO
    (XO (XO (XO (XO (XO (XI (XI
    XH)))))))))))))))))))))))))))))))))))))))))))))))))))))))))))))) :: ((Npos
    (XO (XO (XI (XO (XO (XO (XO (XI (XI (XO (XO (XO (XO (XO (XO (XI (XO (XI
    (XI (XO (XO (XO (XO (XI (XI (XO (XO (XO (XO (XI (XO (XO (XO (XI (XI (XO
    (XO (XI (XO (XI (XI (XO (XI (XO (XO (XI (XI (XI (XI (XO (XI (XO (XO (XI
    (XI (XI (XI (XO (XI (XO (XI (XO
    XH))))))))))))))))))))))))))))))))))))))))))))))))))))))))))))))) :: ((Npos
    (XI (XI (XO (XI (XO (XI (XO (XO (XO (XI (XO (XO (XO (XI (XI (XI (XO (XI
    (XI (XI (XO (XO (XO (XO (XO (XI (XI (XO (XI (XI (XO (XO (XO (XO (XO (XO
    (XI (XI (XO (XI (XI (XO (XI (XO (XI (XO (XI (XO (XO (XI (XO (XI (XI (XI
    (XO (XI (XI (XI (XI (XO (XI
    XH)))))))))))))))))))))))))))))))))))))))))))))))))))))))))))))) :: ((Npos
    (XI (XO (XI (XO (XI (XO (XI (XI (XI (XI (XI (XO (XI (XO (XO (XI (XO (XI
    (XO (XI (XI (XO (XO (XO (XO (XO (XO (XI (XO (XI (XI (XO (XI (XO (XO (XI
    (XI (XO (XI (XO (XO (XI (XO (XI (XO (XO (XI (XI (XO (XI (XO (XI (XO (XO
    (XO (XI (XI (XI (XO (XI (XI (XO (XO
    XH)))))))))))))))))))))))))))))))))))))))))))))))))))))))))))))))) :: ((Npos
    (XO (XI (XI (XO (XO (XO (XO (XO (XI (XI (XI (XO (XI (XO (XO (XO (XI (XO
    (XO (XI (XO (XO (XI (XI (XI (XO (XO (XO (XI (XO (XO (XI (XI (XO (XI (XI
    (XI (XI (XO (XI (XO (XO (XI (XO (XO (XO (XO (XO (XI (XI (XI (XO (XI (XI
    (XO (XI (XI (XI (XO
    XH)))))))))))))))))))))))))))))))))))))))))))))))))))))))))))) :: ((Npos
    (XO (XO (XO (XO (XO (XI (XO (XI (XO (XI (XI (XO (XO (XO (XI (XI (XO (XI
    (XO (XI (XI (XI (XI (XO (XI (XO (XI (XO (XI (XO (XO (XO (XO (XO (XI (XI
    (XI (XI (XO (XI (XO (XI (XI (XI (XO (XI (XI (XO (XI (XO (XI (XO (XO (XI
    (XO (XI (XI (XO (XI (XO (XO (XO (XI
    XH)))))))))))))))))))))))))))))))))))))))))))))))))))))))))))))))) :: ((Npos
    (XI (XO (XI (XI (XI (XO (XI (XI (XO (XO (XO (XI (XI (XO (XO (XO (XO (XO
    (XI (XI (XO (XO (XI (XI (XO (XI (XO (XI (XO (XO (XO (XO (XI (XI (XI (XI
    (XI (XI (XI (XO (XI (XI (XI (XI (XI (XI (XI (XO (XO (XO (XO (XO (XO (XI
    (XI (XO (XO (XO (XI (XO
    XH))))))))))))))))))))))))))))))))))))))))))))))))))))))))))))) :: ((Npos
    (XI (XO (XI (XO (XI (XI (XI (XI (XO (XI (XI (XI (XI (XI (XI (XI (XI (XI
    (XO (XI (XI (XI (XI (XI (XI (XO (XI (XO (XI (XI (XO (XI (XI (XI (XO (XO
    (XO (XI (XO (XI (XO (XO (XO (XO (XI (XO (XO (XO (XO (XO (XI (XI (XO (XO
    (XO (XI (XO (XO (XI (XO (XI (XO
    XH))))))))))))))))))))))))))))))))))))))))))))))))))))))))))))))) :: ((Npos
    (XI (XI (XO (XI (XO (XO (XO (XI (XI (XO (XI (XO (XI (XO (XO (XI (XI (XI
    (XO (XI (XO (XI (XO (XI (XI (XI (XI (XI (XO (XO (XI (XI (XO (XO (XO (XO
    (XO (XI (XO (XI (XI (XO (XO (XI (XO (XI (XO (XO (XO (XO (XO (XI (XI (XO
    (XO (XO (XO (XI (XO (XI (XO (XO
    XH))))))))))))))))))))))))))))))))))))))))))))))))))))))))))))))) :: ((Npos
    (XO (XO (XO (XO (XO (XO (XI (XI (XO (XO (XO (XI (XO (XO (XO (XO (XI (XO
    (XO (XI (XO (XI (XI (XI (XI (XO (XO (XI (XI (XO (XO (XI (XI (XI (XI (XO
    (XO (XI (XI (XO (XI (XO (XO (XI (XO (XI (XO (XI (XO (XO (XI (XO (XI (XO
    (XO (XI (XO (XI (XI (XO (XI (XO
    XH))))))))))))))))))))))))))))))))))))))))))))))))))))))))))))))) :: ((Npos
    (XO (XI (XI (XI (XI (XI (XI (XI (XI (XO (XO (XO (XO (XO (XO (XI (XI (XO
    (XO (XI (XO (XO (XO (XI (XO (XI (XO (XI (XI (XI (XO (XI (XI (XI (XO (XO
    (XO (XI (XO (XO (XO (XO (XI (XO (XI (XI (XO (XO (XI (XO (XO (XO (XI (XI
    (XO (XI (XI (XO (XI (XI (XO (XI (XI
    XH)))))))))))))))))))))))))))))))))))))))))))))))))))))))))))))))) :: ((Npos
    (XO (XO (XO (XI (XO (XI (XI (XI (XI (XI (XO (XO (XO (XO (XI (XO (XO (XO
    (XI (XO (XO (XI (XI (XO (XO (XO (XO (XI (XO (XI (XI (XI (XO (XI (XI (XI
    (XO (XO (XI (XI (XO (XO (XI (XO (XO (XI (XO (XO (XI (XI (XI (XI (XO (XI
    (XI (XO (XI (XO (XO (XI (XI (XI (XI
    XH)))))))))))))))))))))))))))))))))))))))))))))))))))))))))))))))) :: ((Npos
    (XI (XI (XO (XI (XI (XO (XI (XI (XO (XO (XO (XI (XO (XI (XI (XI (XI (XI
    (XI (XI (XO (XO (XO (XI (XI (XI (XO (XO (XO (XI (XI (XI (XO (XI (XI (XI
    (XO (XI (XO (XI (XI (XI (XO (XI (XO (XO (XO (XI (XO (XO (XO (XI (XI (XI
    (XO (XI (XO (XI (XI
    XH)))))))))))))))))))))))))))))))))))))))))))))))))))))))))))) :: ((Npos
    (XO (XO (XI (XI (XO (XI (XI (XO (XO (XO (XI (XO (XI (XI (XI (XO (XO (XO
    (XO (XO (XI (XO (XI (XO (XI (XI (XO (XI (XO (XI (XO (XI (XI (XO (XO (XO
    (XO (XI (XO (XO (XO (XI (XO (XO (XI (XI (XI (XI (XI (XO (XO (XI (XI (XO
    (XI (XO (XI (XI (XI (XO (XO (XO (XO
    XH)))))))))))))))))))))))))))))))))))))))))))))))))))))))))))))))) :: ((Npos
    (XI (XO (XO (XO (XO (XI (XO (XI (XI (XI (XO (XO (XI (XO (XO (XO (XO (XI
    (XO (XO (XO (XO (XO (XI (XI (XO (XO (XI (XI (XI (XO (XI (XI (XI (XI (XI
    (XO (XO (XI (XI (XI (XI (XI (XO (XI (XI (XI (XI (XI (XI (XI (XO (XO (XO
    (XI (XI (XI
    XH)))))))))))))))))))))))))))))))))))))))))))))))))))))))))) :: ((Npos
    (XI (XI (XO (XI (XO (XO (XI (XO (XI (XI (XI (XI (XI (XO (XO (XO (XI (XO
    (XI (XO (XI (XO (XI (XO (XO (XO (XI (XI (XO (XI (XI (XO (XI (XI (XI (XI
    (XI (XO (XO (XO (XO (XO (XI (XO (XO (XO (XI (XI (XO (XI (XO (XI (XO (XO
    (XI (XO (XO (XO (XO (XI (XO
    XH)))))))))))))))))))))))))))))))))))))))))))))))))))))))))))))) :: ((Npos
    (XO (XI (XI (XI (XI (XI (XI (XO (XI (XO (XO (XI (XI (XI (XI (XI (XI (XI
    (XI (XI (XI (XO (XO (XI (XI (XO (XI (XO (XI (XI (XI (XI (XI (XI (XO (XI
    (XO (XI (XO (XO (XO (XO (XI (XI (XO (XI (XO (XI (XI (XI (XO (XI (XI (XO
    (XO (XO (XI (XO (XO (XI (XO (XO (XI
    XH)))))))))))))))))))))))))))))))))))))))))))))))))))))))))))))))) :: ((Npos
    (XO (XI (XI (XI (XO (XI (XO (XI (XI (XI (XO (XO (XI (XI (XO (XI (XI (XO
    (XI (XI (XO (XO (XI (XO (XO (XI (XO (XI (XO (XO (XO (XI (XO (XO (XO (XO
    (XI (XI (XI (XI (XI (XI (XI (XO (XI (XO (XI (XI (XI (XI (XI (XI (XI (XI
    (XO (XO (XO (XI (XO (XI (XO (XO (XO
    XH)))))))))))))))))))))))))))))))))))))))))))))))))))))))))))))))) :: ((Npos
    (XI (XO (XO (XO (XI (XI (XO (XI (XO (XI (XI (XO (XO (XO (XI (XI (XO (XO
    (XI (XI (XI (XO (XO (XI (XO (XO (XO (XI (XI (XO (XO (XI (XO (XI (XO (XO
    (XO (XO (XO (XI (XO (XO (XI (XO (XO (XI (XO (XO (XO (XO (XI (XI (XO (XO
    (XI (XO (XO (XO (XO (XI (XI
    XH)))))))))))))))))))))))))))))))))))))))))))))))))))))))))))))) :: ((Npos
    (XO (XI (XO (XI (XI (XI (XO (XO (XI (XO (XI (XO (XO (XI (XO (XI (XO (XO
    (XO (XI (XI (XI (XI (XO (XO (XI (XO (XO (XO (XO (XI (XO (XO (XO (XI (XO
    (XO (XO (XO (XI (XI (XO (XI (XI (XI (XO (XO (XO (XO (XO (XI (XI (XI (XO
    (XI (XO (XI (XO (XI (XO (XI (XO (XI
    XH)))))))))))))))))))))))))))))))))))))))))))))))))))))))))))))))) :: ((Npos
    (XI (XO (XI (XO (XI (XI (XO (XO (XO (XI (XO (XO (XO (XI (XO (XI (XO (XO
    (XI (XI (XI (XI (XO (XO (XO (XO (XO (XO (XO (XO (XO (XI (XO (XI (XO (XI
    (XO (XI (XO (XI (XO (XO (XI (XI (XO (XI (XI (XO (XI (XI (XO (XI (XO (XO
    (XO (XO (XI (XI (XO (XI (XO (XO (XO
    XH)))))))))))))))))))))))))))))))))))))))))))))))))))))))))))))))) :: ((Npos
    (XO (XI (XO (XI (XI (XO (XO (XO (XO (XI (XO (XO (XI (XO (XI (XO (XO (XO
    (XI (XI (XI (XI (XI (XI (XO (XO (XI (XO (XI (XI (XI (XO (XO (XI (XI (XO
    (XI (XO (XO (XO (XI (XI (XO (XO (XO (XO (XI (XI (XI (XO (XO (XO (XI (XO
    (XO (XO (XO (XI (XO (XO (XI
    XH)))))))))))))))))))))))))))))))))))))))))))))))))))))))))))))) :: ((Npos
    (XO (XO (XI (XI (XI (XO (XO (XO (XO (XO (XI (XO (XO (XI (XO (XI (XO (XI
    (XO (XO (XI (XI (XI (XO (XO (XO (XI (XI (XO (XI (XO (XO (XI (XI (XI (XO
    (XO (XI (XI (XI (XO (XI (XI (XI (XO (XI (XO (XO (XO (XO (XO (XI (XO (XI
    (XO (XO (XO (XI (XI (XI (XO (XO (XO
    XH)))))))))))))))))))))))))))))))))))))))))))))))))))))))))))))))) :: ((Npos
    (XO (XI (XO (XO (XI (XO (XI (XI (XI (XI (XI (XI (XO (XI (XI (XO (XO (XI
    (XI (XO (XO (XO (XI (XI (XI (XI (XO (XI (XI (XI (XO (XI (XO (XO (XI (XI
    (XI (XO (XO (XI (XI (XO (XO (XO (XO (XO (XO (XO (XI (XI (XI (XO (XO (XI
    (XI (XO (XO (XI (XO (XO (XO (XI (XO
    XH)))))))))))))))))))))))))))))))))))))))))))))))))))))))))))))))) :: ((Npos
    (XI (XO (XI (XO (XI (XI (XO (XI (XI (XO (XI (XI (XI (XI (XI (XO (XI (XO
    (XI (XO (XI (XI (XO (XI (XO (XO (XO (XI (XO (XO (XO (XO (XI (XI (XI (XI
    (XO (XI (XI (XO (XI (XI (XI (XI (XO (XO (XI (XO (XO (XO (XI (XI (XI (XO
    (XO (XO (XO (XI (XO (XI (XI (XI (XO
    XH)))))))))))))))))))))))))))))))))))))))))))))))))))))))))))))))) :: ((Npos
    (XO (XO (XO (XI (XO (XO (XO (XI (XO (XO (XO (XI (XO (XI (XI (XI (XO (XO
    (XO (XO (XO (XI (XI (XO (XI (XI (XI (XO (XO (XO (XI (XI (XO (XI (XI (XI
    (XI (XO (XO (XO (XO (XO (XO (XI (XO (XI (XO (XI (XO (XI (XI (XO (XI (XI
    (XO (XO (XO (XO (XO (XO (XO (XI (XI
    XH)))))))))))))))))))))))))))))))))))))))))))))))))))))))))))))))) :: ((Npos
    (XO (XI (XI (XO (XO (XI (XO (XI (XO (XO (XI (XI (XO (XO (XI (XI (XI (XI
    (XO (XO (XO (XO (XO (XO (XI (XO (XI (XI (XO (XO (XI (XO (XI (XI (XO (XI
    (XI (XO (XO (XO (XO (XO (XI (XI (XI (XO (XO (XO (XI (XI (XI (XO (XO (XI
    (XI (XO (XO (XO (XO (XI
    XH))))))))))))))))))))))))))))))))))))))))))))))))))))))))))))) :: ((Npos
    (XI (XI (XO (XI (XI (XO (XO (XO (XI (XO (XO (XI (XO (XO (XO (XI (XI (XO
    (XO (XI (XI (XO (XO (XI (XI (XO (XO (XO (XO (XO (XO (XI (XI (XI (XI (XO
    (XO (XO (XI (XO (XO (XO (XI (XO (XI (XO (XO (XO (XI (XI (XO (XI (XI (XI
    (XO (XO (XI (XO (XO (XI (XO (XI
    XH))))))))))))))))))))))))))))))))))))))))))))))))))))))))))))))) :: ((Npos
    (XO (XO (XO (XO (XO (XI (XO (XI (XO (XI (XI (XI (XI (XI (XO (XI (XO (XI
    (XO (XI (XI (XO (XO (XI (XO (XO (XI (XO (XI (XO (XI (XO (XO (XI (XI (XO
    (XO (XO (XO (XI (XO (XO (XI (XI (XO (XI (XO (XI (XO (XO (XI (XI (XI (XO
    (XO (XO (XO (XI (XO (XI (XO (XI (XO
    XH)))))))))))))))))))))))))))))))))))))))))))))))))))))))))))))))) :: ((Npos
    (XO (XO (XI (XO (XO (XO (XI (XI (XO (XI (XI (XI (XO (XO (XO (XO (XI (XI
    (XO (XO (XI (XI (XO (XI (XI (XO (XI (XO (XI (XO (XO (XO (XO (XI (XO (XI
    (XO (XO (XO (XO (XI (XI (XI (XO (XO (XO (XO (XO (XO (XO (XO (XO (XI (XI
    (XO (XO (XI (XI (XO (XO (XO (XO
    XH))))))))))))))))))))))))))))))))))))))))))))))))))))))))))))))) :: ((Npos
    (XO (XO (XO (XI (XI (XI (XI (XI (XO (XI (XI (XO (XI (XO (XI (XO (XI (XO
    (XI (XO (XO (XO (XI (XI (XO (XO (XI (XI (XO (XO (XI (XO (XO (XI (XO (XO
    (XO (XI (XI (XO (XI (XI (XI (XI (XI (XI (XI (XO (XO (XO (XI (XI (XO (XI
    (XI (XO (XO (XO (XO (XI
    XH))))))))))))))))))))))))))))))))))))))))))))))))))))))))))))) :: ((Npos
    (XI (XI (XI (XO (XI (XI (XI (XO (XO (XO (XI (XO (XO (XI (XI (XI (XO (XI
    (XI (XO (XI (XI (XI (XO (XO (XI (XO (XI (XI (XO (XI (XO (XO (XO (XI (XI
    (XI (XO (XI (XO (XI (XO (XO (XI (XO (XI (XO (XI (XO (XI (XO (XO (XI (XI
    (XO (XO (XI (XO (XI (XI (XI (XI (XI
    XH)))))))))))))))))))))))))))))))))))))))))))))))))))))))))))))))) :: ((Npos
    (XI (XI (XO (XO (XI (XO (XI (XO (XO (XO (XI (XI (XO (XI (XO (XI (XO (XI
    (XI (XI (XI (XO (XO (XO (XO (XO (XI (XO (XI (XI (XI (XO (XI (XI (XI (XI
    (XI (XO (XO (XO (XI (XO (XO (XO (XO (XO (XO (XI (XO (XO (XO (XO (XI (XI
    (XO (XO (XI (XI (XI (XO (XO (XO
    XH))))))))))))))))))))))))))))))))))))))))))))))))))))))))))))))) :: ((Npos
    (XI (XO (XI (XI (XI (XO (XO (XO (XI (XI (XO (XO (XI (XO (XI (XO (XI (XI
    (XI (XO (XI (XI (XO (XI (XI (XO (XO (XO (XI (XI (XO (XI (XO (XI (XO (XI
    (XI (XI (XI (XI (XI (XI (XI (XO (XI (XO (XO (XO (XO (XI (XI (XO (XO (XO
    (XO (XO (XO (XI (XO (XO (XO (XI
    XH))))))))))))))))))))))))))))))))))))))))))))))))))))))))))))))) :: ((Npos
    (XO (XI (XI (XO (XO (XI (XO (XO (XO (XI (XI (XI (XI (XI (XO (XI (XI (XI
    (XO (XI (XO (XI (XI (XI (XI (XO (XO (XO (XI (XO (XI (XO (XO (XI (XO (XI
    (XI (XO (XI (XO (XI (XI (XO (XO (XO (XO (XO (XO (XO (XI (XO (XO (XI (XI
    (XI (XO (XO (XI (XO (XI (XI
    XH)))))))))))))))))))))))))))))))))))))))))))))))))))))))))))))) :: ((Npos
    (XO (XO (XI (XO (XI (XI (XO (XI (XI (XI (XI (XI (XO (XI (XI (XI (XO (XO
    (XI (XO (XI (XO (XI (XO (XI (XI (XO (XI (XO (XI (XI (XI (XO (XI (XI (XO
    (XO (XI (XI (XI (XO (XI (XO (XI (XO (XI (XO (XO (XI (XI (XO (XO (XO (XI
    (XO (XI (XI (XI (XI (XI (XI
    XH)))))))))))))))))))))))))))))))))))))))))))))))))))))))))))))) :: ((Npos
    (XO (XI (XI (XO (XO (XO (XI (XO (XO (XO (XO (XI (XI (XI (XI (XO (XI (XI
    (XI (XI (XI (XO (XO (XI (XI (XI (XI (XO (XI (XI (XO (XI (XI (XO (XO (XI
    (XI (XO (XI (XO (XI (XO (XI (XI (XI (XI (XO (XO (XI (XO (XO (XI (XO (XO
    (XI (XI (XO (XO (XI (XI (XI (XO
    XH))))))))))))))))))))))))))))))))))))))))))))))))))))))))))))))) :: ((Npos
    (XI (XI (XI (XO (XO (XI (XI (XO (XO (XI (XO (XI (XO (XO (XI (XI (XI (XO
    (XO (XI (XI (XI (XO (XI (XI (XO (XI (XI (XO (XO (XI (XO (XO (XI (XI (XI
    (XO (XI (XO (XO (XI (XI (XO (XO (XI (XO (XO (XO (XI (XI (XO (XO (XI (XO
    (XO (XI (XO (XO (XO (XO (XO (XO
    XH))))))))))))))))))))))))))))))))))))))))))))))))))))))))))))))) :: ((Npos
    (XI (XI (XO (XO (XO (XO (XI (XI (XI (XI (XO (XO (XI (XI (XO (XO (XO (XI
    (XO (XO (XO (XI (XO (XI (XO (XI (XO (XO (XO (XO (XI (XO (XI (XI (XO (XI
    (XI (XI (XI (XO (XO (XO (XO (XI (XI (XI (XO (XI (XI (XO (XO (XI (XO (XO
    (XI (XO (XI (XI (XO (XO (XI (XO (XO
    XH)))))))))))))))))))))))))))))))))))))))))))))))))))))))))))))))) :: ((Npos
    (XI (XO (XI (XO (XO (XO (XI (XI (XO (XI (XI (XI (XO (XI (XI (XO (XO (XO
    (XO (XI (XO (XO (XI (XO (XO (XI (XO (XO (XI (XI (XO (XO (XO (XO (XO (XO
    (XO (XO (XO (XI (XI (XI (XO (XI (XI (XI (XO (XO (XO (XO (XI (XI (XI (XI
    (XI (XO (XO (XI (XO (XI (XO (XO
    XH))))))))))))))))))))))))))))))))))))))))))))))))))))))))))))))) :: ((Npos
    (XI (XI (XO (XO (XI (XI (XO (XO (XO (XO (XI (XO (XO (XI (XO (XI (XI (XO
    (XI (XI (XI (XI (XI (XO (XO (XO (XO (XO (XO (XO (XI (XI (XO (XO (XI (XI
    (XO (XO (XO (XO (XI (XI (XI (XI (XO (XO (XI (XO (XI (XO (XO (XI (XO (XI
    (XI (XO (XI (XI (XI (XI (XO
    XH)))))))))))))))))))))))))))))))))))))))))))))))))))))))))))))) :: ((Npos
    (XO (XI (XO (XI (XI (XI (XI (XO (XO (XO (XI (XO (XI (XO (XI (XO (XO (XI
    (XO (XI (XI (XO (XI (XI (XO (XO (XO (XI (XI (XI (XI (XI (XI (XI (XO (XO
    (XI (XO (XO (XO (XO (XI (XO (XI (XO (XO (XI (XO (XI (XI (XO (XO (XO (XO
    (XI (XI (XO (XI (XO (XI (XO (XI (XI
    XH)))))))))))))))))))))))))))))))))))))))))))))))))))))))))))))))) :: ((Npos
    (XI (XI (XI (XO (XO (XO (XI (XO (XI (XO (XI (XO (XO (XI (XO (XI (XO (XO
    (XI (XI (XI (XI (XO (XI (XI (XI (XI (XI (XO (XI (XI (XI (XI (XI (XO (XO
    (XO (XO (XI (XI (XO (XO (XO (XI (XO (XI (XI (XO (XO (XI (XI (XI (XI (XO
    (XI (XI (XO (XO (XO (XO (XO (XO
    XH))))))))))))))))))))))))))))))))))))))))))))))))))))))))))))))) :: ((Npos
    (XI (XO (XO (XI (XO (XO (XO (XI (XO (XO (XI (XO (XO (XI (XI (XI (XO (XO
    (XO (XO (XI (XI (XO (XO (XO (XI (XI (XI (XI (XI (XO (XO (XO (XO (XO (XI
    (XI (XO (XO (XO (XO (XO (XO (XO (XO (XO (XO (XI (XO (XI (XO (XI (XO (XO
    (XO (XO (XI (XI (XO (XI (XI (XO
    XH))))))))))))))))))))))))))))))))))))))))))))))))))))))))))))))) :: ((Npos
    (XO (XO (XI (XI (XI (XO (XI (XO (XO (XI (XO (XO (XI (XO (XI (XI (XO (XO
    (XO (XI (XI (XO (XI (XO (XI (XI (XO (XI (XO (XO (XO (XO (XO (XI (XO (XO
    (XO (XI (XO (XI (XI (XO (XO (XO (XO (XO (XI (XO (XO (XI (XO (XI (XO (XO
    (XO (XI (XO (XI (XO (XI (XI (XO (XI
    XH)))))))))))))))))))))))))))))))))))))))))))))))))))))))))))))))) :: ((Npos
    (XO (XI (XI (XI (XO (XO (XO (XO (XI (XI (XO (XO (XI (XO (XO (XI (XO (XI
    (XO (XO (XI (XO (XI (XI (XI (XI (XO (XO (XO (XO (XI (XO (XI (XO (XO (XO
    (XO (XI (XO (XO (XI (XO (XO (XI (XI (XO (XO (XO (XO (XI (XI (XO (XO (XO
    (XO (XI (XI (XI (XI (XI (XI (XI (XO
    XH)))))))))))))))))))))))))))))))))))))))))))))))))))))))))))))))) :: ((Npos
    (XO (XO (XI (XI (XI (XO (XO (XI (XO (XI (XO (XO (XI (XO (XI (XO (XI (XI
    (XI (XI (XI (XO (XI (XO (XI (XI (XO (XI (XI (XO (XO (XI (XI (XO (XI (XO
    (XO (XO (XI (XO (XO (XO (XO (XO (XO (XO (XI (XO (XI (XO (XI (XI (XO (XI
    (XI (XO (XO (XI (XI (XI (XI (XO (XO
    XH)))))))))))))))))))))))))))))))))))))))))))))))))))))))))))))))) :: ((Npos
    (XI (XO (XI (XO (XO (XO (XI (XI (XO (XI (XI (XI (XO (XO (XI (XI (XI (XO
    (XI (XI (XO (XO (XO (XI (XI (XI (XO (XI (XI (XI (XI (XO (XO (XI (XI (XI
    (XI (XI (XO (XO (XO (XO (XO (XI (XI (XO (XO (XI (XI (XI (XO (XI (XI (XI
    (XI (XI (XI (XI (XI (XO (XO (XO
    XH))))))))))))))))))))))))))))))))))))))))))))))))))))))))))))))) :: ((Npos
    (XI (XI (XO (XI (XO (XI (XO (XI (XO (XO (XI (XI (XO (XI (XO (XO (XO (XO
    (XO (XI (XI (XO (XO (XO (XO (XI (XO (XI (XO (XI (XO (XO (XI (XO (XI (XO
    (XI (XO (XO (XO (XO (XO (XI (XI (XI (XI (XO (XO (XI (XO (XO (XI (XO (XI
    (XO (XI (XI (XI (XI (XO (XO (XI (XO
    XH)))))))))))))))))))))))))))))))))))))))))))))))))))))))))))))))) :: ((Npos
    (XO (XO (XI (XO (XO (XI (XO (XI (XO (XO (XI (XO (XI (XI (XI (XI (XI (XI
    (XO (XO (XI (XI (XI (XI (XO (XO (XO (XO (XI (XO (XI (XI (XI (XO (XI (XI
    (XO (XO (XO (XO (XI (XI (XI (XO (XI (XO (XO (XI (XI (XI (XO (XO (XI (XI
    (XI (XI (XO (XO (XI (XO (XI (XO (XI
    XH)))))))))))))))))))))))))))))))))))))))))))))))))))))))))))))))) :: ((Npos
    (XO (XO (XI (XI (XO (XO (XO (XO (XI (XO (XI (XO (XO (XI (XI (XO (XO (XO
    (XO (XO (XI (XI (XO (XI (XO (XI (XI (XO (XO (XO (XI (XI (XI (XI (XI (XO
    (XI (XO (XO (XI (XI (XI (XI (XI (XI (XO (XI (XO (XO (XI (XO (XI (XI (XO
    (XI (XI (XI (XO (XI (XO (XI (XI (XO
    XH)))))))))))))))))))))))))))))))))))))))))))))))))))))))))))))))) :: ((Npos
    (XI (XO (XO (XI (XO (XO (XO (XO (XO (XO (XO (XO (XI (XO (XI (XO (XI (XI
    (XI (XI (XI (XI (XO (XI (XO (XO (XI (XO (XI (XO (XO (XO (XO (XO (XI (XO
    (XO (XO (XO (XI (XI (XI (XI (XO (XI (XI (XI (XO (XI (XO (XO (XO (XO (XI
    (XI (XO (XO (XI (XO (XI (XO (XI (XI
    XH)))))))))))))))))))))))))))))))))))))))))))))))))))))))))))))))) :: ((Npos
    (XI (XO (XI (XO (XI (XO (XO (XO (XI (XO (XO (XO (XO (XO (XI (XO (XI (XO
    (XI (XI (XI (XI (XO (XO (XI (XI (XI (XO (XO (XI (XO (XO (XO (XO (XI (XI
    (XI (XO (XI (XI (XI (XO (XI (XI (XI (XI (XI (XI (XO (XI (XI (XI (XO (XO
    (XI (XO (XO (XI (XO (XI (XI (XI
    XH))))))))))))))))))))))))))))))))))))))))))))))))))))))))))))))) :: ((Npos
    (XO (XO (XI (XO (XO (XI (XI (XO (XI (XO (XO (XI (XO (XO (XO (XO (XI (XO
    (XI (XO (XI (XO (XO (XO (XI (XI (XI (XI (XI (XO (XI (XO (XO (XO (XO (XI
    (XO (XO (XI (XI (XO (XO (XI (XO (XO (XI (XI (XO (XO (XI (XO (XI (XI (XO
    (XO (XO (XO (XI (XI (XO (XI (XI (XO
    XH)))))))))))))))))))))))))))))))))))))))))))))))))))))))))))))))) :: ((Npos
    (XO (XI (XI (XO (XO (XI (XI (XI (XI (XO (XI (XO (XI (XO (XO (XO (XI (XO
    (XI (XO (XO (XI (XI (XI (XI (XO (XO (XI (XO (XO (XO (XI (XI (XO (XI (XO
    (XI (XI (XI (XO (XO (XI (XI (XO (XO (XI (XI (XO (XO (XO (XO (XI (XO (XO
    (XO (XI (XI (XI (XI (XO (XO (XI (XO
    XH)))))))))))))))))))))))))))))))))))))))))))))))))))))))))))))))) :: ((Npos
    (XI (XO (XI (XO (XO (XI (XI (XI (XO (XI (XO (XO (XO (XI (XI (XO (XO (XI
    (XI (XO (XO (XO (XO (XI (XO (XO (XI (XI (XO (XO (XI (XI (XO (XO (XO (XO
    (XO (XO (XI (XI (XI (XO (XO (XO (XO (XI (XO (XI (XO (XO (XO (XI (XO (XO
    (XI (XO (XI (XO (XI (XI (XI (XI (XI
    XH)))))))))))))))))))))))))))))))))))))))))))))))))))))))))))))))) :: ((Npos
    (XI (XI (XO (XI (XI (XI (XO (XI (XI (XO (XO (XO (XO (XO (XO (XO (XO (XO
    (XI (XI (XO (XI (XI (XO (XO (XO (XI (XO (XI (XO (XO (XO (XO (XI (XI (XO
    (XO (XI (XO (XO (XI (XO (XI (XI (XI (XI (XI (XI (XO (XI (XI (XI (XI (XO
    (XO (XI (XI (XI (XI (XO (XO (XO (XO
    XH)))))))))))))))))))))))))))))))))))))))))))))))))))))))))))))))) :: ((Npos
    (XO (XI (XO (XO (XI (XO (XI (XO (XI (XI (XO (XI (XI (XO (XI (XO (XO (XO
    (XO (XI (XI (XO (XI (XI (XI (XI (XI (XI (XI (XI (XI (XI (XI (XO (XO (XI
    (XI (XI (XI (XI (XI (XO (XO (XO (XI (XO (XO (XO (XI (XI (XO (XI (XI (XO
    (XO (XI (XI (XI (XO (XI (XI (XO (XO
    XH)))))))))))))))))))))))))))))))))))))))))))))))))))))))))))))))) :: ((Npos
    (XI (XI (XI (XO (XI (XO (XI (XO (XO (XI (XO (XO (XI (XI (XI (XO (XI (XI
    (XO (XO (XI (XI (XO (XI (XO (XO (XO (XI (XI (XI (XO (XO (XO (XO (XO (XO
    (XO (XI (XI (XI (XI (XO (XI (XI (XI (XI (XO (XI (XI (XI (XO (XI (XI (XO
    (XI (XI (XI (XI (XI (XO (XO (XI (XI
    XH)))))))))))))))))))))))))))))))))))))))))))))))))))))))))))))))) :: ((Npos
    (XO (XO (XI (XI (XO (XI (XI (XI (XI (XO (XI (XO (XO (XO (XI (XI (XI (XI
    (XI (XI (XI (XI (XI (XO (XO (XO (XI (XI (XO (XO (XO (XI (XO (XO (XI (XI
    (XO (XI (XO (XI (XI (XI (XI (XI (XO (XO (XO (XI (XO (XO (XO (XI (XO (XI
    (XI (XO (XO (XI (XI (XO (XI
    XH)))))))))))))))))))))))))))))))))))))))))))))))))))))))))))))) :: ((Npos
    (XI (XO (XO (XO (XI (XI (XI (XI (XO (XI (XI (XI (XI (XO (XI (XI (XO (XO
    (XO (XO (XI (XO (XO (XO (XO (XO (XO (XI (XO (XI (XI (XO (XI (XI (XI (XO
    (XO (XO (XO (XO (XI (XI (XI (XI (XO (XI (XI (XO (XO (XI (XI (XO (XI (XI
    (XI (XI (XI (XI (XI (XI (XI (XI (XI
    XH)))))))))))))))))))))))))))))))))))))))))))))))))))))))))))))))) :: ((Npos
    (XI (XO (XO (XO (XO (XO (XI (XO (XO (XO (XI (XO (XI (XO (XI (XI (XI (XI
    (XI (XO (XO (XO (XI (XI (XO (XO (XO (XO (XO (XI (XO (XO (XO (XI (XI (XO
    (XI (XI (XI (XI (XI (XI (XO (XO (XO (XI (XI (XO (XO (XO (XI (XO (XO (XO
    (XI (XO (XO (XO (XO (XI (XI (XO
    XH))))))))))))))))))))))))))))))))))))))))))))))))))))))))))))))) :: ((Npos
    (XO (XI (XO (XO (XI (XO (XI (XO (XI (XO (XI (XI (XO (XO (XI (XI (XI (XI
    (XI (XI (XI (XO (XI (XI (XI (XO (XO (XI (XO (XO (XO (XO (XO (XI (XI (XO
    (XI (XO (XO (XI (XI (XI (XI (XO (XI (XI (XI (XI (XI (XO (XO (XI (XO (XI
    (XO (XO (XI (XI (XO (XO (XI (XO (XI
    XH)))))))))))))))))))))))))))))))))))))))))))))))))))))))))))))))) :: ((Npos
    (XO (XO (XO (XO (XI (XI (XO (XO (XI (XO (XO (XI (XO (XI (XO (XI (XO (XO
    (XO (XI (XI (XI (XO (XI (XI (XI (XO (XO (XO (XO (XO (XI (XI (XO (XI (XO
    (XO (XO (XI (XI (XI (XO (XO (XI (XO (XI (XO (XI (XO (XI (XI (XO (XI (XO
    (XO (XO (XO (XI (XI (XI (XI (XI
    XH))))))))))))))))))))))))))))))))))))))))))))))))))))))))))))))) :: ((Npos
    (XO (XO (XO (XO (XI (XI (XI (XO (XO (XO (XO (XI (XO (XI (XO (XO (XO (XO
    (XI (XI (XI (XI (XO (XO (XO (XO (XI (XI (XI (XI (XI (XO (XI (XI (XI (XO
    (XO (XI (XI (XI (XO (XO (XO (XI (XO (XI (XI (XO (XI (XO (XO (XI (XI (XO
    (XO (XI (XI (XI (XO (XI (XO (XI (XO
    XH)))))))))))))))))))))))))))))))))))))))))))))))))))))))))))))))) :: ((Npos
    (XO (XI (XI (XO (XI (XO (XO (XO (XO (XI (XO (XO (XO (XO (XO (XI (XO (XI
    (XI (XO (XO (XO (XI (XO (XO (XI (XO (XI (XO (XI (XI (XI (XO (XO (XO (XI
    (XO (XO (XO (XI (XO (XI (XO (XO (XI (XI (XO (XI (XI (XO (XO (XI (XO (XO
    (XI (XI (XO (XO (XI (XO (XO (XI
    XH))))))))))))))))))))))))))))))))))))))))))))))))))))))))))))))) :: ((Npos
    (XI (XO (XI (XI (XI (XI (XO (XI (XI (XO (XI (XI (XI (XO (XO (XI (XO (XI
    (XI (XI (XI (XI (XO (XI (XI (XI (XO (XO (XI (XI (XI (XO (XI (XO (XO (XI
    (XO (XI (XO (XO (XO (XI (XO (XO (XO (XO (XO (XO (XO (XO (XI (XI (XO (XO
    (XI (XI (XI (XO (XI (XI (XO (XI
    XH))))))))))))))))))))))))))))))))))))))))))))))))))))))))))))))) :: ((Npos
    (XO (XI (XI (XO (XI (XO (XI (XI (XI (XO (XI (XO (XO (XO (XI (XO (XI (XI
    (XI (XI (XO (XO (XO (XI (XI (XO (XO (XO (XI (XI (XO (XI (XO (XI (XO (XO
    (XI (XO (XO (XI (XI (XI (XO (XI (XI (XI (XO (XI (XI (XO (XI (XI (XO (XI
    (XO (XO (XO (XI (XI (XO (XI (XO (XO
    XH)))))))))))))))))))))))))))))))))))))))))))))))))))))))))))))))) :: ((Npos
    (XO (XI (XI (XO (XO (XI (XO (XO (XI (XO (XO (XI (XI (XI (XI (XI (XI (XI
    (XO (XI (XI (XO (XO (XI (XI (XI (XO (XI (XO (XO (XI (XI (XO (XI (XI (XI
    (XO (XI (XO (XI (XI (XI (XI (XO (XO (XO (XO (XO (XI (XI (XO (XO (XI (XO
    (XI (XI (XI (XO (XO (XI (XO (XO
    XH))))))))))))))))))))))))))))))))))))))))))))))))))))))))))))))) :: ((Npos
    (XI (XO (XO (XI (XI (XO (XI (XI (XI (XO (XI (XI (XO (XO (XI (XI (XI (XI
    (XI (XI (XI (XO (XO (XI (XO (XO (XO (XI (XO (XI (XI (XI (XO (XO (XO (XI
    (XI (XI (XI (XO (XO (XI (XI (XI (XI (XO (XO (XI (XO (XO (XI (XI (XO (XI
    (XI (XI (XO (XI (XO (XO (XO (XO (XI
    XH)))))))))))))))))))))))))))))))))))))))))))))))))))))))))))))))) :: ((Npos
    (XO (XI (XO (XO (XI (XO (XI (XO (XI (XO (XO (XI (XI (XI (XI (XO (XO (XO
    (XI (XI (XO (XO (XI (XI (XO (XO (XO (XO (XO (XO (XI (XI (XI (XO (XO (XI
    (XI (XI (XO (XI (XI (XO (XO (XO (XO (XI (XO (XI (XI (XO (XO (XI (XO (XO
    (XO (XI (XO (XI (XI (XI (XI
    XH)))))))))))))))))))))))))))))))))))))))))))))))))))))))))))))) :: ((Npos
    (XO (XO (XO (XI (XO (XI (XI (XI (XI (XO (XO (XI (XI (XI (XO (XI (XO (XI
    (XO (XO (XI (XI (XI (XO (XI (XO (XI (XI (XO (XO (XI (XO (XO (XI (XO (XI
    (XO (XI (XI (XI (XO (XI (XO (XI (XI (XI (XI (XO (XO (XI (XI (XI (XO (XI
    (XI (XO (XO (XI (XO (XI (XI (XO (XI
    XH)))))))))))))))))))))))))))))))))))))))))))))))))))))))))))))))) :: ((Npos
    (XI (XO (XO (XO (XI (XO (XO (XI (XO (XO (XI (XI (XI (XO (XO (XI (XI (XI
    (XO (XO (XO (XO (XI (XI (XO (XO (XI (XO (XI (XI (XO (XO (XO (XO (XI (XO
    (XI (XO (XO (XI (XO (XI (XO (XO (XO (XI (XI (XI (XI (XI (XO (XI (XO (XO
    (XI (XI (XI (XO (XI (XI (XI (XO
    XH))))))))))))))))))))))))))))))))))))))))))))))))))))))))))))))) :: ((Npos
    (XO (XI (XO (XI (XO (XI (XI (XI (XO (XI (XO (XI (XO (XI (XI (XI (XO (XO
    (XO (XO (XO (XI (XI (XO (XO (XI (XO (XI (XI (XO (XI (XI (XI (XI (XO (XI
    (XO (XI (XO (XO (XI (XO (XO (XO (XI (XI (XI (XI (XI (XO (XO (XI (XO (XI
    (XO (XI (XI (XO (XO (XO (XO (XI
    XH))))))))))))))))))))))))))))))))))))))))))))))))))))))))))))))) :: ((Npos
    (XO (XI (XO (XO (XO (XI (XO (XO (XI (XO (XO (XI (XI (XO (XI (XI (XO (XO
    (XO (XO (XO (XO (XI (XO (XI (XO (XI (XI (XO (XO (XO (XI (XO (XO (XO (XO
    (XO (XI (XO (XO (XO (XO (XI (XI (XI (XO (XI (XI (XO (XO (XO (XI (XO (XI
    (XI (XI (XI (XI (XO (XO (XO (XO (XO
    XH)))))))))))))))))))))))))))))))))))))))))))))))))))))))))))))))) :: ((Npos
    (XO (XI (XI (XO (XO (XI (XI (XO (XI (XO (XO (XO (XI (XI (XO (XI (XO (XI
    (XI (XO (XO (XO (XO (XO (XI (XI (XI (XO (XI (XI (XO (XI (XI (XI (XI (XI
    (XI (XO (XI (XO (XO (XI (XI (XI (XI (XI (XI (XI (XO (XI (XI (XI (XI (XO
    (XO (XO (XO (XO (XO (XO (XO
    XH)))))))))))))))))))))))))))))))))))))))))))))))))))))))))))))) :: ((Npos
    (XI (XI (XI (XO (XO (XI (XI (XI (XO (XO (XI (XO (XO (XO (XO (XO (XI (XI
    (XO (XO (XO (XI (XO (XI (XO (XI (XO (XI (XI (XO (XO (XO (XO (XI (XI (XI
    (XO (XI (XI (XI (XO (XO (XO (XI (XI (XO (XO (XI (XO (XO (XO (XI (XI (XI
    (XO (XI (XI (XI (XI (XI (XI (XO (XI
    XH)))))))))))))))))))))))))))))))))))))))))))))))))))))))))))))))) :: ((Npos
    (XO (XI (XO (XI (XO (XO (XI (XI (XO (XO (XO (XI (XO (XO (XO (XO (XO (XO
    (XI (XI (XI (XO (XI (XO (XI (XO (XO (XO (XI (XO (XO (XI (XO (XI (XO (XI
    (XI (XI (XI (XI (XI (XO (XI (XO (XI (XO (XI (XO (XO (XO (XO (XO (XI (XI
    (XI (XI (XO (XI (XO (XO (XI (XO (XI
    XH)))))))))))))))))))))))))))))))))))))))))))))))))))))))))))))))) :: ((Npos
    (XO (XI (XO (XO (XI (XI (XI (XI (XO (XI (XI (XO (XO (XO (XO (XI (XI (XI
    (XO (XI (XI (XO (XI (XO (XI (XO (XI (XO (XI (XO (XI (XI (XI (XO (XI (XI
    (XO (XO (XO (XI (XI (XO (XI (XO (XO (XO (XO (XI (XO (XO (XO (XO (XI (XO
    (XO (XO (XO (XO (XO (XO (XO (XO
    XH))))))))))))))))))))))))))))))))))))))))))))))))))))))))))))))) :: ((Npos
    (XI (XO (XI (XI (XI (XI (XI (XO (XO (XI (XO (XO (XI (XO (XI (XO (XI (XO
    (XI (XO (XI (XO (XO (XI (XO (XI (XO (XO (XI (XI (XI (XI (XO (XI (XI (XO
    (XI (XI (XO (XI (XI (XO (XO (XO (XO (XI (XI (XI (XO (XI (XI (XI (XO (XO
    (XI (XO (XO (XI (XI (XO (XO (XI
    XH))))))))))))))))))))))))))))))))))))))))))))))))))))))))))))))) :: ((Npos
    (XO (XI (XO (XO (XO (XI (XI (XO (XI (XO (XI (XI (XI (XI (XO (XO (XO (XO
    (XO (XI (XI (XI (XI (XI (XO (XO (XI (XO (XI (XO (XO (XO (XO (XO (XI (XI
    (XI (XO (XI (XO (XO (XI (XI (XI (XI (XI (XO (XO (XO (XO (XI (XO (XI (XO
    (XO (XI (XI (XI (XI (XI (XO (XO (XO
    XH)))))))))))))))))))))))))))))))))))))))))))))))))))))))))))))))) :: ((Npos
    (XO (XI (XI (XI (XO (XO (XI (XI (XI (XI (XO (XO (XO (XI (XO (XI (XI (XO
    (XO (XI (XI (XI (XO (XO (XO (XO (XI (XO (XO (XO (XO (XO (XI (XI (XO (XI
    (XO (XI (XI (XO (XI (XO (XI (XO (XO (XO (XO (XO (XO (XO (XI (XO (XO (XI
    (XI (XI (XI (XO (XI (XI (XI (XI (XO
    XH)))))))))))))))))))))))))))))))))))))))))))))))))))))))))))))))) :: ((Npos
    (XI (XI (XI (XO (XI (XI (XI (XO (XI (XI (XI (XO (XO (XI (XI (XI (XI (XO
    (XI (XI (XO (XO (XI (XO (XO (XI (XO (XI (XI (XO (XI (XO (XO (XO (XO (XI
    (XI (XO (XI (XO (XI (XO (XI (XI (XI (XO (XI (XI (XO (XO (XO (XO (XO (XI
    (XI (XO (XO (XO (XI (XI (XO (XI (XI
    XH)))))))))))))))))))))))))))))))))))))))))))))))))))))))))))))))) :: ((Npos
    (XI (XI (XO (XI (XI (XO (XO (XI (XI (XI (XI (XO (XO (XO (XO (XO (XI (XO
    (XI (XO (XI (XI (XO (XI (XI (XI (XO (XI (XI (XO (XI (XI (XI (XO (XI (XO
    (XI (XI (XO (XO (XI (XI (XO (XI (XO (XI (XO (XO (XO (XI (XI (XO (XI (XI
    (XI (XO (XI (XO (XI (XI (XO (XI
    XH))))))))))))))))))))))))))))))))))))))))))))))))))))))))))))))) :: ((Npos
    (XI (XI (XI (XI (XO (XI (XO (XI (XO (XO (XI (XI (XI (XO (XI (XO (XO (XO
    (XI (XO (XO (XI (XO (XO (XI (XO (XO (XI (XO (XO (XI (XI (XI (XI (XO (XO
    (XI (XI (XO (XO (XI (XO (XI (XI (XO (XI (XI (XI (XO (XO (XI (XI (XI (XO
    (XI (XI (XI (XO (XO (XO (XO (XI (XO
    XH)))))))))))))))))))))))))))))))))))))))))))))))))))))))))))))))) :: ((Npos
    (XO (XO (XI (XO (XO (XI (XI (XI (XO (XI (XO (XI (XI (XI (XO (XI (XO (XO
    (XI (XI (XO (XO (XI (XO (XO (XI (XO (XI (XI (XI (XO (XI (XO (XO (XO (XO
    (XI (XI (XI (XO (XI (XO (XO (XI (XI (XO (XO (XI (XI (XO (XO (XO (XI (XI
    (XO (XI (XI (XI (XI (XI (XO (XO (XI
    XH)))))))))))))))))))))))))))))))))))))))))))))))))))))))))))))))) :: [])))))))))))))))))))))))))))))))))))))))))))))))))))))))))))))))))))))))))))))))))))))))))))))))))))))))))))))))))))))))))))))))))))))))))))))))))))))))))))))))))))))))))))))))))))))))))))))))))))))))))))))))))))))))))))))))))))))))))))))))))))))))))))))))))))))))))))))))))))))))))))))))))))))))))))))))))))))))))))))))))))))))))))))))))))))))))))))))))))))))))))))))))))))))))))))))))))))))))))))))))))))))))))))))))))))))))))))))))))))))))))))))))))))))))))))))))))))))))))))))))))))))))))))))))))))))))))))))))))))))))))))))))))))))))))))))))))))))))))))))))))))))))))))))))))))))))))))))))))))))))))))))))))))))))))))))))))))))))))))))))))))))))))))))))))))))))))))))))))))))))))))))))))))))))))))))))))))))))))))))))))))))))))))))))))))))))))))))))))))))))))))))

(** val castle_zobrist_tbl : n list **)

let castle_zobrist_tbl =
  (Npos (XO (XO (XI (XI (XI (XO (XO (XO (XI (XI (XI (XO (XI (XO (XI (XO (XO
    (XI (XO (XO (XO (XO (XO (XI (XO (XI (XO (XI (XO (XI (XO (XI (XO (XI (XI
    (XI (XO (XI (XO (XI (XO (XI (XO (XO (XO (XO (XO (XO (XO (XI (XO (XI (XO
    (XO (XO (XO (XO (XI (XO (XO (XO
    XH)))))))))))))))))))))))))))))))))))))))))))))))))))))))))))))) :: ((Npos
    (XI (XI (XO (XI (XO (XO (XI (XI (XI (XI (XO (XI (XO (XO (XI (XO (XO (XO
    (XI (XO (XI (XO (XO (XI (XI (XO (XI (XO (XO (XI (XI (XO (XI (XI (XI (XO
    (XO (XI (XI (XI (XO (XI (XO (XO (XO (XO (XO (XI (XO (XI (XI (XI (XO (XI
    (XO (XI (XI (XI (XO
    XH)))))))))))))))))))))))))))))))))))))))))))))))))))))))))))) :: ((Npos
    (XI (XO (XO (XO (XO (XI (XI (XO (XO (XI (XI (XO (XO (XO (XI (XO (XI (XO
    (XI (XI (XO (XO (XO (XO (XO (XI (XO (XI (XI (XO (XI (XO (XO (XO (XI (XI
    (XI (XO (XO (XO (XI (XO (XI (XO (XI (XI (XO (XO (XI (XO (XI (XO (XO (XI
    (XO (XO (XI (XI (XI (XO (XI
    XH)))))))))))))))))))))))))))))))))))))))))))))))))))))))))))))) :: ((Npos
    (XI (XI (XI (XI (XI (XO (XO (XI (XI (XO (XI (XI (XO (XO (XI (XO (XO (XO
    (XO (XI (XO (XI (XI (XO (XO (XO (XI (XI (XO (XI (XI (XO (XO (XI (XO (XO
    (XO (XO (XI (XI (XI (XI (XI (XI (XO (XI (XO (XO (XI (XI (XO (XO (XO (XI
    (XI (XI (XO (XO (XO (XO (XO (XO (XI
    XH)))))))))))))))))))))))))))))))))))))))))))))))))))))))))))))))) :: ((Npos
    (XI (XI (XO (XO (XO (XO (XO (XO (XI (XI (XI (XO (XI (XI (XO (XI (XO (XO
    (XO (XI (XI (XO (XO (XI (XO (XO (XO (XI (XO (XO (XI (XO (XI (XO (XI (XI
    (XI (XI (XO (XO (XO (XI (XO (XO (XO (XO (XO (XI (XI (XI (XI (XO (XI (XO
    (XO (XO (XO (XI (XI (XO (XO
    XH)))))))))))))))))))))))))))))))))))))))))))))))))))))))))))))) :: ((Npos
    (XO (XI (XI (XO (XI (XI (XI (XO (XO (XO (XI (XO (XO (XO (XO (XO (XI (XI
    (XO (XI (XO (XI (XO (XI (XI (XI (XI (XO (XO (XI (XI (XO (XI (XI (XO (XI
    (XO (XI (XI (XI (XO (XO (XO (XI (XI (XI (XI (XO (XO (XO (XO (XO (XI (XO
    (XO (XO (XO (XO (XO (XO (XI (XO
    XH))))))))))))))))))))))))))))))))))))))))))))))))))))))))))))))) :: ((Npos
    (XO (XO (XO (XI (XI (XI (XI (XO (XI (XO (XO (XO (XO (XO (XI (XO (XI (XO
    (XI (XO (XI (XI (XO (XI (XI (XI (XO (XO (XO (XI (XI (XI (XI (XO (XO (XI
    (XO (XI (XO (XO (XI (XI (XI (XO (XI (XI (XO (XO (XI (XI (XO (XI (XI (XO
    (XI (XO (XO (XI (XI (XO (XO (XO
    XH))))))))))))))))))))))))))))))))))))))))))))))))))))))))))))))) :: ((Npos
    (XI (XI (XO (XI (XI (XO (XO (XO (XI (XI (XO (XI (XI (XO (XO (XI (XI (XO
    (XO (XI (XI (XO (XI (XI (XO (XO (XI (XI (XO (XI (XO (XI (XI (XI (XO (XO
    (XI (XO (XI (XO (XI (XO (XO (XO (XI (XI (XO (XI (XO (XI (XO (XI (XO (XI
    (XI (XI (XI (XO (XO (XI
    XH))))))))))))))))))))))))))))))))))))))))))))))))))))))))))))) :: ((Npos
    (XO (XI (XO (XO (XI (XO (XI (XI (XI (XI (XI (XO (XI (XI (XO (XI (XI (XO
    (XI (XO (XI (XO (XI (XI (XO (XI (XI (XO (XI (XO (XI (XI (XO (XO (XO (XO
    (XO (XO (XO (XO (XO (XI (XI (XO (XO (XI (XO (XI (XO (XO (XO (XI (XI (XO
    (XO (XI (XO (XO (XI
    XH)))))))))))))))))))))))))))))))))))))))))))))))))))))))))))) :: ((Npos
    (XO (XI (XO (XO (XI (XO (XO (XO (XO (XO (XI (XO (XI (XO (XO (XO (XI (XO
    (XO (XI (XO (XO (XI (XO (XI (XI (XO (XI (XO (XI (XI (XI (XI (XI (XI (XO
    (XO (XI (XI (XI (XO (XO (XO (XO (XI (XI (XO (XO (XI (XI (XO (XI (XO (XI
    (XI XH)))))))))))))))))))))))))))))))))))))))))))))))))))))))) :: ((Npos
    (XO (XI (XO (XI (XI (XO (XO (XO (XI (XO (XO (XO (XI (XO (XI (XI (XI (XO
    (XI (XO (XI (XO (XO (XI (XO (XI (XO (XO (XO (XO (XO (XO (XO (XO (XO (XI
    (XO (XI (XO (XO (XO (XI (XO (XI (XO (XI (XO (XI (XO (XO (XI (XO (XO (XO
    (XI (XO (XO (XI (XI (XI (XI (XO (XO
    XH)))))))))))))))))))))))))))))))))))))))))))))))))))))))))))))))) :: ((Npos
    (XO (XI (XI (XO (XO (XO (XO (XI (XO (XO (XO (XO (XI (XI (XI (XO (XI (XI
    (XI (XI (XI (XO (XO (XI (XI (XI (XI (XI (XO (XI (XI (XO (XI (XO (XO (XI
    (XO (XI (XI (XO (XI (XI (XO (XI (XI (XO (XI (XO (XI (XI (XO (XO (XO (XO
    (XO (XI (XO (XO (XI (XO (XO (XI (XI
    XH)))))))))))))))))))))))))))))))))))))))))))))))))))))))))))))))) :: ((Npos
    (XI (XO (XO (XI (XI (XI (XO (XO (XO (XO (XO (XI (XO (XO (XO (XI (XO (XO
    (XO (XO (XO (XI (XI (XI (XO (XI (XO (XI (XO (XI (XO (XO (XO (XO (XI (XO
    (XI (XO (XO (XO (XO (XO (XI (XI (XI (XO (XI (XI (XO (XO (XO (XO (XO (XI
    (XO (XO (XI (XO (XI (XI (XI (XI
    XH))))))))))))))))))))))))))))))))))))))))))))))))))))))))))))))) :: ((Npos
    (XO (XI (XI (XI (XO (XO (XI (XO (XO (XI (XO (XI (XO (XO (XI (XO (XO (XO
    (XI (XI (XI (XO (XI (XI (XO (XI (XO (XO (XO (XI (XI (XI (XO (XO (XO (XI
    (XI (XO (XO (XI (XO (XI (XO (XO (XO (XI (XO (XI (XO (XO (XO (XI (XI (XI
    (XI (XI (XO (XI (XO (XI (XI (XO (XO
    XH)))))))))))))))))))))))))))))))))))))))))))))))))))))))))))))))) :: ((Npos
    (XO (XO (XO (XI (XO (XI (XO (XO (XO (XO (XI (XI (XI (XI (XO (XO (XI (XO
    (XO (XI (XO (XO (XO (XI (XO (XI (XI (XI (XO (XI (XI (XI (XO (XI (XI (XI
    (XI (XI (XI (XI (XO (XO (XO (XI (XO (XO (XO (XO (XI (XO (XI (XO (XI (XO
    (XI (XI (XO (XI (XO (XO (XO
    XH)))))))))))))))))))))))))))))))))))))))))))))))))))))))))))))) :: ((Npos
    (XI (XO (XI (XO (XO (XI (XI (XI (XO (XI (XO (XO (XO (XI (XO (XI (XO (XO
    (XI (XO (XO (XI (XI (XI (XI (XI (XI (XI (XI (XO (XO (XO (XI (XO (XI (XO
    (XO (XO (XO (XO (XO (XO (XI (XI (XO (XI (XO (XI (XI (XO (XI (XI (XI (XO
    (XI (XO (XO (XO (XI (XI (XI (XI
    XH))))))))))))))))))))))))))))))))))))))))))))))))))))))))))))))) :: [])))))))))))))))

(** val ep_zobrist_tbl : n list **)

let ep_zobrist_tbl =
  (Npos (XO (XO (XO (XI (XO (XO (XI (XI (XI (XI (XO (XI (XI (XO (XI (XI (XI
    (XO (XI (XO (XO (XI (XO (XI (XI (XI (XO (XO (XI (XO (XI (XI (XI (XO (XI
    (XO (XI (XO (XI (XO (XI (XO (XO (XI (XI (XO (XO (XO (XI (XO (XI (XO (XO
    (XI (XO (XI (XI (XO (XO (XI (XI (XI (XO
    XH)))))))))))))))))))))))))))))))))))))))))))))))))))))))))))))))) :: ((Npos
    (XI (XO (XI (XI (XI (XI (XO (XI (XI (XI (XO (XI (XO (XO (XO (XI (XI (XO
    (XI (XO (XI (XI (XI (XI (XI (XI (XO (XI (XI (XI (XO (XI (XI (XI (XO (XO
    (XI (XO (XO (XI (XO (XI (XO (XI (XO (XO (XI (XI (XI (XI (XO (XO (XI (XI
    (XO (XI (XO (XI (XI (XI (XO (XI (XO
    XH)))))))))))))))))))))))))))))))))))))))))))))))))))))))))))))))) :: ((Npos
    (XO (XO (XO (XI (XO (XO (XO (XO (XI (XI (XI (XO (XO (XI (XI (XO (XO (XI
    (XI (XI (XO (XI (XO (XI (XI (XO (XI (XO (XI (XI (XO (XO (XI (XI (XO (XO
    (XI (XO (XI (XO (XO (XI (XI (XO (XI (XO (XI (XI (XI (XI (XO (XI (XI (XI
    (XO (XI (XO (XO (XI (XI (XI (XI (XI
    XH)))))))))))))))))))))))))))))))))))))))))))))))))))))))))))))))) :: ((Npos
    (XI (XO (XO (XI (XI (XI (XO (XI (XO (XO (XO (XI (XI (XI (XI (XO (XO (XO
    (XO (XO (XO (XO (XO (XI (XI (XO (XO (XO (XO (XO (XI (XI (XO (XI (XI (XI
    (XO (XO (XO (XI (XI (XO (XO (XO (XI (XO (XO (XI (XI (XO (XI (XO (XI (XO
    (XO (XI (XI (XI (XO (XO (XI (XI (XO
    XH)))))))))))))))))))))))))))))))))))))))))))))))))))))))))))))))) :: ((Npos
    (XI (XO (XO (XO (XO (XI (XO (XI (XI (XO (XO (XO (XO (XO (XI (XI (XI (XO
    (XI (XO (XO (XI (XO (XO (XI (XO (XI (XI (XO (XI (XI (XO (XO (XO (XI (XI
    (XO (XO (XI (XO (XI (XI (XI (XI (XO (XO (XI (XI (XO (XI (XO (XI (XI (XI
    (XO (XO (XI (XO (XO (XO (XO (XI (XO
    XH)))))))))))))))))))))))))))))))))))))))))))))))))))))))))))))))) :: ((Npos
    (XI (XI (XO (XI (XI (XI (XI (XO (XI (XO (XI (XI (XI (XO (XO (XO (XO (XI
    (XI (XO (XO (XO (XI (XI (XO (XI (XO (XI (XO (XI (XO (XO (XI (XI (XO (XO
    (XO (XI (XO (XO (XI (XI (XI (XI (XI (XO (XO (XI (XI (XO (XI (XI (XI (XO
    (XO (XI (XI (XO (XO (XI (XO (XI (XI
    XH)))))))))))))))))))))))))))))))))))))))))))))))))))))))))))))))) :: ((Npos
    (XI (XO (XO (XI (XI (XI (XI (XO (XO (XO (XI (XO (XI (XI (XI (XO (XO (XI
    (XI (XI (XO (XI (XI (XI (XI (XI (XO (XO (XI (XO (XO (XO (XI (XO (XO (XO
    (XO (XI (XO (XO (XI (XI (XI (XO (XI (XO (XO (XO (XO (XO (XI (XI (XI (XI
    (XI (XO (XI (XI (XI (XO (XO (XI (XI
    XH)))))))))))))))))))))))))))))))))))))))))))))))))))))))))))))))) :: ((Npos
    (XO (XO (XO (XI (XI (XI (XI (XI (XO (XO (XO (XO (XO (XI (XO (XI (XI (XI
    (XI (XI (XO (XI (XO (XO (XO (XO (XO (XO (XO (XO (XO (XI (XI (XI (XO (XI
    (XO (XO (XI (XO (XI (XO (XO (XO (XI (XO (XI (XO (XI (XO (XO (XI (XO (XO
    (XI (XI (XO (XI (XO (XI (XI (XI (XI
    XH)))))))))))))))))))))))))))))))))))))))))))))))))))))))))))))))) :: [])))))))

(** val turn_zobrist_tbl : n list **)

let turn_zobrist_tbl =
  (Npos (XO (XI (XI (XO (XI (XI (XO (XI (XO (XO (XI (XI (XI (XI (XI (XO (XI
    (XI (XI (XI (XO (XI (XO (XI (XI (XI (XO (XI (XI (XI (XI (XI (XO (XO (XO
    (XI (XI (XI (XI (XO (XI (XI (XI (XI (XI (XO (XO (XI (XO (XO (XO (XI (XO
    (XI (XO (XO (XO (XI (XO (XO (XI (XO (XI
    XH)))))))))))))))))))))))))))))))))))))))))))))))))))))))))))))))) :: ((Npos
    (XI (XO (XO (XO (XO (XO (XI (XO (XI (XI (XI (XI (XI (XO (XO (XO (XI (XI
    (XI (XI (XI (XI (XO (XI (XI (XI (XI (XI (XI (XI (XO (XI (XO (XI (XI (XI
    (XI (XO (XO (XI (XO (XO (XI (XI (XI (XI (XO (XO (XI (XO (XI (XI (XI (XI
    (XI (XO (XI (XO (XO (XO (XO
    XH)))))))))))))))))))))))))))))))))))))))))))))))))))))))))))))) :: [])

(** val mask64 : n **)

let mask64 =
  N.ones (Npos (XO (XO (XO (XO (XO (XO XH)))))))

(** val trunc64 : n -> n **)

let trunc64 x =
  N.coq_land x mask64

(** val not64 : n -> n **)

let not64 x =
  N.coq_lxor (trunc64 x) mask64

(** val shl64 : n -> n -> n **)

let shl64 x n0 =
  trunc64 (N.shiftl x n0)

(** val shr64 : n -> n -> n **)

let shr64 =
  N.shiftr

(** val bit : n -> n **)

let bit s =
  N.shiftl (Npos XH) s

(** val pos_tz : positive -> n **)

let rec pos_tz = function
| XO q -> N.succ (pos_tz q)
| _ -> N0

(** val tz64 : n -> n **)

let tz64 = function
| N0 -> Npos (XO (XO (XO (XO (XO (XO XH))))))
| Npos p -> pos_tz p

(** val pos_popcount : positive -> n **)

let rec pos_popcount = function
| XI q -> N.succ (pos_popcount q)
| XO q -> pos_popcount q
| XH -> Npos XH

(** val popcount : n -> n **)

let popcount = function
| N0 -> N0
| Npos p -> pos_popcount p

(** val byte_of : n -> n -> n **)

let byte_of x i =
  N.coq_land (N.shiftr x (N.mul (Npos (XO (XO (XO XH)))) i)) (Npos (XI (XI
    (XI (XI (XI (XI (XI XH))))))))

(** val bswap64 : n -> n **)

let bswap64 x =
  fold_left (fun acc i ->
    N.coq_lor acc
      (N.shiftl (byte_of x i)
        (N.mul (Npos (XO (XO (XO XH)))) (N.sub (Npos (XI (XI XH))) i))))
    (N0 :: ((Npos XH) :: ((Npos (XO XH)) :: ((Npos (XI XH)) :: ((Npos (XO (XO
    XH))) :: ((Npos (XI (XO XH))) :: ((Npos (XO (XI XH))) :: ((Npos (XI (XI
    XH))) :: [])))))))) N0

(** val sq_list : n list **)

let sq_list =
  N0 :: ((Npos XH) :: ((Npos (XO XH)) :: ((Npos (XI XH)) :: ((Npos (XO (XO
    XH))) :: ((Npos (XI (XO XH))) :: ((Npos (XO (XI XH))) :: ((Npos (XI (XI
    XH))) :: ((Npos (XO (XO (XO XH)))) :: ((Npos (XI (XO (XO XH)))) :: ((Npos
    (XO (XI (XO XH)))) :: ((Npos (XI (XI (XO XH)))) :: ((Npos (XO (XO (XI
    XH)))) :: ((Npos (XI (XO (XI XH)))) :: ((Npos (XO (XI (XI
    XH)))) :: ((Npos (XI (XI (XI XH)))) :: ((Npos (XO (XO (XO (XO
    XH))))) :: ((Npos (XI (XO (XO (XO XH))))) :: ((Npos (XO (XI (XO (XO
    XH))))) :: ((Npos (XI (XI (XO (XO XH))))) :: ((Npos (XO (XO (XI (XO
    XH))))) :: ((Npos (XI (XO (XI (XO XH))))) :: ((Npos (XO (XI (XI (XO
    XH))))) :: ((Npos (XI (XI (XI (XO XH))))) :: ((Npos (XO (XO (XO (XI
    XH))))) :: ((Npos (XI (XO (XO (XI XH))))) :: ((Npos (XO (XI (XO (XI
    XH))))) :: ((Npos (XI (XI (XO (XI XH))))) :: ((Npos (XO (XO (XI (XI
    XH))))) :: ((Npos (XI (XO (XI (XI XH))))) :: ((Npos (XO (XI (XI (XI
    XH))))) :: ((Npos (XI (XI (XI (XI XH))))) :: ((Npos (XO (XO (XO (XO (XO
    XH)))))) :: ((Npos (XI (XO (XO (XO (XO XH)))))) :: ((Npos (XO (XI (XO (XO
    (XO XH)))))) :: ((Npos (XI (XI (XO (XO (XO XH)))))) :: ((Npos (XO (XO (XI
    (XO (XO XH)))))) :: ((Npos (XI (XO (XI (XO (XO XH)))))) :: ((Npos (XO (XI
    (XI (XO (XO XH)))))) :: ((Npos (XI (XI (XI (XO (XO XH)))))) :: ((Npos (XO
    (XO (XO (XI (XO XH)))))) :: ((Npos (XI (XO (XO (XI (XO XH)))))) :: ((Npos
    (XO (XI (XO (XI (XO XH)))))) :: ((Npos (XI (XI (XO (XI (XO
    XH)))))) :: ((Npos (XO (XO (XI (XI (XO XH)))))) :: ((Npos (XI (XO (XI (XI
    (XO XH)))))) :: ((Npos (XO (XI (XI (XI (XO XH)))))) :: ((Npos (XI (XI (XI
    (XI (XO XH)))))) :: ((Npos (XO (XO (XO (XO (XI XH)))))) :: ((Npos (XI (XO
    (XO (XO (XI XH)))))) :: ((Npos (XO (XI (XO (XO (XI XH)))))) :: ((Npos (XI
    (XI (XO (XO (XI XH)))))) :: ((Npos (XO (XO (XI (XO (XI XH)))))) :: ((Npos
    (XI (XO (XI (XO (XI XH)))))) :: ((Npos (XO (XI (XI (XO (XI
    XH)))))) :: ((Npos (XI (XI (XI (XO (XI XH)))))) :: ((Npos (XO (XO (XO (XI
    (XI XH)))))) :: ((Npos (XI (XO (XO (XI (XI XH)))))) :: ((Npos (XO (XI (XO
    (XI (XI XH)))))) :: ((Npos (XI (XI (XO (XI (XI XH)))))) :: ((Npos (XO (XO
    (XI (XI (XI XH)))))) :: ((Npos (XI (XO (XI (XI (XI XH)))))) :: ((Npos (XO
    (XI (XI (XI (XI XH)))))) :: ((Npos (XI (XI (XI (XI (XI
    XH)))))) :: [])))))))))))))))))))))))))))))))))))))))))))))))))))))))))))))))

(** val elements : n -> n list **)

let elements x =
  filter (fun s -> N.testbit x s) sq_list

type color =
| White
| Black

(** val file_of : n -> n **)

let file_of s =
  N.modulo s (Npos (XO (XO (XO XH))))

(** val rank_of : n -> n **)

let rank_of s =
  N.div s (Npos (XO (XO (XO XH))))

(** val bb_empty : n **)

let bb_empty =
  N0

(** val from_pos : n -> n **)

let from_pos s =
  shl64 (Npos XH) s

(** val fIRST_FILE : n **)

let fIRST_FILE =
  Npos (XI (XO (XO (XO (XO (XO (XO (XO (XI (XO (XO (XO (XO (XO (XO (XO (XI
    (XO (XO (XO (XO (XO (XO (XO (XI (XO (XO (XO (XO (XO (XO (XO (XI (XO (XO
    (XO (XO (XO (XO (XO (XI (XO (XO (XO (XO (XO (XO (XO (XI (XO (XO (XO (XO
    (XO (XO (XO XH))))))))))))))))))))))))))))))))))))))))))))))))))))))))

(** val fIRST_RANK : n **)

let fIRST_RANK =
  Npos (XI (XI (XI (XI (XI (XI (XI XH)))))))

(** val from_file : n -> n **)

let from_file f =
  shl64 fIRST_FILE f

(** val from_rank : n -> n **)

let from_rank r =
  shl64 fIRST_RANK (N.mul r (Npos (XO (XO (XO XH)))))

(** val bb_or : n -> n -> n **)

let bb_or =
  N.coq_lor

(** val bb_and : n -> n -> n **)

let bb_and =
  N.coq_land

(** val bb_xor : n -> n -> n **)

let bb_xor =
  N.coq_lxor

(** val bb_not : n -> n **)

let bb_not =
  not64

(** val bb_diff : n -> n -> n **)

let bb_diff a b =
  bb_and a (bb_not b)

(** val any : n -> bool **)

let any a =
  negb (N.eqb a N0)

(** val none : n -> bool **)

let none a =
  N.eqb a N0

(** val bb_all : n -> bool **)

let bb_all a =
  none (bb_not a)

(** val bb_some : n -> bool **)

let bb_some a =
  any (bb_not a)

(** val contains : n -> n -> bool **)

let contains a s =
  any (bb_and a (from_pos s))

(** val bb_with : n -> n -> n **)

let bb_with a s =
  bb_or a (from_pos s)

(** val cleared : n -> n -> n **)

let cleared a s =
  bb_diff a (from_pos s)

(** val shift_up : n -> n **)

let shift_up a =
  shl64 (bb_diff a (from_rank (Npos (XI (XI XH))))) (Npos (XO (XO (XO XH))))

(** val shift_down : n -> n **)

let shift_down a =
  shr64 (bb_diff a (from_rank N0)) (Npos (XO (XO (XO XH))))

(** val shift_left : n -> n **)

let shift_left a =
  shr64 (bb_diff a (from_file N0)) (Npos XH)

(** val shift_right : n -> n **)

let shift_right a =
  shl64 (bb_diff a (from_file (Npos (XI (XI XH))))) (Npos XH)

(** val count : n -> n **)

let count =
  popcount

(** val flip_ranks : n -> n **)

let flip_ranks =
  bswap64

(** val pop : n -> (n * n) option **)

let pop a =
  if N.eqb a N0
  then None
  else let z0 = tz64 a in Some (z0, (N.coq_lxor a (shl64 (Npos XH) z0)))

(** val it_next : n -> n option * n **)

let it_next a =
  match pop a with
  | Some p -> let (s, a') = p in ((Some s), a')
  | None -> (None, a)

(** val nth_default_fuel : nat -> n -> n -> n option * n **)

let rec nth_default_fuel fuel a n0 =
  match fuel with
  | O -> (None, a)
  | S f ->
    if N.eqb n0 N0
    then it_next a
    else (match pop a with
          | Some p -> let (_, a') = p in nth_default_fuel f a' (N.pred n0)
          | None -> (None, a))

(** val nth_default : n -> n -> n option * n **)

let nth_default a n0 =
  nth_default_fuel (S (S (S (S (S (S (S (S (S (S (S (S (S (S (S (S (S (S (S
    (S (S (S (S (S (S (S (S (S (S (S (S (S (S (S (S (S (S (S (S (S (S (S (S
    (S (S (S (S (S (S (S (S (S (S (S (S (S (S (S (S (S (S (S (S (S (S (S
    O)))))))))))))))))))))))))))))))))))))))))))))))))))))))))))))))))) a n0

(** val from_squares : n list -> n **)

let from_squares l =
  fold_left bb_with l bb_empty

(** val from_boards : n list -> n **)

let from_boards l =
  fold_left bb_or l bb_empty

(** val iter_fuel : nat -> n -> n list **)

let rec iter_fuel fuel a =
  match fuel with
  | O -> []
  | S f ->
    (match pop a with
     | Some p -> let (s, a') = p in s :: (iter_fuel f a')
     | None -> [])

(** val iter_list : n -> n list **)

let iter_list a =
  iter_fuel (S (S (S (S (S (S (S (S (S (S (S (S (S (S (S (S (S (S (S (S (S (S
    (S (S (S (S (S (S (S (S (S (S (S (S (S (S (S (S (S (S (S (S (S (S (S (S
    (S (S (S (S (S (S (S (S (S (S (S (S (S (S (S (S (S (S (S
    O))))))))))))))))))))))))))))))))))))))))))))))))))))))))))))))))) a

(** val sq_off : n -> z -> z -> n option **)

let sq_off s df dr =
  let f = Z.add (Z.of_N (N.modulo s (Npos (XO (XO (XO XH)))))) df in
  let r = Z.add (Z.of_N (N.div s (Npos (XO (XO (XO XH)))))) dr in
  if (&&)
       ((&&) ((&&) (Z.leb Z0 f) (Z.ltb f (Zpos (XO (XO (XO XH))))))
         (Z.leb Z0 r)) (Z.ltb r (Zpos (XO (XO (XO XH)))))
  then Some (Z.to_N (Z.add (Z.mul r (Zpos (XO (XO (XO XH))))) f))
  else None

(** val set_of : n list -> n **)

let set_of l =
  fold_left (fun acc s -> N.coq_lor acc (bit s)) l N0

(** val opt_list : 'a1 option -> 'a1 list **)

let opt_list = function
| Some x -> x :: []
| None -> []

(** val offsets_set : n -> (z * z) list -> n **)

let offsets_set s offs =
  set_of (flat_map (fun d -> opt_list (sq_off s (fst d) (snd d))) offs)

type dir =
| DN
| DS
| DE
| DW
| DNE
| DNW
| DSE
| DSW

(** val dvec : dir -> z * z **)

let dvec = function
| DN -> (Z0, (Zpos XH))
| DS -> (Z0, (Zneg XH))
| DE -> ((Zpos XH), Z0)
| DW -> ((Zneg XH), Z0)
| DNE -> ((Zpos XH), (Zpos XH))
| DNW -> ((Zneg XH), (Zpos XH))
| DSE -> ((Zpos XH), (Zneg XH))
| DSW -> ((Zneg XH), (Zneg XH))

(** val dopp : dir -> dir **)

let dopp = function
| DN -> DS
| DS -> DN
| DE -> DW
| DW -> DE
| DNE -> DSW
| DNW -> DSE
| DSE -> DNW
| DSW -> DNE

(** val rook_dirs : dir list **)

let rook_dirs =
  DN :: (DS :: (DE :: (DW :: [])))

(** val bishop_dirs : dir list **)

let bishop_dirs =
  DNE :: (DNW :: (DSE :: (DSW :: [])))

(** val all_dirs : dir list **)

let all_dirs =
  app rook_dirs bishop_dirs

(** val step : dir -> n -> n option **)

let step d s =
  sq_off s (fst (dvec d)) (snd (dvec d))

(** val ray_fuel : nat -> dir -> n -> n list **)

let rec ray_fuel n0 d s =
  match n0 with
  | O -> []
  | S n' ->
    (match step d s with
     | Some t -> t :: (ray_fuel n' d t)
     | None -> [])

(** val ray : dir -> n -> n list **)

let ray d s =
  ray_fuel (S (S (S (S (S (S (S O))))))) d s

(** val knight_offs : (z * z) list **)

let knight_offs =
  ((Zpos XH), (Zpos (XO XH))) :: (((Zpos (XO XH)), (Zpos XH)) :: (((Zpos (XO
    XH)), (Zneg XH)) :: (((Zpos XH), (Zneg (XO XH))) :: (((Zneg XH), (Zneg
    (XO XH))) :: (((Zneg (XO XH)), (Zneg XH)) :: (((Zneg (XO XH)), (Zpos
    XH)) :: (((Zneg XH), (Zpos (XO XH))) :: [])))))))

(** val king_offs : (z * z) list **)

let king_offs =
  (Z0, (Zpos XH)) :: (((Zpos XH), (Zpos XH)) :: (((Zpos XH), Z0) :: (((Zpos
    XH), (Zneg XH)) :: ((Z0, (Zneg XH)) :: (((Zneg XH), (Zneg XH)) :: (((Zneg
    XH), Z0) :: (((Zneg XH), (Zpos XH)) :: [])))))))

(** val knight_geo : n -> n **)

let knight_geo s =
  offsets_set s knight_offs

(** val king_geo : n -> n **)

let king_geo s =
  offsets_set s king_offs

(** val fwd : color -> z **)

let fwd = function
| White -> Zpos XH
| Black -> Zneg XH

(** val pawn_att_geo : color -> n -> n **)

let pawn_att_geo c s =
  offsets_set s (((Zneg XH), (fwd c)) :: (((Zpos XH), (fwd c)) :: []))

(** val start_rank : color -> n **)

let start_rank = function
| White -> Npos XH
| Black -> Npos (XO (XI XH))

(** val pawn_push_geo : color -> n -> n **)

let pawn_push_geo c s =
  offsets_set s
    (app ((Z0, (fwd c)) :: [])
      (if N.eqb (rank_of s) (start_rank c)
       then (Z0, (Z.mul (Zpos (XO XH)) (fwd c))) :: []
       else []))

(** val rays_set : dir list -> n -> n **)

let rays_set ds s =
  set_of (flat_map (fun d -> ray d s) ds)

(** val rook_rays_geo : n -> n **)

let rook_rays_geo s =
  rays_set rook_dirs s

(** val bishop_rays_geo : n -> n **)

let bishop_rays_geo s =
  rays_set bishop_dirs s

(** val before : n -> n list -> n list option **)

let rec before b = function
| [] -> None
| x :: r ->
  if N.eqb x b
  then Some []
  else (match before b r with
        | Some p -> Some (x :: p)
        | None -> None)

(** val between_list : n -> n -> n list **)

let between_list a b =
  flat_map (fun d -> match before b (ray d a) with
                     | Some p -> p
                     | None -> []) all_dirs

(** val between_geo : n -> n -> n **)

let between_geo a b =
  set_of (between_list a b)

(** val on_ray : n -> n -> dir -> bool **)

let on_ray a b d =
  existsb (N.eqb b) (ray d a)

(** val line_geo : n -> n -> n **)

let line_geo a b =
  set_of
    (flat_map (fun d ->
      if on_ray a b d then a :: (app (ray d a) (ray (dopp d) a)) else [])
      all_dirs)

(** val absdiff : n -> n -> n **)

let absdiff x y =
  if N.ltb x y then N.sub y x else N.sub x y

(** val dist_geo : n -> n -> n **)

let dist_geo a b =
  N.max (absdiff (rank_of a) (rank_of b)) (absdiff (file_of a) (file_of b))

(** val slide_ray : n -> n list -> n list **)

let rec slide_ray occ = function
| [] -> []
| t :: r -> t :: (if N.testbit occ t then [] else slide_ray occ r)

(** val slide : dir list -> n -> n -> n **)

let slide ds s occ =
  set_of (flat_map (fun d -> slide_ray occ (ray d s)) ds)

(** val rook_attacks : n -> n -> n **)

let rook_attacks s occ =
  slide rook_dirs s occ

(** val bishop_attacks : n -> n -> n **)

let bishop_attacks s occ =
  slide bishop_dirs s occ

(** val pawn_quiets_spec : color -> n -> n -> n **)

let pawn_quiets_spec c s occ =
  match sq_off s Z0 (fwd c) with
  | Some t1 ->
    if N.testbit occ t1 then N0 else N.ldiff (pawn_push_geo c s) occ
  | None -> N0

(** val pawn_attacks_spec : color -> n -> n -> n **)

let pawn_attacks_spec c s occ =
  N.coq_land (pawn_att_geo c s) occ

(** val pawn_moves_spec : color -> n -> n -> n **)

let pawn_moves_spec c s occ =
  N.coq_lor (pawn_quiets_spec c s occ) (pawn_attacks_spec c s occ)

(** val nthN : n list -> n -> n **)

let nthN l i =
  nth (N.to_nat i) l N0

(** val lk_castle_zobrist : n -> n **)

let lk_castle_zobrist i =
  nthN castle_zobrist_tbl i

(** val lk_ep_zobrist : n -> n **)

let lk_ep_zobrist f =
  nthN ep_zobrist_tbl f

type score =
| SMin
| SBlackMateIn of n
| SRaw of z
| SWhiteMateIn of n
| SMax

(** val kind : score -> n **)

let kind = function
| SMin -> N0
| SBlackMateIn _ -> Npos XH
| SRaw _ -> Npos (XO XH)
| SWhiteMateIn _ -> Npos (XI XH)
| SMax -> Npos (XO (XO XH))

(** val cmp : score -> score -> comparison **)

let cmp a b =
  match a with
  | SBlackMateIn x ->
    (match b with
     | SBlackMateIn y -> N.compare x y
     | _ -> N.compare (kind a) (kind b))
  | SRaw x ->
    (match b with
     | SRaw y -> Z.compare x y
     | _ -> N.compare (kind a) (kind b))
  | SWhiteMateIn x ->
    (match b with
     | SWhiteMateIn y -> N.compare y x
     | _ -> N.compare (kind a) (kind b))
  | _ -> N.compare (kind a) (kind b)

(** val partial_cmp : score -> score -> comparison option **)

let partial_cmp a b =
  Some (cmp a b)

(** val eqb0 : score -> score -> bool **)

let eqb0 a b =
  match a with
  | SMin -> (match b with
             | SMin -> true
             | _ -> false)
  | SBlackMateIn x -> (match b with
                       | SBlackMateIn y -> N.eqb x y
                       | _ -> false)
  | SRaw x -> (match b with
               | SRaw y -> Z.eqb x y
               | _ -> false)
  | SWhiteMateIn x -> (match b with
                       | SWhiteMateIn y -> N.eqb x y
                       | _ -> false)
  | SMax -> (match b with
             | SMax -> true
             | _ -> false)

(** val ltb0 : score -> score -> bool **)

let ltb0 a b =
  match cmp a b with
  | Lt -> true
  | _ -> false

(** val leb0 : score -> score -> bool **)

let leb0 a b =
  match cmp a b with
  | Gt -> false
  | _ -> true

(** val gtb : score -> score -> bool **)

let gtb a b =
  match cmp a b with
  | Gt -> true
  | _ -> false

(** val smax : score -> score -> score **)

let smax a b =
  match cmp a b with
  | Gt -> a
  | _ -> b

(** val smin : score -> score -> score **)

let smin a b =
  match cmp a b with
  | Gt -> b
  | _ -> a

(** val neg : score -> score **)

let neg = function
| SMin -> SMax
| SBlackMateIn n0 -> SWhiteMateIn n0
| SRaw z0 -> SRaw (Z.opp z0)
| SWhiteMateIn n0 -> SBlackMateIn n0
| SMax -> SMin

type promo =
| PKnight
| PBishop
| PRook
| PQueen

type st_promo =
| StKnight
| StBishop
| StRook
| StQueen
| StNone

type mi_promo =
| MiKnight
| MiBishop
| MiRook
| MiQueen
| MiNone
| MiIllegal

type cmove = { c_src : n; c_dst : n; c_piece : promo option }

type smove = { s_src : n; s_dst : n; s_piece : st_promo }

type omove = { o_src : n; o_dst : n; o_piece : mi_promo }

(** val to_stable : cmove -> smove **)

let to_stable m =
  { s_src = m.c_src; s_dst = m.c_dst; s_piece =
    (match m.c_piece with
     | Some p ->
       (match p with
        | PKnight -> StKnight
        | PBishop -> StBishop
        | PRook -> StRook
        | PQueen -> StQueen)
     | None -> StNone) }

(** val of_stable : smove -> cmove **)

let of_stable m =
  { c_src = m.s_src; c_dst = m.s_dst; c_piece =
    (match m.s_piece with
     | StKnight -> Some PKnight
     | StBishop -> Some PBishop
     | StRook -> Some PRook
     | StQueen -> Some PQueen
     | StNone -> None) }

(** val to_opt_some : cmove -> omove **)

let to_opt_some m =
  { o_src = m.c_src; o_dst = m.c_dst; o_piece =
    (match m.c_piece with
     | Some p ->
       (match p with
        | PKnight -> MiKnight
        | PBishop -> MiBishop
        | PRook -> MiRook
        | PQueen -> MiQueen)
     | None -> MiNone) }

(** val to_opt : cmove option -> omove **)

let to_opt = function
| Some m0 -> to_opt_some m0
| None -> { o_src = N0; o_dst = N0; o_piece = MiIllegal }

(** val of_opt : omove -> cmove option **)

let of_opt m =
  match m.o_piece with
  | MiKnight ->
    Some { c_src = m.o_src; c_dst = m.o_dst; c_piece = (Some PKnight) }
  | MiBishop ->
    Some { c_src = m.o_src; c_dst = m.o_dst; c_piece = (Some PBishop) }
  | MiRook ->
    Some { c_src = m.o_src; c_dst = m.o_dst; c_piece = (Some PRook) }
  | MiQueen ->
    Some { c_src = m.o_src; c_dst = m.o_dst; c_piece = (Some PQueen) }
  | MiNone -> Some { c_src = m.o_src; c_dst = m.o_dst; c_piece = None }
  | MiIllegal -> None

type st_score =
| StMin
| StBlackMateIn of n
| StRaw of z
| StWhiteMateIn of n
| StMax

(** val score_to : score -> st_score **)

let score_to = function
| SMin -> StMin
| SBlackMateIn n0 -> StBlackMateIn n0
| SRaw z0 -> StRaw z0
| SWhiteMateIn n0 -> StWhiteMateIn n0
| SMax -> StMax

(** val score_of : st_score -> score **)

let score_of = function
| StMin -> SMin
| StBlackMateIn n0 -> SBlackMateIn n0
| StRaw z0 -> SRaw z0
| StWhiteMateIn n0 -> SWhiteMateIn n0
| StMax -> SMax

(** val evaluated_roundtrip :
    cmove option -> score -> cmove option * score **)

let evaluated_roundtrip m s =
  ((of_opt (to_opt m)), (score_of (score_to s)))

(** val wrapping_sub_u8 : n -> n -> n **)

let wrapping_sub_u8 x y =
  N.modulo
    (N.sub (N.add x (Npos (XO (XO (XO (XO (XO (XO (XO (XO XH)))))))))) y)
    (Npos (XO (XO (XO (XO (XO (XO (XO (XO XH)))))))))

(** val abs_diff : n -> n -> n **)

let abs_diff a b =
  if N.ltb a b then N.sub b a else N.sub a b

(** val enum_from_u8 : n -> n -> n option **)

let enum_from_u8 k n0 =
  if N.ltb n0 k then Some n0 else None

(** val pos_from_u8 : n -> n option **)

let pos_from_u8 n0 =
  if N.ltb n0 (Npos (XO (XO (XO (XO (XO (XO XH))))))) then Some n0 else None

(** val color_not : n -> n **)

let color_not = function
| N0 -> Npos XH
| Npos _ -> N0

(** val side_not : n -> n **)

let side_not = function
| N0 -> Npos XH
| Npos _ -> N0

(** val pos_new : n -> n -> n **)

let pos_new f r =
  N.add (N.mul r (Npos (XO (XO (XO XH))))) f

(** val pos_file : n -> n **)

let pos_file s =
  N.modulo s (Npos (XO (XO (XO XH))))

(** val pos_rank : n -> n **)

let pos_rank s =
  N.div s (Npos (XO (XO (XO XH))))

(** val file_shift_left : n -> n option **)

let file_shift_left x =
  if N.eqb x N0 then None else Some (N.sub x (Npos XH))

(** val file_shift_right : n -> n option **)

let file_shift_right x =
  if N.eqb x (Npos (XI (XI XH))) then None else Some (N.add x (Npos XH))

(** val rank_shift_down : n -> n option **)

let rank_shift_down x =
  if N.eqb x N0 then None else Some (N.sub x (Npos XH))

(** val rank_shift_up : n -> n option **)

let rank_shift_up x =
  if N.eqb x (Npos (XI (XI XH))) then None else Some (N.add x (Npos XH))

(** val pos_shift_up : n -> n option **)

let pos_shift_up s =
  match rank_shift_up (pos_rank s) with
  | Some r -> Some (pos_new (pos_file s) r)
  | None -> None

(** val pos_shift_down : n -> n option **)

let pos_shift_down s =
  match rank_shift_down (pos_rank s) with
  | Some r -> Some (pos_new (pos_file s) r)
  | None -> None

(** val pos_shift_left : n -> n option **)

let pos_shift_left s =
  match file_shift_left (pos_file s) with
  | Some f -> Some (pos_new f (pos_rank s))
  | None -> None

(** val pos_shift_right : n -> n option **)

let pos_shift_right s =
  match file_shift_right (pos_file s) with
  | Some f -> Some (pos_new f (pos_rank s))
  | None -> None

(** val rank_flip : n -> n **)

let rank_flip r =
  N.sub (Npos (XI (XI XH))) r

(** val pos_flip_rank : n -> n **)

let pos_flip_rank s =
  pos_new (pos_file s) (rank_flip (pos_rank s))

(** val dist_to : n -> n -> n **)

let dist_to =
  abs_diff

(** val file_show : n -> n list **)

let file_show f =
  (N.add (Npos (XI (XO (XO (XO (XO (XI XH))))))) f) :: []

(** val rank_show : n -> n list **)

let rank_show r =
  (N.add (Npos (XI (XO (XO (XO (XI XH)))))) r) :: []

(** val pos_show : n -> n list **)

let pos_show s =
  app (file_show (pos_file s)) (rank_show (pos_rank s))

(** val promo_show : n -> n list **)

let promo_show = function
| N0 -> []
| Npos p0 ->
  (match p0 with
   | XI p1 ->
     (match p1 with
      | XH -> (Npos (XO (XI (XO (XO (XI (XO XH))))))) :: []
      | _ -> [])
   | XO p1 ->
     (match p1 with
      | XI _ -> []
      | XO p2 ->
        (match p2 with
         | XH -> (Npos (XI (XO (XO (XO (XI (XO XH))))))) :: []
         | _ -> [])
      | XH -> (Npos (XO (XI (XO (XO (XO (XO XH))))))) :: [])
   | XH -> (Npos (XO (XI (XI (XI (XO (XO XH))))))) :: [])

(** val move_show : (n * n) -> n list **)

let move_show m =
  app (pos_show (fst m))
    (app ((Npos (XI (XO (XI (XI (XO XH)))))) :: []) (pos_show (snd m)))

(** val move_show_full : n -> n -> n option -> n list **)

let move_show_full src dst promo0 =
  app (move_show (src, dst))
    (match promo0 with
     | Some p -> promo_show p
     | None -> [])

(** val file_from_ascii_byte : n -> n option **)

let file_from_ascii_byte b =
  let s =
    wrapping_sub_u8 (N.coq_lor b (Npos (XO (XO (XO (XO (XO XH))))))) (Npos
      (XI (XO (XO (XO (XO (XI XH)))))))
  in
  if N.ltb s (Npos (XO (XO (XO XH)))) then Some s else None

(** val rank_from_ascii_byte : n -> n option **)

let rank_from_ascii_byte b =
  let s = wrapping_sub_u8 b (Npos (XI (XO (XO (XO (XI XH)))))) in
  if N.ltb s (Npos (XO (XO (XO XH)))) then Some s else None

(** val file_from_ascii_bytes : n list -> n option **)

let file_from_ascii_bytes = function
| [] -> None
| b :: l0 -> (match l0 with
              | [] -> file_from_ascii_byte b
              | _ :: _ -> None)

(** val rank_from_ascii_bytes : n list -> n option **)

let rank_from_ascii_bytes = function
| [] -> None
| b :: l0 -> (match l0 with
              | [] -> rank_from_ascii_byte b
              | _ :: _ -> None)

(** val pos_from_ascii_bytes : n list -> n option **)

let pos_from_ascii_bytes = function
| [] -> None
| fb :: l0 ->
  (match l0 with
   | [] -> None
   | rb :: l1 ->
     (match l1 with
      | [] ->
        (match file_from_ascii_byte fb with
         | Some f ->
           (match rank_from_ascii_byte rb with
            | Some r -> Some (pos_new f r)
            | None -> None)
         | None -> None)
      | _ :: _ -> None))

(** val piece_from_ascii_byte : n -> n option **)

let piece_from_ascii_byte b =
  if (||) (N.eqb b (Npos (XO (XO (XO (XO (XI (XI XH))))))))
       (N.eqb b (Npos (XO (XO (XO (XO (XI (XO XH))))))))
  then Some N0
  else if (||) (N.eqb b (Npos (XO (XI (XI (XI (XO (XI XH))))))))
            (N.eqb b (Npos (XO (XI (XI (XI (XO (XO XH))))))))
       then Some (Npos XH)
       else if (||) (N.eqb b (Npos (XO (XI (XO (XO (XO (XI XH))))))))
                 (N.eqb b (Npos (XO (XI (XO (XO (XO (XO XH))))))))
            then Some (Npos (XO XH))
            else if (||) (N.eqb b (Npos (XO (XI (XO (XO (XI (XI XH))))))))
                      (N.eqb b (Npos (XO (XI (XO (XO (XI (XO XH))))))))
                 then Some (Npos (XI XH))
                 else if (||)
                           (N.eqb b (Npos (XI (XO (XO (XO (XI (XI XH))))))))
                           (N.eqb b (Npos (XI (XO (XO (XO (XI (XO XH))))))))
                      then Some (Npos (XO (XO XH)))
                      else if (||)
                                (N.eqb b (Npos (XI (XI (XO (XI (XO (XI
                                  XH))))))))
                                (N.eqb b (Npos (XI (XI (XO (XI (XO (XO
                                  XH))))))))
                           then Some (Npos (XI (XO XH)))
                           else None

(** val piece_from_ascii_bytes : n list -> n option **)

let piece_from_ascii_bytes = function
| [] -> None
| b :: l0 -> (match l0 with
              | [] -> piece_from_ascii_byte b
              | _ :: _ -> None)

(** val promo_from_ascii_byte : n -> n option **)

let promo_from_ascii_byte b =
  if (||) (N.eqb b (Npos (XO (XI (XI (XI (XO (XI XH))))))))
       (N.eqb b (Npos (XO (XI (XI (XI (XO (XO XH))))))))
  then Some (Npos XH)
  else if (||) (N.eqb b (Npos (XO (XI (XO (XO (XO (XI XH))))))))
            (N.eqb b (Npos (XO (XI (XO (XO (XO (XO XH))))))))
       then Some (Npos (XO XH))
       else if (||) (N.eqb b (Npos (XO (XI (XO (XO (XI (XI XH))))))))
                 (N.eqb b (Npos (XO (XI (XO (XO (XI (XO XH))))))))
            then Some (Npos (XI XH))
            else if (||) (N.eqb b (Npos (XI (XO (XO (XO (XI (XI XH))))))))
                      (N.eqb b (Npos (XI (XO (XO (XO (XI (XO XH))))))))
                 then Some (Npos (XO (XO XH)))
                 else None

(** val promo_from_ascii_bytes : n list -> n option **)

let promo_from_ascii_bytes = function
| [] -> None
| b :: l0 -> (match l0 with
              | [] -> promo_from_ascii_byte b
              | _ :: _ -> None)

(** val move_of_bytes : n -> n -> n -> n -> (n * n) option **)

let move_of_bytes sf sr df dr =
  match pos_from_ascii_bytes (sf :: (sr :: [])) with
  | Some src ->
    (match pos_from_ascii_bytes (df :: (dr :: [])) with
     | Some dst -> Some (src, dst)
     | None -> None)
  | None -> None

(** val move_from_ascii_bytes : n list -> (n * n) option **)

let move_from_ascii_bytes = function
| [] -> None
| sf :: l0 ->
  (match l0 with
   | [] -> None
   | sr :: l1 ->
     (match l1 with
      | [] -> None
      | df :: l2 ->
        (match l2 with
         | [] -> None
         | dr :: l3 ->
           (match l3 with
            | [] -> move_of_bytes sf sr df dr
            | dr0 :: l4 ->
              (match l4 with
               | [] ->
                 if N.eqb df (Npos (XI (XO (XI (XI (XO XH))))))
                 then move_of_bytes sf sr dr dr0
                 else None
               | _ :: _ -> None)))))

type range = { lo : n; hi : n }

(** val forward_checked : n -> n -> n option **)

let forward_checked start n0 =
  if N.leb n0 (Npos (XI (XI (XI (XI (XI (XI (XI XH))))))))
  then if N.leb (N.add start n0) (Npos (XI (XI (XI (XI (XI (XI (XI XH))))))))
       then Some (N.add start n0)
       else None
  else None

(** val backward_checked : n -> n -> n option **)

let backward_checked start n0 =
  if N.leb n0 (Npos (XI (XI (XI (XI (XI (XI (XI XH))))))))
  then if N.leb n0 start then Some (N.sub start n0) else None
  else None

(** val r_next : range -> n option * range **)

let r_next r =
  if N.ltb r.lo r.hi
  then ((Some r.lo), { lo = (N.add r.lo (Npos XH)); hi = r.hi })
  else (None, r)

(** val r_nth : n -> range -> n option * range **)

let r_nth n0 r =
  match forward_checked r.lo n0 with
  | Some p ->
    if N.ltb p r.hi
    then ((Some p), { lo = (N.add p (Npos XH)); hi = r.hi })
    else (None, { lo = r.hi; hi = r.hi })
  | None -> (None, { lo = r.hi; hi = r.hi })

(** val r_next_back : range -> n option * range **)

let r_next_back r =
  if N.ltb r.lo r.hi
  then ((Some (N.sub r.hi (Npos XH))), { lo = r.lo; hi =
         (N.sub r.hi (Npos XH)) })
  else (None, r)

(** val r_nth_back : n -> range -> n option * range **)

let r_nth_back n0 r =
  match backward_checked r.hi n0 with
  | Some m ->
    if N.ltb r.lo m
    then ((Some (N.sub m (Npos XH))), { lo = r.lo; hi = (N.sub m (Npos XH)) })
    else (None, { lo = r.lo; hi = r.lo })
  | None -> (None, { lo = r.lo; hi = r.lo })

(** val r_size_hint : range -> n * n option **)

let r_size_hint r =
  if N.ltb r.lo r.hi
  then ((N.sub r.hi r.lo), (Some (N.sub r.hi r.lo)))
  else (N0, (Some N0))

type iop =
| INext
| INextBack
| INth of n
| INthBack of n
| ISizeHint

(** val r_step : iop -> range -> n option * range **)

let r_step op0 r =
  match op0 with
  | INext -> r_next r
  | INextBack -> r_next_back r
  | INth n0 -> r_nth n0 r
  | INthBack n0 -> r_nth_back n0 r
  | ISizeHint -> ((Some (fst (r_size_hint r))), r)

(** val it_step : n -> iop -> range -> n option * range **)

let it_step k op0 r =
  match op0 with
  | ISizeHint -> ((Some (fst (r_size_hint r))), r)
  | _ ->
    let (o, r') = r_step op0 r in
    ((match o with
      | Some v -> enum_from_u8 k v
      | None -> None), r')

(** val run_it : n -> range -> iop list -> n option list **)

let rec run_it k r = function
| [] -> []
| op0 :: t -> let (o, r') = it_step k op0 r in o :: (run_it k r' t)

(** val run_iter : n -> iop list -> n option list **)

let run_iter k ops =
  run_it k { lo = N0; hi = k } ops

(** val allpos_next : n -> n option * n **)

let allpos_next p =
  match pos_from_u8 p with
  | Some s -> ((Some s), (N.add p (Npos XH)))
  | None -> (None, p)

(** val allpos_size_hint : n -> n **)

let allpos_size_hint p =
  N.sub (Npos (XO (XO (XO (XO (XO (XO XH))))))) p

(** val allpos_step : iop -> n -> n option * n **)

let allpos_step op0 p =
  match op0 with
  | INext -> allpos_next p
  | ISizeHint -> ((Some (allpos_size_hint p)), p)
  | _ -> (None, p)

(** val run_allpos_from : n -> iop list -> n option list **)

let rec run_allpos_from p = function
| [] -> []
| op0 :: t -> let (o, p') = allpos_step op0 p in o :: (run_allpos_from p' t)

(** val run_allpos : iop list -> n option list **)

let run_allpos ops =
  run_allpos_from N0 ops

(** val file_iter_next : n -> range -> n option * range **)

let file_iter_next f r =
  let (o, r') = it_step (Npos (XO (XO (XO XH)))) INext r in
  ((match o with
    | Some rk -> Some (pos_new f rk)
    | None -> None), r')

(** val rank_iter_next : n -> range -> n option * range **)

let rank_iter_next rk r =
  let (o, r') = it_step (Npos (XO (XO (XO XH)))) INext r in
  ((match o with
    | Some f -> Some (pos_new f rk)
    | None -> None), r')

type flag =
| FGlobal
| FEnabled
| FDisabled

type op =
| OEnable
| ODisable
| OToggle
| OLocalEnable
| OLocalDisable
| OLocalToggle
| OLocalTake
| ORestore of flag
| OIsEnabled

type st = { g : bool; loc : (n * flag) list }

(** val lookup : (n * flag) list -> n -> flag **)

let rec lookup l t =
  match l with
  | [] -> FGlobal
  | p :: r -> let (u, f) = p in if N.eqb u t then f else lookup r t

(** val update : (n * flag) list -> n -> flag -> (n * flag) list **)

let rec update l t f =
  match l with
  | [] -> (t, f) :: []
  | p :: r ->
    let (u, f') = p in
    if N.eqb u t then (t, f) :: r else (u, f') :: (update r t f)

(** val get_loc : st -> n -> flag **)

let get_loc s t =
  lookup s.loc t

(** val set_loc : st -> n -> flag -> st **)

let set_loc s t f =
  { g = s.g; loc = (update s.loc t f) }

(** val set_g : st -> bool -> st **)

let set_g s b =
  { g = b; loc = s.loc }

(** val toggle_flag : flag -> flag **)

let toggle_flag = function
| FGlobal -> FGlobal
| FEnabled -> FDisabled
| FDisabled -> FEnabled

(** val view : st -> n -> bool **)

let view s t =
  match get_loc s t with
  | FGlobal -> s.g
  | FEnabled -> true
  | FDisabled -> false

(** val step0 : st -> n -> op -> (st * bool option) * flag option **)

let step0 s t = function
| OEnable -> (((set_g (set_loc s t FEnabled) true), None), None)
| ODisable -> (((set_g (set_loc s t FDisabled) false), None), None)
| OToggle ->
  (((set_g (set_loc s t (toggle_flag (get_loc s t))) (negb s.g)), None), None)
| OLocalEnable -> (((set_loc s t FEnabled), None), None)
| OLocalDisable -> (((set_loc s t FDisabled), None), None)
| OLocalToggle -> (((set_loc s t (toggle_flag (get_loc s t))), None), None)
| OLocalTake -> (((set_loc s t FGlobal), None), (Some (get_loc s t)))
| ORestore f -> (((set_loc s t f), None), None)
| OIsEnabled -> ((s, (Some (view s t))), None)

(** val init : st **)

let init =
  { g = true; loc = [] }

(** val views : st -> n list -> bool list **)

let views s ths =
  map (view s) ths

type sop =
| SEnable
| SDisable
| SToggle
| SLocalEnable
| SLocalDisable
| SLocalToggle
| SLocalTake
| SRestoreTop
| SIsEnabled

type stacks = (n * flag list) list

(** val get_stack : stacks -> n -> flag list **)

let rec get_stack k t =
  match k with
  | [] -> []
  | p :: r -> let (u, l) = p in if N.eqb u t then l else get_stack r t

(** val set_stack : stacks -> n -> flag list -> stacks **)

let rec set_stack k t l =
  match k with
  | [] -> (t, l) :: []
  | p :: r ->
    let (u, l') = p in
    if N.eqb u t then (t, l) :: r else (u, l') :: (set_stack r t l)

(** val resolve_op : flag list -> sop -> op **)

let resolve_op stk = function
| SEnable -> OEnable
| SDisable -> ODisable
| SToggle -> OToggle
| SLocalEnable -> OLocalEnable
| SLocalDisable -> OLocalDisable
| SLocalToggle -> OLocalToggle
| SLocalTake -> OLocalTake
| SRestoreTop -> (match stk with
                  | [] -> OIsEnabled
                  | f :: _ -> ORestore f)
| SIsEnabled -> OIsEnabled

(** val sstep : st -> stacks -> n -> sop -> st * stacks **)

let sstep s k t o =
  let stk = get_stack k t in
  let (p, tok) = step0 s t (resolve_op stk o) in
  let (s', _) = p in
  let k' =
    match o with
    | SLocalTake ->
      (match tok with
       | Some f -> set_stack k t (f :: stk)
       | None -> k)
    | SRestoreTop ->
      (match stk with
       | [] -> k
       | _ :: rest -> set_stack k t rest)
    | _ -> k
  in
  (s', k')

(** val run_stack_from :
    n list -> st -> stacks -> (n * sop) list -> (st * stacks) * bool list list **)

let rec run_stack_from ths s k = function
| [] -> ((s, k), [])
| p :: r ->
  let (t, o) = p in
  let (s', k') = sstep s k t o in
  let (p0, obs) = run_stack_from ths s' k' r in (p0, ((views s' ths) :: obs))

(** val run_stack : n list -> (n * sop) list -> bool list list **)

let run_stack ths tr =
  snd (run_stack_from ths init [] tr)

(** val api_score_cmp : score -> score -> comparison **)

let api_score_cmp =
  cmp

(** val api_score_partial_cmp : score -> score -> comparison option **)

let api_score_partial_cmp =
  partial_cmp

(** val api_score_eqb : score -> score -> bool **)

let api_score_eqb =
  eqb0

(** val api_score_ltb : score -> score -> bool **)

let api_score_ltb =
  ltb0

(** val api_score_leb : score -> score -> bool **)

let api_score_leb =
  leb0

(** val api_score_gtb : score -> score -> bool **)

let api_score_gtb =
  gtb

(** val api_score_max : score -> score -> score **)

let api_score_max =
  smax

(** val api_score_min : score -> score -> score **)

let api_score_min =
  smin

(** val api_score_neg : score -> score **)

let api_score_neg =
  neg

(** val api_color : n -> color **)

let api_color i =
  if N.eqb i N0 then White else Black

(** val api_table : n -> n -> n **)

let api_table name s =
  match name with
  | N0 -> knight_geo s
  | Npos p ->
    (match p with
     | XI p0 ->
       (match p0 with
        | XI p1 -> (match p1 with
                    | XH -> pawn_push_geo Black s
                    | _ -> N0)
        | XO p1 -> (match p1 with
                    | XH -> pawn_att_geo Black s
                    | _ -> N0)
        | XH -> bishop_rays_geo s)
     | XO p0 ->
       (match p0 with
        | XI p1 -> (match p1 with
                    | XH -> pawn_push_geo White s
                    | _ -> N0)
        | XO p1 -> (match p1 with
                    | XH -> pawn_att_geo White s
                    | _ -> N0)
        | XH -> rook_rays_geo s)
     | XH -> king_geo s)

(** val api_between : n -> n -> n **)

let api_between =
  between_geo

(** val api_line : n -> n -> n **)

let api_line =
  line_geo

(** val api_dist : n -> n -> n **)

let api_dist =
  dist_geo

(** val api_rook_attacks : n -> n -> n **)

let api_rook_attacks =
  rook_attacks

(** val api_bishop_attacks : n -> n -> n **)

let api_bishop_attacks =
  bishop_attacks

(** val api_pawn_quiets : n -> n -> n -> n **)

let api_pawn_quiets c s occ =
  pawn_quiets_spec (api_color c) s occ

(** val api_pawn_attacks : n -> n -> n -> n **)

let api_pawn_attacks c s occ =
  pawn_attacks_spec (api_color c) s occ

(** val api_pawn_moves : n -> n -> n -> n **)

let api_pawn_moves c s occ =
  pawn_moves_spec (api_color c) s occ

(** val api_ranks : n list -> n **)

let api_ranks rs =
  set_of (filter (fun s -> existsb (N.eqb (rank_of s)) rs) sq_list)

(** val api_files : n list -> n **)

let api_files fs =
  set_of (filter (fun s -> existsb (N.eqb (file_of s)) fs) sq_list)

(** val api_squares : n list -> n **)

let api_squares =
  set_of

(** val api_adjacent : n -> n **)

let api_adjacent i =
  set_of (filter (fun s -> N.eqb (absdiff (file_of s) i) (Npos XH)) sq_list)

(** val api_adjacent_ranks : n -> n **)

let api_adjacent_ranks i =
  set_of (filter (fun s -> N.eqb (absdiff (rank_of s) i) (Npos XH)) sq_list)

(** val api_zk : n -> n -> n **)

let api_zk kind0 i =
  match kind0 with
  | N0 -> nthN piece_zobrist_tbl i
  | Npos p ->
    (match p with
     | XI _ -> nthN turn_zobrist_tbl i
     | XO p0 ->
       (match p0 with
        | XH -> lk_ep_zobrist i
        | _ -> nthN turn_zobrist_tbl i)
     | XH -> lk_castle_zobrist i)

(** val api_elements : n -> n list **)

let api_elements =
  elements

(** val api_bb_not : n -> n **)

let api_bb_not =
  bb_not

(** val api_shift_up : n -> n **)

let api_shift_up =
  shift_up

(** val api_shift_down : n -> n **)

let api_shift_down =
  shift_down

(** val api_shift_left : n -> n **)

let api_shift_left =
  shift_left

(** val api_shift_right : n -> n **)

let api_shift_right =
  shift_right

(** val api_flip_ranks : n -> n **)

let api_flip_ranks =
  flip_ranks

(** val api_count : n -> n **)

let api_count =
  count

(** val api_pop : n -> (n * n) option **)

let api_pop =
  pop

(** val api_iter_list : n -> n list **)

let api_iter_list =
  iter_list

(** val api_from_squares : n list -> n **)

let api_from_squares =
  from_squares

(** val api_from_boards : n list -> n **)

let api_from_boards =
  from_boards

(** val api_from_pos : n -> n **)

let api_from_pos =
  from_pos

(** val api_from_file : n -> n **)

let api_from_file =
  from_file

(** val api_from_rank : n -> n **)

let api_from_rank =
  from_rank

(** val api_contains : n -> n -> bool **)

let api_contains =
  contains

(** val api_with : n -> n -> n **)

let api_with =
  bb_with

(** val api_cleared : n -> n -> n **)

let api_cleared =
  cleared

(** val api_or : n -> n -> n **)

let api_or =
  bb_or

(** val api_and : n -> n -> n **)

let api_and =
  bb_and

(** val api_xor : n -> n -> n **)

let api_xor =
  bb_xor

(** val api_diff : n -> n -> n **)

let api_diff =
  bb_diff

(** val api_any : n -> bool **)

let api_any =
  any

(** val api_none : n -> bool **)

let api_none =
  none

(** val api_all : n -> bool **)

let api_all =
  bb_all

(** val api_some : n -> bool **)

let api_some =
  bb_some

(** val api_nth_default : n -> n -> n option * n **)

let api_nth_default =
  nth_default

(** val api_nth_spec : n -> n -> n option * n **)

let api_nth_spec a n0 =
  let l = elements a in
  if N.ltb n0 (Npos (XO (XO (XO (XO (XO (XO XH)))))))
  then ((nth_error l (N.to_nat n0)), (set_of (skipn (S (N.to_nat n0)) l)))
  else (None, N0)

(** val api_abi_stable_rt : cmove -> cmove **)

let api_abi_stable_rt m =
  of_stable (to_stable m)

(** val api_abi_eval_rt : cmove option -> score -> cmove option * score **)

let api_abi_eval_rt =
  evaluated_roundtrip

(** val api_file_from_ascii_bytes : n list -> n option **)

let api_file_from_ascii_bytes =
  file_from_ascii_bytes

(** val api_rank_from_ascii_bytes : n list -> n option **)

let api_rank_from_ascii_bytes =
  rank_from_ascii_bytes

(** val api_pos_from_ascii_bytes : n list -> n option **)

let api_pos_from_ascii_bytes =
  pos_from_ascii_bytes

(** val api_piece_from_ascii_bytes : n list -> n option **)

let api_piece_from_ascii_bytes =
  piece_from_ascii_bytes

(** val api_promo_from_ascii_bytes : n list -> n option **)

let api_promo_from_ascii_bytes =
  promo_from_ascii_bytes

(** val api_move_from_ascii_bytes : n list -> (n * n) option **)

let api_move_from_ascii_bytes =
  move_from_ascii_bytes

(** val api_pos_show : n -> n list **)

let api_pos_show =
  pos_show

(** val api_file_show : n -> n list **)

let api_file_show =
  file_show

(** val api_rank_show : n -> n list **)

let api_rank_show =
  rank_show

(** val api_move_show_full : n -> n -> n option -> n list **)

let api_move_show_full =
  move_show_full

(** val api_enum_from_u8 : n -> n -> n option **)

let api_enum_from_u8 =
  enum_from_u8

(** val api_pos_file : n -> n **)

let api_pos_file =
  pos_file

(** val api_pos_rank : n -> n **)

let api_pos_rank =
  pos_rank

(** val api_pos_new : n -> n -> n **)

let api_pos_new =
  pos_new

(** val api_pos_shift_up : n -> n option **)

let api_pos_shift_up =
  pos_shift_up

(** val api_pos_shift_down : n -> n option **)

let api_pos_shift_down =
  pos_shift_down

(** val api_pos_shift_left : n -> n option **)

let api_pos_shift_left =
  pos_shift_left

(** val api_pos_shift_right : n -> n option **)

let api_pos_shift_right =
  pos_shift_right

(** val api_pos_flip_rank : n -> n **)

let api_pos_flip_rank =
  pos_flip_rank

(** val api_file_shift_left : n -> n option **)

let api_file_shift_left =
  file_shift_left

(** val api_file_shift_right : n -> n option **)

let api_file_shift_right =
  file_shift_right

(** val api_rank_shift_down : n -> n option **)

let api_rank_shift_down =
  rank_shift_down

(** val api_rank_shift_up : n -> n option **)

let api_rank_shift_up =
  rank_shift_up

(** val api_rank_flip : n -> n **)

let api_rank_flip =
  rank_flip

(** val api_dist_to : n -> n -> n **)

let api_dist_to =
  dist_to

(** val api_color_not : n -> n **)

let api_color_not =
  color_not

(** val api_side_not : n -> n **)

let api_side_not =
  side_not

(** val api_run_iter : n -> iop list -> n option list **)

let api_run_iter =
  run_iter

(** val api_run_allpos : iop list -> n option list **)

let api_run_allpos =
  run_allpos

(** val api_file_iter_next : n -> range -> n option * range **)

let api_file_iter_next =
  file_iter_next

(** val api_rank_iter_next : n -> range -> n option * range **)

let api_rank_iter_next =
  rank_iter_next

(** val api_mk_range : n -> n -> range **)

let api_mk_range x x0 =
  { lo = x; hi = x0 }

(** val api_run_stack : n list -> (n * sop) list -> bool list list **)

let api_run_stack =
  run_stack
