
(** val negb : bool -> bool **)

let negb = function
| true -> false
| false -> true

type nat =
| O
| S of nat

type ('a, 'b) sum =
| Inl of 'a
| Inr of 'b

(** val fst : ('a1 * 'a2) -> 'a1 **)

let fst = function
| (x, _) -> x

(** val snd : ('a1 * 'a2) -> 'a2 **)

let snd = function
| (_, y) -> y

(** val length : 'a1 list -> nat **)

let rec length = function
| [] -> O
| _ :: l' -> S (length l')

(** val app : 'a1 list -> 'a1 list -> 'a1 list **)

let rec app l m =
  match l with
  | [] -> m
  | a :: l1 -> a :: (app l1 m)

type comparison =
| Eq
| Lt
| Gt

(** val compOpp : comparison -> comparison **)

let compOpp = function
| Eq -> Eq
| Lt -> Gt
| Gt -> Lt

module Coq__1 = struct
 (** val add : nat -> nat -> nat **)
 let rec add n0 m =
   match n0 with
   | O -> m
   | S p -> S (add p m)
end
include Coq__1

(** val mul : nat -> nat -> nat **)

let rec mul n0 m =
  match n0 with
  | O -> O
  | S p -> add m (mul p m)

type positive =
| XI of positive
| XO of positive
| XH

type n =
| N0
| Npos of positive

type z =
| Z0
| Zpos of positive
| Zneg of positive

(** val eqb : bool -> bool -> bool **)

let eqb b1 b2 =
  if b1 then b2 else if b2 then false else true

module Nat =
 struct
  (** val eqb : nat -> nat -> bool **)

  let rec eqb n0 m =
    match n0 with
    | O -> (match m with
            | O -> true
            | S _ -> false)
    | S n' -> (match m with
               | O -> false
               | S m' -> eqb n' m')
 end

module Pos =
 struct
  type mask =
  | IsNul
  | IsPos of positive
  | IsNeg
 end

module Coq_Pos =
 struct
  (** val succ : positive -> positive **)

  let rec succ = function
  | XI p -> XO (succ p)
  | XO p -> XI p
  | XH -> XO XH

  (** val add : positive -> positive -> positive **)

  let rec add x y =
    match x with
    | XI p ->
      (match y with
       | XI q -> XO (add_carry p q)
       | XO q -> XI (add p q)
       | XH -> XO (succ p))
    | XO p ->
      (match y with
       | XI q -> XI (add p q)
       | XO q -> XO (add p q)
       | XH -> XI p)
    | XH -> (match y with
             | XI q -> XO (succ q)
             | XO q -> XI q
             | XH -> XO XH)

  (** val add_carry : positive -> positive -> positive **)

  and add_carry x y =
    match x with
    | XI p ->
      (match y with
       | XI q -> XI (add_carry p q)
       | XO q -> XO (add_carry p q)
       | XH -> XI (succ p))
    | XO p ->
      (match y with
       | XI q -> XO (add_carry p q)
       | XO q -> XI (add p q)
       | XH -> XO (succ p))
    | XH ->
      (match y with
       | XI q -> XI (succ q)
       | XO q -> XO (succ q)
       | XH -> XI XH)

  (** val pred_double : positive -> positive **)

  let rec pred_double = function
  | XI p -> XI (XO p)
  | XO p -> XI (pred_double p)
  | XH -> XH

  (** val pred_N : positive -> n **)

  let pred_N = function
  | XI p -> Npos (XO p)
  | XO p -> Npos (pred_double p)
  | XH -> N0

  type mask = Pos.mask =
  | IsNul
  | IsPos of positive
  | IsNeg

  (** val succ_double_mask : mask -> mask **)

  let succ_double_mask = function
  | IsNul -> IsPos XH
  | IsPos p -> IsPos (XI p)
  | IsNeg -> IsNeg

  (** val double_mask : mask -> mask **)

  let double_mask = function
  | IsPos p -> IsPos (XO p)
  | x0 -> x0

  (** val double_pred_mask : positive -> mask **)

  let double_pred_mask = function
  | XI p -> IsPos (XO (XO p))
  | XO p -> IsPos (XO (pred_double p))
  | XH -> IsNul

  (** val sub_mask : positive -> positive -> mask **)

  let rec sub_mask x y =
    match x with
    | XI p ->
      (match y with
       | XI q -> double_mask (sub_mask p q)
       | XO q -> succ_double_mask (sub_mask p q)
       | XH -> IsPos (XO p))
    | XO p ->
      (match y with
       | XI q -> succ_double_mask (sub_mask_carry p q)
       | XO q -> double_mask (sub_mask p q)
       | XH -> IsPos (pred_double p))
    | XH -> (match y with
             | XH -> IsNul
             | _ -> IsNeg)

  (** val sub_mask_carry : positive -> positive -> mask **)

  and sub_mask_carry x y =
    match x with
    | XI p ->
      (match y with
       | XI q -> succ_double_mask (sub_mask_carry p q)
       | XO q -> double_mask (sub_mask p q)
       | XH -> IsPos (pred_double p))
    | XO p ->
      (match y with
       | XI q -> double_mask (sub_mask_carry p q)
       | XO q -> succ_double_mask (sub_mask_carry p q)
       | XH -> double_pred_mask p)
    | XH -> IsNeg

  (** val mul : positive -> positive -> positive **)

  let rec mul x y =
    match x with
    | XI p -> add y (XO (mul p y))
    | XO p -> XO (mul p y)
    | XH -> y

  (** val iter : ('a1 -> 'a1) -> 'a1 -> positive -> 'a1 **)

  let rec iter f x = function
  | XI n' -> f (iter f (iter f x n') n')
  | XO n' -> iter f (iter f x n') n'
  | XH -> f x

  (** val compare_cont : comparison -> positive -> positive -> comparison **)

  let rec compare_cont r x y =
    match x with
    | XI p ->
      (match y with
       | XI q -> compare_cont r p q
       | XO q -> compare_cont Gt p q
       | XH -> Gt)
    | XO p ->
      (match y with
       | XI q -> compare_cont Lt p q
       | XO q -> compare_cont r p q
       | XH -> Gt)
    | XH -> (match y with
             | XH -> r
             | _ -> Lt)

  (** val compare : positive -> positive -> comparison **)

  let compare =
    compare_cont Eq

  (** val eqb : positive -> positive -> bool **)

  let rec eqb p q =
    match p with
    | XI p0 -> (match q with
                | XI q0 -> eqb p0 q0
                | _ -> false)
    | XO p0 -> (match q with
                | XO q0 -> eqb p0 q0
                | _ -> false)
    | XH -> (match q with
             | XH -> true
             | _ -> false)

  (** val coq_Nsucc_double : n -> n **)

  let coq_Nsucc_double = function
  | N0 -> Npos XH
  | Npos p -> Npos (XI p)

  (** val coq_Ndouble : n -> n **)

  let coq_Ndouble = function
  | N0 -> N0
  | Npos p -> Npos (XO p)

  (** val coq_lor : positive -> positive -> positive **)

  let rec coq_lor p q =
    match p with
    | XI p0 ->
      (match q with
       | XI q0 -> XI (coq_lor p0 q0)
       | XO q0 -> XI (coq_lor p0 q0)
       | XH -> p)
    | XO p0 ->
      (match q with
       | XI q0 -> XI (coq_lor p0 q0)
       | XO q0 -> XO (coq_lor p0 q0)
       | XH -> XI p0)
    | XH -> (match q with
             | XO q0 -> XI q0
             | _ -> q)

  (** val coq_land : positive -> positive -> n **)

  let rec coq_land p q =
    match p with
    | XI p0 ->
      (match q with
       | XI q0 -> coq_Nsucc_double (coq_land p0 q0)
       | XO q0 -> coq_Ndouble (coq_land p0 q0)
       | XH -> Npos XH)
    | XO p0 ->
      (match q with
       | XI q0 -> coq_Ndouble (coq_land p0 q0)
       | XO q0 -> coq_Ndouble (coq_land p0 q0)
       | XH -> N0)
    | XH -> (match q with
             | XO _ -> N0
             | _ -> Npos XH)

  (** val ldiff : positive -> positive -> n **)

  let rec ldiff p q =
    match p with
    | XI p0 ->
      (match q with
       | XI q0 -> coq_Ndouble (ldiff p0 q0)
       | XO q0 -> coq_Nsucc_double (ldiff p0 q0)
       | XH -> Npos (XO p0))
    | XO p0 ->
      (match q with
       | XI q0 -> coq_Ndouble (ldiff p0 q0)
       | XO q0 -> coq_Ndouble (ldiff p0 q0)
       | XH -> Npos p)
    | XH -> (match q with
             | XO _ -> Npos XH
             | _ -> N0)

  (** val coq_lxor : positive -> positive -> n **)

  let rec coq_lxor p q =
    match p with
    | XI p0 ->
      (match q with
       | XI q0 -> coq_Ndouble (coq_lxor p0 q0)
       | XO q0 -> coq_Nsucc_double (coq_lxor p0 q0)
       | XH -> Npos (XO p0))
    | XO p0 ->
      (match q with
       | XI q0 -> coq_Nsucc_double (coq_lxor p0 q0)
       | XO q0 -> coq_Ndouble (coq_lxor p0 q0)
       | XH -> Npos (XI p0))
    | XH ->
      (match q with
       | XI q0 -> Npos (XO q0)
       | XO q0 -> Npos (XI q0)
       | XH -> N0)

  (** val shiftl : positive -> n -> positive **)

  let shiftl p = function
  | N0 -> p
  | Npos n1 -> iter (fun x -> XO x) p n1

  (** val testbit : positive -> n -> bool **)

  let rec testbit p n0 =
    match p with
    | XI p0 -> (match n0 with
                | N0 -> true
                | Npos n1 -> testbit p0 (pred_N n1))
    | XO p0 -> (match n0 with
                | N0 -> false
                | Npos n1 -> testbit p0 (pred_N n1))
    | XH -> (match n0 with
             | N0 -> true
             | Npos _ -> false)

  (** val iter_op : ('a1 -> 'a1 -> 'a1) -> positive -> 'a1 -> 'a1 **)

  let rec iter_op op0 p a =
    match p with
    | XI p0 -> op0 a (iter_op op0 p0 (op0 a a))
    | XO p0 -> iter_op op0 p0 (op0 a a)
    | XH -> a

  (** val to_nat : positive -> nat **)

  let to_nat x =
    iter_op Coq__1.add x (S O)

  (** val of_succ_nat : nat -> positive **)

  let rec of_succ_nat = function
  | O -> XH
  | S x -> succ (of_succ_nat x)
 end

module N =
 struct
  (** val succ_double : n -> n **)

  let succ_double = function
  | N0 -> Npos XH
  | Npos p -> Npos (XI p)

  (** val double : n -> n **)

  let double = function
  | N0 -> N0
  | Npos p -> Npos (XO p)

  (** val succ : n -> n **)

  let succ = function
  | N0 -> Npos XH
  | Npos p -> Npos (Coq_Pos.succ p)

  (** val pred : n -> n **)

  let pred = function
  | N0 -> N0
  | Npos p -> Coq_Pos.pred_N p

  (** val add : n -> n -> n **)

  let add n0 m =
    match n0 with
    | N0 -> m
    | Npos p -> (match m with
                 | N0 -> n0
                 | Npos q -> Npos (Coq_Pos.add p q))

  (** val sub : n -> n -> n **)

  let sub n0 m =
    match n0 with
    | N0 -> N0
    | Npos n' ->
      (match m with
       | N0 -> n0
       | Npos m' ->
         (match Coq_Pos.sub_mask n' m' with
          | Coq_Pos.IsPos p -> Npos p
          | _ -> N0))

  (** val mul : n -> n -> n **)

  let mul n0 m =
    match n0 with
    | N0 -> N0
    | Npos p -> (match m with
                 | N0 -> N0
                 | Npos q -> Npos (Coq_Pos.mul p q))

  (** val compare : n -> n -> comparison **)

  let compare n0 m =
    match n0 with
    | N0 -> (match m with
             | N0 -> Eq
             | Npos _ -> Lt)
    | Npos n' -> (match m with
                  | N0 -> Gt
                  | Npos m' -> Coq_Pos.compare n' m')

  (** val eqb : n -> n -> bool **)

  let eqb n0 m =
    match n0 with
    | N0 -> (match m with
             | N0 -> true
             | Npos _ -> false)
    | Npos p -> (match m with
                 | N0 -> false
                 | Npos q -> Coq_Pos.eqb p q)

  (** val leb : n -> n -> bool **)

  let leb x y =
    match compare x y with
    | Gt -> false
    | _ -> true

  (** val ltb : n -> n -> bool **)

  let ltb x y =
    match compare x y with
    | Lt -> true
    | _ -> false

  (** val min : n -> n -> n **)

  let min n0 n' =
    match compare n0 n' with
    | Gt -> n'
    | _ -> n0

  (** val max : n -> n -> n **)

  let max n0 n' =
    match compare n0 n' with
    | Gt -> n0
    | _ -> n'

  (** val div2 : n -> n **)

  let div2 = function
  | N0 -> N0
  | Npos p0 -> (match p0 with
                | XI p -> Npos p
                | XO p -> Npos p
                | XH -> N0)

  (** val pos_div_eucl : positive -> n -> n * n **)

  let rec pos_div_eucl a b =
    match a with
    | XI a' ->
      let (q, r) = pos_div_eucl a' b in
      let r' = succ_double r in
      if leb b r' then ((succ_double q), (sub r' b)) else ((double q), r')
    | XO a' ->
      let (q, r) = pos_div_eucl a' b in
      let r' = double r in
      if leb b r' then ((succ_double q), (sub r' b)) else ((double q), r')
    | XH ->
      (match b with
       | N0 -> (N0, (Npos XH))
       | Npos p -> (match p with
                    | XH -> ((Npos XH), N0)
                    | _ -> (N0, (Npos XH))))

  (** val div_eucl : n -> n -> n * n **)

  let div_eucl a b =
    match a with
    | N0 -> (N0, N0)
    | Npos na -> (match b with
                  | N0 -> (N0, a)
                  | Npos _ -> pos_div_eucl na b)

  (** val div : n -> n -> n **)

  let div a b =
    fst (div_eucl a b)

  (** val modulo : n -> n -> n **)

  let modulo a b =
    snd (div_eucl a b)

  (** val coq_lor : n -> n -> n **)

  let coq_lor n0 m =
    match n0 with
    | N0 -> m
    | Npos p -> (match m with
                 | N0 -> n0
                 | Npos q -> Npos (Coq_Pos.coq_lor p q))

  (** val coq_land : n -> n -> n **)

  let coq_land n0 m =
    match n0 with
    | N0 -> N0
    | Npos p -> (match m with
                 | N0 -> N0
                 | Npos q -> Coq_Pos.coq_land p q)

  (** val ldiff : n -> n -> n **)

  let ldiff n0 m =
    match n0 with
    | N0 -> N0
    | Npos p -> (match m with
                 | N0 -> n0
                 | Npos q -> Coq_Pos.ldiff p q)

  (** val coq_lxor : n -> n -> n **)

  let coq_lxor n0 m =
    match n0 with
    | N0 -> m
    | Npos p -> (match m with
                 | N0 -> n0
                 | Npos q -> Coq_Pos.coq_lxor p q)

  (** val shiftl : n -> n -> n **)

  let shiftl a n0 =
    match a with
    | N0 -> N0
    | Npos a0 -> Npos (Coq_Pos.shiftl a0 n0)

  (** val shiftr : n -> n -> n **)

  let shiftr a = function
  | N0 -> a
  | Npos p -> Coq_Pos.iter div2 a p

  (** val testbit : n -> n -> bool **)

  let testbit a n0 =
    match a with
    | N0 -> false
    | Npos p -> Coq_Pos.testbit p n0

  (** val to_nat : n -> nat **)

  let to_nat = function
  | N0 -> O
  | Npos p -> Coq_Pos.to_nat p

  (** val of_nat : nat -> n **)

  let of_nat = function
  | O -> N0
  | S n' -> Npos (Coq_Pos.of_succ_nat n')

  (** val ones : n -> n **)

  let ones n0 =
    pred (shiftl (Npos XH) n0)
 end

(** val nth : nat -> 'a1 list -> 'a1 -> 'a1 **)

let rec nth n0 l default =
  match n0 with
  | O -> (match l with
          | [] -> default
          | x :: _ -> x)
  | S m -> (match l with
            | [] -> default
            | _ :: t -> nth m t default)

(** val nth_error : 'a1 list -> nat -> 'a1 option **)

let rec nth_error l = function
| O -> (match l with
        | [] -> None
        | x :: _ -> Some x)
| S n1 -> (match l with
           | [] -> None
           | _ :: l0 -> nth_error l0 n1)

(** val map : ('a1 -> 'a2) -> 'a1 list -> 'a2 list **)

let rec map f = function
| [] -> []
| a :: t -> (f a) :: (map f t)

(** val flat_map : ('a1 -> 'a2 list) -> 'a1 list -> 'a2 list **)

let rec flat_map f = function
| [] -> []
| x :: t -> app (f x) (flat_map f t)

(** val fold_left : ('a1 -> 'a2 -> 'a1) -> 'a2 list -> 'a1 -> 'a1 **)

let rec fold_left f l a0 =
  match l with
  | [] -> a0
  | b :: t -> fold_left f t (f a0 b)

(** val fold_right : ('a2 -> 'a1 -> 'a1) -> 'a1 -> 'a2 list -> 'a1 **)

let rec fold_right f a0 = function
| [] -> a0
| b :: t -> f b (fold_right f a0 t)

(** val existsb : ('a1 -> bool) -> 'a1 list -> bool **)

let rec existsb f = function
| [] -> false
| a :: l0 -> (||) (f a) (existsb f l0)

(** val forallb : ('a1 -> bool) -> 'a1 list -> bool **)

let rec forallb f = function
| [] -> true
| a :: l0 -> (&&) (f a) (forallb f l0)

(** val filter : ('a1 -> bool) -> 'a1 list -> 'a1 list **)

let rec filter f = function
| [] -> []
| x :: l0 -> if f x then x :: (filter f l0) else filter f l0

(** val find : ('a1 -> bool) -> 'a1 list -> 'a1 option **)

let rec find f = function
| [] -> None
| x :: tl -> if f x then Some x else find f tl

(** val skipn : nat -> 'a1 list -> 'a1 list **)

let rec skipn n0 l =
  match n0 with
  | O -> l
  | S n1 -> (match l with
             | [] -> []
             | _ :: l0 -> skipn n1 l0)

(** val repeat : 'a1 -> nat -> 'a1 list **)

let rec repeat x = function
| O -> []
| S k -> x :: (repeat x k)

module Z =
 struct
  (** val double : z -> z **)

  let double = function
  | Z0 -> Z0
  | Zpos p -> Zpos (XO p)
  | Zneg p -> Zneg (XO p)

  (** val succ_double : z -> z **)

  let succ_double = function
  | Z0 -> Zpos XH
  | Zpos p -> Zpos (XI p)
  | Zneg p -> Zneg (Coq_Pos.pred_double p)

  (** val pred_double : z -> z **)

  let pred_double = function
  | Z0 -> Zneg XH
  | Zpos p -> Zpos (Coq_Pos.pred_double p)
  | Zneg p -> Zneg (XI p)

  (** val pos_sub : positive -> positive -> z **)

  let rec pos_sub x y =
    match x with
    | XI p ->
      (match y with
       | XI q -> double (pos_sub p q)
       | XO q -> succ_double (pos_sub p q)
       | XH -> Zpos (XO p))
    | XO p ->
      (match y with
       | XI q -> pred_double (pos_sub p q)
       | XO q -> double (pos_sub p q)
       | XH -> Zpos (Coq_Pos.pred_double p))
    | XH ->
      (match y with
       | XI q -> Zneg (XO q)
       | XO q -> Zneg (Coq_Pos.pred_double q)
       | XH -> Z0)

  (** val add : z -> z -> z **)

  let add x y =
    match x with
    | Z0 -> y
    | Zpos x' ->
      (match y with
       | Z0 -> x
       | Zpos y' -> Zpos (Coq_Pos.add x' y')
       | Zneg y' -> pos_sub x' y')
    | Zneg x' ->
      (match y with
       | Z0 -> x
       | Zpos y' -> pos_sub y' x'
       | Zneg y' -> Zneg (Coq_Pos.add x' y'))

  (** val opp : z -> z **)

  let opp = function
  | Z0 -> Z0
  | Zpos x0 -> Zneg x0
  | Zneg x0 -> Zpos x0

  (** val sub : z -> z -> z **)

  let sub m n0 =
    add m (opp n0)

  (** val mul : z -> z -> z **)

  let mul x y =
    match x with
    | Z0 -> Z0
    | Zpos x' ->
      (match y with
       | Z0 -> Z0
       | Zpos y' -> Zpos (Coq_Pos.mul x' y')
       | Zneg y' -> Zneg (Coq_Pos.mul x' y'))
    | Zneg x' ->
      (match y with
       | Z0 -> Z0
       | Zpos y' -> Zneg (Coq_Pos.mul x' y')
       | Zneg y' -> Zpos (Coq_Pos.mul x' y'))

  (** val compare : z -> z -> comparison **)

  let compare x y =
    match x with
    | Z0 -> (match y with
             | Z0 -> Eq
             | Zpos _ -> Lt
             | Zneg _ -> Gt)
    | Zpos x' -> (match y with
                  | Zpos y' -> Coq_Pos.compare x' y'
                  | _ -> Gt)
    | Zneg x' ->
      (match y with
       | Zneg y' -> compOpp (Coq_Pos.compare x' y')
       | _ -> Lt)

  (** val leb : z -> z -> bool **)

  let leb x y =
    match compare x y with
    | Gt -> false
    | _ -> true

  (** val ltb : z -> z -> bool **)

  let ltb x y =
    match compare x y with
    | Lt -> true
    | _ -> false

  (** val eqb : z -> z -> bool **)

  let eqb x y =
    match x with
    | Z0 -> (match y with
             | Z0 -> true
             | _ -> false)
    | Zpos p -> (match y with
                 | Zpos q -> Coq_Pos.eqb p q
                 | _ -> false)
    | Zneg p -> (match y with
                 | Zneg q -> Coq_Pos.eqb p q
                 | _ -> false)

  (** val to_N : z -> n **)

  let to_N = function
  | Zpos p -> Npos p
  | _ -> N0

  (** val of_N : n -> z **)

  let of_N = function
  | N0 -> Z0
  | Npos p -> Zpos p
 end

(** val piece_zobrist_tbl : n list **)

let piece_zobrist_tbl =
  (Npos (XO (XI (XO (XI (XI (XO (XI (XI (XI (XO (XI (XO (XI (XO (XI (XI (XO
    (XO (XI (XI (XI (XI (XO (XO (XO (XO (XO (XI (XO (XO (XO (XI (XO (XO (XI
    (XO (XI (XI (XO (XI (XI (XO (XI (XO (XI (XO (XI (XO (XI (XO (XI (XI (XO
    (XO (XI (XO (XI (XO (XI (XO (XO (XI (XO
    XH)))))))))))))))))))))))))))))))))))))))))))))))))))))))))))))))) :: ((Npos
    (XI (XO (XI (XO (XI (XI (XO (XO (XI (XO (XI (XO (XO (XO (XI (XO (XO (XO
    (XO (XI (XO (XO (XO (XI (XO (XI (XO (XI (XI (XI (XO (XI (XO (XO (XO (XI
    (XI (XO (XO (XI (XI (XO (XI (XI (XO (XI (XO (XI (XI (XO (XI (XI (XI (XO
    (XI (XO (XO (XO (XO (XI (XI (XI
    XH))))))))))))))))))))))))))))))))))))))))))))))))))))))))))))))) :: ((Npos
    (XO (XO (XO (XI (XO (XI (XO (XI (XO (XO (XI (XO (XI (XI (XI (XI (XI (XI
    (XI (XO (XO (XO (XO (XI (XI (XI (XI (XI (XO (XI (XI (XI (XI (XI (XO (XI
    (XI (XI (XO (XI (XI (XI (XI (XO (XI (XO (XI (XI (XI (XI (XO (XO (XI (XO
    (XO (XI (XI (XO (XO (XO (XI (XI (XO
    XH)))))))))))))))))))))))))))))))))))))))))))))))))))))))))))))))) :: ((Npos
    (XI (XI (XI (XI (XO (XI (XI (XI (XO (XI (XO (XO (XI (XO (XO (XO (XO (XO
    (XI (XI (XO (XI (XI (XI (XI (XI (XI (XO (XO (XI (XI (XI (XI (XO (XI (XI
    (XO (XO (XO (XO (XO (XI (XO (XO (XO (XO (XI (XI (XI (XI (XO (XO (XO (XO
    (XI (XO (XO (XI (XI (XI (XO (XI (XO
    XH)))))))))))))))))))))))))))))))))))))))))))))))))))))))))))))))) :: ((Npos
    (XO (XO (XI (XO (XI (XO (XI (XI (XO (XO (XI (XO (XI (XI (XO (XO (XO (XO
    (XO (XO (XO (XI (XI (XO (XO (XO (XO (XI (XI (XI (XO (XI (XO (XO (XO (XI
    (XO (XO (XO (XO (XI (XI (XO (XI (XO (XI (XO (XI (XO (XO (XO (XO (XI (XI
    (XI (XO (XO (XO (XI (XI (XI (XI (XO
    XH)))))))))))))))))))))))))))))))))))))))))))))))))))))))))))))))) :: ((Npos
    (XI (XO (XO (XI (XI (XI (XI (XI (XI (XI (XO (XI (XO (XO (XO (XO (XI (XO
    (XO (XO (XO (XO (XI (XO (XI (XI (XI (XI (XI (XO (XI (XI (XO (XI (XO (XI
    (XO (XI (XO (XO (XI (XO (XO (XI (XI (XO (XI (XI (XI (XO (XI (XO (XI (XO
    (XI (XI (XI (XI (XI (XI (XI
    XH)))))))))))))))))))))))))))))))))))))))))))))))))))))))))))))) :: ((Npos
    (XO (XI (XO (XI (XO (XI (XI (XI (XI (XI (XI (XO (XO (XI (XI (XO (XI (XO
    (XI (XI (XI (XO (XO (XI (XI (XI (XI (XO (XI (XI (XI (XO (XO (XI (XI (XO
    (XO (XO (XO (XI (XI (XI (XO (XO (XO (XO (XO (XI (XO (XI (XI (XO (XO (XI
    (XO (XO (XI (XO (XO (XI (XI (XO
    XH))))))))))))))))))))))))))))))))))))))))))))))))))))))))))))))) :: ((Npos
    (XI (XI (XI (XI (XO (XO (XO (XI (XO (XI (XO (XO (XO (XI (XO (XI (XI (XO
    (XI (XO (XO (XO (XO (XO (XI (XO (XI (XO (XO (XO (XI (XO (XO (XI (XI (XI
    (XO (XI (XO (XO (XO (XO (XI (XO (XI (XI (XO (XO (XI (XO (XO (XI (XO (XI
    (XI (XI (XO (XI (XI (XO (XI (XO (XO
    XH)))))))))))))))))))))))))))))))))))))))))))))))))))))))))))))))) :: ((Npos
    (XI (XI (XO (XO (XI (XO (XI (XO (XI (XO (XO (XI (XI (XO (XI (XI (XI (XI
    (XI (XO (XI (XI (XI (XI (XI (XO (XO (XO (XO (XI (XO (XI (XI (XO (XO (XO
    (XI (XI (XI (XO (XO (XO (XI (XO (XO (XI (XI (XO (XO (XI (XO (XO (XI (XO
    (XO (XI (XI (XO (XO (XO (XO (XO
    XH))))))))))))))))))))))))))))))))))))))))))))))))))))))))))))))) :: ((Npos
    (XO (XO (XO (XI (XO (XI (XI (XI (XO (XI (XO (XO (XO (XO (XI (XO (XI (XI
    (XI (XO (XI (XO (XI (XI (XI (XI (XI (XI (XI (XO (XI (XO (XI (XO (XO (XI
    (XO (XO (XO (XI (XI (XO (XI (XO (XO (XI (XO (XO (XI (XI (XI (XI (XO (XO
    (XO (XO (XI (XI (XI (XI (XO (XI (XO
    XH)))))))))))))))))))))))))))))))))))))))))))))))))))))))))))))))) :: ((Npos
    (XO (XI (XI (XI (XO (XO (XO (XO (XO (XO (XO (XI (XO (XO (XO (XO (XO (XO
    (XI (XO (XI (XO (XO (XO (XI (XO (XO (XO (XI (XO (XI (XO (XO (XI (XI (XI
    (XI (XI (XO (XO (XO (XI (XO (XO (XI (XO (XI (XO (XO (XO (XO (XO (XO (XO
    (XI (XO (XI (XO (XO (XO (XI (XO (XO
    XH)))))))))))))))))))))))))))))))))))))))))))))))))))))))))))))))) :: ((Npos
    (XO (XO (XO (XO (XO (XI (XI (XI (XI (XO (XI (XI (XI (XO (XO (XO (XO (XO
    (XI (XI (XI (XI (XI (XI (XI (XI (XO (XI (XI (XI (XO (XI (XI (XI (XI (XI
    (XO (XI (XO (XO (XO (XI (XI (XI (XO (XO (XI (XO (XI (XO (XO (XI (XO (XI
    (XI (XI (XI (XO (XI (XO (XO (XO
    XH))))))))))))))))))))))))))))))))))))))))))))))))))))))))))))))) :: ((Npos
    (XI (XI (XI (XO (XI (XI (XO (XO (XI (XI (XO (XI (XO (XO (XO (XI (XO (XI
    (XO (XI (XI (XI (XI (XI (XI (XI (XO (XI (XO (XI (XI (XI (XI (XI (XO (XI
    (XI (XI (XI (XI (XI (XO (XI (XO (XI (XI (XI (XO (XI (XI (XI (XO (XI (XI
    (XI (XO (XO (XO (XI (XO (XO (XO
    XH))))))))))))))))))))))))))))))))))))))))))))))))))))))))))))))) :: ((Npos
    (XO (XI (XO (XO (XI (XO (XO (XI (XI (XO (XO (XI (XO (XI (XO (XI (XO (XO
    (XI (XI (XI (XO (XO (XO (XI (XO (XO (XI (XO (XO (XO (XO (XO (XO (XO (XO
    (XO (XO (XI (XI (XI (XO (XI (XO (XI (XO (XO (XO (XI (XI (XO (XO (XI (XO
    (XI (XO (XI (XO (XO (XI (XO (XO (XI
    XH)))))))))))))))))))))))))))))))))))))))))))))))))))))))))))))))) :: ((Npos
    (XI (XI (XO (XO (XI (XI (XI (XI (XI (XI (XO (XI (XI (XO (XI (XI (XO (XO
    (XO (XI (XO (XI (XO (XO (XI (XO (XO (XO (XI (XO (XI (XO (XO (XO (XI (XO
    (XO (XO (XO (XI (XO (XO (XI (XI (XI (XI (XI (XI (XO (XO (XO (XO (XO (XO
    (XI (XO (XO (XO (XI (XO (XO (XI
    XH))))))))))))))))))))))))))))))))))))))))))))))))))))))))))))))) :: ((Npos
    (XO (XI (XO (XI (XI (XI (XI (XI (XI (XO (XI (XI (XO (XO (XI (XI (XI (XO
    (XO (XI (XO (XO (XO (XI (XO (XO (XO (XI (XI (XI (XO (XI (XI (XI (XO (XO
    (XI (XI (XO (XI (XO (XI (XI (XI (XI (XI (XI (XI (XO (XI (XI (XO (XI (XI
    (XO (XI (XO (XO (XO (XI (XI (XI (XI
    XH)))))))))))))))))))))))))))))))))))))))))))))))))))))))))))))))) :: ((Npos
    (XO (XO (XO (XI (XO (XO (XO (XO (XO (XI (XO (XO (XI (XO (XO (XI (XI (XO
    (XI (XI (XO (XO (XI (XO (XO (XI (XI (XO (XI (XI (XO (XI (XO (XO (XO (XI
    (XO (XO (XI (XI (XO (XI (XO (XI (XO (XI (XI (XO (XO (XI (XI (XO (XI (XI
    (XI (XO (XI (XO (XO (XI (XO (XI (XI
    XH)))))))))))))))))))))))))))))))))))))))))))))))))))))))))))))))) :: ((Npos
    (XO (XI (XO (XO (XI (XO (XO (XI (XI (XO (XO (XO (XO (XO (XO (XO (XO (XI
    (XI (XI (XI (XO (XI (XO (XI (XI (XO (XO (XI (XI (XO (XI (XO (XO (XI (XO
    (XO (XO (XI (XO (XI (XO (XI (XI (XO (XI (XI (XO (XI (XO (XI (XO (XO (XO
    (XO (XO (XO (XO (XO (XO (XO (XO (XO
    XH)))))))))))))))))))))))))))))))))))))))))))))))))))))))))))))))) :: ((Npos
    (XO (XO (XI (XO (XI (XI (XO (XI (XI (XI (XI (XO (XO (XI (XI (XO (XO (XI
    (XI (XI (XI (XO (XO (XI (XI (XI (XI (XO (XI (XI (XO (XI (XI (XO (XI (XI
    (XI (XO (XO (XO (XI (XI (XO (XI (XI (XI (XO (XO (XO (XO (XO (XI (XI (XI
    (XI (XO (XI (XO (XO (XO (XI (XO (XO
    XH)))))))))))))))))))))))))))))))))))))))))))))))))))))))))))))))) :: ((Npos
    (XO (XI (XO (XO (XO (XI (XI (XI (XI (XO (XI (XO (XO (XI (XO (XO (XI (XO
    (XO (XO (XO (XO (XI (XO (XO (XI (XI (XO (XO (XI (XI (XO (XI (XO (XI (XO
    (XO (XO (XO (XO (XO (XI (XI (XI (XO (XI (XI (XI (XO (XO (XI (XO (XO (XO
    (XI (XI (XO (XI (XO (XI (XI (XI (XO
    XH)))))))))))))))))))))))))))))))))))))))))))))))))))))))))))))))) :: ((Npos
    (XO (XO (XO (XO (XO (XO (XI (XO (XI (XO (XI (XI (XO (XO (XI (XI (XI (XI
    (XO (XI (XO (XI (XI (XO (XO (XI (XO (XO (XO (XO (XO (XO (XI (XI (XI (XO
    (XO (XI (XI (XI (XI (XO (XI (XI (XI (XI (XO (XI (XI (XO (XO (XO (XI (XO
    (XO (XO (XI (XO (XI (XI (XI (XO (XO
    XH)))))))))))))))))))))))))))))))))))))))))))))))))))))))))))))))) :: ((Npos
    (XO (XI (XI (XO (XI (XI (XI (XI (XO (XO (XO (XO (XO (XO (XO (XO (XO (XI
    (XO (XO (XI (XO (XO (XI (XO (XI (XO (XO (XO (XI (XI (XI (XI (XI (XI (XI
    (XI (XO (XO (XI (XI (XI (XI (XO (XI (XO (XI (XI (XO (XO (XO (XO (XO (XO
    (XI (XO (XI
    XH)))))))))))))))))))))))))))))))))))))))))))))))))))))))))) :: ((Npos
    (XI (XI (XO (XO (XI (XO (XI (XI (XO (XO (XO (XO (XO (XI (XI (XO (XO (XI
    (XO (XI (XI (XO (XI (XO (XI (XO (XO (XO (XO (XO (XI (XO (XI (XI (XO (XO
    (XI (XO (XI (XI (XO (XO (XI (XO (XO (XO (XI (XO (XI (XI (XI (XO (XI (XI
    (XO (XI (XO (XI (XI (XO (XO (XO
    XH))))))))))))))))))))))))))))))))))))))))))))))))))))))))))))))) :: ((Npos
    (XI (XO (XI (XO (XO (XO (XO (XO (XI (XI (XO (XO (XI (XI (XO (XI (XO (XI
    (XO (XO (XI (XO (XI (XO (XO (XO (XI (XI (XI (XI (XI (XO (XO (XI (XO (XI
    (XO (XI (XI (XI (XO (XI (XI (XO (XO (XI (XI (XI (XI (XI (XI (XO (XI (XI
    (XO (XO (XI (XO (XO
    XH)))))))))))))))))))))))))))))))))))))))))))))))))))))))))))) :: ((Npos
    (XO (XI (XO (XI (XI (XO (XI (XI (XI (XO (XO (XO (XO (XO (XI (XO (XO (XI
    (XO (XI (XO (XO (XI (XI (XO (XI (XI (XI (XI (XO (XI (XI (XO (XO (XO (XI
    (XO (XO (XO (XO (XO (XI (XO (XO (XI (XI (XI (XI (XI (XO (XI (XO (XI (XI
    (XI (XI (XI (XI (XO (XI (XO (XO (XO
    XH)))))))))))))))))))))))))))))))))))))))))))))))))))))))))))))))) :: ((Npos
    (XI (XO (XO (XI (XI (XO (XI (XI (XI (XO (XI (XI (XO (XI (XI (XO (XO (XI
    (XI (XI (XO (XI (XO (XO (XO (XO (XI (XI (XO (XO (XI (XO (XI (XO (XO (XI
    (XI (XO (XI (XO (XO (XI (XO (XO (XI (XI (XI (XO (XO (XI (XI (XI (XI (XI
    (XI (XO (XO (XO
    XH))))))))))))))))))))))))))))))))))))))))))))))))))))))))))) :: ((Npos
    (XI (XO (XO (XI (XO (XI (XI (XO (XI (XI (XI (XO (XO (XI (XO (XO (XO (XO
    (XO (XO (XO (XI (XI (XO (XO (XI (XO (XI (XO (XI (XI (XO (XO (XI (XO (XO
    (XO (XI (XI (XI (XI (XO (XO (XI (XO (XO (XO (XI (XO (XI (XI (XO (XO (XO
    (XO (XI (XO (XI (XI (XO (XO (XO (XI
    XH)))))))))))))))))))))))))))))))))))))))))))))))))))))))))))))))) :: ((Npos
    (XI (XO (XI (XO (XI (XI (XO (XI (XI (XI (XI (XI (XO (XO (XI (XO (XO (XI
    (XO (XO (XI (XO (XI (XO (XO (XO (XO (XI (XI (XI (XO (XI (XI (XI (XI (XO
    (XO (XI (XO (XO (XO (XO (XI (XI (XO (XO (XO (XO (XI (XI (XI (XI (XO (XO
    (XI (XI (XI (XO (XO (XO (XI (XI
    XH))))))))))))))))))))))))))))))))))))))))))))))))))))))))))))))) :: ((Npos
    (XO (XI (XI (XI (XO (XI (XO (XO (XO (XO (XO (XO (XI (XI (XO (XO (XO (XI
    (XO (XI (XO (XI (XO (XI (XI (XO (XI (XI (XI (XI (XI (XI (XO (XI (XO (XO
    (XO (XO (XI (XO (XI (XI (XI (XI (XO (XI (XO (XO (XI (XO (XI (XO (XO (XI
    (XO (XO (XO (XI (XI (XI (XI (XI
    XH))))))))))))))))))))))))))))))))))))))))))))))))))))))))))))))) :: ((Npos
    (XO (XI (XI (XO (XO (XI (XO (XI (XI (XO (XO (XO (XO (XI (XI (XI (XO (XO
    (XI (XI (XO (XO (XO (XO (XI (XO (XO (XO (XI (XO (XO (XI (XI (XO (XO (XO
    (XO (XO (XO (XO (XI (XI (XO (XO (XO (XO (XO (XO (XI (XO (XO (XO (XI (XO
    (XO (XO (XI (XO (XI (XO (XI (XI (XI
    XH)))))))))))))))))))))))))))))))))))))))))))))))))))))))))))))))) :: ((Npos
    (XO (XO (XO (XO (XI (XI (XO (XO (XO (XO (XI (XO (XI (XO (XO (XI (XI (XI
    (XO (XO (XI (XO (XO (XO (XO (XO (XO (XO (XI (XI (XO (XI (XO (XO (XI (XI
    (XI (XI (XO (XI (XO (XI (XI (XO (XO (XI (XI (XO (XO (XI (XI (XI (XO (XI
    (XI (XI (XI (XI (XO (XO (XO (XO (XI
    XH)))))))))))))))))))))))))))))))))))))))))))))))))))))))))))))))) :: ((Npos
    (XO (XI (XI (XO (XO (XI (XO (XO (XI (XI (XO (XO (XO (XO (XI (XO (XO (XO
    (XO (XI (XO (XO (XO (XO (XO (XO (XO (XO (XO (XI (XO (XI (XO (XI (XO (XI
    (XO (XI (XI (XO (XI (XO (XO (XO (XI (XO (XI (XO (XO (XI (XI (XO (XO (XI
    (XI (XI (XO (XI (XI (XI (XI (XO
    XH))))))))))))))))))))))))))))))))))))))))))))))))))))))))))))))) :: ((Npos
    (XO (XO (XI (XI (XI (XI (XI (XI (XI (XO (XI (XI (XO (XI (XO (XI (XI (XI
    (XO (XO (XO (XO (XO (XO (XI (XO (XI (XI (XI (XO (XO (XI (XI (XO (XI (XO
    (XO (XI (XO (XI (XI (XI (XO (XI (XI (XI (XO (XO (XO (XO (XI (XI (XI (XO
    (XI (XO (XI (XO (XO (XO (XI (XO (XO
    XH)))))))))))))))))))))))))))))))))))))))))))))))))))))))))))))))) :: ((Npos
    (XO (XI (XI (XO (XI (XO (XI (XI (XI (XO (XI (XI (XO (XI (XO (XI (XI (XI
    (XO (XO (XI (XI (XI (XO (XO (XI (XO (XI (XI (XI (XI (XO (XI (XO (XI (XO
    (XI (XI (XO (XI (XO (XI (XO (XI (XO (XI (XO (XO (XO (XO (XO (XI (XO (XO
    (XI (XI (XI (XO (XO (XO (XI (XI (XI
    XH)))))))))))))))))))))))))))))))))))))))))))))))))))))))))))))))) :: ((Npos
    (XI (XI (XI (XO (XI (XO (XO (XO (XI (XO (XO (XO (XI (XI (XI (XI (XO (XO
    (XO (XI (XO (XI (XO (XI (XI (XI (XI (XI (XO (XI (XI (XO (XI (XI (XI (XO
    (XO (XI (XI (XI (XO (XO (XI (XI (XO (XO (XO (XI (XO (XI (XI (XI (XO (XO
    (XO (XO (XI (XI (XI (XI (XI (XO (XI
    XH)))))))))))))))))))))))))))))))))))))))))))))))))))))))))))))))) :: ((Npos
    (XO (XI (XO (XI (XO (XI (XI (XI (XO (XI (XO (XI (XO (XO (XI (XO (XO (XI
    (XI (XI (XI (XO (XI (XO (XI (XO (XO (XI (XO (XI (XO (XI (XI (XO (XO (XI
    (XI (XI (XI (XO (XI (XI (XO (XO (XI (XO (XO (XI (XI (XI (XI (XO (XO (XO
    (XO (XI (XO (XO (XO (XO (XI (XO (XI
    XH)))))))))))))))))))))))))))))))))))))))))))))))))))))))))))))))) :: ((Npos
    (XO (XO (XO (XO (XI (XI (XI (XO (XO (XO (XI (XO (XI (XO (XO (XI (XO (XI
    (XI (XI (XO (XO (XI (XI (XO (XI (XI (XI (XO (XI (XO (XO (XO (XI (XI (XO
    (XO (XI (XO (XO (XO (XO (XI (XO (XI (XI (XO (XO (XO (XO (XO (XI (XO (XI
    (XI (XI (XI (XO (XO (XI (XO (XI (XI
    XH)))))))))))))))))))))))))))))))))))))))))))))))))))))))))))))))) :: ((Npos
    (XI (XI (XI (XO (XI (XI (XI (XI (XI (XI (XO (XO (XI (XO (XO (XO (XO (XI
    (XO (XO (XO (XO (XI (XI (XO (XI (XI (XO (XI (XI (XI (XO (XI (XO (XO (XO
    (XI (XI (XI (XI (XI (XO (XI (XO (XO (XI (XI (XO (XI (XI (XI (XO (XI (XI
    (XO (XO (XO (XO (XI (XI (XI
    XH)))))))))))))))))))))))))))))))))))))))))))))))))))))))))))))) :: ((Npos
    (XO (XO (XI (XO (XO (XO (XI (XO (XI (XO (XO (XO (XO (XO (XO (XI (XI (XI
    (XO (XI (XI (XO (XI (XO (XI (XI (XI (XO (XO (XI (XO (XO (XI (XO (XI (XO
    (XO (XO (XI (XI (XO (XO (XO (XI (XO (XO (XI (XI (XO (XO (XI (XO (XO (XO
    (XI (XO (XO (XI (XI (XI (XO (XI
    XH))))))))))))))))))))))))))))))))))))))))))))))))))))))))))))))) :: ((Npos
    (XI (XO (XI (XO (XO (XI (XO (XI (XO (XI (XO (XO (XO (XO (XI (XO (XO (XI
    (XI (XO (XI (XO (XO (XI (XI (XO (XI (XI (XI (XO (XI (XI (XI (XI (XI (XO
    (XI (XI (XI (XI (XI (XI (XI (XO (XI (XI (XI (XO (XO (XO (XO (XO (XI (XO
    (XO (XO (XI (XO (XI (XO (XI
    XH)))))))))))))))))))))))))))))))))))))))))))))))))))))))))))))) :: ((Npos
    (XO (XI (XI (XO (XI (XO (XO (XO (XI (XO (XO (XI (XI (XO (XO (XI (XO (XO
    (XI (XI (XI (XO (XI (XO (XO (XO (XO (XI (XI (XI (XI (XI (XI (XO (XO (XI
    (XO (XO (XO (XI (XI (XO (XO (XI (XO (XO (XI (XO (XI (XI (XO (XI (XO (XO
    (XO (XO (XI (XI (XI (XO (XO (XI (XO
    XH)))))))))))))))))))))))))))))))))))))))))))))))))))))))))))))))) :: ((Npos
    (XO (XO (XI (XO (XI (XO (XI (XO (XO (XO (XI (XI (XI (XO (XI (XO (XI (XO
    (XO (XO (XO (XI (XO (XI (XO (XI (XI (XI (XI (XI (XO (XI (XO (XO (XO (XI
    (XI (XI (XO (XI (XI (XO (XO (XO (XI (XI (XI (XO (XI (XI (XO (XI (XO (XO
    (XO (XI (XI (XO (XO (XI (XI
    XH)))))))))))))))))))))))))))))))))))))))))))))))))))))))))))))) :: ((Npos
    (XO (XO (XO (XO (XI (XO (XI (XO (XI (XO (XO (XI (XO (XI (XI (XO (XI (XO
    (XI (XO (XI (XI (XI (XO (XO (XI (XI (XI (XI (XO (XI (XO (XO (XO (XI (XI
    (XO (XO (XO (XI (XI (XO (XI (XO (XI (XO (XO (XO (XO (XO (XO (XO (XO (XI
    (XO (XI (XI (XO (XO (XI (XO (XI (XO
    XH)))))))))))))))))))))))))))))))))))))))))))))))))))))))))))))))) :: ((Npos
    (XO (XI (XI (XO (XO (XI (XI (XI (XI (XI (XO (XO (XO (XI (XO (XO (XO (XO
    (XI (XI (XO (XI (XO (XI (XO (XO (XI (XI (XI (XO (XO (XI (XI (XI (XI (XO
    (XI (XO (XI (XO (XO (XO (XO (XI (XO (XO (XI (XO (XI (XO (XI (XI (XO (XI
    (XO (XO (XO (XI (XI (XI
    XH))))))))))))))))))))))))))))))))))))))))))))))))))))))))))))) :: ((Npos
    (XO (XI (XI (XI (XO (XI (XO (XI (XI (XO (XI (XI (XI (XI (XO (XI (XI (XO
    (XI (XO (XI (XO (XO (XI (XO (XI (XI (XI (XO (XO (XO (XO (XI (XI (XO (XO
    (XO (XI (XI (XI (XO (XI (XI (XO (XI (XI (XO (XO (XO (XO (XI (XO (XI (XO
    (XO (XI (XI (XI (XI (XO (XI (XO
    XH))))))))))))))))))))))))))))))))))))))))))))))))))))))))))))))) :: ((Npos
    (XI (XO (XI (XI (XI (XI (XO (XO (XO (XI (XO (XI (XO (XI (XI (XO (XO (XI
    (XO (XI (XO (XI (XI (XI (XO (XO (XO (XO (XO (XO (XO (XI (XO (XO (XO (XI
    (XO (XO (XO (XO (XI (XI (XI (XO (XI (XO (XO (XI (XO (XI (XO (XI (XO (XI
    (XI (XI (XI (XO (XI (XI
    XH))))))))))))))))))))))))))))))))))))))))))))))))))))))))))))) :: ((Npos
    (XO (XO (XO (XI (XO (XO (XI (XO (XI (XI (XO (XO (XI (XI (XO (XI (XO (XO
    (XI (XI (XO (XO (XI (XO (XO (XO (XO (XO (XO (XI (XI (XI (XI (XI (XO (XO
    (XI (XI (XI (XO (XO (XI (XO (XO (XO (XO (XI (XO (XO (XI (XO (XO (XO (XI
    (XO (XI (XI (XI (XI (XI (XI (XI
    XH))))))))))))))))))))))))))))))))))))))))))))))))))))))))))))))) :: ((Npos
    (XI (XI (XI (XO (XI (XI (XI (XO (XI (XO (XO (XI (XO (XI (XO (XO (XI (XI
    (XI (XI (XO (XO (XO (XI (XO (XO (XO (XI (XO (XI (XO (XI (XO (XO (XI (XO
    (XO (XI (XO (XO (XI (XI (XI (XI (XO (XI (XO (XI (XO (XI (XO (XI (XO (XI
    (XI (XO (XO (XO
    XH))))))))))))))))))))))))))))))))))))))))))))))))))))))))))) :: ((Npos
    (XI (XO (XI (XO (XO (XI (XI (XI (XI (XO (XO (XI (XO (XO (XI (XI (XO (XI
    (XO (XO (XI (XO (XI (XI (XI (XI (XO (XO (XO (XI (XI (XO (XO (XO (XI (XO
    (XI (XO (XI (XI (XI (XI (XI (XO (XO (XI (XI (XI (XI (XO (XO (XI (XO (XI
    (XO (XI (XO (XO (XO (XI (XO (XI (XO
    XH)))))))))))))))))))))))))))))))))))))))))))))))))))))))))))))))) :: ((Npos
    (XI (XO (XO (XI (XI (XI (XO (XI (XO (XO (XI (XO (XI (XO (XI (XO (XI (XO
    (XO (XI (XO (XO (XI (XI (XI (XO (XO (XI (XI (XI (XI (XI (XO (XO (XI (XO
    (XO (XI (XI (XO (XO (XO (XI (XO (XO (XO (XO (XI (XO (XO (XI (XI (XI (XI
    (XI (XO (XO (XI (XI (XO (XO (XI (XO
    XH)))))))))))))))))))))))))))))))))))))))))))))))))))))))))))))))) :: ((Npos
    (XI (XI (XI (XI (XO (XO (XO (XI (XI (XI (XO (XI (XI (XI (XO (XI (XO (XI
    (XI (XI (XI (XI (XI (XI (XI (XI (XO (XO (XO (XO (XO (XO (XI (XI (XO (XO
    (XI (XO (XI (XI (XO (XO (XI (XI (XI (XO (XO (XI (XO (XO (XO (XO (XO (XO
    (XO (XO (XO (XI (XO (XO (XI (XO
    XH))))))))))))))))))))))))))))))))))))))))))))))))))))))))))))))) :: ((Npos
    (XI (XO (XO (XI (XI (XO (XO (XO (XO (XO (XO (XO (XI (XI (XI (XI (XO (XO
    (XO (XI (XO (XO (XO (XO (XI (XO (XI (XI (XO (XI (XI (XO (XI (XO (XO (XI
    (XO (XI (XO (XO (XI (XO (XO (XI (XO (XI (XI (XO (XO (XO (XO (XO (XI (XO
    (XO (XO (XO (XO (XI (XO (XI (XO
    XH))))))))))))))))))))))))))))))))))))))))))))))))))))))))))))))) :: ((Npos
    (XO (XI (XO (XO (XO (XO (XI (XI (XO (XO (XI (XO (XO (XI (XO (XI (XO (XI
    (XI (XI (XI (XI (XO (XO (XO (XO (XO (XI (XO (XI (XI (XO (XO (XI (XI (XI
    (XO (XO (XO (XI (XI (XI (XO (XI (XO (XI (XI (XI (XO (XO (XI (XO (XO (XO
    (XO (XO (XO (XO (XI (XI (XO (XO (XO
    XH)))))))))))))))))))))))))))))))))))))))))))))))))))))))))))))))) :: ((Npos
    (XO (XO (XO (XI (XO (XI (XI (XO (XO (XI (XO (XI (XI (XO (XO (XI (XO (XI
    (XO (XI (XO (XO (XO (XO (XO (XO (XO (XI (XI (XO (XI (XO (XI (XO (XO (XI
    (XO (XO (XI (XI (XO (XO (XO (XO (XI (XO (XO (XO (XI (XI (XO (XO (XO (XI
    (XI (XI (XO (XI (XI (XI (XO (XO
    XH))))))))))))))))))))))))))))))))))))))))))))))))))))))))))))))) :: ((Npos
    (XO (XO (XO (XI (XO (XI (XO (XO (XI (XO (XO (XI (XI (XO (XI (XI (XO (XO
    (XO (XO (XI (XI (XO (XI (XI (XI (XO (XO (XI (XO (XO (XO (XO (XI (XI (XI
    (XI (XO (XO (XO (XO (XI (XI (XI (XO (XI (XI (XO (XO (XI (XI (XI (XI (XI
    (XO (XO (XI (XI (XI (XO
    XH))))))))))))))))))))))))))))))))))))))))))))))))))))))))))))) :: ((Npos
    (XO (XI (XI (XI (XI (XI (XI (XI (XI (XI (XI (XO (XO (XI (XI (XO (XO (XI
    (XO (XO (XO (XO (XO (XO (XO (XO (XI (XI (XI (XO (XO (XO (XI (XO (XI (XO
    (XI (XO (XI (XI (XO (XO (XI (XI (XO (XO (XO (XI (XO (XO (XO (XI (XI (XI
    (XO (XI (XI (XI (XI (XO (XO (XO (XO
    XH)))))))))))))))))))))))))))))))))))))))))))))))))))))))))))))))) :: ((Npos
    (XI (XO (XI (XI (XI (XO (XI (XO (XI (XI (XO (XI (XO (XI (XO (XO (XO (XI
    (XI (XI (XO (XI (XO (XO (XI (XI (XI (XI (XO (XI (XO (XI (XO (XO (XI (XI
    (XO (XI (XO (XO (XO (XI (XI (XI (XI (XI (XI (XI (XI (XO (XO (XO (XO (XI
    (XO (XI (XI (XI (XO (XI (XO (XO
    XH))))))))))))))))))))))))))))))))))))))))))))))))))))))))))))))) :: ((Npos
    (XO (XO (XI (XI (XO (XI (XO (XI (XO (XO (XI (XI (XI (XI (XO (XI (XI (XI
    (XO (XO (XI (XO (XO (XI (XO (XI (XO (XI (XO (XI (XI (XO (XI (XI (XO (XO
    (XI (XO (XI (XI (XO (XO (XI (XI (XO (XI (XO (XO (XO (XI (XI (XI (XO (XO
    (XI (XI (XI (XO (XI (XI (XI (XO
    XH))))))))))))))))))))))))))))))))))))))))))))))))))))))))))))))) :: ((Npos
    (XI (XI (XO (XI (XI (XI (XO (XO (XO (XI (XO (XO (XO (XI (XI (XI (XO (XI
    (XI (XI (XO (XO (XO (XO (XI (XO (XI (XO (XO (XI (XI (XO (XI (XI (XI (XI
    (XI (XO (XO (XO (XO (XO (XO (XI (XO (XO (XO (XI (XO (XO (XI (XI (XI (XI
    (XI (XO (XI (XI (XO (XI (XO (XO
    XH))))))))))))))))))))))))))))))))))))))))))))))))))))))))))))))) :: ((Npos
    (XO (XO (XO (XI (XI (XO (XO (XI (XO (XO (XI (XI (XO (XO (XI (XI (XO (XI
    (XO (XI (XO (XI (XI (XI (XO (XI (XI (XI (XO (XI (XI (XI (XI (XO (XI (XI
    (XI (XI (XO (XO (XO (XO (XI (XO (XI (XO (XI (XO (XI (XI (XO (XI (XI (XI
    (XO (XI (XI (XI (XI (XO (XO (XO (XI
    XH)))))))))))))))))))))))))))))))))))))))))))))))))))))))))))))))) :: ((Npos
    (XI (XO (XO (XO (XO (XO (XI (XI (XO (XI (XI (XI (XI (XI (XI (XI (XO (XO
    (XI (XI (XI (XO (XO (XI (XI (XI (XO (XI (XI (XI (XO (XO (XO (XO (XO (XO
    (XI (XI (XO (XO (XI (XO (XI (XO (XI (XO (XI (XO (XO (XI (XO (XI (XO (XI
    (XO (XO (XO (XO (XI (XO (XO (XO (XO
    XH)))))))))))))))))))))))))))))))))))))))))))))))))))))))))))))))) :: ((Npos
    (XO (XO (XI (XO (XI (XO (XO (XO (XI (XO (XI (XI (XI (XO (XO (XO (XO (XI
    (XI (XO (XO (XO (XO (XI (XI (XI (XI (XO (XI (XO (XO (XI (XO (XO (XI (XO
    (XO (XO (XO (XO (XI (XO (XO (XO (XI (XI (XI (XO (XO (XI (XI (XO (XO (XI
    (XO (XI (XO (XO
    XH))))))))))))))))))))))))))))))))))))))))))))))))))))))))))) :: ((Npos
    (XI (XI (XI (XO (XI (XO (XO (XI (XI (XO (XO (XO (XI (XO (XI (XI (XI (XI
    (XI (XO (XI (XO (XI (XO (XI (XI (XO (XI (XI (XI (XI (XI (XI (XO (XI (XO
    (XI (XO (XO (XI (XO (XI (XI (XO (XO (XI (XI (XI (XI (XO (XI (XO (XI (XI
    (XI (XI (XO (XI (XI (XO (XI (XI (XO
    XH)))))))))))))))))))))))))))))))))))))))))))))))))))))))))))))))) :: ((Npos
    (XO (XO (XI (XI (XO (XO (XO (XI (XO (XO (XI (XI (XI (XO (XI (XO (XI (XO
    (XO (XI (XO (XO (XI (XI (XI (XO (XI (XI (XI (XO (XI (XO (XI (XI (XO (XO
    (XO (XI (XI (XO (XO (XO (XI (XI (XI (XI (XO (XI (XI (XI (XO (XO (XI (XO
    (XO (XO (XO (XO (XO (XI (XI (XI
    XH))))))))))))))))))))))))))))))))))))))))))))))))))))))))))))))) :: ((Npos
    (XO (XI (XO (XO (XO (XO (XO (XO (XO (XI (XO (XI (XO (XI (XO (XO (XO (XI
    (XO (XO (XO (XO (XI (XO (XI (XI (XO (XI (XO (XO (XO (XI (XI (XO (XI (XO
    (XI (XO (XO (XO (XI (XI (XO (XI (XI (XO (XO (XI (XO (XO (XO (XI (XO (XI
    (XO (XI (XO (XI (XI (XO (XI (XO (XI
    XH)))))))))))))))))))))))))))))))))))))))))))))))))))))))))))))))) :: ((Npos
    (XO (XI (XI (XO (XO (XO (XI (XI (XO (XI (XO (XO (XO (XI (XI (XI (XI (XI
    (XO (XI (XO (XO (XI (XI (XO (XI (XI (XO (XO (XI (XO (XI (XO (XI (XO (XI
    (XI (XO (XO (XO (XI (XI (XI (XI (XO (XO (XO (XI (XO (XI (XI (XI (XO (XI
    (XI (XO (XI (XO (XI (XI (XI (XI (XI
    XH)))))))))))))))))))))))))))))))))))))))))))))))))))))))))))))))) :: ((Npos
    (XI (XO (XI (XO (XO (XO (XO (XO (XI (XI (XI (XI (XO (XO (XI (XI (XI (XO
    (XO (XO (XO (XI (XI (XO (XI (XO (XI (XO (XO (XO (XI (XO (XI (XI (XI (XO
    (XI (XI (XO (XO (XI (XO (XI (XI (XO (XO (XO (XO (XI (XI (XO (XI (XI (XI
    (XI (XI (XI (XI (XI (XO (XI (XO (XI
    XH)))))))))))))))))))))))))))))))))))))))))))))))))))))))))))))))) :: ((Npos
    (XO (XO (XO (XI (XI (XI (XI (XO (XO (XI (XO (XO (XO (XO (XO (XO (XI (XO
    (XO (XI (XO (XO (XI (XI (XI (XO (XI (XO (XI (XI (XI (XO (XO (XI (XO (XI
    (XI (XI (XI (XO (XI (XO (XI (XO (XI (XO (XO (XO (XI (XI (XI (XO (XO (XI
    (XI (XO (XI (XI (XO (XI (XI
    XH)))))))))))))))))))))))))))))))))))))))))))))))))))))))))))))) :: ((Npos
    (XO (XI (XO (XI (XI (XO (XO (XO (XI (XO (XO (XO (XO (XI (XI (XO (XO (XI
    (XI (XI (XI (XO (XO (XO (XI (XO (XI (XI (XI (XO (XI (XI (XI (XI (XI (XI
    (XO (XO (XI (XO (XI (XI (XI (XO (XI (XI (XI (XI (XI (XO (XO (XO (XO (XO
    (XI (XO (XO (XO (XI (XO (XI (XI (XI
    XH)))))))))))))))))))))))))))))))))))))))))))))))))))))))))))))))) :: ((Npos
    (XI (XO (XO (XI (XO (XI (XI (XI (XI (XO (XI (XO (XO (XI (XO (XO (XI (XI
    (XO (XI (XO (XO (XO (XO (XI (XO (XI (XI (XO (XI (XI (XI (XO (XO (XI (XO
    (XI (XI (XI (XO (XO (XO (XO (XI (XO (XO (XO (XO (XI (XO (XI (XO (XI (XI
    (XI (XI (XO (XO (XI (XI (XI (XO
    XH))))))))))))))))))))))))))))))))))))))))))))))))))))))))))))))) :: ((Npos
    (XO (XO (XO (XO (XO (XI (XO (XO (XO (XO (XO (XI (XI (XO (XO (XI (XI (XI
    (XO (XO (XO (XO (XO (XI (XO (XO (XO (XO (XO (XI (XI (XI (XO (XO (XO (XI
    (XI (XI (XO (XO (XO (XI (XI (XO (XI (XO (XO (XI (XI (XI (XI (XI (XI (XO
    (XO (XI (XI (XO (XO (XO
    XH))))))))))))))))))))))))))))))))))))))))))))))))))))))))))))) :: ((Npos
    (XO (XO (XI (XI (XO (XI (XO (XO (XO (XI (XI (XI (XI (XO (XO (XI (XO (XI
    (XI (XI (XI (XI (XO (XI (XO (XO (XO (XO (XI (XO (XO (XO (XO (XO (XO (XI
    (XO (XI (XO (XO (XI (XI (XI (XI (XO (XI (XI (XI (XI (XI (XO (XI (XO (XI
    (XI (XO (XO (XO (XI (XI (XI (XI (XO
    XH)))))))))))))))))))))))))))))))))))))))))))))))))))))))))))))))) :: ((Npos
    (XO (XO (XO (XO (XI (XI (XI (XO (XO (XO (XI (XO (XI (XI (XO (XO (XI (XI
    (XI (XO (XI (XI (XO (XO (XI (XO (XI (XO (XO (XI (XI (XI (XO (XI (XI (XI
    (XI (XI (XI (XI (XI (XO (XI (XO (XI (XI (XO (XI (XI (XO (XO (XO (XI (XO
    (XO (XI (XO (XI (XI (XI (XO (XI (XI
    XH)))))))))))))))))))))))))))))))))))))))))))))))))))))))))))))))) :: ((Npos
    (XO (XI (XI (XI (XO (XI (XO (XO (XO (XO (XO (XO (XO (XO (XI (XI (XO (XI
    (XO (XI (XI (XI (XO (XI (XI (XI (XI (XI (XO (XO (XI (XI (XI (XI (XI (XI
    (XI (XO (XO (XI (XI (XI (XO (XO (XI (XI (XI (XO (XI (XO (XI (XO (XI (XO
    (XI (XO (XI (XO (XI
    XH)))))))))))))))))))))))))))))))))))))))))))))))))))))))))))) :: ((Npos
    (XO (XO (XO (XI (XO (XI (XI (XI (XO (XI (XO (XI (XO (XI (XO (XI (XI (XI
    (XO (XI (XO (XI (XI (XI (XO (XI (XI (XI (XO (XI (XI (XI (XI (XI (XO (XO
    (XO (XO (XO (XI (XO (XO (XO (XI (XO (XO (XO (XO (XI (XO (XI (XO (XI (XO
    (XO (XO (XO (XI (XI (XO (XI (XI
    XH))))))))))))))))))))))))))))))))))))))))))))))))))))))))))))))) :: ((Npos
    (XO (XO (XO (XO (XO (XI (XO (XI (XO (XI (XI (XI (XI (XI (XO (XI (XI (XO
    (XO (XI (XI (XI (XI (XO (XI (XI (XO (XI (XI (XO (XI (XI (XI (XI (XO (XO
    (XO (XO (XO (XI (XO (XO (XI (XI (XI (XI (XI (XI (XO (XO (XO (XO (XI (XO
    (XI (XO (XO (XI (XO (XI (XO (XI
    XH))))))))))))))))))))))))))))))))))))))))))))))))))))))))))))))) :: ((Npos
    (XI (XO (XO (XI (XO (XI (XO (XO (XO (XI (XO (XO (XI (XI (XI (XO (XO (XO
    (XO (XI (XI (XO (XO (XO (XI (XI (XI (XI (XO (XI (XO (XO (XI (XI (XI (XI
    (XI (XO (XI (XI (XI (XI (XI (XI (XI (XI (XI (XO (XI (XI (XO (XO (XI (XI
    (XI (XI (XI (XO (XO (XI (XI (XO (XI
    XH)))))))))))))))))))))))))))))))))))))))))))))))))))))))))))))))) :: ((Npos
    (XI (XI (XI (XI (XO (XO (XI (XI (XO (XO (XI (XI (XI (XI (XO (XO (XO (XO
    (XO (XI (XI (XO (XO (XO (XI (XI (XO (XO (XI (XO (XI (XI (XO (XI (XO (XO
    (XI (XO (XI (XO (XI (XI (XI (XO (XI (XO (XO (XI (XO (XO (XO (XI (XO (XI
    (XI (XI (XI (XI (XO (XO (XO (XI
    XH))))))))))))))))))))))))))))))))))))))))))))))))))))))))))))))) :: ((Npos
    (XI (XO (XI (XO (XO (XO (XI (XI (XI (XI (XI (XI (XO (XO (XO (XO (XI (XI
    (XI (XI (XI (XI (XI (XI (XO (XI (XI (XO (XI (XO (XO (XO (XO (XO (XI (XO
    (XO (XI (XO (XI (XI (XO (XO (XO (XO (XO (XI (XI (XO (XO (XO (XO (XI (XI
    (XI (XO (XI (XI (XO (XO (XI (XO
    XH))))))))))))))))))))))))))))))))))))))))))))))))))))))))))))))) :: ((Npos
    (XO (XO (XO (XI (XO (XI (XI (XI (XI (XI (XI (XO (XI (XO (XO (XO (XI (XO
    (XO (XI (XI (XI (XI (XI (XO (XO (XO (XI (XI (XI (XO (XO (XO (XO (XO (XI
    (XI (XI (XI (XO (XO (XI (XI (XI (XI (XO (XI (XO (XO (XO (XO (XO (XI (XO
    (XI (XO (XI (XI (XO (XO (XO (XI (XI
    XH)))))))))))))))))))))))))))))))))))))))))))))))))))))))))))))))) :: ((Npos
    (XI (XO (XO (XI (XO (XO (XI (XO (XI (XO (XI (XI (XO (XI (XI (XI (XO (XI
    (XI (XI (XI (XI (XO (XI (XO (XI (XI (XO (XI (XO (XI (XO (XI (XO (XI (XO
    (XO (XI (XO (XI (XO (XO (XI (XI (XI (XO (XO (XI (XI (XO (XO (XO (XI (XI
    (XI (XO (XO (XO (XI (XO (XO (XI (XI
    XH)))))))))))))))))))))))))))))))))))))))))))))))))))))))))))))))) :: ((Npos
    (XI (XO (XO (XO (XI (XO (XO (XO (XO (XI (XO (XI (XI (XI (XI (XI (XI (XO
    (XI (XO (XI (XI (XO (XO (XO (XI (XI (XI (XI (XI (XI (XO (XO (XI (XO (XO
    (XI (XO (XO (XO (XI (XI (XI (XO (XI (XI (XO (XI (XI (XO (XO (XO (XO (XI
    (XI (XI (XI (XO (XI (XO (XO (XI (XO
    XH)))))))))))))))))))))))))))))))))))))))))))))))))))))))))))))))) :: ((Npos
    (XO (XO (XI (XI (XO (XI (XI (XO (XI (XO (XI (XO (XO (XI (XI (XI (XI (XI
    (XI (XO (XI (XO (XO (XI (XO (XO (XI (XI (XI (XO (XI (XI (XO (XI (XO (XI
    (XI (XO (XI (XI (XI (XI (XI (XO (XO (XO (XO (XI (XO (XI (XO (XI (XI (XI
    (XO (XO (XI (XI (XO (XO (XI (XO (XO
    XH)))))))))))))))))))))))))))))))))))))))))))))))))))))))))))))))) :: ((Npos
    (XI (XI (XO (XO (XO (XO (XI (XO (XI (XO (XI (XO (XO (XI (XI (XI (XI (XO
    (XI (XI (XI (XO (XO (XO (XO (XI (XI (XI (XI (XO (XO (XO (XO (XO (XI (XI
    (XI (XO (XI (XI (XO (XO (XO (XO (XI (XO (XI (XI (XI (XI (XI (XO (XI (XO
    (XO (XO (XI (XI (XI (XI (XO (XI
    XH))))))))))))))))))))))))))))))))))))))))))))))))))))))))))))))) :: ((Npos
    (XI (XO (XO (XO (XO (XO (XO (XI (XI (XI (XI (XI (XO (XI (XI (XI (XO (XI
    (XO (XI (XI (XO (XI (XI (XI (XI (XI (XI (XI (XI (XO (XI (XI (XO (XO (XI
    (XO (XI (XI (XO (XI (XO (XI (XO (XO (XO (XO (XI (XI (XI (XO (XO (XO (XO
    (XO (XO (XI (XI (XO (XO
    XH))))))))))))))))))))))))))))))))))))))))))))))))))))))))))))) :: ((Npos
    (XO (XO (XO (XI (XI (XO (XI (XO (XI (XI (XI (XI (XI (XO (XO (XI (XI (XO
    (XI (XO (XO (XO (XI (XO (XO (XO (XI (XO (XO (XI (XO (XO (XI (XI (XI (XO
    (XI (XO (XO (XO (XO (XO (XI (XI (XO (XI (XO (XI (XO (XO (XI (XO (XO (XI
    (XO (XI (XO (XI (XI (XI (XI
    XH)))))))))))))))))))))))))))))))))))))))))))))))))))))))))))))) :: ((Npos
    (XI (XO (XI (XI (XO (XI (XO (XO (XI (XO (XI (XI (XO (XO (XO (XI (XI (XI
    (XI (XI (XO (XI (XI (XI (XI (XI (XO (XI (XO (XO (XI (XI (XI (XO (XO (XI
    (XO (XI (XO (XI (XO (XO (XO (XI (XI (XO (XO (XO (XO (XO (XI (XI (XI (XI
    (XO (XO (XO (XO (XI (XO (XO (XO (XO
    XH)))))))))))))))))))))))))))))))))))))))))))))))))))))))))))))))) :: ((Npos
    (XO (XO (XI (XI (XO (XO (XO (XI (XO (XO (XO (XO (XI (XI (XI (XI (XO (XI
    (XO (XO (XI (XO (XI (XO (XI (XI (XI (XI (XI (XI (XO (XI (XI (XO (XI (XO
    (XO (XI (XI (XO (XI (XI (XO (XI (XI (XO (XO (XI (XI (XI (XO (XI (XI (XO
    (XI (XI (XI (XO (XO (XO (XI (XO (XI
    XH)))))))))))))))))))))))))))))))))))))))))))))))))))))))))))))))) :: ((Npos
    (XO (XO (XO (XI (XO (XO (XO (XI (XI (XO (XO (XI (XI (XO (XI (XO (XO (XI
    (XO (XI (XO (XO (XI (XO (XO (XO (XI (XI (XO (XI (XI (XI (XO (XO (XO (XO
    (XO (XO (XI (XI (XO (XO (XI (XI (XO (XI (XO (XI (XO (XO (XO (XO (XO (XO
    (XI (XO (XO (XO (XO (XI (XI (XI (XI
    XH)))))))))))))))))))))))))))))))))))))))))))))))))))))))))))))))) :: ((Npos
    (XO (XO (XI (XI (XI (XI (XI (XI (XI (XI (XI (XO (XI (XI (XO (XI (XO (XO
    (XI (XI (XO (XO (XI (XO (XO (XI (XI (XI (XO (XO (XO (XO (XI (XI (XI (XO
    (XI (XO (XO (XI (XI (XI (XO (XO (XI (XI (XO (XO (XO (XI (XI (XO (XI (XI
    (XI (XI (XO (XI (XO (XI (XI (XI (XI
    XH)))))))))))))))))))))))))))))))))))))))))))))))))))))))))))))))) :: ((Npos
    (XO (XI (XI (XI (XO (XO (XO (XI (XI (XI (XI (XO (XO (XI (XI (XI (XI (XO
    (XO (XO (XO (XO (XO (XI (XI (XO (XI (XI (XO (XO (XO (XI (XO (XI (XO (XO
    (XO (XO (XI (XI (XI (XI (XO (XI (XI (XO (XI (XI (XI (XO (XI (XI (XO (XO
    (XI (XI (XI (XI (XO (XI (XO
    XH)))))))))))))))))))))))))))))))))))))))))))))))))))))))))))))) :: ((Npos
    (XO (XI (XI (XO (XO (XO (XO (XI (XI (XI (XI (XO (XI (XO (XO (XO (XI (XI
    (XO (XO (XO (XI (XI (XI (XO (XO (XO (XO (XO (XI (XO (XO (XO (XI (XI (XO
    (XI (XO (XI (XO (XI (XI (XO (XI (XO (XO (XO (XI (XI (XO (XO (XO (XO (XI
    (XO (XO (XI (XO (XI (XO (XO
    XH)))))))))))))))))))))))))))))))))))))))))))))))))))))))))))))) :: ((Npos
    (XI (XI (XO (XO (XI (XO (XO (XO (XO (XI (XO (XI (XI (XI (XI (XI (XI (XI
    (XI (XI (XI (XO (XO (XI (XI (XO (XO (XI (XO (XI (XO (XI (XI (XO (XO (XO
    (XI (XO (XI (XO (XI (XO (XO (XO (XO (XO (XO (XO (XO (XO (XO (XO (XI (XI
    (XO (XI (XO (XO (XI (XI (XO (XI
    XH))))))))))))))))))))))))))))))))))))))))))))))))))))))))))))))) :: ((Npos
    (XI (XO (XI (XO (XI (XI (XO (XO (XI (XI (XO (XO (XI (XO (XO (XO (XO (XO
    (XI (XI (XO (XI (XO (XO (XI (XO (XO (XI (XI (XO (XI (XI (XO (XI (XO (XO
    (XO (XI (XI (XI (XO (XI (XI (XI (XI (XI (XO (XI (XO (XO (XO (XO (XO (XI
    (XO (XO (XI (XO (XO (XI (XO (XI (XO
    XH)))))))))))))))))))))))))))))))))))))))))))))))))))))))))))))))) :: ((Npos
    (XI (XO (XI (XI (XO (XO (XI (XI (XO (XI (XI (XO (XO (XI (XO (XI (XO (XO
    (XO (XO (XO (XI (XI (XI (XO (XI (XO (XI (XO (XO (XO (XO (XI (XO (XO (XO
    (XO (XI (XO (XO (XI (XI (XO (XO (XO (XI (XO (XI (XO (XO (XI (XO (XO (XI
    (XO (XI (XO (XI (XO (XI (XO
    XH)))))))))))))))))))))))))))))))))))))))))))))))))))))))))))))) :: ((Npos
    (XI (XI (XO (XI (XI (XO (XI (XI (XI (XO (XO (XO (XI (XI (XI (XI (XO (XI
    (XO (XI (XO (XO (XI (XI (XI (XI (XI (XI (XO (XO (XI (XI (XI (XI (XO (XO
    (XI (XI (XO (XI (XI (XI (XI (XO (XO (XO (XO (XI (XI (XI (XO (XI (XI (XI
    (XO (XO (XI (XO (XO (XO (XO (XI
    XH))))))))))))))))))))))))))))))))))))))))))))))))))))))))))))))) :: ((Npos
    (XO (XO (XI (XO (XI (XI (XI (XO (XO (XO (XI (XI (XI (XO (XO (XI (XO (XO
    (XO (XI (XO (XI (XI (XO (XI (XO (XO (XI (XI (XO (XO (XI (XI (XI (XI (XO
    (XO (XO (XI (XI (XO (XI (XI (XI (XO (XI (XI (XI (XO (XO (XO (XO (XI (XO
    (XO (XO (XI (XO
    XH))))))))))))))))))))))))))))))))))))))))))))))))))))))))))) :: ((Npos
    (XO (XI (XO (XO (XI (XI (XO (XI (XO (XO (XI (XI (XO (XO (XI (XI (XI (XO
    (XI (XO (XI (XO (XO (XO (XI (XO (XI (XO (XI (XI (XO (XI (XO (XI (XI (XI
    (XO (XO (XO (XI (XO (XO (XO (XO (XO (XO (XI (XO (XO (XI (XI (XI (XI (XI
    (XI (XI (XO (XO (XO (XI (XO (XO (XI
    XH)))))))))))))))))))))))))))))))))))))))))))))))))))))))))))))))) :: ((Npos
    (XI (XI (XO (XI (XO (XI (XI (XO (XI (XI (XI (XO (XI (XI (XO (XO (XI (XI
    (XI (XI (XO (XI (XO (XO (XI (XO (XI (XO (XI (XO (XO (XO (XO (XO (XO (XO
    (XI (XO (XO (XO (XO (XO (XI (XO (XI (XO (XO (XO (XI (XO (XO (XO (XI (XI
    (XI (XO (XI (XI (XI (XO (XO (XO (XI
    XH)))))))))))))))))))))))))))))))))))))))))))))))))))))))))))))))) :: ((Npos
    (XI (XO (XO (XO (XO (XI (XO (XI (XI (XO (XO (XO (XI (XO (XO (XI (XI (XO
    (XI (XO (XI (XI (XI (XI (XI (XI (XO (XO (XO (XO (XO (XO (XO (XO (XO (XI
    (XO (XI (XO (XI (XI (XI (XI (XO (XI (XI (XO (XI (XO (XI (XI (XO (XO (XO
    (XO (XI (XO (XO (XO (XI (XO (XO (XO
    XH)))))))))))))))))))))))))))))))))))))))))))))))))))))))))))))))) :: ((Npos
    (XO (XI (XO (XI (XO (XO (XO (XO (XO (XO (XI (XI (XI (XO (XO (XI (XO (XO
    (XI (XI (XO (XI (XI (XI (XI (XO (XO (XO (XO (XI (XO (XO (XI (XI (XI (XI
    (XO (XO (XI (XO (XO (XI (XO (XO (XI (XO (XI (XO (XI (XO (XI (XI (XI (XI
    (XI (XI (XO (XO (XI (XO (XI (XI
    XH))))))))))))))))))))))))))))))))))))))))))))))))))))))))))))))) :: ((Npos
    (XO (XO (XI (XI (XI (XO (XO (XO (XO (XI (XO (XO (XO (XO (XI (XO (XI (XO
    (XO (XI (XO (XO (XI (XI (XO (XO (XO (XO (XI (XO (XO (XO (XO (XI (XI (XI
    (XI (XI (XO (XO (XI (XI (XI (XO (XO (XI (XO (XO (XO (XO (XI (XO (XO (XI
    (XI (XI (XO (XI (XO (XI (XO (XI
    XH))))))))))))))))))))))))))))))))))))))))))))))))))))))))))))))) :: ((Npos
    (XI (XI (XI (XI (XO (XO (XO (XI (XI (XO (XO (XI (XI (XI (XI (XI (XO (XI
    (XI (XO (XO (XI (XI (XI (XO (XI (XI (XI (XI (XI (XO (XI (XO (XO (XI (XI
    (XO (XI (XI (XI (XI (XO (XI (XI (XI (XO (XO (XO (XO (XI (XO (XI (XI (XI
    (XO (XI (XO (XO (XI (XI (XO (XO (XO
    XH)))))))))))))))))))))))))))))))))))))))))))))))))))))))))))))))) :: ((Npos
    (XI (XI (XI (XI (XI (XI (XI (XO (XI (XO (XO (XO (XI (XO (XO (XI (XI (XO
    (XO (XI (XI (XI (XO (XO (XI (XI (XO (XO (XI (XO (XO (XI (XO (XO (XO (XO
    (XI (XO (XO (XI (XO (XI (XI (XO (XI (XO (XI (XI (XO (XO (XO (XI (XO (XO
    (XO (XO (XI (XI (XO (XI (XI (XI (XI
    XH)))))))))))))))))))))))))))))))))))))))))))))))))))))))))))))))) :: ((Npos
    (XO (XO (XO (XI (XI (XI (XO (XO (XI (XI (XI (XO (XO (XI (XO (XI (XO (XO
    (XI (XO (XI (XO (XO (XO (XI (XO (XO (XI (XO (XO (XO (XI (XI (XO (XI (XO
    (XO (XI (XI (XI (XO (XO (XO (XO (XI (XO (XI (XI (XI (XO (XO (XI (XO (XI
    (XI (XO (XI (XO (XI (XO (XO (XO (XO
    XH)))))))))))))))))))))))))))))))))))))))))))))))))))))))))))))))) :: ((Npos
    (XO (XI (XO (XO (XO (XO (XO (XI (XI (XO (XO (XO (XI (XO (XI (XI (XO (XI
    (XO (XI (XI (XI (XI (XO (XI (XI (XI (XI (XO (XO (XO (XO (XO (XI (XI (XI
    (XO (XO (XI (XO (XI (XI (XO (XO (XO (XO (XI (XO (XI (XO (XO (XI (XO (XI
    (XO (XI (XO (XO (XI (XO (XI (XO
    XH))))))))))))))))))))))))))))))))))))))))))))))))))))))))))))))) :: ((Npos
    (XO (XI (XO (XO (XI (XO (XO (XO (XI (XO (XI (XI (XI (XI (XI (XI (XI (XO
    (XO (XI (XI (XO (XO (XO (XI (XO (XI (XI (XI (XI (XI (XO (XI (XI (XO (XO
    (XI (XO (XI (XO (XI (XO (XI (XI (XO (XO (XI (XO (XI (XO (XI (XI (XO (XO
    (XI (XI (XO (XO (XI (XO (XI (XO (XI
    XH)))))))))))))))))))))))))))))))))))))))))))))))))))))))))))))))) :: ((Npos
    (XO (XO (XI (XI (XO (XI (XO (XI (XI (XI (XO (XO (XI (XI (XI (XI (XO (XO
    (XO (XO (XI (XO (XO (XO (XI (XO (XO (XI (XI (XI (XI (XO (XI (XI (XO (XI
    (XI (XO (XO (XI (XO (XO (XI (XO (XO (XI (XO (XO (XI (XO (XI (XI (XO (XI
    (XI (XO (XO (XO (XO (XO
    XH))))))))))))))))))))))))))))))))))))))))))))))))))))))))))))) :: ((Npos
    (XO (XO (XO (XO (XO (XI (XO (XO (XI (XI (XI (XO (XO (XI (XO (XO (XI (XI
    (XI (XO (XO (XI (XI (XI (XI (XO (XI (XO (XI (XO (XO (XO (XI (XO (XI (XO
    (XI (XI (XO (XO (XO (XI (XI (XO (XO (XI (XO (XO (XO (XO (XI (XI (XI (XO
    (XI (XO (XO (XI (XI (XI
    XH))))))))))))))))))))))))))))))))))))))))))))))))))))))))))))) :: ((Npos
    (XI (XI (XO (XI (XI (XO (XO (XO (XI (XI (XI (XI (XO (XO (XO (XI (XI (XI
    (XI (XI (XI (XI (XI (XO (XO (XI (XI (XI (XO (XO (XO (XI (XI (XO (XO (XI
    (XO (XO (XI (XI (XO (XI (XI (XI (XI (XI (XO (XO (XI (XO (XO (XI (XO (XO
    (XI (XI (XO (XO (XI (XI (XO (XI (XI
    XH)))))))))))))))))))))))))))))))))))))))))))))))))))))))))))))))) :: ((Npos
    (XI (XI (XI (XO (XO (XO (XO (XO (XI (XO (XO (XI (XO (XO (XO (XI (XO (XI
    (XI (XI (XI (XI (XO (XO (XI (XO (XI (XI (XI (XO (XI (XO (XI (XI (XI (XO
    (XI (XI (XO (XO (XO (XI (XO (XI (XO (XO (XI (XO (XI (XO (XO (XI (XO (XO
    (XO (XI (XI (XI (XO (XI (XO (XI (XI
    XH)))))))))))))))))))))))))))))))))))))))))))))))))))))))))))))))) :: ((Npos
    (XI (XI (XI (XO (XI (XI (XI (XI (XO (XI (XI (XI (XO (XO (XO (XO (XI (XI
    (XI (XO (XO (XO (XI (XO (XO (XO (XI (XO (XO (XO (XO (XI (XO (XI (XI (XO
    (XO (XI (XO (XO (XO (XO (XO (XO (XO (XO (XO (XI (XO (XI (XI (XI (XI (XI
    (XI (XO (XO (XI (XI (XI (XO (XI
    XH))))))))))))))))))))))))))))))))))))))))))))))))))))))))))))))) :: ((Npos
    (XI (XI (XO (XI (XI (XI (XI (XI (XO (XI (XO (XO (XO (XI (XI (XI (XI (XI
    (XI (XO (XO (XO (XI (XO (XO (XO (XO (XO (XI (XO (XI (XO (XO (XI (XI (XO
    (XO (XO (XO (XO (XI (XI (XI (XO (XO (XO (XI (XO (XO (XI (XI (XO (XO (XO
    (XI (XI (XI (XI (XO
    XH)))))))))))))))))))))))))))))))))))))))))))))))))))))))))))) :: ((Npos
    (XI (XI (XI (XO (XI (XI (XI (XO (XI (XI (XI (XI (XO (XI (XO (XO (XO (XI
    (XI (XI (XI (XI (XO (XI (XI (XI (XO (XI (XO (XI (XO (XO (XI (XO (XI (XO
    (XO (XI (XI (XI (XI (XI (XO (XO (XI (XO (XI (XI (XI (XO (XI (XO (XI (XO
    (XO (XO (XO (XI (XO (XI (XO (XO (XI
    XH)))))))))))))))))))))))))))))))))))))))))))))))))))))))))))))))) :: ((Npos
    (XI (XI (XO (XO (XO (XO (XO (XI (XI (XO (XI (XO (XI (XI (XO (XI (XI (XO
    (XO (XO (XO (XO (XI (XO (XO (XI (XI (XO (XI (XI (XI (XI (XI (XI (XO (XO
    (XI (XO (XI (XO (XI (XO (XI (XI (XI (XO (XO (XI (XO (XI (XO (XO (XO (XO
    (XO (XO
    XH))))))))))))))))))))))))))))))))))))))))))))))))))))))))) :: ((Npos (XI
    (XI (XO (XO (XO (XO (XO (XO (XO (XI (XI (XO (XI (XI (XO (XO (XO (XO (XO
    (XO (XO (XO (XI (XI (XO (XI (XO (XI (XO (XI (XO (XI (XO (XI (XI (XI (XO
    (XO (XI (XI (XO (XI (XI (XI (XI (XI (XO (XI (XI (XO (XI (XI (XO (XO (XO
    (XO (XI (XI (XO (XO (XO (XI (XI
    XH)))))))))))))))))))))))))))))))))))))))))))))))))))))))))))))))) :: ((Npos
    (XO (XI (XO (XO (XO (XO (XI (XI (XO (XI (XI (XI (XI (XO (XI (XI (XO (XI
    (XI (XI (XO (XI (XI (XI (XO (XI (XO (XO (XO (XO (XI (XI (XI (XI (XI (XI
    (XI (XO (XO (XO (XI (XO (XI (XO (XI (XO (XO (XI (XI (XO (XO (XI (XO (XO
    (XO (XI (XO (XI (XI (XO (XI
    XH)))))))))))))))))))))))))))))))))))))))))))))))))))))))))))))) :: ((Npos
    (XO (XO (XI (XO (XI (XO (XI (XI (XI (XI (XI (XO (XI (XI (XI (XI (XO (XI
    (XI (XO (XI (XI (XI (XI (XO (XO (XI (XI (XO (XO (XO (XI (XI (XI (XI (XO
    (XI (XI (XI (XI (XO (XI (XO (XO (XI (XI (XO (XO (XI (XO (XI (XI (XO (XI
    (XI (XO (XI (XI (XI (XO (XI
    XH)))))))))))))))))))))))))))))))))))))))))))))))))))))))))))))) :: ((Npos
    (XI (XI (XI (XO (XI (XI (XI (XI (XI (XI (XI (XO (XO (XO (XO (XI (XI (XI
    (XI (XO (XI (XI (XI (XO (XO (XI (XO (XO (XO (XI (XO (XO (XO (XI (XI (XI
    (XO (XO (XI (XI (XO (XO (XI (XO (XO (XI (XO (XI (XO (XI (XI (XO (XO (XI
    (XI (XI (XI (XO (XI (XO (XI (XO (XO
    XH)))))))))))))))))))))))))))))))))))))))))))))))))))))))))))))))) :: ((Npos
    (XI (XI (XO (XI (XI (XI (XI (XO (XO (XO (XI (XO (XI (XO (XO (XO (XI (XO
    (XO (XI (XI (XO (XI (XO (XI (XI (XO (XO (XI (XI (XI (XO (XI (XI (XO (XO
    (XI (XO (XO (XI (XO (XI (XO (XI (XO (XI (XO (XI (XI (XO (XO (XO (XO (XO
    (XO (XO (XO (XO (XO (XI (XI (XI (XO
    XH)))))))))))))))))))))))))))))))))))))))))))))))))))))))))))))))) :: ((Npos
    (XO (XO (XO (XO (XO (XI (XO (XO (XI (XO (XO (XI (XI (XO (XO (XO (XO (XI
    (XI (XI (XI (XO (XO (XO (XI (XI (XO (XI (XO (XO (XO (XO (XI (XI (XO (XO
    (XO (XI (XI (XO (XO (XI (XI (XI (XO (XO (XO (XO (XI (XO (XO (XI (XI (XO
    (XI (XI (XI (XO (XI (XI (XI (XO (XI
    XH)))))))))))))))))))))))))))))))))))))))))))))))))))))))))))))))) :: ((Npos
    (XO (XO (XI (XO (XI (XI (XI (XO (XO (XO (XO (XO (XO (XO (XI (XO (XI (XO
    (XO (XO (XO (XI (XO (XO (XO (XO (XO (XI (XI (XO (XI (XI (XI (XO (XI (XI
    (XI (XI (XO (XI (XO (XO (XI (XO (XI (XO (XO (XI (XI (XI (XI (XO (XO (XI
    (XO (XI (XO (XO (XI (XI (XI (XO (XI
    XH)))))))))))))))))))))))))))))))))))))))))))))))))))))))))))))))) :: ((Npos
    (XI (XI (XO (XO (XI (XI (XI (XO (XI (XI (XI (XI (XO (XO (XO (XO (XI (XO
    (XO (XI (XO (XI (XI (XI (XI (XO (XO (XO (XI (XI (XI (XI (XI (XI (XI (XI
    (XI (XO (XO (XI (XO (XI (XO (XI (XI (XI (XO (XI (XI (XO (XO (XO (XI (XI
    (XI (XO (XO (XO (XI (XO (XI (XI
    XH))))))))))))))))))))))))))))))))))))))))))))))))))))))))))))))) :: ((Npos
    (XI (XI (XO (XI (XO (XI (XO (XO (XO (XI (XI (XI (XO (XO (XI (XO (XI (XO
    (XO (XI (XI (XO (XI (XO (XI (XO (XI (XI (XO (XI (XO (XO (XI (XI (XI (XI
    (XO (XI (XI (XI (XO (XI (XO (XO (XI (XI (XO (XI (XO (XO (XI (XO (XI (XI
    (XO (XI (XO (XO (XI (XI (XI (XO (XI
    XH)))))))))))))))))))))))))))))))))))))))))))))))))))))))))))))))) :: ((Npos
    (XI (XO (XO (XO (XO (XI (XI (XO (XI (XO (XO (XO (XO (XI (XI (XO (XO (XO
    (XO (XI (XO (XO (XO (XO (XO (XO (XO (XI (XI (XO (XO (XO (XO (XI (XO (XO
    (XI (XO (XI (XO (XO (XI (XI (XI (XO (XI (XI (XI (XI (XI (XO (XO (XI (XO
    (XI (XI (XI (XI (XI (XO (XI (XO (XI
    XH)))))))))))))))))))))))))))))))))))))))))))))))))))))))))))))))) :: ((Npos
    (XO (XI (XO (XI (XI (XI (XO (XO (XI (XO (XO (XI (XI (XO (XI (XI (XO (XI
    (XO (XO (XI (XI (XO (XO (XI (XI (XI (XO (XI (XO (XI (XO (XI (XO (XI (XO
    (XO (XO (XO (XO (XI (XI (XO (XI (XO (XI (XI (XO (XO (XI (XI (XO (XI (XI
    (XO (XI (XI (XO (XO (XO (XI (XI (XI
    XH)))))))))))))))))))))))))))))))))))))))))))))))))))))))))))))))) :: ((Npos
    (XO (XI (XI (XO (XO (XI (XO (XI (XO (XO (XO (XI (XO (XO (XI (XO (XI (XO
    (XI (XI (XO (XI (XO (XO (XO (XI (XI (XO (XO (XI (XO (XO (XO (XI (XI (XI
    (XI (XI (XI (XI (XI (XO (XI (XO (XO (XO (XO (XI (XO (XI (XO (XI (XI (XI
    (XO (XI (XI (XO (XO (XO
    XH))))))))))))))))))))))))))))))))))))))))))))))))))))))))))))) :: ((Npos
    (XI (XI (XO (XI (XO (XO (XO (XI (XI (XO (XO (XO (XO (XI (XO (XO (XI (XI
    (XO (XO (XO (XI (XI (XI (XO (XI (XO (XO (XO (XO (XI (XO (XO (XO (XI (XO
    (XO (XO (XO (XO (XO (XO (XO (XO (XO (XO (XO (XO (XI (XO (XI (XO (XI (XI
    (XI (XI (XI (XO (XI (XO (XO (XO (XI
    XH)))))))))))))))))))))))))))))))))))))))))))))))))))))))))))))))) :: ((Npos
    (XI (XO (XI (XI (XI (XO (XI (XI (XO (XI (XI (XO (XO (XO (XI (XO (XO (XI
    (XO (XO (XI (XO (XO (XI (XO (XI (XO (XI (XI (XI (XI (XO (XO (XO (XI (XI
    (XI (XI (XO (XO (XI (XI (XO (XI (XO (XI (XO (XO (XO (XO (XO (XO (XO (XO
    (XI (XO (XI (XI (XI (XO (XI
    XH)))))))))))))))))))))))))))))))))))))))))))))))))))))))))))))) :: ((Npos
    (XO (XO (XI (XO (XO (XI (XO (XO (XI (XO (XI (XO (XO (XO (XI (XO (XI (XI
    (XO (XI (XO (XI (XO (XO (XI (XO (XO (XI (XI (XO (XI (XI (XI (XO (XI (XO
    (XO (XO (XI (XI (XO (XO (XO (XO (XI (XO (XI (XO (XI (XO (XO (XO (XO (XO
    (XO (XI (XI (XI (XO (XI (XI (XO (XI
    XH)))))))))))))))))))))))))))))))))))))))))))))))))))))))))))))))) :: ((Npos
    (XI (XI (XO (XO (XI (XO (XO (XO (XO (XO (XO (XI (XO (XI (XI (XO (XO (XO
    (XO (XO (XI (XI (XO (XI (XO (XI (XI (XI (XI (XO (XI (XI (XI (XI (XI (XO
    (XO (XO (XI (XI (XI (XO (XO (XO (XO (XI (XI (XO (XI (XO (XI (XI (XI (XI
    (XO (XI (XI (XO (XO (XI (XI (XO
    XH))))))))))))))))))))))))))))))))))))))))))))))))))))))))))))))) :: ((Npos
    (XO (XO (XI (XI (XO (XO (XO (XO (XI (XI (XI (XI (XO (XO (XI (XI (XO (XI
    (XO (XO (XO (XO (XI (XI (XO (XI (XO (XO (XO (XO (XI (XO (XO (XI (XI (XO
    (XO (XI (XI (XI (XO (XO (XO (XI (XI (XI (XI (XI (XO (XO (XO (XO (XI (XI
    (XO (XI (XO (XO (XO (XI (XO (XO
    XH))))))))))))))))))))))))))))))))))))))))))))))))))))))))))))))) :: ((Npos
    (XO (XI (XI (XO (XO (XO (XI (XI (XO (XO (XI (XI (XO (XO (XO (XO (XI (XO
    (XO (XO (XO (XI (XO (XO (XO (XO (XO (XO (XO (XO (XO (XO (XI (XO (XI (XI
    (XO (XI (XI (XI (XI (XO (XI (XI (XI (XO (XI (XO (XO (XO (XO (XI (XO (XI
    (XI (XO (XI (XI (XI (XO (XO (XO (XI
    XH)))))))))))))))))))))))))))))))))))))))))))))))))))))))))))))))) :: ((Npos
    (XI (XI (XO (XO (XO (XO (XI (XO (XO (XI (XI (XI (XI (XO (XI (XO (XI (XO
    (XO (XO (XI (XI (XO (XI (XO (XI (XI (XI (XO (XO (XO (XO (XO (XO (XO (XO
    (XO (XO (XO (XI (XI (XI (XI (XI (XO (XI (XO (XI (XI (XI (XI (XI (XI (XO
    (XI (XO (XI (XO (XI (XI (XI (XI
    XH))))))))))))))))))))))))))))))))))))))))))))))))))))))))))))))) :: ((Npos
    (XO (XO (XI (XI (XI (XI (XI (XO (XO (XO (XI (XO (XI (XI (XI (XI (XI (XO
    (XI (XO (XO (XO (XO (XI (XO (XI (XI (XO (XI (XI (XI (XO (XI (XI (XI (XI
    (XI (XI (XI (XI (XO (XI (XO (XI (XO (XO (XO (XI (XO (XI (XO (XI (XO (XI
    (XI (XO (XO (XI (XO (XO (XI (XI
    XH))))))))))))))))))))))))))))))))))))))))))))))))))))))))))))))) :: ((Npos
    (XI (XI (XO (XI (XI (XI (XO (XI (XO (XO (XO (XI (XI (XI (XI (XO (XO (XI
    (XI (XO (XI (XO (XO (XI (XO (XO (XI (XO (XI (XI (XO (XI (XI (XO (XO (XI
    (XI (XO (XO (XI (XO (XI (XI (XI (XI (XO (XI (XI (XO (XO (XI (XI (XO (XI
    (XI (XI (XI (XI (XI (XO (XI (XI
    XH))))))))))))))))))))))))))))))))))))))))))))))))))))))))))))))) :: ((Npos
    (XI (XO (XO (XI (XI (XO (XO (XI (XI (XI (XO (XI (XI (XI (XO (XI (XI (XI
    (XO (XI (XO (XO (XO (XI (XO (XO (XO (XO (XO (XI (XO (XI (XO (XI (XI (XI
    (XO (XI (XO (XO (XI (XI (XI (XO (XO (XO (XO (XI (XO (XI (XO (XI (XO (XI
    (XI (XO (XO (XI (XO (XI
    XH))))))))))))))))))))))))))))))))))))))))))))))))))))))))))))) :: ((Npos
    (XI (XO (XI (XO (XI (XO (XO (XO (XO (XI (XO (XO (XO (XI (XO (XO (XI (XO
    (XO (XI (XO (XI (XI (XO (XO (XI (XI (XI (XO (XO (XO (XI (XI (XO (XI (XI
    (XI (XO (XO (XO (XO (XO (XO (XI (XO (XO (XO (XI (XO (XO (XI (XI (XO (XI
    (XI (XI (XO (XO (XI (XI (XI (XO (XI
    XH)))))))))))))))))))))))))))))))))))))))))))))))))))))))))))))))) :: ((Npos
    (XI (XO (XO (XI (XO (XO (XO (XI (XI (XI (XO (XI (XO (XI (XO (XI (XI (XI
    (XO (XI (XI (XI (XO (XI (XO (XO (XI (XO (XI (XI (XI (XI (XI (XO (XO (XO
    (XO (XO (XO (XI (XI (XI (XI (XI (XO (XI (XO (XO (XO (XO (XO (XO (XO (XO
    (XO (XI (XI (XO (XI (XI
    XH))))))))))))))))))))))))))))))))))))))))))))))))))))))))))))) :: ((Npos
    (XI (XI (XI (XO (XI (XI (XO (XI (XI (XI (XI (XI (XI (XO (XI (XI (XI (XO
    (XI (XI (XO (XI (XI (XO (XO (XO (XI (XI (XO (XI (XO (XO (XI (XI (XO (XO
    (XI (XI (XO (XO (XO (XI (XI (XI (XO (XO (XO (XI (XI (XO (XO (XO (XI (XO
    (XO (XO (XO (XO (XO (XO (XO (XI
    XH))))))))))))))))))))))))))))))))))))))))))))))))))))))))))))))) :: ((Npos
    (XI (XI (XI (XO (XO (XI (XI (XO (XI (XO (XI (XI (XI (XI (XO (XO (XI (XI
    (XI (XI (XO (XI (XO (XI (XI (XO (XO (XO (XO (XO (XO (XI (XO (XO (XO (XO
    (XI (XO (XO (XI (XO (XO (XI (XO (XI (XO (XI (XI (XO (XI (XO (XI (XI (XO
    (XI (XO (XI (XI (XI (XI (XI (XO
    XH))))))))))))))))))))))))))))))))))))))))))))))))))))))))))))))) :: ((Npos
    (XO (XO (XI (XO (XO (XO (XO (XO (XO (XO (XO (XO (XI (XI (XI (XI (XI (XI
    (XO (XI (XI (XI (XO (XI (XI (XI (XO (XO (XI (XI (XI (XO (XI (XO (XO (XI
    (XI (XI (XI (XO (XI (XO (XO (XO (XI (XI (XO (XI (XO (XI (XI (XO (XI (XI
    (XI (XO (XO (XI (XO (XO (XO (XI (XO
    XH)))))))))))))))))))))))))))))))))))))))))))))))))))))))))))))))) :: ((Npos
    (XO (XI (XO (XI (XO (XI (XO (XI (XI (XI (XI (XO (XO (XO (XI (XI (XI (XI
    (XI (XO (XO (XI (XO (XO (XO (XI (XI (XI (XI (XO (XO (XO (XI (XO (XI (XI
    (XO (XO (XI (XO (XI (XI (XI (XI (XI (XO (XI (XI (XI (XO (XI (XI (XI (XO
    (XO (XO (XO (XI (XI (XI (XI (XI (XI
    XH)))))))))))))))))))))))))))))))))))))))))))))))))))))))))))))))) :: ((Npos
    (XO (XO (XI (XO (XI (XO (XO (XI (XO (XO (XI (XI (XI (XO (XO (XO (XI (XI
    (XO (XO (XO (XO (XO (XI (XI (XO (XO (XI (XI (XI (XI (XI (XI (XO (XO (XI
    (XI (XI (XI (XO (XO (XO (XI (XO (XI (XI (XI (XI (XO (XO (XO (XI (XI (XI
    (XO (XO (XI (XI (XO (XO (XO (XO (XO
    XH)))))))))))))))))))))))))))))))))))))))))))))))))))))))))))))))) :: ((Npos
    (XI (XI (XI (XO (XI (XI (XI (XO (XI (XI (XO (XO (XI (XO (XI (XO (XI (XI
    (XO (XI (XI (XI (XI (XO (XI (XI (XO (XO (XI (XO (XO (XO (XI (XI (XO (XI
    (XI (XO (XO (XO (XI (XI (XO (XO (XO (XI (XI (XI (XO (XI (XO (XI (XI (XO
    (XO (XO (XO (XI (XO (XI (XO (XO
    XH))))))))))))))))))))))))))))))))))))))))))))))))))))))))))))))) :: ((Npos
    (XO (XI (XI (XO (XI (XO (XI (XI (XO (XO (XI (XO (XO (XO (XI (XO (XO (XI
    (XI (XO (XO (XO (XO (XI (XO (XI (XO (XI (XI (XO (XO (XO (XI (XO (XI (XI
    (XI (XI (XO (XI (XO (XO (XO (XI (XI (XO (XO (XO (XO (XO (XO (XI (XO (XO
    (XI (XI (XI (XO (XO (XI (XI (XO (XO
    XH)))))))))))))))))))))))))))))))))))))))))))))))))))))))))))))))) :: ((Npos
    (XI (XI (XI (XO (XI (XO (XO (XI (XI (XI (XI (XI (XI (XI (XO (XI (XI (XI
    (XO (XI (XO (XO (XO (XO (XO (XI (XI (XI (XI (XI (XI (XI (XO (XI (XI (XI
    (XI (XO (XI (XI (XI (XO (XO (XO (XO (XI (XO (XO (XO (XO (XI (XO (XO (XO
    (XO (XO (XO (XO (XI (XI (XI (XI (XO
    XH)))))))))))))))))))))))))))))))))))))))))))))))))))))))))))))))) :: ((Npos
    (XI (XI (XI (XO (XI (XO (XO (XI (XI (XO (XI (XI (XI (XO (XO (XO (XI (XO
    (XI (XO (XO (XO (XO (XO (XO (XI (XI (XO (XO (XI (XI (XI (XI (XO (XI (XO
    (XI (XI (XI (XI (XI (XI (XI (XO (XO (XI (XO (XO (XI (XO (XO (XO (XO (XI
    (XO (XO (XO (XO (XO (XO (XO (XO (XI
    XH)))))))))))))))))))))))))))))))))))))))))))))))))))))))))))))))) :: ((Npos
    (XI (XI (XI (XO (XI (XO (XO (XI (XO (XI (XI (XO (XI (XI (XI (XI (XO (XO
    (XI (XI (XO (XI (XI (XI (XO (XI (XO (XI (XI (XO (XI (XI (XI (XO (XO (XO
    (XO (XI (XO (XI (XO (XO (XI (XO (XI (XI (XI (XO (XO (XI (XI (XI (XI (XI
    (XO (XI (XI (XO (XI (XO (XO (XI (XO
    XH)))))))))))))))))))))))))))))))))))))))))))))))))))))))))))))))) :: ((Npos
    (XO (XO (XI (XO (XI (XO (XI (XO (XI (XO (XI (XO (XI (XI (XI (XI (XI (XO
    (XO (XO (XO (XI (XI (XO (XO (XI (XO (XO (XI (XI (XI (XO (XI (XI (XI (XO
    (XI (XO (XI (XO (XO (XI (XO (XI (XI (XI (XO (XO (XO (XO (XO (XO (XI (XI
    (XO (XI (XO (XI (XI (XI (XI (XI
    XH))))))))))))))))))))))))))))))))))))))))))))))))))))))))))))))) :: ((Npos
    (XI (XO (XO (XI (XO (XO (XI (XO (XO (XI (XO (XI (XO (XO (XI (XI (XO (XO
    (XI (XI (XO (XI (XO (XO (XO (XI (XI (XO (XI (XI (XI (XI (XI (XI (XI (XO
    (XO (XO (XI (XO (XO (XO (XO (XI (XI (XO (XO (XO (XI (XO (XO (XO (XO (XO
    (XO (XO (XO (XO (XO (XI (XI
    XH)))))))))))))))))))))))))))))))))))))))))))))))))))))))))))))) :: ((Npos
    (XO (XO (XO (XI (XI (XO (XI (XO (XI (XO (XO (XO (XI (XI (XI (XI (XI (XO
    (XO (XI (XI (XO (XO (XI (XI (XO (XO (XI (XI (XO (XI (XO (XI (XI (XO (XO
    (XI (XO (XI (XI (XO (XI (XO (XI (XO (XO (XI (XI (XI (XO (XO (XO (XI (XO
    (XO (XO (XI (XI (XI (XO (XI (XO
    XH))))))))))))))))))))))))))))))))))))))))))))))))))))))))))))))) :: ((Npos
    (XO (XI (XO (XI (XO (XO (XO (XI (XI (XI (XI (XO (XI (XI (XO (XI (XO (XI
    (XI (XO (XI (XO (XI (XO (XI (XO (XI (XI (XI (XI (XO (XI (XO (XI (XI (XI
    (XO (XI (XO (XI (XO (XI (XO (XO (XI (XI (XI (XO (XI (XI (XI (XI (XI (XI
    (XI (XO (XO (XO (XO (XO (XI (XI (XI
    XH)))))))))))))))))))))))))))))))))))))))))))))))))))))))))))))))) :: ((Npos
    (XI (XI (XI (XI (XI (XI (XI (XO (XI (XI (XI (XO (XI (XO (XO (XO (XI (XO
    (XO (XO (XI (XO (XO (XO (XI (XO (XO (XO (XO (XI (XI (XO (XO (XO (XO (XO
    (XI (XO (XO (XO (XI (XI (XO (XO (XO (XI (XO (XI (XO (XI (XO (XO (XO (XO
    (XI (XO (XI (XI (XO (XI (XO
    XH)))))))))))))))))))))))))))))))))))))))))))))))))))))))))))))) :: ((Npos
    (XO (XI (XO (XI (XI (XO (XO (XO (XO (XI (XO (XI (XI (XI (XO (XO (XO (XO
    (XI (XI (XO (XI (XO (XI (XI (XO (XI (XO (XO (XI (XO (XO (XI (XI (XO (XI
    (XO (XO (XI (XO (XO (XI (XO (XI (XI (XO (XI (XO (XI (XI (XO (XO (XI (XO
    (XO (XO (XI (XI (XO (XO
    XH))))))))))))))))))))))))))))))))))))))))))))))))))))))))))))) :: ((Npos
    (XO (XI (XI (XI (XI (XI (XO (XO (XI (XO (XO (XO (XO (XI (XO (XO (XO (XO
    (XO (XO (XO (XI (XO (XI (XI (XO (XO (XO (XO (XO (XO (XO (XO (XO (XO (XO
    (XI (XI (XO (XO (XI (XO (XO (XI (XI (XO (XI (XO (XO (XI (XI (XI (XI (XI
    (XI (XO (XI (XO (XO (XO (XO
    XH)))))))))))))))))))))))))))))))))))))))))))))))))))))))))))))) :: ((Npos
    (XI (XO (XO (XO (XO (XO (XI (XO (XO (XI (XI (XI (XI (XI (XI (XO (XO (XI
    (XI (XO (XO (XI (XO (XI (XO (XO (XO (XO (XO (XI (XI (XI (XO (XI (XI (XI
    (XI (XO (XO (XI (XI (XO (XI (XO (XI (XO (XO (XI (XI (XO (XO (XO (XI (XI
    (XI (XO (XI (XO (XI (XI (XI (XI
    XH))))))))))))))))))))))))))))))))))))))))))))))))))))))))))))))) :: ((Npos
    (XO (XI (XI (XO (XO (XI (XO (XO (XO (XO (XI (XO (XI (XI (XI (XO (XI (XI
    (XO (XO (XO (XI (XO (XO (XO (XO (XI (XO (XI (XO (XI (XO (XO (XI (XO (XO
    (XO (XI (XO (XO (XO (XI (XI (XI (XO (XO (XO (XO (XO (XO (XO (XI (XI (XO
    (XI (XI (XO (XO (XO (XO
    XH))))))))))))))))))))))))))))))))))))))))))))))))))))))))))))) :: ((Npos
    (XO (XO (XI (XI (XI (XI (XO (XI (XI (XI (XO (XI (XO (XI (XO (XO (XO (XO
    (XO (XO (XO (XO (XI (XO (XI (XI (XI (XI (XO (XO (XI (XI (XO (XO (XI (XO
    (XO (XO (XI (XI (XI (XI (XI (XO (XO (XI (XO (XI (XO (XO (XO (XO (XI (XI
    (XI (XO (XI (XO (XO (XI (XO (XO
    XH))))))))))))))))))))))))))))))))))))))))))))))))))))))))))))))) :: ((Npos
    (XI (XI (XO (XO (XI (XO (XI (XO (XI (XO (XI (XO (XO (XI (XI (XO (XI (XI
    (XO (XI (XI (XO (XI (XI (XI (XI (XO (XO (XO (XI (XO (XO (XO (XO (XO (XI
    (XO (XI (XI (XI (XO (XO (XO (XI (XI (XI (XI (XI (XO (XI (XO (XI (XI (XI
    (XI (XO (XO (XI (XI (XI (XO
    XH)))))))))))))))))))))))))))))))))))))))))))))))))))))))))))))) :: ((Npos
    (XI (XO (XO (XO (XO (XI (XO (XI (XI (XI (XO (XO (XI (XO (XI (XO (XO (XI
    (XO (XI (XO (XI (XI (XO (XI (XO (XI (XI (XO (XI (XI (XO (XI (XO (XI (XO
    (XO (XI (XO (XO (XO (XO (XO (XO (XI (XO (XO (XI (XO (XO (XO (XI (XI (XI
    (XI (XI (XI (XI (XO (XI (XO (XO (XO
    XH)))))))))))))))))))))))))))))))))))))))))))))))))))))))))))))))) :: ((Npos
    (XI (XI (XI (XO (XI (XI (XO (XO (XI (XO (XI (XO (XI (XO (XO (XI (XI (XI
    (XO (XO (XI (XO (XO (XO (XI (XO (XI (XO (XI (XO (XI (XO (XI (XO (XO (XO
    (XO (XO (XO (XO (XI (XO (XO (XO (XO (XO (XO (XI (XO (XO (XO (XI (XI (XI
    (XO (XI (XI (XO (XI (XO (XO (XI
    XH))))))))))))))))))))))))))))))))))))))))))))))))))))))))))))))) :: ((Npos
    (XI (XO (XO (XI (XI (XI (XO (XI (XO (XO (XO (XO (XI (XI (XO (XO (XI (XI
    (XI (XI (XI (XO (XO (XI (XI (XI (XO (XI (XO (XI (XO (XO (XI (XI (XI (XO
    (XO (XI (XI (XO (XI (XO (XO (XI (XO (XO (XI (XO (XI (XI (XI (XI (XO (XI
    (XI (XI (XO (XI (XO (XI (XO (XO (XO
    XH)))))))))))))))))))))))))))))))))))))))))))))))))))))))))))))))) :: ((Npos
    (XO (XO (XI (XI (XI (XI (XO (XO (XO (XI (XI (XI (XI (XI (XO (XO (XO (XO
    (XO (XI (XO (XI (XO (XO (XO (XI (XO (XI (XO (XO (XI (XI (XI (XI (XI (XI
    (XO (XO (XO (XO (XI (XI (XO (XI (XI (XI (XO (XO (XI (XO (XI (XI (XO (XI
    (XO (XO (XI (XI (XO (XO (XO (XI (XI
    XH)))))))))))))))))))))))))))))))))))))))))))))))))))))))))))))))) :: ((Npos
    (XO (XI (XO (XI (XO (XI (XI (XI (XO (XI (XO (XI (XI (XI (XI (XI (XI (XO
    (XO (XI (XO (XO (XO (XI (XO (XI (XI (XO (XO (XO (XI (XI (XO (XO (XO (XI
    (XO (XO (XI (XO (XI (XO (XI (XO (XI (XI (XO (XO (XI (XI (XI (XO (XI (XO
    (XI (XI (XI (XO (XO (XO (XI
    XH)))))))))))))))))))))))))))))))))))))))))))))))))))))))))))))) :: ((Npos
    (XO (XI (XO (XI (XI (XI (XI (XI (XI (XI (XO (XO (XO (XO (XI (XI (XO (XO
    (XI (XI (XO (XO (XO (XI (XO (XO (XO (XI (XO (XO (XO (XI (XI (XI (XI (XO
    (XI (XI (XI (XO (XI (XO (XO (XI (XO (XI (XO (XO (XI (XO (XI (XI (XO (XO
    (XI (XI (XO (XO (XO (XI (XO (XO (XI
    XH)))))))))))))))))))))))))))))))))))))))))))))))))))))))))))))))) :: ((Npos
    (XO (XI (XO (XO (XI (XO (XO (XO (XO (XI (XO (XO (XO (XI (XO (XO (XO (XO
    (XO (XO (XI (XO (XO (XO (XI (XO (XO (XO (XI (XI (XO (XO (XO (XI (XI (XI
    (XI (XO (XO (XO (XI (XI (XI (XI (XO (XO (XO (XI (XO (XO (XI (XI (XI (XI
    (XI (XO (XO (XO (XO (XO (XI (XI (XO
    XH)))))))))))))))))))))))))))))))))))))))))))))))))))))))))))))))) :: ((Npos
    (XI (XO (XI (XO (XI (XO (XI (XI (XI (XI (XI (XO (XO (XI (XI (XO (XO (XI
    (XO (XI (XI (XI (XI (XO (XO (XI (XI (XO (XI (XO (XI (XO (XI (XO (XO (XO
    (XO (XI (XO (XI (XO (XI (XO (XI (XO (XO (XO (XI (XI (XO (XI (XI (XI (XO
    (XO (XI (XO (XI (XI (XO (XO (XI (XO
    XH)))))))))))))))))))))))))))))))))))))))))))))))))))))))))))))))) :: ((Npos
    (XO (XO (XI (XO (XO (XO (XI (XO (XO (XO (XI (XI (XO (XO (XO (XO (XI (XI
    (XO (XI (XI (XO (XI (XO (XI (XI (XI (XI (XO (XI (XO (XO (XI (XO (XI (XO
    (XI (XO (XO (XI (XI (XO (XI (XO (XO (XI (XO (XI (XI (XI (XO (XI (XO (XI
    (XO (XI (XI (XI (XI (XI (XI (XI
    XH))))))))))))))))))))))))))))))))))))))))))))))))))))))))))))))) :: ((Npos
    (XO (XO (XI (XI (XO (XO (XI (XI (XI (XO (XI (XI (XO (XI (XO (XO (XI (XI
    (XI (XI (XO (XO (XI (XO (XO (XI (XI (XO (XI (XI (XO (XI (XI (XI (XI (XI
    (XI (XI (XI (XO (XI (XI (XO (XI (XO (XO (XI (XO (XO (XO (XI (XI (XO (XO
    (XI (XO (XI (XI (XI (XI (XO (XO (XO
    XH)))))))))))))))))))))))))))))))))))))))))))))))))))))))))))))))) :: ((Npos
    (XO (XI (XI (XI (XO (XI (XI (XI (XO (XO (XI (XO (XI (XI (XO (XO (XI (XO
    (XO (XO (XO (XO (XO (XI (XI (XI (XO (XI (XO (XI (XO (XI (XO (XI (XI (XO
    (XO (XI (XO (XI (XI (XI (XO (XI (XI (XO (XI (XO (XO (XI (XI (XI (XO (XO
    (XI (XI (XO (XO (XO (XO (XO (XO (XI
    XH)))))))))))))))))))))))))))))))))))))))))))))))))))))))))))))))) :: ((Npos
    (XO (XO (XI (XI (XI (XO (XI (XI (XI (XO (XO (XI (XO (XO (XO (XO (XO (XI
    (XI (XO (XI (XI (XO (XI (XO (XO (XO (XO (XO (XO (XI (XO (XI (XO (XO (XI
    (XI (XO (XI (XO (XO (XO (XI (XO (XO (XO (XI (XI (XO (XI (XI (XI (XO (XI
    (XI (XI (XO (XO (XI (XI (XI (XO (XO
    XH)))))))))))))))))))))))))))))))))))))))))))))))))))))))))))))))) :: ((Npos
    (XO (XO (XO (XO (XO (XO (XO (XO (XO (XI (XI (XO (XO (XO (XO (XI (XO (XI
    (XI (XO (XI (XO (XO (XO (XO (XI (XI (XI (XO (XO (XI (XO (XO (XO (XI (XI
    (XO (XO (XO (XI (XO (XI (XO (XO (XI (XI (XO (XO (XI (XO (XI (XO (XI (XI
    (XO (XO (XO (XO (XO (XI (XI (XO (XI
    XH)))))))))))))))))))))))))))))))))))))))))))))))))))))))))))))))) :: ((Npos
    (XI (XI (XI (XO (XO (XO (XO (XO (XI (XO (XO (XO (XI (XO (XO (XO (XI (XO
    (XI (XI (XO (XO (XI (XI (XI (XO (XO (XO (XI (XI (XO (XO (XO (XI (XI (XI
    (XO (XO (XO (XO (XO (XI (XO (XI (XO (XO (XO (XO (XO (XI (XI (XO (XO (XO
    (XO (XO (XO (XO (XO (XI (XI (XO
    XH))))))))))))))))))))))))))))))))))))))))))))))))))))))))))))))) :: ((Npos
    (XI (XI (XI (XO (XO (XI (XI (XO (XO (XI (XI (XI (XI (XO (XI (XO (XI (XI
    (XI (XO (XI (XO (XO (XO (XI (XO (XO (XO (XI (XO (XO (XI (XO (XO (XO (XO
    (XI (XI (XI (XO (XO (XO (XO (XI (XI (XO (XI (XI (XO (XO (XI (XI (XO (XI
    (XO (XI (XI (XI (XI (XO (XI (XI
    XH))))))))))))))))))))))))))))))))))))))))))))))))))))))))))))))) :: ((Npos
    (XI (XI (XO (XO (XI (XI (XO (XO (XO (XI (XI (XO (XI (XO (XI (XI (XO (XO
    (XO (XI (XI (XI (XI (XO (XI (XO (XI (XI (XI (XI (XI (XI (XO (XI (XO (XO
    (XI (XO (XO (XI (XI (XO (XO (XI (XO (XO (XI (XO (XI (XI (XO (XO (XO (XO
    (XO (XI (XI (XI (XI (XO (XI
    XH)))))))))))))))))))))))))))))))))))))))))))))))))))))))))))))) :: ((Npos
    (XI (XI (XO (XI (XO (XO (XO (XI (XO (XI (XO (XI (XI (XI (XI (XO (XO (XI
    (XI (XI (XO (XO (XO (XI (XO (XO (XO (XI (XI (XO (XO (XI (XI (XI (XO (XO
    (XO (XI (XI (XO (XO (XI (XO (XO (XO (XO (XI (XI (XO (XI (XO (XI (XI (XO
    (XI (XI (XO (XI (XO (XO (XO (XI
    XH))))))))))))))))))))))))))))))))))))))))))))))))))))))))))))))) :: ((Npos
    (XI (XO (XI (XI (XI (XO (XI (XO (XI (XI (XI (XO (XO (XI (XO (XO (XI (XO
    (XI (XO (XI (XO (XI (XO (XI (XO (XI (XO (XI (XO (XO (XO (XO (XI (XO (XO
    (XO (XI (XO (XO (XI (XI (XI (XO (XI (XI (XI (XO (XI (XI (XO (XI (XO (XO
    (XI (XI (XO (XO (XI (XI (XO
    XH)))))))))))))))))))))))))))))))))))))))))))))))))))))))))))))) :: ((Npos
    (XO (XO (XO (XO (XI (XO (XI (XI (XO (XI (XI (XI (XI (XO (XI (XI (XO (XO
    (XI (XO (XO (XI (XI (XI (XO (XO (XI (XO (XI (XO (XI (XI (XI (XO (XO (XI
    (XO (XO (XI (XI (XO (XO (XO (XO (XO (XO (XI (XI (XO (XO (XI (XO (XI (XI
    (XO (XI (XI (XO (XO (XI (XO (XO (XO
    XH)))))))))))))))))))))))))))))))))))))))))))))))))))))))))))))))) :: ((Npos
    (XO (XI (XO (XI (XI (XO (XO (XO (XO (XI (XO (XI (XO (XI (XI (XO (XO (XO
    (XO (XO (XO (XI (XO (XI (XO (XO (XI (XI (XI (XI (XO (XO (XO (XI (XI (XI
    (XO (XO (XO (XO (XI (XI (XI (XI (XI (XO (XI (XO (XO (XO (XI (XO (XI (XO
    (XO (XO (XI (XO (XI (XI (XI (XI (XO
    XH)))))))))))))))))))))))))))))))))))))))))))))))))))))))))))))))) :: ((Npos
    (XO (XO (XO (XO (XI (XI (XO (XO (XI (XI (XI (XI (XO (XI (XO (XO (XO (XI
    (XI (XO (XO (XO (XO (XO (XO (XI (XO (XO (XO (XI (XI (XI (XO (XO (XI (XO
    (XO (XO (XI (XI (XI (XO (XI (XO (XI (XI (XI (XI (XI (XO (XO (XI (XI (XI
    (XO (XO (XI (XO (XI (XI (XO (XO
    XH))))))))))))))))))))))))))))))))))))))))))))))))))))))))))))))) :: ((Npos
    (XI (XO (XI (XI (XO (XI (XI (XI (XI (XI (XO (XO (XO (XO (XO (XO (XI (XO
    (XO (XO (XO (XO (XO (XO (XI (XO (XO (XI (XI (XI (XO (XO (XO (XI (XI (XO
    (XI (XO (XO (XO (XO (XO (XO (XO (XI (XI (XO (XI (XI (XO (XI (XO (XO (XO
    (XI (XI (XO (XI (XO (XI (XO (XI (XO
    XH)))))))))))))))))))))))))))))))))))))))))))))))))))))))))))))))) :: ((Npos
    (XI (XO (XO (XO (XO (XI (XO (XI (XO (XI (XI (XO (XI (XI (XO (XO (XO (XI
    (XO (XO (XO (XO (XI (XI (XO (XI (XO (XI (XI (XO (XO (XO (XO (XI (XO (XO
    (XI (XO (XI (XI (XO (XO (XI (XO (XO (XI (XO (XI (XI (XO (XO (XI (XI (XI
    (XI (XI (XO (XI (XO (XI (XI (XO (XO
    XH)))))))))))))))))))))))))))))))))))))))))))))))))))))))))))))))) :: ((Npos
    (XI (XO (XO (XI (XO (XO (XO (XI (XO (XO (XI (XI (XO (XI (XO (XI (XO (XI
    (XI (XO (XO (XI (XO (XO (XO (XI (XI (XI (XO (XI (XI (XI (XI (XI (XO (XI
    (XI (XI (XI (XI (XI (XO (XI (XO (XO (XO (XO (XO (XI (XO (XI (XI (XI (XO
    (XO (XO (XI (XO (XI (XI (XO (XO (XI
    XH)))))))))))))))))))))))))))))))))))))))))))))))))))))))))))))))) :: ((Npos
    (XI (XO (XO (XO (XO (XO (XI (XI (XI (XO (XO (XI (XO (XO (XI (XI (XO (XI
    (XI (XI (XI (XO (XO (XO (XI (XI (XI (XI (XO (XI (XI (XO (XI (XI (XO (XI
    (XO (XO (XO (XI (XI (XO (XO (XI (XI (XI (XO (XO (XO (XO (XI (XO (XO (XO
    (XI (XO (XO (XO (XO (XI (XO (XI (XO
    XH)))))))))))))))))))))))))))))))))))))))))))))))))))))))))))))))) :: ((Npos
    (XI (XI (XO (XO (XO (XO (XI (XO (XI (XO (XI (XI (XO (XI (XO (XO (XO (XO
    (XI (XO (XO (XO (XO (XI (XI (XO (XO (XI (XO (XI (XI (XI (XI (XI (XO (XI
    (XI (XO (XO (XO (XI (XI (XI (XI (XI (XI (XI (XO (XO (XO (XI (XI (XI (XO
    (XI (XI (XO (XI (XO (XO (XI (XO (XI
    XH)))))))))))))))))))))))))))))))))))))))))))))))))))))))))))))))) :: ((Npos
    (XO (XI (XO (XI (XO (XI (XI (XO (XO (XI (XO (XO (XI (XO (XO (XO (XO (XI
    (XI (XO (XO (XI (XO (XO (XO (XO (XO (XO (XO (XO (XO (XO (XI (XI (XO (XI
    (XO (XO (XO (XO (XI (XO (XI (XO (XO (XO (XO (XO (XO (XO (XO (XO (XI (XO
    (XO (XO (XI (XI (XO (XO (XO (XO (XO
    XH)))))))))))))))))))))))))))))))))))))))))))))))))))))))))))))))) :: ((Npos
    (XO (XO (XO (XO (XI (XI (XO (XO (XO (XO (XO (XO (XI (XO (XO (XI (XO (XI
    (XO (XO (XO (XI (XO (XO (XO (XI (XI (XI (XI (XI (XI (XI (XO (XO (XI (XO
    (XI (XI (XO (XI (XO (XI (XI (XO (XI (XO (XO (XO (XI (XI (XO (XO (XO (XI
    (XI (XI (XI (XI (XI (XO (XI (XI (XO
    XH)))))))))))))))))))))))))))))))))))))))))))))))))))))))))))))))) :: ((Npos
    (XI (XO (XO (XO (XI (XI (XO (XO (XI (XI (XI (XI (XO (XI (XO (XO (XO (XI
    (XI (XO (XO (XI (XI (XO (XI (XI (XI (XO (XI (XI (XO (XO (XI (XO (XO (XO
    (XI (XI (XI (XI (XI (XO (XO (XI (XO (XI (XO (XI (XI (XO (XO (XO (XO (XO
    (XI (XO (XI (XI (XI (XO (XO (XI (XI
    XH)))))))))))))))))))))))))))))))))))))))))))))))))))))))))))))))) :: ((Npos
    (XI (XO (XI (XO (XI (XI (XO (XO (XO (XO (XI (XI (XO (XI (XO (XI (XO (XO
    (XI (XO (XO (XO (XO (XO (XI (XO (XO (XO (XI (XI (XI (XO (XI (XI (XI (XI
    (XO (XO (XI (XI (XI (XO (XO (XO (XI (XI (XO (XI (XI (XO (XI (XO (XO (XO
    (XO (XI (XI (XI (XI (XO (XI
    XH)))))))))))))))))))))))))))))))))))))))))))))))))))))))))))))) :: ((Npos
    (XI (XI (XO (XO (XI (XO (XI (XI (XO (XO (XO (XI (XI (XO (XO (XI (XO (XO
    (XI (XO (XI (XO (XI (XO (XI (XI (XO (XI (XO (XI (XI (XI (XO (XI (XI (XO
    (XO (XO (XI (XO (XI (XO (XO (XI (XO (XI (XI (XO (XI (XI (XO (XI (XO (XO
    (XI (XO (XI (XO (XO (XI (XO (XI
    XH))))))))))))))))))))))))))))))))))))))))))))))))))))))))))))))) :: ((Npos
    (XI (XO (XO (XI (XO (XI (XI (XO (XO (XO (XI (XO (XO (XI (XO (XI (XO (XO
    (XI (XO (XO (XO (XI (XO (XI (XO (XI (XI (XI (XO (XO (XO (XI (XO (XO (XI
    (XI (XI (XO (XI (XO (XO (XO (XI (XI (XI (XO (XI (XI (XO (XI (XI (XO (XI
    (XO (XI (XO (XI (XO (XO (XO (XO (XO
    XH)))))))))))))))))))))))))))))))))))))))))))))))))))))))))))))))) :: ((Npos
    (XO (XO (XO (XO (XI (XI (XI (XO (XI (XI (XI (XO (XI (XO (XI (XO (XI (XI
    (XO (XI (XI (XO (XI (XI (XI (XI (XO (XO (XI (XI (XO (XI (XI (XO (XI (XI
    (XI (XO (XI (XI (XI (XI (XI (XI (XI (XI (XO (XI (XI (XI (XO (XI (XI (XI
    (XO (XI (XI (XI (XO (XI (XO (XO
    XH))))))))))))))))))))))))))))))))))))))))))))))))))))))))))))))) :: ((Npos
    (XO (XI (XI (XI (XO (XI (XO (XO (XO (XO (XO (XI (XI (XO (XO (XO (XO (XI
    (XI (XO (XO (XI (XI (XI (XO (XO (XO (XI (XO (XI (XI (XO (XO (XI (XO (XI
    (XI (XI (XI (XI (XI (XO (XI (XO (XI (XO (XO (XI (XO (XO (XI (XO (XI (XO
    (XI (XI (XI (XI (XO (XO (XO (XI
    XH))))))))))))))))))))))))))))))))))))))))))))))))))))))))))))))) :: ((Npos
    (XO (XI (XO (XI (XI (XO (XO (XO (XO (XO (XO (XO (XI (XO (XI (XO (XO (XI
    (XO (XO (XI (XI (XI (XI (XI (XO (XI (XO (XO (XI (XO (XI (XO (XO (XO (XI
    (XI (XI (XO (XI (XI (XO (XI (XO (XO (XI (XO (XO (XI (XI (XO (XI (XI (XO
    (XO (XI (XI (XI (XI (XI (XO (XI (XI
    XH)))))))))))))))))))))))))))))))))))))))))))))))))))))))))))))))) :: ((Npos
    (XO (XO (XO (XO (XI (XO (XI (XI (XI (XO (XO (XI (XO (XI (XO (XI (XI (XI
    (XO (XI (XI (XO (XI (XO (XO (XO (XI (XI (XO (XI (XI (XO (XI (XO (XI (XI
    (XO (XO (XO (XI (XO (XO (XO (XO (XO (XI (XI (XO (XI (XO (XO (XI (XO (XI
    (XO (XI (XI (XO (XI (XO (XI (XI (XI
    XH)))))))))))))))))))))))))))))))))))))))))))))))))))))))))))))))) :: ((Npos
    (XI (XI (XO (XI (XO (XO (XO (XI (XI (XO (XI (XI (XO (XI (XO (XO (XI (XI
    (XI (XO (XI (XI (XO (XO (XI (XI (XI (XI (XI (XI (XO (XI (XO (XO (XO (XI
    (XO (XI (XI (XI (XI (XI (XO (XI (XO (XI (XO (XI (XO (XI (XI (XO (XI (XO
    (XO (XI (XI (XI (XO (XO (XI (XO
    XH))))))))))))))))))))))))))))))))))))))))))))))))))))))))))))))) :: ((Npos
    (XI (XI (XO (XI (XO (XO (XO (XI (XO (XO (XI (XO (XO (XO (XI (XI (XO (XI
    (XI (XI (XO (XI (XO (XO (XI (XI (XO (XI (XI (XI (XO (XO (XO (XO (XO (XI
    (XO (XO (XO (XO (XI (XO (XO (XI (XI (XO (XI (XO (XI (XO (XO (XO (XO (XI
    (XO (XO (XI (XI (XO (XI (XI (XO (XO
    XH)))))))))))))))))))))))))))))))))))))))))))))))))))))))))))))))) :: ((Npos
    (XO (XI (XO (XI (XO (XI (XO (XI (XO (XI (XO (XO (XI (XO (XO (XO (XI (XI
    (XO (XI (XI (XO (XO (XI (XI (XO (XO (XO (XO (XO (XO (XO (XO (XO (XO (XI
    (XI (XI (XI (XI (XI (XO (XO (XI (XO (XO (XI (XI (XO (XI (XO (XO (XI (XI
    (XO (XO (XI (XI (XI (XI (XI
    XH)))))))))))))))))))))))))))))))))))))))))))))))))))))))))))))) :: ((Npos
    (XO (XO (XO (XO (XO (XO (XO (XI (XO (XI (XO (XO (XI (XI (XI (XO (XO (XI
    (XO (XI (XI (XO (XI (XI (XO (XI (XI (XO (XI (XI (XI (XI (XO (XO (XI (XO
    (XI (XI (XI (XO (XO (XI (XI (XO (XI (XO (XI (XO (XO (XI (XO (XO (XO (XI
    (XI (XO (XI (XO (XI (XI (XO (XO (XO
    XH)))))))))))))))))))))))))))))))))))))))))))))))))))))))))))))))) :: ((Npos
    (XO (XI (XI (XI (XO (XI (XI (XO (XO (XI (XO (XI (XO (XO (XO (XO (XO (XI
    (XI (XI (XI (XO (XO (XO (XO (XO (XI (XI (XI (XO (XO (XO (XO (XO (XO (XI
    (XO (XO (XI (XI (XI (XO (XO (XO (XI (XI (XI (XO (XO (XI (XI (XO (XO (XI
    (XI (XO (XI (XO (XO (XO (XI (XI (XI
    XH)))))))))))))))))))))))))))))))))))))))))))))))))))))))))))))))) :: ((Npos
    (XI (XI (XI (XO (XI (XO (XO (XI (XO (XO (XI (XI (XI (XO (XO (XO (XI (XO
    (XI (XI (XI (XO (XI (XI (XO (XI (XI (XO (XI (XO (XO (XO (XI (XI (XI (XO
    (XI (XI (XO (XO (XO (XO (XO (XO (XO (XI (XO (XI (XI (XI (XI (XO (XO (XO
    (XI (XI (XI (XI (XI (XO (XO (XO (XI
    XH)))))))))))))))))))))))))))))))))))))))))))))))))))))))))))))))) :: ((Npos
    (XI (XO (XO (XI (XO (XI (XO (XO (XO (XI (XI (XI (XI (XO (XO (XO (XI (XI
    (XO (XI (XI (XI (XO (XI (XI (XO (XI (XO (XI (XI (XO (XO (XI (XO (XI (XO
    (XI (XI (XO (XO (XO (XI (XI (XI (XO (XI (XI (XO (XI (XO (XO (XO (XO (XI
    (XI (XI (XO (XO (XI (XI (XI (XI
    XH))))))))))))))))))))))))))))))))))))))))))))))))))))))))))))))) :: ((Npos
    (XI (XI (XI (XO (XO (XI (XO (XO (XO (XI (XO (XO (XO (XO (XO (XI (XI (XI
    (XO (XI (XO (XI (XI (XI (XO (XO (XO (XO (XI (XO (XO (XI (XI (XO (XO (XO
    (XO (XO (XO (XI (XI (XI (XO (XI (XI (XI (XI (XI (XO (XO (XI (XO (XO (XO
    (XI (XI (XI (XO (XI (XO
    XH))))))))))))))))))))))))))))))))))))))))))))))))))))))))))))) :: ((Npos
    (XO (XO (XI (XI (XI (XI (XO (XO (XI (XO (XO (XI (XO (XI (XI (XI (XI (XI
    (XI (XI (XI (XO (XI (XI (XI (XO (XO (XI (XI (XO (XO (XO (XI (XO (XO (XO
    (XI (XI (XI (XO (XI (XO (XI (XO (XI (XI (XO (XO (XI (XO (XI (XO (XI (XO
    (XO (XO (XO (XO (XO (XO (XI (XI
    XH))))))))))))))))))))))))))))))))))))))))))))))))))))))))))))))) :: ((Npos
    (XO (XI (XI (XI (XI (XI (XI (XI (XI (XO (XO (XO (XI (XI (XO (XO (XI (XO
    (XO (XO (XO (XO (XO (XI (XI (XI (XI (XI (XI (XO (XO (XO (XO (XO (XO (XI
    (XI (XI (XO (XI (XO (XO (XI (XO (XO (XI (XI (XI (XO (XI (XO (XI (XO (XO
    (XO (XO (XI (XO (XO (XI (XI (XO
    XH))))))))))))))))))))))))))))))))))))))))))))))))))))))))))))))) :: ((Npos
    (XI (XO (XI (XO (XI (XO (XO (XO (XO (XO (XO (XI (XO (XO (XI (XO (XO (XI
    (XO (XI (XI (XI (XO (XI (XI (XI (XO (XO (XO (XO (XO (XI (XO (XI (XO (XO
    (XI (XI (XO (XO (XI (XO (XO (XO (XO (XI (XO (XO (XO (XO (XO (XI (XI (XO
    (XI (XO (XI (XI (XI (XO (XI
    XH)))))))))))))))))))))))))))))))))))))))))))))))))))))))))))))) :: ((Npos
    (XO (XI (XI (XO (XO (XO (XO (XO (XI (XO (XI (XO (XI (XI (XO (XI (XO (XO
    (XI (XI (XO (XO (XO (XO (XO (XO (XI (XO (XO (XI (XI (XO (XO (XO (XI (XO
    (XO (XO (XO (XI (XO (XO (XO (XO (XI (XI (XI (XO (XO (XO (XO (XI (XI (XI
    (XI (XO (XI (XO (XO (XI (XO
    XH)))))))))))))))))))))))))))))))))))))))))))))))))))))))))))))) :: ((Npos
    (XO (XI (XI (XI (XO (XI (XO (XO (XI (XO (XO (XI (XI (XI (XI (XI (XO (XI
    (XO (XO (XO (XI (XO (XO (XI (XO (XO (XO (XO (XI (XI (XI (XI (XI (XO (XI
    (XO (XI (XI (XI (XO (XI (XI (XO (XI (XI (XO (XO (XO (XO (XI (XO (XI (XO
    (XO (XO (XO (XI (XO (XO (XI (XI (XI
    XH)))))))))))))))))))))))))))))))))))))))))))))))))))))))))))))))) :: ((Npos
    (XI (XO (XI (XI (XO (XI (XO (XI (XO (XI (XI (XO (XO (XI (XI (XI (XO (XO
    (XI (XI (XO (XI (XO (XO (XO (XO (XI (XI (XI (XI (XO (XI (XO (XI (XO (XO
    (XO (XO (XI (XO (XO (XI (XO (XO (XO (XI (XO (XI (XO (XO (XO (XO (XO (XO
    (XO (XO (XO (XO (XI (XI (XI
    XH)))))))))))))))))))))))))))))))))))))))))))))))))))))))))))))) :: ((Npos
    (XI (XI (XO (XI (XI (XI (XO (XI (XI (XI (XO (XO (XO (XO (XI (XI (XO (XI
    (XI (XI (XO (XO (XI (XI (XI (XO (XO (XI (XI (XO (XI (XI (XO (XI (XO (XO
    (XO (XO (XI (XI (XO (XO (XO (XO (XI (XI (XO (XO (XO (XO (XI (XO (XI (XO
    (XO (XO (XI (XO (XO (XO (XO
    XH)))))))))))))))))))))))))))))))))))))))))))))))))))))))))))))) :: ((Npos
    (XI (XI (XO (XO (XO (XO (XO (XO (XI (XI (XI (XO (XO (XO (XO (XI (XI (XI
    (XO (XO (XI (XI (XI (XI (XI (XO (XO (XI (XO (XI (XI (XO (XI (XI (XO (XO
    (XO (XI (XI (XO (XO (XI (XI (XI (XO (XI (XO (XO (XO (XO (XI (XI (XO (XI
    (XI (XO (XO (XO (XO
    XH)))))))))))))))))))))))))))))))))))))))))))))))))))))))))))) :: ((Npos
    (XO (XO (XI (XI (XI (XI (XI (XI (XI (XI (XI (XO (XO (XO (XI (XO (XO (XI
    (XI (XI (XI (XI (XI (XO (XO (XI (XI (XI (XI (XI (XO (XO (XO (XO (XO (XO
    (XI (XI (XO (XO (XO (XI (XO (XI (XI (XI (XI (XO (XI (XO (XO (XI (XI (XI
    (XO (XI (XO (XI (XO (XO (XI (XO (XO
    XH)))))))))))))))))))))))))))))))))))))))))))))))))))))))))))))))) :: ((Npos
    (XO (XO (XO (XO (XO (XI (XI (XI (XI (XI (XI (XO (XO (XO (XI (XI (XI (XO
    (XI (XO (XO (XO (XO (XI (XO (XI (XO (XI (XI (XI (XO (XO (XO (XI (XI (XO
    (XI (XO (XO (XI (XO (XI (XO (XO (XI (XI (XI (XO (XI (XO (XO (XI (XI (XI
    (XI (XO (XI (XO (XO (XI (XO
    XH)))))))))))))))))))))))))))))))))))))))))))))))))))))))))))))) :: ((Npos
    (XO (XI (XO (XO (XO (XO (XI (XO (XO (XI (XI (XO (XO (XI (XI (XI (XO (XO
    (XI (XI (XO (XI (XI (XO (XI (XI (XI (XI (XO (XO (XI (XI (XI (XI (XO (XI
    (XI (XI (XI (XO (XO (XI (XI (XO (XI (XI (XO (XI (XI (XI (XI (XI (XO (XO
    (XO (XI (XI (XI (XO (XI (XO (XO
    XH))))))))))))))))))))))))))))))))))))))))))))))))))))))))))))))) :: ((Npos
    (XO (XI (XO (XI (XO (XI (XI (XI (XI (XO (XO (XO (XO (XO (XO (XO (XO (XO
    (XI (XI (XO (XO (XI (XO (XO (XI (XI (XI (XI (XI (XI (XO (XI (XO (XO (XO
    (XI (XI (XI (XI (XO (XO (XI (XO (XO (XO (XO (XI (XI (XI (XI (XO (XO (XI
    (XO (XO (XO (XI (XO (XO (XO (XO
    XH))))))))))))))))))))))))))))))))))))))))))))))))))))))))))))))) :: ((Npos
    (XO (XI (XI (XO (XI (XO (XO (XO (XI (XO (XI (XO (XO (XI (XO (XI (XO (XI
    (XI (XO (XO (XO (XI (XI (XI (XO (XI (XI (XI (XI (XI (XO (XO (XO (XI (XI
    (XI (XO (XI (XO (XO (XO (XI (XO (XO (XO (XO (XO (XI (XI (XI (XI (XO (XO
    (XI (XI (XO (XO (XI (XI (XO (XI (XI
    XH)))))))))))))))))))))))))))))))))))))))))))))))))))))))))))))))) :: ((Npos
    (XO (XO (XI (XO (XI (XI (XO (XO (XI (XI (XI (XI (XO (XI (XO (XO (XO (XI
    (XI (XI (XO (XI (XO (XI (XI (XO (XO (XO (XO (XO (XO (XO (XO (XO (XI (XI
    (XO (XI (XO (XO (XI (XO (XI (XO (XI (XO (XI (XO (XI (XO (XI (XI (XO (XO
    (XI (XI (XI (XI (XO (XI (XO (XI (XI
    XH)))))))))))))))))))))))))))))))))))))))))))))))))))))))))))))))) :: ((Npos
    (XI (XO (XI (XO (XI (XO (XO (XO (XI (XI (XO (XO (XO (XO (XI (XI (XI (XO
    (XI (XI (XO (XI (XO (XO (XI (XO (XI (XI (XI (XI (XI (XO (XI (XI (XO (XO
    (XI (XO (XO (XO (XI (XI (XI (XO (XO (XI (XI (XO (XO (XO (XO (XO (XO (XO
    (XO (XI (XI (XI (XO (XI (XO (XI (XO
    XH)))))))))))))))))))))))))))))))))))))))))))))))))))))))))))))))) :: ((Npos
    (XI (XI (XI (XO (XI (XO (XO (XI (XI (XO (XI (XI (XO (XI (XI (XO (XO (XI
    (XI (XO (XO (XI (XI (XI (XO (XI (XI (XO (XO (XO (XI (XI (XO (XO (XO (XO
    (XO (XI (XI (XI (XO (XO (XI (XO (XI (XO (XI (XO (XI (XI (XI (XI (XI (XI
    (XO (XI (XI (XI (XI (XO (XI (XI
    XH))))))))))))))))))))))))))))))))))))))))))))))))))))))))))))))) :: ((Npos
    (XI (XI (XO (XI (XO (XI (XO (XO (XI (XO (XI (XI (XO (XI (XO (XO (XI (XI
    (XI (XO (XI (XO (XO (XI (XO (XI (XO (XO (XI (XO (XI (XO (XI (XO (XO (XI
    (XI (XO (XO (XI (XO (XI (XI (XI (XI (XI (XO (XI (XO (XO (XI (XO (XI (XI
    (XI (XO (XO (XO (XO (XO (XO (XO (XO
    XH)))))))))))))))))))))))))))))))))))))))))))))))))))))))))))))))) :: ((Npos
    (XO (XO (XI (XI (XI (XI (XO (XO (XI (XO (XI (XO (XI (XO (XI (XO (XO (XO
    (XI (XO (XO (XI (XO (XI (XO (XI (XO (XO (XO (XO (XO (XI (XI (XI (XI (XI
    (XI (XO (XI (XI (XI (XO (XI (XI (XO (XI (XO (XO (XI (XO (XI (XO (XO (XO
    (XO (XO (XI (XI (XO (XI (XI (XO (XI
    XH)))))))))))))))))))))))))))))))))))))))))))))))))))))))))))))))) :: ((Npos
    (XI (XO (XO (XO (XI (XI (XO (XI (XO (XI (XI (XI (XI (XO (XO (XI (XI (XI
    (XO (XI (XI (XI (XI (XO (XI (XO (XI (XO (XO (XI (XO (XO (XO (XO (XO (XI
    (XO (XO (XI (XO (XO (XI (XO (XO (XO (XI (XI (XI (XO (XI (XO (XI (XI (XO
    (XO (XO (XO (XO (XI (XO (XO (XO
    XH))))))))))))))))))))))))))))))))))))))))))))))))))))))))))))))) :: ((Npos
    (XI (XI (XI (XI (XO (XO (XO (XI (XO (XI (XI (XI (XI (XO (XI (XO (XO (XI
    (XI (XI (XO (XO (XI (XI (XI (XI (XO (XO (XO (XO (XI (XI (XO (XO (XO (XO
    (XI (XO (XO (XI (XO (XO (XO (XO (XO (XI (XI (XO (XI (XO (XO (XO (XO (XO
    (XO (XO (XO (XO (XI (XO (XI (XI (XI
    XH)))))))))))))))))))))))))))))))))))))))))))))))))))))))))))))))) :: ((Npos
    (XI (XI (XO (XO (XI (XO (XO (XI (XO (XO (XI (XI (XI (XO (XO (XO (XI (XO
    (XI (XO (XI (XO (XI (XI (XI (XO (XO (XI (XO (XO (XI (XO (XI (XO (XI (XO
    (XO (XI (XO (XO (XI (XI (XO (XI (XO (XI (XO (XO (XO (XO (XO (XO (XI (XI
    (XO (XO (XO (XI (XO (XO
    XH))))))))))))))))))))))))))))))))))))))))))))))))))))))))))))) :: ((Npos
    (XO (XO (XO (XI (XI (XO (XO (XO (XO (XO (XO (XI (XO (XI (XO (XO (XO (XO
    (XO (XO (XO (XO (XI (XI (XI (XO (XI (XO (XI (XO (XI (XI (XO (XI (XI (XI
    (XO (XO (XO (XO (XO (XI (XO (XO (XO (XI (XI (XI (XO (XO (XI (XI (XO (XI
    (XI (XI (XI (XI (XI (XI (XO (XI (XO
    XH)))))))))))))))))))))))))))))))))))))))))))))))))))))))))))))))) :: ((Npos
    (XI (XI (XI (XO (XO (XO (XO (XI (XI (XO (XO (XI (XI (XO (XI (XI (XI (XI
    (XI (XI (XI (XI (XO (XO (XO (XI (XO (XI (XI (XI (XI (XO (XI (XI (XO (XI
    (XI (XI (XO (XI (XI (XO (XI (XI (XO (XI (XI (XI (XI (XO (XI (XO (XO (XO
    (XI (XO (XO (XI
    XH))))))))))))))))))))))))))))))))))))))))))))))))))))))))))) :: ((Npos
    (XO (XI (XO (XO (XI (XO (XI (XO (XO (XO (XO (XI (XO (XI (XI (XO (XI (XI
    (XI (XI (XO (XO (XI (XO (XI (XI (XI (XO (XI (XO (XI (XO (XI (XO (XI (XI
    (XO (XI (XO (XI (XI (XI (XI (XO (XI (XI (XI (XI (XO (XI (XO (XI (XI (XI
    (XI (XI (XI (XI (XI (XO (XI (XO
    XH))))))))))))))))))))))))))))))))))))))))))))))))))))))))))))))) :: ((Npos
    (XO (XO (XO (XI (XI (XO (XO (XO (XI (XO (XO (XI (XI (XO (XO (XO (XO (XI
    (XI (XO (XO (XO (XI (XO (XO (XO (XO (XI (XO (XI (XO (XI (XO (XO (XO (XI
    (XO (XI (XI (XI (XO (XO (XO (XI (XI (XI (XO (XI (XI (XO (XI (XO (XO (XO
    (XO (XO (XI (XO
    XH))))))))))))))))))))))))))))))))))))))))))))))))))))))))))) :: ((Npos
    (XI (XO (XI (XO (XI (XO (XO (XI (XI (XI (XI (XO (XO (XI (XI (XO (XI (XI
    (XI (XI (XI (XO (XO (XO (XO (XO (XI (XI (XO (XO (XO (XO (XO (XO (XO (XO
    (XI (XI (XI (XO (XI (XI (XI (XI (XO (XO (XO (XI (XI (XO (XO (XI (XO (XO
    (XO (XO (XI
    XH)))))))))))))))))))))))))))))))))))))))))))))))))))))))))) :: ((Npos
    (XI (XO (XO (XO (XI (XI (XO (XI (XO (XI (XI (XO (XI (XO (XI (XI (XO (XI
    (XI (XO (XO (XI (XI (XO (XI (XI (XI (XI (XO (XO (XI (XI (XI (XO (XI (XO
    (XI (XI (XO (XI (XI (XO (XI (XI (XO (XO (XI (XO (XI (XI (XO (XI (XO (XO
    (XI (XO (XO (XO (XO (XO (XI (XO (XO
    XH)))))))))))))))))))))))))))))))))))))))))))))))))))))))))))))))) :: ((Npos
    (XI (XO (XI (XI (XI (XO (XI (XI (XI (XI (XI (XI (XO (XO (XO (XI (XI (XO
    (XO (XO (XO (XO (XI (XO (XO (XI (XO (XI (XO (XO (XO (XO (XO (XI (XI (XI
    (XI (XO (XI (XI (XI (XI (XO (XI (XI (XI (XO (XI (XI (XI (XO (XO (XO (XI
    (XO (XO (XO (XO (XO (XI (XO (XI
    XH))))))))))))))))))))))))))))))))))))))))))))))))))))))))))))))) :: ((Npos
    (XI (XI (XI (XO (XO (XO (XI (XO (XO (XI (XI (XI (XO (XI (XO (XO (XI (XI
    (XI (XO (XI (XO (XI (XO (XI (XI (XI (XI (XI (XI (XO (XO (XO (XO (XO (XI
    (XI (XI (XO (XO (XI (XO (XO (XO (XI (XI (XI (XO (XO (XO (XO (XO (XO (XO
    (XI (XI (XO (XO (XO (XI (XO (XO (XI
    XH)))))))))))))))))))))))))))))))))))))))))))))))))))))))))))))))) :: ((Npos
    (XI (XO (XI (XI (XO (XO (XI (XO (XO (XI (XO (XO (XI (XO (XO (XI (XI (XI
    (XI (XI (XO (XI (XI (XI (XI (XO (XO (XI (XI (XO (XI (XI (XI (XI (XI (XO
    (XO (XI (XO (XI (XI (XO (XI (XO (XI (XI (XI (XI (XI (XO (XI (XO (XO (XO
    (XI (XO (XO (XI (XO (XI (XI
    XH)))))))))))))))))))))))))))))))))))))))))))))))))))))))))))))) :: ((Npos
    (XO (XI (XI (XI (XI (XI (XI (XI (XO (XI (XI (XO (XO (XI (XO (XO (XO (XO
    (XO (XO (XI (XO (XI (XI (XO (XO (XO (XI (XI (XI (XO (XI (XO (XI (XI (XO
    (XO (XO (XI (XI (XI (XI (XO (XI (XI (XO (XI (XI (XO (XO (XO (XO (XO (XO
    (XI (XI (XI (XO (XO (XI (XO (XO (XO
    XH)))))))))))))))))))))))))))))))))))))))))))))))))))))))))))))))) :: ((Npos
    (XO (XI (XI (XI (XI (XI (XO (XO (XI (XI (XO (XI (XI (XI (XI (XI (XO (XO
    (XO (XO (XI (XI (XO (XI (XI (XO (XI (XO (XO (XO (XI (XO (XO (XI (XO (XI
    (XI (XO (XI (XI (XI (XO (XI (XI (XI (XO (XO (XI (XI (XO (XO (XI (XI (XO
    (XO (XO (XI (XI (XI (XO (XI (XO (XO
    XH)))))))))))))))))))))))))))))))))))))))))))))))))))))))))))))))) :: ((Npos
    (XI (XI (XI (XO (XI (XI (XO (XO (XI (XI (XI (XI (XO (XO (XI (XO (XO (XI
    (XI (XI (XO (XO (XI (XO (XI (XO (XI (XI (XI (XI (XI (XO (XI (XI (XO (XO
    (XO (XI (XI (XO (XO (XI (XO (XO (XO (XO (XI (XO (XO (XO (XI (XO (XI (XI
    (XI (XI (XI (XI (XO (XO (XO (XO
    XH))))))))))))))))))))))))))))))))))))))))))))))))))))))))))))))) :: ((Npos
    (XO (XO (XO (XI (XI (XO (XI (XI (XO (XI (XO (XI (XO (XO (XO (XO (XO (XI
    (XI (XI (XI (XI (XI (XI (XI (XI (XI (XI (XO (XI (XO (XO (XO (XI (XO (XO
    (XO (XI (XI (XO (XO (XI (XO (XO (XI (XO (XI (XI (XO (XO (XO (XI (XO (XO
    (XI (XI (XO
    XH)))))))))))))))))))))))))))))))))))))))))))))))))))))))))) :: ((Npos
    (XI (XO (XI (XI (XI (XO (XI (XO (XI (XI (XI (XI (XI (XO (XI (XI (XI (XO
    (XI (XO (XO (XO (XI (XI (XI (XI (XI (XO (XO (XO (XI (XO (XI (XO (XO (XI
    (XO (XI (XO (XI (XO (XI (XI (XI (XO (XI (XI (XI (XO (XI (XI (XI (XO (XO
    (XI (XI (XO (XI (XO (XO (XI (XI (XO
    XH)))))))))))))))))))))))))))))))))))))))))))))))))))))))))))))))) :: ((Npos
    (XI (XI (XO (XO (XO (XO (XI (XI (XO (XI (XI (XI (XO (XO (XO (XI (XO (XI
    (XO (XO (XI (XO (XI (XO (XI (XI (XO (XO (XI (XO (XI (XO (XO (XI (XI (XI
    (XO (XI (XI (XO (XI (XI (XO (XI (XI (XI (XO (XO (XO (XI (XO (XI (XO (XI
    (XI (XO (XI (XI
    XH))))))))))))))))))))))))))))))))))))))))))))))))))))))))))) :: ((Npos
    (XI (XO (XI (XI (XO (XI (XI (XI (XO (XI (XO (XI (XI (XI (XO (XO (XI (XI
    (XO (XO (XI (XI (XO (XI (XO (XI (XO (XI (XO (XI (XO (XO (XI (XI (XO (XI
    (XO (XI (XI (XI (XI (XO (XO (XI (XO (XO (XO (XO (XO (XO (XI (XO (XO (XO
    (XO (XI (XO (XO (XO (XI (XI (XI (XI
    XH)))))))))))))))))))))))))))))))))))))))))))))))))))))))))))))))) :: ((Npos
    (XI (XO (XO (XI (XO (XO (XI (XO (XI (XI (XO (XO (XI (XI (XI (XO (XI (XO
    (XI (XI (XO (XO (XO (XO (XI (XI (XI (XO (XO (XI (XO (XI (XO (XO (XO (XI
    (XI (XI (XO (XO (XI (XO (XO (XO (XO (XO (XO (XO (XO (XI (XO (XO (XI (XO
    (XI (XO (XI (XO (XO (XI (XI (XO (XI
    XH)))))))))))))))))))))))))))))))))))))))))))))))))))))))))))))))) :: ((Npos
    (XO (XI (XO (XO (XO (XO (XI (XO (XI (XO (XO (XO (XI (XO (XI (XI (XI (XO
    (XO (XI (XI (XI (XO (XI (XI (XI (XI (XI (XO (XO (XO (XI (XO (XO (XO (XI
    (XI (XI (XI (XO (XI (XI (XI (XO (XO (XO (XO (XI (XI (XO (XO (XO (XI (XO
    (XI (XO (XI (XI (XI (XO (XI (XO
    XH))))))))))))))))))))))))))))))))))))))))))))))))))))))))))))))) :: ((Npos
    (XI (XO (XO (XI (XI (XO (XI (XO (XO (XO (XO (XO (XO (XI (XI (XI (XI (XI
    (XI (XI (XI (XO (XO (XI (XI (XO (XO (XI (XO (XI (XO (XO (XO (XO (XI (XI
    (XO (XO (XI (XI (XI (XI (XI (XO (XO (XI (XI (XI (XO (XO (XO (XI (XO (XO
    (XO (XO (XO (XO (XO (XO (XI (XI
    XH))))))))))))))))))))))))))))))))))))))))))))))))))))))))))))))) :: ((Npos
    (XI (XI (XO (XI (XO (XI (XO (XI (XI (XI (XI (XI (XO (XO (XO (XO (XO (XO
    (XO (XI (XI (XO (XI (XI (XO (XO (XO (XI (XO (XI (XO (XI (XI (XO (XO (XI
    (XI (XI (XO (XI (XI (XO (XI (XO (XI (XI (XO (XO (XI (XI (XI (XO (XI (XI
    (XO (XI (XO (XO (XI (XI (XI (XO (XO
    XH)))))))))))))))))))))))))))))))))))))))))))))))))))))))))))))))) :: ((Npos
    (XO (XO (XI (XI (XO (XI (XI (XI (XI (XO (XO (XO (XI (XO (XI (XI (XI (XI
    (XO (XO (XO (XI (XO (XO (XO (XO (XO (XO (XI (XI (XI (XI (XO (XI (XI (XO
    (XO (XI (XO (XI (XI (XO (XI (XI (XO (XO (XI (XO (XO (XO (XI (XI (XI (XI
    (XO (XO (XI (XO (XI (XI (XI (XO
    XH))))))))))))))))))))))))))))))))))))))))))))))))))))))))))))))) :: ((Npos
    (XO (XI (XO (XO (XI (XO (XI (XI (XO (XO (XI (XI (XO (XO (XI (XO (XO (XI
    (XO (XO (XO (XI (XO (XI (XO (XO (XI (XI (XO (XO (XO (XI (XO (XO (XO (XO
    (XI (XI (XI (XI (XI (XO (XO (XI (XI (XO (XO (XI (XO (XI (XO (XO (XO (XO
    (XI (XO (XO (XO (XI (XO (XO (XI (XO
    XH)))))))))))))))))))))))))))))))))))))))))))))))))))))))))))))))) :: ((Npos
    (XO (XO (XI (XO (XO (XI (XO (XI (XO (XI (XO (XO (XO (XO (XI (XO (XI (XO
    (XI (XO (XI (XO (XI (XI (XO (XI (XI (XI (XI (XI (XO (XI (XI (XO (XO (XI
    (XI (XI (XO (XI (XO (XO (XO (XI (XO (XI (XO (XI (XI (XI (XI (XI (XO (XI
    (XO (XI (XI (XO (XI (XO (XI (XI (XO
    XH)))))))))))))))))))))))))))))))))))))))))))))))))))))))))))))))) :: ((Npos
    (XO (XO (XO (XI (XO (XO (XO (XO (XI (XO (XI (XO (XO (XI (XI (XI (XI (XI
    (XI (XO (XO (XO (XO (XO (XI (XO (XI (XO (XI (XI (XO (XI (XI (XI (XO (XI
    (XI (XO (XI (XO (XI (XO (XO (XO (XI (XO (XI (XO (XO (XI (XI (XI (XI (XI
    (XI (XO (XO (XI (XO (XI (XO (XO (XI
    XH)))))))))))))))))))))))))))))))))))))))))))))))))))))))))))))))) :: ((Npos
    (XI (XI (XI (XI (XO (XO (XO (XI (XI (XI (XO (XO (XI (XI (XI (XO (XI (XO
    (XO (XO (XI (XI (XO (XO (XI (XI (XO (XO (XO (XI (XO (XI (XI (XI (XI (XO
    (XO (XI (XI (XI (XO (XI (XO (XO (XI (XI (XI (XO (XO (XO (XO (XI (XI (XI
    (XO (XO (XI (XI (XO (XO (XO (XO (XO
    XH)))))))))))))))))))))))))))))))))))))))))))))))))))))))))))))))) :: ((Npos
    (XO (XO (XO (XI (XO (XO (XO (XO (XO (XI (XI (XO (XI (XI (XI (XO (XO (XI
    (XO (XI (XO (XO (XI (XI (XO (XO (XO (XO (XO (XI (XO (XI (XO (XI (XI (XO
    (XO (XI (XO (XI (XI (XI (XI (XI (XO (XO (XO (XI (XI (XO (XO (XO (XO (XO
    (XO (XI (XI (XO (XI (XO (XO (XI (XI
    XH)))))))))))))))))))))))))))))))))))))))))))))))))))))))))))))))) :: ((Npos
    (XI (XI (XO (XI (XO (XI (XO (XI (XO (XO (XO (XI (XO (XO (XO (XI (XI (XO
    (XO (XO (XI (XI (XI (XI (XI (XO (XI (XO (XI (XI (XI (XI (XO (XI (XI (XO
    (XI (XO (XI (XO (XI (XO (XO (XI (XI (XI (XO (XO (XO (XI (XI (XI (XI (XO
    (XI (XO (XI (XI (XO (XI (XO
    XH)))))))))))))))))))))))))))))))))))))))))))))))))))))))))))))) :: ((Npos
    (XI (XI (XO (XI (XI (XO (XI (XI (XI (XI (XI (XO (XI (XI (XI (XO (XO (XO
    (XO (XO (XI (XI (XI (XI (XI (XI (XO (XO (XI (XI (XO (XI (XO (XI (XO (XI
    (XI (XI (XI (XO (XI (XI (XI (XO (XI (XO (XI (XI (XI (XO (XI (XI (XO (XO
    (XO (XI (XO (XO (XI (XI (XI (XI (XI
    XH)))))))))))))))))))))))))))))))))))))))))))))))))))))))))))))))) :: ((Npos
    (XO (XO (XI (XI (XO (XI (XI (XO (XO (XI (XI (XI (XI (XO (XO (XO (XO (XO
    (XI (XI (XI (XO (XO (XI (XI (XI (XI (XI (XI (XO (XO (XO (XO (XO (XO (XO
    (XI (XO (XO (XO (XI (XI (XO (XO (XI (XO (XO (XO (XO (XI (XI (XO (XO (XI
    (XI (XO (XO (XO (XO (XO (XO (XI (XO
    XH)))))))))))))))))))))))))))))))))))))))))))))))))))))))))))))))) :: ((Npos
    (XO (XO (XO (XI (XI (XO (XO (XO (XO (XI (XI (XO (XO (XO (XI (XO (XI (XI
    (XO (XI (XO (XI (XO (XI (XI (XO (XO (XI (XO (XI (XO (XO (XI (XO (XI (XI
    (XO (XO (XO (XI (XI (XI (XO (XI (XI (XO (XI (XO (XI (XO (XI (XO (XI (XI
    (XO (XI (XO (XI (XO (XI (XI (XO (XO
    XH)))))))))))))))))))))))))))))))))))))))))))))))))))))))))))))))) :: ((Npos
    (XO (XO (XO (XI (XO (XI (XI (XI (XI (XO (XO (XI (XO (XI (XO (XO (XO (XI
    (XI (XI (XO (XI (XI (XO (XO (XI (XI (XI (XI (XO (XO (XO (XO (XI (XO (XO
    (XI (XI (XI (XI (XI (XI (XI (XI (XO (XO (XO (XO (XI (XO (XI (XO (XO (XI
    (XI (XO (XI (XO (XO (XI (XO
    XH)))))))))))))))))))))))))))))))))))))))))))))))))))))))))))))) :: ((Npos
    (XO (XI (XI (XO (XO (XI (XO (XI (XI (XO (XI (XI (XO (XI (XO (XO (XO (XI
    (XI (XI (XI (XI (XO (XO (XI (XI (XI (XI (XI (XO (XI (XI (XI (XI (XO (XO
    (XI (XI (XO (XO (XI (XO (XO (XI (XI (XI (XI (XO (XO (XO (XO (XO (XI (XI
    (XI (XO (XI (XI (XO (XO (XO (XO
    XH))))))))))))))))))))))))))))))))))))))))))))))))))))))))))))))) :: ((Npos
    (XI (XI (XO (XO (XI (XO (XO (XI (XI (XO (XO (XI (XI (XI (XO (XO (XI (XI
    (XI (XO (XI (XO (XI (XO (XI (XI (XO (XO (XO (XI (XO (XI (XI (XI (XI (XO
    (XI (XI (XO (XO (XO (XI (XI (XI (XI (XI (XO (XI (XO (XO (XI (XI (XO (XO
    (XO (XI (XI (XO (XI (XO (XI (XO (XO
    XH)))))))))))))))))))))))))))))))))))))))))))))))))))))))))))))))) :: ((Npos
    (XO (XO (XI (XO (XO (XI (XI (XI (XO (XI (XI (XO (XO (XO (XI (XO (XI (XO
    (XI (XI (XO (XO (XO (XO (XO (XI (XI (XI (XI (XI (XI (XI (XO (XO (XO (XI
    (XI (XI (XI (XI (XI (XI (XO (XI (XO (XI (XI (XO (XO (XO (XI (XI (XI (XO
    (XO (XI (XO (XI (XO (XO (XO
    XH)))))))))))))))))))))))))))))))))))))))))))))))))))))))))))))) :: ((Npos
    (XI (XI (XI (XI (XI (XI (XO (XI (XI (XI (XI (XI (XI (XI (XO (XO (XO (XO
    (XI (XO (XI (XI (XI (XI (XO (XI (XI (XO (XI (XI (XO (XI (XO (XI (XO (XO
    (XO (XI (XI (XO (XI (XO (XO (XO (XO (XO (XO (XI (XO (XO (XO (XI (XI (XI
    (XO (XI (XI (XI (XI (XI
    XH))))))))))))))))))))))))))))))))))))))))))))))))))))))))))))) :: ((Npos
    (XI (XO (XI (XO (XO (XI (XO (XI (XI (XO (XO (XO (XI (XO (XO (XO (XI (XI
    (XO (XO (XO (XI (XO (XI (XO (XI (XI (XI (XI (XI (XO (XI (XI (XO (XI (XO
    (XO (XI (XO (XO (XI (XO (XO (XO (XI (XO (XI (XI (XO (XI (XI (XI (XI (XO
    (XO (XO (XO (XI (XI (XO (XI (XO
    XH))))))))))))))))))))))))))))))))))))))))))))))))))))))))))))))) :: ((Npos
    (XO (XI (XI (XO (XI (XO (XO (XO (XO (XO (XO (XI (XI (XI (XI (XI (XO (XI
    (XI (XI (XO (XO (XI (XO (XO (XI (XI (XI (XO (XO (XO (XO (XI (XO (XI (XI
    (XI (XO (XO (XO (XO (XO (XO (XI (XO (XO (XO (XO (XO (XO (XO (XO (XO (XI
    (XO (XO (XO (XI (XO (XI (XO (XI
    XH))))))))))))))))))))))))))))))))))))))))))))))))))))))))))))))) :: ((Npos
    (XI (XI (XI (XO (XO (XI (XI (XO (XO (XO (XO (XO (XO (XI (XO (XI (XI (XO
    (XI (XO (XO (XO (XI (XO (XI (XI (XO (XI (XO (XO (XO (XI (XI (XI (XO (XO
    (XI (XI (XO (XI (XI (XI (XI (XO (XI (XO (XO (XI (XI (XO (XI (XO (XO (XO
    (XO (XI (XI (XO (XI (XO
    XH))))))))))))))))))))))))))))))))))))))))))))))))))))))))))))) :: ((Npos
    (XI (XO (XO (XO (XO (XO (XO (XO (XI (XO (XI (XO (XO (XI (XI (XO (XI (XI
    (XI (XO (XI (XO (XI (XI (XO (XI (XI (XO (XI (XI (XI (XO (XI (XI (XI (XO
    (XI (XO (XO (XO (XO (XO (XI (XO (XO (XO (XO (XO (XO (XI (XI (XO (XI (XI
    (XO (XI (XI (XO (XO (XI (XO (XI (XI
    XH)))))))))))))))))))))))))))))))))))))))))))))))))))))))))))))))) :: ((Npos
    (XO (XI (XO (XO (XO (XI (XO (XI (XO (XO (XI (XO (XI (XO (XO (XI (XO (XO
    (XI (XO (XI (XO (XO (XO (XI (XI (XI (XO (XO (XI (XI (XO (XI (XO (XO (XI
    (XO (XO (XI (XO (XO (XI (XO (XO (XO (XO (XO (XO (XO (XO (XO (XI (XO (XO
    (XI (XO (XI (XO (XI (XO (XO (XI (XO
    XH)))))))))))))))))))))))))))))))))))))))))))))))))))))))))))))))) :: ((Npos
    (XI (XI (XO (XO (XO (XO (XO (XI (XO (XO (XO (XI (XI (XI (XI (XI (XO (XI
    (XI (XI (XO (XI (XI (XO (XO (XI (XI (XI (XO (XO (XO (XO (XO (XO (XO (XO
    (XO (XO (XO (XI (XI (XI (XO (XO (XI (XI (XO (XO (XI (XO (XO (XO (XO (XI
    (XI (XO (XO (XO (XO (XI (XO (XI
    XH))))))))))))))))))))))))))))))))))))))))))))))))))))))))))))))) :: ((Npos
    (XI (XI (XO (XO (XO (XI (XI (XI (XO (XO (XI (XO (XO (XO (XO (XI (XI (XI
    (XI (XI (XI (XO (XI (XO (XO (XO (XI (XI (XO (XI (XO (XI (XI (XO (XI (XI
    (XI (XI (XO (XI (XI (XI (XO (XO (XI (XO (XO (XO (XI (XI (XO (XO (XO (XI
    (XO (XI (XI (XO (XI (XI (XI
    XH)))))))))))))))))))))))))))))))))))))))))))))))))))))))))))))) :: ((Npos
    (XI (XI (XI (XO (XO (XO (XO (XO (XO (XI (XI (XI (XI (XI (XI (XO (XI (XI
    (XI (XO (XO (XO (XO (XO (XI (XI (XI (XI (XO (XI (XO (XO (XI (XO (XO (XO
    (XI (XI (XO (XO (XO (XO (XI (XO (XI (XI (XI (XO (XO (XO (XI (XO (XI (XI
    (XI (XO (XI (XO (XO (XI (XI (XO (XO
    XH)))))))))))))))))))))))))))))))))))))))))))))))))))))))))))))))) :: ((Npos
    (XO (XO (XI (XI (XI (XO (XI (XO (XO (XO (XI (XO (XO (XI (XO (XO (XI (XI
    (XO (XI (XO (XO (XO (XI (XO (XO (XO (XO (XO (XO (XO (XO (XO (XI (XO (XO
    (XI (XO (XO (XO (XO (XI (XI (XO (XO (XI (XI (XI (XO (XI (XI (XI (XO (XO
    (XO (XI (XO (XO (XI (XO (XI
    XH)))))))))))))))))))))))))))))))))))))))))))))))))))))))))))))) :: ((Npos
    (XI (XI (XO (XI (XO (XI (XI (XO (XO (XI (XI (XI (XO (XI (XO (XI (XO (XO
    (XI (XI (XI (XI (XO (XI (XI (XI (XO (XO (XI (XI (XI (XO (XI (XO (XO (XO
    (XO (XO (XI (XO (XO (XO (XI (XI (XO (XI (XI (XI (XO (XI (XI (XI (XI (XI
    (XI (XI (XI (XO (XI (XO (XI (XI
    XH))))))))))))))))))))))))))))))))))))))))))))))))))))))))))))))) :: ((Npos
    (XI (XO (XO (XO (XI (XO (XO (XI (XI (XI (XI (XO (XI (XI (XI (XI (XI (XO
    (XO (XI (XO (XI (XI (XI (XO (XO (XO (XI (XI (XI (XI (XI (XI (XI (XI (XI
    (XO (XI (XO (XI (XI (XI (XO (XO (XI (XO (XI (XO (XO (XI (XO (XO (XO (XI
    (XO (XI (XO (XI (XI (XI (XO (XI (XO
    XH)))))))))))))))))))))))))))))))))))))))))))))))))))))))))))))))) :: ((Npos
    (XI (XI (XO (XO (XO (XI (XI (XO (XI (XI (XO (XO (XO (XI (XI (XO (XO (XI
    (XO (XO (XO (XI (XO (XI (XO (XI (XI (XI (XO (XO (XO (XI (XI (XO (XI (XI
    (XO (XI (XI (XO (XI (XI (XI (XO (XI (XI (XO (XI (XI (XO (XO (XO (XO (XO
    (XO (XI (XO (XO (XO (XI (XI
    XH)))))))))))))))))))))))))))))))))))))))))))))))))))))))))))))) :: ((Npos
    (XO (XI (XI (XI (XO (XI (XI (XI (XO (XI (XO (XI (XI (XO (XO (XI (XO (XI
    (XI (XO (XI (XI (XI (XI (XO (XI (XI (XI (XO (XI (XI (XO (XO (XI (XO (XI
    (XO (XO (XO (XO (XI (XO (XI (XO (XI (XI (XI (XO (XI (XI (XO (XI (XO (XI
    (XI (XI (XI (XO (XO (XI (XI (XI (XI
    XH)))))))))))))))))))))))))))))))))))))))))))))))))))))))))))))))) :: ((Npos
    (XI (XI (XI (XI (XO (XI (XO (XO (XO (XI (XO (XI (XO (XI (XO (XI (XO (XI
    (XO (XO (XO (XI (XI (XI (XO (XI (XO (XI (XO (XI (XO (XO (XI (XO (XI (XO
    (XI (XI (XI (XI (XO (XO (XO (XI (XO (XI (XO (XO (XO (XO (XO (XO (XI (XI
    (XO (XO (XI (XO (XO (XO (XO (XO (XO
    XH)))))))))))))))))))))))))))))))))))))))))))))))))))))))))))))))) :: ((Npos
    (XO (XI (XO (XI (XO (XO (XO (XO (XI (XI (XI (XO (XO (XO (XO (XO (XO (XO
    (XO (XI (XI (XI (XO (XO (XO (XI (XO (XO (XI (XI (XI (XI (XO (XO (XI (XO
    (XI (XO (XI (XO (XI (XO (XI (XI (XO (XI (XI (XI (XI (XI (XO (XO (XI (XI
    (XO (XO (XO (XI (XO (XI (XI (XI (XO
    XH)))))))))))))))))))))))))))))))))))))))))))))))))))))))))))))))) :: ((Npos
    (XI (XO (XI (XI (XO (XO (XI (XI (XO (XI (XO (XI (XI (XI (XI (XI (XO (XI
    (XO (XO (XO (XI (XI (XI (XO (XO (XI (XO (XO (XO (XI (XO (XI (XO (XI (XO
    (XO (XI (XO (XI (XI (XI (XI (XI (XI (XI (XI (XO (XI (XI (XO (XI (XI (XO
    (XI (XO (XO (XI (XI (XI (XO (XI
    XH))))))))))))))))))))))))))))))))))))))))))))))))))))))))))))))) :: ((Npos
    (XO (XI (XO (XO (XO (XI (XO (XO (XI (XI (XO (XI (XI (XI (XO (XI (XO (XO
    (XI (XO (XO (XO (XI (XI (XI (XI (XO (XI (XO (XI (XO (XO (XO (XI (XI (XI
    (XI (XI (XO (XI (XO (XI (XO (XO (XI (XI (XO (XI (XI (XI (XO (XI (XI (XI
    (XO (XI (XO (XI (XI (XI (XI (XO (XI
    XH)))))))))))))))))))))))))))))))))))))))))))))))))))))))))))))))) :: ((Npos
    (XO (XO (XI (XI (XO (XI (XO (XI (XO (XO (XO (XI (XO (XI (XO (XI (XO (XI
    (XI (XO (XO (XO (XO (XO (XI (XI (XO (XO (XO (XI (XI (XO (XO (XO (XO (XI
    (XO (XI (XO (XI (XI (XI (XI (XI (XI (XI (XO (XI (XO (XI (XI (XO (XI (XO
    (XO (XO (XO (XO (XI (XO (XI (XI (XI
    XH)))))))))))))))))))))))))))))))))))))))))))))))))))))))))))))))) :: ((Npos
    (XO (XO (XI (XI (XI (XI (XI (XI (XI (XI (XI (XI (XO (XO (XI (XO (XI (XO
    (XO (XO (XI (XI (XO (XO (XO (XI (XI (XI (XI (XI (XI (XO (XO (XO (XI (XI
    (XI (XI (XI (XO (XI (XI (XI (XI (XI (XO (XI (XI (XO (XO (XO (XI (XI (XI
    (XI (XO (XO (XI (XI (XO (XI (XI
    XH))))))))))))))))))))))))))))))))))))))))))))))))))))))))))))))) :: ((Npos
    (XI (XO (XO (XI (XO (XI (XO (XO (XO (XO (XO (XI (XI (XI (XO (XO (XI (XI
    (XI (XO (XO (XO (XI (XO (XI (XI (XI (XO (XI (XO (XO (XO (XI (XO (XI (XI
    (XI (XO (XI (XO (XI (XI (XO (XI (XI (XI (XO (XI (XO (XI (XI (XI (XO (XO
    (XI (XO (XO (XO (XO (XO (XI (XI
    XH))))))))))))))))))))))))))))))))))))))))))))))))))))))))))))))) :: ((Npos
    (XI (XO (XI (XI (XI (XI (XI (XI (XO (XO (XO (XI (XI (XI (XI (XO (XO (XI
    (XO (XI (XI (XO (XO (XI (XO (XI (XI (XO (XO (XO (XO (XO (XI (XI (XI (XI
    (XO (XI (XO (XI (XO (XI (XI (XO (XI (XO (XO (XI (XI (XO (XI (XI (XI (XO
    (XI (XI (XI (XI (XI (XO (XO (XO (XO
    XH)))))))))))))))))))))))))))))))))))))))))))))))))))))))))))))))) :: ((Npos
    (XI (XI (XI (XI (XI (XO (XO (XI (XO (XI (XI (XO (XI (XI (XO (XO (XI (XO
    (XO (XO (XI (XO (XI (XO (XO (XI (XI (XI (XO (XI (XI (XO (XI (XO (XI (XO
    (XI (XI (XI (XO (XI (XO (XI (XI (XI (XI (XI (XI (XO (XO (XI (XO (XI (XO
    (XO (XO (XI (XI (XI (XI (XO (XO
    XH))))))))))))))))))))))))))))))))))))))))))))))))))))))))))))))) :: ((Npos
    (XO (XO (XO (XO (XI (XI (XI (XO (XO (XI (XI (XI (XI (XI (XO (XO (XI (XI
    (XO (XO (XI (XI (XO (XI (XO (XO (XO (XI (XI (XO (XI (XI (XI (XO (XO (XO
    (XI (XI (XO (XO (XI (XI (XI (XO (XO (XO (XI (XO (XO (XO (XI (XI (XO (XO
    (XI (XI (XO (XI (XI (XI (XO (XO (XI
    XH)))))))))))))))))))))))))))))))))))))))))))))))))))))))))))))))) :: ((Npos
    (XI (XO (XO (XI (XI (XI (XO (XO (XO (XI (XO (XI (XI (XO (XO (XO (XO (XO
    (XO (XO (XO (XO (XO (XI (XI (XI (XI (XO (XI (XO (XO (XO (XI (XO (XI (XI
    (XO (XO (XO (XI (XI (XO (XI (XI (XO (XO (XO (XI (XI (XO (XO (XO (XO (XO
    (XI (XI (XI (XI (XI (XO (XI
    XH)))))))))))))))))))))))))))))))))))))))))))))))))))))))))))))) :: ((Npos
    (XI (XO (XO (XI (XO (XI (XO (XO (XO (XO (XO (XO (XO (XI (XI (XO (XO (XO
    (XI (XI (XI (XO (XO (XI (XI (XO (XI (XO (XO (XI (XO (XI (XI (XI (XO (XI
    (XI (XO (XI (XI (XO (XO (XI (XI (XO (XO (XO (XO (XO (XO (XO (XO (XI (XI
    (XO (XO (XO (XO (XO (XI (XO (XI (XI
    XH)))))))))))))))))))))))))))))))))))))))))))))))))))))))))))))))) :: ((Npos
    (XO (XO (XI (XI (XO (XO (XO (XI (XI (XI (XO (XO (XI (XI (XI (XO (XO (XI
    (XO (XI (XO (XO (XO (XI (XI (XO (XO (XO (XI (XO (XI (XI (XO (XO (XI (XO
    (XO (XO (XO (XO (XO (XO (XI (XI (XI (XI (XI (XI (XO (XO (XO (XI (XO (XI
    (XO (XI (XO (XI (XO (XI (XO (XO (XI
    XH)))))))))))))))))))))))))))))))))))))))))))))))))))))))))))))))) :: ((Npos
    (XO (XO (XO (XI (XO (XO (XI (XI (XI (XI (XI (XI (XI (XI (XI (XO (XI (XI
    (XO (XI (XI (XO (XO (XO (XI (XI (XO (XO (XI (XI (XO (XO (XO (XI (XI (XO
    (XO (XI (XI (XO (XI (XO (XI (XI (XI (XO (XO (XI (XI (XI (XI (XO (XI (XI
    (XO (XO (XI (XI (XI (XO (XI (XO
    XH))))))))))))))))))))))))))))))))))))))))))))))))))))))))))))))) :: ((Npos
    (XI (XI (XI (XI (XI (XO (XI (XO (XO (XI (XI (XO (XO (XO (XI (XI (XI (XI
    (XO (XI (XO (XO (XO (XI (XI (XO (XO (XO (XI (XO (XI (XO (XI (XO (XI (XO
    (XO (XO (XI (XO (XO (XO (XO (XI (XI (XI (XI (XO (XI (XI (XI (XO (XI (XI
    (XO (XI (XO (XO (XI (XI (XI (XI (XO
    XH)))))))))))))))))))))))))))))))))))))))))))))))))))))))))))))))) :: ((Npos
    (XI (XI (XO (XO (XO (XI (XO (XI (XI (XI (XO (XI (XO (XO (XI (XO (XO (XO
    (XO (XO (XI (XO (XI (XI (XI (XO (XI (XI (XO (XO (XI (XO (XI (XI (XI (XI
    (XO (XO (XI (XO (XI (XO (XO (XI (XI (XO (XI (XI (XO (XI (XO (XO (XO (XI
    (XO (XO (XO (XO (XO (XO (XI (XO
    XH))))))))))))))))))))))))))))))))))))))))))))))))))))))))))))))) :: ((Npos
    (XO (XO (XO (XI (XI (XI (XO (XI (XO (XO (XO (XO (XI (XO (XO (XI (XI (XI
    (XI (XI (XO (XO (XI (XI (XO (XI (XI (XI (XO (XI (XO (XO (XI (XI (XI (XO
    (XO (XO (XI (XO (XO (XI (XO (XI (XO (XI (XO (XI (XI (XO (XO (XO (XO (XO
    (XI (XO (XO (XI (XO (XI (XO (XI
    XH))))))))))))))))))))))))))))))))))))))))))))))))))))))))))))))) :: ((Npos
    (XI (XI (XI (XO (XO (XO (XO (XI (XI (XO (XI (XO (XO (XI (XO (XI (XI (XO
    (XI (XO (XO (XI (XI (XO (XO (XO (XI (XO (XO (XO (XO (XO (XI (XO (XI (XI
    (XO (XI (XO (XI (XI (XO (XI (XO (XI (XO (XI (XI (XO (XO (XI (XO (XO (XI
    (XO (XI (XI (XI (XI (XO (XI (XO (XO
    XH)))))))))))))))))))))))))))))))))))))))))))))))))))))))))))))))) :: ((Npos
    (XI (XO (XI (XI (XI (XO (XI (XO (XI (XO (XO (XO (XI (XI (XI (XO (XI (XO
    (XI (XO (XO (XO (XO (XI (XO (XI (XO (XI (XO (XO (XI (XO (XI (XO (XO (XI
    (XI (XO (XI (XO (XI (XO (XO (XO (XI (XO (XI (XO (XI (XI (XO (XO (XI (XI
    (XI (XI (XO (XO (XI (XI (XO (XI (XO
    XH)))))))))))))))))))))))))))))))))))))))))))))))))))))))))))))))) :: ((Npos
    (XO (XO (XO (XO (XI (XO (XO (XI (XO (XO (XO (XI (XI (XI (XI (XI (XO (XI
    (XO (XI (XO (XI (XI (XI (XO (XO (XI (XI (XI (XI (XI (XI (XI (XI (XO (XO
    (XO (XI (XI (XO (XI (XI (XI (XI (XO (XI (XI (XO (XI (XO (XI (XO (XI (XI
    (XI (XO (XI (XI (XO (XI (XO (XI (XI
    XH)))))))))))))))))))))))))))))))))))))))))))))))))))))))))))))))) :: ((Npos
    (XI (XO (XO (XI (XI (XI (XI (XO (XO (XI (XO (XO (XI (XO (XO (XO (XI (XO
    (XO (XO (XI (XI (XI (XO (XO (XO (XI (XO (XI (XO (XO (XI (XO (XI (XI (XI
    (XI (XI (XI (XO (XI (XI (XO (XO (XO (XO (XI (XO (XO (XI (XI (XO (XO (XO
    (XO (XI (XO (XO (XI (XO (XO (XI
    XH))))))))))))))))))))))))))))))))))))))))))))))))))))))))))))))) :: ((Npos
    (XI (XO (XO (XO (XI (XO (XI (XO (XI (XO (XO (XO (XI (XO (XO (XI (XI (XI
    (XO (XO (XO (XO (XO (XO (XI (XI (XO (XO (XO (XO (XO (XI (XO (XO (XI (XI
    (XI (XO (XI (XO (XO (XI (XI (XO (XI (XO (XO (XO (XO (XO (XO (XO (XO (XI
    (XI (XI (XI (XO (XI (XI (XI (XI
    XH))))))))))))))))))))))))))))))))))))))))))))))))))))))))))))))) :: ((Npos
    (XI (XI (XI (XI (XO (XO (XI (XO (XO (XO (XI (XI (XI (XO (XI (XO (XI (XO
    (XO (XI (XI (XI (XO (XI (XI (XO (XI (XO (XO (XO (XO (XO (XO (XI (XO (XI
    (XO (XO (XO (XI (XO (XO (XO (XO (XI (XO (XO (XI (XO (XI (XO (XO (XO (XI
    (XI (XO (XO (XI (XO (XI (XI
    XH)))))))))))))))))))))))))))))))))))))))))))))))))))))))))))))) :: ((Npos
    (XI (XI (XO (XO (XI (XI (XO (XI (XI (XO (XO (XO (XO (XI (XI (XI (XO (XI
    (XO (XO (XI (XO (XO (XI (XO (XI (XI (XO (XO (XI (XO (XO (XI (XO (XO (XI
    (XI (XO (XO (XO (XO (XO (XO (XI (XO (XO (XI (XI (XO (XO (XI (XI (XO (XO
    (XO (XI (XO (XI (XI (XI
    XH))))))))))))))))))))))))))))))))))))))))))))))))))))))))))))) :: ((Npos
    (XI (XI (XO (XI (XO (XO (XI (XO (XO (XO (XI (XO (XI (XI (XO (XO (XO (XI
    (XI (XO (XI (XO (XI (XO (XO (XO (XI (XO (XO (XI (XI (XO (XO (XI (XI (XO
    (XI (XO (XO (XI (XO (XI (XO (XO (XI (XI (XO (XO (XO (XO (XI (XO (XO (XI
    (XI (XO (XI (XI (XO (XI (XO (XI (XO
    XH)))))))))))))))))))))))))))))))))))))))))))))))))))))))))))))))) :: ((Npos
    (XO (XO (XI (XO (XO (XO (XI (XI (XI (XI (XI (XI (XI (XI (XO (XI (XI (XI
    (XI (XI (XO (XO (XI (XI (XI (XO (XO (XI (XI (XI (XO (XI (XI (XO (XO (XI
    (XI (XO (XO (XI (XO (XO (XO (XI (XI (XO (XI (XO (XI (XO (XI (XO (XI (XI
    (XI (XI (XI (XI (XO (XO (XI
    XH)))))))))))))))))))))))))))))))))))))))))))))))))))))))))))))) :: ((Npos
    (XO (XO (XO (XI (XO (XO (XI (XO (XO (XO (XO (XI (XI (XI (XO (XO (XI (XI
    (XO (XO (XI (XI (XI (XO (XO (XO (XO (XI (XO (XI (XI (XI (XO (XI (XI (XO
    (XO (XI (XO (XO (XI (XO (XI (XO (XO (XI (XO (XO (XO (XO (XI (XI (XO (XI
    (XO (XI (XO (XI (XO (XO (XO (XO
    XH))))))))))))))))))))))))))))))))))))))))))))))))))))))))))))))) :: ((Npos
    (XO (XO (XI (XO (XI (XI (XI (XI (XI (XO (XI (XO (XO (XO (XO (XO (XO (XI
    (XI (XO (XI (XI (XI (XO (XO (XO (XI (XO (XO (XO (XO (XO (XO (XI (XI (XO
    (XI (XI (XI (XO (XI (XI (XI (XO (XI (XO (XI (XO (XI (XI (XO (XO (XI (XI
    (XI (XI (XI (XI (XO (XI (XO (XO (XO
    XH)))))))))))))))))))))))))))))))))))))))))))))))))))))))))))))))) :: ((Npos
    (XI (XI (XO (XO (XI (XI (XI (XI (XI (XI (XO (XI (XO (XO (XO (XI (XI (XI
    (XO (XI (XO (XI (XO (XI (XI (XI (XI (XO (XI (XI (XO (XO (XI (XI (XI (XO
    (XO (XO (XO (XI (XO (XO (XI (XO (XI (XO (XO (XO (XI (XO (XI (XI (XO (XI
    (XI (XO (XI (XI (XO (XI (XO (XO
    XH))))))))))))))))))))))))))))))))))))))))))))))))))))))))))))))) :: ((Npos
    (XO (XI (XO (XO (XO (XI (XO (XO (XI (XO (XI (XO (XI (XI (XO (XI (XI (XO
    (XI (XO (XO (XO (XO (XI (XI (XI (XO (XI (XO (XO (XO (XO (XI (XI (XO (XI
    (XO (XI (XO (XO (XI (XO (XI (XI (XO (XO (XO (XO (XI (XI (XO (XO (XI (XO
    (XI (XI (XI (XO (XI (XO (XO
    XH)))))))))))))))))))))))))))))))))))))))))))))))))))))))))))))) :: ((Npos
    (XI (XO (XO (XO (XO (XI (XO (XO (XO (XO (XO (XO (XI (XI (XI (XO (XI (XI
    (XO (XI (XI (XI (XI (XI (XO (XI (XI (XO (XO (XI (XI (XO (XI (XI (XI (XI
    (XO (XI (XI (XI (XO (XI (XI (XO (XO (XO (XI (XI (XO (XI (XI (XI (XI (XI
    (XI (XI (XO (XI
    XH))))))))))))))))))))))))))))))))))))))))))))))))))))))))))) :: ((Npos
    (XO (XI (XO (XO (XI (XI (XI (XO (XI (XO (XI (XO (XI (XO (XO (XO (XO (XO
    (XI (XO (XO (XI (XI (XO (XI (XI (XO (XO (XO (XI (XO (XI (XO (XO (XI (XO
    (XO (XI (XI (XI (XI (XO (XO (XO (XI (XI (XI (XO (XO (XI (XO (XO (XO (XI
    (XI (XO (XI (XI (XI (XI (XI (XO (XO
    XH)))))))))))))))))))))))))))))))))))))))))))))))))))))))))))))))) :: ((Npos
    (XI (XI (XI (XI (XO (XI (XO (XO (XO (XO (XI (XI (XI (XI (XI (XI (XO (XO
    (XO (XI (XO (XI (XI (XO (XO (XO (XO (XI (XO (XI (XO (XO (XI (XI (XI (XI
    (XI (XI (XO (XO (XO (XI (XI (XO (XO (XI (XO (XI (XO (XO (XO (XO (XO (XO
    (XI (XO (XI (XI (XI (XI (XO (XO
    XH))))))))))))))))))))))))))))))))))))))))))))))))))))))))))))))) :: ((Npos
    (XI (XI (XO (XO (XO (XO (XO (XI (XO (XI (XI (XO (XI (XO (XO (XI (XI (XI
    (XO (XO (XI (XI (XO (XI (XI (XI (XO (XO (XO (XI (XI (XO (XO (XO (XI (XO
    (XI (XO (XI (XI (XO (XI (XO (XI (XI (XO (XI (XI (XI (XO (XI (XO (XI (XI
    (XI (XI (XO (XI (XI (XI (XI
    XH)))))))))))))))))))))))))))))))))))))))))))))))))))))))))))))) :: ((Npos
    (XI (XO (XI (XO (XO (XI (XI (XI (XI (XI (XO (XI (XO (XI (XI (XO (XO (XO
    (XO (XO (XI (XO (XI (XO (XI (XI (XO (XO (XO (XI (XO (XI (XI (XI (XI (XO
    (XI (XO (XI (XI (XI (XI (XO (XO (XI (XI (XI (XO (XI (XO (XI (XO (XO (XO
    (XI (XI (XO (XI (XI (XI
    XH))))))))))))))))))))))))))))))))))))))))))))))))))))))))))))) :: ((Npos
    (XO (XO (XO (XI (XI (XI (XO (XO (XI (XI (XO (XO (XI (XI (XI (XO (XI (XO
    (XO (XI (XI (XO (XO (XI (XO (XI (XI (XI (XO (XO (XI (XI (XO (XO (XI (XI
    (XI (XO (XO (XI (XO (XO (XO (XI (XO (XO (XI (XI (XO (XI (XO (XO (XI (XO
    (XI (XI (XI (XO (XO
    XH)))))))))))))))))))))))))))))))))))))))))))))))))))))))))))) :: ((Npos
    (XI (XO (XI (XO (XO (XI (XO (XO (XI (XI (XO (XO (XO (XO (XO (XO (XI (XI
    (XI (XO (XO (XI (XO (XO (XI (XO (XO (XI (XO (XI (XI (XI (XO (XI (XO (XO
    (XO (XI (XI (XI (XO (XI (XI (XO (XO (XI (XO (XI (XI (XO (XI (XI (XI (XI
    (XO (XI (XI (XI (XI (XO (XO (XO (XI
    XH)))))))))))))))))))))))))))))))))))))))))))))))))))))))))))))))) :: ((Npos
    (XO (XO (XO (XI (XI (XO (XI (XI (XI (XI (XI (XO (XI (XO (XI (XI (XI (XO
    (XI (XI (XO (XI (XI (XI (XO (XO (XO (XO (XO (XI (XI (XI (XO (XI (XO (XO
    (XI (XI (XO (XI (XI (XI (XO (XI (XO (XO (XI (XI (XI (XI (XO (XO (XI (XO
    (XI (XI (XO (XI (XI (XI (XI (XI
    XH))))))))))))))))))))))))))))))))))))))))))))))))))))))))))))))) :: ((Npos
    (XO (XI (XI (XI (XO (XO (XO (XI (XO (XI (XI (XI (XO (XI (XI (XO (XI (XO
    (XO (XO (XO (XO (XO (XI (XO (XI (XI (XO (XI (XI (XO (XI (XI (XO (XI (XO
    (XI (XI (XO (XO (XO (XO (XO (XO (XI (XI (XO (XI (XO (XI (XO (XI (XI (XI
    (XO (XO (XI (XO (XI (XO (XI (XO
    XH))))))))))))))))))))))))))))))))))))))))))))))))))))))))))))))) :: ((Npos
    (XI (XO (XI (XI (XO (XO (XI (XO (XO (XI (XI (XO (XO (XI (XI (XO (XO (XI
    (XO (XI (XI (XO (XI (XI (XO (XI (XI (XI (XI (XO (XI (XO (XI (XI (XO (XO
    (XO (XO (XO (XO (XI (XO (XI (XI (XO (XI (XI (XI (XI (XI (XO (XI (XI (XI
    (XI (XI (XO (XO (XO (XI (XI (XI
    XH))))))))))))))))))))))))))))))))))))))))))))))))))))))))))))))) :: ((Npos
    (XI (XI (XO (XI (XO (XO (XO (XO (XO (XO (XI (XI (XO (XO (XO (XI (XI (XO
    (XI (XO (XO (XI (XI (XI (XI (XO (XO (XI (XO (XO (XI (XI (XI (XI (XO (XI
    (XO (XO (XO (XO (XO (XO (XI (XO (XI (XI (XI (XO (XI (XI (XI (XI (XI (XI
    (XO (XO (XO (XO (XO (XO (XI
    XH)))))))))))))))))))))))))))))))))))))))))))))))))))))))))))))) :: ((Npos
    (XO (XI (XI (XI (XI (XI (XI (XI (XO (XI (XO (XI (XO (XO (XI (XI (XI (XI
    (XI (XI (XO (XI (XI (XI (XO (XO (XI (XI (XI (XO (XO (XI (XI (XO (XO (XO
    (XO (XO (XO (XI (XO (XI (XI (XI (XI (XO (XO (XO (XI (XI (XI (XI (XO (XO
    (XI (XI (XI (XI (XI (XI (XO (XI (XO
    XH)))))))))))))))))))))))))))))))))))))))))))))))))))))))))))))))) :: ((Npos
    (XO (XO (XI (XI (XI (XO (XO (XO (XO (XO (XI (XI (XI (XI (XO (XI (XO (XI
    (XO (XI (XO (XO (XI (XI (XI (XI (XI (XO (XO (XI (XI (XO (XO (XI (XO (XO
    (XI (XI (XO (XO (XO (XO (XO (XI (XI (XO (XI (XO (XO (XI (XI (XO (XI (XI
    (XI (XI (XI (XO (XO (XO (XI (XI (XI
    XH)))))))))))))))))))))))))))))))))))))))))))))))))))))))))))))))) :: ((Npos
    (XO (XO (XO (XO (XO (XI (XI (XI (XO (XI (XO (XI (XO (XO (XO (XI (XO (XO
    (XO (XI (XO (XO (XI (XI (XO (XO (XO (XO (XO (XI (XI (XO (XI (XI (XO (XI
    (XI (XO (XO (XO (XO (XO (XI (XO (XI (XI (XI (XO (XI (XO (XI (XO (XO (XI
    (XI (XO (XI (XI (XO (XO (XO
    XH)))))))))))))))))))))))))))))))))))))))))))))))))))))))))))))) :: ((Npos
    (XO (XO (XI (XO (XO (XI (XI (XO (XI (XO (XI (XI (XI (XO (XI (XI (XI (XO
    (XI (XI (XI (XI (XO (XO (XO (XI (XO (XO (XO (XI (XO (XO (XI (XI (XI (XI
    (XO (XO (XO (XO (XI (XI (XO (XO (XO (XI (XO (XI (XI (XI (XO (XI (XI (XI
    (XO (XI (XO (XI (XI (XI (XO (XO (XO
    XH)))))))))))))))))))))))))))))))))))))))))))))))))))))))))))))))) :: ((Npos
    (XO (XI (XO (XI (XI (XI (XI (XI (XO (XI (XI (XI (XO (XO (XI (XI (XO (XI
    (XI (XI (XO (XO (XI (XI (XI (XO (XO (XI (XO (XO (XO (XI (XI (XO (XI (XI
    (XO (XO (XO (XI (XO (XI (XI (XI (XO (XI (XO (XO (XO (XO (XO (XO (XO (XI
    (XI (XO (XO (XI (XI (XI (XI (XI (XI
    XH)))))))))))))))))))))))))))))))))))))))))))))))))))))))))))))))) :: ((Npos
    (XO (XI (XO (XI (XO (XO (XI (XO (XI (XO (XI (XO (XO (XI (XO (XI (XI (XI
    (XI (XO (XO (XI (XI (XO (XI (XI (XI (XO (XI (XO (XI (XI (XI (XO (XI (XI
    (XI (XI (XI (XO (XO (XO (XO (XI (XI (XO (XO (XI (XI (XI (XI (XO (XO (XI
    (XI (XO (XI (XO (XI (XI (XO (XI (XO
    XH)))))))))))))))))))))))))))))))))))))))))))))))))))))))))))))))) :: ((Npos
    (XO (XI (XI (XO (XO (XI (XI (XI (XO (XI (XO (XO (XI (XO (XI (XI (XO (XO
    (XO (XI (XI (XI (XO (XI (XO (XI (XO (XI (XO (XI (XI (XI (XO (XI (XI (XI
    (XO (XO (XO (XO (XI (XO (XI (XO (XO (XO (XO (XI (XI (XO (XI (XI (XI (XO
    (XO (XI (XO (XI (XO (XO (XI (XO
    XH))))))))))))))))))))))))))))))))))))))))))))))))))))))))))))))) :: ((Npos
    (XI (XI (XI (XO (XO (XI (XO (XI (XI (XI (XO (XI (XI (XO (XI (XI (XO (XI
    (XO (XI (XO (XI (XO (XI (XO (XO (XO (XI (XI (XI (XO (XI (XI (XO (XO (XI
    (XI (XI (XO (XI (XI (XI (XI (XI (XI (XI (XI (XO (XI (XO (XI (XI (XI (XI
    (XO (XO (XO (XI (XI (XO (XI (XO
    XH))))))))))))))))))))))))))))))))))))))))))))))))))))))))))))))) :: ((Npos
    (XI (XO (XI (XI (XO (XI (XI (XO (XO (XO (XO (XO (XI (XI (XI (XO (XI (XO
    (XI (XO (XI (XO (XO (XO (XO (XO (XI (XO (XO (XO (XO (XI (XO (XI (XO (XO
    (XO (XO (XO (XO (XO (XO (XO (XO (XI (XO (XI (XI (XI (XI (XI (XI (XO (XO
    (XI (XI (XI (XI (XO (XI (XI (XI
    XH))))))))))))))))))))))))))))))))))))))))))))))))))))))))))))))) :: ((Npos
    (XO (XO (XI (XI (XO (XI (XI (XI (XO (XO (XO (XI (XO (XI (XO (XO (XI (XI
    (XO (XO (XO (XO (XO (XO (XI (XO (XO (XI (XI (XO (XO (XI (XO (XI (XI (XO
    (XO (XI (XO (XI (XI (XI (XO (XO (XI (XI (XO (XO (XO (XI (XI (XI (XO (XI
    (XI (XI (XI (XI (XO (XI (XO (XO
    XH))))))))))))))))))))))))))))))))))))))))))))))))))))))))))))))) :: ((Npos
    (XO (XO (XO (XI (XO (XO (XI (XO (XO (XI (XI (XO (XO (XI (XO (XO (XO (XO
    (XO (XI (XO (XO (XO (XO (XI (XO (XO (XI (XI (XO (XO (XI (XI (XI (XI (XI
    (XI (XI (XO (XI (XO (XI (XI (XO (XO (XI (XI (XO (XO (XO (XI (XO (XI (XO
    (XO (XO (XO (XI (XO (XO (XI (XO (XI
    XH)))))))))))))))))))))))))))))))))))))))))))))))))))))))))))))))) :: ((Npos
    (XI (XI (XI (XO (XI (XI (XI (XI (XI (XI (XI (XI (XO (XI (XO (XO (XO (XO
    (XO (XO (XI (XI (XI (XO (XO (XI (XO (XI (XI (XI (XI (XI (XI (XO (XI (XO
    (XI (XO (XO (XI (XI (XO (XI (XO (XO (XI (XO (XI (XI (XI (XI (XO (XI (XI
    (XI (XO (XI (XO (XO (XI (XO (XI (XO
    XH)))))))))))))))))))))))))))))))))))))))))))))))))))))))))))))))) :: ((Npos
    (XI (XI (XO (XI (XI (XI (XO (XO (XI (XI (XI (XI (XI (XO (XI (XI (XO (XO
    (XO (XI (XO (XO (XO (XI (XI (XI (XI (XO (XO (XI (XO (XO (XO (XO (XO (XI
    (XO (XI (XI (XO (XI (XI (XI (XO (XO (XI (XO (XI (XO (XO (XI (XI (XO (XI
    (XI (XI (XO (XO (XO (XO (XI (XI
    XH))))))))))))))))))))))))))))))))))))))))))))))))))))))))))))))) :: ((Npos
    (XO (XI (XO (XO (XI (XI (XI (XO (XO (XO (XI (XI (XO (XO (XI (XO (XO (XO
    (XO (XI (XO (XI (XO (XO (XI (XO (XO (XO (XI (XI (XI (XI (XI (XI (XO (XO
    (XI (XI (XI (XI (XI (XI (XI (XI (XO (XO (XO (XO (XO (XI (XO (XI (XI (XO
    (XO (XI (XI (XO (XO (XI (XO (XO (XI
    XH)))))))))))))))))))))))))))))))))))))))))))))))))))))))))))))))) :: ((Npos
    (XI (XI (XI (XI (XI (XI (XO (XI (XI (XO (XI (XO (XO (XO (XI (XI (XI (XO
    (XI (XO (XI (XI (XO (XI (XO (XI (XO (XI (XI (XO (XO (XI (XO (XO (XO (XI
    (XI (XI (XO (XO (XO (XI (XI (XI (XI (XI (XO (XO (XO (XI (XO (XI (XI (XI
    (XO (XI (XI (XO (XI (XO (XI
    XH)))))))))))))))))))))))))))))))))))))))))))))))))))))))))))))) :: ((Npos
    (XO (XO (XO (XO (XO (XO (XO (XO (XI (XI (XO (XO (XI (XO (XO (XI (XI (XI
    (XO (XO (XO (XI (XI (XO (XI (XI (XI (XI (XO (XI (XO (XI (XO (XI (XI (XO
    (XO (XI (XO (XI (XI (XI (XI (XO (XO (XI (XO (XI (XO (XI (XI (XO (XI (XI
    (XI (XI (XO (XI (XI (XI (XI (XI (XO
    XH)))))))))))))))))))))))))))))))))))))))))))))))))))))))))))))))) :: ((Npos
    (XO (XI (XI (XI (XI (XO (XO (XI (XI (XI (XI (XO (XI (XI (XI (XO (XO (XI
    (XI (XO (XO (XO (XI (XO (XI (XI (XO (XI (XI (XI (XO (XO (XO (XO (XO (XI
    (XO (XI (XO (XO (XO (XO (XO (XO (XO (XO (XI (XO (XO (XI (XI (XI (XI (XO
    (XO (XI (XI (XO (XO (XO
    XH))))))))))))))))))))))))))))))))))))))))))))))))))))))))))))) :: ((Npos
    (XI (XO (XI (XO (XO (XI (XI (XI (XO (XI (XI (XI (XI (XI (XO (XI (XI (XI
    (XO (XO (XO (XO (XO (XO (XO (XI (XI (XO (XI (XO (XI (XO (XO (XI (XI (XO
    (XO (XI (XO (XO (XI (XO (XI (XI (XO (XI (XO (XI (XO (XI (XI (XI (XI (XI
    (XO (XO (XO
    XH)))))))))))))))))))))))))))))))))))))))))))))))))))))))))) :: ((Npos
    (XI (XO (XI (XI (XO (XI (XO (XI (XI (XI (XO (XI (XO (XO (XO (XO (XO (XI
    (XO (XO (XI (XI (XI (XO (XO (XO (XO (XO (XO (XI (XO (XI (XI (XI (XO (XI
    (XI (XI (XI (XO (XO (XO (XO (XI (XO (XO (XO (XO (XO (XO (XO (XI (XO (XI
    (XO (XO (XI (XO (XI (XI
    XH))))))))))))))))))))))))))))))))))))))))))))))))))))))))))))) :: ((Npos
    (XI (XO (XO (XI (XI (XI (XO (XI (XO (XI (XI (XO (XO (XI (XO (XO (XO (XI
    (XI (XO (XI (XI (XI (XI (XO (XO (XO (XO (XO (XI (XO (XI (XO (XI (XI (XO
    (XO (XO (XO (XO (XO (XO (XO (XO (XO (XI (XI (XI (XO (XI (XO (XI (XO (XO
    (XI (XO (XI (XO (XI (XI
    XH))))))))))))))))))))))))))))))))))))))))))))))))))))))))))))) :: ((Npos
    (XI (XI (XI (XI (XI (XO (XI (XO (XI (XO (XO (XI (XI (XI (XI (XI (XO (XO
    (XI (XO (XO (XO (XI (XI (XO (XI (XI (XI (XI (XO (XI (XO (XI (XO (XI (XI
    (XO (XO (XI (XO (XO (XI (XO (XI (XI (XO (XI (XO (XI (XO (XI (XI (XI (XO
    (XO (XI (XO (XI (XI (XI (XO (XO (XO
    XH)))))))))))))))))))))))))))))))))))))))))))))))))))))))))))))))) :: ((Npos
    (XO (XI (XO (XI (XO (XI (XI (XO (XO (XI (XO (XO (XI (XI (XI (XO (XO (XI
    (XI (XO (XO (XO (XI (XI (XO (XO (XI (XI (XO (XO (XO (XI (XO (XI (XI (XO
    (XI (XI (XO (XO (XI (XO (XO (XI (XI (XI (XO (XO (XO (XO (XI (XO (XI (XO
    (XI (XI (XO (XO (XI (XI (XO (XO (XI
    XH)))))))))))))))))))))))))))))))))))))))))))))))))))))))))))))))) :: ((Npos
    (XI (XO (XO (XO (XO (XO (XI (XO (XO (XI (XI (XO (XO (XO (XI (XI (XI (XO
    (XO (XO (XI (XO (XO (XI (XI (XO (XI (XO (XI (XI (XO (XO (XO (XO (XO (XO
    (XI (XI (XI (XO (XI (XO (XI (XI (XI (XI (XI (XI (XI (XO (XI (XO (XO (XI
    (XI (XO (XO (XO (XI (XO (XI (XO (XI
    XH)))))))))))))))))))))))))))))))))))))))))))))))))))))))))))))))) :: ((Npos
    (XO (XO (XI (XO (XI (XI (XO (XO (XI (XO (XI (XI (XI (XI (XO (XO (XI (XO
    (XO (XO (XO (XI (XO (XO (XO (XI (XI (XI (XI (XI (XO (XI (XO (XI (XO (XO
    (XI (XO (XI (XO (XI (XO (XO (XO (XI (XI (XI (XI (XO (XO (XO (XO (XO (XI
    (XI (XO (XI (XO (XI (XO (XO (XI (XI
    XH)))))))))))))))))))))))))))))))))))))))))))))))))))))))))))))))) :: ((Npos
    (XO (XI (XI (XO (XI (XI (XI (XO (XO (XI (XO (XI (XO (XI (XO (XO (XI (XO
    (XI (XO (XO (XO (XO (XO (XO (XI (XI (XI (XO (XI (XI (XI (XO (XI (XO (XO
    (XI (XI (XI (XO (XO (XI (XO (XI (XO (XI (XI (XI (XO (XO (XO (XO (XO (XO
    (XI (XI (XI (XO (XO (XI (XI (XI (XI
    XH)))))))))))))))))))))))))))))))))))))))))))))))))))))))))))))))) :: ((Npos
    (XO (XO (XO (XI (XO (XO (XI (XI (XO (XI (XO (XO (XI (XO (XO (XI (XI (XI
    (XO (XI (XI (XO (XO (XO (XO (XI (XI (XI (XI (XI (XO (XI (XO (XI (XO (XO
    (XO (XO (XI (XO (XO (XI (XO (XI (XO (XI (XI (XI (XO (XI (XO (XO (XI (XO
    (XI (XI (XO (XI (XO (XO (XO (XO
    XH))))))))))))))))))))))))))))))))))))))))))))))))))))))))))))))) :: ((Npos
    (XI (XO (XI (XO (XO (XI (XO (XI (XO (XI (XI (XI (XO (XO (XO (XI (XI (XI
    (XO (XO (XI (XI (XI (XO (XI (XI (XI (XO (XI (XO (XO (XI (XO (XI (XI (XI
    (XI (XI (XI (XO (XI (XI (XO (XO (XO (XO (XO (XI (XO (XI (XO (XI (XI (XO
    (XI (XI (XI (XI (XO (XI (XO (XO
    XH))))))))))))))))))))))))))))))))))))))))))))))))))))))))))))))) :: ((Npos
    (XO (XO (XI (XI (XI (XO (XO (XO (XI (XO (XO (XI (XO (XI (XI (XI (XO (XI
    (XO (XI (XI (XI (XO (XI (XI (XO (XO (XO (XI (XI (XI (XO (XO (XO (XO (XI
    (XO (XO (XI (XI (XO (XO (XO (XI (XO (XI (XO (XI (XO (XI (XO (XI (XO (XO
    (XI (XI (XO (XI (XI (XI (XO (XI
    XH))))))))))))))))))))))))))))))))))))))))))))))))))))))))))))))) :: ((Npos
    (XO (XO (XI (XI (XI (XO (XO (XO (XO (XO (XO (XI (XO (XO (XO (XO (XI (XI
    (XI (XO (XO (XI (XI (XI (XO (XO (XO (XO (XO (XO (XI (XO (XO (XI (XO (XO
    (XI (XO (XO (XI (XI (XI (XO (XI (XI (XO (XO (XO (XO (XO (XI (XO (XI (XO
    (XI (XO (XI (XO (XO (XO (XO (XO (XI
    XH)))))))))))))))))))))))))))))))))))))))))))))))))))))))))))))))) :: ((Npos
    (XO (XI (XI (XO (XI (XI (XO (XI (XO (XI (XI (XI (XI (XO (XO (XI (XO (XI
    (XO (XI (XO (XI (XI (XI (XI (XI (XI (XI (XO (XO (XI (XO (XI (XI (XI (XI
    (XO (XO (XO (XI (XI (XI (XO (XO (XI (XO (XI (XO (XO (XI (XI (XO (XI (XI
    (XI (XI (XO (XO (XI (XO
    XH))))))))))))))))))))))))))))))))))))))))))))))))))))))))))))) :: ((Npos
    (XO (XI (XI (XI (XI (XI (XI (XO (XI (XO (XI (XO (XI (XI (XO (XO (XI (XI
    (XO (XI (XI (XI (XO (XO (XI (XO (XO (XO (XI (XO (XO (XI (XI (XI (XI (XO
    (XI (XO (XO (XO (XO (XO (XI (XI (XO (XO (XO (XI (XO (XI (XI (XO (XI (XI
    (XO (XO (XO (XI (XI (XO
    XH))))))))))))))))))))))))))))))))))))))))))))))))))))))))))))) :: ((Npos
    (XO (XO (XI (XO (XI (XI (XI (XO (XI (XO (XI (XI (XI (XI (XI (XI (XO (XO
    (XO (XI (XO (XI (XO (XO (XO (XI (XO (XI (XI (XI (XO (XO (XO (XO (XI (XO
    (XO (XI (XO (XI (XI (XI (XO (XO (XI (XO (XO (XI (XO (XI (XO (XI (XO (XI
    (XI (XO (XO (XO (XI (XO (XO (XI (XI
    XH)))))))))))))))))))))))))))))))))))))))))))))))))))))))))))))))) :: ((Npos
    (XO (XO (XO (XO (XI (XO (XO (XO (XO (XI (XO (XI (XI (XI (XO (XO (XO (XI
    (XI (XI (XO (XI (XO (XO (XO (XI (XO (XO (XI (XI (XI (XO (XI (XO (XI (XO
    (XO (XI (XI (XI (XO (XO (XI (XI (XO (XO (XI (XI (XI (XO (XI (XI (XO (XI
    (XO (XO (XO (XI (XI (XI (XI (XO (XO
    XH)))))))))))))))))))))))))))))))))))))))))))))))))))))))))))))))) :: ((Npos
    (XI (XI (XI (XO (XO (XO (XO (XO (XI (XI (XO (XI (XI (XO (XO (XO (XO (XI
    (XI (XI (XO (XO (XO (XO (XO (XO (XO (XI (XI (XI (XO (XO (XI (XO (XI (XI
    (XO (XO (XI (XO (XI (XI (XO (XO (XO (XO (XI (XI (XI (XI (XI (XO (XI (XI
    (XO (XI (XI (XI (XO (XI (XO (XI
    XH))))))))))))))))))))))))))))))))))))))))))))))))))))))))))))))) :: ((Npos
    (XI (XO (XO (XI (XO (XO (XO (XO (XI (XO (XI (XO (XI (XO (XI (XO (XO (XO
    (XO (XO (XI (XI (XI (XI (XO (XO (XI (XI (XI (XI (XI (XO (XI (XI (XI (XO
    (XO (XI (XI (XO (XI (XI (XI (XO (XO (XO (XI (XO (XI (XO (XI (XO (XO (XO
    (XI (XO (XI (XI (XO (XI (XO (XO (XO
    XH)))))))))))))))))))))))))))))))))))))))))))))))))))))))))))))))) :: ((Npos
    (XO (XO (XO (XO (XI (XI (XI (XO (XO (XO (XO (XI (XO (XO (XO (XI (XO (XO
    (XI (XO (XO (XO (XI (XO (XO (XI (XI (XO (XI (XI (XO (XI (XI (XI (XI (XI
    (XI (XO (XI (XO (XO (XO (XI (XI (XI (XO (XO (XO (XO (XI (XI (XI (XO (XI
    (XO (XI (XO (XI (XO (XI (XO (XO (XO
    XH)))))))))))))))))))))))))))))))))))))))))))))))))))))))))))))))) :: ((Npos
    (XI (XI (XI (XI (XO (XO (XO (XI (XO (XO (XO (XO (XI (XO (XI (XO (XO (XI
    (XO (XI (XO (XI (XI (XI (XO (XO (XI (XI (XO (XO (XI (XO (XI (XO (XI (XO
    (XI (XI (XO (XO (XO (XO (XI (XI (XO (XO (XI (XI (XI (XI (XI (XI (XI (XI
    (XI (XI (XI (XO (XO (XI (XI (XI
    XH))))))))))))))))))))))))))))))))))))))))))))))))))))))))))))))) :: ((Npos
    (XO (XI (XO (XO (XI (XO (XI (XO (XI (XO (XO (XO (XI (XO (XO (XI (XI (XI
    (XO (XO (XO (XO (XO (XI (XI (XI (XO (XO (XO (XO (XO (XI (XO (XO (XO (XO
    (XI (XI (XO (XI (XO (XO (XO (XI (XI (XO (XO (XI (XO (XO (XI (XO (XO (XI
    (XI (XI (XI (XI (XO (XI (XO
    XH)))))))))))))))))))))))))))))))))))))))))))))))))))))))))))))) :: ((Npos
    (XI (XI (XI (XI (XO (XO (XO (XO (XI (XO (XO (XO (XO (XO (XI (XO (XO (XI
    (XI (XO (XI (XI (XO (XI (XO (XI (XO (XI (XI (XO (XO (XI (XO (XO (XO (XO
    (XO (XO (XO (XI (XO (XI (XI (XO (XO (XO (XI (XO (XI (XO (XO (XI (XO (XO
    (XI (XO (XI (XO (XO (XI
    XH))))))))))))))))))))))))))))))))))))))))))))))))))))))))))))) :: ((Npos
    (XI (XO (XO (XI (XO (XI (XO (XI (XI (XI (XO (XO (XI (XI (XO (XO (XI (XO
    (XI (XI (XO (XO (XI (XO (XI (XO (XO (XI (XI (XI (XI (XI (XO (XI (XO (XI
    (XI (XI (XO (XI (XO (XI (XO (XO (XI (XO (XI (XI (XI (XI (XO (XO (XO (XO
    (XO (XI (XO (XO (XI (XO
    XH))))))))))))))))))))))))))))))))))))))))))))))))))))))))))))) :: ((Npos
    (XI (XI (XI (XI (XI (XO (XI (XI (XI (XI (XO (XI (XI (XI (XO (XO (XI (XI
    (XI (XO (XO (XO (XO (XI (XO (XI (XI (XI (XI (XO (XI (XO (XO (XI (XO (XI
    (XO (XI (XI (XO (XO (XI (XI (XO (XI (XO (XO (XI (XI (XI (XI (XI (XI (XI
    (XO (XO (XI (XO (XO (XO (XO (XI (XO
    XH)))))))))))))))))))))))))))))))))))))))))))))))))))))))))))))))) :: ((Npos
    (XO (XO (XO (XI (XI (XI (XO (XO (XO (XO (XO (XI (XO (XI (XI (XI (XO (XI
    (XO (XI (XO (XI (XO (XO (XI (XO (XO (XI (XI (XO (XO (XI (XI (XI (XO (XO
    (XI (XI (XO (XO (XO (XO (XO (XI (XO (XO (XO (XI (XI (XO (XI (XO (XO (XO
    (XO (XI (XI (XO (XI (XO (XO (XI (XI
    XH)))))))))))))))))))))))))))))))))))))))))))))))))))))))))))))))) :: ((Npos
    (XI (XI (XO (XI (XI (XO (XO (XO (XO (XI (XI (XO (XI (XO (XI (XO (XO (XI
    (XI (XO (XI (XI (XO (XO (XO (XO (XO (XI (XO (XI (XO (XO (XI (XI (XI (XO
    (XI (XI (XO (XO (XO (XO (XO (XO (XO (XI (XO (XO (XO (XI (XI (XO (XO (XO
    (XO (XI (XI (XI (XO (XO (XO (XO
    XH))))))))))))))))))))))))))))))))))))))))))))))))))))))))))))))) :: ((Npos
    (XO (XO (XI (XI (XI (XO (XI (XI (XO (XO (XI (XO (XI (XO (XO (XO (XI (XO
    (XO (XO (XI (XO (XI (XI (XO (XI (XO (XO (XO (XO (XO (XO (XO (XO (XI (XI
    (XO (XI (XI (XI (XO (XO (XO (XI (XO (XO (XI (XO (XI (XI (XO (XI (XI (XO
    (XI (XO (XI (XI (XI (XO
    XH))))))))))))))))))))))))))))))))))))))))))))))))))))))))))))) :: ((Npos
    (XO (XO (XO (XO (XO (XI (XO (XI (XI (XI (XO (XI (XI (XI (XO (XI (XO (XI
    (XO (XO (XI (XI (XO (XI (XO (XI (XO (XO (XI (XI (XI (XI (XO (XO (XO (XO
    (XO (XI (XI (XO (XO (XO (XI (XO (XI (XI (XO (XO (XO (XI (XO (XI (XI (XO
    (XI (XI (XI (XO (XI (XI (XO
    XH)))))))))))))))))))))))))))))))))))))))))))))))))))))))))))))) :: ((Npos
    (XO (XI (XI (XO (XI (XO (XI (XO (XO (XO (XO (XI (XO (XO (XO (XO (XO (XI
    (XI (XI (XO (XI (XI (XO (XI (XO (XI (XI (XO (XO (XO (XO (XO (XO (XI (XO
    (XO (XI (XO (XI (XO (XI (XO (XO (XI (XI (XO (XO (XO (XO (XI (XO (XO (XO
    (XO (XO (XO (XO (XI (XO (XI
    XH)))))))))))))))))))))))))))))))))))))))))))))))))))))))))))))) :: ((Npos
    (XI (XO (XI (XI (XO (XO (XO (XO (XI (XI (XI (XI (XI (XI (XI (XI (XO (XI
    (XI (XI (XO (XO (XO (XO (XI (XI (XI (XO (XO (XO (XI (XI (XO (XO (XI (XO
    (XI (XI (XO (XO (XI (XO (XO (XI (XI (XO (XI (XI (XO (XO (XI (XI (XI (XO
    (XI (XI (XO (XI (XI (XI (XI (XO
    XH))))))))))))))))))))))))))))))))))))))))))))))))))))))))))))))) :: ((Npos
    (XI (XI (XO (XO (XO (XI (XO (XO (XO (XI (XO (XO (XO (XO (XO (XO (XO (XI
    (XI (XO (XO (XI (XI (XO (XI (XO (XI (XI (XI (XO (XO (XI (XI (XO (XO (XO
    (XI (XI (XO (XI (XI (XI (XI (XO (XI (XO (XO (XO (XI (XO (XO (XO (XO (XO
    (XO (XI (XO (XO (XO (XI (XI (XO
    XH))))))))))))))))))))))))))))))))))))))))))))))))))))))))))))))) :: ((Npos
    (XI (XO (XI (XO (XI (XO (XO (XO (XO (XI (XO (XO (XO (XI (XI (XO (XO (XO
    (XO (XO (XI (XI (XO (XO (XO (XO (XO (XO (XI (XO (XI (XO (XI (XI (XO (XO
    (XI (XO (XI (XO (XI (XO (XI (XO (XI (XO (XO (XI (XI (XO (XI (XO (XI (XO
    (XO (XO (XO (XO (XO (XO
    XH))))))))))))))))))))))))))))))))))))))))))))))))))))))))))))) :: ((Npos
    (XO (XI (XI (XO (XO (XO (XI (XO (XO (XO (XO (XO (XO (XI (XO (XI (XO (XI
    (XO (XI (XO (XI (XO (XI (XI (XI (XO (XO (XI (XO (XI (XO (XI (XO (XO (XO
    (XI (XI (XO (XO (XO (XI (XO (XI (XO (XO (XI (XO (XI (XI (XI (XI (XO (XI
    (XI (XI (XO (XO (XI (XI (XO (XI (XO
    XH)))))))))))))))))))))))))))))))))))))))))))))))))))))))))))))))) :: ((Npos
    (XO (XI (XI (XI (XO (XI (XO (XI (XO (XI (XI (XI (XO (XO (XO (XI (XI (XO
    (XO (XO (XI (XO (XI (XI (XO (XO (XI (XI (XI (XI (XO (XO (XO (XO (XI (XO
    (XI (XI (XI (XO (XI (XI (XI (XO (XI (XI (XO (XI (XI (XI (XI (XO (XO (XI
    (XI (XI (XO (XO (XO
    XH)))))))))))))))))))))))))))))))))))))))))))))))))))))))))))) :: ((Npos
    (XI (XO (XO (XO (XI (XI (XO (XO (XO (XO (XO (XO (XO (XI (XO (XI (XO (XI
    (XO (XI (XI (XI (XI (XI (XO (XO (XI (XO (XO (XO (XO (XI (XO (XO (XO (XO
    (XI (XO (XO (XO (XI (XI (XI (XO (XO (XO (XI (XO (XI (XO (XI (XO (XO (XI
    (XI (XO (XO (XI (XI (XO (XI (XO (XI
    XH)))))))))))))))))))))))))))))))))))))))))))))))))))))))))))))))) :: ((Npos
    (XI (XO (XI (XI (XI (XI (XI (XO (XO (XI (XO (XI (XO (XI (XI (XO (XI (XI
    (XI (XO (XO (XO (XO (XI (XI (XI (XO (XO (XO (XI (XI (XI (XO (XI (XO (XI
    (XI (XI (XO (XI (XO (XO (XO (XI (XI (XI (XI (XO (XI (XO (XO (XI (XI (XI
    (XO (XI (XI (XI (XO (XO (XO (XO (XI
    XH)))))))))))))))))))))))))))))))))))))))))))))))))))))))))))))))) :: ((Npos
    (XO (XI (XO (XO (XI (XO (XI (XI (XI (XI (XI (XI (XO (XO (XO (XO (XO (XI
    (XI (XO (XO (XO (XI (XI (XI (XI (XO (XI (XI (XI (XI (XI (XO (XO (XO (XI
    (XO (XI (XI (XI (XI (XI (XI (XI (XI (XI (XI (XO (XI (XI (XO (XI (XO (XO
    (XI (XO (XI (XI (XO (XO (XO
    XH)))))))))))))))))))))))))))))))))))))))))))))))))))))))))))))) :: ((Npos
    (XI (XI (XI (XI (XI (XO (XI (XI (XO (XI (XO (XI (XI (XI (XI (XO (XO (XO
    (XI (XI (XI (XO (XO (XI (XI (XO (XI (XI (XI (XI (XO (XO (XI (XI (XI (XO
    (XO (XO (XI (XO (XI (XI (XO (XI (XI (XI (XO (XO (XO (XO (XI (XO (XI (XI
    (XO (XO (XO (XO (XI (XO (XI (XO (XI
    XH)))))))))))))))))))))))))))))))))))))))))))))))))))))))))))))))) :: ((Npos
    (XO (XO (XO (XO (XO (XI (XO (XO (XO (XI (XO (XI (XI (XI (XI (XO (XO (XI
    (XO (XI (XI (XO (XO (XI (XI (XI (XI (XO (XO (XI (XI (XO (XI (XO (XI (XI
    (XO (XO (XI (XI (XI (XO (XO (XO (XI (XO (XI (XI (XI (XI (XO (XI (XI (XO
    (XI (XI (XO (XI (XI (XO (XI (XI (XO
    XH)))))))))))))))))))))))))))))))))))))))))))))))))))))))))))))))) :: ((Npos
    (XI (XI (XI (XO (XO (XI (XO (XI (XO (XI (XI (XO (XI (XO (XI (XI (XO (XI
    (XI (XI (XI (XI (XI (XI (XO (XI (XI (XI (XO (XI (XO (XI (XI (XI (XI (XO
    (XI (XI (XO (XI (XI (XO (XO (XI (XI (XO (XO (XO (XO (XI (XO (XI (XI (XI
    (XO (XO (XI (XO
    XH))))))))))))))))))))))))))))))))))))))))))))))))))))))))))) :: ((Npos
    (XO (XI (XO (XI (XO (XO (XI (XI (XI (XO (XO (XI (XI (XO (XO (XO (XI (XI
    (XO (XI (XI (XI (XO (XO (XO (XO (XO (XI (XO (XO (XO (XO (XI (XO (XI (XI
    (XO (XO (XI (XO (XI (XI (XI (XO (XI (XO (XO (XO (XI (XO (XO (XO (XO (XI
    (XO (XI (XO (XI (XO (XI (XI (XO (XO
    XH)))))))))))))))))))))))))))))))))))))))))))))))))))))))))))))))) :: ((Npos
    (XO (XI (XI (XO (XO (XI (XI (XI (XI (XO (XO (XI (XI (XI (XO (XI (XO (XI
    (XO (XO (XI (XO (XI (XO (XI (XI (XI (XO (XO (XI (XO (XI (XO (XO (XI (XI
    (XO (XO (XI (XI (XI (XI (XO (XO (XO (XO (XO (XI (XI (XI (XO (XI (XI (XO
    (XI (XI (XO (XO (XO (XO (XI (XO
    XH))))))))))))))))))))))))))))))))))))))))))))))))))))))))))))))) :: ((Npos
    (XO (XI (XO (XO (XI (XO (XO (XO (XI (XI (XI (XO (XO (XI (XO (XO (XO (XI
    (XO (XI (XI (XI (XI (XI (XI (XI (XO (XO (XI (XO (XO (XI (XI (XO (XO (XI
    (XI (XI (XI (XO (XI (XO (XI (XO (XO (XI (XO (XI (XO (XI (XI (XO (XO (XI
    (XO (XO (XI (XO (XI (XI (XI (XI (XO
    XH)))))))))))))))))))))))))))))))))))))))))))))))))))))))))))))))) :: ((Npos
    (XI (XO (XO (XI (XI (XO (XO (XO (XI (XI (XI (XI (XI (XI (XI (XO (XO (XO
    (XI (XO (XO (XO (XI (XI (XI (XO (XO (XI (XI (XO (XI (XI (XI (XO (XO (XO
    (XO (XO (XI (XI (XI (XO (XI (XI (XO (XI (XI (XO (XO (XO (XO (XI (XO (XO
    (XO (XO (XO (XI (XI (XO (XO (XI (XI
    XH)))))))))))))))))))))))))))))))))))))))))))))))))))))))))))))))) :: ((Npos
    (XO (XI (XO (XI (XO (XI (XI (XO (XI (XI (XI (XO (XI (XI (XI (XI (XO (XI
    (XI (XI (XI (XI (XO (XO (XO (XI (XI (XI (XI (XO (XO (XI (XI (XI (XO (XO
    (XO (XI (XI (XO (XO (XI (XO (XO (XI (XO (XO (XO (XO (XI (XI (XI (XI (XI
    (XI (XI (XO (XO (XO (XI (XO (XO (XI
    XH)))))))))))))))))))))))))))))))))))))))))))))))))))))))))))))))) :: ((Npos
    (XO (XI (XO (XI (XI (XO (XI (XI (XI (XI (XO (XO (XI (XO (XO (XO (XO (XO
    (XI (XI (XO (XO (XI (XI (XO (XO (XO (XI (XI (XI (XO (XO (XI (XO (XI (XI
    (XO (XO (XI (XO (XO (XI (XO (XO (XO (XO (XI (XO (XI (XI (XO (XO (XI (XO
    (XI (XI (XI (XO (XO (XI (XI (XO
    XH))))))))))))))))))))))))))))))))))))))))))))))))))))))))))))))) :: ((Npos
    (XO (XI (XI (XI (XI (XI (XI (XO (XO (XO (XI (XI (XI (XO (XI (XI (XI (XO
    (XO (XI (XI (XO (XI (XO (XO (XO (XO (XI (XI (XI (XO (XI (XO (XI (XI (XO
    (XI (XO (XI (XI (XI (XI (XO (XI (XI (XO (XO (XO (XO (XI (XO (XO (XO (XI
    (XO (XO (XO (XI (XO (XO (XO (XI (XO
    XH)))))))))))))))))))))))))))))))))))))))))))))))))))))))))))))))) :: ((Npos
    (XI (XO (XO (XO (XO (XO (XO (XI (XO (XI (XI (XO (XI (XI (XO (XI (XI (XO
    (XO (XO (XO (XO (XO (XI (XO (XO (XO (XO (XO (XI (XO (XI (XO (XO (XI (XO
    (XO (XO (XO (XI (XI (XI (XO (XO (XO (XI (XO (XO (XI (XO (XI (XO (XI (XO
    (XO (XI (XO (XO (XI (XO (XO (XO (XI
    XH)))))))))))))))))))))))))))))))))))))))))))))))))))))))))))))))) :: ((Npos
    (XI (XI (XO (XI (XO (XI (XO (XO (XI (XO (XI (XO (XO (XO (XO (XI (XO (XO
    (XO (XI (XO (XI (XO (XI (XI (XI (XI (XO (XO (XI (XI (XI (XI (XO (XO (XI
    (XO (XO (XI (XO (XI (XO (XI (XI (XI (XI (XI (XI (XI (XI (XO (XI (XI (XI
    (XI (XO (XI (XI (XO (XO (XO
    XH)))))))))))))))))))))))))))))))))))))))))))))))))))))))))))))) :: ((Npos
    (XI (XI (XI (XO (XO (XO (XI (XI (XO (XO (XO (XI (XO (XO (XI (XI (XI (XI
    (XO (XO (XI (XO (XO (XO (XO (XO (XI (XI (XI (XI (XO (XI (XO (XI (XO (XI
    (XO (XO (XO (XO (XO (XO (XI (XI (XO (XI (XI (XO (XO (XI (XI (XI (XO (XO
    (XI (XO (XO (XO (XI (XI (XO (XO
    XH))))))))))))))))))))))))))))))))))))))))))))))))))))))))))))))) :: ((Npos
    (XO (XI (XI (XO (XI (XO (XI (XO (XI (XO (XO (XO (XI (XO (XO (XO (XO (XI
    (XO (XI (XO (XI (XO (XO (XO (XI (XI (XO (XO (XO (XO (XI (XO (XI (XO (XI
    (XI (XI (XO (XO (XO (XO (XO (XI (XO (XI (XO (XI (XO (XI (XO (XO (XO (XO
    (XO (XO (XO (XI (XI (XI (XI (XI (XI
    XH)))))))))))))))))))))))))))))))))))))))))))))))))))))))))))))))) :: ((Npos
    (XI (XI (XI (XO (XI (XO (XI (XI (XI (XI (XO (XI (XO (XO (XI (XO (XI (XI
    (XO (XI (XO (XI (XI (XO (XI (XI (XO (XI (XO (XO (XI (XI (XO (XI (XO (XO
    (XO (XO (XI (XI (XI (XI (XO (XI (XI (XI (XI (XI (XO (XI (XI (XO (XI (XI
    (XO (XI (XO (XI (XI (XO
    XH))))))))))))))))))))))))))))))))))))))))))))))))))))))))))))) :: ((Npos
    (XI (XO (XO (XO (XI (XO (XI (XI (XI (XO (XO (XI (XO (XO (XI (XO (XO (XO
    (XI (XI (XO (XI (XI (XO (XI (XO (XO (XI (XI (XI (XO (XO (XO (XI (XI (XO
    (XI (XI (XO (XO (XO (XI (XI (XI (XO (XI (XI (XI (XO (XI (XO (XO (XI (XI
    (XO (XI (XO (XO (XI (XO (XO
    XH)))))))))))))))))))))))))))))))))))))))))))))))))))))))))))))) :: ((Npos
    (XO (XO (XI (XO (XI (XO (XO (XO (XO (XI (XO (XI (XO (XI (XI (XO (XO (XI
    (XO (XO (XO (XI (XO (XI (XI (XI (XI (XO (XO (XO (XI (XO (XI (XO (XI (XI
    (XO (XI (XI (XO (XI (XO (XO (XO (XO (XI (XI (XO (XI (XI (XO (XO (XO (XI
    (XO (XI (XI (XI (XI (XO (XI (XO
    XH))))))))))))))))))))))))))))))))))))))))))))))))))))))))))))))) :: ((Npos
    (XI (XI (XO (XO (XI (XO (XO (XO (XO (XI (XI (XO (XO (XO (XI (XI (XO (XI
    (XO (XO (XO (XI (XO (XI (XI (XI (XO (XI (XI (XI (XI (XI (XO (XI (XI (XI
    (XI (XI (XO (XI (XI (XI (XO (XO (XO (XI (XI (XI (XI (XO (XO (XO (XO (XI
    (XO (XI (XI (XO (XI (XO (XI (XO (XI
    XH)))))))))))))))))))))))))))))))))))))))))))))))))))))))))))))))) :: ((Npos
    (XI (XO (XO (XI (XI (XI (XO (XI (XO (XO (XI (XO (XO (XI (XI (XI (XO (XI
    (XO (XO (XO (XI (XI (XO (XO (XI (XO (XI (XI (XO (XO (XO (XI (XO (XO (XO
    (XO (XI (XO (XI (XI (XI (XO (XI (XO (XO (XI (XO (XI (XO (XO (XO (XO (XO
    (XI (XO (XI (XI (XI (XI (XO (XI
    XH))))))))))))))))))))))))))))))))))))))))))))))))))))))))))))))) :: ((Npos
    (XI (XI (XO (XO (XO (XO (XO (XI (XO (XI (XI (XI (XO (XO (XO (XO (XI (XO
    (XI (XI (XO (XO (XI (XO (XO (XI (XO (XO (XI (XI (XI (XO (XI (XO (XO (XI
    (XI (XI (XO (XI (XI (XO (XI (XI (XO (XI (XO (XI (XO (XI (XO (XO (XI (XO
    (XO (XI (XO (XO (XI (XI (XO (XO (XI
    XH)))))))))))))))))))))))))))))))))))))))))))))))))))))))))))))))) :: ((Npos
    (XO (XO (XO (XI (XO (XI (XI (XO (XI (XO (XO (XO (XO (XO (XI (XO (XI (XI
    (XO (XI (XI (XI (XI (XI (XI (XO (XO (XO (XO (XI (XO (XO (XO (XI (XI (XI
    (XI (XI (XO (XO (XI (XI (XI (XO (XI (XI (XO (XI (XI (XI (XO (XI (XI (XI
    (XI (XI (XI (XI (XO (XI
    XH))))))))))))))))))))))))))))))))))))))))))))))))))))))))))))) :: ((Npos
    (XO (XI (XO (XI (XI (XO (XO (XO (XO (XI (XO (XI (XI (XO (XI (XO (XO (XO
    (XI (XI (XO (XI (XI (XO (XI (XI (XO (XO (XI (XO (XO (XI (XO (XO (XO (XI
    (XI (XO (XO (XI (XI (XO (XO (XO (XI (XO (XO (XI (XI (XI (XI (XO (XO (XI
    (XO (XI (XO (XO (XO (XI (XO (XI (XO
    XH)))))))))))))))))))))))))))))))))))))))))))))))))))))))))))))))) :: ((Npos
    (XI (XI (XI (XI (XI (XO (XO (XO (XI (XI (XI (XI (XO (XO (XI (XI (XO (XI
    (XI (XO (XO (XO (XI (XI (XI (XI (XI (XI (XI (XO (XI (XI (XO (XI (XI (XI
    (XI (XI (XI (XI (XO (XO (XI (XI (XI (XO (XI (XI (XI (XO (XI (XO (XI (XI
    (XI (XO (XO (XI (XI (XI (XO (XI (XO
    XH)))))))))))))))))))))))))))))))))))))))))))))))))))))))))))))))) :: ((Npos
    (XI (XO (XO (XI (XO (XI (XO (XO (XI (XI (XI (XO (XI (XI (XO (XI (XI (XO
    (XI (XO (XO (XI (XI (XO (XI (XI (XI (XO (XO (XO (XO (XO (XI (XI (XI (XO
    (XO (XI (XO (XI (XO (XI (XO (XO (XI (XO (XO (XI (XO (XI (XO (XI (XI (XO
    (XO (XO (XI (XI (XO (XO (XO (XI
    XH))))))))))))))))))))))))))))))))))))))))))))))))))))))))))))))) :: ((Npos
    (XI (XO (XO (XO (XO (XI (XI (XO (XO (XO (XO (XO (XO (XO (XO (XI (XI (XI
    (XO (XO (XI (XI (XI (XO (XO (XI (XI (XI (XI (XI (XI (XI (XI (XI (XI (XI
    (XO (XO (XO (XI (XO (XO (XO (XI (XO (XI (XI (XO (XO (XI (XO (XI (XI (XI
    (XO (XI (XI (XO (XI (XO (XI (XO
    XH))))))))))))))))))))))))))))))))))))))))))))))))))))))))))))))) :: ((Npos
    (XO (XO (XO (XI (XI (XO (XO (XI (XO (XI (XO (XO (XO (XO (XI (XI (XO (XI
    (XO (XO (XO (XO (XI (XI (XI (XI (XO (XI (XI (XI (XO (XI (XI (XI (XO (XO
    (XI (XI (XO (XO (XO (XI (XO (XO (XI (XO (XI (XI (XO (XO (XI (XO (XO (XO
    (XI (XO (XI (XI (XO (XO (XO (XI (XO
    XH)))))))))))))))))))))))))))))))))))))))))))))))))))))))))))))))) :: ((Npos
    (XO (XO (XO (XI (XO (XI (XI (XI (XI (XO (XI (XI (XI (XI (XI (XO (XO (XI
    (XO (XO (XI (XI (XO (XI (XI (XI (XO (XO (XO (XI (XI (XI (XI (XO (XO (XI
    (XO (XO (XI (XO (XI (XI (XI (XO (XI (XO (XO (XI (XI (XI (XO (XO (XO (XI
    (XI (XI (XO (XO (XI (XO (XO (XO (XO
    XH)))))))))))))))))))))))))))))))))))))))))))))))))))))))))))))))) :: ((Npos
    (XO (XO (XI (XI (XI (XO (XI (XO (XO (XI (XI (XO (XO (XI (XI (XI (XI (XO
    (XI (XI (XI (XI (XO (XO (XO (XI (XI (XO (XI (XI (XI (XI (XO (XI (XO (XO
    (XO (XO (XO (XI (XO (XI (XO (XI (XO (XI (XO (XI (XI (XI (XI (XO (XO (XO
    (XO (XO (XI (XO (XI (XI (XO (XO (XO
    XH)))))))))))))))))))))))))))))))))))))))))))))))))))))))))))))))) :: ((Npos
    (XO (XI (XI (XI (XO (XO (XO (XO (XO (XO (XO (XI (XO (XI (XI (XI (XI (XO
    (XO (XI (XO (XO (XI (XI (XO (XO (XI (XO (XI (XO (XO (XI (XI (XI (XO (XI
    (XI (XI (XO (XI (XI (XI (XO (XI (XI (XI (XO (XO (XO (XI (XO (XI (XO (XI
    (XO (XO (XI (XO (XI (XI (XO (XO (XI
    XH)))))))))))))))))))))))))))))))))))))))))))))))))))))))))))))))) :: ((Npos
    (XO (XI (XI (XI (XO (XO (XO (XI (XO (XO (XO (XI (XI (XO (XI (XI (XI (XO
    (XO (XI (XO (XI (XO (XI (XO (XO (XO (XI (XI (XO (XO (XI (XO (XI (XO (XI
    (XO (XO (XI (XI (XO (XI (XI (XI (XO (XO (XO (XO (XI (XO (XI (XI (XI (XI
    (XI (XO (XO (XO (XI (XI (XO (XO (XI
    XH)))))))))))))))))))))))))))))))))))))))))))))))))))))))))))))))) :: ((Npos
    (XI (XI (XO (XO (XI (XO (XI (XI (XO (XO (XI (XI (XO (XI (XI (XO (XO (XI
    (XO (XO (XI (XI (XO (XO (XI (XI (XO (XO (XO (XO (XI (XI (XI (XO (XO (XO
    (XI (XO (XI (XI (XO (XI (XI (XO (XI (XO (XO (XI (XI (XI (XI (XI (XO (XO
    (XI (XO (XO (XI (XI (XO (XI
    XH)))))))))))))))))))))))))))))))))))))))))))))))))))))))))))))) :: ((Npos
    (XI (XO (XI (XI (XI (XI (XI (XI (XO (XI (XI (XI (XO (XI (XO (XO (XO (XO
    (XO (XI (XO (XI (XI (XO (XI (XI (XI (XI (XO (XO (XI (XI (XO (XI (XI (XI
    (XO (XO (XO (XO (XI (XO (XO (XO (XI (XI (XO (XI (XO (XO (XO (XI (XI (XI
    (XO (XI (XI (XI (XO (XI (XO
    XH)))))))))))))))))))))))))))))))))))))))))))))))))))))))))))))) :: ((Npos
    (XO (XI (XI (XO (XI (XO (XI (XI (XI (XI (XI (XI (XO (XI (XI (XO (XI (XI
    (XO (XO (XO (XI (XI (XI (XI (XI (XO (XI (XI (XI (XI (XO (XI (XI (XO (XO
    (XO (XI (XI (XI (XO (XI (XI (XO (XO (XI (XO (XI (XO (XI (XI (XO (XO (XI
    (XO (XO (XO (XO (XO (XI (XO (XI
    XH))))))))))))))))))))))))))))))))))))))))))))))))))))))))))))))) :: ((Npos
    (XI (XI (XO (XI (XO (XO (XI (XI (XI (XI (XI (XO (XI (XO (XO (XI (XI (XI
    (XO (XO (XO (XO (XI (XI (XI (XI (XI (XI (XI (XI (XI (XI (XI (XI (XO (XI
    (XO (XO (XI (XO (XO (XI (XO (XI (XI (XO (XI (XI (XI (XO (XI (XO (XO (XO
    (XO (XI (XI (XI (XI (XI (XO (XO (XO
    XH)))))))))))))))))))))))))))))))))))))))))))))))))))))))))))))))) :: ((Npos
    (XI (XO (XI (XI (XI (XO (XO (XO (XI (XI (XI (XO (XO (XI (XO (XO (XO (XO
    (XI (XI (XO (XI (XI (XI (XO (XO (XO (XI (XO (XO (XI (XI (XI (XI (XI (XI
    (XI (XI (XO (XI (XI (XI (XO (XO (XI (XO (XO (XO (XI (XO (XO (XI (XI (XI
    (XI (XO (XO (XO (XO (XI (XO
    XH)))))))))))))))))))))))))))))))))))))))))))))))))))))))))))))) :: ((Npos
    (XI (XI (XO (XI (XO (XI (XO (XI (XI (XI (XO (XO (XI (XO (XI (XO (XO (XO
    (XI (XI (XI (XI (XI (XO (XO (XI (XI (XO (XI (XO (XI (XO (XI (XO (XI (XI
    (XI (XO (XO (XO (XO (XI (XO (XO (XI (XI (XI (XO (XO (XO (XO (XO (XI (XI
    (XO (XO (XI (XI (XI (XI (XI
    XH)))))))))))))))))))))))))))))))))))))))))))))))))))))))))))))) :: ((Npos
    (XO (XO (XI (XI (XO (XO (XO (XO (XO (XI (XO (XO (XO (XI (XI (XI (XO (XI
    (XI (XI (XO (XI (XI (XO (XO (XI (XO (XO (XI (XO (XI (XO (XI (XO (XO (XO
    (XO (XO (XI (XI (XI (XI (XO (XI (XO (XO (XO (XO (XO (XO (XI (XO (XO (XI
    (XO (XI (XI (XI (XI (XO (XO (XI
    XH))))))))))))))))))))))))))))))))))))))))))))))))))))))))))))))) :: ((Npos
    (XI (XO (XI (XI (XI (XO (XI (XI (XI (XO (XI (XI (XI (XI (XO (XI (XI (XI
    (XI (XI (XO (XI (XI (XI (XO (XI (XI (XI (XI (XI (XO (XO (XI (XO (XO (XO
    (XI (XI (XI (XI (XO (XO (XO (XI (XO (XO (XI (XO (XI (XO (XO (XO (XO (XI
    (XO (XO (XI (XO (XO (XI (XI (XO
    XH))))))))))))))))))))))))))))))))))))))))))))))))))))))))))))))) :: ((Npos
    (XI (XI (XI (XI (XI (XO (XO (XI (XI (XO (XI (XI (XI (XO (XI (XO (XO (XI
    (XI (XO (XO (XI (XI (XO (XI (XI (XO (XO (XI (XO (XO (XO (XO (XI (XI (XO
    (XI (XI (XO (XI (XO (XI (XO (XI (XI (XI (XI (XO (XO (XO (XI (XO (XI (XO
    (XI (XO (XI (XI (XO (XI (XI (XO
    XH))))))))))))))))))))))))))))))))))))))))))))))))))))))))))))))) :: ((Npos
    (XI (XO (XO (XO (XO (XI (XO (XO (XO (XI (XO (XO (XI (XI (XO (XO (XO (XO
    (XO (XI (XI (XO (XO (XO (XO (XO (XI (XI (XI (XI (XO (XO (XO (XO (XO (XI
    (XI (XI (XO (XO (XI (XO (XO (XI (XO (XO (XO (XO (XO (XI (XO (XO (XO (XO
    (XI (XO (XO (XO (XI (XI
    XH))))))))))))))))))))))))))))))))))))))))))))))))))))))))))))) :: ((Npos
    (XO (XO (XO (XO (XI (XI (XO (XO (XO (XO (XO (XO (XO (XO (XO (XI (XI (XO
    (XO (XO (XO (XO (XI (XI (XI (XI (XO (XI (XI (XI (XO (XO (XI (XO (XO (XI
    (XI (XI (XI (XI (XI (XO (XO (XO (XO (XO (XI (XO (XI (XI (XO (XO (XI (XO
    (XI (XO (XI (XI (XI (XO (XO (XI (XI
    XH)))))))))))))))))))))))))))))))))))))))))))))))))))))))))))))))) :: ((Npos
    (XI (XI (XO (XI (XI (XO (XI (XI (XI (XO (XO (XO (XI (XO (XO (XI (XO (XI
    (XO (XO (XI (XI (XI (XI (XI (XI (XO (XI (XO (XO (XO (XI (XI (XI (XO (XI
    (XI (XO (XO (XI (XO (XO (XO (XO (XI (XI (XO (XI (XO (XI (XI (XO (XO (XO
    (XI (XO (XO (XI (XO (XO (XI (XI
    XH))))))))))))))))))))))))))))))))))))))))))))))))))))))))))))))) :: ((Npos
    (XI (XO (XI (XO (XI (XI (XO (XI (XO (XI (XI (XI (XI (XO (XI (XO (XO (XO
    (XO (XI (XI (XI (XO (XO (XI (XO (XO (XI (XO (XO (XI (XI (XO (XI (XO (XO
    (XO (XO (XI (XI (XI (XI (XO (XI (XO (XI (XO (XO (XI (XI (XO (XI (XO (XO
    (XI (XO (XI (XO (XO (XO (XO (XO (XO
    XH)))))))))))))))))))))))))))))))))))))))))))))))))))))))))))))))) :: ((Npos
    (XO (XI (XO (XO (XO (XI (XO (XI (XO (XO (XI (XI (XO (XI (XO (XO (XI (XO
    (XI (XI (XO (XO (XO (XO (XI (XO (XI (XO (XI (XI (XO (XI (XI (XO (XI (XO
    (XO (XI (XI (XI (XI (XI (XO (XI (XO (XI (XI (XI (XO (XI (XO (XI (XO (XO
    (XO (XO (XI (XI (XO (XI (XO (XO (XI
    XH)))))))))))))))))))))))))))))))))))))))))))))))))))))))))))))))) :: ((Npos
    (XO (XO (XI (XI (XI (XO (XO (XI (XO (XI (XI (XO (XO (XO (XO (XO (XI (XI
    (XI (XO (XI (XI (XO (XO (XI (XI (XI (XI (XO (XI (XO (XO (XO (XI (XI (XI
    (XO (XO (XO (XO (XI (XI (XO (XO (XO (XO (XI (XI (XI (XI (XO (XI (XI (XI
    (XO (XO (XO (XO (XO (XI (XI
    XH)))))))))))))))))))))))))))))))))))))))))))))))))))))))))))))) :: ((Npos
    (XI (XI (XO (XO (XO (XO (XI (XO (XO (XI (XO (XI (XO (XO (XI (XI (XO (XI
    (XO (XI (XO (XO (XI (XO (XO (XO (XO (XO (XO (XI (XO (XO (XI (XO (XO (XO
    (XO (XO (XO (XI (XO (XI (XO (XI (XI (XI (XO (XO (XO (XI (XO (XO (XI (XI
    (XO (XI (XI (XI (XO (XI
    XH))))))))))))))))))))))))))))))))))))))))))))))))))))))))))))) :: ((Npos
    (XI (XO (XO (XI (XI (XO (XO (XO (XI (XO (XO (XO (XO (XO (XI (XO (XI (XI
    (XO (XO (XO (XO (XI (XI (XI (XO (XO (XI (XI (XO (XO (XO (XO (XO (XI (XO
    (XO (XO (XI (XI (XI (XI (XI (XI (XO (XI (XI (XO (XO (XO (XO (XO (XO (XI
    (XO (XO (XO (XO (XO (XI (XI
    XH)))))))))))))))))))))))))))))))))))))))))))))))))))))))))))))) :: ((Npos
    (XO (XO (XO (XO (XI (XO (XI (XI (XO (XO (XI (XO (XO (XI (XO (XI (XI (XI
    (XO (XO (XI (XI (XO (XO (XI (XO (XI (XI (XO (XO (XO (XI (XO (XI (XO (XI
    (XO (XI (XI (XO (XI (XI (XI (XI (XO (XI (XO (XI (XO (XI (XO (XI (XI (XO
    (XI (XO (XI (XI (XO (XO (XO (XO (XO
    XH)))))))))))))))))))))))))))))))))))))))))))))))))))))))))))))))) :: ((Npos
    (XO (XO (XO (XI (XI (XO (XI (XI (XO (XO (XI (XO (XO (XO (XO (XO (XO (XO
    (XO (XO (XO (XO (XO (XO (XO (XO (XO (XO (XO (XI (XI (XO (XI (XI (XI (XO
    (XI (XO (XI (XI (XO (XI (XI (XI (XO (XO (XO (XO (XO (XI (XO (XI (XO (XO
    (XO (XI (XI (XI (XI (XI (XI (XI (XI
    XH)))))))))))))))))))))))))))))))))))))))))))))))))))))))))))))))) :: ((Npos
    (XI (XI (XI (XI (XI (XO (XI (XI (XO (XI (XI (XO (XO (XO (XI (XI (XI (XI
    (XI (XO (XI (XO (XI (XI (XI (XI (XI (XO (XO (XI (XI (XI (XO (XO (XO (XO
    (XI (XI (XO (XI (XI (XO (XI (XO (XO (XO (XO (XO (XO (XI (XO (XI (XO (XO
    (XI (XO (XI (XO (XI (XO (XO (XO (XI
    XH)))))))))))))))))))))))))))))))))))))))))))))))))))))))))))))))) :: ((Npos
    (XO (XO (XI (XO (XO (XI (XI (XO (XI (XI (XO (XO (XO (XI (XO (XI (XO (XI
    (XI (XI (XO (XI (XO (XO (XO (XO (XO (XI (XO (XO (XI (XI (XI (XO (XI (XI
    (XI (XI (XI (XI (XI (XO (XI (XI (XI (XI (XO (XO (XO (XO (XI (XI (XO (XI
    (XI (XO (XI
    XH)))))))))))))))))))))))))))))))))))))))))))))))))))))))))) :: ((Npos
    (XO (XO (XO (XO (XI (XI (XO (XO (XI (XO (XO (XI (XO (XO (XO (XI (XO (XI
    (XI (XI (XO (XO (XI (XO (XI (XI (XI (XI (XI (XI (XO (XO (XO (XO (XI (XI
    (XO (XO (XI (XO (XO (XO (XI (XO (XO (XI (XO (XI (XI (XI (XI (XO (XO (XI
    (XI (XO (XI (XO (XO (XI (XO (XO
    XH))))))))))))))))))))))))))))))))))))))))))))))))))))))))))))))) :: ((Npos
    (XI (XO (XI (XO (XI (XI (XO (XO (XI (XI (XI (XI (XO (XI (XO (XI (XO (XI
    (XI (XO (XO (XO (XO (XO (XO (XO (XO (XI (XO (XI (XO (XI (XO (XI (XI (XI
    (XI (XO (XO (XI (XI (XI (XI (XI (XI (XI (XI (XO (XI (XI (XO (XI (XO (XO
    (XO (XO (XO (XI (XO (XO (XI (XI (XO
    XH)))))))))))))))))))))))))))))))))))))))))))))))))))))))))))))))) :: ((Npos
    (XI (XI (XO (XO (XO (XO (XO (XO (XI (XO (XO (XO (XI (XO (XI (XI (XO (XO
    (XO (XO (XI (XI (XI (XI (XI (XO (XI (XI (XI (XI (XI (XO (XI (XI (XO (XI
    (XI (XI (XI (XO (XO (XO (XO (XI (XI (XI (XI (XO (XI (XO (XO (XO (XO (XO
    (XO (XO (XI (XO (XI (XI (XO (XI (XI
    XH)))))))))))))))))))))))))))))))))))))))))))))))))))))))))))))))) :: ((Npos
    (XO (XO (XI (XI (XO (XI (XO (XO (XO (XI (XI (XI (XI (XI (XI (XO (XO (XO
    (XO (XO (XI (XI (XI (XO (XI (XO (XO (XI (XI (XI (XO (XO (XI (XO (XI (XI
    (XO (XI (XO (XI (XO (XO (XI (XO (XI (XO (XO (XI (XO (XO (XI (XI (XI (XO
    (XO (XI (XI (XO (XI (XO (XI (XI (XI
    XH)))))))))))))))))))))))))))))))))))))))))))))))))))))))))))))))) :: ((Npos
    (XI (XO (XI (XO (XO (XO (XO (XI (XI (XO (XI (XI (XI (XI (XI (XO (XO (XO
    (XO (XI (XO (XO (XO (XO (XI (XO (XO (XI (XI (XI (XO (XO (XO (XO (XI (XO
    (XO (XI (XO (XO (XI (XI (XI (XI (XI (XO (XO (XI (XO (XO (XI (XI (XO (XO
    (XI (XO (XI (XI (XO (XI (XO (XI (XO
    XH)))))))))))))))))))))))))))))))))))))))))))))))))))))))))))))))) :: ((Npos
    (XO (XO (XI (XO (XO (XO (XI (XO (XI (XO (XI (XO (XO (XI (XO (XO (XI (XI
    (XO (XO (XI (XO (XI (XI (XI (XI (XI (XO (XI (XO (XI (XI (XI (XO (XI (XI
    (XI (XO (XI (XI (XI (XI (XO (XO (XO (XI (XO (XO (XO (XO (XO (XO (XI (XI
    (XO (XI (XI (XI (XI (XO (XI (XO (XO
    XH)))))))))))))))))))))))))))))))))))))))))))))))))))))))))))))))) :: ((Npos
    (XO (XO (XO (XI (XI (XI (XO (XI (XO (XI (XI (XO (XO (XI (XO (XI (XO (XO
    (XI (XO (XI (XO (XO (XO (XO (XI (XI (XI (XI (XO (XI (XI (XO (XI (XI (XI
    (XI (XI (XI (XI (XO (XO (XI (XI (XI (XO (XI (XI (XI (XO (XI (XI (XI (XO
    (XO (XI (XO (XI (XO (XI (XO (XI (XI
    XH)))))))))))))))))))))))))))))))))))))))))))))))))))))))))))))))) :: ((Npos
    (XI (XI (XI (XO (XI (XI (XI (XI (XI (XI (XO (XO (XO (XI (XI (XI (XI (XI
    (XI (XO (XI (XI (XI (XO (XI (XI (XO (XO (XI (XI (XI (XO (XO (XO (XO (XO
    (XI (XO (XO (XI (XI (XO (XI (XI (XI (XO (XI (XO (XO (XI (XI (XO (XO (XO
    (XI (XI (XI (XI (XO (XI (XO (XI
    XH))))))))))))))))))))))))))))))))))))))))))))))))))))))))))))))) :: ((Npos
    (XI (XO (XO (XO (XO (XO (XO (XI (XI (XI (XI (XI (XO (XO (XO (XI (XI (XO
    (XO (XO (XO (XO (XO (XI (XI (XI (XI (XO (XI (XI (XI (XI (XO (XO (XI (XI
    (XI (XI (XO (XI (XO (XI (XO (XO (XI (XO (XO (XO (XI (XO (XO (XI (XI (XI
    (XO (XI (XI (XI (XO (XI (XI
    XH)))))))))))))))))))))))))))))))))))))))))))))))))))))))))))))) :: ((Npos
    (XI (XO (XO (XO (XO (XO (XO (XO (XO (XI (XO (XO (XI (XI (XI (XO (XI (XO
    (XI (XI (XI (XO (XI (XO (XI (XO (XO (XO (XO (XO (XI (XI (XI (XO (XO (XI
    (XI (XO (XO (XI (XO (XI (XI (XI (XI (XO (XI (XO (XI (XO (XI (XI (XO (XI
    (XO (XO (XI (XO (XI (XO (XO (XI (XI
    XH)))))))))))))))))))))))))))))))))))))))))))))))))))))))))))))))) :: ((Npos
    (XI (XO (XO (XO (XI (XI (XO (XI (XI (XO (XI (XO (XO (XI (XI (XI (XI (XO
    (XI (XO (XI (XI (XO (XI (XI (XO (XI (XO (XO (XO (XO (XI (XI (XI (XO (XI
    (XO (XO (XI (XO (XO (XO (XO (XO (XI (XO (XO (XI (XI (XI (XO (XO (XO (XI
    (XI (XI (XO (XO (XO (XO (XI (XO (XI
    XH)))))))))))))))))))))))))))))))))))))))))))))))))))))))))))))))) :: ((Npos
    (XI (XI (XI (XO (XO (XI (XO (XO (XI (XO (XI (XI (XI (XO (XI (XO (XI (XI
    (XI (XI (XO (XI (XO (XI (XI (XI (XO (XO (XO (XI (XI (XI (XO (XI (XO (XI
    (XI (XO (XI (XI (XO (XO (XI (XI (XO (XO (XI (XI (XO (XI (XI (XO (XI (XO
    (XO (XI (XO (XO (XO (XI (XO (XI (XI
    XH)))))))))))))))))))))))))))))))))))))))))))))))))))))))))))))))) :: ((Npos
    (XO (XI (XI (XO (XI (XO (XO (XO (XI (XI (XI (XO (XO (XI (XO (XI (XO (XO
    (XI (XO (XI (XI (XI (XI (XI (XI (XO (XI (XI (XO (XO (XI (XO (XI (XO (XO
    (XO (XO (XI (XI (XO (XO (XI (XI (XO (XI (XI (XI (XO (XI (XO (XO (XI (XO
    (XI (XO (XI (XO (XI (XO
    XH))))))))))))))))))))))))))))))))))))))))))))))))))))))))))))) :: ((Npos
    (XI (XI (XO (XO (XO (XO (XO (XI (XO (XI (XO (XO (XI (XI (XO (XI (XI (XO
    (XI (XI (XO (XI (XI (XI (XI (XO (XO (XO (XI (XO (XI (XI (XI (XI (XO (XI
    (XI (XO (XO (XO (XI (XO (XI (XO (XI (XI (XO (XO (XO (XI (XI (XO (XO (XO
    (XI (XI (XI (XI (XI (XI (XI (XI (XO
    XH)))))))))))))))))))))))))))))))))))))))))))))))))))))))))))))))) :: ((Npos
    (XI (XO (XO (XI (XI (XI (XO (XO (XO (XO (XO (XI (XO (XI (XO (XI (XI (XI
    (XO (XO (XI (XO (XI (XI (XO (XO (XI (XO (XO (XI (XI (XI (XI (XO (XI (XO
    (XI (XI (XO (XO (XO (XO (XO (XI (XI (XI (XO (XI (XO (XI (XI (XI (XI (XO
    (XO (XI (XI (XI (XI (XO (XI (XO (XI
    XH)))))))))))))))))))))))))))))))))))))))))))))))))))))))))))))))) :: ((Npos
    (XI (XI (XO (XO (XI (XI (XI (XI (XO (XI (XO (XO (XO (XO (XO (XI (XO (XI
    (XI (XO (XI (XI (XO (XO (XI (XO (XI (XI (XO (XI (XI (XI (XI (XO (XI (XO
    (XI (XI (XO (XI (XI (XI (XI (XO (XI (XI (XI (XO (XI (XI (XI (XO (XO (XI
    (XI (XO (XI (XI (XO (XI (XO (XI
    XH))))))))))))))))))))))))))))))))))))))))))))))))))))))))))))))) :: ((Npos
    (XO (XO (XO (XO (XI (XO (XI (XI (XO (XO (XO (XI (XO (XI (XO (XI (XO (XO
    (XI (XI (XI (XI (XI (XO (XI (XO (XI (XO (XO (XI (XO (XI (XO (XO (XI (XO
    (XI (XO (XI (XI (XI (XO (XI (XO (XO (XO (XO (XO (XO (XI (XI (XI (XO (XO
    (XO (XI (XI (XO (XI (XI (XO (XI (XO
    XH)))))))))))))))))))))))))))))))))))))))))))))))))))))))))))))))) :: ((Npos
    (XI (XI (XI (XO (XO (XI (XI (XI (XO (XI (XI (XI (XO (XO (XI (XO (XO (XO
    (XO (XO (XI (XO (XO (XO (XI (XO (XI (XI (XO (XO (XI (XI (XI (XO (XI (XI
    (XO (XO (XI (XO (XI (XI (XI (XI (XO (XI (XI (XI (XO (XO (XO (XO (XO (XI
    (XI (XO (XO (XO (XO (XI (XI (XO (XI
    XH)))))))))))))))))))))))))))))))))))))))))))))))))))))))))))))))) :: ((Npos
    (XI (XI (XI (XO (XI (XO (XI (XO (XO (XO (XI (XI (XO (XI (XO (XO (XO (XO
    (XO (XI (XI (XO (XI (XI (XO (XI (XI (XO (XI (XO (XI (XI (XO (XI (XI (XO
    (XI (XI (XO (XO (XO (XO (XI (XO (XO (XO (XO (XI (XO (XO (XI (XO (XO (XO
    (XI (XI (XI (XO (XO (XO (XO (XO (XI
    XH)))))))))))))))))))))))))))))))))))))))))))))))))))))))))))))))) :: ((Npos
    (XO (XI (XO (XI (XI (XI (XO (XI (XI (XI (XI (XO (XI (XI (XO (XO (XO (XI
    (XI (XO (XI (XO (XI (XI (XO (XO (XO (XO (XO (XI (XI (XO (XI (XO (XO (XO
    (XO (XO (XO (XO (XI (XI (XI (XO (XO (XI (XO (XI (XI (XO (XI (XO (XI (XI
    (XI (XO (XI (XO (XI
    XH)))))))))))))))))))))))))))))))))))))))))))))))))))))))))))) :: ((Npos
    (XO (XO (XI (XI (XI (XO (XO (XO (XO (XO (XI (XI (XI (XI (XI (XO (XO (XI
    (XI (XI (XO (XO (XI (XO (XO (XI (XI (XO (XI (XO (XO (XI (XO (XO (XO (XI
    (XO (XO (XO (XO (XI (XI (XO (XO (XI (XO (XI (XO (XO (XO (XO (XO (XI (XO
    (XI (XO (XI (XI (XO (XO (XO (XI (XO
    XH)))))))))))))))))))))))))))))))))))))))))))))))))))))))))))))))) :: ((Npos
    (XI (XO (XO (XI (XI (XO (XI (XI (XI (XI (XO (XI (XO (XI (XO (XO (XI (XO
    (XO (XO (XO (XO (XO (XO (XO (XI (XI (XI (XI (XO (XO (XO (XO (XO (XI (XI
    (XI (XO (XI (XI (XI (XO (XI (XI (XI (XI (XI (XO (XI (XI (XO (XO (XI (XI
    (XO (XI (XI (XO (XI (XI (XI (XI (XI
    XH)))))))))))))))))))))))))))))))))))))))))))))))))))))))))))))))) :: ((Npos
    (XO (XO (XI (XI (XO (XI (XI (XI (XI (XI (XO (XO (XO (XO (XO (XI (XO (XI
    (XI (XI (XO (XI (XI (XI (XI (XO (XI (XO (XO (XO (XO (XI (XO (XI (XI (XO
    (XO (XI (XO (XI (XI (XI (XI (XO (XO (XI (XI (XO (XI (XI (XI (XI (XI (XI
    (XI (XO (XI (XI (XO (XI (XI (XO (XO
    XH)))))))))))))))))))))))))))))))))))))))))))))))))))))))))))))))) :: ((Npos
    (XO (XI (XO (XI (XO (XO (XI (XO (XI (XI (XO (XO (XO (XO (XO (XI (XI (XO
    (XO (XO (XI (XI (XO (XO (XO (XI (XI (XI (XO (XO (XO (XI (XI (XI (XI (XI
    (XO (XI (XI (XO (XI (XO (XO (XI (XI (XI (XI (XI (XI (XO (XI (XO (XI (XO
    (XI (XO (XO (XI (XO (XI (XO (XI (XI
    XH)))))))))))))))))))))))))))))))))))))))))))))))))))))))))))))))) :: ((Npos
    (XI (XO (XI (XI (XO (XI (XO (XO (XO (XI (XI (XO (XO (XI (XI (XI (XI (XI
    (XI (XO (XI (XI (XO (XO (XI (XO (XO (XI (XI (XO (XO (XO (XO (XI (XI (XO
    (XO (XI (XO (XO (XI (XI (XO (XO (XI (XO (XO (XO (XI (XO (XO (XI (XO (XO
    (XI (XO (XI (XO (XI (XI (XI (XI
    XH))))))))))))))))))))))))))))))))))))))))))))))))))))))))))))))) :: ((Npos
    (XO (XO (XO (XI (XO (XO (XO (XO (XO (XO (XO (XO (XI (XO (XI (XI (XO (XO
    (XO (XO (XI (XO (XO (XI (XI (XO (XI (XI (XO (XI (XO (XO (XO (XO (XI (XO
    (XO (XI (XI (XO (XI (XI (XO (XO (XI (XO (XI (XI (XI (XI (XO (XO (XO (XI
    (XI (XI (XO (XO (XI (XO (XO (XI (XO
    XH)))))))))))))))))))))))))))))))))))))))))))))))))))))))))))))))) :: ((Npos
    (XO (XI (XO (XI (XO (XO (XI (XO (XO (XI (XO (XI (XI (XI (XI (XI (XO (XI
    (XO (XO (XI (XO (XI (XI (XI (XI (XO (XI (XI (XO (XI (XO (XO (XI (XI (XI
    (XI (XO (XI (XI (XO (XI (XI (XO (XI (XO (XO (XI (XI (XI (XI (XI (XI (XO
    (XO (XI (XO (XI (XO (XO (XI
    XH)))))))))))))))))))))))))))))))))))))))))))))))))))))))))))))) :: ((Npos
    (XI (XI (XO (XI (XI (XO (XI (XO (XI (XO (XO (XI (XI (XO (XO (XO (XO (XI
    (XO (XI (XI (XO (XO (XO (XI (XI (XO (XI (XI (XO (XI (XO (XI (XO (XI (XI
    (XI (XI (XI (XI (XI (XO (XO (XI (XO (XO (XI (XO (XO (XO (XO (XI (XO (XO
    (XI (XI (XI (XI (XO (XI (XO (XI
    XH))))))))))))))))))))))))))))))))))))))))))))))))))))))))))))))) :: ((Npos
    (XI (XI (XI (XI (XI (XO (XI (XO (XI (XO (XI (XO (XO (XO (XI (XI (XO (XO
    (XO (XI (XI (XI (XI (XI (XO (XI (XI (XI (XO (XI (XO (XI (XO (XI (XI (XI
    (XI (XI (XO (XI (XI (XI (XO (XI (XO (XI (XI (XO (XO (XO (XI (XO (XO (XI
    (XI (XO (XO (XI (XO (XI (XO (XO (XO
    XH)))))))))))))))))))))))))))))))))))))))))))))))))))))))))))))))) :: ((Npos
    (XI (XO (XI (XI (XO (XI (XI (XO (XI (XO (XO (XI (XI (XI (XI (XO (XO (XO
    (XI (XI (XI (XO (XO (XO (XO (XI (XO (XO (XO (XO (XO (XO (XO (XI (XO (XI
    (XO (XO (XO (XO (XO (XI (XI (XO (XI (XO (XO (XI (XI (XO (XO (XI (XI (XI
    (XI (XO (XI (XI (XI (XI (XO (XI
    XH))))))))))))))))))))))))))))))))))))))))))))))))))))))))))))))) :: ((Npos
    (XI (XI (XO (XO (XI (XO (XO (XO (XO (XI (XO (XO (XO (XO (XO (XI (XO (XO
    (XI (XI (XI (XO (XI (XI (XI (XO (XO (XO (XI (XI (XI (XI (XO (XI (XI (XI
    (XI (XI (XI (XO (XI (XO (XI (XO (XI (XO (XO (XI (XO (XO (XI (XO (XO (XI
    (XI (XO (XO (XO (XI (XO (XO
    XH)))))))))))))))))))))))))))))))))))))))))))))))))))))))))))))) :: ((Npos
    (XO (XI (XI (XI (XO (XO (XI (XO (XO (XI (XI (XI (XI (XI (XI (XO (XO (XO
    (XO (XO (XO (XI (XO (XO (XI (XO (XI (XI (XO (XO (XO (XI (XO (XO (XI (XI
    (XI (XO (XI (XI (XO (XO (XO (XI (XO (XO (XO (XO (XO (XO (XI (XO (XI (XI
    (XI (XO (XI (XI (XI (XO (XI (XI (XI
    XH)))))))))))))))))))))))))))))))))))))))))))))))))))))))))))))))) :: ((Npos
    (XI (XO (XI (XI (XI (XO (XO (XO (XI (XI (XI (XI (XO (XI (XO (XI (XI (XO
    (XO (XI (XO (XO (XI (XO (XO (XI (XO (XO (XI (XI (XI (XO (XO (XI (XO (XI
    (XI (XO (XO (XI (XI (XO (XO (XO (XI (XO (XI (XI (XO (XI (XI (XI (XI (XO
    (XO (XO (XO (XO (XO (XO (XI (XI (XI
    XH)))))))))))))))))))))))))))))))))))))))))))))))))))))))))))))))) :: ((Npos
    (XI (XI (XI (XI (XO (XO (XO (XI (XI (XO (XI (XO (XO (XI (XI (XI (XI (XI
    (XI (XO (XI (XO (XI (XI (XO (XI (XO (XI (XO (XO (XO (XO (XI (XO (XI (XO
    (XO (XI (XI (XI (XI (XI (XI (XI (XO (XO (XI (XO (XI (XI (XO (XI (XI (XO
    (XI (XI (XI (XI (XI (XO (XO (XI
    XH))))))))))))))))))))))))))))))))))))))))))))))))))))))))))))))) :: ((Npos
    (XI (XO (XO (XI (XO (XO (XI (XO (XO (XO (XI (XI (XI (XI (XO (XI (XI (XI
    (XO (XI (XO (XO (XO (XO (XI (XO (XI (XO (XO (XI (XI (XO (XI (XO (XI (XO
    (XI (XI (XO (XI (XI (XI (XI (XO (XI (XI (XI (XO (XO (XI (XO (XI (XO (XI
    (XI (XI (XI (XO (XO (XI
    XH))))))))))))))))))))))))))))))))))))))))))))))))))))))))))))) :: ((Npos
    (XO (XO (XO (XO (XI (XI (XI (XO (XI (XI (XI (XO (XO (XO (XO (XI (XI (XO
    (XO (XO (XI (XI (XI (XI (XI (XI (XI (XI (XO (XO (XO (XO (XI (XO (XI (XO
    (XO (XI (XI (XI (XO (XI (XO (XO (XO (XI (XI (XO (XI (XO (XO (XI (XI (XO
    (XO (XI (XI (XI (XI (XI (XO
    XH)))))))))))))))))))))))))))))))))))))))))))))))))))))))))))))) :: ((Npos
    (XO (XO (XI (XO (XO (XO (XO (XI (XO (XI (XO (XO (XI (XI (XO (XI (XO (XO
    (XO (XO (XO (XI (XI (XO (XI (XO (XI (XI (XI (XO (XI (XO (XI (XO (XO (XI
    (XO (XO (XO (XI (XI (XO (XI (XI (XO (XO (XO (XO (XI (XO (XO (XI (XI (XI
    (XO (XI (XO (XI (XO (XO (XI (XI (XO
    XH)))))))))))))))))))))))))))))))))))))))))))))))))))))))))))))))) :: ((Npos
    (XI (XI (XO (XI (XI (XI (XI (XI (XI (XI (XO (XI (XO (XO (XO (XI (XO (XI
    (XI (XO (XI (XI (XI (XO (XO (XO (XO (XI (XI (XI (XO (XO (XO (XO (XO (XO
    (XI (XI (XO (XI (XO (XI (XI (XO (XI (XO (XI (XI (XI (XI (XO (XI (XO (XI
    (XO (XI (XI (XI (XO (XI (XI
    XH)))))))))))))))))))))))))))))))))))))))))))))))))))))))))))))) :: ((Npos
    (XO (XI (XO (XI (XO (XI (XI (XO (XI (XI (XO (XI (XO (XI (XI (XO (XO (XO
    (XO (XI (XO (XO (XO (XI (XI (XI (XO (XO (XI (XI (XI (XI (XI (XO (XI (XO
    (XI (XO (XI (XI (XI (XI (XO (XO (XO (XI (XI (XI (XO (XI (XI (XO (XO (XI
    (XI (XO (XO (XO (XO (XO (XO (XO
    XH))))))))))))))))))))))))))))))))))))))))))))))))))))))))))))))) :: ((Npos
    (XO (XO (XO (XI (XO (XO (XO (XI (XI (XI (XO (XO (XI (XO (XI (XO (XO (XI
    (XO (XO (XI (XI (XI (XO (XO (XO (XI (XI (XO (XO (XI (XO (XI (XO (XI (XI
    (XO (XI (XO (XI (XO (XI (XO (XI (XI (XI (XI (XI (XO (XI (XO (XI (XI (XI
    (XO (XO (XO (XO (XI (XI (XO (XI (XO
    XH)))))))))))))))))))))))))))))))))))))))))))))))))))))))))))))))) :: ((Npos
    (XI (XI (XI (XI (XI (XO (XO (XO (XO (XI (XI (XI (XI (XO (XI (XI (XI (XO
    (XI (XI (XO (XO (XO (XI (XI (XO (XO (XO (XI (XO (XI (XI (XI (XO (XI (XO
    (XO (XO (XI (XI (XO (XI (XO (XI (XI (XO (XI (XO (XO (XO (XI (XI (XI (XI
    (XI (XI (XI (XO (XI (XI (XI (XI
    XH))))))))))))))))))))))))))))))))))))))))))))))))))))))))))))))) :: ((Npos
    (XI (XI (XI (XO (XI (XI (XO (XI (XI (XI (XI (XO (XO (XI (XO (XO (XI (XO
    (XI (XI (XI (XI (XI (XI (XI (XO (XI (XI (XO (XO (XO (XI (XI (XI (XO (XI
    (XI (XI (XI (XO (XI (XI (XI (XI (XI (XO (XI (XO (XO (XI (XI (XO (XI (XO
    (XO (XI (XO (XO (XO (XO (XI (XI
    XH))))))))))))))))))))))))))))))))))))))))))))))))))))))))))))))) :: ((Npos
    (XI (XO (XI (XO (XO (XI (XO (XI (XI (XI (XO (XI (XI (XI (XO (XI (XI (XI
    (XI (XO (XO (XI (XI (XI (XO (XO (XI (XO (XI (XI (XO (XI (XI (XI (XI (XI
    (XO (XO (XO (XO (XO (XI (XO (XO (XI (XI (XO (XI (XI (XI (XI (XI (XO (XI
    (XI (XO (XI
    XH)))))))))))))))))))))))))))))))))))))))))))))))))))))))))) :: ((Npos
    (XI (XI (XO (XI (XO (XI (XI (XI (XI (XI (XI (XI (XI (XI (XO (XO (XO (XI
    (XO (XO (XI (XO (XO (XO (XO (XI (XI (XO (XO (XI (XI (XO (XI (XI (XI (XI
    (XI (XO (XI (XO (XI (XO (XI (XO (XI (XI (XI (XI (XO (XI (XI (XO (XO (XI
    (XO (XI (XO (XO (XO (XI (XO (XO (XO
    XH)))))))))))))))))))))))))))))))))))))))))))))))))))))))))))))))) :: ((Npos
    (XI (XO (XI (XO (XI (XO (XO (XI (XI (XO (XO (XI (XO (XI (XI (XO (XO (XO
    (XI (XO (XO (XI (XO (XO (XI (XI (XI (XI (XO (XO (XI (XO (XO (XO (XO (XO
    (XO (XI (XO (XI (XI (XI (XI (XO (XO (XI (XI (XI (XI (XO (XO (XI (XI (XI
    (XO (XI (XO (XI (XO (XI (XO (XI (XO
    XH)))))))))))))))))))))))))))))))))))))))))))))))))))))))))))))))) :: ((Npos
    (XO (XI (XI (XI (XI (XO (XO (XI (XO (XI (XO (XI (XI (XI (XI (XO (XO (XI
    (XO (XO (XI (XI (XI (XO (XO (XI (XI (XI (XI (XI (XO (XO (XO (XO (XI (XO
    (XI (XO (XI (XI (XI (XO (XI (XO (XI (XO (XI (XI (XI (XO (XO (XI (XO (XO
    (XO (XO (XO (XO (XI (XO (XI (XI (XI
    XH)))))))))))))))))))))))))))))))))))))))))))))))))))))))))))))))) :: ((Npos
    (XO (XI (XO (XI (XI (XO (XI (XO (XO (XO (XI (XO (XI (XO (XI (XO (XI (XI
    (XO (XO (XO (XO (XI (XI (XI (XO (XI (XI (XI (XO (XI (XO (XI (XI (XO (XI
    (XI (XI (XI (XO (XO (XO (XI (XO (XO (XO (XO (XI (XO (XO (XI (XO (XI (XO
    (XO (XO (XO (XI (XI (XI (XO
    XH)))))))))))))))))))))))))))))))))))))))))))))))))))))))))))))) :: ((Npos
    (XI (XO (XO (XI (XO (XO (XO (XI (XO (XO (XO (XI (XI (XI (XO (XO (XO (XI
    (XI (XI (XI (XO (XO (XI (XI (XO (XI (XO (XO (XO (XO (XO (XO (XO (XI (XO
    (XI (XI (XI (XO (XO (XI (XO (XI (XO (XI (XI (XI (XO (XO (XO (XI (XI (XO
    (XI (XI (XO (XI (XI (XI
    XH))))))))))))))))))))))))))))))))))))))))))))))))))))))))))))) :: ((Npos
    (XO (XO (XI (XO (XI (XI (XI (XI (XI (XI (XO (XI (XO (XO (XO (XO (XI (XI
    (XI (XI (XO (XI (XO (XI (XO (XO (XI (XO (XI (XO (XI (XO (XO (XI (XO (XI
    (XO (XO (XI (XI (XI (XO (XI (XO (XO (XO (XO (XI (XO (XO (XO (XO (XO (XO
    (XO (XO (XI (XO (XI (XI (XO (XI (XI
    XH)))))))))))))))))))))))))))))))))))))))))))))))))))))))))))))))) :: ((Npos
    (XI (XO (XO (XI (XI (XI (XO (XI (XO (XO (XO (XO (XI (XI (XO (XI (XI (XO
    (XI (XO (XI (XI (XI (XO (XI (XI (XO (XI (XO (XO (XO (XI (XO (XI (XO (XI
    (XO (XO (XO (XI (XO (XO (XO (XI (XO (XO (XI (XO (XO (XI (XO (XO (XO (XO
    (XI (XO (XI (XI (XI (XO (XI (XI (XO
    XH)))))))))))))))))))))))))))))))))))))))))))))))))))))))))))))))) :: ((Npos
    (XI (XI (XO (XO (XI (XI (XI (XI (XI (XO (XI (XI (XO (XO (XO (XI (XO (XO
    (XI (XI (XI (XO (XI (XO (XO (XI (XO (XI (XI (XI (XO (XO (XI (XO (XO (XI
    (XO (XI (XI (XO (XI (XI (XO (XO (XI (XI (XI (XI (XI (XI (XO (XO (XI (XO
    (XI (XO (XI (XO (XO (XO (XI (XI
    XH))))))))))))))))))))))))))))))))))))))))))))))))))))))))))))))) :: ((Npos
    (XI (XO (XO (XI (XI (XI (XO (XI (XO (XI (XI (XO (XO (XI (XO (XI (XO (XI
    (XO (XO (XI (XI (XI (XO (XO (XO (XO (XI (XO (XO (XI (XI (XI (XI (XI (XO
    (XI (XI (XI (XO (XO (XO (XI (XI (XO (XI (XI (XO (XO (XO (XO (XO (XI (XI
    (XI (XO (XI (XI (XO (XO (XI (XO (XO
    XH)))))))))))))))))))))))))))))))))))))))))))))))))))))))))))))))) :: ((Npos
    (XI (XI (XO (XO (XO (XI (XI (XI (XI (XI (XO (XI (XI (XO (XO (XO (XI (XI
    (XI (XI (XI (XO (XO (XI (XI (XO (XI (XI (XI (XO (XO (XI (XI (XI (XI (XO
    (XO (XO (XI (XI (XO (XI (XI (XO (XO (XI (XI (XI (XI (XI (XI (XI (XO (XI
    (XO (XI (XI (XI (XO (XI (XO (XI
    XH))))))))))))))))))))))))))))))))))))))))))))))))))))))))))))))) :: ((Npos
    (XI (XO (XO (XO (XI (XI (XI (XO (XI (XI (XO (XO (XI (XI (XO (XO (XO (XI
    (XI (XI (XI (XO (XI (XI (XO (XO (XO (XO (XO (XO (XO (XO (XO (XI (XI (XI
    (XO (XI (XO (XO (XO (XO (XO (XO (XI (XO (XO (XI (XI (XO (XI (XI (XI (XI
    (XI (XI (XO (XO (XO (XI (XI (XO
    XH))))))))))))))))))))))))))))))))))))))))))))))))))))))))))))))) :: ((Npos
    (XO (XO (XO (XI (XO (XO (XI (XI (XO (XI (XO (XO (XI (XI (XO (XO (XI (XI
    (XI (XI (XI (XO (XO (XI (XO (XI (XO (XO (XO (XI (XO (XI (XO (XI (XO (XI
    (XO (XI (XI (XO (XI (XO (XI (XO (XO (XO (XI (XO (XO (XI (XO (XI (XI (XI
    (XO (XI (XI (XO (XO (XI (XO (XO (XI
    XH)))))))))))))))))))))))))))))))))))))))))))))))))))))))))))))))) :: ((Npos
    (XI (XO (XI (XO (XI (XI (XO (XI (XO (XO (XO (XI (XI (XI (XO (XI (XI (XO
    (XO (XI (XI (XO (XO (XI (XO (XI (XI (XI (XO (XO (XO (XO (XO (XI (XI (XI
    (XI (XO (XI (XO (XO (XO (XO (XO (XO (XI (XI (XO (XI (XO (XI (XI (XO (XO
    (XI (XI (XO (XO (XI (XI
    XH))))))))))))))))))))))))))))))))))))))))))))))))))))))))))))) :: ((Npos
    (XO (XO (XI (XO (XI (XO (XO (XI (XI (XI (XO (XO (XI (XI (XO (XO (XI (XI
    (XI (XO (XI (XO (XI (XI (XI (XI (XO (XO (XO (XO (XI (XI (XI (XO (XI (XI
    (XI (XO (XO (XI (XO (XO (XI (XO (XI (XO (XO (XI (XO (XO (XI (XI (XO (XO
    (XI (XI (XO (XI (XO (XO (XI (XI
    XH))))))))))))))))))))))))))))))))))))))))))))))))))))))))))))))) :: ((Npos
    (XI (XI (XI (XO (XI (XI (XO (XI (XI (XI (XO (XI (XO (XO (XO (XO (XI (XI
    (XO (XI (XO (XO (XO (XI (XO (XI (XI (XO (XI (XO (XO (XO (XI (XI (XO (XI
    (XO (XO (XO (XI (XO (XI (XO (XO (XI (XI (XO (XI (XI (XI (XO (XI (XI (XI
    (XI (XO (XO (XO (XO (XI (XO (XI (XI
    XH)))))))))))))))))))))))))))))))))))))))))))))))))))))))))))))))) :: ((Npos
    (XI (XI (XO (XI (XI (XI (XO (XI (XO (XI (XO (XI (XI (XO (XI (XO (XO (XO
    (XO (XI (XI (XI (XI (XI (XI (XO (XI (XO (XI (XO (XI (XO (XI (XO (XO (XI
    (XI (XI (XI (XI (XI (XO (XI (XO (XI (XI (XO (XO (XO (XO (XI (XI (XO (XI
    (XI (XI (XO (XO (XI (XI (XI (XO (XI
    XH)))))))))))))))))))))))))))))))))))))))))))))))))))))))))))))))) :: ((Npos
    (XO (XO (XO (XI (XO (XO (XI (XI (XI (XI (XI (XI (XI (XO (XO (XO (XO (XO
    (XI (XO (XI (XI (XI (XO (XI (XO (XI (XO (XO (XI (XI (XO (XI (XI (XO (XO
    (XI (XO (XO (XI (XO (XO (XO (XO (XI (XI (XO (XO (XO (XO (XO (XO (XI (XI
    (XI (XI (XI (XO (XO (XO (XO
    XH)))))))))))))))))))))))))))))))))))))))))))))))))))))))))))))) :: ((Npos
    (XI (XO (XI (XO (XI (XI (XI (XI (XI (XO (XO (XI (XI (XI (XO (XO (XI (XI
    (XO (XO (XI (XO (XI (XI (XO (XI (XO (XI (XI (XO (XI (XO (XI (XO (XO (XI
    (XO (XI (XI (XO (XO (XO (XO (XI (XI (XO (XO (XO (XI (XO (XI (XI (XO (XI
    (XI (XO (XO (XI (XI (XI (XO
    XH)))))))))))))))))))))))))))))))))))))))))))))))))))))))))))))) :: ((Npos
    (XO (XI (XI (XO (XI (XO (XO (XI (XO (XO (XI (XO (XO (XI (XO (XI (XI (XI
    (XO (XO (XO (XO (XI (XO (XO (XI (XO (XI (XI (XI (XO (XO (XI (XO (XO (XI
    (XI (XI (XI (XO (XO (XI (XI (XI (XI (XO (XI (XI (XI (XI (XO (XO (XI (XO
    (XO (XO (XO (XO (XI (XI (XI (XO (XO
    XH)))))))))))))))))))))))))))))))))))))))))))))))))))))))))))))))) :: ((Npos
    (XI (XO (XI (XI (XI (XI (XO (XI (XO (XI (XI (XO (XO (XO (XO (XO (XO (XO
    (XI (XO (XI (XO (XO (XO (XO (XI (XI (XI (XI (XO (XO (XO (XI (XO (XI (XI
    (XO (XO (XI (XO (XI (XI (XO (XO (XO (XI (XI (XI (XI (XO (XO (XI (XO (XO
    (XI (XI (XO (XO (XO (XI (XI (XO (XI
    XH)))))))))))))))))))))))))))))))))))))))))))))))))))))))))))))))) :: ((Npos
    (XI (XO (XI (XO (XI (XI (XO (XI (XO (XO (XO (XI (XO (XI (XO (XO (XO (XO
    (XO (XI (XO (XI (XO (XI (XO (XI (XO (XO (XI (XO (XO (XO (XI (XO (XO (XO
    (XI (XO (XI (XI (XI (XO (XI (XI (XI (XI (XO (XO (XI (XI (XO (XI (XO (XO
    (XI (XO (XO (XO (XO (XO (XI (XO (XI
    XH)))))))))))))))))))))))))))))))))))))))))))))))))))))))))))))))) :: ((Npos
    (XO (XO (XI (XO (XI (XI (XI (XI (XO (XO (XO (XI (XO (XO (XO (XI (XI (XO
    (XI (XO (XI (XO (XO (XI (XO (XO (XO (XI (XI (XO (XI (XO (XI (XO (XI (XO
    (XO (XI (XI (XO (XI (XI (XO (XO (XI (XO (XO (XI (XI (XI (XI (XI (XI (XI
    (XO (XO (XO (XO (XI (XI (XO (XI
    XH))))))))))))))))))))))))))))))))))))))))))))))))))))))))))))))) :: ((Npos
    (XI (XO (XI (XO (XI (XI (XO (XI (XO (XO (XI (XO (XI (XI (XO (XI (XO (XI
    (XO (XI (XO (XO (XI (XO (XI (XI (XI (XO (XI (XI (XI (XI (XI (XO (XI (XI
    (XO (XI (XO (XI (XI (XI (XI (XI (XO (XO (XO (XI (XO (XI (XO (XI (XI (XO
    (XO (XI (XO (XO (XI (XO (XO (XO (XI
    XH)))))))))))))))))))))))))))))))))))))))))))))))))))))))))))))))) :: ((Npos
    (XI (XI (XO (XI (XI (XI (XI (XO (XO (XO (XO (XI (XO (XO (XO (XO (XI (XI
    (XI (XO (XI (XI (XI (XO (XO (XI (XI (XI (XI (XO (XI (XI (XO (XI (XI (XI
    (XO (XI (XI (XI (XO (XO (XO (XI (XI (XO (XO (XI (XI (XI (XO (XI (XO (XI
    (XO (XO (XO (XO (XI (XO (XI (XI (XI
    XH)))))))))))))))))))))))))))))))))))))))))))))))))))))))))))))))) :: ((Npos
    (XO (XO (XO (XI (XI (XI (XI (XI (XI (XI (XI (XO (XO (XI (XI (XO (XO (XI
    (XI (XI (XI (XO (XI (XO (XO (XO (XO (XI (XI (XI (XI (XI (XO (XO (XI (XI
    (XI (XO (XO (XI (XO (XI (XO (XO (XI (XO (XI (XI (XI (XO (XO (XI (XO (XO
    (XI (XI (XI (XI (XO (XI (XI
    XH)))))))))))))))))))))))))))))))))))))))))))))))))))))))))))))) :: ((Npos
    (XI (XI (XI (XO (XO (XO (XI (XI (XO (XO (XO (XI (XO (XO (XO (XO (XO (XO
    (XI (XI (XI (XO (XI (XI (XO (XO (XO (XI (XO (XO (XO (XI (XI (XI (XO (XO
    (XI (XO (XO (XI (XI (XI (XI (XO (XI (XO (XI (XO (XI (XO (XO (XI (XO (XO
    (XO (XO (XI (XI (XO (XO (XO (XI
    XH))))))))))))))))))))))))))))))))))))))))))))))))))))))))))))))) :: ((Npos
    (XI (XO (XI (XI (XO (XI (XI (XO (XI (XI (XI (XI (XO (XO (XO (XO (XI (XI
    (XI (XO (XI (XO (XO (XO (XO (XO (XI (XI (XI (XO (XO (XI (XO (XO (XI (XO
    (XI (XO (XO (XI (XO (XI (XO (XI (XO (XO (XO (XO (XO (XI (XO (XI (XI (XO
    (XI (XI (XI (XO (XO (XO (XO (XI (XI
    XH)))))))))))))))))))))))))))))))))))))))))))))))))))))))))))))))) :: ((Npos
    (XO (XI (XI (XO (XI (XO (XI (XO (XO (XI (XO (XI (XI (XI (XI (XO (XO (XI
    (XI (XO (XI (XI (XI (XO (XI (XI (XI (XO (XI (XI (XO (XO (XO (XI (XO (XO
    (XO (XI (XO (XI (XI (XI (XI (XO (XI (XI (XO (XO (XI (XI (XO (XI (XO (XI
    (XO (XI (XI (XO (XI (XO (XO (XO
    XH))))))))))))))))))))))))))))))))))))))))))))))))))))))))))))))) :: ((Npos
    (XI (XO (XI (XO (XI (XI (XO (XI (XO (XO (XO (XI (XO (XI (XI (XO (XI (XO
    (XI (XO (XO (XO (XO (XI (XO (XO (XO (XO (XI (XO (XI (XI (XO (XI (XI (XI
    (XI (XI (XI (XI (XI (XI (XO (XO (XO (XI (XO (XI (XO (XI (XO (XI (XO (XI
    (XI (XO (XO (XO (XI (XI (XI (XO (XO
    XH)))))))))))))))))))))))))))))))))))))))))))))))))))))))))))))))) :: ((Npos
    (XO (XI (XI (XO (XI (XO (XO (XO (XO (XO (XO (XI (XI (XI (XI (XI (XI (XI
    (XI (XO (XI (XI (XO (XI (XO (XO (XI (XO (XO (XO (XO (XO (XI (XO (XI (XI
    (XI (XI (XI (XI (XO (XI (XI (XI (XO (XI (XI (XO (XI (XO (XI (XO (XI (XI
    (XO (XO (XI (XI (XI (XI (XI (XO (XI
    XH)))))))))))))))))))))))))))))))))))))))))))))))))))))))))))))))) :: ((Npos
    (XI (XI (XI (XO (XO (XI (XI (XO (XI (XI (XI (XI (XI (XI (XI (XO (XI (XO
    (XI (XO (XO (XO (XI (XO (XO (XO (XO (XO (XI (XO (XO (XO (XO (XI (XO (XO
    (XO (XO (XO (XO (XO (XI (XI (XI (XO (XO (XO (XI (XO (XO (XI (XI (XO (XI
    (XI (XO (XO (XO (XI
    XH)))))))))))))))))))))))))))))))))))))))))))))))))))))))))))) :: ((Npos
    (XI (XI (XO (XI (XO (XO (XI (XI (XO (XO (XI (XI (XI (XO (XI (XI (XO (XI
    (XO (XO (XI (XI (XI (XI (XI (XI (XO (XI (XO (XO (XO (XI (XI (XI (XO (XO
    (XO (XO (XO (XI (XO (XO (XO (XI (XO (XO (XI (XO (XO (XO (XO (XI (XO (XI
    (XO (XI (XI (XO (XO (XI (XO (XO (XO
    XH)))))))))))))))))))))))))))))))))))))))))))))))))))))))))))))))) :: ((Npos
    (XO (XO (XO (XO (XO (XO (XI (XO (XI (XO (XO (XO (XO (XI (XI (XO (XO (XI
    (XI (XI (XI (XI (XO (XO (XI (XI (XI (XI (XO (XI (XO (XO (XO (XI (XO (XO
    (XI (XO (XI (XO (XI (XO (XI (XO (XI (XI (XO (XO (XI (XI (XI (XI (XI (XO
    (XI (XO (XO (XO (XI (XO (XI (XO (XO
    XH)))))))))))))))))))))))))))))))))))))))))))))))))))))))))))))))) :: ((Npos
    (XI (XO (XI (XO (XI (XI (XI (XI (XI (XI (XI (XI (XI (XI (XI (XI (XI (XO
    (XO (XO (XI (XI (XO (XO (XI (XI (XO (XO (XO (XI (XO (XI (XO (XO (XI (XO
    (XO (XO (XO (XI (XI (XO (XI (XI (XO (XI (XI (XI (XO (XO (XI (XO (XI (XI
    (XO (XO (XO (XI (XO (XO
    XH))))))))))))))))))))))))))))))))))))))))))))))))))))))))))))) :: ((Npos
    (XI (XO (XI (XO (XI (XI (XO (XI (XO (XI (XO (XO (XI (XO (XO (XO (XO (XI
    (XO (XO (XO (XO (XO (XI (XO (XI (XO (XO (XI (XO (XI (XO (XO (XO (XI (XO
    (XO (XO (XI (XI (XI (XO (XI (XI (XI (XO (XO (XI (XO (XO (XI (XO (XI (XO
    (XI (XI (XI (XI (XO (XI (XO (XI (XO
    XH)))))))))))))))))))))))))))))))))))))))))))))))))))))))))))))))) :: ((Npos
    (XO (XI (XO (XI (XI (XI (XO (XO (XO (XI (XI (XO (XO (XI (XI (XI (XO (XO
    (XI (XI (XO (XI (XI (XO (XI (XI (XI (XI (XO (XI (XO (XI (XI (XO (XI (XI
    (XO (XI (XI (XO (XI (XI (XI (XI (XI (XO (XO (XO (XI (XO (XO (XI (XI (XO
    (XI (XI (XI (XO (XO (XO (XI (XI (XO
    XH)))))))))))))))))))))))))))))))))))))))))))))))))))))))))))))))) :: ((Npos
    (XO (XO (XO (XI (XO (XO (XI (XI (XO (XI (XI (XI (XI (XO (XO (XO (XI (XI
    (XI (XI (XO (XI (XI (XI (XI (XO (XI (XO (XO (XI (XO (XO (XI (XO (XI (XI
    (XO (XI (XO (XO (XI (XI (XI (XO (XO (XI (XO (XI (XI (XO (XO (XO (XI (XO
    (XI (XI (XO (XI (XI (XO (XI (XO (XO
    XH)))))))))))))))))))))))))))))))))))))))))))))))))))))))))))))))) :: ((Npos
    (XI (XI (XI (XO (XI (XO (XO (XO (XI (XI (XO (XO (XO (XI (XI (XO (XO (XO
    (XI (XO (XO (XO (XO (XO (XO (XI (XI (XO (XI (XI (XI (XI (XO (XI (XO (XI
    (XI (XI (XI (XI (XO (XI (XO (XI (XI (XI (XO (XO (XI (XO (XI (XI (XI (XO
    (XO (XI (XO (XO (XO (XI (XO (XO (XI
    XH)))))))))))))))))))))))))))))))))))))))))))))))))))))))))))))))) :: ((Npos
    (XO (XI (XO (XI (XO (XO (XO (XO (XO (XI (XO (XI (XI (XO (XO (XI (XO (XO
    (XI (XI (XO (XI (XO (XI (XO (XI (XI (XO (XO (XO (XI (XO (XO (XI (XI (XO
    (XO (XO (XO (XO (XI (XI (XO (XO (XI (XO (XI (XO (XI (XI (XO (XO (XI (XO
    (XO (XO (XI (XO (XI (XI
    XH))))))))))))))))))))))))))))))))))))))))))))))))))))))))))))) :: ((Npos
    (XO (XI (XI (XO (XO (XI (XI (XI (XO (XO (XI (XI (XI (XO (XO (XI (XO (XI
    (XI (XI (XO (XO (XO (XI (XI (XI (XI (XI (XI (XO (XI (XO (XO (XI (XO (XI
    (XI (XI (XO (XI (XI (XO (XO (XO (XI (XO (XO (XO (XO (XI (XI (XO (XO (XI
    (XO (XO (XI (XI (XI (XO (XO (XO
    XH))))))))))))))))))))))))))))))))))))))))))))))))))))))))))))))) :: ((Npos
    (XI (XO (XO (XO (XO (XO (XI (XO (XI (XI (XI (XI (XO (XI (XO (XO (XI (XI
    (XO (XI (XI (XO (XI (XO (XI (XI (XI (XO (XI (XI (XI (XI (XI (XO (XI (XO
    (XO (XI (XO (XO (XO (XO (XO (XO (XI (XI (XI (XI (XI (XO (XO (XI (XI (XO
    (XO (XI (XI (XO (XO (XO (XI (XO (XO
    XH)))))))))))))))))))))))))))))))))))))))))))))))))))))))))))))))) :: ((Npos
    (XI (XO (XO (XI (XO (XI (XI (XO (XI (XI (XI (XI (XI (XO (XO (XI (XO (XI
    (XI (XO (XO (XO (XI (XO (XI (XO (XI (XI (XI (XO (XO (XO (XI (XO (XO (XO
    (XI (XO (XI (XO (XI (XO (XO (XO (XO (XI (XI (XO (XO (XO (XI (XI (XI (XI
    (XO (XI (XO (XI (XO (XO (XI (XO (XI
    XH)))))))))))))))))))))))))))))))))))))))))))))))))))))))))))))))) :: ((Npos
    (XO (XI (XO (XO (XI (XO (XI (XI (XO (XI (XI (XI (XI (XI (XI (XO (XO (XI
    (XI (XO (XI (XI (XO (XI (XI (XI (XO (XO (XO (XO (XO (XO (XI (XO (XI (XO
    (XI (XI (XI (XI (XO (XI (XI (XO (XI (XO (XI (XI (XI (XO (XI (XO (XI (XI
    (XO (XI (XO (XO (XO (XI (XI (XI (XO
    XH)))))))))))))))))))))))))))))))))))))))))))))))))))))))))))))))) :: ((Npos
    (XO (XO (XO (XO (XI (XI (XI (XO (XI (XO (XO (XI (XI (XI (XI (XI (XO (XO
    (XI (XO (XO (XO (XI (XO (XO (XI (XO (XI (XO (XO (XO (XI (XI (XI (XI (XO
    (XO (XI (XI (XO (XO (XO (XO (XI (XO (XO (XO (XO (XO (XI (XI (XI (XI (XO
    (XI (XO (XI (XO (XO (XO (XI (XI
    XH))))))))))))))))))))))))))))))))))))))))))))))))))))))))))))))) :: ((Npos
    (XI (XO (XO (XO (XO (XI (XI (XI (XI (XO (XO (XI (XO (XO (XO (XO (XO (XO
    (XI (XI (XO (XO (XI (XI (XO (XI (XI (XI (XI (XI (XI (XI (XO (XO (XO (XO
    (XI (XI (XI (XO (XO (XO (XO (XI (XO (XI (XI (XO (XI (XO (XI (XI (XI (XO
    (XI (XO (XI (XO (XO (XI (XO (XO
    XH))))))))))))))))))))))))))))))))))))))))))))))))))))))))))))))) :: ((Npos
    (XI (XO (XI (XO (XO (XO (XI (XO (XI (XI (XI (XO (XI (XO (XO (XI (XI (XI
    (XO (XO (XI (XI (XI (XO (XI (XI (XI (XO (XI (XO (XO (XO (XO (XI (XI (XI
    (XO (XI (XI (XI (XO (XI (XO (XI (XO (XI (XI (XO (XI (XI (XO (XO (XI (XO
    (XI (XI (XO (XO (XI (XI
    XH))))))))))))))))))))))))))))))))))))))))))))))))))))))))))))) :: ((Npos
    (XI (XI (XO (XO (XO (XI (XO (XO (XO (XI (XO (XO (XO (XO (XO (XO (XI (XO
    (XO (XI (XO (XO (XO (XO (XI (XI (XO (XI (XO (XO (XO (XI (XO (XI (XI (XO
    (XI (XO (XI (XO (XI (XO (XI (XI (XO (XO (XI (XO (XI (XO (XI (XO (XO (XI
    (XI (XI (XO (XI (XO (XI (XO (XO (XI
    XH)))))))))))))))))))))))))))))))))))))))))))))))))))))))))))))))) :: ((Npos
    (XI (XI (XI (XO (XO (XI (XO (XI (XO (XI (XI (XO (XO (XO (XI (XO (XI (XO
    (XI (XI (XO (XO (XO (XI (XO (XO (XI (XO (XO (XO (XO (XO (XO (XO (XI (XI
    (XO (XI (XI (XO (XO (XO (XO (XO (XI (XO (XI (XO (XI (XI (XI (XI (XO (XO
    (XI (XI (XI (XO (XI (XO (XO
    XH)))))))))))))))))))))))))))))))))))))))))))))))))))))))))))))) :: ((Npos
    (XI (XO (XO (XO (XO (XI (XI (XI (XO (XI (XI (XI (XI (XO (XO (XO (XO (XO
    (XO (XI (XO (XI (XI (XI (XO (XO (XO (XI (XO (XO (XO (XI (XO (XO (XO (XI
    (XO (XO (XO (XO (XO (XI (XI (XO (XO (XO (XI (XO (XO (XI (XO (XI (XI (XO
    (XI (XO (XO (XO (XI (XO (XO
    XH)))))))))))))))))))))))))))))))))))))))))))))))))))))))))))))) :: ((Npos
    (XI (XI (XI (XI (XI (XO (XO (XI (XO (XI (XI (XI (XO (XI (XI (XO (XO (XI
    (XO (XI (XI (XO (XI (XI (XI (XO (XI (XO (XO (XO (XO (XO (XO (XI (XO (XI
    (XO (XI (XI (XO (XO (XO (XI (XI (XO (XI (XI (XO (XO (XI (XO (XI (XO (XO
    (XO (XI (XO (XI (XI (XI (XO (XO (XO
    XH)))))))))))))))))))))))))))))))))))))))))))))))))))))))))))))))) :: ((Npos
    (XI (XI (XI (XI (XI (XO (XO (XO (XO (XI (XI (XI (XO (XI (XI (XI (XI (XI
    (XI (XO (XI (XO (XO (XI (XI (XI (XI (XI (XO (XI (XI (XI (XI (XO (XO (XO
    (XO (XI (XO (XO (XI (XI (XO (XI (XO (XI (XO (XO (XI (XO (XO (XO (XO (XO
    (XO (XO (XO
    XH)))))))))))))))))))))))))))))))))))))))))))))))))))))))))) :: ((Npos
    (XI (XI (XI (XI (XO (XO (XO (XO (XO (XI (XI (XI (XI (XI (XO (XI (XO (XI
    (XI (XO (XI (XO (XO (XO (XI (XO (XI (XI (XI (XO (XO (XI (XO (XI (XI (XO
    (XO (XO (XO (XI (XO (XO (XI (XO (XI (XO (XO (XO (XI (XO (XO (XO (XO (XO
    (XO (XI (XI (XO (XI (XO (XO (XI
    XH))))))))))))))))))))))))))))))))))))))))))))))))))))))))))))))) :: ((Npos
    (XO (XO (XI (XO (XI (XO (XO (XO (XO (XI (XI (XO (XO (XO (XI (XO (XI (XO
    (XO (XO (XI (XO (XI (XO (XI (XI (XI (XI (XO (XI (XO (XO (XO (XI (XI (XO
    (XI (XO (XI (XI (XI (XO (XI (XO (XO (XI (XI (XO (XI (XO (XI (XO (XO (XI
    (XO (XO (XO (XI (XO (XI (XI (XI (XI
    XH)))))))))))))))))))))))))))))))))))))))))))))))))))))))))))))))) :: ((Npos
    (XO (XO (XI (XI (XO (XI (XO (XI (XO (XO (XI (XI (XO (XO (XI (XO (XO (XO
    (XI (XI (XI (XO (XO (XO (XO (XI (XI (XI (XI (XI (XO (XI (XI (XI (XO (XI
    (XI (XO (XI (XI (XO (XI (XI (XO (XI (XI (XI (XO (XI (XO (XO (XI (XO (XO
    (XO (XO (XO (XI (XO (XI (XI (XO (XO
    XH)))))))))))))))))))))))))))))))))))))))))))))))))))))))))))))))) :: ((Npos
    (XO (XI (XI (XO (XI (XO (XI (XI (XI (XI (XO (XI (XI (XI (XI (XO (XO (XO
    (XI (XI (XO (XI (XI (XO (XO (XO (XO (XO (XO (XI (XO (XO (XO (XI (XI (XI
    (XI (XI (XO (XO (XI (XO (XI (XI (XI (XO (XO (XO (XO (XI (XO (XI (XO (XO
    (XI (XI (XI (XI (XO (XO (XO (XO (XO
    XH)))))))))))))))))))))))))))))))))))))))))))))))))))))))))))))))) :: ((Npos
    (XO (XI (XI (XI (XO (XO (XO (XO (XI (XI (XO (XI (XO (XO (XI (XI (XO (XI
    (XO (XO (XO (XI (XI (XO (XI (XO (XI (XO (XO (XO (XI (XI (XO (XO (XO (XO
    (XI (XI (XO (XO (XI (XO (XI (XO (XI (XO (XI (XO (XI (XO (XO (XI (XO (XI
    (XI (XO (XI
    XH)))))))))))))))))))))))))))))))))))))))))))))))))))))))))) :: ((Npos
    (XO (XI (XI (XI (XO (XI (XO (XI (XI (XO (XI (XO (XI (XO (XI (XI (XI (XI
    (XI (XI (XO (XO (XI (XI (XO (XO (XI (XI (XI (XI (XO (XO (XO (XI (XI (XI
    (XI (XO (XO (XI (XO (XI (XO (XI (XI (XO (XO (XI (XO (XI (XI (XO (XI (XI
    (XO (XI (XO (XI (XO (XI (XO (XO
    XH))))))))))))))))))))))))))))))))))))))))))))))))))))))))))))))) :: ((Npos
    (XO (XO (XI (XO (XI (XO (XI (XO (XO (XI (XI (XI (XO (XI (XI (XI (XO (XI
    (XI (XI (XO (XO (XO (XI (XI (XI (XO (XI (XI (XO (XI (XO (XO (XI (XI (XI
    (XO (XO (XO (XI (XI (XO (XO (XI (XO (XO (XO (XI (XO (XO (XO (XO (XI (XO
    (XO (XI (XI (XO (XI (XO (XI (XO (XO
    XH)))))))))))))))))))))))))))))))))))))))))))))))))))))))))))))))) :: ((Npos
    (XI (XO (XO (XI (XI (XO (XI (XI (XI (XO (XI (XI (XI (XI (XO (XO (XO (XI
    (XI (XO (XI (XI (XI (XI (XI (XO (XI (XI (XI (XO (XI (XI (XO (XI (XO (XI
    (XO (XI (XI (XI (XO (XI (XO (XI (XO (XO (XO (XO (XI (XI (XI (XO (XI (XO
    (XO (XI (XO (XI (XI (XI (XI
    XH)))))))))))))))))))))))))))))))))))))))))))))))))))))))))))))) :: ((Npos
    (XI (XO (XI (XO (XO (XI (XI (XO (XI (XO (XI (XI (XI (XI (XI (XO (XO (XI
    (XI (XO (XI (XO (XI (XO (XO (XO (XI (XO (XO (XI (XO (XO (XO (XI (XI (XI
    (XO (XI (XO (XI (XI (XI (XO (XI (XI (XO (XI (XO (XI (XI (XO (XO (XI (XO
    (XI (XO (XI (XI (XO (XO (XI (XI
    XH))))))))))))))))))))))))))))))))))))))))))))))))))))))))))))))) :: ((Npos
    (XO (XO (XO (XI (XO (XI (XI (XO (XI (XI (XI (XO (XI (XO (XO (XO (XO (XI
    (XI (XO (XI (XI (XI (XI (XI (XO (XI (XI (XO (XI (XO (XI (XI (XI (XO (XI
    (XI (XO (XI (XI (XI (XO (XI (XO (XI (XI (XI (XO (XI (XO (XI (XO (XI (XI
    (XO (XO (XO (XO (XI (XI (XI (XO
    XH))))))))))))))))))))))))))))))))))))))))))))))))))))))))))))))) :: ((Npos
    (XI (XO (XI (XO (XI (XI (XI (XO (XI (XO (XI (XO (XI (XI (XO (XI (XO (XI
    (XO (XO (XI (XI (XI (XI (XO (XI (XO (XI (XI (XO (XI (XI (XO (XO (XI (XO
    (XO (XI (XO (XO (XI (XO (XO (XI (XI (XO (XI (XI (XI (XO (XI (XO (XI (XI
    (XO (XI (XI (XO (XO (XO (XO (XO (XI
    XH)))))))))))))))))))))))))))))))))))))))))))))))))))))))))))))))) :: ((Npos
    (XO (XI (XO (XO (XI (XI (XI (XO (XO (XO (XO (XO (XO (XO (XI (XI (XI (XO
    (XI (XI (XO (XI (XI (XO (XI (XO (XO (XI (XO (XI (XI (XO (XI (XO (XI (XO
    (XI (XO (XO (XI (XO (XI (XI (XO (XI (XI (XO (XO (XI (XO (XI (XI (XO (XI
    (XO (XO (XI (XI (XI (XO (XI (XO
    XH))))))))))))))))))))))))))))))))))))))))))))))))))))))))))))))) :: ((Npos
    (XI (XO (XI (XO (XO (XO (XO (XI (XO (XI (XI (XO (XO (XI (XO (XO (XO (XI
    (XO (XO (XO (XI (XO (XI (XO (XO (XO (XO (XI (XO (XI (XI (XO (XI (XI (XI
    (XI (XI (XI (XO (XI (XO (XO (XI (XO (XI (XO (XI (XI (XO (XO (XI (XI (XO
    (XO (XO (XO (XI (XI (XO (XI (XI
    XH))))))))))))))))))))))))))))))))))))))))))))))))))))))))))))))) :: ((Npos
    (XI (XI (XI (XO (XI (XI (XI (XO (XO (XI (XI (XO (XI (XI (XO (XI (XI (XO
    (XI (XO (XI (XO (XI (XO (XO (XO (XI (XO (XO (XI (XO (XO (XI (XO (XO (XI
    (XI (XO (XO (XI (XO (XO (XI (XO (XI (XI (XI (XO (XI (XI (XI (XO (XO (XO
    (XO (XO (XO (XI (XI (XI (XI (XI (XI
    XH)))))))))))))))))))))))))))))))))))))))))))))))))))))))))))))))) :: ((Npos
    (XO (XO (XO (XI (XO (XO (XO (XI (XO (XI (XO (XI (XI (XO (XI (XO (XI (XI
    (XI (XO (XI (XO (XO (XI (XO (XO (XO (XI (XO (XI (XI (XO (XO (XO (XI (XI
    (XO (XI (XO (XI (XI (XO (XI (XO (XI (XI (XO (XI (XI (XO (XO (XI (XI (XO
    (XO (XI (XO (XI (XI (XO (XI (XO
    XH))))))))))))))))))))))))))))))))))))))))))))))))))))))))))))))) :: ((Npos
    (XI (XO (XI (XI (XO (XI (XI (XI (XO (XO (XI (XI (XI (XO (XO (XO (XI (XI
    (XO (XO (XI (XI (XI (XI (XI (XO (XO (XI (XO (XI (XI (XO (XI (XI (XO (XI
    (XO (XO (XO (XI (XI (XO (XI (XO (XO (XI (XO (XI (XO (XI (XO (XI (XO (XO
    (XO (XI (XO (XI (XO (XO (XO (XI
    XH))))))))))))))))))))))))))))))))))))))))))))))))))))))))))))))) :: ((Npos
    (XI (XO (XO (XI (XI (XO (XO (XI (XI (XI (XO (XO (XO (XI (XI (XI (XI (XI
    (XO (XO (XI (XO (XO (XO (XO (XI (XO (XI (XI (XO (XI (XI (XO (XI (XI (XO
    (XI (XI (XO (XI (XI (XO (XI (XI (XI (XO (XO (XI (XI (XO (XO (XI (XO (XI
    (XI (XO (XO (XI (XI (XO (XO (XO (XI
    XH)))))))))))))))))))))))))))))))))))))))))))))))))))))))))))))))) :: ((Npos
    (XO (XI (XI (XI (XI (XI (XO (XI (XO (XI (XI (XI (XI (XO (XI (XI (XO (XO
    (XI (XI (XO (XO (XI (XO (XI (XI (XO (XO (XO (XI (XO (XI (XI (XI (XI (XI
    (XO (XO (XO (XO (XI (XO (XO (XO (XI (XI (XO (XI (XO (XI (XO (XI (XO (XI
    (XI (XO (XO (XO (XO (XO (XI (XI
    XH))))))))))))))))))))))))))))))))))))))))))))))))))))))))))))))) :: ((Npos
    (XI (XO (XI (XO (XI (XO (XO (XI (XI (XO (XO (XI (XI (XI (XI (XO (XI (XO
    (XI (XO (XO (XI (XI (XO (XO (XI (XI (XI (XI (XO (XI (XI (XO (XO (XI (XO
    (XI (XO (XO (XI (XI (XO (XO (XI (XO (XI (XI (XO (XO (XO (XI (XO (XI (XI
    (XI (XI (XO (XO (XO (XI (XO (XO (XI
    XH)))))))))))))))))))))))))))))))))))))))))))))))))))))))))))))))) :: ((Npos
    (XO (XI (XI (XI (XO (XI (XI (XI (XI (XI (XI (XI (XO (XI (XO (XI (XO (XI
    (XO (XO (XI (XO (XO (XO (XO (XI (XO (XI (XO (XI (XO (XO (XO (XI (XI (XI
    (XI (XO (XO (XO (XO (XO (XI (XI (XO (XI (XI (XO (XI (XI (XI (XI (XO (XI
    (XO (XO (XO (XI (XI (XI
    XH))))))))))))))))))))))))))))))))))))))))))))))))))))))))))))) :: ((Npos
    (XI (XO (XO (XI (XI (XO (XI (XI (XO (XI (XO (XO (XI (XI (XO (XI (XO (XO
    (XO (XO (XI (XO (XO (XI (XO (XI (XI (XI (XO (XI (XO (XO (XI (XI (XO (XI
    (XO (XO (XI (XO (XI (XI (XI (XO (XI (XI (XI (XI (XI (XI (XO (XO (XO (XI
    (XO (XI (XO (XI (XI (XI (XI
    XH)))))))))))))))))))))))))))))))))))))))))))))))))))))))))))))) :: ((Npos
    (XI (XO (XI (XO (XI (XI (XI (XO (XI (XI (XO (XI (XO (XI (XI (XO (XO (XI
    (XO (XI (XO (XO (XO (XI (XI (XO (XO (XO (XO (XO (XI (XI (XI (XO (XO (XI
    (XI (XI (XI (XO (XI (XO (XI (XI (XO (XO (XI (XO (XI (XI (XI (XI (XO (XI
    (XI (XO (XI (XI (XO (XI (XI (XO
    XH))))))))))))))))))))))))))))))))))))))))))))))))))))))))))))))) :: ((Npos
    (XO (XI (XI (XO (XO (XI (XO (XI (XO (XO (XO (XI (XO (XO (XI (XI (XI (XO
    (XO (XI (XO (XO (XI (XI (XO (XO (XI (XI (XO (XI (XI (XI (XI (XI (XI (XI
    (XI (XI (XO (XI (XO (XI (XO (XI (XO (XO (XO (XI (XI (XO (XO (XO (XO (XO
    (XI (XO (XO (XO (XO (XO
    XH))))))))))))))))))))))))))))))))))))))))))))))))))))))))))))) :: ((Npos
    (XI (XO (XI (XI (XI (XO (XI (XI (XO (XI (XI (XO (XI (XO (XO (XI (XI (XI
    (XI (XI (XO (XI (XI (XO (XO (XI (XO (XO (XI (XI (XI (XI (XI (XO (XI (XI
    (XI (XO (XI (XI (XO (XI (XI (XO (XI (XO (XI (XO (XO (XI (XI (XI (XO (XI
    (XI (XO (XI (XI (XO (XI (XO (XI (XO
    XH)))))))))))))))))))))))))))))))))))))))))))))))))))))))))))))))) :: ((Npos
    (XO (XO (XI (XI (XI (XI (XI (XI (XI (XI (XI (XI (XO (XO (XO (XI (XO (XI
    (XI (XI (XI (XO (XI (XO (XI (XI (XI (XI (XO (XO (XI (XI (XO (XI (XO (XO
    (XI (XO (XO (XO (XO (XO (XO (XO (XI (XI (XI (XO (XI (XI (XO (XO (XO (XO
    (XO (XO (XO (XI (XI (XI (XO (XI (XI
    XH)))))))))))))))))))))))))))))))))))))))))))))))))))))))))))))))) :: ((Npos
    (XI (XI (XI (XO (XO (XO (XO (XO (XI (XI (XI (XI (XO (XO (XO (XI (XI (XO
    (XO (XO (XI (XO (XI (XI (XI (XO (XO (XO (XI (XI (XI (XO (XO (XI (XI (XI
    (XO (XO (XO (XI (XI (XO (XO (XO (XO (XO (XI (XO (XO (XO (XI (XI (XI (XO
    (XI (XO (XO (XI (XO (XO (XO (XO (XO
    XH)))))))))))))))))))))))))))))))))))))))))))))))))))))))))))))))) :: ((Npos
    (XI (XO (XO (XO (XI (XO (XI (XI (XI (XO (XO (XI (XO (XO (XO (XI (XO (XI
    (XO (XO (XI (XI (XO (XI (XO (XO (XO (XI (XI (XI (XO (XO (XO (XO (XO (XO
    (XO (XI (XI (XI (XI (XI (XO (XI (XO (XI (XI (XI (XO (XO (XO (XO (XO (XI
    (XO (XI (XO (XO (XO (XO
    XH))))))))))))))))))))))))))))))))))))))))))))))))))))))))))))) :: ((Npos
    (XO (XO (XI (XO (XO (XI (XO (XO (XO (XO (XO (XO (XI (XO (XO (XO (XI (XO
    (XI (XO (XO (XI (XO (XO (XI (XO (XO (XI (XO (XI (XI (XO (XO (XI (XI (XO
    (XI (XO (XI (XO (XO (XI (XO (XO (XI (XI (XI (XO (XO (XI (XI (XO (XO (XO
    (XI (XO (XO (XI (XI (XI (XI (XI (XO
    XH)))))))))))))))))))))))))))))))))))))))))))))))))))))))))))))))) :: ((Npos
    (XI (XO (XO (XO (XO (XO (XO (XI (XO (XO (XI (XI (XO (XI (XO (XO (XO (XO
    (XO (XO (XO (XO (XO (XO (XO (XI (XI (XI (XO (XO (XO (XO (XO (XO (XO (XO
    (XI (XI (XI (XO (XI (XI (XO (XO (XI (XO (XO (XO (XI (XI (XO (XI (XO (XO
    (XO (XI (XI (XI (XI (XO (XO (XI (XI
    XH)))))))))))))))))))))))))))))))))))))))))))))))))))))))))))))))) :: ((Npos
    (XI (XI (XO (XO (XO (XO (XO (XI (XO (XO (XO (XI (XO (XO (XO (XO (XI (XO
    (XO (XI (XO (XI (XO (XO (XI (XO (XO (XO (XO (XO (XI (XI (XO (XO (XI (XI
    (XI (XO (XI (XI (XO (XI (XO (XI (XO (XO (XI (XO (XI (XO (XO (XI (XO (XI
    (XO (XI (XO (XI (XI (XI (XO (XO (XI
    XH)))))))))))))))))))))))))))))))))))))))))))))))))))))))))))))))) :: ((Npos
    (XO (XO (XO (XO (XI (XO (XO (XI (XI (XI (XI (XO (XI (XI (XI (XO (XI (XO
    (XO (XO (XI (XI (XO (XO (XO (XI (XI (XO (XO (XI (XI (XI (XO (XI (XO (XI
    (XO (XI (XI (XO (XO (XO (XI (XO (XI (XO (XI (XI (XO (XI (XO (XI (XI (XO
    (XO (XI (XO (XO (XO (XI (XO (XO (XO
    XH)))))))))))))))))))))))))))))))))))))))))))))))))))))))))))))))) :: ((Npos
    (XI (XI (XI (XI (XI (XO (XI (XO (XO (XO (XO (XI (XO (XI (XO (XO (XI (XO
    (XO (XO (XI (XI (XI (XI (XO (XI (XI (XI (XO (XO (XI (XO (XO (XI (XO (XI
    (XO (XO (XI (XO (XO (XO (XI (XI (XI (XO (XI (XO (XI (XI (XO (XI (XI (XI
    (XI (XI (XO (XO (XI (XI (XI (XO (XO
    XH)))))))))))))))))))))))))))))))))))))))))))))))))))))))))))))))) :: ((Npos
    (XI (XI (XI (XO (XO (XO (XI (XO (XO (XI (XI (XI (XO (XO (XO (XI (XO (XO
    (XI (XO (XI (XO (XI (XO (XI (XI (XO (XI (XI (XI (XO (XO (XI (XI (XI (XO
    (XO (XO (XO (XO (XO (XO (XO (XI (XO (XO (XO (XI (XI (XI (XI (XO (XI (XO
    (XI (XO (XI (XI (XO (XO (XI (XO
    XH))))))))))))))))))))))))))))))))))))))))))))))))))))))))))))))) :: ((Npos
    (XO (XO (XI (XI (XI (XI (XO (XO (XI (XO (XI (XO (XO (XO (XO (XI (XI (XO
    (XI (XO (XI (XI (XO (XI (XO (XI (XI (XO (XI (XI (XO (XI (XI (XI (XI (XO
    (XO (XI (XI (XI (XI (XO (XO (XI (XI (XO (XO (XO (XO (XI (XO (XI (XO (XO
    (XI (XI (XI (XO (XI (XI (XI (XO (XO
    XH)))))))))))))))))))))))))))))))))))))))))))))))))))))))))))))))) :: ((Npos
    (XI (XI (XI (XI (XI (XI (XO (XO (XO (XO (XO (XO (XI (XO (XO (XI (XI (XO
    (XO (XI (XI (XO (XI (XI (XO (XI (XI (XO (XO (XO (XO (XI (XI (XI (XI (XO
    (XI (XI (XO (XI (XO (XO (XI (XI (XI (XO (XO (XO (XO (XI (XO (XI (XI (XO
    (XO (XI (XO (XO (XI (XI (XO (XO (XI
    XH)))))))))))))))))))))))))))))))))))))))))))))))))))))))))))))))) :: ((Npos
    (XI (XI (XI (XO (XO (XI (XO (XO (XO (XO (XI (XI (XO (XO (XI (XI (XO (XO
    (XO (XI (XO (XO (XI (XO (XI (XI (XI (XI (XI (XI (XI (XI (XO (XO (XI (XO
    (XI (XI (XI (XI (XI (XI (XI (XI (XO (XI (XI (XO (XO (XI (XI (XO (XI (XO
    (XO (XO (XI (XO (XI (XO
    XH))))))))))))))))))))))))))))))))))))))))))))))))))))))))))))) :: ((Npos
    (XO (XI (XO (XI (XO (XI (XO (XI (XO (XI (XO (XO (XI (XI (XI (XI (XI (XI
    (XO (XI (XO (XO (XI (XI (XO (XO (XI (XI (XI (XI (XI (XO (XI (XI (XO (XI
    (XO (XI (XO (XI (XI (XI (XI (XI (XI (XI (XO (XO (XO (XO (XI (XI (XO (XO
    (XO (XI (XO (XO (XO (XI (XI (XI
    XH))))))))))))))))))))))))))))))))))))))))))))))))))))))))))))))) :: ((Npos
    (XO (XI (XO (XO (XO (XI (XO (XO (XI (XO (XI (XI (XI (XO (XI (XI (XI (XO
    (XO (XI (XI (XO (XI (XI (XI (XI (XI (XI (XO (XI (XI (XI (XO (XI (XI (XO
    (XO (XI (XO (XO (XI (XI (XI (XI (XI (XI (XI (XI (XO (XI (XI (XI (XI (XI
    (XI (XO (XO (XI (XI (XO (XI
    XH)))))))))))))))))))))))))))))))))))))))))))))))))))))))))))))) :: ((Npos
    (XO (XO (XO (XI (XO (XI (XO (XI (XI (XO (XI (XI (XI (XO (XI (XO (XO (XI
    (XO (XO (XI (XI (XI (XI (XI (XI (XI (XI (XO (XO (XI (XO (XO (XO (XO (XI
    (XO (XI (XO (XO (XO (XI (XI (XI (XO (XI (XO (XI (XI (XI (XO (XO (XI (XO
    (XI (XI (XO
    XH)))))))))))))))))))))))))))))))))))))))))))))))))))))))))) :: ((Npos
    (XI (XI (XO (XI (XI (XO (XO (XI (XO (XO (XI (XI (XO (XO (XI (XI (XI (XO
    (XI (XO (XO (XO (XI (XI (XI (XO (XI (XO (XI (XI (XI (XI (XI (XO (XI (XI
    (XI (XI (XI (XI (XO (XI (XO (XO (XO (XO (XO (XI (XO (XI (XI (XO (XI (XI
    (XI (XI (XI (XI (XI (XI (XI (XI
    XH))))))))))))))))))))))))))))))))))))))))))))))))))))))))))))))) :: ((Npos
    (XI (XI (XO (XO (XI (XI (XO (XO (XO (XI (XI (XO (XO (XI (XO (XO (XI (XI
    (XO (XO (XI (XI (XI (XI (XI (XO (XO (XO (XO (XI (XI (XI (XI (XI (XO (XO
    (XI (XO (XO (XO (XO (XI (XO (XI (XI (XO (XI (XO (XO (XO (XO (XO (XO (XO
    (XI (XI (XO (XI (XO (XO (XI (XO (XO
    XH)))))))))))))))))))))))))))))))))))))))))))))))))))))))))))))))) :: ((Npos
    (XI (XO (XO (XI (XO (XI (XO (XI (XO (XO (XO (XO (XO (XO (XO (XI (XO (XI
    (XO (XI (XI (XO (XO (XI (XO (XI (XI (XO (XI (XO (XO (XI (XO (XI (XI (XO
    (XO (XI (XO (XI (XO (XI (XO (XO (XI (XO (XI (XO (XI (XI (XO (XO (XI (XI
    (XO (XO (XI (XI (XO (XI (XI (XO (XI
    XH)))))))))))))))))))))))))))))))))))))))))))))))))))))))))))))))) :: ((Npos
    (XI (XI (XI (XI (XO (XO (XI (XO (XI (XI (XO (XO (XO (XI (XO (XO (XI (XO
    (XO (XO (XO (XI (XO (XI (XI (XI (XI (XI (XO (XI (XO (XO (XO (XI (XI (XO
    (XI (XI (XI (XI (XI (XO (XO (XO (XO (XI (XI (XO (XI (XI (XI (XI (XO (XO
    (XO (XI (XO (XO (XO (XO (XI (XI (XI
    XH)))))))))))))))))))))))))))))))))))))))))))))))))))))))))))))))) :: ((Npos
    (XO (XI (XO (XO (XI (XO (XI (XO (XO (XI (XO (XI (XI (XO (XO (XO (XI (XI
    (XI (XO (XO (XI (XO (XO (XI (XO (XI (XO (XO (XO (XI (XI (XI (XI (XI (XI
    (XI (XI (XO (XI (XO (XO (XI (XO (XI (XI (XO (XI (XI (XO (XI (XO (XO (XO
    (XI (XI (XO (XI (XI (XO (XI
    XH)))))))))))))))))))))))))))))))))))))))))))))))))))))))))))))) :: ((Npos
    (XI (XI (XI (XI (XI (XO (XI (XO (XI (XO (XO (XO (XO (XI (XI (XI (XO (XO
    (XI (XO (XO (XI (XI (XI (XO (XI (XI (XI (XO (XO (XI (XI (XO (XI (XO (XI
    (XO (XO (XI (XO (XO (XI (XO (XO (XO (XI (XI (XO (XI (XO (XO (XO (XI (XI
    (XO (XI (XI (XO (XI (XI (XO (XO (XO
    XH)))))))))))))))))))))))))))))))))))))))))))))))))))))))))))))))) :: ((Npos
    (XO (XO (XO (XI (XI (XO (XI (XO (XO (XO (XI (XI (XO (XO (XI (XO (XI (XI
    (XO (XI (XO (XO (XO (XI (XO (XO (XI (XO (XI (XI (XI (XO (XI (XI (XO (XI
    (XI (XO (XO (XI (XI (XI (XO (XI (XO (XI (XI (XO (XO (XI (XI (XO (XO (XI
    (XO (XI (XI (XI (XO (XI (XI (XI
    XH))))))))))))))))))))))))))))))))))))))))))))))))))))))))))))))) :: ((Npos
    (XI (XI (XI (XI (XI (XI (XI (XI (XO (XI (XI (XI (XO (XO (XO (XO (XI (XO
    (XI (XO (XI (XO (XI (XO (XO (XI (XI (XI (XI (XO (XO (XI (XI (XO (XI (XI
    (XI (XI (XI (XO (XO (XI (XI (XI (XI (XI (XI (XI (XO (XI (XO (XI (XO (XO
    (XO (XI (XI (XI (XI (XO
    XH))))))))))))))))))))))))))))))))))))))))))))))))))))))))))))) :: ((Npos
    (XO (XI (XO (XO (XI (XI (XI (XO (XI (XI (XO (XO (XI (XI (XO (XO (XO (XO
    (XI (XI (XI (XO (XI (XO (XI (XI (XO (XO (XI (XO (XO (XI (XO (XI (XO (XI
    (XI (XO (XI (XO (XI (XO (XO (XO (XO (XO (XO (XI (XO (XO (XI (XO (XO (XO
    (XI (XO (XI (XI (XO (XO (XI (XO
    XH))))))))))))))))))))))))))))))))))))))))))))))))))))))))))))))) :: ((Npos
    (XO (XO (XO (XI (XO (XO (XI (XI (XO (XO (XO (XO (XI (XI (XI (XI (XI (XI
    (XO (XI (XI (XI (XI (XI (XO (XO (XI (XO (XI (XI (XI (XO (XO (XI (XI (XI
    (XI (XO (XI (XI (XI (XI (XO (XO (XO (XI (XO (XO (XO (XI (XI (XO (XI (XI
    (XI (XI (XI (XO
    XH))))))))))))))))))))))))))))))))))))))))))))))))))))))))))) :: ((Npos
    (XI (XO (XO (XI (XI (XI (XI (XI (XI (XI (XI (XI (XO (XO (XO (XO (XO (XI
    (XI (XI (XI (XO (XI (XO (XO (XI (XO (XI (XO (XO (XO (XI (XO (XO (XI (XI
    (XO (XO (XI (XI (XI (XI (XI (XI (XO (XI (XI (XI (XO (XO (XO (XO (XO (XO
    (XI (XI
    XH))))))))))))))))))))))))))))))))))))))))))))))))))))))))) :: ((Npos (XI
    (XO (XO (XO (XI (XI (XO (XI (XO (XI (XI (XI (XI (XO (XI (XO (XI (XO (XO
    (XI (XI (XO (XI (XO (XO (XO (XO (XO (XO (XI (XI (XI (XI (XI (XI (XO (XI
    (XO (XO (XI (XO (XI (XI (XO (XI (XI (XO (XO (XO (XI (XO (XO (XO (XI (XO
    (XO (XO (XO (XO (XI (XI (XI (XI
    XH)))))))))))))))))))))))))))))))))))))))))))))))))))))))))))))))) :: ((Npos
    (XO (XO (XI (XI (XO (XO (XO (XI (XO (XO (XO (XO (XI (XO (XI (XI (XO (XI
    (XI (XI (XO (XO (XO (XO (XI (XI (XO (XO (XI (XI (XO (XI (XO (XO (XO (XI
    (XO (XI (XO (XO (XI (XO (XO (XI (XI (XI (XI (XI (XI (XI (XI (XO (XO (XO
    (XO (XI (XO (XO (XO (XI (XO (XO
    XH))))))))))))))))))))))))))))))))))))))))))))))))))))))))))))))) :: ((Npos
    (XI (XI (XO (XI (XI (XO (XO (XO (XO (XI (XI (XI (XO (XI (XO (XO (XI (XI
    (XO (XO (XO (XI (XO (XO (XI (XI (XI (XO (XI (XO (XI (XI (XI (XO (XI (XI
    (XI (XI (XI (XI (XO (XI (XO (XI (XI (XO (XI (XO (XI (XI (XI (XO (XI (XI
    (XI (XO (XI (XI (XI (XO (XI (XO
    XH))))))))))))))))))))))))))))))))))))))))))))))))))))))))))))))) :: ((Npos
    (XI (XO (XO (XI (XO (XO (XO (XO (XO (XO (XO (XO (XI (XI (XO (XO (XI (XI
    (XI (XI (XI (XO (XI (XO (XO (XO (XI (XI (XO (XI (XO (XI (XO (XO (XO (XI
    (XI (XO (XI (XO (XO (XI (XO (XO (XO (XO (XO (XI (XO (XI (XO (XI (XO (XO
    (XI (XI (XI (XI (XI (XI (XI (XO
    XH))))))))))))))))))))))))))))))))))))))))))))))))))))))))))))))) :: ((Npos
    (XI (XI (XI (XO (XO (XI (XI (XO (XO (XO (XO (XI (XI (XI (XO (XO (XO (XO
    (XO (XI (XO (XI (XO (XO (XO (XO (XO (XI (XO (XO (XI (XO (XI (XO (XO (XI
    (XO (XO (XO (XO (XO (XO (XO (XO (XO (XI (XO (XI (XI (XO (XO (XO (XI (XO
    (XO (XO (XO (XI (XO (XO (XO (XI (XI
    XH)))))))))))))))))))))))))))))))))))))))))))))))))))))))))))))))) :: ((Npos
    (XI (XI (XO (XO (XO (XO (XI (XO (XI (XO (XO (XO (XO (XI (XO (XI (XI (XI
    (XO (XO (XO (XO (XI (XI (XI (XI (XI (XI (XO (XO (XO (XI (XO (XI (XO (XI
    (XO (XI (XO (XO (XO (XO (XO (XI (XO (XI (XO (XO (XO (XI (XI (XO (XI (XI
    (XO (XI (XI (XI (XO (XO (XO (XO (XI
    XH)))))))))))))))))))))))))))))))))))))))))))))))))))))))))))))))) :: ((Npos
    (XO (XI (XO (XO (XO (XO (XO (XO (XI (XI (XI (XI (XO (XI (XI (XI (XO (XO
    (XI (XI (XI (XI (XI (XI (XO (XO (XO (XO (XO (XO (XO (XO (XI (XO (XI (XI
    (XI (XO (XI (XI (XO (XI (XO (XI (XO (XI (XI (XI (XI (XO (XO (XO (XO (XO
    (XI (XO (XI (XI (XO (XI (XI (XO (XO
    XH)))))))))))))))))))))))))))))))))))))))))))))))))))))))))))))))) :: ((Npos
    (XO (XI (XI (XI (XI (XI (XO (XI (XI (XO (XO (XI (XI (XI (XO (XO (XO (XI
    (XO (XI (XI (XI (XI (XI (XI (XI (XO (XO (XI (XO (XO (XO (XI (XI (XO (XO
    (XO (XO (XO (XO (XI (XI (XI (XI (XI (XO (XI (XI (XO (XO (XO (XO (XI (XO
    (XI (XO (XO (XI (XI (XI (XI (XI (XO
    XH)))))))))))))))))))))))))))))))))))))))))))))))))))))))))))))))) :: ((Npos
    (XI (XO (XO (XO (XI (XO (XI (XO (XI (XO (XO (XI (XI (XI (XI (XO (XO (XI
    (XO (XI (XO (XI (XI (XI (XI (XO (XI (XI (XI (XO (XO (XO (XO (XO (XI (XI
    (XO (XI (XI (XO (XI (XI (XI (XI (XO (XI (XI (XO (XO (XO (XO (XO (XO (XI
    (XO (XI (XI (XO (XO (XI (XO (XI
    XH))))))))))))))))))))))))))))))))))))))))))))))))))))))))))))))) :: ((Npos
    (XO (XI (XO (XO (XO (XO (XI (XO (XO (XI (XI (XO (XO (XO (XO (XO (XO (XI
    (XO (XI (XO (XI (XI (XO (XO (XI (XI (XO (XO (XI (XO (XO (XI (XI (XO (XO
    (XI (XI (XI (XO (XO (XO (XO (XI (XO (XI (XI (XO (XO (XI (XI (XI (XO (XO
    (XO (XO (XO (XI (XI (XI (XI (XO (XO
    XH)))))))))))))))))))))))))))))))))))))))))))))))))))))))))))))))) :: ((Npos
    (XI (XO (XI (XO (XI (XI (XO (XO (XO (XI (XO (XO (XO (XO (XI (XI (XI (XO
    (XO (XI (XI (XO (XI (XO (XI (XI (XO (XI (XO (XO (XO (XI (XI (XI (XO (XO
    (XI (XI (XO (XO (XI (XI (XI (XI (XI (XI (XO (XI (XO (XO (XI (XI (XO (XO
    (XI (XO (XI (XO (XO (XO (XO (XO
    XH))))))))))))))))))))))))))))))))))))))))))))))))))))))))))))))) :: ((Npos
    (XI (XO (XO (XI (XI (XI (XO (XO (XO (XO (XO (XI (XO (XO (XO (XO (XO (XO
    (XI (XI (XI (XO (XI (XO (XI (XO (XO (XO (XO (XO (XI (XO (XO (XO (XO (XO
    (XO (XI (XI (XO (XI (XI (XO (XO (XI (XO (XI (XO (XO (XI (XI (XI (XI (XI
    (XO (XO (XO (XI (XI (XI (XO (XO (XO
    XH)))))))))))))))))))))))))))))))))))))))))))))))))))))))))))))))) :: ((Npos
    (XI (XI (XI (XO (XO (XO (XO (XI (XI (XI (XI (XO (XI (XO (XO (XI (XO (XO
    (XI (XO (XO (XO (XI (XI (XI (XO (XO (XO (XO (XI (XO (XO (XO (XI (XI (XO
    (XO (XO (XI (XI (XI (XI (XI (XO (XI (XO (XO (XI (XI (XI (XI (XI (XO (XI
    (XI (XO (XI (XI (XI (XI (XO (XI
    XH))))))))))))))))))))))))))))))))))))))))))))))))))))))))))))))) :: ((Npos
    (XI (XO (XO (XO (XI (XI (XO (XO (XO (XO (XI (XI (XO (XO (XI (XO (XO (XI
    (XI (XI (XI (XI (XO (XI (XO (XI (XI (XO (XO (XO (XI (XI (XI (XI (XO (XO
    (XI (XO (XO (XO (XO (XI (XO (XI (XO (XO (XI (XI (XO (XO (XO (XI (XI (XI
    (XI (XO (XO (XO (XO (XI
    XH))))))))))))))))))))))))))))))))))))))))))))))))))))))))))))) :: ((Npos
    (XI (XO (XI (XI (XI (XI (XI (XI (XI (XI (XO (XI (XI (XI (XI (XO (XO (XI
    (XI (XI (XI (XI (XO (XO (XI (XO (XI (XO (XO (XI (XO (XO (XO (XO (XO (XI
    (XI (XO (XO (XO (XO (XI (XO (XO (XO (XI (XI (XI (XI (XI (XO (XO (XO (XO
    (XI (XO (XI (XO (XO (XO (XI (XO (XI
    XH)))))))))))))))))))))))))))))))))))))))))))))))))))))))))))))))) :: ((Npos
    (XI (XI (XI (XO (XO (XI (XI (XI (XO (XO (XO (XO (XI (XO (XO (XO (XI (XI
    (XO (XI (XI (XO (XO (XI (XO (XO (XI (XO (XI (XO (XI (XO (XO (XI (XI (XI
    (XI (XO (XO (XO (XO (XO (XO (XI (XI (XI (XO (XI (XO (XI (XI (XO (XI (XI
    (XO (XI (XI (XI (XI (XI
    XH))))))))))))))))))))))))))))))))))))))))))))))))))))))))))))) :: ((Npos
    (XI (XO (XO (XI (XO (XO (XO (XI (XO (XI (XI (XI (XO (XI (XO (XI (XI (XI
    (XO (XI (XO (XI (XO (XI (XO (XO (XI (XO (XI (XO (XO (XO (XI (XI (XO (XI
    (XO (XI (XO (XO (XI (XI (XI (XI (XI (XO (XI (XI (XO (XO (XI (XI (XI (XO
    (XO (XO (XO (XO (XO (XI (XO (XO (XO
    XH)))))))))))))))))))))))))))))))))))))))))))))))))))))))))))))))) :: ((Npos
    (XO (XO (XO (XI (XI (XO (XI (XI (XO (XI (XI (XO (XO (XO (XO (XI (XI (XI
    (XO (XI (XI (XI (XI (XO (XI (XO (XO (XO (XI (XI (XI (XI (XI (XI (XI (XO
    (XI (XI (XO (XI (XI (XI (XI (XO (XO (XI (XI (XI (XI (XI (XI (XO (XO (XI
    (XO (XI (XI (XO (XI (XI (XO (XO (XO
    XH)))))))))))))))))))))))))))))))))))))))))))))))))))))))))))))))) :: ((Npos
    (XI (XI (XO (XI (XI (XI (XO (XI (XO (XO (XO (XI (XO (XO (XO (XI (XO (XO
    (XO (XO (XO (XO (XO (XI (XO (XO (XI (XI (XO (XI (XI (XO (XI (XI (XI (XO
    (XO (XO (XI (XO (XI (XI (XI (XO (XI (XO (XI (XO (XI (XO (XI (XO (XI (XI
    (XI (XO (XO (XI (XI
    XH)))))))))))))))))))))))))))))))))))))))))))))))))))))))))))) :: ((Npos
    (XO (XI (XI (XO (XO (XO (XO (XO (XO (XI (XI (XI (XI (XI (XO (XI (XI (XI
    (XI (XI (XO (XO (XO (XI (XO (XO (XO (XO (XI (XI (XO (XO (XI (XO (XO (XO
    (XI (XO (XO (XI (XI (XO (XO (XI (XO (XO (XI (XI (XO (XI (XO (XO (XI (XO
    (XO (XI (XO (XI (XO (XI (XI (XI (XI
    XH)))))))))))))))))))))))))))))))))))))))))))))))))))))))))))))))) :: ((Npos
    (XO (XO (XO (XI (XO (XI (XI (XI (XI (XO (XI (XO (XO (XI (XI (XO (XI (XI
    (XI (XI (XO (XO (XI (XO (XO (XO (XO (XI (XI (XO (XO (XI (XI (XO (XI (XO
    (XO (XI (XI (XI (XI (XI (XO (XO (XI (XO (XO (XI (XI (XO (XO (XI (XI (XO
    (XO (XI (XO (XI (XO (XI (XI (XI (XI
    XH)))))))))))))))))))))))))))))))))))))))))))))))))))))))))))))))) :: ((Npos
    (XI (XO (XO (XO (XI (XO (XO (XI (XI (XI (XI (XO (XO (XO (XO (XO (XI (XO
    (XI (XO (XI (XO (XO (XI (XO (XO (XO (XI (XO (XO (XO (XI (XI (XI (XI (XO
    (XI (XI (XO (XI (XO (XO (XI (XO (XO (XO (XO (XO (XI (XO (XI (XI (XI (XI
    (XO (XO (XO (XI (XO (XO (XI (XI (XI
    XH)))))))))))))))))))))))))))))))))))))))))))))))))))))))))))))))) :: ((Npos
    (XO (XI (XO (XI (XI (XO (XO (XO (XO (XI (XO (XI (XI (XI (XI (XI (XO (XO
    (XI (XO (XO (XI (XO (XI (XI (XI (XO (XI (XI (XI (XO (XI (XI (XI (XO (XI
    (XO (XO (XO (XO (XI (XI (XI (XI (XO (XI (XI (XI (XO (XO (XO (XI (XI (XO
    (XO (XO (XI (XO (XI (XO (XO (XO (XO
    XH)))))))))))))))))))))))))))))))))))))))))))))))))))))))))))))))) :: ((Npos
    (XI (XI (XO (XI (XI (XO (XO (XO (XI (XO (XO (XI (XO (XO (XI (XI (XO (XI
    (XO (XO (XO (XI (XI (XO (XI (XO (XO (XO (XO (XO (XI (XI (XI (XO (XO (XO
    (XI (XO (XO (XI (XO (XI (XI (XO (XO (XO (XI (XI (XI (XO (XO (XI (XI (XI
    (XI (XO (XI (XO (XO (XO (XI (XI (XO
    XH)))))))))))))))))))))))))))))))))))))))))))))))))))))))))))))))) :: ((Npos
    (XI (XI (XI (XO (XI (XO (XI (XO (XO (XO (XI (XI (XO (XO (XI (XI (XI (XO
    (XO (XO (XI (XO (XO (XI (XO (XI (XI (XO (XO (XO (XO (XI (XO (XI (XO (XO
    (XO (XI (XI (XI (XI (XO (XO (XI (XI (XO (XO (XI (XI (XI (XO (XO (XI (XI
    (XO (XI (XO (XO (XO (XI (XI (XI (XI
    XH)))))))))))))))))))))))))))))))))))))))))))))))))))))))))))))))) :: ((Npos
    (XO (XO (XI (XI (XI (XO (XI (XI (XI (XO (XI (XI (XI (XI (XO (XO (XO (XO
    (XI (XI (XI (XI (XI (XO (XI (XI (XI (XO (XI (XO (XO (XI (XI (XI (XI (XO
    (XI (XI (XO (XO (XI (XI (XI (XI (XO (XI (XO (XI (XI (XI (XI (XO (XO (XI
    (XI (XO (XO (XO (XI (XI (XI (XO
    XH))))))))))))))))))))))))))))))))))))))))))))))))))))))))))))))) :: ((Npos
    (XI (XI (XI (XO (XI (XO (XI (XI (XO (XO (XO (XO (XO (XO (XO (XI (XI (XO
    (XI (XO (XI (XI (XI (XO (XO (XI (XI (XI (XO (XI (XO (XI (XO (XO (XO (XO
    (XI (XI (XO (XO (XO (XO (XO (XO (XI (XI (XO (XO (XO (XO (XI (XO (XO (XI
    (XI (XI (XO (XO (XO
    XH)))))))))))))))))))))))))))))))))))))))))))))))))))))))))))) :: ((Npos
    (XI (XO (XO (XI (XI (XI (XI (XO (XI (XI (XI (XO (XI (XI (XI (XI (XI (XO
    (XO (XO (XO (XO (XI (XI (XI (XI (XO (XO (XI (XI (XO (XI (XI (XI (XI (XI
    (XO (XI (XO (XI (XO (XI (XO (XO (XI (XI (XO (XI (XO (XI (XI (XI (XO (XO
    (XI (XO (XI (XI
    XH))))))))))))))))))))))))))))))))))))))))))))))))))))))))))) :: ((Npos
    (XI (XO (XI (XI (XO (XO (XI (XI (XO (XI (XI (XI (XO (XI (XO (XI (XO (XO
    (XI (XO (XO (XO (XI (XI (XI (XI (XI (XI (XI (XO (XI (XO (XO (XI (XO (XO
    (XO (XO (XO (XO (XO (XI (XI (XO (XO (XO (XO (XO (XI (XI (XI (XO (XI (XO
    (XI (XO (XO (XO (XO (XO (XO (XI (XO
    XH)))))))))))))))))))))))))))))))))))))))))))))))))))))))))))))))) :: ((Npos
    (XO (XI (XI (XO (XI (XI (XO (XI (XI (XO (XO (XO (XO (XI (XI (XI (XO (XO
    (XO (XO (XO (XO (XI (XO (XI (XO (XI (XI (XI (XO (XO (XI (XO (XO (XI (XO
    (XI (XO (XO (XI (XO (XO (XI (XO (XO (XO (XO (XO (XO (XO (XO (XI (XO (XO
    (XO (XI (XO (XI (XI (XO (XI (XI (XI
    XH)))))))))))))))))))))))))))))))))))))))))))))))))))))))))))))))) :: ((Npos
    (XO (XO (XI (XO (XO (XI (XI (XI (XO (XO (XO (XI (XI (XO (XO (XO (XO (XO
    (XO (XI (XO (XO (XO (XI (XI (XO (XI (XO (XI (XO (XO (XO (XO (XI (XI (XO
    (XI (XI (XI (XO (XI (XI (XI (XO (XI (XI (XI (XI (XO (XO (XI (XO (XI (XO
    (XO (XI (XO (XO (XO (XI (XO (XI
    XH))))))))))))))))))))))))))))))))))))))))))))))))))))))))))))))) :: ((Npos
    (XO (XI (XO (XI (XO (XI (XO (XI (XI (XO (XI (XI (XI (XO (XI (XI (XI (XO
    (XI (XI (XO (XO (XI (XO (XO (XO (XO (XI (XI (XI (XO (XO (XI (XO (XI (XI
    (XI (XI (XO (XO (XI (XO (XI (XI (XO (XO (XO (XI (XO (XO (XI (XO (XI (XO
    (XO (XO (XI (XI (XI
    XH)))))))))))))))))))))))))))))))))))))))))))))))))))))))))))) :: ((Npos
    (XI (XI (XI (XO (XI (XI (XI (XO (XO (XO (XI (XO (XI (XO (XO (XO (XI (XI
    (XI (XI (XO (XI (XO (XO (XO (XI (XO (XO (XI (XI (XO (XI (XI (XO (XI (XO
    (XO (XO (XO (XI (XI (XI (XO (XO (XI (XI (XI (XO (XO (XI (XI (XI (XI (XI
    (XO (XI (XI (XO (XO (XI
    XH))))))))))))))))))))))))))))))))))))))))))))))))))))))))))))) :: ((Npos
    (XI (XO (XO (XI (XO (XI (XI (XI (XO (XO (XO (XO (XI (XI (XO (XI (XI (XI
    (XI (XI (XO (XI (XO (XI (XI (XI (XI (XI (XO (XI (XO (XI (XI (XO (XO (XI
    (XI (XO (XI (XI (XI (XI (XO (XO (XI (XI (XO (XO (XO (XO (XO (XI (XI (XI
    (XO (XI (XI (XI (XI (XI (XO (XO
    XH))))))))))))))))))))))))))))))))))))))))))))))))))))))))))))))) :: ((Npos
    (XO (XI (XO (XI (XO (XI (XO (XO (XI (XI (XO (XI (XO (XO (XI (XO (XO (XI
    (XO (XO (XO (XI (XI (XI (XO (XO (XI (XO (XO (XI (XI (XO (XO (XI (XO (XI
    (XI (XO (XI (XI (XI (XI (XO (XO (XO (XO (XI (XO (XO (XI (XO (XO (XO (XO
    (XO (XO (XO (XO (XO
    XH)))))))))))))))))))))))))))))))))))))))))))))))))))))))))))) :: ((Npos
    (XI (XO (XO (XO (XI (XO (XO (XO (XI (XI (XI (XI (XI (XO (XO (XO (XI (XO
    (XO (XI (XO (XI (XI (XI (XI (XI (XO (XI (XI (XO (XO (XI (XO (XO (XO (XI
    (XI (XI (XO (XO (XI (XO (XI (XI (XI (XI (XI (XO (XI (XO (XI (XO (XO (XO
    (XI (XI (XO (XO (XI (XI (XI (XO (XI
    XH)))))))))))))))))))))))))))))))))))))))))))))))))))))))))))))))) :: ((Npos
    (XI (XI (XI (XI (XI (XO (XI (XO (XO (XO (XO (XO (XI (XI (XO (XI (XO (XI
    (XO (XI (XO (XO (XI (XO (XI (XI (XI (XO (XO (XO (XI (XI (XI (XI (XI (XI
    (XO (XI (XO (XI (XO (XO (XI (XI (XO (XO (XI (XI (XI (XO (XI (XO (XO (XO
    (XO (XO (XI (XI (XO (XI (XO (XO (XO
    XH)))))))))))))))))))))))))))))))))))))))))))))))))))))))))))))))) :: ((Npos
    (XI (XI (XO (XO (XI (XI (XO (XO (XO (XI (XO (XO (XO (XO (XI (XI (XI (XO
    (XO (XI (XI (XO (XO (XO (XI (XO (XO (XI (XO (XI (XO (XI (XI (XI (XO (XI
    (XO (XO (XO (XO (XO (XI (XO (XI (XO (XI (XO (XI (XI (XI (XI (XI (XO (XO
    (XI (XI (XI (XI (XI (XI (XO
    XH)))))))))))))))))))))))))))))))))))))))))))))))))))))))))))))) :: ((Npos
    (XI (XI (XO (XI (XO (XI (XI (XI (XI (XI (XI (XO (XO (XO (XO (XI (XO (XI
    (XO (XO (XI (XI (XI (XI (XO (XI (XO (XI (XI (XO (XO (XO (XO (XO (XO (XO
    (XI (XO (XO (XO (XO (XO (XI (XI (XO (XI (XI (XI (XO (XI (XI (XO (XO (XO
    (XI (XO (XI (XO (XI (XO
    XH))))))))))))))))))))))))))))))))))))))))))))))))))))))))))))) :: ((Npos
    (XI (XI (XI (XO (XO (XO (XI (XI (XI (XI (XO (XI (XO (XO (XI (XO (XO (XI
    (XO (XO (XO (XI (XO (XO (XO (XO (XO (XO (XI (XO (XI (XI (XO (XO (XO (XI
    (XI (XO (XI (XO (XI (XO (XI (XO (XI (XO (XO (XO (XI (XO (XI (XI (XO (XI
    (XO (XO (XI (XO (XO (XI (XI (XI (XO
    XH)))))))))))))))))))))))))))))))))))))))))))))))))))))))))))))))) :: ((Npos
    (XO (XI (XO (XI (XI (XO (XO (XI (XO (XI (XO (XI (XO (XI (XI (XI (XO (XO
    (XI (XO (XO (XO (XO (XO (XO (XI (XI (XO (XO (XI (XI (XI (XI (XO (XO (XI
    (XI (XI (XO (XI (XI (XO (XO (XI (XO (XI (XI (XI (XI (XO (XI (XO (XI (XO
    (XI (XO (XO (XO (XO (XO
    XH))))))))))))))))))))))))))))))))))))))))))))))))))))))))))))) :: ((Npos
    (XO (XO (XO (XO (XI (XO (XO (XO (XI (XO (XO (XI (XO (XO (XI (XI (XO (XO
    (XI (XO (XI (XI (XO (XI (XO (XO (XI (XI (XO (XO (XI (XO (XI (XI (XO (XI
    (XO (XI (XO (XI (XI (XO (XI (XI (XO (XI (XI (XO (XO (XO (XI (XI (XI (XI
    (XO (XO (XO (XI (XI (XI (XO (XO (XO
    XH)))))))))))))))))))))))))))))))))))))))))))))))))))))))))))))))) :: ((Npos
    (XO (XI (XI (XI (XO (XI (XO (XI (XI (XO (XO (XI (XO (XI (XI (XO (XI (XO
    (XI (XO (XO (XO (XI (XI (XO (XO (XO (XI (XI (XI (XO (XI (XO (XI (XO (XI
    (XI (XI (XI (XO (XI (XO (XI (XO (XI (XO (XO (XI (XO (XO (XO (XO (XO (XI
    (XO (XI (XI (XO (XO (XO (XI (XO
    XH))))))))))))))))))))))))))))))))))))))))))))))))))))))))))))))) :: ((Npos
    (XO (XI (XO (XO (XI (XI (XO (XO (XO (XO (XI (XI (XI (XI (XI (XO (XO (XI
    (XO (XO (XO (XI (XI (XI (XO (XI (XI (XI (XI (XI (XO (XI (XO (XI (XI (XO
    (XI (XI (XO (XO (XI (XI (XI (XO (XO (XO (XI (XO (XO (XO (XI (XI (XO (XI
    (XI (XI (XI (XI (XI (XI (XI (XO (XI
    XH)))))))))))))))))))))))))))))))))))))))))))))))))))))))))))))))) :: ((Npos
    (XI (XO (XO (XO (XO (XO (XI (XO (XI (XO (XI (XO (XI (XO (XI (XI (XI (XO
    (XI (XI (XO (XI (XO (XI (XO (XI (XI (XI (XO (XI (XI (XI (XI (XO (XO (XO
    (XO (XO (XI (XO (XO (XI (XO (XI (XO (XI (XI (XI (XO (XI (XI (XI (XI (XI
    (XI (XI (XO (XI (XO (XO
    XH))))))))))))))))))))))))))))))))))))))))))))))))))))))))))))) :: ((Npos
    (XO (XI (XO (XO (XI (XO (XI (XO (XO (XO (XI (XO (XI (XO (XO (XO (XO (XO
    (XI (XI (XO (XO (XO (XI (XO (XO (XI (XI (XI (XI (XI (XI (XO (XO (XI (XI
    (XI (XI (XO (XO (XO (XO (XI (XI (XI (XO (XO (XI (XI (XO (XI (XO (XI (XI
    (XI (XI (XO (XI (XI (XO (XO (XI (XO
    XH)))))))))))))))))))))))))))))))))))))))))))))))))))))))))))))))) :: ((Npos
    (XI (XO (XI (XO (XO (XO (XI (XO (XO (XI (XI (XO (XI (XI (XI (XI (XO (XO
    (XO (XI (XI (XO (XI (XO (XI (XO (XO (XI (XI (XI (XO (XI (XO (XI (XI (XO
    (XO (XO (XO (XI (XI (XO (XO (XI (XO (XI (XI (XI (XI (XI (XI (XO (XI (XI
    (XO (XI (XO (XI (XO (XO (XI (XI
    XH))))))))))))))))))))))))))))))))))))))))))))))))))))))))))))))) :: ((Npos
    (XO (XI (XI (XI (XO (XO (XI (XO (XI (XO (XO (XO (XI (XO (XO (XI (XO (XI
    (XI (XO (XI (XO (XI (XI (XI (XO (XI (XI (XI (XO (XO (XI (XI (XO (XO (XI
    (XI (XI (XO (XO (XO (XO (XI (XI (XI (XI (XI (XI (XI (XI (XO (XO (XI (XO
    (XO (XI (XO (XI (XO (XO (XO (XO (XO
    XH)))))))))))))))))))))))))))))))))))))))))))))))))))))))))))))))) :: ((Npos
    (XO (XO (XI (XI (XI (XO (XO (XI (XO (XO (XI (XO (XI (XI (XO (XO (XO (XI
    (XO (XI (XO (XI (XO (XO (XO (XO (XO (XO (XO (XO (XI (XI (XI (XI (XI (XO
    (XO (XO (XI (XI (XI (XI (XI (XI (XO (XO (XI (XI (XI (XO (XI (XI (XO (XI
    (XI (XO (XO (XO (XO (XI (XO (XI
    XH))))))))))))))))))))))))))))))))))))))))))))))))))))))))))))))) :: ((Npos
    (XO (XI (XO (XI (XO (XI (XI (XO (XI (XO (XI (XO (XI (XO (XO (XI (XO (XO
    (XI (XO (XO (XI (XI (XI (XI (XO (XO (XI (XO (XI (XI (XO (XI (XO (XO (XO
    (XI (XI (XI (XO (XI (XI (XO (XO (XO (XI (XI (XO (XO (XI (XO (XO (XI (XO
    (XO (XI (XI (XI (XO (XO (XI (XO (XO
    XH)))))))))))))))))))))))))))))))))))))))))))))))))))))))))))))))) :: ((Npos
    (XO (XO (XO (XO (XI (XO (XI (XO (XO (XI (XI (XO (XI (XO (XO (XO (XI (XO
    (XO (XO (XO (XI (XI (XO (XO (XI (XI (XI (XI (XO (XI (XO (XI (XO (XO (XI
    (XO (XI (XI (XO (XI (XI (XI (XI (XI (XI (XI (XO (XO (XI (XI (XO (XI (XI
    (XI (XO (XI (XO (XI (XO (XO (XO (XI
    XH)))))))))))))))))))))))))))))))))))))))))))))))))))))))))))))))) :: ((Npos
    (XO (XO (XO (XO (XI (XI (XO (XI (XO (XO (XO (XO (XO (XO (XO (XO (XI (XO
    (XO (XI (XI (XI (XI (XI (XI (XO (XO (XO (XI (XI (XO (XI (XO (XI (XI (XO
    (XI (XO (XO (XI (XO (XO (XO (XO (XO (XO (XI (XI (XI (XO (XO (XI (XO (XI
    (XI (XI (XO (XI (XI
    XH)))))))))))))))))))))))))))))))))))))))))))))))))))))))))))) :: ((Npos
    (XI (XI (XI (XO (XO (XI (XO (XI (XO (XI (XI (XI (XI (XI (XI (XI (XI (XI
    (XI (XO (XI (XO (XI (XI (XI (XO (XI (XI (XI (XO (XO (XI (XO (XI (XO (XI
    (XI (XO (XI (XI (XO (XO (XO (XO (XI (XI (XO (XI (XI (XO (XO (XO (XO (XI
    (XI (XO (XI (XO (XI (XI (XI (XI (XO
    XH)))))))))))))))))))))))))))))))))))))))))))))))))))))))))))))))) :: ((Npos
    (XI (XO (XO (XO (XI (XI (XO (XI (XO (XO (XI (XI (XO (XI (XO (XI (XO (XO
    (XO (XI (XI (XI (XI (XO (XI (XI (XO (XI (XO (XO (XO (XO (XI (XI (XO (XO
    (XO (XO (XO (XO (XO (XI (XO (XO (XI (XI (XI (XO (XO (XI (XI (XO (XO (XO
    (XO (XO (XO (XO (XO (XI (XO (XO (XO
    XH)))))))))))))))))))))))))))))))))))))))))))))))))))))))))))))))) :: ((Npos
    (XO (XI (XI (XO (XO (XI (XO (XO (XI (XO (XI (XO (XO (XI (XO (XO (XI (XO
    (XO (XI (XI (XI (XI (XI (XI (XI (XI (XO (XI (XO (XI (XI (XO (XI (XO (XI
    (XO (XO (XI (XO (XO (XO (XI (XO (XI (XO (XI (XI (XI (XO (XI (XO (XI (XI
    (XI (XO (XI (XI (XI (XI
    XH))))))))))))))))))))))))))))))))))))))))))))))))))))))))))))) :: ((Npos
    (XI (XI (XO (XI (XI (XI (XI (XI (XI (XO (XI (XI (XI (XO (XI (XI (XI (XO
    (XI (XO (XO (XI (XI (XO (XI (XI (XI (XI (XO (XI (XI (XI (XI (XI (XI (XI
    (XO (XI (XI (XI (XO (XI (XI (XI (XI (XO (XO (XO (XO (XI (XO (XI (XO (XI
    (XI (XO (XO (XO (XI (XO (XO (XO (XI
    XH)))))))))))))))))))))))))))))))))))))))))))))))))))))))))))))))) :: ((Npos
    (XO (XO (XO (XI (XI (XI (XO (XI (XO (XI (XO (XO (XO (XO (XI (XI (XO (XO
    (XI (XI (XO (XI (XI (XI (XO (XO (XI (XO (XO (XI (XI (XO (XO (XI (XO (XI
    (XO (XO (XO (XI (XI (XO (XI (XI (XI (XI (XO (XO (XO (XI (XO (XI (XO (XI
    (XI (XI (XI (XI (XI (XO (XI (XO
    XH))))))))))))))))))))))))))))))))))))))))))))))))))))))))))))))) :: ((Npos
    (XI (XI (XI (XI (XI (XI (XO (XO (XO (XO (XO (XI (XO (XO (XI (XI (XI (XI
    (XI (XI (XI (XO (XI (XO (XO (XI (XO (XO (XI (XI (XI (XI (XO (XI (XI (XI
    (XO (XI (XI (XO (XI (XO (XO (XI (XO (XO (XI (XO (XI (XO (XO (XI (XI (XI
    (XI (XI (XO (XO (XO (XO (XO (XO (XI
    XH)))))))))))))))))))))))))))))))))))))))))))))))))))))))))))))))) :: ((Npos
    (XO (XO (XO (XI (XI (XO (XO (XI (XI (XO (XI (XI (XO (XI (XO (XI (XI (XO
    (XO (XO (XI (XI (XO (XI (XO (XI (XI (XO (XI (XO (XO (XO (XO (XI (XI (XO
    (XI (XI (XI (XI (XI (XI (XO (XO (XO (XO (XO (XO (XO (XO (XO (XO (XO (XO
    (XO (XO (XO (XI (XI (XO (XO (XI (XO
    XH)))))))))))))))))))))))))))))))))))))))))))))))))))))))))))))))) :: ((Npos
    (XI (XO (XO (XO (XI (XO (XI (XO (XO (XI (XI (XI (XO (XO (XO (XI (XI (XO
    (XO (XO (XI (XI (XO (XI (XI (XO (XI (XI (XO (XI (XO (XO (XI (XI (XO (XO
    (XI (XO (XO (XI (XI (XO (XI (XI (XI (XO (XO (XI (XI (XO (XO (XO (XO (XO
    (XI (XO (XO (XO (XI (XI (XI (XI (XI
    XH)))))))))))))))))))))))))))))))))))))))))))))))))))))))))))))))) :: ((Npos
    (XO (XO (XO (XO (XI (XI (XO (XO (XI (XI (XI (XO (XO (XI (XO (XI (XO (XO
    (XO (XO (XO (XI (XI (XI (XO (XO (XO (XO (XO (XO (XI (XO (XI (XO (XI (XI
    (XI (XO (XO (XO (XO (XO (XI (XO (XI (XO (XO (XO (XO (XO (XI (XO (XI (XO
    (XO (XI (XI (XO (XO (XO (XO (XO (XO
    XH)))))))))))))))))))))))))))))))))))))))))))))))))))))))))))))))) :: ((Npos
    (XI (XO (XI (XO (XI (XI (XO (XI (XI (XI (XI (XO (XO (XI (XI (XO (XI (XI
    (XO (XI (XO (XO (XI (XO (XO (XI (XO (XO (XI (XO (XO (XI (XI (XO (XI (XI
    (XO (XO (XO (XI (XO (XI (XO (XI (XO (XI (XO (XI (XO (XO (XI (XO (XI (XO
    (XI (XO (XI (XI (XO (XI (XI (XI (XO
    XH)))))))))))))))))))))))))))))))))))))))))))))))))))))))))))))))) :: ((Npos
    (XO (XO (XO (XO (XO (XO (XI (XO (XO (XI (XO (XO (XI (XO (XO (XO (XI (XI
    (XI (XO (XO (XI (XO (XI (XI (XO (XI (XI (XO (XI (XI (XI (XO (XI (XO (XO
    (XO (XI (XI (XI (XI (XO (XI (XO (XI (XI (XI (XO (XO (XI (XI (XI (XO (XO
    (XO (XO (XO (XO (XI (XO (XI
    XH)))))))))))))))))))))))))))))))))))))))))))))))))))))))))))))) :: ((Npos
    (XO (XO (XI (XI (XI (XI (XO (XO (XI (XI (XI (XI (XI (XO (XO (XI (XO (XI
    (XI (XO (XO (XI (XO (XO (XI (XO (XI (XO (XI (XO (XO (XO (XO (XI (XO (XI
    (XO (XI (XI (XO (XI (XO (XO (XO (XO (XI (XI (XI (XO (XO (XI (XI (XO (XO
    (XI (XI (XI (XI (XI (XI (XI
    XH)))))))))))))))))))))))))))))))))))))))))))))))))))))))))))))) :: ((Npos
    (XI (XO (XI (XI (XI (XI (XO (XO (XI (XO (XO (XI (XI (XO (XI (XO (XI (XI
    (XI (XO (XI (XO (XI (XO (XI (XI (XO (XO (XI (XI (XO (XO (XI (XI (XO (XI
    (XI (XI (XI (XO (XO (XI (XI (XO (XO (XI (XI (XO (XI (XI (XI (XI (XO (XO
    (XI (XO (XI (XO (XO (XO
    XH))))))))))))))))))))))))))))))))))))))))))))))))))))))))))))) :: ((Npos
    (XO (XI (XO (XO (XI (XI (XO (XI (XI (XI (XI (XI (XO (XO (XO (XI (XO (XI
    (XI (XO (XI (XO (XO (XO (XO (XI (XO (XI (XI (XI (XO (XO (XO (XO (XO (XI
    (XO (XO (XO (XO (XI (XO (XI (XO (XI (XI (XI (XO (XI (XI (XI (XI (XO (XI
    (XO (XO (XO (XO (XO (XI (XI
    XH)))))))))))))))))))))))))))))))))))))))))))))))))))))))))))))) :: ((Npos
    (XO (XI (XI (XI (XO (XI (XO (XI (XO (XO (XO (XI (XI (XI (XI (XI (XI (XI
    (XO (XI (XO (XI (XO (XI (XI (XI (XI (XI (XI (XO (XI (XI (XO (XI (XO (XO
    (XO (XO (XI (XO (XO (XI (XI (XO (XO (XI (XO (XI (XI (XO (XI (XI (XO (XI
    (XO (XI (XO (XO (XI (XO (XI (XO (XO
    XH)))))))))))))))))))))))))))))))))))))))))))))))))))))))))))))))) :: ((Npos
    (XI (XO (XI (XO (XO (XI (XO (XO (XI (XI (XI (XI (XI (XO (XO (XI (XO (XI
    (XO (XO (XO (XO (XO (XI (XO (XI (XO (XO (XI (XI (XO (XO (XI (XI (XI (XI
    (XO (XO (XI (XO (XO (XO (XO (XI (XO (XI (XO (XO (XI (XI (XI (XI (XO (XI
    (XI (XO (XO (XI (XI (XI (XI (XO (XI
    XH)))))))))))))))))))))))))))))))))))))))))))))))))))))))))))))))) :: ((Npos
    (XO (XO (XI (XO (XO (XI (XO (XO (XI (XI (XO (XI (XI (XO (XI (XO (XO (XO
    (XO (XO (XO (XI (XI (XI (XO (XO (XI (XO (XO (XO (XO (XI (XI (XI (XI (XO
    (XO (XI (XO (XO (XO (XI (XO (XI (XO (XI (XI (XI (XO (XI (XO (XO (XI (XO
    (XO (XI (XO (XO (XO (XO (XO (XO
    XH))))))))))))))))))))))))))))))))))))))))))))))))))))))))))))))) :: ((Npos
    (XI (XO (XO (XI (XO (XI (XO (XI (XO (XI (XO (XI (XI (XO (XO (XI (XO (XI
    (XI (XO (XI (XI (XO (XI (XI (XO (XI (XI (XI (XO (XI (XO (XI (XI (XI (XO
    (XI (XI (XI (XI (XO (XO (XO (XI (XO (XI (XI (XO (XI (XO (XO (XI (XI (XI
    (XO (XO (XI (XI (XI (XI (XI (XI (XI
    XH)))))))))))))))))))))))))))))))))))))))))))))))))))))))))))))))) :: ((Npos
    (XI (XO (XO (XI (XI (XO (XI (XI (XI (XI (XO (XI (XI (XO (XI (XI (XO (XO
    (XI (XI (XO (XI (XO (XI (XO (XO (XO (XI (XO (XI (XI (XI (XI (XO (XI (XO
    (XI (XO (XI (XO (XO (XO (XO (XI (XO (XI (XO (XO (XI (XO (XI (XI (XO (XO
    (XI (XO (XO (XO (XO (XO (XO (XI
    XH))))))))))))))))))))))))))))))))))))))))))))))))))))))))))))))) :: ((Npos
    (XO (XO (XI (XO (XI (XO (XI (XI (XO (XI (XI (XI (XI (XO (XO (XO (XO (XO
    (XO (XO (XO (XI (XO (XO (XO (XI (XI (XO (XO (XI (XI (XO (XO (XO (XI (XO
    (XO (XO (XO (XI (XO (XO (XO (XO (XI (XI (XO (XO (XI (XI (XO (XI (XO (XO
    (XI (XO (XI (XO (XO (XI (XO (XO
    XH))))))))))))))))))))))))))))))))))))))))))))))))))))))))))))))) :: ((Npos
    (XI (XI (XI (XO (XI (XI (XI (XI (XO (XI (XI (XO (XI (XO (XO (XI (XO (XO
    (XO (XI (XO (XI (XO (XO (XO (XO (XO (XO (XO (XI (XI (XO (XO (XI (XI (XO
    (XI (XO (XI (XI (XO (XI (XO (XI (XI (XI (XO (XO (XI (XI (XO (XO (XO (XO
    (XI (XI (XO (XI (XO (XO (XO (XO (XO
    XH)))))))))))))))))))))))))))))))))))))))))))))))))))))))))))))))) :: ((Npos
    (XO (XO (XI (XO (XO (XI (XI (XO (XI (XO (XO (XO (XO (XI (XI (XI (XI (XI
    (XO (XI (XO (XO (XO (XI (XO (XO (XO (XI (XI (XI (XO (XO (XI (XO (XO (XO
    (XO (XO (XI (XO (XI (XI (XI (XI (XI (XI (XI (XO (XO (XI (XI (XO (XO (XI
    (XO (XI (XI (XI (XI (XO (XO (XI (XO
    XH)))))))))))))))))))))))))))))))))))))))))))))))))))))))))))))))) :: ((Npos
    (XO (XO (XO (XI (XO (XI (XI (XO (XI (XO (XO (XO (XO (XO (XO (XO (XI (XO
    (XI (XO (XO (XO (XI (XO (XI (XI (XI (XI (XO (XO (XO (XO (XI (XI (XI (XI
    (XI (XO (XI (XO (XO (XI (XI (XI (XO (XI (XO (XO (XI (XI (XO (XO (XO (XI
    (XI (XI (XI (XI (XO (XI (XI (XO (XI
    XH)))))))))))))))))))))))))))))))))))))))))))))))))))))))))))))))) :: ((Npos
    (XI (XI (XI (XO (XO (XO (XI (XO (XI (XI (XO (XI (XO (XO (XI (XO (XO (XO
    (XI (XO (XI (XO (XO (XI (XI (XI (XO (XI (XO (XI (XO (XI (XI (XI (XO (XI
    (XO (XO (XO (XO (XO (XI (XO (XI (XI (XO (XO (XO (XI (XO (XI (XO (XO (XO
    (XI (XO (XO (XI (XO (XO (XO (XI (XI
    XH)))))))))))))))))))))))))))))))))))))))))))))))))))))))))))))))) :: ((Npos
    (XI (XI (XI (XO (XO (XO (XO (XI (XI (XO (XO (XI (XO (XI (XO (XO (XI (XO
    (XI (XO (XI (XO (XO (XO (XO (XI (XI (XO (XO (XO (XI (XI (XI (XO (XO (XO
    (XI (XO (XI (XO (XO (XO (XO (XI (XO (XI (XO (XO (XI (XO (XO (XO (XO (XO
    (XO (XI (XI (XO (XI (XO (XO
    XH)))))))))))))))))))))))))))))))))))))))))))))))))))))))))))))) :: ((Npos
    (XO (XI (XI (XI (XO (XI (XO (XI (XO (XO (XO (XI (XO (XI (XI (XI (XO (XO
    (XI (XI (XI (XI (XO (XI (XI (XI (XO (XI (XI (XO (XO (XI (XO (XO (XO (XI
    (XI (XI (XI (XI (XI (XI (XO (XI (XO (XO (XI (XO (XI (XI (XO (XI (XI (XO
    (XO (XO (XO (XI (XI (XO (XI (XI (XI
    XH)))))))))))))))))))))))))))))))))))))))))))))))))))))))))))))))) :: ((Npos
    (XI (XO (XI (XI (XI (XI (XI (XI (XO (XO (XO (XI (XO (XI (XO (XO (XI (XO
    (XO (XO (XI (XI (XO (XI (XO (XO (XO (XI (XO (XI (XO (XO (XO (XI (XI (XI
    (XO (XO (XI (XI (XO (XI (XI (XO (XI (XI (XI (XO (XO (XO (XI (XO (XO (XO
    (XI (XI (XI (XI (XO (XI (XO (XO (XO
    XH)))))))))))))))))))))))))))))))))))))))))))))))))))))))))))))))) :: ((Npos
    (XO (XI (XO (XO (XI (XI (XI (XI (XO (XI (XO (XO (XI (XI (XI (XI (XO (XO
    (XO (XI (XO (XO (XI (XI (XO (XI (XO (XO (XI (XI (XI (XO (XO (XI (XI (XI
    (XO (XI (XI (XI (XI (XI (XO (XO (XI (XI (XI (XO (XI (XO (XI (XO (XI (XO
    (XO (XO (XI (XO (XI (XI (XO (XI (XI
    XH)))))))))))))))))))))))))))))))))))))))))))))))))))))))))))))))) :: ((Npos
    (XI (XI (XO (XO (XI (XO (XI (XI (XI (XO (XI (XI (XI (XI (XI (XI (XI (XO
    (XO (XO (XI (XI (XI (XI (XI (XO (XI (XO (XO (XI (XI (XI (XO (XO (XI (XO
    (XO (XI (XO (XO (XI (XO (XI (XO (XO (XI (XO (XI (XI (XO (XI (XO (XO (XO
    (XI (XI
    XH))))))))))))))))))))))))))))))))))))))))))))))))))))))))) :: ((Npos (XO
    (XO (XO (XI (XI (XO (XO (XO (XI (XO (XO (XI (XO (XO (XO (XI (XO (XO (XO
    (XO (XI (XI (XO (XI (XO (XI (XO (XO (XO (XI (XI (XO (XI (XO (XO (XI (XI
    (XI (XO (XO (XI (XO (XI (XI (XO (XO (XO (XO (XO (XI (XO (XI (XO (XI (XI
    (XO (XO (XI (XO (XO (XO
    XH)))))))))))))))))))))))))))))))))))))))))))))))))))))))))))))) :: ((Npos
    (XO (XO (XI (XO (XO (XI (XI (XO (XI (XI (XI (XO (XO (XI (XI (XO (XI (XI
    (XI (XO (XO (XO (XO (XI (XO (XO (XI (XI (XO (XI (XI (XI (XI (XO (XO (XO
    (XO (XO (XI (XI (XI (XO (XI (XI (XI (XI (XO (XI (XO (XO (XI (XI (XO (XO
    (XI (XO (XI (XI (XI (XI (XO (XI (XO
    XH)))))))))))))))))))))))))))))))))))))))))))))))))))))))))))))))) :: ((Npos
    (XI (XO (XO (XO (XI (XI (XO (XO (XI (XO (XI (XO (XO (XO (XI (XI (XI (XI
    (XI (XI (XO (XO (XO (XI (XO (XO (XI (XO (XO (XI (XO (XI (XO (XI (XO (XI
    (XI (XO (XI (XO (XI (XI (XI (XI (XI (XI (XI (XI (XI (XI (XO (XI (XO (XO
    (XO (XO (XI (XI (XI (XI (XI (XO (XO
    XH)))))))))))))))))))))))))))))))))))))))))))))))))))))))))))))))) :: ((Npos
    (XO (XO (XO (XI (XO (XO (XO (XO (XI (XO (XO (XI (XI (XI (XO (XI (XO (XI
    (XI (XI (XO (XI (XO (XO (XI (XI (XO (XO (XO (XI (XO (XO (XO (XO (XI (XI
    (XO (XI (XO (XI (XI (XO (XO (XI (XO (XI (XO (XI (XI (XI (XI (XI (XI (XO
    (XO (XI (XI (XO (XO (XO
    XH))))))))))))))))))))))))))))))))))))))))))))))))))))))))))))) :: ((Npos
    (XI (XI (XI (XO (XI (XO (XO (XI (XO (XO (XO (XO (XI (XI (XO (XI (XO (XO
    (XO (XI (XO (XI (XO (XO (XI (XI (XI (XI (XI (XO (XO (XI (XI (XO (XO (XI
    (XI (XI (XI (XI (XI (XI (XI (XO (XI (XO (XI (XI (XI (XO (XO (XO (XI (XO
    (XI (XO (XO (XO (XO (XO (XO (XO (XO
    XH)))))))))))))))))))))))))))))))))))))))))))))))))))))))))))))))) :: ((Npos
    (XI (XI (XO (XO (XI (XI (XO (XO (XI (XI (XO (XI (XI (XI (XI (XO (XI (XI
    (XO (XO (XO (XI (XO (XI (XI (XO (XI (XI (XI (XI (XI (XI (XI (XO (XO (XI
    (XI (XO (XI (XO (XO (XI (XI (XO (XO (XO (XO (XO (XI (XO (XO (XI (XI (XI
    (XO (XI (XI (XI (XO (XO (XI (XI
    XH))))))))))))))))))))))))))))))))))))))))))))))))))))))))))))))) :: ((Npos
    (XO (XO (XI (XO (XO (XO (XI (XI (XI (XO (XI (XI (XI (XO (XI (XO (XI (XO
    (XI (XI (XI (XI (XI (XI (XI (XO (XO (XO (XI (XI (XO (XO (XO (XO (XO (XO
    (XI (XO (XI (XI (XI (XI (XO (XI (XO (XO (XO (XI (XI (XI (XO (XI (XI (XI
    (XI (XI (XO (XI (XO (XI (XI
    XH)))))))))))))))))))))))))))))))))))))))))))))))))))))))))))))) :: ((Npos
    (XO (XO (XO (XO (XI (XI (XO (XI (XI (XI (XO (XO (XO (XI (XO (XO (XI (XI
    (XO (XO (XO (XO (XI (XO (XI (XI (XO (XO (XO (XI (XI (XI (XO (XO (XI (XI
    (XO (XI (XI (XO (XO (XO (XO (XO (XO (XO (XI (XO (XO (XI (XO (XO (XI (XI
    (XO (XO (XI (XI (XO (XI (XI
    XH)))))))))))))))))))))))))))))))))))))))))))))))))))))))))))))) :: ((Npos
    (XO (XO (XO (XO (XI (XO (XO (XI (XI (XI (XO (XO (XO (XI (XI (XI (XI (XO
    (XO (XO (XI (XI (XO (XO (XI (XO (XI (XI (XO (XO (XO (XI (XO (XO (XI (XI
    (XI (XI (XO (XI (XO (XO (XO (XI (XO (XO (XO (XI (XO (XO (XO (XI (XI (XO
    (XO (XI (XO (XI (XO (XI (XI (XO
    XH))))))))))))))))))))))))))))))))))))))))))))))))))))))))))))))) :: ((Npos
    (XI (XI (XO (XI (XI (XI (XO (XO (XO (XO (XI (XO (XI (XI (XI (XO (XI (XI
    (XI (XO (XI (XI (XO (XO (XI (XI (XI (XO (XO (XI (XO (XO (XI (XI (XO (XO
    (XI (XI (XI (XI (XO (XO (XO (XO (XO (XO (XO (XO (XO (XO (XI (XO (XI (XO
    (XO (XO (XI (XO (XO (XO (XI (XI (XO
    XH)))))))))))))))))))))))))))))))))))))))))))))))))))))))))))))))) :: ((Npos
    (XO (XO (XI (XO (XI (XO (XO (XI (XO (XO (XO (XO (XI (XO (XO (XI (XO (XI
    (XO (XO (XI (XI (XO (XI (XI (XO (XO (XO (XO (XI (XI (XI (XI (XO (XO (XO
    (XI (XI (XI (XO (XI (XO (XO (XI (XO (XI (XI (XO (XO (XI (XO (XI (XI (XI
    (XI (XI (XI (XO (XO (XI (XI (XI (XO
    XH)))))))))))))))))))))))))))))))))))))))))))))))))))))))))))))))) :: ((Npos
    (XI (XO (XO (XO (XI (XO (XO (XO (XO (XO (XO (XO (XO (XO (XI (XO (XO (XO
    (XO (XO (XI (XO (XO (XI (XO (XI (XI (XO (XO (XI (XI (XO (XO (XO (XO (XO
    (XO (XO (XO (XI (XO (XO (XI (XI (XI (XO (XO (XI (XO (XI (XI (XO (XI (XO
    (XI (XO (XI (XO (XO (XI (XI (XI
    XH))))))))))))))))))))))))))))))))))))))))))))))))))))))))))))))) :: ((Npos
    (XI (XI (XI (XO (XI (XI (XO (XI (XO (XO (XI (XO (XI (XI (XO (XI (XO (XO
    (XO (XI (XI (XI (XO (XI (XO (XO (XI (XO (XI (XO (XI (XO (XI (XO (XO (XO
    (XI (XI (XO (XO (XI (XO (XO (XI (XO (XI (XI (XO (XO (XI (XI (XI (XI (XO
    (XI (XI (XO (XI (XI (XI (XO (XO (XI
    XH)))))))))))))))))))))))))))))))))))))))))))))))))))))))))))))))) :: ((Npos
    (XO (XO (XI (XI (XI (XO (XO (XI (XI (XO (XO (XI (XO (XO (XI (XO (XI (XO
    (XO (XI (XI (XI (XO (XI (XI (XI (XI (XI (XO (XI (XO (XI (XO (XI (XO (XO
    (XO (XO (XO (XO (XO (XO (XI (XO (XI (XI (XO (XI (XO (XI (XO (XI (XI (XO
    (XO (XI (XO (XO (XI (XI (XI (XI (XO
    XH)))))))))))))))))))))))))))))))))))))))))))))))))))))))))))))))) :: ((Npos
    (XI (XO (XI (XO (XI (XO (XI (XO (XI (XO (XI (XI (XI (XO (XO (XO (XO (XO
    (XI (XI (XO (XO (XI (XI (XI (XI (XO (XO (XO (XO (XI (XI (XI (XO (XO (XO
    (XO (XO (XO (XI (XI (XI (XI (XO (XI (XI (XO (XO (XO (XO (XI (XO (XI (XO
    (XI (XO (XO (XI (XO (XI (XO (XI
    XH))))))))))))))))))))))))))))))))))))))))))))))))))))))))))))))) :: ((Npos
    (XI (XO (XO (XI (XO (XO (XI (XO (XI (XO (XI (XI (XI (XI (XI (XI (XI (XO
    (XI (XO (XI (XO (XO (XI (XI (XI (XI (XI (XO (XI (XI (XO (XI (XI (XI (XO
    (XI (XO (XO (XI (XI (XO (XI (XI (XI (XI (XO (XI (XO (XI (XO (XI (XO (XI
    (XO (XI (XO (XO (XO (XO (XI (XO
    XH))))))))))))))))))))))))))))))))))))))))))))))))))))))))))))))) :: ((Npos
    (XO (XO (XI (XI (XI (XI (XI (XI (XI (XI (XI (XO (XO (XI (XO (XI (XO (XO
    (XO (XI (XO (XO (XI (XO (XO (XI (XI (XO (XI (XI (XO (XI (XO (XI (XI (XO
    (XI (XI (XO (XI (XO (XI (XI (XO (XO (XI (XO (XI (XI (XO (XO (XO (XO (XI
    (XO (XI (XI (XO (XI (XO (XI (XO
    XH))))))))))))))))))))))))))))))))))))))))))))))))))))))))))))))) :: ((Npos
    (XI (XO (XI (XI (XO (XI (XI (XI (XO (XI (XO (XI (XI (XI (XI (XI (XO (XI
    (XO (XO (XO (XI (XO (XI (XO (XO (XI (XO (XO (XO (XI (XO (XO (XI (XO (XO
    (XI (XI (XO (XO (XO (XO (XI (XI (XO (XI (XO (XO (XI (XO (XI (XI (XI (XI
    (XO (XI (XO (XI (XI (XI (XI (XO (XO
    XH)))))))))))))))))))))))))))))))))))))))))))))))))))))))))))))))) :: ((Npos
    (XO (XO (XO (XI (XO (XI (XI (XI (XI (XI (XO (XO (XO (XI (XO (XO (XI (XI
    (XO (XO (XI (XO (XO (XO (XI (XO (XO (XO (XI (XO (XI (XO (XO (XO (XI (XI
    (XI (XI (XI (XO (XO (XO (XO (XI (XO (XI (XI (XO (XO (XI (XI (XI (XO (XO
    (XI (XO (XO (XI (XI (XO (XO (XO (XO
    XH)))))))))))))))))))))))))))))))))))))))))))))))))))))))))))))))) :: ((Npos
    (XO (XO (XO (XI (XI (XI (XI (XO (XI (XI (XO (XI (XO (XO (XI (XO (XI (XI
    (XI (XO (XI (XO (XO (XO (XO (XI (XO (XO (XO (XO (XO (XO (XI (XO (XO (XO
    (XO (XO (XI (XI (XO (XI (XO (XI (XO (XI (XO (XO (XI (XI (XI (XI (XO (XO
    (XI (XI (XO (XO (XO (XI (XO (XI (XO
    XH)))))))))))))))))))))))))))))))))))))))))))))))))))))))))))))))) :: ((Npos
    (XO (XO (XO (XO (XO (XO (XO (XO (XO (XI (XI (XI (XO (XI (XO (XO (XO (XI
    (XO (XO (XO (XI (XO (XI (XO (XI (XI (XO (XO (XI (XO (XO (XO (XO (XO (XO
    (XO (XO (XO (XI (XO (XI (XO (XI (XO (XI (XI (XI (XI (XO (XI (XO (XO (XI
    (XI (XO (XO (XI (XI (XO (XI
    XH)))))))))))))))))))))))))))))))))))))))))))))))))))))))))))))) :: ((Npos
    (XO (XO (XO (XO (XO (XO (XI (XI (XO (XO (XO (XO (XI (XO (XI (XO (XI (XI
    (XI (XO (XO (XO (XO (XO (XI (XI (XO (XI (XI (XO (XI (XO (XI (XO (XO (XI
    (XO (XO (XI (XI (XI (XO (XI (XO (XI (XO (XI (XI (XO (XO (XI (XO (XI (XI
    (XO (XO (XO (XO (XI (XO (XO (XO (XO
    XH)))))))))))))))))))))))))))))))))))))))))))))))))))))))))))))))) :: ((Npos
    (XI (XI (XO (XI (XO (XI (XO (XO (XI (XI (XI (XI (XO (XI (XO (XI (XI (XI
    (XO (XO (XO (XI (XO (XO (XO (XI (XI (XO (XI (XO (XO (XI (XI (XI (XO (XO
    (XO (XI (XI (XI (XI (XI (XI (XI (XO (XO (XI (XI (XI (XI (XO (XI (XI (XI
    (XI (XI (XI (XO (XO (XO (XI (XI (XI
    XH)))))))))))))))))))))))))))))))))))))))))))))))))))))))))))))))) :: ((Npos
    (XO (XI (XI (XI (XI (XO (XI (XO (XI (XI (XI (XI (XO (XO (XO (XO (XO (XO
    (XO (XI (XI (XO (XO (XI (XO (XO (XO (XO (XI (XI (XO (XI (XO (XI (XI (XI
    (XO (XO (XO (XO (XI (XI (XO (XO (XO (XO (XI (XO (XI (XO (XO (XO (XI (XI
    (XI (XI (XI (XO (XI (XO (XO
    XH)))))))))))))))))))))))))))))))))))))))))))))))))))))))))))))) :: ((Npos
    (XO (XI (XO (XO (XI (XI (XO (XI (XO (XO (XO (XI (XO (XO (XO (XO (XO (XO
    (XO (XI (XO (XO (XO (XO (XO (XI (XI (XI (XI (XO (XO (XI (XO (XO (XO (XI
    (XI (XI (XI (XO (XI (XO (XO (XO (XI (XO (XO (XO (XO (XI (XO (XI (XO (XO
    (XO (XO (XI (XO (XI (XO (XI (XO (XI
    XH)))))))))))))))))))))))))))))))))))))))))))))))))))))))))))))))) :: ((Npos
    (XO (XO (XO (XO (XI (XI (XO (XI (XO (XI (XO (XI (XO (XI (XO (XO (XI (XO
    (XI (XI (XI (XI (XO (XI (XO (XI (XO (XO (XO (XI (XO (XO (XI (XI (XI (XO
    (XO (XO (XI (XO (XI (XO (XO (XI (XI (XO (XI (XO (XI (XI (XO (XO (XO (XI
    (XI (XI (XI (XI (XI (XO (XI (XO
    XH))))))))))))))))))))))))))))))))))))))))))))))))))))))))))))))) :: ((Npos
    (XO (XO (XO (XI (XO (XI (XO (XI (XO (XO (XO (XO (XI (XO (XO (XO (XI (XO
    (XI (XI (XI (XO (XO (XI (XO (XI (XO (XI (XI (XI (XI (XI (XI (XI (XI (XI
    (XI (XO (XI (XO (XI (XI (XO (XI (XO (XI (XI (XI (XO (XI (XI (XI (XO (XI
    (XI (XI (XO (XI (XI (XI (XO (XI (XI
    XH)))))))))))))))))))))))))))))))))))))))))))))))))))))))))))))))) :: ((Npos
    (XO (XI (XI (XO (XO (XO (XI (XO (XI (XI (XI (XI (XO (XO (XI (XO (XO (XI
    (XI (XI (XO (XO (XI (XO (XI (XI (XI (XO (XO (XO (XI (XI (XO (XO (XI (XO
    (XI (XI (XO (XI (XO (XI (XO (XI (XO (XO (XO (XI (XI (XI (XI (XO (XO (XI
    (XI (XO (XI (XI (XO (XO (XO (XI
    XH))))))))))))))))))))))))))))))))))))))))))))))))))))))))))))))) :: ((Npos
    (XI (XO (XO (XI (XO (XI (XO (XI (XO (XI (XO (XI (XO (XI (XO (XI (XO (XI
    (XI (XO (XI (XO (XO (XO (XO (XI (XO (XO (XO (XO (XO (XO (XO (XI (XO (XI
    (XI (XO (XO (XI (XO (XI (XO (XI (XO (XO (XO (XO (XO (XO (XO (XO (XI (XO
    (XI (XO (XO (XI (XI (XI (XI (XO
    XH))))))))))))))))))))))))))))))))))))))))))))))))))))))))))))))) :: ((Npos
    (XI (XO (XO (XI (XO (XO (XI (XI (XO (XI (XO (XO (XI (XO (XI (XO (XI (XO
    (XO (XO (XI (XO (XI (XI (XO (XO (XO (XI (XI (XO (XI (XO (XO (XI (XI (XI
    (XO (XI (XI (XI (XI (XO (XI (XO (XI (XI (XI (XI (XI (XI (XO (XI (XO (XI
    (XI (XO
    XH))))))))))))))))))))))))))))))))))))))))))))))))))))))))) :: ((Npos (XI
    (XO (XO (XO (XI (XI (XI (XO (XI (XI (XI (XO (XO (XO (XO (XI (XO (XI (XO
    (XI (XO (XI (XO (XO (XO (XO (XO (XI (XI (XO (XO (XI (XO (XI (XI (XI (XI
    (XI (XI (XO (XI (XO (XO (XI (XI (XI (XI (XO (XI (XI (XO (XO (XO (XO (XI
    (XO (XO (XI (XO (XO (XO (XI (XO
    XH)))))))))))))))))))))))))))))))))))))))))))))))))))))))))))))))) :: ((Npos
    (XO (XO (XO (XI (XI (XO (XI (XI (XO (XI (XI (XO (XO (XO (XI (XI (XO (XO
    (XI (XI (XO (XO (XO (XO (XO (XO (XO (XO (XI (XI (XO (XI (XO (XO (XO (XI
    (XI (XO (XI (XI (XO (XI (XO (XI (XO (XO (XI (XO (XO (XO (XI (XI (XO (XO
    (XI (XO (XO (XO (XI (XI (XI
    XH)))))))))))))))))))))))))))))))))))))))))))))))))))))))))))))) :: ((Npos
    (XI (XI (XI (XI (XI (XO (XO (XI (XO (XI (XI (XO (XO (XI (XO (XO (XO (XI
    (XI (XI (XI (XI (XO (XO (XI (XI (XI (XI (XO (XI (XI (XI (XI (XI (XI (XO
    (XO (XI (XI (XO (XO (XO (XI (XO (XI (XO (XI (XO (XO (XI (XO (XO (XI (XO
    (XI (XO (XI (XO (XO (XI (XO (XI
    XH))))))))))))))))))))))))))))))))))))))))))))))))))))))))))))))) :: ((Npos
    (XI (XO (XI (XO (XO (XO (XI (XO (XI (XO (XI (XO (XI (XO (XO (XO (XO (XO
    (XI (XI (XI (XI (XI (XO (XO (XO (XI (XO (XO (XO (XO (XI (XI (XI (XI (XO
    (XI (XO (XO (XI (XO (XI (XI (XI (XO (XI (XO (XI (XI (XO (XO (XO (XI (XO
    (XI (XO (XI (XO (XO (XO (XI
    XH)))))))))))))))))))))))))))))))))))))))))))))))))))))))))))))) :: ((Npos
    (XI (XO (XO (XI (XI (XO (XI (XI (XO (XI (XI (XO (XO (XI (XO (XI (XI (XO
    (XO (XO (XO (XI (XO (XO (XI (XI (XO (XO (XO (XI (XO (XO (XO (XI (XI (XI
    (XO (XO (XI (XI (XO (XI (XI (XO (XO (XI (XO (XO (XI (XO (XI (XO (XI (XI
    (XI (XO (XI (XO (XI (XO (XI (XI
    XH))))))))))))))))))))))))))))))))))))))))))))))))))))))))))))))) :: ((Npos
    (XO (XI (XI (XO (XO (XI (XI (XI (XI (XO (XO (XI (XI (XO (XI (XI (XI (XI
    (XO (XO (XI (XO (XI (XI (XI (XO (XI (XO (XI (XI (XO (XO (XO (XI (XO (XO
    (XI (XI (XI (XO (XO (XO (XO (XO (XO (XO (XI (XI (XO (XI (XI (XO (XI (XI
    (XO (XI (XO (XO (XO (XI (XI (XI (XO
    XH)))))))))))))))))))))))))))))))))))))))))))))))))))))))))))))))) :: ((Npos
    (XI (XO (XO (XO (XI (XO (XO (XO (XO (XO (XO (XO (XO (XI (XO (XO (XO (XO
    (XI (XI (XI (XI (XI (XO (XI (XI (XI (XO (XI (XO (XO (XO (XO (XO (XO (XI
    (XI (XI (XI (XO (XI (XO (XO (XI (XO (XI (XI (XI (XO (XO (XI (XI (XI (XI
    (XI (XO (XO (XI (XI (XI (XI (XO (XI
    XH)))))))))))))))))))))))))))))))))))))))))))))))))))))))))))))))) :: ((Npos
    (XI (XI (XI (XI (XI (XO (XO (XO (XO (XI (XO (XI (XI (XO (XI (XO (XI (XI
    (XO (XO (XI (XI (XO (XI (XO (XO (XO (XI (XI (XI (XO (XO (XO (XI (XI (XI
    (XI (XI (XO (XI (XO (XO (XI (XI (XI (XO (XI (XI (XI (XO (XI (XO (XI (XI
    (XI (XI (XI (XO (XO (XI (XI (XI (XO
    XH)))))))))))))))))))))))))))))))))))))))))))))))))))))))))))))))) :: ((Npos
    (XO (XI (XI (XI (XI (XI (XI (XI (XO (XO (XI (XO (XO (XI (XO (XI (XI (XO
    (XI (XI (XI (XO (XO (XO (XI (XI (XO (XI (XO (XI (XI (XI (XO (XI (XO (XO
    (XI (XI (XI (XO (XO (XO (XO (XO (XO (XI (XO (XO (XI (XO (XI (XI (XO (XO
    (XO (XO (XO (XO (XO (XI (XI
    XH)))))))))))))))))))))))))))))))))))))))))))))))))))))))))))))) :: ((Npos
    (XO (XO (XI (XO (XO (XO (XO (XI (XI (XO (XO (XO (XO (XO (XO (XI (XO (XI
    (XI (XO (XO (XO (XO (XI (XI (XO (XO (XO (XO (XI (XO (XO (XO (XI (XI (XO
    (XO (XI (XO (XI (XI (XO (XI (XO (XO (XI (XI (XI (XI (XO (XI (XO (XO (XI
    (XI (XI (XI (XO (XI (XO (XI (XO
    XH))))))))))))))))))))))))))))))))))))))))))))))))))))))))))))))) :: ((Npos
    (XI (XI (XO (XI (XO (XI (XO (XO (XO (XI (XO (XO (XO (XI (XI (XI (XO (XI
    (XI (XI (XO (XO (XO (XO (XO (XI (XI (XO (XI (XI (XO (XO (XO (XO (XO (XO
    (XI (XI (XO (XI (XI (XO (XI (XO (XI (XO (XI (XO (XO (XI (XO (XI (XI (XI
    (XO (XI (XI (XI (XI (XO (XI
    XH)))))))))))))))))))))))))))))))))))))))))))))))))))))))))))))) :: ((Npos
    (XI (XO (XI (XO (XI (XO (XI (XI (XI (XI (XI (XO (XI (XO (XO (XI (XO (XI
    (XO (XI (XI (XO (XO (XO (XO (XO (XO (XI (XO (XI (XI (XO (XI (XO (XO (XI
    (XI (XO (XI (XO (XO (XI (XO (XI (XO (XO (XI (XI (XO (XI (XO (XI (XO (XO
    (XO (XI (XI (XI (XO (XI (XI (XO (XO
    XH)))))))))))))))))))))))))))))))))))))))))))))))))))))))))))))))) :: ((Npos
    (XO (XI (XI (XO (XO (XO (XO (XO (XI (XI (XI (XO (XI (XO (XO (XO (XI (XO
    (XO (XI (XO (XO (XI (XI (XI (XO (XO (XO (XI (XO (XO (XI (XI (XO (XI (XI
    (XI (XI (XO (XI (XO (XO (XI (XO (XO (XO (XO (XO (XI (XI (XI (XO (XI (XI
    (XO (XI (XI (XI (XO
    XH)))))))))))))))))))))))))))))))))))))))))))))))))))))))))))) :: ((Npos
    (XO (XO (XO (XO (XO (XI (XO (XI (XO (XI (XI (XO (XO (XO (XI (XI (XO (XI
    (XO (XI (XI (XI (XI (XO (XI (XO (XI (XO (XI (XO (XO (XO (XO (XO (XI (XI
    (XI (XI (XO (XI (XO (XI (XI (XI (XO (XI (XI (XO (XI (XO (XI (XO (XO (XI
    (XO (XI (XI (XO (XI (XO (XO (XO (XI
    XH)))))))))))))))))))))))))))))))))))))))))))))))))))))))))))))))) :: ((Npos
    (XI (XO (XI (XI (XI (XO (XI (XI (XO (XO (XO (XI (XI (XO (XO (XO (XO (XO
    (XI (XI (XO (XO (XI (XI (XO (XI (XO (XI (XO (XO (XO (XO (XI (XI (XI (XI
    (XI (XI (XI (XO (XI (XI (XI (XI (XI (XI (XI (XO (XO (XO (XO (XO (XO (XI
    (XI (XO (XO (XO (XI (XO
    XH))))))))))))))))))))))))))))))))))))))))))))))))))))))))))))) :: ((Npos
    (XI (XO (XI (XO (XI (XI (XI (XI (XO (XI (XI (XI (XI (XI (XI (XI (XI (XI
    (XO (XI (XI (XI (XI (XI (XI (XO (XI (XO (XI (XI (XO (XI (XI (XI (XO (XO
    (XO (XI (XO (XI (XO (XO (XO (XO (XI (XO (XO (XO (XO (XO (XI (XI (XO (XO
    (XO (XI (XO (XO (XI (XO (XI (XO
    XH))))))))))))))))))))))))))))))))))))))))))))))))))))))))))))))) :: ((Npos
    (XI (XI (XO (XI (XO (XO (XO (XI (XI (XO (XI (XO (XI (XO (XO (XI (XI (XI
    (XO (XI (XO (XI (XO (XI (XI (XI (XI (XI (XO (XO (XI (XI (XO (XO (XO (XO
    (XO (XI (XO (XI (XI (XO (XO (XI (XO (XI (XO (XO (XO (XO (XO (XI (XI (XO
    (XO (XO (XO (XI (XO (XI (XO (XO
    XH))))))))))))))))))))))))))))))))))))))))))))))))))))))))))))))) :: ((Npos
    (XO (XO (XO (XO (XO (XO (XI (XI (XO (XO (XO (XI (XO (XO (XO (XO (XI (XO
    (XO (XI (XO (XI (XI (XI (XI (XO (XO (XI (XI (XO (XO (XI (XI (XI (XI (XO
    (XO (XI (XI (XO (XI (XO (XO (XI (XO (XI (XO (XI (XO (XO (XI (XO (XI (XO
    (XO (XI (XO (XI (XI (XO (XI (XO
    XH))))))))))))))))))))))))))))))))))))))))))))))))))))))))))))))) :: ((Npos
    (XO (XI (XI (XI (XI (XI (XI (XI (XI (XO (XO (XO (XO (XO (XO (XI (XI (XO
    (XO (XI (XO (XO (XO (XI (XO (XI (XO (XI (XI (XI (XO (XI (XI (XI (XO (XO
    (XO (XI (XO (XO (XO (XO (XI (XO (XI (XI (XO (XO (XI (XO (XO (XO (XI (XI
    (XO (XI (XI (XO (XI (XI (XO (XI (XI
    XH)))))))))))))))))))))))))))))))))))))))))))))))))))))))))))))))) :: ((Npos
    (XO (XO (XO (XI (XO (XI (XI (XI (XI (XI (XO (XO (XO (XO (XI (XO (XO (XO
    (XI (XO (XO (XI (XI (XO (XO (XO (XO (XI (XO (XI (XI (XI (XO (XI (XI (XI
    (XO (XO (XI (XI (XO (XO (XI (XO (XO (XI (XO (XO (XI (XI (XI (XI (XO (XI
    (XI (XO (XI (XO (XO (XI (XI (XI (XI
    XH)))))))))))))))))))))))))))))))))))))))))))))))))))))))))))))))) :: ((Npos
    (XI (XI (XO (XI (XI (XO (XI (XI (XO (XO (XO (XI (XO (XI (XI (XI (XI (XI
    (XI (XI (XO (XO (XO (XI (XI (XI (XO (XO (XO (XI (XI (XI (XO (XI (XI (XI
    (XO (XI (XO (XI (XI (XI (XO (XI (XO (XO (XO (XI (XO (XO (XO (XI (XI (XI
    (XO (XI (XO (XI (XI
    XH)))))))))))))))))))))))))))))))))))))))))))))))))))))))))))) :: ((Npos
    (XO (XO (XI (XI (XO (XI (XI (XO (XO (XO (XI (XO (XI (XI (XI (XO (XO (XO
    (XO (XO (XI (XO (XI (XO (XI (XI (XO (XI (XO (XI (XO (XI (XI (XO (XO (XO
    (XO (XI (XO (XO (XO (XI (XO (XO (XI (XI (XI (XI (XI (XO (XO (XI (XI (XO
    (XI (XO (XI (XI (XI (XO (XO (XO (XO
    XH)))))))))))))))))))))))))))))))))))))))))))))))))))))))))))))))) :: ((Npos
    (XI (XO (XO (XO (XO (XI (XO (XI (XI (XI (XO (XO (XI (XO (XO (XO (XO (XI
    (XO (XO (XO (XO (XO (XI (XI (XO (XO (XI (XI (XI (XO (XI (XI (XI (XI (XI
    (XO (XO (XI (XI (XI (XI (XI (XO (XI (XI (XI (XI (XI (XI (XI (XO (XO (XO
    (XI (XI (XI
    XH)))))))))))))))))))))))))))))))))))))))))))))))))))))))))) :: ((Npos
    (XI (XI (XO (XI (XO (XO (XI (XO (XI (XI (XI (XI (XI (XO (XO (XO (XI (XO
    (XI (XO (XI (XO (XI (XO (XO (XO (XI (XI (XO (XI (XI (XO (XI (XI (XI (XI
    (XI (XO (XO (XO (XO (XO (XI (XO (XO (XO (XI (XI (XO (XI (XO (XI (XO (XO
    (XI (XO (XO (XO (XO (XI (XO
    XH)))))))))))))))))))))))))))))))))))))))))))))))))))))))))))))) :: ((Npos
    (XO (XI (XI (XI (XI (XI (XI (XO (XI (XO (XO (XI (XI (XI (XI (XI (XI (XI
    (XI (XI (XI (XO (XO (XI (XI (XO (XI (XO (XI (XI (XI (XI (XI (XI (XO (XI
    (XO (XI (XO (XO (XO (XO (XI (XI (XO (XI (XO (XI (XI (XI (XO (XI (XI (XO
    (XO (XO (XI (XO (XO (XI (XO (XO (XI
    XH)))))))))))))))))))))))))))))))))))))))))))))))))))))))))))))))) :: ((Npos
    (XO (XI (XI (XI (XO (XI (XO (XI (XI (XI (XO (XO (XI (XI (XO (XI (XI (XO
    (XI (XI (XO (XO (XI (XO (XO (XI (XO (XI (XO (XO (XO (XI (XO (XO (XO (XO
    (XI (XI (XI (XI (XI (XI (XI (XO (XI (XO (XI (XI (XI (XI (XI (XI (XI (XI
    (XO (XO (XO (XI (XO (XI (XO (XO (XO
    XH)))))))))))))))))))))))))))))))))))))))))))))))))))))))))))))))) :: ((Npos
    (XI (XO (XO (XO (XI (XI (XO (XI (XO (XI (XI (XO (XO (XO (XI (XI (XO (XO
    (XI (XI (XI (XO (XO (XI (XO (XO (XO (XI (XI (XO (XO (XI (XO (XI (XO (XO
    (XO (XO (XO (XI (XO (XO (XI (XO (XO (XI (XO (XO (XO (XO (XI (XI (XO (XO
    (XI (XO (XO (XO (XO (XI (XI
    XH)))))))))))))))))))))))))))))))))))))))))))))))))))))))))))))) :: ((Npos
    (XO (XI (XO (XI (XI (XI (XO (XO (XI (XO (XI (XO (XO (XI (XO (XI (XO (XO
    (XO (XI (XI (XI (XI (XO (XO (XI (XO (XO (XO (XO (XI (XO (XO (XO (XI (XO
    (XO (XO (XO (XI (XI (XO (XI (XI (XI (XO (XO (XO (XO (XO (XI (XI (XI (XO
    (XI (XO (XI (XO (XI (XO (XI (XO (XI
    XH)))))))))))))))))))))))))))))))))))))))))))))))))))))))))))))))) :: ((Npos
    (XI (XO (XI (XO (XI (XI (XO (XO (XO (XI (XO (XO (XO (XI (XO (XI (XO (XO
    (XI (XI (XI (XI (XO (XO (XO (XO (XO (XO (XO (XO (XO (XI (XO (XI (XO (XI
    (XO (XI (XO (XI (XO (XO (XI (XI (XO (XI (XI (XO (XI (XI (XO (XI (XO (XO
    (XO (XO (XI (XI (XO (XI (XO (XO (XO
    XH)))))))))))))))))))))))))))))))))))))))))))))))))))))))))))))))) :: ((Npos
    (XO (XI (XO (XI (XI (XO (XO (XO (XO (XI (XO (XO (XI (XO (XI (XO (XO (XO
    (XI (XI (XI (XI (XI (XI (XO (XO (XI (XO (XI (XI (XI (XO (XO (XI (XI (XO
    (XI (XO (XO (XO (XI (XI (XO (XO (XO (XO (XI (XI (XI (XO (XO (XO (XI (XO
    (XO (XO (XO (XI (XO (XO (XI
    XH)))))))))))))))))))))))))))))))))))))))))))))))))))))))))))))) :: ((Npos
    (XO (XO (XI (XI (XI (XO (XO (XO (XO (XO (XI (XO (XO (XI (XO (XI (XO (XI
    (XO (XO (XI (XI (XI (XO (XO (XO (XI (XI (XO (XI (XO (XO (XI (XI (XI (XO
    (XO (XI (XI (XI (XO (XI (XI (XI (XO (XI (XO (XO (XO (XO (XO (XI (XO (XI
    (XO (XO (XO (XI (XI (XI (XO (XO (XO
    XH)))))))))))))))))))))))))))))))))))))))))))))))))))))))))))))))) :: ((Npos
    (XO (XI (XO (XO (XI (XO (XI (XI (XI (XI (XI (XI (XO (XI (XI (XO (XO (XI
    (XI (XO (XO (XO (XI (XI (XI (XI (XO (XI (XI (XI (XO (XI (XO (XO (XI (XI
    (XI (XO (XO (XI (XI (XO (XO (XO (XO (XO (XO (XO (XI (XI (XI (XO (XO (XI
    (XI (XO (XO (XI (XO (XO (XO (XI (XO
    XH)))))))))))))))))))))))))))))))))))))))))))))))))))))))))))))))) :: ((Npos
    (XI (XO (XI (XO (XI (XI (XO (XI (XI (XO (XI (XI (XI (XI (XI (XO (XI (XO
    (XI (XO (XI (XI (XO (XI (XO (XO (XO (XI (XO (XO (XO (XO (XI (XI (XI (XI
    (XO (XI (XI (XO (XI (XI (XI (XI (XO (XO (XI (XO (XO (XO (XI (XI (XI (XO
    (XO (XO (XO (XI (XO (XI (XI (XI (XO
    XH)))))))))))))))))))))))))))))))))))))))))))))))))))))))))))))))) :: ((Npos
    (XO (XO (XO (XI (XO (XO (XO (XI (XO (XO (XO (XI (XO (XI (XI (XI (XO (XO
    (XO (XO (XO (XI (XI (XO (XI (XI (XI (XO (XO (XO (XI (XI (XO (XI (XI (XI
    (XI (XO (XO (XO (XO (XO (XO (XI (XO (XI (XO (XI (XO (XI (XI (XO (XI (XI
    (XO (XO (XO (XO (XO (XO (XO (XI (XI
    XH)))))))))))))))))))))))))))))))))))))))))))))))))))))))))))))))) :: ((Npos
    (XO (XI (XI (XO (XO (XI (XO (XI (XO (XO (XI (XI (XO (XO (XI (XI (XI (XI
    (XO (XO (XO (XO (XO (XO (XI (XO (XI (XI (XO (XO (XI (XO (XI (XI (XO (XI
    (XI (XO (XO (XO (XO (XO (XI (XI (XI (XO (XO (XO (XI (XI (XI (XO (XO (XI
    (XI (XO (XO (XO (XO (XI
    XH))))))))))))))))))))))))))))))))))))))))))))))))))))))))))))) :: ((Npos
    (XI (XI (XO (XI (XI (XO (XO (XO (XI (XO (XO (XI (XO (XO (XO (XI (XI (XO
    (XO (XI (XI (XO (XO (XI (XI (XO (XO (XO (XO (XO (XO (XI (XI (XI (XI (XO
    (XO (XO (XI (XO (XO (XO (XI (XO (XI (XO (XO (XO (XI (XI (XO (XI (XI (XI
    (XO (XO (XI (XO (XO (XI (XO (XI
    XH))))))))))))))))))))))))))))))))))))))))))))))))))))))))))))))) :: ((Npos
    (XO (XO (XO (XO (XO (XI (XO (XI (XO (XI (XI (XI (XI (XI (XO (XI (XO (XI
    (XO (XI (XI (XO (XO (XI (XO (XO (XI (XO (XI (XO (XI (XO (XO (XI (XI (XO
    (XO (XO (XO (XI (XO (XO (XI (XI (XO (XI (XO (XI (XO (XO (XI (XI (XI (XO
    (XO (XO (XO (XI (XO (XI (XO (XI (XO
    XH)))))))))))))))))))))))))))))))))))))))))))))))))))))))))))))))) :: ((Npos
    (XO (XO (XI (XO (XO (XO (XI (XI (XO (XI (XI (XI (XO (XO (XO (XO (XI (XI
    (XO (XO (XI (XI (XO (XI (XI (XO (XI (XO (XI (XO (XO (XO (XO (XI (XO (XI
    (XO (XO (XO (XO (XI (XI (XI (XO (XO (XO (XO (XO (XO (XO (XO (XO (XI (XI
    (XO (XO (XI (XI (XO (XO (XO (XO
    XH))))))))))))))))))))))))))))))))))))))))))))))))))))))))))))))) :: ((Npos
    (XO (XO (XO (XI (XI (XI (XI (XI (XO (XI (XI (XO (XI (XO (XI (XO (XI (XO
    (XI (XO (XO (XO (XI (XI (XO (XO (XI (XI (XO (XO (XI (XO (XO (XI (XO (XO
    (XO (XI (XI (XO (XI (XI (XI (XI (XI (XI (XI (XO (XO (XO (XI (XI (XO (XI
    (XI (XO (XO (XO (XO (XI
    XH))))))))))))))))))))))))))))))))))))))))))))))))))))))))))))) :: ((Npos
    (XI (XI (XI (XO (XI (XI (XI (XO (XO (XO (XI (XO (XO (XI (XI (XI (XO (XI
    (XI (XO (XI (XI (XI (XO (XO (XI (XO (XI (XI (XO (XI (XO (XO (XO (XI (XI
    (XI (XO (XI (XO (XI (XO (XO (XI (XO (XI (XO (XI (XO (XI (XO (XO (XI (XI
    (XO (XO (XI (XO (XI (XI (XI (XI (XI
    XH)))))))))))))))))))))))))))))))))))))))))))))))))))))))))))))))) :: ((Npos
    (XI (XI (XO (XO (XI (XO (XI (XO (XO (XO (XI (XI (XO (XI (XO (XI (XO (XI
    (XI (XI (XI (XO (XO (XO (XO (XO (XI (XO (XI (XI (XI (XO (XI (XI (XI (XI
    (XI (XO (XO (XO (XI (XO (XO (XO (XO (XO (XO (XI (XO (XO (XO (XO (XI (XI
    (XO (XO (XI (XI (XI (XO (XO (XO
    XH))))))))))))))))))))))))))))))))))))))))))))))))))))))))))))))) :: ((Npos
    (XI (XO (XI (XI (XI (XO (XO (XO (XI (XI (XO (XO (XI (XO (XI (XO (XI (XI
    (XI (XO (XI (XI (XO (XI (XI (XO (XO (XO (XI (XI (XO (XI (XO (XI (XO (XI
    (XI (XI (XI (XI (XI (XI (XI (XO (XI (XO (XO (XO (XO (XI (XI (XO (XO (XO
    (XO (XO (XO (XI (XO (XO (XO (XI
    XH))))))))))))))))))))))))))))))))))))))))))))))))))))))))))))))) :: ((Npos
    (XO (XI (XI (XO (XO (XI (XO (XO (XO (XI (XI (XI (XI (XI (XO (XI (XI (XI
    (XO (XI (XO (XI (XI (XI (XI (XO (XO (XO (XI (XO (XI (XO (XO (XI (XO (XI
    (XI (XO (XI (XO (XI (XI (XO (XO (XO (XO (XO (XO (XO (XI (XO (XO (XI (XI
    (XI (XO (XO (XI (XO (XI (XI
    XH)))))))))))))))))))))))))))))))))))))))))))))))))))))))))))))) :: ((Npos
    (XO (XO (XI (XO (XI (XI (XO (XI (XI (XI (XI (XI (XO (XI (XI (XI (XO (XO
    (XI (XO (XI (XO (XI (XO (XI (XI (XO (XI (XO (XI (XI (XI (XO (XI (XI (XO
    (XO (XI (XI (XI (XO (XI (XO (XI (XO (XI (XO (XO (XI (XI (XO (XO (XO (XI
    (XO (XI (XI (XI (XI (XI (XI
    XH)))))))))))))))))))))))))))))))))))))))))))))))))))))))))))))) :: ((Npos
    (XO (XI (XI (XO (XO (XO (XI (XO (XO (XO (XO (XI (XI (XI (XI (XO (XI (XI
    (XI (XI (XI (XO (XO (XI (XI (XI (XI (XO (XI (XI (XO (XI (XI (XO (XO (XI
    (XI (XO (XI (XO (XI (XO (XI (XI (XI (XI (XO (XO (XI (XO (XO (XI (XO (XO
    (XI (XI (XO (XO (XI (XI (XI (XO
    XH))))))))))))))))))))))))))))))))))))))))))))))))))))))))))))))) :: ((Npos
    (XI (XI (XI (XO (XO (XI (XI (XO (XO (XI (XO (XI (XO (XO (XI (XI (XI (XO
    (XO (XI (XI (XI (XO (XI (XI (XO (XI (XI (XO (XO (XI (XO (XO (XI (XI (XI
    (XO (XI (XO (XO (XI (XI (XO (XO (XI (XO (XO (XO (XI (XI (XO (XO (XI (XO
    (XO (XI (XO (XO (XO (XO (XO (XO
    XH))))))))))))))))))))))))))))))))))))))))))))))))))))))))))))))) :: ((Npos
    (XI (XI (XO (XO (XO (XO (XI (XI (XI (XI (XO (XO (XI (XI (XO (XO (XO (XI
    (XO (XO (XO (XI (XO (XI (XO (XI (XO (XO (XO (XO (XI (XO (XI (XI (XO (XI
    (XI (XI (XI (XO (XO (XO (XO (XI (XI (XI (XO (XI (XI (XO (XO (XI (XO (XO
    (XI (XO (XI (XI (XO (XO (XI (XO (XO
    XH)))))))))))))))))))))))))))))))))))))))))))))))))))))))))))))))) :: ((Npos
    (XI (XO (XI (XO (XO (XO (XI (XI (XO (XI (XI (XI (XO (XI (XI (XO (XO (XO
    (XO (XI (XO (XO (XI (XO (XO (XI (XO (XO (XI (XI (XO (XO (XO (XO (XO (XO
    (XO (XO (XO (XI (XI (XI (XO (XI (XI (XI (XO (XO (XO (XO (XI (XI (XI (XI
    (XI (XO (XO (XI (XO (XI (XO (XO
    XH))))))))))))))))))))))))))))))))))))))))))))))))))))))))))))))) :: ((Npos
    (XI (XI (XO (XO (XI (XI (XO (XO (XO (XO (XI (XO (XO (XI (XO (XI (XI (XO
    (XI (XI (XI (XI (XI (XO (XO (XO (XO (XO (XO (XO (XI (XI (XO (XO (XI (XI
    (XO (XO (XO (XO (XI (XI (XI (XI (XO (XO (XI (XO (XI (XO (XO (XI (XO (XI
    (XI (XO (XI (XI (XI (XI (XO
    XH)))))))))))))))))))))))))))))))))))))))))))))))))))))))))))))) :: ((Npos
    (XO (XI (XO (XI (XI (XI (XI (XO (XO (XO (XI (XO (XI (XO (XI (XO (XO (XI
    (XO (XI (XI (XO (XI (XI (XO (XO (XO (XI (XI (XI (XI (XI (XI (XI (XO (XO
    (XI (XO (XO (XO (XO (XI (XO (XI (XO (XO (XI (XO (XI (XI (XO (XO (XO (XO
    (XI (XI (XO (XI (XO (XI (XO (XI (XI
    XH)))))))))))))))))))))))))))))))))))))))))))))))))))))))))))))))) :: ((Npos
    (XI (XI (XI (XO (XO (XO (XI (XO (XI (XO (XI (XO (XO (XI (XO (XI (XO (XO
    (XI (XI (XI (XI (XO (XI (XI (XI (XI (XI (XO (XI (XI (XI (XI (XI (XO (XO
    (XO (XO (XI (XI (XO (XO (XO (XI (XO (XI (XI (XO (XO (XI (XI (XI (XI (XO
    (XI (XI (XO (XO (XO (XO (XO (XO
    XH))))))))))))))))))))))))))))))))))))))))))))))))))))))))))))))) :: ((Npos
    (XI (XO (XO (XI (XO (XO (XO (XI (XO (XO (XI (XO (XO (XI (XI (XI (XO (XO
    (XO (XO (XI (XI (XO (XO (XO (XI (XI (XI (XI (XI (XO (XO (XO (XO (XO (XI
    (XI (XO (XO (XO (XO (XO (XO (XO (XO (XO (XO (XI (XO (XI (XO (XI (XO (XO
    (XO (XO (XI (XI (XO (XI (XI (XO
    XH))))))))))))))))))))))))))))))))))))))))))))))))))))))))))))))) :: ((Npos
    (XO (XO (XI (XI (XI (XO (XI (XO (XO (XI (XO (XO (XI (XO (XI (XI (XO (XO
    (XO (XI (XI (XO (XI (XO (XI (XI (XO (XI (XO (XO (XO (XO (XO (XI (XO (XO
    (XO (XI (XO (XI (XI (XO (XO (XO (XO (XO (XI (XO (XO (XI (XO (XI (XO (XO
    (XO (XI (XO (XI (XO (XI (XI (XO (XI
    XH)))))))))))))))))))))))))))))))))))))))))))))))))))))))))))))))) :: ((Npos
    (XO (XI (XI (XI (XO (XO (XO (XO (XI (XI (XO (XO (XI (XO (XO (XI (XO (XI
    (XO (XO (XI (XO (XI (XI (XI (XI (XO (XO (XO (XO (XI (XO (XI (XO (XO (XO
    (XO (XI (XO (XO (XI (XO (XO (XI (XI (XO (XO (XO (XO (XI (XI (XO (XO (XO
    (XO (XI (XI (XI (XI (XI (XI (XI (XO
    XH)))))))))))))))))))))))))))))))))))))))))))))))))))))))))))))))) :: ((Npos
    (XO (XO (XI (XI (XI (XO (XO (XI (XO (XI (XO (XO (XI (XO (XI (XO (XI (XI
    (XI (XI (XI (XO (XI (XO (XI (XI (XO (XI (XI (XO (XO (XI (XI (XO (XI (XO
    (XO (XO (XI (XO (XO (XO (XO (XO (XO (XO (XI (XO (XI (XO (XI (XI (XO (XI
    (XI (XO (XO (XI (XI (XI (XI (XO (XO
    XH)))))))))))))))))))))))))))))))))))))))))))))))))))))))))))))))) :: ((Npos
    (XI (XO (XI (XO (XO (XO (XI (XI (XO (XI (XI (XI (XO (XO (XI (XI (XI (XO
    (XI (XI (XO (XO (XO (XI (XI (XI (XO (XI (XI (XI (XI (XO (XO (XI (XI (XI
    (XI (XI (XO (XO (XO (XO (XO (XI (XI (XO (XO (XI (XI (XI (XO (XI (XI (XI
    (XI (XI (XI (XI (XI (XO (XO (XO
    XH))))))))))))))))))))))))))))))))))))))))))))))))))))))))))))))) :: ((Npos
    (XI (XI (XO (XI (XO (XI (XO (XI (XO (XO (XI (XI (XO (XI (XO (XO (XO (XO
    (XO (XI (XI (XO (XO (XO (XO (XI (XO (XI (XO (XI (XO (XO (XI (XO (XI (XO
    (XI (XO (XO (XO (XO (XO (XI (XI (XI (XI (XO (XO (XI (XO (XO (XI (XO (XI
    (XO (XI (XI (XI (XI (XO (XO (XI (XO
    XH)))))))))))))))))))))))))))))))))))))))))))))))))))))))))))))))) :: ((Npos
    (XO (XO (XI (XO (XO (XI (XO (XI (XO (XO (XI (XO (XI (XI (XI (XI (XI (XI
    (XO (XO (XI (XI (XI (XI (XO (XO (XO (XO (XI (XO (XI (XI (XI (XO (XI (XI
    (XO (XO (XO (XO (XI (XI (XI (XO (XI (XO (XO (XI (XI (XI (XO (XO (XI (XI
    (XI (XI (XO (XO (XI (XO (XI (XO (XI
    XH)))))))))))))))))))))))))))))))))))))))))))))))))))))))))))))))) :: ((Npos
    (XO (XO (XI (XI (XO (XO (XO (XO (XI (XO (XI (XO (XO (XI (XI (XO (XO (XO
    (XO (XO (XI (XI (XO (XI (XO (XI (XI (XO (XO (XO (XI (XI (XI (XI (XI (XO
    (XI (XO (XO (XI (XI (XI (XI (XI (XI (XO (XI (XO (XO (XI (XO (XI (XI (XO
    (XI (XI (XI (XO (XI (XO (XI (XI (XO
    XH)))))))))))))))))))))))))))))))))))))))))))))))))))))))))))))))) :: ((Npos
    (XI (XO (XO (XI (XO (XO (XO (XO (XO (XO (XO (XO (XI (XO (XI (XO (XI (XI
    (XI (XI (XI (XI (XO (XI (XO (XO (XI (XO (XI (XO (XO (XO (XO (XO (XI (XO
    (XO (XO (XO (XI (XI (XI (XI (XO (XI (XI (XI (XO (XI (XO (XO (XO (XO (XI
    (XI (XO (XO (XI (XO (XI (XO (XI (XI
    XH)))))))))))))))))))))))))))))))))))))))))))))))))))))))))))))))) :: ((Npos
    (XI (XO (XI (XO (XI (XO (XO (XO (XI (XO (XO (XO (XO (XO (XI (XO (XI (XO
    (XI (XI (XI (XI (XO (XO (XI (XI (XI (XO (XO (XI (XO (XO (XO (XO (XI (XI
    (XI (XO (XI (XI (XI (XO (XI (XI (XI (XI (XI (XI (XO (XI (XI (XI (XO (XO
    (XI (XO (XO (XI (XO (XI (XI (XI
    XH))))))))))))))))))))))))))))))))))))))))))))))))))))))))))))))) :: ((Npos
    (XO (XO (XI (XO (XO (XI (XI (XO (XI (XO (XO (XI (XO (XO (XO (XO (XI (XO
    (XI (XO (XI (XO (XO (XO (XI (XI (XI (XI (XI (XO (XI (XO (XO (XO (XO (XI
    (XO (XO (XI (XI (XO (XO (XI (XO (XO (XI (XI (XO (XO (XI (XO (XI (XI (XO
    (XO (XO (XO (XI (XI (XO (XI (XI (XO
    XH)))))))))))))))))))))))))))))))))))))))))))))))))))))))))))))))) :: ((Npos
    (XO (XI (XI (XO (XO (XI (XI (XI (XI (XO (XI (XO (XI (XO (XO (XO (XI (XO
    (XI (XO (XO (XI (XI (XI (XI (XO (XO (XI (XO (XO (XO (XI (XI (XO (XI (XO
    (XI (XI (XI (XO (XO (XI (XI (XO (XO (XI (XI (XO (XO (XO (XO (XI (XO (XO
    (XO (XI (XI (XI (XI (XO (XO (XI (XO
    XH)))))))))))))))))))))))))))))))))))))))))))))))))))))))))))))))) :: ((Npos
    (XI (XO (XI (XO (XO (XI (XI (XI (XO (XI (XO (XO (XO (XI (XI (XO (XO (XI
    (XI (XO (XO (XO (XO (XI (XO (XO (XI (XI (XO (XO (XI (XI (XO (XO (XO (XO
    (XO (XO (XI (XI (XI (XO (XO (XO (XO (XI (XO (XI (XO (XO (XO (XI (XO (XO
    (XI (XO (XI (XO (XI (XI (XI (XI (XI
    XH)))))))))))))))))))))))))))))))))))))))))))))))))))))))))))))))) :: ((Npos
    (XI (XI (XO (XI (XI (XI (XO (XI (XI (XO (XO (XO (XO (XO (XO (XO (XO (XO
    (XI (XI (XO (XI (XI (XO (XO (XO (XI (XO (XI (XO (XO (XO (XO (XI (XI (XO
    (XO (XI (XO (XO (XI (XO (XI (XI (XI (XI (XI (XI (XO (XI (XI (XI (XI (XO
    (XO (XI (XI (XI (XI (XO (XO (XO (XO
    XH)))))))))))))))))))))))))))))))))))))))))))))))))))))))))))))))) :: ((Npos
    (XO (XI (XO (XO (XI (XO (XI (XO (XI (XI (XO (XI (XI (XO (XI (XO (XO (XO
    (XO (XI (XI (XO (XI (XI (XI (XI (XI (XI (XI (XI (XI (XI (XI (XO (XO (XI
    (XI (XI (XI (XI (XI (XO (XO (XO (XI (XO (XO (XO (XI (XI (XO (XI (XI (XO
    (XO (XI (XI (XI (XO (XI (XI (XO (XO
    XH)))))))))))))))))))))))))))))))))))))))))))))))))))))))))))))))) :: ((Npos
    (XI (XI (XI (XO (XI (XO (XI (XO (XO (XI (XO (XO (XI (XI (XI (XO (XI (XI
    (XO (XO (XI (XI (XO (XI (XO (XO (XO (XI (XI (XI (XO (XO (XO (XO (XO (XO
    (XO (XI (XI (XI (XI (XO (XI (XI (XI (XI (XO (XI (XI (XI (XO (XI (XI (XO
    (XI (XI (XI (XI (XI (XO (XO (XI (XI
    XH)))))))))))))))))))))))))))))))))))))))))))))))))))))))))))))))) :: ((Npos
    (XO (XO (XI (XI (XO (XI (XI (XI (XI (XO (XI (XO (XO (XO (XI (XI (XI (XI
    (XI (XI (XI (XI (XI (XO (XO (XO (XI (XI (XO (XO (XO (XI (XO (XO (XI (XI
    (XO (XI (XO (XI (XI (XI (XI (XI (XO (XO (XO (XI (XO (XO (XO (XI (XO (XI
    (XI (XO (XO (XI (XI (XO (XI
    XH)))))))))))))))))))))))))))))))))))))))))))))))))))))))))))))) :: ((Npos
    (XI (XO (XO (XO (XI (XI (XI (XI (XO (XI (XI (XI (XI (XO (XI (XI (XO (XO
    (XO (XO (XI (XO (XO (XO (XO (XO (XO (XI (XO (XI (XI (XO (XI (XI (XI (XO
    (XO (XO (XO (XO (XI (XI (XI (XI (XO (XI (XI (XO (XO (XI (XI (XO (XI (XI
    (XI (XI (XI (XI (XI (XI (XI (XI (XI
    XH)))))))))))))))))))))))))))))))))))))))))))))))))))))))))))))))) :: ((Npos
    (XI (XO (XO (XO (XO (XO (XI (XO (XO (XO (XI (XO (XI (XO (XI (XI (XI (XI
    (XI (XO (XO (XO (XI (XI (XO (XO (XO (XO (XO (XI (XO (XO (XO (XI (XI (XO
    (XI (XI (XI (XI (XI (XI (XO (XO (XO (XI (XI (XO (XO (XO (XI (XO (XO (XO
    (XI (XO (XO (XO (XO (XI (XI (XO
    XH))))))))))))))))))))))))))))))))))))))))))))))))))))))))))))))) :: ((Npos
    (XO (XI (XO (XO (XI (XO (XI (XO (XI (XO (XI (XI (XO (XO (XI (XI (XI (XI
    (XI (XI (XI (XO (XI (XI (XI (XO (XO (XI (XO (XO (XO (XO (XO (XI (XI (XO
    (XI (XO (XO (XI (XI (XI (XI (XO (XI (XI (XI (XI (XI (XO (XO (XI (XO (XI
    (XO (XO (XI (XI (XO (XO (XI (XO (XI
    XH)))))))))))))))))))))))))))))))))))))))))))))))))))))))))))))))) :: ((Npos
    (XO (XO (XO (XO (XI (XI (XO (XO (XI (XO (XO (XI (XO (XI (XO (XI (XO (XO
    (XO (XI (XI (XI (XO (XI (XI (XI (XO (XO (XO (XO (XO (XI (XI (XO (XI (XO
    (XO (XO (XI (XI (XI (XO (XO (XI (XO (XI (XO (XI (XO (XI (XI (XO (XI (XO
    (XO (XO (XO (XI (XI (XI (XI (XI
    XH))))))))))))))))))))))))))))))))))))))))))))))))))))))))))))))) :: ((Npos
    (XO (XO (XO (XO (XI (XI (XI (XO (XO (XO (XO (XI (XO (XI (XO (XO (XO (XO
    (XI (XI (XI (XI (XO (XO (XO (XO (XI (XI (XI (XI (XI (XO (XI (XI (XI (XO
    (XO (XI (XI (XI (XO (XO (XO (XI (XO (XI (XI (XO (XI (XO (XO (XI (XI (XO
    (XO (XI (XI (XI (XO (XI (XO (XI (XO
    XH)))))))))))))))))))))))))))))))))))))))))))))))))))))))))))))))) :: ((Npos
    (XO (XI (XI (XO (XI (XO (XO (XO (XO (XI (XO (XO (XO (XO (XO (XI (XO (XI
    (XI (XO (XO (XO (XI (XO (XO (XI (XO (XI (XO (XI (XI (XI (XO (XO (XO (XI
    (XO (XO (XO (XI (XO (XI (XO (XO (XI (XI (XO (XI (XI (XO (XO (XI (XO (XO
    (XI (XI (XO (XO (XI (XO (XO (XI
    XH))))))))))))))))))))))))))))))))))))))))))))))))))))))))))))))) :: ((Npos
    (XI (XO (XI (XI (XI (XI (XO (XI (XI (XO (XI (XI (XI (XO (XO (XI (XO (XI
    (XI (XI (XI (XI (XO (XI (XI (XI (XO (XO (XI (XI (XI (XO (XI (XO (XO (XI
    (XO (XI (XO (XO (XO (XI (XO (XO (XO (XO (XO (XO (XO (XO (XI (XI (XO (XO
    (XI (XI (XI (XO (XI (XI (XO (XI
    XH))))))))))))))))))))))))))))))))))))))))))))))))))))))))))))))) :: ((Npos
    (XO (XI (XI (XO (XI (XO (XI (XI (XI (XO (XI (XO (XO (XO (XI (XO (XI (XI
    (XI (XI (XO (XO (XO (XI (XI (XO (XO (XO (XI (XI (XO (XI (XO (XI (XO (XO
    (XI (XO (XO (XI (XI (XI (XO (XI (XI (XI (XO (XI (XI (XO (XI (XI (XO (XI
    (XO (XO (XO (XI (XI (XO (XI (XO (XO
    XH)))))))))))))))))))))))))))))))))))))))))))))))))))))))))))))))) :: ((Npos
    (XO (XI (XI (XO (XO (XI (XO (XO (XI (XO (XO (XI (XI (XI (XI (XI (XI (XI
    (XO (XI (XI (XO (XO (XI (XI (XI (XO (XI (XO (XO (XI (XI (XO (XI (XI (XI
    (XO (XI (XO (XI (XI (XI (XI (XO (XO (XO (XO (XO (XI (XI (XO (XO (XI (XO
    (XI (XI (XI (XO (XO (XI (XO (XO
    XH))))))))))))))))))))))))))))))))))))))))))))))))))))))))))))))) :: ((Npos
    (XI (XO (XO (XI (XI (XO (XI (XI (XI (XO (XI (XI (XO (XO (XI (XI (XI (XI
    (XI (XI (XI (XO (XO (XI (XO (XO (XO (XI (XO (XI (XI (XI (XO (XO (XO (XI
    (XI (XI (XI (XO (XO (XI (XI (XI (XI (XO (XO (XI (XO (XO (XI (XI (XO (XI
    (XI (XI (XO (XI (XO (XO (XO (XO (XI
    XH)))))))))))))))))))))))))))))))))))))))))))))))))))))))))))))))) :: ((Npos
    (XO (XI (XO (XO (XI (XO (XI (XO (XI (XO (XO (XI (XI (XI (XI (XO (XO (XO
    (XI (XI (XO (XO (XI (XI (XO (XO (XO (XO (XO (XO (XI (XI (XI (XO (XO (XI
    (XI (XI (XO (XI (XI (XO (XO (XO (XO (XI (XO (XI (XI (XO (XO (XI (XO (XO
    (XO (XI (XO (XI (XI (XI (XI
    XH)))))))))))))))))))))))))))))))))))))))))))))))))))))))))))))) :: ((Npos
    (XO (XO (XO (XI (XO (XI (XI (XI (XI (XO (XO (XI (XI (XI (XO (XI (XO (XI
    (XO (XO (XI (XI (XI (XO (XI (XO (XI (XI (XO (XO (XI (XO (XO (XI (XO (XI
    (XO (XI (XI (XI (XO (XI (XO (XI (XI (XI (XI (XO (XO (XI (XI (XI (XO (XI
    (XI (XO (XO (XI (XO (XI (XI (XO (XI
    XH)))))))))))))))))))))))))))))))))))))))))))))))))))))))))))))))) :: ((Npos
    (XI (XO (XO (XO (XI (XO (XO (XI (XO (XO (XI (XI (XI (XO (XO (XI (XI (XI
    (XO (XO (XO (XO (XI (XI (XO (XO (XI (XO (XI (XI (XO (XO (XO (XO (XI (XO
    (XI (XO (XO (XI (XO (XI (XO (XO (XO (XI (XI (XI (XI (XI (XO (XI (XO (XO
    (XI (XI (XI (XO (XI (XI (XI (XO
    XH))))))))))))))))))))))))))))))))))))))))))))))))))))))))))))))) :: ((Npos
    (XO (XI (XO (XI (XO (XI (XI (XI (XO (XI (XO (XI (XO (XI (XI (XI (XO (XO
    (XO (XO (XO (XI (XI (XO (XO (XI (XO (XI (XI (XO (XI (XI (XI (XI (XO (XI
    (XO (XI (XO (XO (XI (XO (XO (XO (XI (XI (XI (XI (XI (XO (XO (XI (XO (XI
    (XO (XI (XI (XO (XO (XO (XO (XI
    XH))))))))))))))))))))))))))))))))))))))))))))))))))))))))))))))) :: ((Npos
    (XO (XI (XO (XO (XO (XI (XO (XO (XI (XO (XO (XI (XI (XO (XI (XI (XO (XO
    (XO (XO (XO (XO (XI (XO (XI (XO (XI (XI (XO (XO (XO (XI (XO (XO (XO (XO
    (XO (XI (XO (XO (XO (XO (XI (XI (XI (XO (XI (XI (XO (XO (XO (XI (XO (XI
    (XI (XI (XI (XI (XO (XO (XO (XO (XO
    XH)))))))))))))))))))))))))))))))))))))))))))))))))))))))))))))))) :: ((Npos
    (XO (XI (XI (XO (XO (XI (XI (XO (XI (XO (XO (XO (XI (XI (XO (XI (XO (XI
    (XI (XO (XO (XO (XO (XO (XI (XI (XI (XO (XI (XI (XO (XI (XI (XI (XI (XI
    (XI (XO (XI (XO (XO (XI (XI (XI (XI (XI (XI (XI (XO (XI (XI (XI (XI (XO
    (XO (XO (XO (XO (XO (XO (XO
    XH)))))))))))))))))))))))))))))))))))))))))))))))))))))))))))))) :: ((Npos
    (XI (XI (XI (XO (XO (XI (XI (XI (XO (XO (XI (XO (XO (XO (XO (XO (XI (XI
    (XO (XO (XO (XI (XO (XI (XO (XI (XO (XI (XI (XO (XO (XO (XO (XI (XI (XI
    (XO (XI (XI (XI (XO (XO (XO (XI (XI (XO (XO (XI (XO (XO (XO (XI (XI (XI
    (XO (XI (XI (XI (XI (XI (XI (XO (XI
    XH)))))))))))))))))))))))))))))))))))))))))))))))))))))))))))))))) :: ((Npos
    (XO (XI (XO (XI (XO (XO (XI (XI (XO (XO (XO (XI (XO (XO (XO (XO (XO (XO
    (XI (XI (XI (XO (XI (XO (XI (XO (XO (XO (XI (XO (XO (XI (XO (XI (XO (XI
    (XI (XI (XI (XI (XI (XO (XI (XO (XI (XO (XI (XO (XO (XO (XO (XO (XI (XI
    (XI (XI (XO (XI (XO (XO (XI (XO (XI
    XH)))))))))))))))))))))))))))))))))))))))))))))))))))))))))))))))) :: ((Npos
    (XO (XI (XO (XO (XI (XI (XI (XI (XO (XI (XI (XO (XO (XO (XO (XI (XI (XI
    (XO (XI (XI (XO (XI (XO (XI (XO (XI (XO (XI (XO (XI (XI (XI (XO (XI (XI
    (XO (XO (XO (XI (XI (XO (XI (XO (XO (XO (XO (XI (XO (XO (XO (XO (XI (XO
    (XO (XO (XO (XO (XO (XO (XO (XO
    XH))))))))))))))))))))))))))))))))))))))))))))))))))))))))))))))) :: ((Npos
    (XI (XO (XI (XI (XI (XI (XI (XO (XO (XI (XO (XO (XI (XO (XI (XO (XI (XO
    (XI (XO (XI (XO (XO (XI (XO (XI (XO (XO (XI (XI (XI (XI (XO (XI (XI (XO
    (XI (XI (XO (XI (XI (XO (XO (XO (XO (XI (XI (XI (XO (XI (XI (XI (XO (XO
    (XI (XO (XO (XI (XI (XO (XO (XI
    XH))))))))))))))))))))))))))))))))))))))))))))))))))))))))))))))) :: ((Npos
    (XO (XI (XO (XO (XO (XI (XI (XO (XI (XO (XI (XI (XI (XI (XO (XO (XO (XO
    (XO (XI (XI (XI (XI (XI (XO (XO (XI (XO (XI (XO (XO (XO (XO (XO (XI (XI
    (XI (XO (XI (XO (XO (XI (XI (XI (XI (XI (XO (XO (XO (XO (XI (XO (XI (XO
    (XO (XI (XI (XI (XI (XI (XO (XO (XO
    XH)))))))))))))))))))))))))))))))))))))))))))))))))))))))))))))))) :: ((Npos
    (XO (XI (XI (XI (XO (XO (XI (XI (XI (XI (XO (XO (XO (XI (XO (XI (XI (XO
    (XO (XI (XI (XI (XO (XO (XO (XO (XI (XO (XO (XO (XO (XO (XI (XI (XO (XI
    (XO (XI (XI (XO (XI (XO (XI (XO (XO (XO (XO (XO (XO (XO (XI (XO (XO (XI
    (XI (XI (XI (XO (XI (XI (XI (XI (XO
    XH)))))))))))))))))))))))))))))))))))))))))))))))))))))))))))))))) :: ((Npos
    (XI (XI (XI (XO (XI (XI (XI (XO (XI (XI (XI (XO (XO (XI (XI (XI (XI (XO
    (XI (XI (XO (XO (XI (XO (XO (XI (XO (XI (XI (XO (XI (XO (XO (XO (XO (XI
    (XI (XO (XI (XO (XI (XO (XI (XI (XI (XO (XI (XI (XO (XO (XO (XO (XO (XI
    (XI (XO (XO (XO (XI (XI (XO (XI (XI
    XH)))))))))))))))))))))))))))))))))))))))))))))))))))))))))))))))) :: ((Npos
    (XI (XI (XO (XI (XI (XO (XO (XI (XI (XI (XI (XO (XO (XO (XO (XO (XI (XO
    (XI (XO (XI (XI (XO (XI (XI (XI (XO (XI (XI (XO (XI (XI (XI (XO (XI (XO
    (XI (XI (XO (XO (XI (XI (XO (XI (XO (XI (XO (XO (XO (XI (XI (XO (XI (XI
    (XI (XO (XI (XO (XI (XI (XO (XI
    XH))))))))))))))))))))))))))))))))))))))))))))))))))))))))))))))) :: ((Npos
    (XI (XI (XI (XI (XO (XI (XO (XI (XO (XO (XI (XI (XI (XO (XI (XO (XO (XO
    (XI (XO (XO (XI (XO (XO (XI (XO (XO (XI (XO (XO (XI (XI (XI (XI (XO (XO
    (XI (XI (XO (XO (XI (XO (XI (XI (XO (XI (XI (XI (XO (XO (XI (XI (XI (XO
    (XI (XI (XI (XO (XO (XO (XO (XI (XO
    XH)))))))))))))))))))))))))))))))))))))))))))))))))))))))))))))))) :: ((Npos
    (XO (XO (XI (XO (XO (XI (XI (XI (XO (XI (XO (XI (XI (XI (XO (XI (XO (XO
    (XI (XI (XO (XO (XI (XO (XO (XI (XO (XI (XI (XI (XO (XI (XO (XO (XO (XO
    (XI (XI (XI (XO (XI (XO (XO (XI (XI (XO (XO (XI (XI (XO (XO (XO (XI (XI
    (XO (XI (XI (XI (XI (XI (XO (XO (XI
    XH)))))))))))))))))))))))))))))))))))))))))))))))))))))))))))))))) :: [])))))))))))))))))))))))))))))))))))))))))))))))))))))))))))))))))))))))))))))))))))))))))))))))))))))))))))))))))))))))))))))))))))))))))))))))))))))))))))))))))))))))))))))))))))))))))))))))))))))))))))))))))))))))))))))))))))))))))))))))))))))))))))))))))))))))))))))))))))))))))))))))))))))))))))))))))))))))))))))))))))))))))))))))))))))))))))))))))))))))))))))))))))))))))))))))))))))))))))))))))))))))))))))))))))))))))))))))))))))))))))))))))))))))))))))))))))))))))))))))))))))))))))))))))))))))))))))))))))))))))))))))))))))))))))))))))))))))))))))))))))))))))))))))))))))))))))))))))))))))))))))))))))))))))))))))))))))))))))))))))))))))))))))))))))))))))))))))))))))))))))))))))))))))))))))))))))))))))))))))))))))))))))))))))))))))))))))))))))))))))))))))

(** val castle_zobrist_tbl : n list **)

let castle_zobrist_tbl =
  (Npos (XO (XO (XI (XI (XI (XO (XO (XO (XI (XI (XI (XO (XI (XO (XI (XO (XO
    (XI (XO (XO (XO (XO (XO (XI (XO (XI (XO (XI (XO (XI (XO (XI (XO (XI (XI
    (XI (XO (XI (XO (XI (XO (XI (XO (XO (XO (XO (XO (XO (XO (XI (XO (XI (XO
    (XO (XO (XO (XO (XI (XO (XO (XO
    XH)))))))))))))))))))))))))))))))))))))))))))))))))))))))))))))) :: ((Npos
    (XI (XI (XO (XI (XO (XO (XI (XI (XI (XI (XO (XI (XO (XO (XI (XO (XO (XO
    (XI (XO (XI (XO (XO (XI (XI (XO (XI (XO (XO (XI (XI (XO (XI (XI (XI (XO
    (XO (XI (XI (XI (XO (XI (XO (XO (XO (XO (XO (XI (XO (XI (XI (XI (XO (XI
    (XO (XI (XI (XI (XO
    XH)))))))))))))))))))))))))))))))))))))))))))))))))))))))))))) :: ((Npos
    (XI (XO (XO (XO (XO (XI (XI (XO (XO (XI (XI (XO (XO (XO (XI (XO (XI (XO
    (XI (XI (XO (XO (XO (XO (XO (XI (XO (XI (XI (XO (XI (XO (XO (XO (XI (XI
    (XI (XO (XO (XO (XI (XO (XI (XO (XI (XI (XO (XO (XI (XO (XI (XO (XO (XI
    (XO (XO (XI (XI (XI (XO (XI
    XH)))))))))))))))))))))))))))))))))))))))))))))))))))))))))))))) :: ((Npos
    (XI (XI (XI (XI (XI (XO (XO (XI (XI (XO (XI (XI (XO (XO (XI (XO (XO (XO
    (XO (XI (XO (XI (XI (XO (XO (XO (XI (XI (XO (XI (XI (XO (XO (XI (XO (XO
    (XO (XO (XI (XI (XI (XI (XI (XI (XO (XI (XO (XO (XI (XI (XO (XO (XO (XI
    (XI (XI (XO (XO (XO (XO (XO (XO (XI
    XH)))))))))))))))))))))))))))))))))))))))))))))))))))))))))))))))) :: ((Npos
    (XI (XI (XO (XO (XO (XO (XO (XO (XI (XI (XI (XO (XI (XI (XO (XI (XO (XO
    (XO (XI (XI (XO (XO (XI (XO (XO (XO (XI (XO (XO (XI (XO (XI (XO (XI (XI
    (XI (XI (XO (XO (XO (XI (XO (XO (XO (XO (XO (XI (XI (XI (XI (XO (XI (XO
    (XO (XO (XO (XI (XI (XO (XO
    XH)))))))))))))))))))))))))))))))))))))))))))))))))))))))))))))) :: ((Npos
    (XO (XI (XI (XO (XI (XI (XI (XO (XO (XO (XI (XO (XO (XO (XO (XO (XI (XI
    (XO (XI (XO (XI (XO (XI (XI (XI (XI (XO (XO (XI (XI (XO (XI (XI (XO (XI
    (XO (XI (XI (XI (XO (XO (XO (XI (XI (XI (XI (XO (XO (XO (XO (XO (XI (XO
    (XO (XO (XO (XO (XO (XO (XI (XO
    XH))))))))))))))))))))))))))))))))))))))))))))))))))))))))))))))) :: ((Npos
    (XO (XO (XO (XI (XI (XI (XI (XO (XI (XO (XO (XO (XO (XO (XI (XO (XI (XO
    (XI (XO (XI (XI (XO (XI (XI (XI (XO (XO (XO (XI (XI (XI (XI (XO (XO (XI
    (XO (XI (XO (XO (XI (XI (XI (XO (XI (XI (XO (XO (XI (XI (XO (XI (XI (XO
    (XI (XO (XO (XI (XI (XO (XO (XO
    XH))))))))))))))))))))))))))))))))))))))))))))))))))))))))))))))) :: ((Npos
    (XI (XI (XO (XI (XI (XO (XO (XO (XI (XI (XO (XI (XI (XO (XO (XI (XI (XO
    (XO (XI (XI (XO (XI (XI (XO (XO (XI (XI (XO (XI (XO (XI (XI (XI (XO (XO
    (XI (XO (XI (XO (XI (XO (XO (XO (XI (XI (XO (XI (XO (XI (XO (XI (XO (XI
    (XI (XI (XI (XO (XO (XI
    XH))))))))))))))))))))))))))))))))))))))))))))))))))))))))))))) :: ((Npos
    (XO (XI (XO (XO (XI (XO (XI (XI (XI (XI (XI (XO (XI (XI (XO (XI (XI (XO
    (XI (XO (XI (XO (XI (XI (XO (XI (XI (XO (XI (XO (XI (XI (XO (XO (XO (XO
    (XO (XO (XO (XO (XO (XI (XI (XO (XO (XI (XO (XI (XO (XO (XO (XI (XI (XO
    (XO (XI (XO (XO (XI
    XH)))))))))))))))))))))))))))))))))))))))))))))))))))))))))))) :: ((Npos
    (XO (XI (XO (XO (XI (XO (XO (XO (XO (XO (XI (XO (XI (XO (XO (XO (XI (XO
    (XO (XI (XO (XO (XI (XO (XI (XI (XO (XI (XO (XI (XI (XI (XI (XI (XI (XO
    (XO (XI (XI (XI (XO (XO (XO (XO (XI (XI (XO (XO (XI (XI (XO (XI (XO (XI
    (XI XH)))))))))))))))))))))))))))))))))))))))))))))))))))))))) :: ((Npos
    (XO (XI (XO (XI (XI (XO (XO (XO (XI (XO (XO (XO (XI (XO (XI (XI (XI (XO
    (XI (XO (XI (XO (XO (XI (XO (XI (XO (XO (XO (XO (XO (XO (XO (XO (XO (XI
    (XO (XI (XO (XO (XO (XI (XO (XI (XO (XI (XO (XI (XO (XO (XI (XO (XO (XO
    (XI (XO (XO (XI (XI (XI (XI (XO (XO
    XH)))))))))))))))))))))))))))))))))))))))))))))))))))))))))))))))) :: ((Npos
    (XO (XI (XI (XO (XO (XO (XO (XI (XO (XO (XO (XO (XI (XI (XI (XO (XI (XI
    (XI (XI (XI (XO (XO (XI (XI (XI (XI (XI (XO (XI (XI (XO (XI (XO (XO (XI
    (XO (XI (XI (XO (XI (XI (XO (XI (XI (XO (XI (XO (XI (XI (XO (XO (XO (XO
    (XO (XI (XO (XO (XI (XO (XO (XI (XI
    XH)))))))))))))))))))))))))))))))))))))))))))))))))))))))))))))))) :: ((Npos
    (XI (XO (XO (XI (XI (XI (XO (XO (XO (XO (XO (XI (XO (XO (XO (XI (XO (XO
    (XO (XO (XO (XI (XI (XI (XO (XI (XO (XI (XO (XI (XO (XO (XO (XO (XI (XO
    (XI (XO (XO (XO (XO (XO (XI (XI (XI (XO (XI (XI (XO (XO (XO (XO (XO (XI
    (XO (XO (XI (XO (XI (XI (XI (XI
    XH))))))))))))))))))))))))))))))))))))))))))))))))))))))))))))))) :: ((Npos
    (XO (XI (XI (XI (XO (XO (XI (XO (XO (XI (XO (XI (XO (XO (XI (XO (XO (XO
    (XI (XI (XI (XO (XI (XI (XO (XI (XO (XO (XO (XI (XI (XI (XO (XO (XO (XI
    (XI (XO (XO (XI (XO (XI (XO (XO (XO (XI (XO (XI (XO (XO (XO (XI (XI (XI
    (XI (XI (XO (XI (XO (XI (XI (XO (XO
    XH)))))))))))))))))))))))))))))))))))))))))))))))))))))))))))))))) :: ((Npos
    (XO (XO (XO (XI (XO (XI (XO (XO (XO (XO (XI (XI (XI (XI (XO (XO (XI (XO
    (XO (XI (XO (XO (XO (XI (XO (XI (XI (XI (XO (XI (XI (XI (XO (XI (XI (XI
    (XI (XI (XI (XI (XO (XO (XO (XI (XO (XO (XO (XO (XI (XO (XI (XO (XI (XO
    (XI (XI (XO (XI (XO (XO (XO
    XH)))))))))))))))))))))))))))))))))))))))))))))))))))))))))))))) :: ((Npos
    (XI (XO (XI (XO (XO (XI (XI (XI (XO (XI (XO (XO (XO (XI (XO (XI (XO (XO
    (XI (XO (XO (XI (XI (XI (XI (XI (XI (XI (XI (XO (XO (XO (XI (XO (XI (XO
    (XO (XO (XO (XO (XO (XO (XI (XI (XO (XI (XO (XI (XI (XO (XI (XI (XI (XO
    (XI (XO (XO (XO (XI (XI (XI (XI
    XH))))))))))))))))))))))))))))))))))))))))))))))))))))))))))))))) :: [])))))))))))))))

(** val ep_zobrist_tbl : n list **)

let ep_zobrist_tbl =
  (Npos (XO (XO (XO (XI (XO (XO (XI (XI (XI (XI (XO (XI (XI (XO (XI (XI (XI
    (XO (XI (XO (XO (XI (XO (XI (XI (XI (XO (XO (XI (XO (XI (XI (XI (XO (XI
    (XO (XI (XO (XI (XO (XI (XO (XO (XI (XI (XO (XO (XO (XI (XO (XI (XO (XO
    (XI (XO (XI (XI (XO (XO (XI (XI (XI (XO
    XH)))))))))))))))))))))))))))))))))))))))))))))))))))))))))))))))) :: ((Npos
    (XI (XO (XI (XI (XI (XI (XO (XI (XI (XI (XO (XI (XO (XO (XO (XI (XI (XO
    (XI (XO (XI (XI (XI (XI (XI (XI (XO (XI (XI (XI (XO (XI (XI (XI (XO (XO
    (XI (XO (XO (XI (XO (XI (XO (XI (XO (XO (XI (XI (XI (XI (XO (XO (XI (XI
    (XO (XI (XO (XI (XI (XI (XO (XI (XO
    XH)))))))))))))))))))))))))))))))))))))))))))))))))))))))))))))))) :: ((Npos
    (XO (XO (XO (XI (XO (XO (XO (XO (XI (XI (XI (XO (XO (XI (XI (XO (XO (XI
    (XI (XI (XO (XI (XO (XI (XI (XO (XI (XO (XI (XI (XO (XO (XI (XI (XO (XO
    (XI (XO (XI (XO (XO (XI (XI (XO (XI (XO (XI (XI (XI (XI (XO (XI (XI (XI
    (XO (XI (XO (XO (XI (XI (XI (XI (XI
    XH)))))))))))))))))))))))))))))))))))))))))))))))))))))))))))))))) :: ((Npos
    (XI (XO (XO (XI (XI (XI (XO (XI (XO (XO (XO (XI (XI (XI (XI (XO (XO (XO
    (XO (XO (XO (XO (XO (XI (XI (XO (XO (XO (XO (XO (XI (XI (XO (XI (XI (XI
    (XO (XO (XO (XI (XI (XO (XO (XO (XI (XO (XO (XI (XI (XO (XI (XO (XI (XO
    (XO (XI (XI (XI (XO (XO (XI (XI (XO
    XH)))))))))))))))))))))))))))))))))))))))))))))))))))))))))))))))) :: ((Npos
    (XI (XO (XO (XO (XO (XI (XO (XI (XI (XO (XO (XO (XO (XO (XI (XI (XI (XO
    (XI (XO (XO (XI (XO (XO (XI (XO (XI (XI (XO (XI (XI (XO (XO (XO (XI (XI
    (XO (XO (XI (XO (XI (XI (XI (XI (XO (XO (XI (XI (XO (XI (XO (XI (XI (XI
    (XO (XO (XI (XO (XO (XO (XO (XI (XO
    XH)))))))))))))))))))))))))))))))))))))))))))))))))))))))))))))))) :: ((Npos
    (XI (XI (XO (XI (XI (XI (XI (XO (XI (XO (XI (XI (XI (XO (XO (XO (XO (XI
    (XI (XO (XO (XO (XI (XI (XO (XI (XO (XI (XO (XI (XO (XO (XI (XI (XO (XO
    (XO (XI (XO (XO (XI (XI (XI (XI (XI (XO (XO (XI (XI (XO (XI (XI (XI (XO
    (XO (XI (XI (XO (XO (XI (XO (XI (XI
    XH)))))))))))))))))))))))))))))))))))))))))))))))))))))))))))))))) :: ((Npos
    (XI (XO (XO (XI (XI (XI (XI (XO (XO (XO (XI (XO (XI (XI (XI (XO (XO (XI
    (XI (XI (XO (XI (XI (XI (XI (XI (XO (XO (XI (XO (XO (XO (XI (XO (XO (XO
    (XO (XI (XO (XO (XI (XI (XI (XO (XI (XO (XO (XO (XO (XO (XI (XI (XI (XI
    (XI (XO (XI (XI (XI (XO (XO (XI (XI
    XH)))))))))))))))))))))))))))))))))))))))))))))))))))))))))))))))) :: ((Npos
    (XO (XO (XO (XI (XI (XI (XI (XI (XO (XO (XO (XO (XO (XI (XO (XI (XI (XI
    (XI (XI (XO (XI (XO (XO (XO (XO (XO (XO (XO (XO (XO (XI (XI (XI (XO (XI
    (XO (XO (XI (XO (XI (XO (XO (XO (XI (XO (XI (XO (XI (XO (XO (XI (XO (XO
    (XI (XI (XO (XI (XO (XI (XI (XI (XI
    XH)))))))))))))))))))))))))))))))))))))))))))))))))))))))))))))))) :: [])))))))

(** val turn_zobrist_tbl : n list **)

let turn_zobrist_tbl =
  (Npos (XO (XI (XI (XO (XI (XI (XO (XI (XO (XO (XI (XI (XI (XI (XI (XO (XI
    (XI (XI (XI (XO (XI (XO (XI (XI (XI (XO (XI (XI (XI (XI (XI (XO (XO (XO
    (XI (XI (XI (XI (XO (XI (XI (XI (XI (XI (XO (XO (XI (XO (XO (XO (XI (XO
    (XI (XO (XO (XO (XI (XO (XO (XI (XO (XI
    XH)))))))))))))))))))))))))))))))))))))))))))))))))))))))))))))))) :: ((Npos
    (XI (XO (XO (XO (XO (XO (XI (XO (XI (XI (XI (XI (XI (XO (XO (XO (XI (XI
    (XI (XI (XI (XI (XO (XI (XI (XI (XI (XI (XI (XI (XO (XI (XO (XI (XI (XI
    (XI (XO (XO (XI (XO (XO (XI (XI (XI (XI (XO (XO (XI (XO (XI (XI (XI (XI
    (XI (XO (XI (XO (XO (XO (XO
    XH)))))))))))))))))))))))))))))))))))))))))))))))))))))))))))))) :: [])

(** val mask64 : n **)

let mask64 =
  N.ones (Npos (XO (XO (XO (XO (XO (XO XH)))))))

(** val trunc64 : n -> n **)

let trunc64 x =
  N.coq_land x mask64

(** val not64 : n -> n **)

let not64 x =
  N.coq_lxor (trunc64 x) mask64

(** val shl64 : n -> n -> n **)

let shl64 x n0 =
  trunc64 (N.shiftl x n0)

(** val shr64 : n -> n -> n **)

let shr64 =
  N.shiftr

(** val bit : n -> n **)

let bit s =
  N.shiftl (Npos XH) s

(** val pos_tz : positive -> n **)

let rec pos_tz = function
| XO q -> N.succ (pos_tz q)
| _ -> N0

(** val tz64 : n -> n **)

let tz64 = function
| N0 -> Npos (XO (XO (XO (XO (XO (XO XH))))))
| Npos p -> pos_tz p

(** val pos_popcount : positive -> n **)

let rec pos_popcount = function
| XI q -> N.succ (pos_popcount q)
| XO q -> pos_popcount q
| XH -> Npos XH

(** val popcount : n -> n **)

let popcount = function
| N0 -> N0
| Npos p -> pos_popcount p

(** val byte_of : n -> n -> n **)

let byte_of x i =
  N.coq_land (N.shiftr x (N.mul (Npos (XO (XO (XO XH)))) i)) (Npos (XI (XI
    (XI (XI (XI (XI (XI XH))))))))

(** val bswap64 : n -> n **)

let bswap64 x =
  fold_left (fun acc i ->
    N.coq_lor acc
      (N.shiftl (byte_of x i)
        (N.mul (Npos (XO (XO (XO XH)))) (N.sub (Npos (XI (XI XH))) i))))
    (N0 :: ((Npos XH) :: ((Npos (XO XH)) :: ((Npos (XI XH)) :: ((Npos (XO (XO
    XH))) :: ((Npos (XI (XO XH))) :: ((Npos (XO (XI XH))) :: ((Npos (XI (XI
    XH))) :: [])))))))) N0

(** val sq_list : n list **)

let sq_list =
  N0 :: ((Npos XH) :: ((Npos (XO XH)) :: ((Npos (XI XH)) :: ((Npos (XO (XO
    XH))) :: ((Npos (XI (XO XH))) :: ((Npos (XO (XI XH))) :: ((Npos (XI (XI
    XH))) :: ((Npos (XO (XO (XO XH)))) :: ((Npos (XI (XO (XO XH)))) :: ((Npos
    (XO (XI (XO XH)))) :: ((Npos (XI (XI (XO XH)))) :: ((Npos (XO (XO (XI
    XH)))) :: ((Npos (XI (XO (XI XH)))) :: ((Npos (XO (XI (XI
    XH)))) :: ((Npos (XI (XI (XI XH)))) :: ((Npos (XO (XO (XO (XO
    XH))))) :: ((Npos (XI (XO (XO (XO XH))))) :: ((Npos (XO (XI (XO (XO
    XH))))) :: ((Npos (XI (XI (XO (XO XH))))) :: ((Npos (XO (XO (XI (XO
    XH))))) :: ((Npos (XI (XO (XI (XO XH))))) :: ((Npos (XO (XI (XI (XO
    XH))))) :: ((Npos (XI (XI (XI (XO XH))))) :: ((Npos (XO (XO (XO (XI
    XH))))) :: ((Npos (XI (XO (XO (XI XH))))) :: ((Npos (XO (XI (XO (XI
    XH))))) :: ((Npos (XI (XI (XO (XI XH))))) :: ((Npos (XO (XO (XI (XI
    XH))))) :: ((Npos (XI (XO (XI (XI XH))))) :: ((Npos (XO (XI (XI (XI
    XH))))) :: ((Npos (XI (XI (XI (XI XH))))) :: ((Npos (XO (XO (XO (XO (XO
    XH)))))) :: ((Npos (XI (XO (XO (XO (XO XH)))))) :: ((Npos (XO (XI (XO (XO
    (XO XH)))))) :: ((Npos (XI (XI (XO (XO (XO XH)))))) :: ((Npos (XO (XO (XI
    (XO (XO XH)))))) :: ((Npos (XI (XO (XI (XO (XO XH)))))) :: ((Npos (XO (XI
    (XI (XO (XO XH)))))) :: ((Npos (XI (XI (XI (XO (XO XH)))))) :: ((Npos (XO
    (XO (XO (XI (XO XH)))))) :: ((Npos (XI (XO (XO (XI (XO XH)))))) :: ((Npos
    (XO (XI (XO (XI (XO XH)))))) :: ((Npos (XI (XI (XO (XI (XO
    XH)))))) :: ((Npos (XO (XO (XI (XI (XO XH)))))) :: ((Npos (XI (XO (XI (XI
    (XO XH)))))) :: ((Npos (XO (XI (XI (XI (XO XH)))))) :: ((Npos (XI (XI (XI
    (XI (XO XH)))))) :: ((Npos (XO (XO (XO (XO (XI XH)))))) :: ((Npos (XI (XO
    (XO (XO (XI XH)))))) :: ((Npos (XO (XI (XO (XO (XI XH)))))) :: ((Npos (XI
    (XI (XO (XO (XI XH)))))) :: ((Npos (XO (XO (XI (XO (XI XH)))))) :: ((Npos
    (XI (XO (XI (XO (XI XH)))))) :: ((Npos (XO (XI (XI (XO (XI
    XH)))))) :: ((Npos (XI (XI (XI (XO (XI XH)))))) :: ((Npos (XO (XO (XO (XI
    (XI XH)))))) :: ((Npos (XI (XO (XO (XI (XI XH)))))) :: ((Npos (XO (XI (XO
    (XI (XI XH)))))) :: ((Npos (XI (XI (XO (XI (XI XH)))))) :: ((Npos (XO (XO
    (XI (XI (XI XH)))))) :: ((Npos (XI (XO (XI (XI (XI XH)))))) :: ((Npos (XO
    (XI (XI (XI (XI XH)))))) :: ((Npos (XI (XI (XI (XI (XI
    XH)))))) :: [])))))))))))))))))))))))))))))))))))))))))))))))))))))))))))))))

(** val elements : n -> n list **)

let elements x =
  filter (fun s -> N.testbit x s) sq_list

type color =
| White
| Black

type piece =
| Pawn
| Knight
| Bishop
| Rook
| Queen
| King

type side =
| KingSide
| QueenSide

(** val color_idx : color -> n **)

let color_idx = function
| White -> N0
| Black -> Npos XH

(** val piece_idx : piece -> n **)

let piece_idx = function
| Pawn -> N0
| Knight -> Npos XH
| Bishop -> Npos (XO XH)
| Rook -> Npos (XI XH)
| Queen -> Npos (XO (XO XH))
| King -> Npos (XI (XO XH))

(** val side_idx : side -> n **)

let side_idx = function
| KingSide -> N0
| QueenSide -> Npos XH

(** val opp0 : color -> color **)

let opp0 = function
| White -> Black
| Black -> White

(** val color_eqb : color -> color -> bool **)

let color_eqb a b =
  match a with
  | White -> (match b with
              | White -> true
              | Black -> false)
  | Black -> (match b with
              | White -> false
              | Black -> true)

(** val piece_eqb : piece -> piece -> bool **)

let piece_eqb a b =
  N.eqb (piece_idx a) (piece_idx b)

(** val promo_pieces : piece list **)

let promo_pieces =
  Queen :: (Rook :: (Bishop :: (Knight :: [])))

(** val file_of : n -> n **)

let file_of s =
  N.modulo s (Npos (XO (XO (XO XH))))

(** val rank_of : n -> n **)

let rank_of s =
  N.div s (Npos (XO (XO (XO XH))))

(** val mk_sq : n -> n -> n **)

let mk_sq f r =
  N.add (N.mul r (Npos (XO (XO (XO XH))))) f

type move = { m_src : n; m_dst : n; m_promo : piece option }

(** val opt_piece_eqb : piece option -> piece option -> bool **)

let opt_piece_eqb a b =
  match a with
  | Some x -> (match b with
               | Some y -> piece_eqb x y
               | None -> false)
  | None -> (match b with
             | Some _ -> false
             | None -> true)

(** val move_eqb : move -> move -> bool **)

let move_eqb a b =
  (&&) ((&&) (N.eqb a.m_src b.m_src) (N.eqb a.m_dst b.m_dst))
    (opt_piece_eqb a.m_promo b.m_promo)

(** val bb_empty : n **)

let bb_empty =
  N0

(** val bb_full : n **)

let bb_full =
  mask64

(** val from_pos : n -> n **)

let from_pos s =
  shl64 (Npos XH) s

(** val fIRST_FILE : n **)

let fIRST_FILE =
  Npos (XI (XO (XO (XO (XO (XO (XO (XO (XI (XO (XO (XO (XO (XO (XO (XO (XI
    (XO (XO (XO (XO (XO (XO (XO (XI (XO (XO (XO (XO (XO (XO (XO (XI (XO (XO
    (XO (XO (XO (XO (XO (XI (XO (XO (XO (XO (XO (XO (XO (XI (XO (XO (XO (XO
    (XO (XO (XO XH))))))))))))))))))))))))))))))))))))))))))))))))))))))))

(** val fIRST_RANK : n **)

let fIRST_RANK =
  Npos (XI (XI (XI (XI (XI (XI (XI XH)))))))

(** val from_file : n -> n **)

let from_file f =
  shl64 fIRST_FILE f

(** val from_rank : n -> n **)

let from_rank r =
  shl64 fIRST_RANK (N.mul r (Npos (XO (XO (XO XH)))))

(** val bb_or : n -> n -> n **)

let bb_or =
  N.coq_lor

(** val bb_and : n -> n -> n **)

let bb_and =
  N.coq_land

(** val bb_xor : n -> n -> n **)

let bb_xor =
  N.coq_lxor

(** val bb_not : n -> n **)

let bb_not =
  not64

(** val bb_diff : n -> n -> n **)

let bb_diff a b =
  bb_and a (bb_not b)

(** val any : n -> bool **)

let any a =
  negb (N.eqb a N0)

(** val none : n -> bool **)

let none a =
  N.eqb a N0

(** val bb_all : n -> bool **)

let bb_all a =
  none (bb_not a)

(** val bb_some : n -> bool **)

let bb_some a =
  any (bb_not a)

(** val contains : n -> n -> bool **)

let contains a s =
  any (bb_and a (from_pos s))

(** val bb_with : n -> n -> n **)

let bb_with a s =
  bb_or a (from_pos s)

(** val cleared : n -> n -> n **)

let cleared a s =
  bb_diff a (from_pos s)

(** val shift_up : n -> n **)

let shift_up a =
  shl64 (bb_diff a (from_rank (Npos (XI (XI XH))))) (Npos (XO (XO (XO XH))))

(** val shift_down : n -> n **)

let shift_down a =
  shr64 (bb_diff a (from_rank N0)) (Npos (XO (XO (XO XH))))

(** val shift_left : n -> n **)

let shift_left a =
  shr64 (bb_diff a (from_file N0)) (Npos XH)

(** val shift_right : n -> n **)

let shift_right a =
  shl64 (bb_diff a (from_file (Npos (XI (XI XH))))) (Npos XH)

(** val count : n -> n **)

let count =
  popcount

(** val flip_ranks : n -> n **)

let flip_ranks =
  bswap64

(** val pop : n -> (n * n) option **)

let pop a =
  if N.eqb a N0
  then None
  else let z0 = tz64 a in Some (z0, (N.coq_lxor a (shl64 (Npos XH) z0)))

(** val it_next : n -> n option * n **)

let it_next a =
  match pop a with
  | Some p -> let (s, a') = p in ((Some s), a')
  | None -> (None, a)

(** val nth_default_fuel : nat -> n -> n -> n option * n **)

let rec nth_default_fuel fuel a n0 =
  match fuel with
  | O -> (None, a)
  | S f ->
    if N.eqb n0 N0
    then it_next a
    else (match pop a with
          | Some p -> let (_, a') = p in nth_default_fuel f a' (N.pred n0)
          | None -> (None, a))

(** val nth_default : n -> n -> n option * n **)

let nth_default a n0 =
  nth_default_fuel (S (S (S (S (S (S (S (S (S (S (S (S (S (S (S (S (S (S (S
    (S (S (S (S (S (S (S (S (S (S (S (S (S (S (S (S (S (S (S (S (S (S (S (S
    (S (S (S (S (S (S (S (S (S (S (S (S (S (S (S (S (S (S (S (S (S (S (S
    O)))))))))))))))))))))))))))))))))))))))))))))))))))))))))))))))))) a n0

type 'a outcome =
| Ret of 'a
| Trap

(** val from_squares : n list -> n **)

let from_squares l =
  fold_left bb_with l bb_empty

(** val from_boards : n list -> n **)

let from_boards l =
  fold_left bb_or l bb_empty

(** val iter_fuel : nat -> n -> n list **)

let rec iter_fuel fuel a =
  match fuel with
  | O -> []
  | S f ->
    (match pop a with
     | Some p -> let (s, a') = p in s :: (iter_fuel f a')
     | None -> [])

(** val iter_list : n -> n list **)

let iter_list a =
  iter_fuel (S (S (S (S (S (S (S (S (S (S (S (S (S (S (S (S (S (S (S (S (S (S
    (S (S (S (S (S (S (S (S (S (S (S (S (S (S (S (S (S (S (S (S (S (S (S (S
    (S (S (S (S (S (S (S (S (S (S (S (S (S (S (S (S (S (S (S
    O))))))))))))))))))))))))))))))))))))))))))))))))))))))))))))))))) a

(** val sq_off : n -> z -> z -> n option **)

let sq_off s df dr =
  let f = Z.add (Z.of_N (N.modulo s (Npos (XO (XO (XO XH)))))) df in
  let r = Z.add (Z.of_N (N.div s (Npos (XO (XO (XO XH)))))) dr in
  if (&&)
       ((&&) ((&&) (Z.leb Z0 f) (Z.ltb f (Zpos (XO (XO (XO XH))))))
         (Z.leb Z0 r)) (Z.ltb r (Zpos (XO (XO (XO XH)))))
  then Some (Z.to_N (Z.add (Z.mul r (Zpos (XO (XO (XO XH))))) f))
  else None

(** val set_of : n list -> n **)

let set_of l =
  fold_left (fun acc s -> N.coq_lor acc (bit s)) l N0

(** val opt_list : 'a1 option -> 'a1 list **)

let opt_list = function
| Some x -> x :: []
| None -> []

(** val offsets_set : n -> (z * z) list -> n **)

let offsets_set s offs0 =
  set_of (flat_map (fun d -> opt_list (sq_off s (fst d) (snd d))) offs0)

type dir =
| DN
| DS
| DE
| DW
| DNE
| DNW
| DSE
| DSW

(** val dvec : dir -> z * z **)

let dvec = function
| DN -> (Z0, (Zpos XH))
| DS -> (Z0, (Zneg XH))
| DE -> ((Zpos XH), Z0)
| DW -> ((Zneg XH), Z0)
| DNE -> ((Zpos XH), (Zpos XH))
| DNW -> ((Zneg XH), (Zpos XH))
| DSE -> ((Zpos XH), (Zneg XH))
| DSW -> ((Zneg XH), (Zneg XH))

(** val dopp : dir -> dir **)

let dopp = function
| DN -> DS
| DS -> DN
| DE -> DW
| DW -> DE
| DNE -> DSW
| DNW -> DSE
| DSE -> DNW
| DSW -> DNE

(** val rook_dirs : dir list **)

let rook_dirs =
  DN :: (DS :: (DE :: (DW :: [])))

(** val bishop_dirs : dir list **)

let bishop_dirs =
  DNE :: (DNW :: (DSE :: (DSW :: [])))

(** val all_dirs : dir list **)

let all_dirs =
  app rook_dirs bishop_dirs

(** val step : dir -> n -> n option **)

let step d s =
  sq_off s (fst (dvec d)) (snd (dvec d))

(** val ray_fuel : nat -> dir -> n -> n list **)

let rec ray_fuel n0 d s =
  match n0 with
  | O -> []
  | S n' ->
    (match step d s with
     | Some t -> t :: (ray_fuel n' d t)
     | None -> [])

(** val ray : dir -> n -> n list **)

let ray d s =
  ray_fuel (S (S (S (S (S (S (S O))))))) d s

(** val knight_offs : (z * z) list **)

let knight_offs =
  ((Zpos XH), (Zpos (XO XH))) :: (((Zpos (XO XH)), (Zpos XH)) :: (((Zpos (XO
    XH)), (Zneg XH)) :: (((Zpos XH), (Zneg (XO XH))) :: (((Zneg XH), (Zneg
    (XO XH))) :: (((Zneg (XO XH)), (Zneg XH)) :: (((Zneg (XO XH)), (Zpos
    XH)) :: (((Zneg XH), (Zpos (XO XH))) :: [])))))))

(** val king_offs : (z * z) list **)

let king_offs =
  (Z0, (Zpos XH)) :: (((Zpos XH), (Zpos XH)) :: (((Zpos XH), Z0) :: (((Zpos
    XH), (Zneg XH)) :: ((Z0, (Zneg XH)) :: (((Zneg XH), (Zneg XH)) :: (((Zneg
    XH), Z0) :: (((Zneg XH), (Zpos XH)) :: [])))))))

(** val knight_geo : n -> n **)

let knight_geo s =
  offsets_set s knight_offs

(** val king_geo : n -> n **)

let king_geo s =
  offsets_set s king_offs

(** val fwd : color -> z **)

let fwd = function
| White -> Zpos XH
| Black -> Zneg XH

(** val pawn_att_geo : color -> n -> n **)

let pawn_att_geo c s =
  offsets_set s (((Zneg XH), (fwd c)) :: (((Zpos XH), (fwd c)) :: []))

(** val start_rank : color -> n **)

let start_rank = function
| White -> Npos XH
| Black -> Npos (XO (XI XH))

(** val pawn_push_geo : color -> n -> n **)

let pawn_push_geo c s =
  offsets_set s
    (app ((Z0, (fwd c)) :: [])
      (if N.eqb (rank_of s) (start_rank c)
       then (Z0, (Z.mul (Zpos (XO XH)) (fwd c))) :: []
       else []))

(** val rays_set : dir list -> n -> n **)

let rays_set ds s =
  set_of (flat_map (fun d -> ray d s) ds)

(** val rook_rays_geo : n -> n **)

let rook_rays_geo s =
  rays_set rook_dirs s

(** val bishop_rays_geo : n -> n **)

let bishop_rays_geo s =
  rays_set bishop_dirs s

(** val before : n -> n list -> n list option **)

let rec before b = function
| [] -> None
| x :: r ->
  if N.eqb x b
  then Some []
  else (match before b r with
        | Some p -> Some (x :: p)
        | None -> None)

(** val between_list : n -> n -> n list **)

let between_list a b =
  flat_map (fun d -> match before b (ray d a) with
                     | Some p -> p
                     | None -> []) all_dirs

(** val between_geo : n -> n -> n **)

let between_geo a b =
  set_of (between_list a b)

(** val on_ray : n -> n -> dir -> bool **)

let on_ray a b d =
  existsb (N.eqb b) (ray d a)

(** val line_geo : n -> n -> n **)

let line_geo a b =
  set_of
    (flat_map (fun d ->
      if on_ray a b d then a :: (app (ray d a) (ray (dopp d) a)) else [])
      all_dirs)

(** val absdiff : n -> n -> n **)

let absdiff x y =
  if N.ltb x y then N.sub y x else N.sub x y

(** val dist_geo : n -> n -> n **)

let dist_geo a b =
  N.max (absdiff (rank_of a) (rank_of b)) (absdiff (file_of a) (file_of b))

(** val slide_ray : n -> n list -> n list **)

let rec slide_ray occ = function
| [] -> []
| t :: r -> t :: (if N.testbit occ t then [] else slide_ray occ r)

(** val slide : dir list -> n -> n -> n **)

let slide ds s occ =
  set_of (flat_map (fun d -> slide_ray occ (ray d s)) ds)

(** val rook_attacks : n -> n -> n **)

let rook_attacks s occ =
  slide rook_dirs s occ

(** val bishop_attacks : n -> n -> n **)

let bishop_attacks s occ =
  slide bishop_dirs s occ

(** val pawn_quiets_spec : color -> n -> n -> n **)

let pawn_quiets_spec c s occ =
  match sq_off s Z0 (fwd c) with
  | Some t1 ->
    if N.testbit occ t1 then N0 else N.ldiff (pawn_push_geo c s) occ
  | None -> N0

(** val pawn_attacks_spec : color -> n -> n -> n **)

let pawn_attacks_spec c s occ =
  N.coq_land (pawn_att_geo c s) occ

(** val pawn_moves_spec : color -> n -> n -> n **)

let pawn_moves_spec c s occ =
  N.coq_lor (pawn_quiets_spec c s occ) (pawn_attacks_spec c s occ)

(** val nthN : n list -> n -> n **)

let nthN l i =
  nth (N.to_nat i) l N0

(** val lk_castle_zobrist : n -> n **)

let lk_castle_zobrist i =
  nthN castle_zobrist_tbl i

(** val lk_ep_zobrist : n -> n **)

let lk_ep_zobrist f =
  nthN ep_zobrist_tbl f

type score =
| SMin
| SBlackMateIn of n
| SRaw of z
| SWhiteMateIn of n
| SMax

(** val kind : score -> n **)

let kind = function
| SMin -> N0
| SBlackMateIn _ -> Npos XH
| SRaw _ -> Npos (XO XH)
| SWhiteMateIn _ -> Npos (XI XH)
| SMax -> Npos (XO (XO XH))

(** val cmp : score -> score -> comparison **)

let cmp a b =
  match a with
  | SBlackMateIn x ->
    (match b with
     | SBlackMateIn y -> N.compare x y
     | _ -> N.compare (kind a) (kind b))
  | SRaw x ->
    (match b with
     | SRaw y -> Z.compare x y
     | _ -> N.compare (kind a) (kind b))
  | SWhiteMateIn x ->
    (match b with
     | SWhiteMateIn y -> N.compare y x
     | _ -> N.compare (kind a) (kind b))
  | _ -> N.compare (kind a) (kind b)

(** val partial_cmp : score -> score -> comparison option **)

let partial_cmp a b =
  Some (cmp a b)

(** val eqb0 : score -> score -> bool **)

let eqb0 a b =
  match a with
  | SMin -> (match b with
             | SMin -> true
             | _ -> false)
  | SBlackMateIn x -> (match b with
                       | SBlackMateIn y -> N.eqb x y
                       | _ -> false)
  | SRaw x -> (match b with
               | SRaw y -> Z.eqb x y
               | _ -> false)
  | SWhiteMateIn x -> (match b with
                       | SWhiteMateIn y -> N.eqb x y
                       | _ -> false)
  | SMax -> (match b with
             | SMax -> true
             | _ -> false)

(** val ltb0 : score -> score -> bool **)

let ltb0 a b =
  match cmp a b with
  | Lt -> true
  | _ -> false

(** val leb0 : score -> score -> bool **)

let leb0 a b =
  match cmp a b with
  | Gt -> false
  | _ -> true

(** val gtb : score -> score -> bool **)

let gtb a b =
  match cmp a b with
  | Gt -> true
  | _ -> false

(** val smax : score -> score -> score **)

let smax a b =
  match cmp a b with
  | Gt -> a
  | _ -> b

(** val smin : score -> score -> score **)

let smin a b =
  match cmp a b with
  | Gt -> b
  | _ -> a

(** val neg : score -> score **)

let neg = function
| SMin -> SMax
| SBlackMateIn n0 -> SWhiteMateIn n0
| SRaw z0 -> SRaw (Z.opp z0)
| SWhiteMateIn n0 -> SBlackMateIn n0
| SMax -> SMin

type promo =
| PKnight
| PBishop
| PRook
| PQueen

type st_promo =
| StKnight
| StBishop
| StRook
| StQueen
| StNone

type mi_promo =
| MiKnight
| MiBishop
| MiRook
| MiQueen
| MiNone
| MiIllegal

type cmove = { c_src : n; c_dst : n; c_piece : promo option }

type smove = { s_src : n; s_dst : n; s_piece : st_promo }

type omove = { o_src : n; o_dst : n; o_piece : mi_promo }

(** val to_stable : cmove -> smove **)

let to_stable m =
  { s_src = m.c_src; s_dst = m.c_dst; s_piece =
    (match m.c_piece with
     | Some p ->
       (match p with
        | PKnight -> StKnight
        | PBishop -> StBishop
        | PRook -> StRook
        | PQueen -> StQueen)
     | None -> StNone) }

(** val of_stable : smove -> cmove **)

let of_stable m =
  { c_src = m.s_src; c_dst = m.s_dst; c_piece =
    (match m.s_piece with
     | StKnight -> Some PKnight
     | StBishop -> Some PBishop
     | StRook -> Some PRook
     | StQueen -> Some PQueen
     | StNone -> None) }

(** val to_opt_some : cmove -> omove **)

let to_opt_some m =
  { o_src = m.c_src; o_dst = m.c_dst; o_piece =
    (match m.c_piece with
     | Some p ->
       (match p with
        | PKnight -> MiKnight
        | PBishop -> MiBishop
        | PRook -> MiRook
        | PQueen -> MiQueen)
     | None -> MiNone) }

(** val to_opt : cmove option -> omove **)

let to_opt = function
| Some m0 -> to_opt_some m0
| None -> { o_src = N0; o_dst = N0; o_piece = MiIllegal }

(** val of_opt : omove -> cmove option **)

let of_opt m =
  match m.o_piece with
  | MiKnight ->
    Some { c_src = m.o_src; c_dst = m.o_dst; c_piece = (Some PKnight) }
  | MiBishop ->
    Some { c_src = m.o_src; c_dst = m.o_dst; c_piece = (Some PBishop) }
  | MiRook ->
    Some { c_src = m.o_src; c_dst = m.o_dst; c_piece = (Some PRook) }
  | MiQueen ->
    Some { c_src = m.o_src; c_dst = m.o_dst; c_piece = (Some PQueen) }
  | MiNone -> Some { c_src = m.o_src; c_dst = m.o_dst; c_piece = None }
  | MiIllegal -> None

type st_score =
| StMin
| StBlackMateIn of n
| StRaw of z
| StWhiteMateIn of n
| StMax

(** val score_to : score -> st_score **)

let score_to = function
| SMin -> StMin
| SBlackMateIn n0 -> StBlackMateIn n0
| SRaw z0 -> StRaw z0
| SWhiteMateIn n0 -> StWhiteMateIn n0
| SMax -> StMax

(** val score_of : st_score -> score **)

let score_of = function
| StMin -> SMin
| StBlackMateIn n0 -> SBlackMateIn n0
| StRaw z0 -> SRaw z0
| StWhiteMateIn n0 -> SWhiteMateIn n0
| StMax -> SMax

(** val evaluated_roundtrip :
    cmove option -> score -> cmove option * score **)

let evaluated_roundtrip m s =
  ((of_opt (to_opt m)), (score_of (score_to s)))

(** val wrapping_sub_u8 : n -> n -> n **)

let wrapping_sub_u8 x y =
  N.modulo
    (N.sub (N.add x (Npos (XO (XO (XO (XO (XO (XO (XO (XO XH)))))))))) y)
    (Npos (XO (XO (XO (XO (XO (XO (XO (XO XH)))))))))

(** val abs_diff : n -> n -> n **)

let abs_diff a b =
  if N.ltb a b then N.sub b a else N.sub a b

(** val enum_from_u8 : n -> n -> n option **)

let enum_from_u8 k n0 =
  if N.ltb n0 k then Some n0 else None

(** val pos_from_u8 : n -> n option **)

let pos_from_u8 n0 =
  if N.ltb n0 (Npos (XO (XO (XO (XO (XO (XO XH))))))) then Some n0 else None

(** val color_not : n -> n **)

let color_not = function
| N0 -> Npos XH
| Npos _ -> N0

(** val side_not : n -> n **)

let side_not = function
| N0 -> Npos XH
| Npos _ -> N0

(** val pos_new : n -> n -> n **)

let pos_new f r =
  N.add (N.mul r (Npos (XO (XO (XO XH))))) f

(** val pos_file : n -> n **)

let pos_file s =
  N.modulo s (Npos (XO (XO (XO XH))))

(** val pos_rank : n -> n **)

let pos_rank s =
  N.div s (Npos (XO (XO (XO XH))))

(** val file_shift_left : n -> n option **)

let file_shift_left x =
  if N.eqb x N0 then None else Some (N.sub x (Npos XH))

(** val file_shift_right : n -> n option **)

let file_shift_right x =
  if N.eqb x (Npos (XI (XI XH))) then None else Some (N.add x (Npos XH))

(** val rank_shift_down : n -> n option **)

let rank_shift_down x =
  if N.eqb x N0 then None else Some (N.sub x (Npos XH))

(** val rank_shift_up : n -> n option **)

let rank_shift_up x =
  if N.eqb x (Npos (XI (XI XH))) then None else Some (N.add x (Npos XH))

(** val pos_shift_up : n -> n option **)

let pos_shift_up s =
  match rank_shift_up (pos_rank s) with
  | Some r -> Some (pos_new (pos_file s) r)
  | None -> None

(** val pos_shift_down : n -> n option **)

let pos_shift_down s =
  match rank_shift_down (pos_rank s) with
  | Some r -> Some (pos_new (pos_file s) r)
  | None -> None

(** val pos_shift_left : n -> n option **)

let pos_shift_left s =
  match file_shift_left (pos_file s) with
  | Some f -> Some (pos_new f (pos_rank s))
  | None -> None

(** val pos_shift_right : n -> n option **)

let pos_shift_right s =
  match file_shift_right (pos_file s) with
  | Some f -> Some (pos_new f (pos_rank s))
  | None -> None

(** val rank_flip : n -> n **)

let rank_flip r =
  N.sub (Npos (XI (XI XH))) r

(** val pos_flip_rank : n -> n **)

let pos_flip_rank s =
  pos_new (pos_file s) (rank_flip (pos_rank s))

(** val dist_to : n -> n -> n **)

let dist_to =
  abs_diff

(** val file_show : n -> n list **)

let file_show f =
  (N.add (Npos (XI (XO (XO (XO (XO (XI XH))))))) f) :: []

(** val rank_show : n -> n list **)

let rank_show r =
  (N.add (Npos (XI (XO (XO (XO (XI XH)))))) r) :: []

(** val pos_show : n -> n list **)

let pos_show s =
  app (file_show (pos_file s)) (rank_show (pos_rank s))

(** val promo_show : n -> n list **)

let promo_show = function
| N0 -> []
| Npos p0 ->
  (match p0 with
   | XI p1 ->
     (match p1 with
      | XH -> (Npos (XO (XI (XO (XO (XI (XO XH))))))) :: []
      | _ -> [])
   | XO p1 ->
     (match p1 with
      | XI _ -> []
      | XO p2 ->
        (match p2 with
         | XH -> (Npos (XI (XO (XO (XO (XI (XO XH))))))) :: []
         | _ -> [])
      | XH -> (Npos (XO (XI (XO (XO (XO (XO XH))))))) :: [])
   | XH -> (Npos (XO (XI (XI (XI (XO (XO XH))))))) :: [])

(** val move_show : (n * n) -> n list **)

let move_show m =
  app (pos_show (fst m))
    (app ((Npos (XI (XO (XI (XI (XO XH)))))) :: []) (pos_show (snd m)))

(** val move_show_full : n -> n -> n option -> n list **)

let move_show_full src dst promo0 =
  app (move_show (src, dst))
    (match promo0 with
     | Some p -> promo_show p
     | None -> [])

(** val file_from_ascii_byte : n -> n option **)

let file_from_ascii_byte b =
  let s =
    wrapping_sub_u8 (N.coq_lor b (Npos (XO (XO (XO (XO (XO XH))))))) (Npos
      (XI (XO (XO (XO (XO (XI XH)))))))
  in
  if N.ltb s (Npos (XO (XO (XO XH)))) then Some s else None

(** val rank_from_ascii_byte : n -> n option **)

let rank_from_ascii_byte b =
  let s = wrapping_sub_u8 b (Npos (XI (XO (XO (XO (XI XH)))))) in
  if N.ltb s (Npos (XO (XO (XO XH)))) then Some s else None

(** val file_from_ascii_bytes : n list -> n option **)

let file_from_ascii_bytes = function
| [] -> None
| b :: l0 -> (match l0 with
              | [] -> file_from_ascii_byte b
              | _ :: _ -> None)

(** val rank_from_ascii_bytes : n list -> n option **)

let rank_from_ascii_bytes = function
| [] -> None
| b :: l0 -> (match l0 with
              | [] -> rank_from_ascii_byte b
              | _ :: _ -> None)

(** val pos_from_ascii_bytes : n list -> n option **)

let pos_from_ascii_bytes = function
| [] -> None
| fb :: l0 ->
  (match l0 with
   | [] -> None
   | rb :: l1 ->
     (match l1 with
      | [] ->
        (match file_from_ascii_byte fb with
         | Some f ->
           (match rank_from_ascii_byte rb with
            | Some r -> Some (pos_new f r)
            | None -> None)
         | None -> None)
      | _ :: _ -> None))

(** val piece_from_ascii_byte : n -> n option **)

let piece_from_ascii_byte b =
  if (||) (N.eqb b (Npos (XO (XO (XO (XO (XI (XI XH))))))))
       (N.eqb b (Npos (XO (XO (XO (XO (XI (XO XH))))))))
  then Some N0
  else if (||) (N.eqb b (Npos (XO (XI (XI (XI (XO (XI XH))))))))
            (N.eqb b (Npos (XO (XI (XI (XI (XO (XO XH))))))))
       then Some (Npos XH)
       else if (||) (N.eqb b (Npos (XO (XI (XO (XO (XO (XI XH))))))))
                 (N.eqb b (Npos (XO (XI (XO (XO (XO (XO XH))))))))
            then Some (Npos (XO XH))
            else if (||) (N.eqb b (Npos (XO (XI (XO (XO (XI (XI XH))))))))
                      (N.eqb b (Npos (XO (XI (XO (XO (XI (XO XH))))))))
                 then Some (Npos (XI XH))
                 else if (||)
                           (N.eqb b (Npos (XI (XO (XO (XO (XI (XI XH))))))))
                           (N.eqb b (Npos (XI (XO (XO (XO (XI (XO XH))))))))
                      then Some (Npos (XO (XO XH)))
                      else if (||)
                                (N.eqb b (Npos (XI (XI (XO (XI (XO (XI
                                  XH))))))))
                                (N.eqb b (Npos (XI (XI (XO (XI (XO (XO
                                  XH))))))))
                           then Some (Npos (XI (XO XH)))
                           else None

(** val piece_from_ascii_bytes : n list -> n option **)

let piece_from_ascii_bytes = function
| [] -> None
| b :: l0 -> (match l0 with
              | [] -> piece_from_ascii_byte b
              | _ :: _ -> None)

(** val promo_from_ascii_byte : n -> n option **)

let promo_from_ascii_byte b =
  if (||) (N.eqb b (Npos (XO (XI (XI (XI (XO (XI XH))))))))
       (N.eqb b (Npos (XO (XI (XI (XI (XO (XO XH))))))))
  then Some (Npos XH)
  else if (||) (N.eqb b (Npos (XO (XI (XO (XO (XO (XI XH))))))))
            (N.eqb b (Npos (XO (XI (XO (XO (XO (XO XH))))))))
       then Some (Npos (XO XH))
       else if (||) (N.eqb b (Npos (XO (XI (XO (XO (XI (XI XH))))))))
                 (N.eqb b (Npos (XO (XI (XO (XO (XI (XO XH))))))))
            then Some (Npos (XI XH))
            else if (||) (N.eqb b (Npos (XI (XO (XO (XO (XI (XI XH))))))))
                      (N.eqb b (Npos (XI (XO (XO (XO (XI (XO XH))))))))
                 then Some (Npos (XO (XO XH)))
                 else None

(** val promo_from_ascii_bytes : n list -> n option **)

let promo_from_ascii_bytes = function
| [] -> None
| b :: l0 -> (match l0 with
              | [] -> promo_from_ascii_byte b
              | _ :: _ -> None)

(** val move_of_bytes : n -> n -> n -> n -> (n * n) option **)

let move_of_bytes sf sr df dr =
  match pos_from_ascii_bytes (sf :: (sr :: [])) with
  | Some src ->
    (match pos_from_ascii_bytes (df :: (dr :: [])) with
     | Some dst -> Some (src, dst)
     | None -> None)
  | None -> None

(** val move_from_ascii_bytes : n list -> (n * n) option **)

let move_from_ascii_bytes = function
| [] -> None
| sf :: l0 ->
  (match l0 with
   | [] -> None
   | sr :: l1 ->
     (match l1 with
      | [] -> None
      | df :: l2 ->
        (match l2 with
         | [] -> None
         | dr :: l3 ->
           (match l3 with
            | [] -> move_of_bytes sf sr df dr
            | dr0 :: l4 ->
              (match l4 with
               | [] ->
                 if N.eqb df (Npos (XI (XO (XI (XI (XO XH))))))
                 then move_of_bytes sf sr dr dr0
                 else None
               | _ :: _ -> None)))))

type range = { lo : n; hi : n }

(** val forward_checked : n -> n -> n option **)

let forward_checked start n0 =
  if N.leb n0 (Npos (XI (XI (XI (XI (XI (XI (XI XH))))))))
  then if N.leb (N.add start n0) (Npos (XI (XI (XI (XI (XI (XI (XI XH))))))))
       then Some (N.add start n0)
       else None
  else None

(** val backward_checked : n -> n -> n option **)

let backward_checked start n0 =
  if N.leb n0 (Npos (XI (XI (XI (XI (XI (XI (XI XH))))))))
  then if N.leb n0 start then Some (N.sub start n0) else None
  else None

(** val r_next : range -> n option * range **)

let r_next r =
  if N.ltb r.lo r.hi
  then ((Some r.lo), { lo = (N.add r.lo (Npos XH)); hi = r.hi })
  else (None, r)

(** val r_nth : n -> range -> n option * range **)

let r_nth n0 r =
  match forward_checked r.lo n0 with
  | Some p ->
    if N.ltb p r.hi
    then ((Some p), { lo = (N.add p (Npos XH)); hi = r.hi })
    else (None, { lo = r.hi; hi = r.hi })
  | None -> (None, { lo = r.hi; hi = r.hi })

(** val r_next_back : range -> n option * range **)

let r_next_back r =
  if N.ltb r.lo r.hi
  then ((Some (N.sub r.hi (Npos XH))), { lo = r.lo; hi =
         (N.sub r.hi (Npos XH)) })
  else (None, r)

(** val r_nth_back : n -> range -> n option * range **)

let r_nth_back n0 r =
  match backward_checked r.hi n0 with
  | Some m ->
    if N.ltb r.lo m
    then ((Some (N.sub m (Npos XH))), { lo = r.lo; hi = (N.sub m (Npos XH)) })
    else (None, { lo = r.lo; hi = r.lo })
  | None -> (None, { lo = r.lo; hi = r.lo })

(** val r_size_hint : range -> n * n option **)

let r_size_hint r =
  if N.ltb r.lo r.hi
  then ((N.sub r.hi r.lo), (Some (N.sub r.hi r.lo)))
  else (N0, (Some N0))

type iop =
| INext
| INextBack
| INth of n
| INthBack of n
| ISizeHint

(** val r_step : iop -> range -> n option * range **)

let r_step op0 r =
  match op0 with
  | INext -> r_next r
  | INextBack -> r_next_back r
  | INth n0 -> r_nth n0 r
  | INthBack n0 -> r_nth_back n0 r
  | ISizeHint -> ((Some (fst (r_size_hint r))), r)

(** val it_step : n -> iop -> range -> n option * range **)

let it_step k op0 r =
  match op0 with
  | ISizeHint -> ((Some (fst (r_size_hint r))), r)
  | _ ->
    let (o, r') = r_step op0 r in
    ((match o with
      | Some v -> enum_from_u8 k v
      | None -> None), r')

(** val run_it : n -> range -> iop list -> n option list **)

let rec run_it k r = function
| [] -> []
| op0 :: t -> let (o, r') = it_step k op0 r in o :: (run_it k r' t)

(** val run_iter : n -> iop list -> n option list **)

let run_iter k ops =
  run_it k { lo = N0; hi = k } ops

(** val allpos_next : n -> n option * n **)

let allpos_next p =
  match pos_from_u8 p with
  | Some s -> ((Some s), (N.add p (Npos XH)))
  | None -> (None, p)

(** val allpos_size_hint : n -> n **)

let allpos_size_hint p =
  N.sub (Npos (XO (XO (XO (XO (XO (XO XH))))))) p

(** val allpos_step : iop -> n -> n option * n **)

let allpos_step op0 p =
  match op0 with
  | INext -> allpos_next p
  | ISizeHint -> ((Some (allpos_size_hint p)), p)
  | _ -> (None, p)

(** val run_allpos_from : n -> iop list -> n option list **)

let rec run_allpos_from p = function
| [] -> []
| op0 :: t -> let (o, p') = allpos_step op0 p in o :: (run_allpos_from p' t)

(** val run_allpos : iop list -> n option list **)

let run_allpos ops =
  run_allpos_from N0 ops

(** val file_iter_next : n -> range -> n option * range **)

let file_iter_next f r =
  let (o, r') = it_step (Npos (XO (XO (XO XH)))) INext r in
  ((match o with
    | Some rk -> Some (pos_new f rk)
    | None -> None), r')

(** val rank_iter_next : n -> range -> n option * range **)

let rank_iter_next rk r =
  let (o, r') = it_step (Npos (XO (XO (XO XH)))) INext r in
  ((match o with
    | Some f -> Some (pos_new f rk)
    | None -> None), r')

type flag =
| FGlobal
| FEnabled
| FDisabled

type op =
| OEnable
| ODisable
| OToggle
| OLocalEnable
| OLocalDisable
| OLocalToggle
| OLocalTake
| ORestore of flag
| OIsEnabled

type st = { g : bool; loc : (n * flag) list }

(** val lookup : (n * flag) list -> n -> flag **)

let rec lookup l t =
  match l with
  | [] -> FGlobal
  | p :: r -> let (u, f) = p in if N.eqb u t then f else lookup r t

(** val update : (n * flag) list -> n -> flag -> (n * flag) list **)

let rec update l t f =
  match l with
  | [] -> (t, f) :: []
  | p :: r ->
    let (u, f') = p in
    if N.eqb u t then (t, f) :: r else (u, f') :: (update r t f)

(** val get_loc : st -> n -> flag **)

let get_loc s t =
  lookup s.loc t

(** val set_loc : st -> n -> flag -> st **)

let set_loc s t f =
  { g = s.g; loc = (update s.loc t f) }

(** val set_g : st -> bool -> st **)

let set_g s b =
  { g = b; loc = s.loc }

(** val toggle_flag : flag -> flag **)

let toggle_flag = function
| FGlobal -> FGlobal
| FEnabled -> FDisabled
| FDisabled -> FEnabled

(** val view : st -> n -> bool **)

let view s t =
  match get_loc s t with
  | FGlobal -> s.g
  | FEnabled -> true
  | FDisabled -> false

(** val step0 : st -> n -> op -> (st * bool option) * flag option **)

let step0 s t = function
| OEnable -> (((set_g (set_loc s t FEnabled) true), None), None)
| ODisable -> (((set_g (set_loc s t FDisabled) false), None), None)
| OToggle ->
  (((set_g (set_loc s t (toggle_flag (get_loc s t))) (negb s.g)), None), None)
| OLocalEnable -> (((set_loc s t FEnabled), None), None)
| OLocalDisable -> (((set_loc s t FDisabled), None), None)
| OLocalToggle -> (((set_loc s t (toggle_flag (get_loc s t))), None), None)
| OLocalTake -> (((set_loc s t FGlobal), None), (Some (get_loc s t)))
| ORestore f -> (((set_loc s t f), None), None)
| OIsEnabled -> ((s, (Some (view s t))), None)

(** val init : st **)

let init =
  { g = true; loc = [] }

(** val views : st -> n list -> bool list **)

let views s ths =
  map (view s) ths

type sop =
| SEnable
| SDisable
| SToggle
| SLocalEnable
| SLocalDisable
| SLocalToggle
| SLocalTake
| SRestoreTop
| SIsEnabled

type stacks = (n * flag list) list

(** val get_stack : stacks -> n -> flag list **)

let rec get_stack k t =
  match k with
  | [] -> []
  | p :: r -> let (u, l) = p in if N.eqb u t then l else get_stack r t

(** val set_stack : stacks -> n -> flag list -> stacks **)

let rec set_stack k t l =
  match k with
  | [] -> (t, l) :: []
  | p :: r ->
    let (u, l') = p in
    if N.eqb u t then (t, l) :: r else (u, l') :: (set_stack r t l)

(** val resolve_op : flag list -> sop -> op **)

let resolve_op stk = function
| SEnable -> OEnable
| SDisable -> ODisable
| SToggle -> OToggle
| SLocalEnable -> OLocalEnable
| SLocalDisable -> OLocalDisable
| SLocalToggle -> OLocalToggle
| SLocalTake -> OLocalTake
| SRestoreTop -> (match stk with
                  | [] -> OIsEnabled
                  | f :: _ -> ORestore f)
| SIsEnabled -> OIsEnabled

(** val sstep : st -> stacks -> n -> sop -> st * stacks **)

let sstep s k t o =
  let stk = get_stack k t in
  let (p, tok) = step0 s t (resolve_op stk o) in
  let (s', _) = p in
  let k' =
    match o with
    | SLocalTake ->
      (match tok with
       | Some f -> set_stack k t (f :: stk)
       | None -> k)
    | SRestoreTop ->
      (match stk with
       | [] -> k
       | _ :: rest -> set_stack k t rest)
    | _ -> k
  in
  (s', k')

(** val run_stack_from :
    n list -> st -> stacks -> (n * sop) list -> (st * stacks) * bool list list **)

let rec run_stack_from ths s k = function
| [] -> ((s, k), [])
| p :: r ->
  let (t, o) = p in
  let (s', k') = sstep s k t o in
  let (p0, obs) = run_stack_from ths s' k' r in (p0, ((views s' ths) :: obs))

(** val run_stack : n list -> (n * sop) list -> bool list list **)

let run_stack ths tr =
  snd (run_stack_from ths init [] tr)

type cell = (color * piece) option

type position = { cells : cell list; stm : color; cr_wk : bool; cr_wq : 
                  bool; cr_bk : bool; cr_bq : bool; epf : n option; hm : 
                  n; fm : n }

(** val cell_at : cell list -> n -> cell **)

let cell_at cs s =
  nth (N.to_nat s) cs None

(** val set_nth : 'a1 list -> nat -> 'a1 -> 'a1 list **)

let rec set_nth l n0 v =
  match l with
  | [] -> []
  | x :: r -> (match n0 with
               | O -> v :: r
               | S n' -> x :: (set_nth r n' v))

(** val cell_set : cell list -> n -> cell -> cell list **)

let cell_set cs s v =
  set_nth cs (N.to_nat s) v

(** val is_piece : cell list -> color -> piece -> n -> bool **)

let is_piece cs c p s =
  match cell_at cs s with
  | Some p0 -> let (c', p') = p0 in (&&) (color_eqb c c') (piece_eqb p p')
  | None -> false

(** val occupied : cell list -> n -> bool **)

let occupied cs s =
  match cell_at cs s with
  | Some _ -> true
  | None -> false

(** val has_color : cell list -> color -> n -> bool **)

let has_color cs c s =
  match cell_at cs s with
  | Some p -> let (c', _) = p in color_eqb c c'
  | None -> false

(** val offs : n -> (z * z) list -> n list **)

let offs s l =
  flat_map (fun d -> opt_list (sq_off s (fst d) (snd d))) l

(** val first_occupied : cell list -> n list -> n option **)

let rec first_occupied cs = function
| [] -> None
| t :: r -> if occupied cs t then Some t else first_occupied cs r

(** val attacked_by : cell list -> color -> n -> bool **)

let attacked_by cs c s =
  (||)
    ((||)
      ((||)
        ((||) (existsb (is_piece cs c Knight) (offs s knight_offs))
          (existsb (is_piece cs c King) (offs s king_offs)))
        (existsb (is_piece cs c Pawn)
          (offs s (((Zneg XH), (Z.opp (fwd c))) :: (((Zpos XH),
            (Z.opp (fwd c))) :: [])))))
      (existsb (fun d ->
        match first_occupied cs (ray d s) with
        | Some t -> (||) (is_piece cs c Rook t) (is_piece cs c Queen t)
        | None -> false) rook_dirs))
    (existsb (fun d ->
      match first_occupied cs (ray d s) with
      | Some t -> (||) (is_piece cs c Bishop t) (is_piece cs c Queen t)
      | None -> false) bishop_dirs)

(** val king_square : cell list -> color -> n option **)

let king_square cs c =
  find (is_piece cs c King) sq_list

(** val in_check_cells : cell list -> color -> bool **)

let in_check_cells cs c =
  match king_square cs c with
  | Some k -> attacked_by cs (opp0 c) k
  | None -> false

(** val last_rank : color -> n **)

let last_rank = function
| White -> Npos (XI (XI XH))
| Black -> N0

(** val home_rank : color -> n **)

let home_rank = function
| White -> N0
| Black -> Npos (XI (XI XH))

(** val ep_capture_rank : color -> n **)

let ep_capture_rank = function
| White -> Npos (XI (XO XH))
| Black -> Npos (XO XH)

(** val ep_pawn_rank : color -> n **)

let ep_pawn_rank = function
| White -> Npos (XO (XO XH))
| Black -> Npos (XI XH)

(** val mk : n -> n -> piece option -> move **)

let mk s d p =
  { m_src = s; m_dst = d; m_promo = p }

(** val with_promos : color -> n -> n -> move list **)

let with_promos c s d =
  if N.eqb (rank_of d) (last_rank c)
  then map (fun p -> mk s d (Some p)) promo_pieces
  else (mk s d None) :: []

(** val slide_targets : cell list -> color -> n list -> n list **)

let rec slide_targets cs c = function
| [] -> []
| t :: r ->
  (match cell_at cs t with
   | Some p -> let (c', _) = p in if color_eqb c c' then [] else t :: []
   | None -> t :: (slide_targets cs c r))

(** val can_castle_right : position -> color -> side -> bool **)

let can_castle_right p c sd =
  match c with
  | White -> (match sd with
              | KingSide -> p.cr_wk
              | QueenSide -> p.cr_wq)
  | Black -> (match sd with
              | KingSide -> p.cr_bk
              | QueenSide -> p.cr_bq)

(** val castle_moves : position -> move list **)

let castle_moves p =
  let cs = p.cells in
  let c = p.stm in
  let r = home_rank c in
  let k = mk_sq (Npos (XO (XO XH))) r in
  if (||) (negb (is_piece cs c King k)) (attacked_by cs (opp0 c) k)
  then []
  else app
         (if (&&)
               ((&&)
                 ((&&)
                   ((&&)
                     ((&&) (can_castle_right p c KingSide)
                       (is_piece cs c Rook (mk_sq (Npos (XI (XI XH))) r)))
                     (negb (occupied cs (mk_sq (Npos (XI (XO XH))) r))))
                   (negb (occupied cs (mk_sq (Npos (XO (XI XH))) r))))
                 (negb
                   (attacked_by cs (opp0 c) (mk_sq (Npos (XI (XO XH))) r))))
               (negb (attacked_by cs (opp0 c) (mk_sq (Npos (XO (XI XH))) r)))
          then (mk k (mk_sq (Npos (XO (XI XH))) r) None) :: []
          else [])
         (if (&&)
               ((&&)
                 ((&&)
                   ((&&)
                     ((&&)
                       ((&&) (can_castle_right p c QueenSide)
                         (is_piece cs c Rook (mk_sq N0 r)))
                       (negb (occupied cs (mk_sq (Npos XH) r))))
                     (negb (occupied cs (mk_sq (Npos (XO XH)) r))))
                   (negb (occupied cs (mk_sq (Npos (XI XH)) r))))
                 (negb (attacked_by cs (opp0 c) (mk_sq (Npos (XI XH)) r))))
               (negb (attacked_by cs (opp0 c) (mk_sq (Npos (XO XH)) r)))
          then (mk k (mk_sq (Npos (XO XH)) r) None) :: []
          else [])

(** val is_ep_target : position -> color -> n -> bool **)

let is_ep_target p c t =
  match p.epf with
  | Some f ->
    (&&)
      ((&&)
        ((&&) (N.eqb (file_of t) f) (N.eqb (rank_of t) (ep_capture_rank c)))
        (negb (occupied p.cells t)))
      (is_piece p.cells (opp0 c) Pawn (mk_sq f (ep_pawn_rank c)))
  | None -> false

(** val pawn_moves_from : position -> n -> move list **)

let pawn_moves_from p s =
  let cs = p.cells in
  let c = p.stm in
  let pushes =
    match sq_off s Z0 (fwd c) with
    | Some t1 ->
      if occupied cs t1
      then []
      else app (with_promos c s t1)
             (if N.eqb (rank_of s) (start_rank c)
              then (match sq_off s Z0 (Z.mul (Zpos (XO XH)) (fwd c)) with
                    | Some t2 ->
                      if occupied cs t2 then [] else (mk s t2 None) :: []
                    | None -> [])
              else [])
    | None -> []
  in
  let caps =
    flat_map (fun t ->
      if has_color cs (opp0 c) t
      then with_promos c s t
      else if is_ep_target p c t then (mk s t None) :: [] else [])
      (offs s (((Zneg XH), (fwd c)) :: (((Zpos XH), (fwd c)) :: [])))
  in
  app pushes caps

(** val piece_moves_from : position -> n -> piece -> move list **)

let piece_moves_from p s pc =
  let cs = p.cells in
  let c = p.stm in
  let not_own = fun t -> negb (has_color cs c t) in
  (match pc with
   | Pawn -> pawn_moves_from p s
   | Knight ->
     map (fun t -> mk s t None) (filter not_own (offs s knight_offs))
   | Bishop ->
     map (fun t -> mk s t None)
       (flat_map (fun d -> slide_targets cs c (ray d s)) bishop_dirs)
   | Rook ->
     map (fun t -> mk s t None)
       (flat_map (fun d -> slide_targets cs c (ray d s)) rook_dirs)
   | Queen ->
     map (fun t -> mk s t None)
       (flat_map (fun d -> slide_targets cs c (ray d s)) all_dirs)
   | King -> map (fun t -> mk s t None) (filter not_own (offs s king_offs)))

(** val pseudo : position -> move list **)

let pseudo p =
  app
    (flat_map (fun s ->
      match cell_at p.cells s with
      | Some p0 ->
        let (c, pc) = p0 in
        if color_eqb c p.stm then piece_moves_from p s pc else []
      | None -> []) sq_list) (castle_moves p)

(** val make : position -> move -> position **)

let make p m =
  let cs = p.cells in
  let c = p.stm in
  let s = m.m_src in
  let d = m.m_dst in
  (match cell_at cs s with
   | Some p0 ->
     let (_, pc) = p0 in
     let capture = occupied cs d in
     let is_pawn = piece_eqb pc Pawn in
     let is_king = piece_eqb pc King in
     let ep_capture =
       (&&) ((&&) is_pawn (negb (N.eqb (file_of s) (file_of d))))
         (negb capture)
     in
     let castle =
       (&&) is_king (N.eqb (absdiff (file_of s) (file_of d)) (Npos (XO XH)))
     in
     let placed = match m.m_promo with
                  | Some q -> q
                  | None -> pc in
     let cs1 = cell_set (cell_set cs s None) d (Some (c, placed)) in
     let cs2 =
       if ep_capture
       then cell_set cs1 (mk_sq (file_of d) (rank_of s)) None
       else cs1
     in
     let cs3 =
       if castle
       then if N.eqb (file_of d) (Npos (XO (XI XH)))
            then cell_set
                   (cell_set cs2 (mk_sq (Npos (XI (XI XH))) (rank_of s)) None)
                   (mk_sq (Npos (XI (XO XH))) (rank_of s)) (Some (c, Rook))
            else cell_set (cell_set cs2 (mk_sq N0 (rank_of s)) None)
                   (mk_sq (Npos (XI XH)) (rank_of s)) (Some (c, Rook))
       else cs2
     in
     let touches = fun x -> (||) (N.eqb s x) (N.eqb d x) in
     let double0 =
       (&&) is_pawn (N.eqb (absdiff (rank_of s) (rank_of d)) (Npos (XO XH)))
     in
     { cells = cs3; stm = (opp0 c); cr_wk =
     ((&&) ((&&) p.cr_wk (negb (touches (Npos (XO (XO XH))))))
       (negb (touches (Npos (XI (XI XH)))))); cr_wq =
     ((&&) ((&&) p.cr_wq (negb (touches (Npos (XO (XO XH))))))
       (negb (touches N0))); cr_bk =
     ((&&) ((&&) p.cr_bk (negb (touches (Npos (XO (XO (XI (XI (XI XH)))))))))
       (negb (touches (Npos (XI (XI (XI (XI (XI XH))))))))); cr_bq =
     ((&&) ((&&) p.cr_bq (negb (touches (Npos (XO (XO (XI (XI (XI XH)))))))))
       (negb (touches (Npos (XO (XO (XO (XI (XI XH))))))))); epf =
     (if double0 then Some (file_of s) else None); hm =
     (if (||) is_pawn capture then N0 else N.add p.hm (Npos XH)); fm =
     (match c with
      | White -> p.fm
      | Black -> N.add p.fm (Npos XH)) }
   | None -> p)

(** val legal : position -> move -> bool **)

let legal p m =
  negb (in_check_cells (make p m).cells p.stm)

(** val legal_moves : position -> move list **)

let legal_moves p =
  filter (legal p) (pseudo p)

(** val is_legal_move : position -> move -> bool **)

let is_legal_move p m =
  existsb (move_eqb m) (legal_moves p)

(** val in_check : position -> bool **)

let in_check p =
  in_check_cells p.cells p.stm

type status =
| CheckMate
| Draw
| Check
| Running

(** val classify : position -> status **)

let classify p =
  let nomoves = match legal_moves p with
                | [] -> true
                | _ :: _ -> false in
  if (&&) nomoves (in_check p)
  then CheckMate
  else if (||) nomoves (N.leb (Npos (XO (XO (XI (XO (XO (XI XH))))))) p.hm)
       then Draw
       else if in_check p then Check else Running

(** val cell_eqb : cell -> cell -> bool **)

let cell_eqb a b =
  match a with
  | Some p ->
    let (c1, p1) = p in
    (match b with
     | Some p0 ->
       let (c2, p2) = p0 in (&&) (color_eqb c1 c2) (piece_eqb p1 p2)
     | None -> false)
  | None -> (match b with
             | Some _ -> false
             | None -> true)

(** val cells_eqb : cell list -> cell list -> bool **)

let rec cells_eqb a b =
  match a with
  | [] -> (match b with
           | [] -> true
           | _ :: _ -> false)
  | x :: r ->
    (match b with
     | [] -> false
     | y :: r' -> (&&) (cell_eqb x y) (cells_eqb r r'))

(** val optN_eqb : n option -> n option -> bool **)

let optN_eqb a b =
  match a with
  | Some x -> (match b with
               | Some y -> N.eqb x y
               | None -> false)
  | None -> (match b with
             | Some _ -> false
             | None -> true)

(** val same_position : position -> position -> bool **)

let same_position a b =
  (&&)
    ((&&)
      ((&&)
        ((&&)
          ((&&) ((&&) (cells_eqb a.cells b.cells) (color_eqb a.stm b.stm))
            (eqb a.cr_wk b.cr_wk)) (eqb a.cr_wq b.cr_wq))
        (eqb a.cr_bk b.cr_bk)) (eqb a.cr_bq b.cr_bq)) (optN_eqb a.epf b.epf)

(** val mirror_cell : cell -> cell **)

let mirror_cell = function
| Some p0 -> let (co, p) = p0 in Some ((opp0 co), p)
| None -> None

(** val mirror_sq : n -> n **)

let mirror_sq s =
  N.coq_lxor s (Npos (XO (XO (XO (XI (XI XH))))))

(** val mirror : position -> position **)

let mirror p =
  { cells =
    (map (fun s -> mirror_cell (cell_at p.cells (mirror_sq s))) sq_list);
    stm = (opp0 p.stm); cr_wk = p.cr_bk; cr_wq = p.cr_bq; cr_bk = p.cr_wk;
    cr_bq = p.cr_wq; epf = p.epf; hm = p.hm; fm = p.fm }

(** val back_row : piece list **)

let back_row =
  Rook :: (Knight :: (Bishop :: (Queen :: (King :: (Bishop :: (Knight :: (Rook :: [])))))))

(** val start_cells : cell list **)

let start_cells =
  app (map (fun pc -> Some (White, pc)) back_row)
    (app (repeat (Some (White, Pawn)) (S (S (S (S (S (S (S (S O)))))))))
      (app
        (repeat None (S (S (S (S (S (S (S (S (S (S (S (S (S (S (S (S (S (S (S
          (S (S (S (S (S (S (S (S (S (S (S (S (S
          O)))))))))))))))))))))))))))))))))
        (app (repeat (Some (Black, Pawn)) (S (S (S (S (S (S (S (S O)))))))))
          (map (fun pc -> Some (Black, pc)) back_row))))

(** val start_position : position **)

let start_position =
  { cells = start_cells; stm = White; cr_wk = true; cr_wq = true; cr_bk =
    true; cr_bq = true; epf = None; hm = N0; fm = N0 }

(** val count_cells : (cell -> bool) -> cell list -> n **)

let count_cells f cs =
  N.of_nat (length (filter f cs))

(** val playable : position -> bool **)

let playable p =
  let cs = p.cells in
  let cnt = fun c pc -> count_cells (fun x -> cell_eqb x (Some (c, pc))) cs in
  let men = fun c ->
    count_cells (fun x ->
      match x with
      | Some p0 -> let (c', _) = p0 in color_eqb c c'
      | None -> false) cs
  in
  (&&)
    ((&&)
      ((&&)
        ((&&)
          ((&&)
            ((&&)
              ((&&)
                ((&&)
                  ((&&)
                    ((&&)
                      (Nat.eqb (length cs) (S (S (S (S (S (S (S (S (S (S (S
                        (S (S (S (S (S (S (S (S (S (S (S (S (S (S (S (S (S (S
                        (S (S (S (S (S (S (S (S (S (S (S (S (S (S (S (S (S (S
                        (S (S (S (S (S (S (S (S (S (S (S (S (S (S (S (S (S
                        O)))))))))))))))))))))))))))))))))))))))))))))))))))))))))))))))))
                      (N.eqb (cnt White King) (Npos XH)))
                    (N.eqb (cnt Black King) (Npos XH)))
                  (N.leb (men White) (Npos (XO (XO (XO (XO XH)))))))
                (N.leb (men Black) (Npos (XO (XO (XO (XO XH)))))))
              (negb (in_check_cells cs (opp0 p.stm))))
            ((||) (negb p.cr_wk)
              ((&&) (is_piece cs White King (Npos (XO (XO XH))))
                (is_piece cs White Rook (Npos (XI (XI XH)))))))
          ((||) (negb p.cr_wq)
            ((&&) (is_piece cs White King (Npos (XO (XO XH))))
              (is_piece cs White Rook N0))))
        ((||) (negb p.cr_bk)
          ((&&) (is_piece cs Black King (Npos (XO (XO (XI (XI (XI XH)))))))
            (is_piece cs Black Rook (Npos (XI (XI (XI (XI (XI XH))))))))))
      ((||) (negb p.cr_bq)
        ((&&) (is_piece cs Black King (Npos (XO (XO (XI (XI (XI XH)))))))
          (is_piece cs Black Rook (Npos (XO (XO (XO (XI (XI XH))))))))))
    (match p.epf with
     | Some f ->
       (&&)
         ((&&) (N.ltb f (Npos (XO (XO (XO XH)))))
           (negb (occupied cs (mk_sq f (ep_capture_rank p.stm)))))
         (is_piece cs (opp0 p.stm) Pawn (mk_sq f (ep_pawn_rank p.stm)))
     | None -> true)

type board = { b_zob : n; b_turn : color; b_rights : n; b_ep : n option;
               b_half : n; b_full : n; b_pinned : n; b_checkers : n;
               b_white : n; b_black : n; b_pawn : n; b_knight : n;
               b_bishop : n; b_rook : n; b_queen : n; b_king : n }

(** val colors : board -> color -> n **)

let colors b = function
| White -> b.b_white
| Black -> b.b_black

(** val pieces : board -> piece -> n **)

let pieces b = function
| Pawn -> b.b_pawn
| Knight -> b.b_knight
| Bishop -> b.b_bishop
| Rook -> b.b_rook
| Queen -> b.b_queen
| King -> b.b_king

(** val all_occ : board -> n **)

let all_occ b =
  bb_or b.b_white b.b_black

(** val set_color : board -> color -> n -> board **)

let set_color b c v =
  match c with
  | White ->
    { b_zob = b.b_zob; b_turn = b.b_turn; b_rights = b.b_rights; b_ep =
      b.b_ep; b_half = b.b_half; b_full = b.b_full; b_pinned = b.b_pinned;
      b_checkers = b.b_checkers; b_white = v; b_black = b.b_black; b_pawn =
      b.b_pawn; b_knight = b.b_knight; b_bishop = b.b_bishop; b_rook =
      b.b_rook; b_queen = b.b_queen; b_king = b.b_king }
  | Black ->
    { b_zob = b.b_zob; b_turn = b.b_turn; b_rights = b.b_rights; b_ep =
      b.b_ep; b_half = b.b_half; b_full = b.b_full; b_pinned = b.b_pinned;
      b_checkers = b.b_checkers; b_white = b.b_white; b_black = v; b_pawn =
      b.b_pawn; b_knight = b.b_knight; b_bishop = b.b_bishop; b_rook =
      b.b_rook; b_queen = b.b_queen; b_king = b.b_king }

(** val set_piece : board -> piece -> n -> board **)

let set_piece b p v =
  let f = fun q -> if piece_eqb p q then v else pieces b q in
  { b_zob = b.b_zob; b_turn = b.b_turn; b_rights = b.b_rights; b_ep = b.b_ep;
  b_half = b.b_half; b_full = b.b_full; b_pinned = b.b_pinned; b_checkers =
  b.b_checkers; b_white = b.b_white; b_black = b.b_black; b_pawn = (f Pawn);
  b_knight = (f Knight); b_bishop = (f Bishop); b_rook = (f Rook); b_queen =
  (f Queen); b_king = (f King) }

(** val set_zob : board -> n -> board **)

let set_zob b z0 =
  { b_zob = z0; b_turn = b.b_turn; b_rights = b.b_rights; b_ep = b.b_ep;
    b_half = b.b_half; b_full = b.b_full; b_pinned = b.b_pinned; b_checkers =
    b.b_checkers; b_white = b.b_white; b_black = b.b_black; b_pawn =
    b.b_pawn; b_knight = b.b_knight; b_bishop = b.b_bishop; b_rook =
    b.b_rook; b_queen = b.b_queen; b_king = b.b_king }

(** val set_meta :
    board -> color -> n -> n option -> n -> n -> n -> n -> board **)

let set_meta b turn rights ep half full pinned checkers =
  { b_zob = b.b_zob; b_turn = turn; b_rights = rights; b_ep = ep; b_half =
    half; b_full = full; b_pinned = pinned; b_checkers = checkers; b_white =
    b.b_white; b_black = b.b_black; b_pawn = b.b_pawn; b_knight = b.b_knight;
    b_bishop = b.b_bishop; b_rook = b.b_rook; b_queen = b.b_queen; b_king =
    b.b_king }

(** val set_pins : board -> n -> n -> board **)

let set_pins b pinned checkers =
  set_meta b b.b_turn b.b_rights b.b_ep b.b_half b.b_full pinned checkers

(** val nthN0 : n list -> n -> n **)

let nthN0 l i =
  nth (N.to_nat i) l N0

(** val zkey : n -> piece -> color -> n **)

let zkey s p c =
  nthN0 piece_zobrist_tbl
    (N.add
      (N.add
        (N.mul (color_idx c) (Npos (XO (XO (XO (XO (XO (XO (XO (XI
          XH)))))))))) (N.mul s (Npos (XO (XI XH))))) (piece_idx p))

(** val zkey_turn : color -> n **)

let zkey_turn c =
  nthN0 turn_zobrist_tbl (color_idx c)

(** val zkey_castle : n -> n **)

let zkey_castle r =
  nthN0 castle_zobrist_tbl r

(** val zkey_ep : n -> n **)

let zkey_ep f =
  nthN0 ep_zobrist_tbl f

(** val color_of : board -> n -> color option **)

let color_of b s =
  if contains b.b_white s
  then Some White
  else if contains b.b_black s then Some Black else None

(** val piece_of_unchecked : board -> n -> piece **)

let piece_of_unchecked b s =
  if contains (bb_or (bb_or b.b_pawn b.b_knight) b.b_bishop) s
  then if contains b.b_pawn s
       then Pawn
       else if contains b.b_knight s then Knight else Bishop
  else if contains b.b_rook s
       then Rook
       else if contains b.b_queen s then Queen else King

(** val piece_of : board -> n -> piece option **)

let piece_of b s =
  match color_of b s with
  | Some _ -> Some (piece_of_unchecked b s)
  | None -> None

(** val raw_get : board -> n -> (color * piece) option **)

let raw_get b s =
  match color_of b s with
  | Some c -> Some (c, (piece_of_unchecked b s))
  | None -> None

(** val raw_set_unchecked : board -> color -> piece -> n -> board **)

let raw_set_unchecked b c p s =
  set_piece (set_color b c (bb_with (colors b c) s)) p
    (bb_with (pieces b p) s)

(** val raw_remove : board -> color -> piece -> n -> board **)

let raw_remove b c p s =
  set_piece (set_color b c (cleared (colors b c) s)) p
    (cleared (pieces b p) s)

(** val raw_xor : board -> color -> piece -> n -> board **)

let raw_xor b c p d =
  set_piece (set_color b c (bb_xor (colors b c) d)) p (bb_xor (pieces b p) d)

(** val has_kings : board -> bool **)

let has_kings b =
  let k = b.b_king in
  (&&)
    ((&&) (N.eqb (count k) (Npos (XO XH)))
      (N.eqb (count (bb_and k b.b_white)) (Npos XH)))
    (N.eqb (count (bb_and k b.b_black)) (Npos XH))

(** val board_xor : board -> color -> piece -> n -> board **)

let board_xor b c p d =
  let b1 = raw_xor b c p d in
  set_zob b1
    (fold_left (fun z0 s -> N.coq_lxor z0 (zkey s p c)) (elements d) b1.b_zob)

(** val cr_offset : side -> color -> n **)

let cr_offset sd c =
  N.add (side_idx sd) (N.mul (color_idx c) (Npos (XO XH)))

(** val cr_contains : n -> side -> color -> bool **)

let cr_contains r sd c =
  N.testbit r (cr_offset sd c)

(** val cr_contains_color : n -> color -> bool **)

let cr_contains_color r c =
  (||) (cr_contains r KingSide c) (cr_contains r QueenSide c)

(** val cr_with : n -> side -> color -> n **)

let cr_with r sd c =
  N.coq_lor r (bit (cr_offset sd c))

(** val cr_full : n **)

let cr_full =
  Npos (XI (XI (XI XH)))

(** val cr_keep : color -> n -> n **)

let cr_keep c s =
  match c with
  | White ->
    if N.eqb s N0
    then Npos (XI (XO (XI XH)))
    else if N.eqb s (Npos (XO (XO XH)))
         then Npos (XO (XO (XI XH)))
         else if N.eqb s (Npos (XI (XI XH)))
              then Npos (XO (XI (XI XH)))
              else Npos (XI (XI (XI XH)))
  | Black ->
    if N.eqb s (Npos (XO (XO (XO (XI (XI XH))))))
    then Npos (XI (XI XH))
    else if N.eqb s (Npos (XO (XO (XI (XI (XI XH))))))
         then Npos (XI XH)
         else if N.eqb s (Npos (XI (XI (XI (XI (XI XH))))))
              then Npos (XI (XI (XO XH)))
              else Npos (XI (XI (XI XH)))

(** val cr_remove_for_sq : n -> color -> n -> n **)

let cr_remove_for_sq r c s =
  N.coq_land r (cr_keep c s)

(** val king_sq : board -> color -> n **)

let king_sq b c =
  tz64 (bb_and (colors b c) b.b_king)

(** val zobrist : board -> n **)

let zobrist b =
  N.coq_lxor
    (N.coq_lxor (N.coq_lxor b.b_zob (zkey_turn b.b_turn))
      (match b.b_ep with
       | Some f -> zkey_ep f
       | None -> N0)) (zkey_castle b.b_rights)

(** val in_check0 : board -> bool **)

let in_check0 b =
  any b.b_checkers

(** val enpassant_pos : board -> n option **)

let enpassant_pos b =
  match b.b_ep with
  | Some f ->
    Some
      (mk_sq f
        (match b.b_turn with
         | White -> Npos (XI (XO XH))
         | Black -> Npos (XO XH)))
  | None -> None

(** val ep_capture_rank_of : color -> n **)

let ep_capture_rank_of = function
| White -> Npos (XI (XO XH))
| Black -> Npos (XO XH)

(** val ep_pawn_rank_of : color -> n **)

let ep_pawn_rank_of = function
| White -> Npos (XO (XO XH))
| Black -> Npos (XI XH)

(** val board_eqb : board -> board -> bool **)

let board_eqb a b =
  (&&)
    ((&&)
      ((&&)
        ((&&)
          ((&&)
            ((&&)
              ((&&)
                ((&&)
                  ((&&)
                    ((&&) (color_eqb a.b_turn b.b_turn)
                      (N.eqb a.b_rights b.b_rights))
                    (match a.b_ep with
                     | Some x ->
                       (match b.b_ep with
                        | Some y -> N.eqb x y
                        | None -> false)
                     | None ->
                       (match b.b_ep with
                        | Some _ -> false
                        | None -> true))) (N.eqb a.b_white b.b_white))
                (N.eqb a.b_black b.b_black)) (N.eqb a.b_pawn b.b_pawn))
            (N.eqb a.b_knight b.b_knight)) (N.eqb a.b_bishop b.b_bishop))
        (N.eqb a.b_rook b.b_rook)) (N.eqb a.b_queen b.b_queen))
    (N.eqb a.b_king b.b_king)

(** val board_all_eqb : board -> board -> bool **)

let board_all_eqb a b =
  (&&)
    ((&&)
      ((&&)
        ((&&) ((&&) (board_eqb a b) (N.eqb a.b_zob b.b_zob))
          (N.eqb a.b_half b.b_half)) (N.eqb a.b_full b.b_full))
      (N.eqb a.b_pinned b.b_pinned)) (N.eqb a.b_checkers b.b_checkers)

(** val scan_sliders : n -> n -> n list -> n * n **)

let scan_sliders occ k sliders =
  fold_left (fun acc s ->
    let (pinned, checkers) = acc in
    let btw = bb_and occ (between_geo k s) in
    if none btw
    then (pinned, (bb_with checkers s))
    else if N.eqb (count btw) (Npos XH)
         then ((bb_or pinned btw), checkers)
         else (pinned, checkers)) sliders (N0, N0)

(** val update_pin_info : board -> board **)

let update_pin_info b =
  let k = king_sq b b.b_turn in
  let opp_bb = colors b (opp0 b.b_turn) in
  let bishop_pinners = bb_and (bb_or b.b_bishop b.b_queen) (bishop_rays_geo k)
  in
  let rook_pinners = bb_and (bb_or b.b_rook b.b_queen) (rook_rays_geo k) in
  let pinners = bb_and opp_bb (bb_or bishop_pinners rook_pinners) in
  let (pinned, checkers) = scan_sliders (all_occ b) k (elements pinners) in
  let checkers0 =
    bb_or checkers (bb_and (bb_and (knight_geo k) b.b_knight) opp_bb)
  in
  let checkers1 =
    bb_or checkers0
      (bb_and (bb_and (pawn_att_geo b.b_turn k) b.b_pawn) opp_bb)
  in
  set_pins b pinned checkers1

type verr =
| MissingKings
| InvalidCastleRights
| InvalidEnpassant
| TooManyPieces
| OpponentInCheck

(** val validate_en_passant : board -> bool **)

let validate_en_passant b =
  match b.b_ep with
  | Some f ->
    (match raw_get b (mk_sq f (ep_capture_rank_of b.b_turn)) with
     | Some _ -> false
     | None ->
       (match raw_get b (mk_sq f (ep_pawn_rank_of b.b_turn)) with
        | Some p0 ->
          let (c, p) = p0 in
          (&&) (negb (color_eqb c b.b_turn)) (piece_eqb p Pawn)
        | None -> false))
  | None -> true

(** val get_is : board -> n -> color -> piece -> bool **)

let get_is b s c p =
  match raw_get b s with
  | Some p0 -> let (c', p') = p0 in (&&) (color_eqb c c') (piece_eqb p p')
  | None -> false

(** val validate_castle_rights : board -> bool **)

let validate_castle_rights b =
  let r = b.b_rights in
  (&&)
    ((&&)
      ((&&)
        ((&&)
          ((&&)
            ((||) (negb (cr_contains r KingSide White))
              (get_is b (Npos (XI (XI XH))) White Rook))
            ((||) (negb (cr_contains r QueenSide White))
              (get_is b N0 White Rook)))
          ((||) (negb (cr_contains r KingSide Black))
            (get_is b (Npos (XI (XI (XI (XI (XI XH)))))) Black Rook)))
        ((||) (negb (cr_contains r QueenSide Black))
          (get_is b (Npos (XO (XO (XO (XI (XI XH)))))) Black Rook)))
      ((||) (negb (cr_contains_color r White))
        (get_is b (Npos (XO (XO XH))) White King)))
    ((||) (negb (cr_contains_color r Black))
      (get_is b (Npos (XO (XO (XI (XI (XI XH)))))) Black King))

(** val attackers_of : board -> color -> n -> n -> n **)

let attackers_of b c s occ =
  let cb = colors b c in
  let sl =
    bb_or
      (bb_and (bb_and (bb_or b.b_bishop b.b_queen) cb) (bishop_attacks s occ))
      (bb_and (bb_and (bb_or b.b_rook b.b_queen) cb) (rook_attacks s occ))
  in
  bb_or sl
    (bb_or (bb_and (bb_and (knight_geo s) b.b_knight) cb)
      (bb_or (bb_and (bb_and (king_geo s) b.b_king) cb)
        (bb_and (bb_and (pawn_att_geo (opp0 c) s) b.b_pawn) cb)))

(** val validate : board -> verr option **)

let validate b =
  if negb (has_kings b)
  then Some MissingKings
  else if (||) (N.ltb (Npos (XO (XO (XO (XO XH))))) (count b.b_white))
            (N.ltb (Npos (XO (XO (XO (XO XH))))) (count b.b_black))
       then Some TooManyPieces
       else if negb (validate_en_passant b)
            then Some InvalidEnpassant
            else if negb (validate_castle_rights b)
                 then Some InvalidCastleRights
                 else if any
                           (attackers_of b b.b_turn
                             (king_sq b (opp0 b.b_turn)) (all_occ b))
                      then Some OpponentInCheck
                      else None

(** val empty_board : board **)

let empty_board =
  { b_zob = N0; b_turn = White; b_rights = N0; b_ep = None; b_half = N0;
    b_full = N0; b_pinned = N0; b_checkers = N0; b_white = N0; b_black = N0;
    b_pawn = N0; b_knight = N0; b_bishop = N0; b_rook = N0; b_queen = N0;
    b_king = N0 }

(** val standard : board **)

let standard =
  { b_zob = (Npos (XI (XI (XO (XI (XI (XI (XO (XO (XO (XO (XI (XO (XI (XO (XI
    (XO (XO (XO (XI (XO (XI (XO (XI (XO (XO (XI (XI (XO (XI (XI (XO (XI (XO
    (XO (XO (XI (XI (XO (XO (XI (XI (XI (XI (XO (XO (XI (XO (XO (XI (XO (XO
    (XI (XO (XO (XO (XI (XO (XI (XO (XO (XO (XO (XO
    XH))))))))))))))))))))))))))))))))))))))))))))))))))))))))))))))));
    b_turn = White; b_rights = cr_full; b_ep = None; b_half = N0; b_full =
    N0; b_pinned = N0; b_checkers = N0; b_white = (Npos (XI (XI (XI (XI (XI
    (XI (XI (XI (XI (XI (XI (XI (XI (XI (XI XH)))))))))))))))); b_black =
    (Npos (XO (XO (XO (XO (XO (XO (XO (XO (XO (XO (XO (XO (XO (XO (XO (XO (XO
    (XO (XO (XO (XO (XO (XO (XO (XO (XO (XO (XO (XO (XO (XO (XO (XO (XO (XO
    (XO (XO (XO (XO (XO (XO (XO (XO (XO (XO (XO (XO (XO (XI (XI (XI (XI (XI
    (XI (XI (XI (XI (XI (XI (XI (XI (XI (XI
    XH))))))))))))))))))))))))))))))))))))))))))))))))))))))))))))))));
    b_pawn = (Npos (XO (XO (XO (XO (XO (XO (XO (XO (XI (XI (XI (XI (XI (XI
    (XI (XI (XO (XO (XO (XO (XO (XO (XO (XO (XO (XO (XO (XO (XO (XO (XO (XO
    (XO (XO (XO (XO (XO (XO (XO (XO (XO (XO (XO (XO (XO (XO (XO (XO (XI (XI
    (XI (XI (XI (XI (XI
    XH)))))))))))))))))))))))))))))))))))))))))))))))))))))))); b_knight =
    (Npos (XO (XI (XO (XO (XO (XO (XI (XO (XO (XO (XO (XO (XO (XO (XO (XO (XO
    (XO (XO (XO (XO (XO (XO (XO (XO (XO (XO (XO (XO (XO (XO (XO (XO (XO (XO
    (XO (XO (XO (XO (XO (XO (XO (XO (XO (XO (XO (XO (XO (XO (XO (XO (XO (XO
    (XO (XO (XO (XO (XI (XO (XO (XO (XO
    XH)))))))))))))))))))))))))))))))))))))))))))))))))))))))))))))));
    b_bishop = (Npos (XO (XO (XI (XO (XO (XI (XO (XO (XO (XO (XO (XO (XO (XO
    (XO (XO (XO (XO (XO (XO (XO (XO (XO (XO (XO (XO (XO (XO (XO (XO (XO (XO
    (XO (XO (XO (XO (XO (XO (XO (XO (XO (XO (XO (XO (XO (XO (XO (XO (XO (XO
    (XO (XO (XO (XO (XO (XO (XO (XO (XI (XO (XO
    XH))))))))))))))))))))))))))))))))))))))))))))))))))))))))))))));
    b_rook = (Npos (XI (XO (XO (XO (XO (XO (XO (XI (XO (XO (XO (XO (XO (XO
    (XO (XO (XO (XO (XO (XO (XO (XO (XO (XO (XO (XO (XO (XO (XO (XO (XO (XO
    (XO (XO (XO (XO (XO (XO (XO (XO (XO (XO (XO (XO (XO (XO (XO (XO (XO (XO
    (XO (XO (XO (XO (XO (XO (XI (XO (XO (XO (XO (XO (XO
    XH))))))))))))))))))))))))))))))))))))))))))))))))))))))))))))))));
    b_queen = (Npos (XO (XO (XO (XI (XO (XO (XO (XO (XO (XO (XO (XO (XO (XO
    (XO (XO (XO (XO (XO (XO (XO (XO (XO (XO (XO (XO (XO (XO (XO (XO (XO (XO
    (XO (XO (XO (XO (XO (XO (XO (XO (XO (XO (XO (XO (XO (XO (XO (XO (XO (XO
    (XO (XO (XO (XO (XO (XO (XO (XO (XO
    XH)))))))))))))))))))))))))))))))))))))))))))))))))))))))))))); b_king =
    (Npos (XO (XO (XO (XO (XI (XO (XO (XO (XO (XO (XO (XO (XO (XO (XO (XO (XO
    (XO (XO (XO (XO (XO (XO (XO (XO (XO (XO (XO (XO (XO (XO (XO (XO (XO (XO
    (XO (XO (XO (XO (XO (XO (XO (XO (XO (XO (XO (XO (XO (XO (XO (XO (XO (XO
    (XO (XO (XO (XO (XO (XO (XO
    XH))))))))))))))))))))))))))))))))))))))))))))))))))))))))))))) }

type bop =
| BTurn of color
| BHalf of n
| BFull of n
| BEnpassant of n option
| BPlace of n * color * piece
| BRemove of n

(** val bstep : board -> bop -> board * bool **)

let bstep b = function
| BTurn c ->
  ((set_meta b c b.b_rights b.b_ep b.b_half b.b_full b.b_pinned b.b_checkers),
    true)
| BHalf n0 ->
  ((set_meta b b.b_turn b.b_rights b.b_ep n0 b.b_full b.b_pinned b.b_checkers),
    true)
| BFull n0 ->
  ((set_meta b b.b_turn b.b_rights b.b_ep b.b_half n0 b.b_pinned b.b_checkers),
    true)
| BEnpassant f ->
  ((set_meta b b.b_turn b.b_rights f b.b_half b.b_full b.b_pinned
     b.b_checkers), true)
| BPlace (s, c, p) ->
  if contains (all_occ b) s
  then (b, false)
  else let b1 = raw_set_unchecked b c p s in
       ((set_zob b1 (N.coq_lxor b1.b_zob (zkey s p c))), true)
| BRemove s ->
  (match raw_get b s with
   | Some p0 ->
     let (c, p) = p0 in
     let b1 = set_zob b (N.coq_lxor b.b_zob (zkey s p c)) in
     ((raw_remove b1 c p s), true)
   | None -> (b, true))

(** val build : board -> (board, verr) sum **)

let build b =
  match validate b with
  | Some e -> Inr e
  | None -> Inl (update_pin_info b)

(** val abs : board -> position **)

let abs b =
  { cells = (map (raw_get b) sq_list); stm = b.b_turn; cr_wk =
    (cr_contains b.b_rights KingSide White); cr_wq =
    (cr_contains b.b_rights QueenSide White); cr_bk =
    (cr_contains b.b_rights KingSide Black); cr_bq =
    (cr_contains b.b_rights QueenSide Black); epf = b.b_ep; hm = b.b_half;
    fm = b.b_full }

type entry = { e_src : n; e_moves : n; e_promo : bool }

(** val check_mask : board -> bool -> n -> n **)

let check_mask b is_in_check k =
  if is_in_check
  then bb_or (between_geo k (tz64 b.b_checkers)) b.b_checkers
  else bb_full

(** val pseudo_legals : piece -> n -> color -> n -> n -> n **)

let pseudo_legals pc src c occ mask0 =
  match pc with
  | Pawn -> bb_and (pawn_moves_spec c src occ) mask0
  | Knight -> bb_and (knight_geo src) mask0
  | Bishop -> bb_and (bishop_attacks src occ) mask0
  | Rook -> bb_and (rook_attacks src occ) mask0
  | Queen ->
    bb_and (bb_or (rook_attacks src occ) (bishop_attacks src occ)) mask0
  | King -> bb_and (king_geo src) mask0

(** val mk_entries : n list -> (n -> n) -> (n -> bool) -> entry list **)

let mk_entries srcs f promo0 =
  flat_map (fun src ->
    let mv = f src in
    if none mv
    then []
    else { e_src = src; e_moves = mv; e_promo = (promo0 src) } :: []) srcs

(** val piece_legals : piece -> bool -> bool -> board -> n -> entry list **)

let piece_legals pc can_move_if_pinned is_in_check b mask0 =
  let occ = all_occ b in
  let my = colors b b.b_turn in
  let k = king_sq b b.b_turn in
  let ps = bb_and (pieces b pc) my in
  let cm = check_mask b is_in_check k in
  let l1 =
    mk_entries (elements (bb_and ps (bb_not b.b_pinned))) (fun src ->
      bb_and (pseudo_legals pc src b.b_turn occ mask0) cm) (fun _ -> false)
  in
  if (||) is_in_check (negb can_move_if_pinned)
  then l1
  else app l1
         (mk_entries (elements (bb_and ps b.b_pinned)) (fun src ->
           bb_and (pseudo_legals pc src b.b_turn occ mask0) (line_geo src k))
           (fun _ -> false))

(** val is_legal_en_passant : board -> n -> n -> n -> n -> bool **)

let is_legal_en_passant b src dest captured k =
  let captured_bb = from_pos captured in
  let opp_bb = bb_diff (colors b (opp0 b.b_turn)) captured_bb in
  let steppers = bb_and (bb_or b.b_knight b.b_pawn) opp_bb in
  if any (bb_and b.b_checkers steppers)
  then false
  else let occ =
         bb_or (bb_diff (bb_diff (all_occ b) (from_pos src)) captured_bb)
           (from_pos dest)
       in
       let bishops = bb_and (bb_or b.b_bishop b.b_queen) opp_bb in
       let rooks = bb_and (bb_or b.b_rook b.b_queen) opp_bb in
       none
         (bb_or (bb_and (bishop_attacks k occ) bishops)
           (bb_and (rook_attacks k occ) rooks))

(** val adjacent_files : n -> n **)

let adjacent_files f =
  let fb = from_file f in bb_or (shift_left fb) (shift_right fb)

(** val pawn_legals : bool -> board -> n -> entry list **)

let pawn_legals is_in_check b mask0 =
  let occ = all_occ b in
  let c = b.b_turn in
  let my = colors b c in
  let k = king_sq b c in
  let ps = bb_and b.b_pawn my in
  let cm = check_mask b is_in_check k in
  let seventh = match c with
                | White -> Npos (XO (XI XH))
                | Black -> Npos XH in
  let promo0 = fun src -> N.eqb (rank_of src) seventh in
  let l1 =
    mk_entries (elements (bb_and ps (bb_not b.b_pinned))) (fun src ->
      bb_and (pseudo_legals Pawn src c occ mask0) cm) promo0
  in
  let l2 =
    if is_in_check
    then []
    else mk_entries (elements (bb_and ps b.b_pinned)) (fun src ->
           bb_and (pseudo_legals Pawn src c occ mask0) (line_geo k src))
           promo0
  in
  let l3 =
    match b.b_ep with
    | Some f ->
      let rank = ep_pawn_rank_of c in
      let dest = mk_sq f (ep_capture_rank_of c) in
      let captured = mk_sq f rank in
      flat_map (fun src ->
        if is_legal_en_passant b src dest captured k
        then { e_src = src; e_moves = (from_pos dest); e_promo = false } :: []
        else [])
        (elements (bb_and (bb_and (from_rank rank) (adjacent_files f)) ps))
    | None -> []
  in
  app l1 (app l2 l3)

(** val is_legal_king_position : board -> n -> bool **)

let is_legal_king_position b kp =
  let c = b.b_turn in
  let opp_bb = colors b (opp0 c) in
  let bishop_pinners =
    bb_and (bb_or b.b_bishop b.b_queen) (bishop_rays_geo kp)
  in
  let rook_pinners = bb_and (bb_or b.b_rook b.b_queen) (rook_rays_geo kp) in
  let pinners = bb_and opp_bb (bb_or bishop_pinners rook_pinners) in
  let actual = bb_xor (from_pos (king_sq b c)) (from_pos kp) in
  let occ = bb_xor (all_occ b) actual in
  (&&)
    (forallb (fun s -> any (bb_and occ (between_geo kp s)))
      (elements pinners))
    (none
      (bb_or
        (bb_or (bb_and (bb_and (king_geo kp) b.b_king) opp_bb)
          (bb_and (bb_and (knight_geo kp) b.b_knight) opp_bb))
        (bb_and (bb_and (pawn_att_geo c kp) b.b_pawn) opp_bb)))

(** val bACKRANK_BB_of : color -> n **)

let bACKRANK_BB_of c =
  from_rank (match c with
             | White -> N0
             | Black -> Npos (XI (XI XH)))

(** val cASTLE_MOVES_bb : n **)

let cASTLE_MOVES_bb =
  fold_left bb_with ((Npos (XO XH)) :: ((Npos (XO (XI (XO (XI (XI
    XH)))))) :: ((Npos (XO (XO XH))) :: ((Npos (XO (XO (XI (XI (XI
    XH)))))) :: ((Npos (XO (XI XH))) :: ((Npos (XO (XI (XI (XI (XI
    XH)))))) :: [])))))) bb_empty

(** val kINGSIDE_FILES : n **)

let kINGSIDE_FILES =
  bb_or (from_file (Npos (XI (XO XH)))) (from_file (Npos (XO (XI XH))))

(** val qUEENSIDE_FILES : n **)

let qUEENSIDE_FILES =
  bb_or (bb_or (from_file (Npos XH)) (from_file (Npos (XO XH))))
    (from_file (Npos (XI XH)))

(** val qUEENSIDE_SAFE_FILES : n **)

let qUEENSIDE_SAFE_FILES =
  bb_or (from_file (Npos (XO XH))) (from_file (Npos (XI XH)))

(** val king_legals : bool -> board -> color -> n -> entry list **)

let king_legals is_in_check b turn mask0 =
  let occ = all_occ b in
  let k = king_sq b turn in
  let ps = pseudo_legals King k turn occ mask0 in
  let moves =
    fold_left (fun mv d ->
      if is_legal_king_position b d then mv else cleared mv d) (elements ps)
      ps
  in
  let castle = fun sd files safe mv ->
    if negb (cr_contains b.b_rights sd turn)
    then mv
    else let backrank = bACKRANK_BB_of turn in
         let tiles = bb_and files backrank in
         if none (bb_and tiles occ)
         then if forallb (is_legal_king_position b)
                   (elements (bb_and safe backrank))
              then bb_xor mv (bb_and tiles cASTLE_MOVES_bb)
              else mv
         else mv
  in
  let moves0 =
    if is_in_check
    then moves
    else castle QueenSide qUEENSIDE_FILES qUEENSIDE_SAFE_FILES
           (castle KingSide kINGSIDE_FILES kINGSIDE_FILES moves)
  in
  if none moves0
  then []
  else { e_src = k; e_moves = moves0; e_promo = false } :: []

(** val collect_moves : board -> n -> entry list **)

let collect_moves b mask0 =
  let mask1 = bb_and (bb_not (colors b b.b_turn)) mask0 in
  if none b.b_checkers
  then app (pawn_legals false b mask1)
         (app (piece_legals Knight false false b mask1)
           (app (piece_legals Bishop true false b mask1)
             (app (piece_legals Rook true false b mask1)
               (app (piece_legals Queen true false b mask1)
                 (king_legals false b b.b_turn mask1)))))
  else app
         (if N.eqb (count b.b_checkers) (Npos XH)
          then app (pawn_legals true b mask1)
                 (app (piece_legals Knight false true b mask1)
                   (app (piece_legals Bishop true true b mask1)
                     (app (piece_legals Rook true true b mask1)
                       (piece_legals Queen true true b mask1))))
          else []) (king_legals true b b.b_turn mask1)

(** val collect_king_moves : board -> color -> entry list **)

let collect_king_moves b turn =
  king_legals (any b.b_checkers) b turn (bb_not (colors b turn))

type movegen = { g_moves : entry list; g_promo : n; g_mask : n; g_index : nat }

(** val mg_new : entry list -> n -> movegen **)

let mg_new entries mask0 =
  { g_moves = entries; g_promo = N0; g_mask = mask0; g_index = O }

(** val legals_gen : board -> movegen **)

let legals_gen b =
  mg_new (collect_moves b bb_full) bb_full

(** val legals_masked_gen : board -> n -> movegen **)

let legals_masked_gen b mask0 =
  mg_new (collect_moves b mask0) mask0

(** val king_legals_gen : board -> color -> movegen **)

let king_legals_gen b turn =
  mg_new (collect_king_moves b turn) bb_full

(** val live : movegen -> entry -> bool **)

let live g0 e =
  any (bb_and e.e_moves g0.g_mask)

(** val mg_is_empty : movegen -> bool **)

let mg_is_empty g0 =
  forallb (fun e -> negb (live g0 e)) (skipn g0.g_index g0.g_moves)

(** val mg_len : movegen -> n **)

let mg_len g0 =
  fst
    (fold_left (fun acc e ->
      let (len, inprog) = acc in
      let cnt = count (bb_and e.e_moves g0.g_mask) in
      if N.eqb cnt N0
      then (len, inprog)
      else ((N.add len
              (if e.e_promo
               then N.sub (N.mul cnt (Npos (XO (XO XH)))) inprog
               else cnt)), N0)) (skipn g0.g_index g0.g_moves) (N0,
      g0.g_promo))

(** val mg_remove : movegen -> n -> movegen **)

let mg_remove g0 m =
  { g_moves =
    (map (fun e -> { e_src = e.e_src; e_moves = (bb_diff e.e_moves m);
      e_promo = e.e_promo }) g0.g_moves); g_promo = g0.g_promo; g_mask =
    g0.g_mask; g_index = g0.g_index }

(** val mg_remove_move : movegen -> move -> movegen * bool **)

let mg_remove_move g0 m =
  ({ g_moves =
    (map (fun e ->
      if N.eqb e.e_src m.m_src
      then { e_src = e.e_src; e_moves = (cleared e.e_moves m.m_dst);
             e_promo = e.e_promo }
      else e) g0.g_moves); g_promo = g0.g_promo; g_mask = g0.g_mask;
    g_index = g0.g_index },
    (existsb (fun e -> N.eqb e.e_src m.m_src) g0.g_moves))

(** val swap_front : nat -> entry list -> nat -> nat -> n -> entry list **)

let rec swap_front fuel l i j mask0 =
  match fuel with
  | O -> l
  | S f ->
    (match nth_error l i with
     | Some ei ->
       if any (bb_and ei.e_moves mask0)
       then let l' =
              if Nat.eqb i j
              then l
              else (match nth_error l j with
                    | Some ej -> set_nth (set_nth l i ej) j ei
                    | None -> l)
            in
            swap_front f l' (S i) (S j) mask0
       else swap_front f l (S i) j mask0
     | None -> l)

(** val mg_set_mask : movegen -> n -> movegen **)

let mg_set_mask g0 mask0 =
  { g_moves = (swap_front (S (length g0.g_moves)) g0.g_moves O O mask0);
    g_promo = g0.g_promo; g_mask = mask0; g_index = O }

(** val promo_at : n -> piece **)

let promo_at = function
| N0 -> Queen
| Npos p ->
  (match p with
   | XI _ -> Knight
   | XO p0 -> (match p0 with
               | XH -> Bishop
               | _ -> Knight)
   | XH -> Rook)

(** val skip_dead : movegen -> entry list -> nat -> nat **)

let rec skip_dead g0 l i =
  match l with
  | [] -> i
  | e :: r -> if live g0 e then i else skip_dead g0 r (S i)

(** val set_entry : movegen -> nat -> entry -> n -> nat -> movegen **)

let set_entry g0 i e promo0 index =
  { g_moves = (set_nth g0.g_moves i e); g_promo = promo0; g_mask = g0.g_mask;
    g_index = index }

(** val mg_next : movegen -> move option * movegen **)

let mg_next g0 =
  let i = skip_dead g0 (skipn g0.g_index g0.g_moves) g0.g_index in
  let g1 = { g_moves = g0.g_moves; g_promo = g0.g_promo; g_mask = g0.g_mask;
    g_index = i }
  in
  (match nth_error g0.g_moves i with
   | Some e ->
     let masked = bb_and e.e_moves g0.g_mask in
     let dest = tz64 masked in
     let rest = bb_xor masked (from_pos dest) in
     if e.e_promo
     then let mv = { m_src = e.e_src; m_dst = dest; m_promo = (Some
            (promo_at g0.g_promo)) }
          in
          if N.eqb g0.g_promo (Npos (XI XH))
          then let e' = { e_src = e.e_src; e_moves =
                 (cleared e.e_moves dest); e_promo = true }
               in
               ((Some mv),
               (set_entry g0 i e' N0
                 (if none (bb_and rest g0.g_mask) then S i else i)))
          else ((Some mv), (set_entry g0 i e (N.add g0.g_promo (Npos XH)) i))
     else let e' = { e_src = e.e_src; e_moves = (cleared e.e_moves dest);
            e_promo = false }
          in
          ((Some { m_src = e.e_src; m_dst = dest; m_promo = None }),
          (set_entry g0 i e' g0.g_promo (if none rest then S i else i)))
   | None -> (None, g1))

(** val drain_bound : movegen -> nat **)

let drain_bound g0 =
  S
    (fold_right (fun e a ->
      add (mul (S (S (S (S O)))) (N.to_nat (count e.e_moves))) a) O
      g0.g_moves)

(** val mg_drain_fuel : nat -> movegen -> move list **)

let rec mg_drain_fuel fuel g0 =
  match fuel with
  | O -> []
  | S f ->
    let (o, g') = mg_next g0 in
    (match o with
     | Some m -> m :: (mg_drain_fuel f g')
     | None -> [])

(** val mg_drain : movegen -> move list **)

let mg_drain g0 =
  mg_drain_fuel (drain_bound g0) g0

(** val legals : board -> move list **)

let legals b =
  mg_drain (legals_gen b)

(** val is_legal : board -> move -> bool **)

let is_legal b m =
  existsb (move_eqb m) (legals b)

(** val sat16 : n -> n **)

let sat16 x =
  if N.ltb (Npos (XI (XI (XI (XI (XI (XI (XI (XI (XI (XI (XI (XI (XI (XI (XI
       XH)))))))))))))))) x
  then Npos (XI (XI (XI (XI (XI (XI (XI (XI (XI (XI (XI (XI (XI (XI (XI
         XH)))))))))))))))
  else x

(** val set_half : board -> n -> board **)

let set_half b h =
  set_meta b b.b_turn b.b_rights b.b_ep h b.b_full b.b_pinned b.b_checkers

(** val set_full : board -> n -> board **)

let set_full b f =
  set_meta b b.b_turn b.b_rights b.b_ep b.b_half f b.b_pinned b.b_checkers

(** val set_ep : board -> n option -> board **)

let set_ep b e =
  set_meta b b.b_turn b.b_rights e b.b_half b.b_full b.b_pinned b.b_checkers

(** val set_rights : board -> n -> board **)

let set_rights b r =
  set_meta b b.b_turn r b.b_ep b.b_half b.b_full b.b_pinned b.b_checkers

(** val set_checkers : board -> n -> board **)

let set_checkers b c =
  set_pins b b.b_pinned c

(** val apply : board -> move -> board **)

let apply self mv =
  let turn = self.b_turn in
  let out =
    set_meta self (opp0 turn) self.b_rights None self.b_half self.b_full N0 N0
  in
  let source_bb = from_pos mv.m_src in
  let dest_bb = from_pos mv.m_dst in
  let mv_bb = bb_xor source_bb dest_bb in
  let pc = piece_of_unchecked self mv.m_src in
  let captured = piece_of self mv.m_dst in
  let out0 = board_xor out turn pc mv_bb in
  let out1 =
    match captured with
    | Some cp -> set_half (board_xor out0 (opp0 turn) cp dest_bb) N0
    | None -> set_half out0 (sat16 (N.add out0.b_half (Npos XH)))
  in
  let out2 = set_full out1 (sat16 (N.add out1.b_full (color_idx turn))) in
  let out3 =
    set_rights out2
      (cr_remove_for_sq (cr_remove_for_sq out2.b_rights (opp0 turn) mv.m_dst)
        turn mv.m_src)
  in
  let opp_king = king_sq self (opp0 turn) in
  let castles =
    (&&) (piece_eqb pc King) (N.eqb (bb_and mv_bb cASTLE_MOVES_bb) mv_bb)
  in
  let out4 =
    match pc with
    | Pawn ->
      let out4 = set_half out3 N0 in
      let out5 =
        match mv.m_promo with
        | Some promotion ->
          let out5 =
            if piece_eqb promotion Knight
            then set_checkers out4
                   (bb_xor out4.b_checkers
                     (bb_and (knight_geo opp_king) dest_bb))
            else out4
          in
          board_xor (board_xor out5 turn Pawn dest_bb) turn promotion dest_bb
        | None ->
          if N.eqb
               (bb_and mv_bb
                 (match turn with
                  | White ->
                    bb_or (from_rank (Npos XH)) (from_rank (Npos (XI XH)))
                  | Black ->
                    bb_or (from_rank (Npos (XO (XO XH))))
                      (from_rank (Npos (XO (XI XH)))))) mv_bb
          then set_ep out4 (Some (file_of mv.m_dst))
          else (match enpassant_pos self with
                | Some ep ->
                  if N.eqb mv.m_dst ep
                  then board_xor out4 (opp0 turn) Pawn
                         (from_pos
                           (mk_sq (file_of mv.m_dst) (ep_pawn_rank_of turn)))
                  else out4
                | None -> out4)
      in
      (match mv.m_promo with
       | Some _ -> out5
       | None ->
         set_checkers out5
           (bb_xor out5.b_checkers
             (bb_and (pawn_att_geo (opp0 turn) opp_king) dest_bb)))
    | Knight ->
      set_checkers out3
        (bb_xor out3.b_checkers (bb_and (knight_geo opp_king) dest_bb))
    | _ ->
      if castles
      then let rook_mv =
             bb_and (bACKRANK_BB_of turn)
               (if N.ltb (file_of mv.m_dst) (Npos (XO (XO XH)))
                then bb_or (from_file N0) (from_file (Npos (XI XH)))
                else bb_or (from_file (Npos (XI (XI XH))))
                       (from_file (Npos (XI (XO XH)))))
           in
           board_xor out3 turn Rook rook_mv
      else out3
  in
  let mine = colors out4 turn in
  let bishops = bb_or out4.b_bishop out4.b_queen in
  let rooks = bb_or out4.b_rook out4.b_queen in
  let attackers =
    bb_or (bb_and (bb_and bishops mine) (bishop_rays_geo opp_king))
      (bb_and (bb_and rooks mine) (rook_rays_geo opp_king))
  in
  let occ = all_occ out4 in
  let (pinned, checkers) =
    fold_left (fun acc a ->
      let (pn, ck) = acc in
      let btw = bb_and occ (between_geo opp_king a) in
      if none btw
      then (pn, (bb_with ck a))
      else if N.eqb (count btw) (Npos XH)
           then ((bb_xor pn btw), ck)
           else (pn, ck)) (elements attackers) (out4.b_pinned,
      out4.b_checkers)
  in
  set_pins out4 pinned checkers

type gstate =
| GCheckMate
| GStaleMate
| GCheck
| GRunning

(** val state : board -> gstate **)

let state b =
  let nomoves = mg_is_empty (legals_gen b) in
  let chk = in_check0 b in
  if (&&) nomoves chk
  then GCheckMate
  else if (||) nomoves
            (N.leb (Npos (XO (XO (XI (XO (XO (XI XH))))))) b.b_half)
       then GStaleMate
       else if chk then GCheck else GRunning

type ws_kind =
| WsPieces
| WsTurn
| WsCastleRights
| WsEnpassant
| WsHalfMoveClock

type perr =
| InvalidPiece of n * n
| MissingPiece of n
| MissingWhitespace of ws_kind
| InvalidTurn of n
| MissingTurn
| FileOutOfBounds of n
| InvalidEnpassantE of n * n
| MissingEnpassant
| MissingCastleRights
| MissingHalfClock
| MissingFullClock
| TrailingBytes
| BoardValidation of verr

type presult =
| POk of board
| PErr of perr

(** val parse_piece_byte : n -> (color * piece, n) sum option **)

let parse_piece_byte x =
  if N.eqb x (Npos (XO (XO (XO (XO (XI (XI XH)))))))
  then Some (Inl (Black, Pawn))
  else if N.eqb x (Npos (XO (XI (XI (XI (XO (XI XH)))))))
       then Some (Inl (Black, Knight))
       else if N.eqb x (Npos (XO (XI (XO (XO (XO (XI XH)))))))
            then Some (Inl (Black, Bishop))
            else if N.eqb x (Npos (XO (XI (XO (XO (XI (XI XH)))))))
                 then Some (Inl (Black, Rook))
                 else if N.eqb x (Npos (XI (XO (XO (XO (XI (XI XH)))))))
                      then Some (Inl (Black, Queen))
                      else if N.eqb x (Npos (XI (XI (XO (XI (XO (XI XH)))))))
                           then Some (Inl (Black, King))
                           else if N.eqb x (Npos (XO (XO (XO (XO (XI (XO
                                     XH)))))))
                                then Some (Inl (White, Pawn))
                                else if N.eqb x (Npos (XO (XI (XI (XI (XO (XO
                                          XH)))))))
                                     then Some (Inl (White, Knight))
                                     else if N.eqb x (Npos (XO (XI (XO (XO
                                               (XO (XO XH)))))))
                                          then Some (Inl (White, Bishop))
                                          else if N.eqb x (Npos (XO (XI (XO
                                                    (XO (XI (XO XH)))))))
                                               then Some (Inl (White, Rook))
                                               else if N.eqb x (Npos (XI (XO
                                                         (XO (XO (XI (XO
                                                         XH)))))))
                                                    then Some (Inl (White,
                                                           Queen))
                                                    else if N.eqb x (Npos (XI
                                                              (XI (XO (XI (XO
                                                              (XO XH)))))))
                                                         then Some (Inl
                                                                (White, King))
                                                         else if (&&)
                                                                   (N.leb
                                                                    (Npos (XI
                                                                    (XO (XO
                                                                    (XO (XI
                                                                    XH))))))
                                                                    x)
                                                                   (N.leb x
                                                                    (Npos (XO
                                                                    (XO (XO
                                                                    (XI (XI
                                                                    XH)))))))
                                                              then Some (Inr
                                                                    (N.sub x
                                                                    (Npos (XO
                                                                    (XO (XO
                                                                    (XO (XI
                                                                    XH))))))))
                                                              else None

(** val placement :
    n list -> n -> n -> board -> (perr, board * n list) sum outcome **)

let rec placement s file rank b =
  if N.leb (Npos (XO (XO (XO XH)))) file
  then Trap
  else let pos = mk_sq file rank in
       (match s with
        | [] -> Ret (Inl (MissingPiece pos))
        | x :: rest ->
          let after = fun file' b' k ->
            if N.leb file' (Npos (XI (XI XH)))
            then k file' rank b'
            else if N.eqb file' (Npos (XO (XO (XO XH))))
                 then if N.eqb rank N0
                      then Ret (Inr (b', rest))
                      else k N0 (N.sub rank (Npos XH)) b'
                 else Ret (Inl (FileOutOfBounds rank))
          in
          (match parse_piece_byte x with
           | Some s0 ->
             (match s0 with
              | Inl p0 ->
                let (c, p) = p0 in
                let b1 = raw_set_unchecked b c p pos in
                let b2 = set_zob b1 (N.coq_lxor b1.b_zob (zkey pos p c)) in
                after (N.add file (Npos XH)) b2 (fun f r bb ->
                  placement rest f r bb)
              | Inr d ->
                after (N.add file d) b (fun f r bb -> placement rest f r bb))
           | None ->
             if N.eqb x (Npos (XI (XI (XI (XI (XO XH))))))
             then after file b (fun f r bb -> placement rest f r bb)
             else if N.eqb x (Npos (XO (XO (XO (XO (XO XH))))))
                  then placement rest file rank b
                  else Ret (Inl (InvalidPiece (x, pos)))))

(** val skip_spaces : n list -> n list **)

let rec skip_spaces s = match s with
| [] -> s
| x :: r ->
  if N.eqb x (Npos (XO (XO (XO (XO (XO XH)))))) then skip_spaces r else s

(** val parse_whitespace : n list -> ws_kind -> (perr, n list) sum **)

let parse_whitespace s k =
  match s with
  | [] -> Inl (MissingWhitespace k)
  | x :: r ->
    if N.eqb x (Npos (XO (XO (XO (XO (XO XH))))))
    then Inr (skip_spaces r)
    else Inl (MissingWhitespace k)

(** val parse_flag : n list -> n -> bool * n list **)

let parse_flag s b =
  match s with
  | [] -> (false, s)
  | x :: r -> if N.eqb x b then (true, r) else (false, s)

(** val parse_digits : nat -> n list -> n -> n * n list **)

let rec parse_digits n0 s acc =
  match n0 with
  | O -> (acc, s)
  | S n' ->
    (match s with
     | [] -> (acc, s)
     | d :: r ->
       if (&&) (N.leb (Npos (XO (XO (XO (XO (XI XH)))))) d)
            (N.leb d (Npos (XI (XO (XO (XI (XI XH)))))))
       then parse_digits n' r
              (N.add (N.mul acc (Npos (XO (XI (XO XH)))))
                (N.sub d (Npos (XO (XO (XO (XO (XI XH))))))))
       else (acc, s))

(** val parse_number : n list -> (n * n list) option **)

let parse_number s = match s with
| [] -> None
| d :: _ ->
  if (&&) (N.leb (Npos (XO (XO (XO (XO (XI XH)))))) d)
       (N.leb d (Npos (XI (XO (XO (XI (XI XH)))))))
  then Some (parse_digits (S (S (S (S O)))) s N0)
  else None

(** val is_empty_list : 'a1 list -> bool **)

let is_empty_list = function
| [] -> true
| _ :: _ -> false

(** val parse_fen_t : n list -> presult outcome **)

let parse_fen_t s =
  match placement s N0 (Npos (XI (XI XH))) empty_board with
  | Ret a ->
    (match a with
     | Inl e -> Ret (PErr e)
     | Inr p ->
       let (raw, s0) = p in
       (match parse_whitespace s0 WsPieces with
        | Inl e -> Ret (PErr e)
        | Inr s1 ->
          (match s1 with
           | [] -> Ret (PErr MissingTurn)
           | t :: s2 ->
             if negb
                  ((||) (N.eqb t (Npos (XO (XI (XO (XO (XO (XI XH))))))))
                    (N.eqb t (Npos (XI (XI (XI (XO (XI (XI XH)))))))))
             then Ret (PErr (InvalidTurn t))
             else let turn =
                    if N.eqb t (Npos (XO (XI (XO (XO (XO (XI XH)))))))
                    then Black
                    else White
                  in
                  (match parse_whitespace s2 WsTurn with
                   | Inl e -> Ret (PErr e)
                   | Inr s3 ->
                     let (wk, s4) =
                       parse_flag s3 (Npos (XI (XI (XO (XI (XO (XO XH)))))))
                     in
                     let (wq, s5) =
                       parse_flag s4 (Npos (XI (XO (XO (XO (XI (XO XH)))))))
                     in
                     let (bk, s6) =
                       parse_flag s5 (Npos (XI (XI (XO (XI (XO (XI XH)))))))
                     in
                     let (bq, s7) =
                       parse_flag s6 (Npos (XI (XO (XO (XO (XI (XI XH)))))))
                     in
                     let r = N0 in
                     let r0 = if wk then cr_with r KingSide White else r in
                     let r1 = if wq then cr_with r0 QueenSide White else r0 in
                     let r2 = if bk then cr_with r1 KingSide Black else r1 in
                     let r3 = if bq then cr_with r2 QueenSide Black else r2 in
                     let dash =
                       if (||) ((||) ((||) wk wq) bk) bq
                       then Some s7
                       else (match s7 with
                             | [] -> None
                             | x :: s' ->
                               if N.eqb x (Npos (XI (XO (XI (XI (XO XH))))))
                               then Some s'
                               else None)
                     in
                     (match dash with
                      | Some s8 ->
                        (match parse_whitespace s8 WsCastleRights with
                         | Inl e -> Ret (PErr e)
                         | Inr s9 ->
                           let ep =
                             match s9 with
                             | [] -> Inl MissingEnpassant
                             | f :: l ->
                               (match l with
                                | [] ->
                                  if N.eqb f (Npos (XI (XO (XI (XI (XO
                                       XH))))))
                                  then Inr (None, [])
                                  else Inl MissingEnpassant
                                | rk :: s' ->
                                  if (&&)
                                       ((&&)
                                         (N.leb (Npos (XI (XO (XO (XO (XO (XI
                                           XH))))))) f)
                                         (N.leb f (Npos (XO (XO (XO (XI (XO
                                           (XI XH)))))))))
                                       ((||)
                                         (N.eqb rk (Npos (XI (XI (XO (XO (XI
                                           XH)))))))
                                         (N.eqb rk (Npos (XO (XI (XI (XO (XI
                                           XH))))))))
                                  then if N.eqb rk
                                            (match turn with
                                             | White ->
                                               Npos (XO (XI (XI (XO (XI
                                                 XH)))))
                                             | Black ->
                                               Npos (XI (XI (XO (XO (XI
                                                 XH))))))
                                       then Inr ((Some
                                              (N.sub f (Npos (XI (XO (XO (XO
                                                (XO (XI XH))))))))), s')
                                       else Inl (InvalidEnpassantE (f, rk))
                                  else if N.eqb f (Npos (XI (XO (XI (XI (XO
                                            XH))))))
                                       then Inr (None, (rk :: s'))
                                       else Inl (InvalidEnpassantE (f, rk)))
                           in
                           (match ep with
                            | Inl e -> Ret (PErr e)
                            | Inr p0 ->
                              let (epv, s10) = p0 in
                              (match parse_whitespace s10 WsEnpassant with
                               | Inl e -> Ret (PErr e)
                               | Inr s11 ->
                                 (match parse_number s11 with
                                  | Some p1 ->
                                    let (half, s12) = p1 in
                                    (match parse_whitespace s12
                                             WsHalfMoveClock with
                                     | Inl e -> Ret (PErr e)
                                     | Inr s13 ->
                                       (match parse_number s13 with
                                        | Some p2 ->
                                          let (full, s14) = p2 in
                                          let b =
                                            set_meta raw turn r3 epv half
                                              full N0 N0
                                          in
                                          (match validate b with
                                           | Some e ->
                                             Ret (PErr (BoardValidation e))
                                           | None ->
                                             if is_empty_list s14
                                             then Ret (POk
                                                    (update_pin_info b))
                                             else Ret (PErr TrailingBytes))
                                        | None -> Ret (PErr MissingFullClock)))
                                  | None -> Ret (PErr MissingHalfClock)))))
                      | None -> Ret (PErr MissingCastleRights))))))
  | Trap -> Trap

(** val dec_digits : nat -> n -> n list -> n list **)

let rec dec_digits fuel n0 acc =
  match fuel with
  | O -> acc
  | S f ->
    let acc' =
      (N.add (Npos (XO (XO (XO (XO (XI XH))))))
        (N.modulo n0 (Npos (XO (XI (XO XH)))))) :: acc
    in
    if N.eqb (N.div n0 (Npos (XO (XI (XO XH))))) N0
    then acc'
    else dec_digits f (N.div n0 (Npos (XO (XI (XO XH))))) acc'

(** val show_dec : n -> n list **)

let show_dec n0 =
  dec_digits (S (S (S (S (S (S (S (S (S (S (S (S (S (S (S (S (S (S (S (S
    O)))))))))))))))))))) n0 []

(** val piece_char : color -> piece -> n **)

let piece_char c p =
  let up =
    match p with
    | Pawn -> Npos (XO (XO (XO (XO (XI (XO XH))))))
    | Knight -> Npos (XO (XI (XI (XI (XO (XO XH))))))
    | Bishop -> Npos (XO (XI (XO (XO (XO (XO XH))))))
    | Rook -> Npos (XO (XI (XO (XO (XI (XO XH))))))
    | Queen -> Npos (XI (XO (XO (XO (XI (XO XH))))))
    | King -> Npos (XI (XI (XO (XI (XO (XO XH))))))
  in
  (match c with
   | White -> up
   | Black -> N.add up (Npos (XO (XO (XO (XO (XO XH)))))))

(** val flush : n -> n list **)

let flush missing =
  if N.eqb missing N0 then [] else show_dec missing

(** val write_rank : board -> n -> n list **)

let write_rank b r =
  let (out, missing) =
    fold_left (fun acc f ->
      let (o, m) = acc in
      (match raw_get b (mk_sq f r) with
       | Some p0 ->
         let (c, p) = p0 in
         ((app o (app (flush m) ((piece_char c p) :: []))), N0)
       | None -> (o, (N.add m (Npos XH))))) (N0 :: ((Npos XH) :: ((Npos (XO
      XH)) :: ((Npos (XI XH)) :: ((Npos (XO (XO XH))) :: ((Npos (XI (XO
      XH))) :: ((Npos (XO (XI XH))) :: ((Npos (XI (XI XH))) :: []))))))))
      ([], N0)
  in
  app out
    (app (flush missing)
      (if N.eqb r N0 then [] else (Npos (XI (XI (XI (XI (XO XH)))))) :: []))

(** val write_rights : n -> n list **)

let write_rights r =
  app
    (if cr_contains r KingSide White
     then (Npos (XI (XI (XO (XI (XO (XO XH))))))) :: []
     else [])
    (app
      (if cr_contains r QueenSide White
       then (Npos (XI (XO (XO (XO (XI (XO XH))))))) :: []
       else [])
      (app
        (if cr_contains r KingSide Black
         then (Npos (XI (XI (XO (XI (XO (XI XH))))))) :: []
         else [])
        (app
          (if cr_contains r QueenSide Black
           then (Npos (XI (XO (XO (XO (XI (XI XH))))))) :: []
           else [])
          (if N.eqb r N0 then (Npos (XI (XO (XI (XI (XO XH)))))) :: [] else []))))

(** val write_fen : board -> n list **)

let write_fen b =
  app
    (flat_map (write_rank b) ((Npos (XI (XI XH))) :: ((Npos (XO (XI
      XH))) :: ((Npos (XI (XO XH))) :: ((Npos (XO (XO XH))) :: ((Npos (XI
      XH)) :: ((Npos (XO XH)) :: ((Npos XH) :: (N0 :: [])))))))))
    (app
      (match b.b_turn with
       | White ->
         (Npos (XO (XO (XO (XO (XO XH)))))) :: ((Npos (XI (XI (XI (XO (XI (XI
           XH))))))) :: ((Npos (XO (XO (XO (XO (XO XH)))))) :: []))
       | Black ->
         (Npos (XO (XO (XO (XO (XO XH)))))) :: ((Npos (XO (XI (XO (XO (XO (XI
           XH))))))) :: ((Npos (XO (XO (XO (XO (XO XH)))))) :: [])))
      (app (write_rights b.b_rights)
        (app
          (match b.b_ep with
           | Some f ->
             (Npos (XO (XO (XO (XO (XO
               XH)))))) :: ((N.add (Npos (XI (XO (XO (XO (XO (XI XH))))))) f) :: (
               (N.add (Npos (XI (XO (XO (XO (XI XH))))))
                 (ep_capture_rank_of b.b_turn)) :: ((Npos (XO (XO (XO (XO (XO
               XH)))))) :: [])))
           | None ->
             (Npos (XO (XO (XO (XO (XO XH)))))) :: ((Npos (XI (XO (XI (XI (XO
               XH)))))) :: ((Npos (XO (XO (XO (XO (XO XH)))))) :: [])))
          (app (show_dec b.b_half)
            (app ((Npos (XO (XO (XO (XO (XO XH)))))) :: [])
              (show_dec b.b_full))))))

type threefold = (board * n) list

(** val tf_key_eqb : board -> board -> bool **)

let tf_key_eqb a b =
  (&&) (N.eqb (zobrist a) (zobrist b)) (board_eqb a b)

(** val tf_get : threefold -> board -> n **)

let rec tf_get tf b =
  match tf with
  | [] -> N0
  | p :: r -> let (b', c) = p in if tf_key_eqb b' b then c else tf_get r b

(** val sat8 : n -> n **)

let sat8 x =
  if N.ltb (Npos (XI (XI (XI (XI (XI (XI (XI XH)))))))) x
  then Npos (XI (XI (XI (XI (XI (XI (XI XH)))))))
  else x

(** val tf_bump : threefold -> board -> threefold * n **)

let rec tf_bump tf b =
  match tf with
  | [] -> (((b, (Npos XH)) :: []), (Npos XH))
  | p :: r ->
    let (b', c) = p in
    if tf_key_eqb b' b
    then let c' = sat8 (N.add c (Npos XH)) in (((b', c') :: r), c')
    else let (r', c') = tf_bump r b in (((b', c) :: r'), c')

(** val tf_add : threefold -> board -> threefold * bool **)

let tf_add tf b =
  let (tf', c) = tf_bump tf b in (tf', (N.eqb c (Npos (XI XH))))

type blist = (board * n) list

(** val bl_count : blist -> threefold -> board -> n **)

let rec bl_count l tf b =
  match l with
  | [] -> tf_get tf b
  | p :: r -> let (b', c) = p in if board_eqb b' b then c else bl_count r tf b

(** val bl_new : threefold -> board -> blist **)

let bl_new tf b =
  (b, (tf_get tf b)) :: []

(** val bl_add : blist -> threefold -> board -> blist **)

let bl_add l tf b =
  (b, (sat8 (N.add (bl_count l tf b) (Npos XH)))) :: l

(** val bl_head_count : blist -> n **)

let bl_head_count = function
| [] -> N0
| p :: _ -> let (_, c) = p in c

(** val zcount : n -> z **)

let zcount x =
  Z.of_N (count x)

(** val score_pieces : board -> color -> z **)

let score_pieces b c =
  let my = colors b c in
  Z.add
    (Z.add
      (Z.add
        (Z.add
          (Z.mul (zcount (bb_and my b.b_queen)) (Zpos (XO (XO (XI (XO (XO (XO
            (XO (XI (XI XH)))))))))))
          (Z.mul (zcount (bb_and my b.b_rook)) (Zpos (XO (XO (XI (XO (XI (XI
            (XI (XI XH)))))))))))
        (Z.mul (zcount (bb_and my b.b_bishop)) (Zpos (XO (XI (XO (XI (XO (XO
          (XI (XO XH)))))))))))
      (Z.mul (zcount (bb_and my b.b_knight)) (Zpos (XO (XO (XO (XO (XO (XO
        (XI (XO XH)))))))))))
    (Z.mul (zcount (bb_and my b.b_pawn)) (Zpos (XO (XO (XI (XO (XO (XI
      XH))))))))

(** val dist_from_edge : n -> n **)

let dist_from_edge s =
  let f = file_of s in
  let r = rank_of s in
  let to_file_edge = N.min f (N.sub (Npos (XI (XI XH))) f) in
  let to_rank_edge = N.min r (N.sub (Npos (XI (XI XH))) r) in
  N.add
    (N.add (N.mul (N.mul to_file_edge to_rank_edge) (Npos (XO (XI (XO XH)))))
      (N.mul to_file_edge to_file_edge)) (N.mul to_rank_edge to_rank_edge)

(** val eval_endgame : board -> color -> z **)

let eval_endgame b better =
  let bk = king_sq b better in
  let wk = king_sq b (opp0 better) in
  let king_moves = mg_len (king_legals_gen b (opp0 better)) in
  let d = dist_geo bk wk in
  Z.add
    (Z.add
      (Z.mul (Z.mul (Z.of_N d) (Z.of_N d)) (Zpos (XO (XO (XI (XO (XO (XI
        XH))))))))
      (Z.mul (Z.of_N (dist_from_edge wk)) (Zpos (XO (XI (XO XH))))))
    (Z.mul (Z.of_N king_moves) (Zpos (XO (XO (XO (XI (XO (XI (XI (XI (XI
      XH)))))))))))

(** val eval : board -> score **)

let eval b =
  if N.leb (Npos (XO (XO (XI (XO (XO (XI XH))))))) b.b_half
  then SRaw Z0
  else let w = score_pieces b White in
       let bl = score_pieces b Black in
       let ps = Z.sub w bl in
       (match Z.compare ps Z0 with
        | Eq ->
          let we = Z0 in
          let be = Z0 in SRaw (Z.sub (Z.add w we) (Z.add bl be))
        | Lt ->
          if Z.ltb bl (Zpos (XO (XO (XO (XI (XO (XO (XO (XO (XI (XI
               XH)))))))))))
          then let we = eval_endgame b Black in
               let be = Z0 in SRaw (Z.sub (Z.add w we) (Z.add bl be))
          else let we = Z0 in
               let be = Z0 in SRaw (Z.sub (Z.add w we) (Z.add bl be))
        | Gt ->
          if Z.ltb w (Zpos (XO (XO (XO (XI (XO (XO (XO (XO (XI (XI
               XH)))))))))))
          then let we = Z0 in
               let be = eval_endgame b White in
               SRaw (Z.sub (Z.add w we) (Z.add bl be))
          else let we = Z0 in
               let be = Z0 in SRaw (Z.sub (Z.add w we) (Z.add bl be)))

(** val insufficient_material : board -> bool **)

let insufficient_material b =
  if any (bb_or (bb_or b.b_queen b.b_rook) b.b_pawn)
  then false
  else let bishops = count b.b_bishop in
       let knights = count b.b_knight in
       (||) ((&&) (N.leb knights (Npos XH)) (N.eqb bishops N0))
         ((&&) (N.eqb knights N0) (N.leb bishops (Npos XH)))

(** val worst : color -> score **)

let worst = function
| White -> SMin
| Black -> SMax

(** val is_better : color -> score -> score -> bool **)

let is_better c sc new0 =
  match c with
  | White -> ltb0 sc new0
  | Black -> gtb sc new0

(** val upd_alpha : color -> score -> score -> score **)

let upd_alpha c alpha sc =
  match c with
  | White -> smax sc alpha
  | Black -> alpha

(** val upd_beta : color -> score -> score -> score **)

let upd_beta c beta sc =
  match c with
  | White -> beta
  | Black -> smin sc beta

(** val mate_score : color -> n -> score **)

let mate_score to_move d =
  match to_move with
  | White -> SBlackMateIn d
  | Black -> SWhiteMateIn d

(** val sat_sub1 : n -> n **)

let sat_sub1 d =
  if N.eqb d N0 then N0 else N.sub d (Npos XH)

type sst = { s_polls : n; s_evals : n }

(** val bump_eval : sst -> sst **)

let bump_eval st0 =
  { s_polls = st0.s_polls; s_evals = (N.add st0.s_evals (Npos XH)) }

(** val bump_poll : sst -> sst **)

let bump_poll st0 =
  { s_polls = (N.add st0.s_polls (Npos XH)); s_evals = st0.s_evals }

type ares =
| AVal of score * sst
| ATimeout
| AFuel

(** val expired : n -> sst -> bool **)

let expired k st0 =
  N.leb k st0.s_polls

(** val alphabeta :
    n -> threefold -> nat -> color -> board -> move -> n -> n -> score ->
    score -> blist -> sst -> ares **)

let rec alphabeta k tf fuel c old mv remaining current alpha beta bl st0 =
  match fuel with
  | O -> AFuel
  | S fuel' ->
    let b = apply old mv in
    let was_capture =
      match raw_get old mv.m_dst with
      | Some _ -> true
      | None -> false
    in
    let bl' = if was_capture then bl_new tf b else bl_add bl tf b in
    if (&&) was_capture (insufficient_material b)
    then AVal ((SRaw Z0), st0)
    else let g0 = legals_gen b in
         if mg_is_empty g0
         then AVal ((if in_check0 b then mate_score c current else SRaw Z0),
                st0)
         else if N.leb (Npos (XO (XO (XI (XO (XO (XI XH))))))) b.b_half
              then AVal ((SRaw Z0), st0)
              else if N.eqb (bl_head_count bl') (Npos (XI XH))
                   then AVal ((SRaw Z0), st0)
                   else let g1 =
                          if (&&) (N.eqb remaining N0) was_capture
                          then mg_set_mask g0 (colors b (opp0 c))
                          else g0
                        in
                        let complete =
                          (&&) (N.eqb remaining N0)
                            (if was_capture then mg_is_empty g1 else true)
                        in
                        if complete
                        then AVal ((eval b), (bump_eval st0))
                        else let rec loop moves sc alpha0 beta0 st1 =
                               match moves with
                               | [] -> AVal (sc, st1)
                               | m :: rest ->
                                 if expired k st1
                                 then ATimeout
                                 else (match alphabeta k tf fuel' (opp0 c) b
                                               m (sat_sub1 remaining)
                                               (N.add current (Npos XH))
                                               alpha0 beta0 bl'
                                               (bump_poll st1) with
                                       | AVal (new0, st2) ->
                                         let sc' =
                                           if is_better c sc new0
                                           then new0
                                           else sc
                                         in
                                         let alpha' = upd_alpha c alpha0 sc'
                                         in
                                         let beta' = upd_beta c beta0 sc' in
                                         if leb0 beta' alpha'
                                         then AVal (sc', st2)
                                         else loop rest sc' alpha' beta' st2
                                       | x -> x)
                             in loop (mg_drain g1) (worst c) alpha beta st0

type rres =
| RVal of score * move option * score * score * sst
| RTimeout
| RFuel

(** val root_phase :
    n -> threefold -> nat -> color -> board -> n -> move list -> score ->
    move option -> score -> score -> sst -> rres **)

let rec root_phase k tf fuel c root depth moves sc best alpha beta st0 =
  match moves with
  | [] -> RVal (sc, best, alpha, beta, st0)
  | m :: rest ->
    (match alphabeta k tf fuel (opp0 c) root m depth (Npos XH) alpha beta
             (bl_new tf root) st0 with
     | AVal (new0, st1) ->
       if expired k st1
       then RTimeout
       else let st2 = bump_poll st1 in
            let better = is_better c sc new0 in
            let sc' = if better then new0 else sc in
            let best' = if better then Some m else best in
            root_phase k tf fuel c root depth rest sc' best'
              (upd_alpha c alpha sc') (upd_beta c beta sc') st2
     | ATimeout -> RTimeout
     | AFuel -> RFuel)

type pass_result =
| PassTimeout
| PassFuel
| PassDone of score * move option * sst

(** val pass :
    n -> threefold -> nat -> board -> n -> move option -> sst -> pass_result **)

let pass k tf fuel root depth prev st0 =
  let c = root.b_turn in
  let g0 = legals_gen root in
  let first =
    match prev with
    | Some mv ->
      ((root_phase k tf fuel c root depth (mv :: []) (worst c) None SMin SMax
         st0), (fst (mg_remove_move g0 mv)))
    | None -> ((RVal ((worst c), None, SMin, SMax, st0)), g0)
  in
  let (r, g1) = first in
  (match r with
   | RVal (sc, best, a, b', st1) ->
     let g2 = mg_set_mask g1 (colors root (opp0 c)) in
     let caps = mg_drain g2 in
     (match root_phase k tf fuel c root depth caps sc best a b' st1 with
      | RVal (sc2, best2, a2, b2, st2) ->
        let g3 = fold_left (fun g3 _ -> snd (mg_next g3)) caps g2 in
        let quiet = mg_drain (mg_set_mask g3 bb_full) in
        (match root_phase k tf fuel c root depth quiet sc2 best2 a2 b2 st2 with
         | RVal (sc3, best3, _, _, st3) ->
           if expired k st3
           then PassTimeout
           else PassDone (sc3, best3, (bump_poll st3))
         | RTimeout -> PassTimeout
         | RFuel -> PassFuel)
      | RTimeout -> PassTimeout
      | RFuel -> PassFuel)
   | RTimeout -> PassTimeout
   | RFuel -> PassFuel)

(** val is_mate_score : score -> bool **)

let is_mate_score = function
| SBlackMateIn _ -> true
| SWhiteMateIn _ -> true
| _ -> false

(** val deepen :
    n -> threefold -> nat -> nat -> board -> n -> move option -> score -> n
    -> sst -> ((move option * score) * n) * bool **)

let rec deepen k tf passes fuel root depth best bsc maxd st0 =
  match passes with
  | O -> (((best, bsc), maxd), true)
  | S p ->
    (match pass k tf (add fuel (N.to_nat depth)) root depth best st0 with
     | PassTimeout -> (((best, bsc), maxd), false)
     | PassFuel -> (((best, bsc), maxd), true)
     | PassDone (sc, b', st') ->
       (match b' with
        | Some _ ->
          if is_mate_score sc
          then (((b', sc), depth), false)
          else if N.eqb depth (Npos (XI (XI (XI (XI (XI (XI (XI (XI (XI (XI
                    (XI (XI (XI (XI (XI XH))))))))))))))))
               then (((b', sc), depth), false)
               else deepen k tf p fuel root (N.add depth (Npos XH)) b' sc
                      depth st'
        | None -> (((None, sc), depth), false)))

(** val search :
    n -> threefold -> nat -> nat -> board -> ((move
    option * score) * n) * bool **)

let search k tf passes fuel root =
  deepen k tf passes fuel root N0 None (worst root.b_turn) N0 { s_polls = N0;
    s_evals = N0 }

type bot = { bt_board : board; bt_tf : threefold }

(** val bot_init : bot **)

let bot_init =
  { bt_board = standard; bt_tf = [] }

(** val bot_set_board : board -> bot **)

let bot_set_board b =
  { bt_board = b; bt_tf = [] }

(** val bot_make_move : bot -> move -> bot * (bool * bool) **)

let bot_make_move s m =
  if is_legal s.bt_board m
  then let b' = apply s.bt_board m in
       let (tf', three) = tf_add s.bt_tf b' in
       ({ bt_board = b'; bt_tf = tf' }, (true, three))
  else (s, (false, false))

(** val bot_evaluate : n -> nat -> nat -> bot -> move option * score **)

let bot_evaluate k passes fuel s =
  let (p, _) = search k s.bt_tf passes fuel s.bt_board in
  let (p0, _) = p in p0

(** val api_score_cmp : score -> score -> comparison **)

let api_score_cmp =
  cmp

(** val api_score_partial_cmp : score -> score -> comparison option **)

let api_score_partial_cmp =
  partial_cmp

(** val api_score_eqb : score -> score -> bool **)

let api_score_eqb =
  eqb0

(** val api_score_ltb : score -> score -> bool **)

let api_score_ltb =
  ltb0

(** val api_score_leb : score -> score -> bool **)

let api_score_leb =
  leb0

(** val api_score_gtb : score -> score -> bool **)

let api_score_gtb =
  gtb

(** val api_score_max : score -> score -> score **)

let api_score_max =
  smax

(** val api_score_min : score -> score -> score **)

let api_score_min =
  smin

(** val api_score_neg : score -> score **)

let api_score_neg =
  neg

(** val api_color : n -> color **)

let api_color i =
  if N.eqb i N0 then White else Black

(** val api_table : n -> n -> n **)

let api_table name s =
  match name with
  | N0 -> knight_geo s
  | Npos p ->
    (match p with
     | XI p0 ->
       (match p0 with
        | XI p1 -> (match p1 with
                    | XH -> pawn_push_geo Black s
                    | _ -> N0)
        | XO p1 -> (match p1 with
                    | XH -> pawn_att_geo Black s
                    | _ -> N0)
        | XH -> bishop_rays_geo s)
     | XO p0 ->
       (match p0 with
        | XI p1 -> (match p1 with
                    | XH -> pawn_push_geo White s
                    | _ -> N0)
        | XO p1 -> (match p1 with
                    | XH -> pawn_att_geo White s
                    | _ -> N0)
        | XH -> rook_rays_geo s)
     | XH -> king_geo s)

(** val api_between : n -> n -> n **)

let api_between =
  between_geo

(** val api_line : n -> n -> n **)

let api_line =
  line_geo

(** val api_dist : n -> n -> n **)

let api_dist =
  dist_geo

(** val api_rook_attacks : n -> n -> n **)

let api_rook_attacks =
  rook_attacks

(** val api_bishop_attacks : n -> n -> n **)

let api_bishop_attacks =
  bishop_attacks

(** val api_pawn_quiets : n -> n -> n -> n **)

let api_pawn_quiets c s occ =
  pawn_quiets_spec (api_color c) s occ

(** val api_pawn_attacks : n -> n -> n -> n **)

let api_pawn_attacks c s occ =
  pawn_attacks_spec (api_color c) s occ

(** val api_pawn_moves : n -> n -> n -> n **)

let api_pawn_moves c s occ =
  pawn_moves_spec (api_color c) s occ

(** val api_ranks : n list -> n **)

let api_ranks rs =
  set_of (filter (fun s -> existsb (N.eqb (rank_of s)) rs) sq_list)

(** val api_files : n list -> n **)

let api_files fs =
  set_of (filter (fun s -> existsb (N.eqb (file_of s)) fs) sq_list)

(** val api_squares : n list -> n **)

let api_squares =
  set_of

(** val api_adjacent : n -> n **)

let api_adjacent i =
  set_of (filter (fun s -> N.eqb (absdiff (file_of s) i) (Npos XH)) sq_list)

(** val api_adjacent_ranks : n -> n **)

let api_adjacent_ranks i =
  set_of (filter (fun s -> N.eqb (absdiff (rank_of s) i) (Npos XH)) sq_list)

(** val api_zk : n -> n -> n **)

let api_zk kind0 i =
  match kind0 with
  | N0 -> nthN0 piece_zobrist_tbl i
  | Npos p ->
    (match p with
     | XI _ -> nthN0 turn_zobrist_tbl i
     | XO p0 ->
       (match p0 with
        | XH -> lk_ep_zobrist i
        | _ -> nthN0 turn_zobrist_tbl i)
     | XH -> lk_castle_zobrist i)

(** val api_elements : n -> n list **)

let api_elements =
  elements

(** val api_bb_not : n -> n **)

let api_bb_not =
  bb_not

(** val api_shift_up : n -> n **)

let api_shift_up =
  shift_up

(** val api_shift_down : n -> n **)

let api_shift_down =
  shift_down

(** val api_shift_left : n -> n **)

let api_shift_left =
  shift_left

(** val api_shift_right : n -> n **)

let api_shift_right =
  shift_right

(** val api_flip_ranks : n -> n **)

let api_flip_ranks =
  flip_ranks

(** val api_count : n -> n **)

let api_count =
  count

(** val api_pop : n -> (n * n) option **)

let api_pop =
  pop

(** val api_iter_list : n -> n list **)

let api_iter_list =
  iter_list

(** val api_from_squares : n list -> n **)

let api_from_squares =
  from_squares

(** val api_from_boards : n list -> n **)

let api_from_boards =
  from_boards

(** val api_from_pos : n -> n **)

let api_from_pos =
  from_pos

(** val api_from_file : n -> n **)

let api_from_file =
  from_file

(** val api_from_rank : n -> n **)

let api_from_rank =
  from_rank

(** val api_contains : n -> n -> bool **)

let api_contains =
  contains

(** val api_with : n -> n -> n **)

let api_with =
  bb_with

(** val api_cleared : n -> n -> n **)

let api_cleared =
  cleared

(** val api_or : n -> n -> n **)

let api_or =
  bb_or

(** val api_and : n -> n -> n **)

let api_and =
  bb_and

(** val api_xor : n -> n -> n **)

let api_xor =
  bb_xor

(** val api_diff : n -> n -> n **)

let api_diff =
  bb_diff

(** val api_any : n -> bool **)

let api_any =
  any

(** val api_none : n -> bool **)

let api_none =
  none

(** val api_all : n -> bool **)

let api_all =
  bb_all

(** val api_some : n -> bool **)

let api_some =
  bb_some

(** val api_nth_default : n -> n -> n option * n **)

let api_nth_default =
  nth_default

(** val api_nth_spec : n -> n -> n option * n **)

let api_nth_spec a n0 =
  let l = elements a in
  if N.ltb n0 (Npos (XO (XO (XO (XO (XO (XO XH)))))))
  then ((nth_error l (N.to_nat n0)), (set_of (skipn (S (N.to_nat n0)) l)))
  else (None, N0)

(** val api_abi_stable_rt : cmove -> cmove **)

let api_abi_stable_rt m =
  of_stable (to_stable m)

(** val api_abi_eval_rt : cmove option -> score -> cmove option * score **)

let api_abi_eval_rt =
  evaluated_roundtrip

(** val api_file_from_ascii_bytes : n list -> n option **)

let api_file_from_ascii_bytes =
  file_from_ascii_bytes

(** val api_rank_from_ascii_bytes : n list -> n option **)

let api_rank_from_ascii_bytes =
  rank_from_ascii_bytes

(** val api_pos_from_ascii_bytes : n list -> n option **)

let api_pos_from_ascii_bytes =
  pos_from_ascii_bytes

(** val api_piece_from_ascii_bytes : n list -> n option **)

let api_piece_from_ascii_bytes =
  piece_from_ascii_bytes

(** val api_promo_from_ascii_bytes : n list -> n option **)

let api_promo_from_ascii_bytes =
  promo_from_ascii_bytes

(** val api_move_from_ascii_bytes : n list -> (n * n) option **)

let api_move_from_ascii_bytes =
  move_from_ascii_bytes

(** val api_pos_show : n -> n list **)

let api_pos_show =
  pos_show

(** val api_file_show : n -> n list **)

let api_file_show =
  file_show

(** val api_rank_show : n -> n list **)

let api_rank_show =
  rank_show

(** val api_move_show_full : n -> n -> n option -> n list **)

let api_move_show_full =
  move_show_full

(** val api_enum_from_u8 : n -> n -> n option **)

let api_enum_from_u8 =
  enum_from_u8

(** val api_pos_file : n -> n **)

let api_pos_file =
  pos_file

(** val api_pos_rank : n -> n **)

let api_pos_rank =
  pos_rank

(** val api_pos_new : n -> n -> n **)

let api_pos_new =
  pos_new

(** val api_pos_shift_up : n -> n option **)

let api_pos_shift_up =
  pos_shift_up

(** val api_pos_shift_down : n -> n option **)

let api_pos_shift_down =
  pos_shift_down

(** val api_pos_shift_left : n -> n option **)

let api_pos_shift_left =
  pos_shift_left

(** val api_pos_shift_right : n -> n option **)

let api_pos_shift_right =
  pos_shift_right

(** val api_pos_flip_rank : n -> n **)

let api_pos_flip_rank =
  pos_flip_rank

(** val api_file_shift_left : n -> n option **)

let api_file_shift_left =
  file_shift_left

(** val api_file_shift_right : n -> n option **)

let api_file_shift_right =
  file_shift_right

(** val api_rank_shift_down : n -> n option **)

let api_rank_shift_down =
  rank_shift_down

(** val api_rank_shift_up : n -> n option **)

let api_rank_shift_up =
  rank_shift_up

(** val api_rank_flip : n -> n **)

let api_rank_flip =
  rank_flip

(** val api_dist_to : n -> n -> n **)

let api_dist_to =
  dist_to

(** val api_color_not : n -> n **)

let api_color_not =
  color_not

(** val api_side_not : n -> n **)

let api_side_not =
  side_not

(** val api_run_iter : n -> iop list -> n option list **)

let api_run_iter =
  run_iter

(** val api_run_allpos : iop list -> n option list **)

let api_run_allpos =
  run_allpos

(** val api_file_iter_next : n -> range -> n option * range **)

let api_file_iter_next =
  file_iter_next

(** val api_rank_iter_next : n -> range -> n option * range **)

let api_rank_iter_next =
  rank_iter_next

(** val api_mk_range : n -> n -> range **)

let api_mk_range x x0 =
  { lo = x; hi = x0 }

(** val api_run_stack : n list -> (n * sop) list -> bool list list **)

let api_run_stack =
  run_stack

(** val api_parse_fen_t : n list -> presult outcome **)

let api_parse_fen_t =
  parse_fen_t

(** val api_write_fen : board -> n list **)

let api_write_fen =
  write_fen

(** val api_legals : board -> move list **)

let api_legals =
  legals

(** val api_is_legal : board -> move -> bool **)

let api_is_legal =
  is_legal

(** val api_gen_len : board -> n * bool **)

let api_gen_len b =
  let g0 = legals_gen b in ((mg_len g0), (mg_is_empty g0))

(** val api_in_check : board -> bool **)

let api_in_check =
  in_check0

(** val api_state : board -> gstate **)

let api_state =
  state

(** val api_zobrist : board -> n **)

let api_zobrist =
  zobrist

(** val api_apply : board -> move -> board **)

let api_apply =
  apply

(** val api_abs : board -> position **)

let api_abs =
  abs

(** val api_board_all_eqb : board -> board -> bool **)

let api_board_all_eqb =
  board_all_eqb

(** val api_board_eqb : board -> board -> bool **)

let api_board_eqb =
  board_eqb

(** val api_standard : board **)

let api_standard =
  standard

(** val api_empty_board : board **)

let api_empty_board =
  empty_board

(** val api_bstep : board -> bop -> board * bool **)

let api_bstep =
  bstep

(** val api_build : board -> (board, verr) sum **)

let api_build =
  build

(** val api_spec_legal_moves : position -> move list **)

let api_spec_legal_moves =
  legal_moves

(** val api_spec_is_legal : position -> move -> bool **)

let api_spec_is_legal =
  is_legal_move

(** val api_spec_in_check : position -> bool **)

let api_spec_in_check =
  in_check

(** val api_spec_classify : position -> status **)

let api_spec_classify =
  classify

(** val api_spec_make : position -> move -> position **)

let api_spec_make =
  make

(** val api_spec_playable : position -> bool **)

let api_spec_playable =
  playable

(** val api_spec_same_position : position -> position -> bool **)

let api_spec_same_position =
  same_position

(** val api_spec_start : position **)

let api_spec_start =
  start_position

(** val api_spec_mirror : position -> position **)

let api_spec_mirror =
  mirror

(** val api_spec_pos_eqb : position -> position -> bool **)

let api_spec_pos_eqb a b =
  (&&) ((&&) (same_position a b) (N.eqb a.hm b.hm)) (N.eqb a.fm b.fm)

(** val api_legals_gen : board -> movegen **)

let api_legals_gen =
  legals_gen

(** val api_legals_masked_gen : board -> n -> movegen **)

let api_legals_masked_gen =
  legals_masked_gen

(** val api_mg_next : movegen -> move option * movegen **)

let api_mg_next =
  mg_next

(** val api_mg_len : movegen -> n **)

let api_mg_len =
  mg_len

(** val api_mg_is_empty : movegen -> bool **)

let api_mg_is_empty =
  mg_is_empty

(** val api_mg_set_mask : movegen -> n -> movegen **)

let api_mg_set_mask =
  mg_set_mask

(** val api_mg_remove : movegen -> n -> movegen **)

let api_mg_remove =
  mg_remove

(** val api_mg_remove_move : movegen -> move -> movegen * bool **)

let api_mg_remove_move =
  mg_remove_move

(** val api_mk_move : n -> n -> piece option -> move **)

let api_mk_move s d p =
  { m_src = s; m_dst = d; m_promo = p }

(** val api_search :
    n -> nat -> nat -> board -> ((move option * score) * n) * bool **)

let api_search k passes fuel root =
  search k [] passes fuel root

(** val tf_rep : nat -> board -> threefold **)

let rec tf_rep reps b =
  match reps with
  | O -> []
  | S n0 -> fst (tf_add (tf_rep n0 b) b)

(** val api_search_tf :
    n -> nat -> nat -> nat -> board -> ((move option * score) * n) * bool **)

let api_search_tf k reps passes fuel root =
  search k (tf_rep reps root) passes fuel root

(** val tf_add_n : nat -> threefold -> board -> threefold **)

let rec tf_add_n reps tf b =
  match reps with
  | O -> tf
  | S n0 -> fst (tf_add (tf_add_n n0 tf b) b)

(** val tf_children : nat -> board -> threefold **)

let tf_children reps root =
  fold_left (fun tf m -> tf_add_n reps tf (apply root m)) (legals root) []

(** val api_search_tfc :
    n -> nat -> nat -> nat -> board -> ((move option * score) * n) * bool **)

let api_search_tfc k reps passes fuel root =
  search k (tf_children reps root) passes fuel root

(** val api_nat_of_N : n -> nat **)

let api_nat_of_N =
  N.to_nat

(** val api_score_neg2 : score -> score **)

let api_score_neg2 =
  neg

(** val api_bot_init : bot **)

let api_bot_init =
  bot_init

(** val api_bot_set_board : board -> bot **)

let api_bot_set_board =
  bot_set_board

(** val api_bot_make_move : bot -> move -> bot * (bool * bool) **)

let api_bot_make_move =
  bot_make_move

(** val api_bot_evaluate : n -> nat -> nat -> bot -> move option * score **)

let api_bot_evaluate =
  bot_evaluate

(** val api_bot_board : bot -> board **)

let api_bot_board b =
  b.bt_board
